(** Property C08: equivalent spellings of one invocation.

    Part 1  keys: aliases (visible or hidden) are first-class keys of the key map and resolve to the
            same argument as the canonical name ([get_long], [get_short]); the uniqueness hypothesis is
            what the validity gate [assert_app] establishes.
    Part 2  prefix inference ([parse_long_arg]'s lookup, [possible_subcommand],
            [possible_long_flag_subcommand]): a resolved prefix is an exact match or the only candidate;
            two distinct candidates and no exact match resolve to nothing; an exact match wins.
    Part 3  step-level spelling equalities for every parser state: [--l=v] vs [--l v], [-ov] vs
            [-o=v] vs [-o v], a short cluster vs separate short flags. *)
From ClapModel Require Import Base.Bytes Base.Machine Base.Utf8 Lex.OsStrExtModel.
From ClapModel Require Import Parse.Cmd Parse.Build Parse.Valid Parse.Matcher Parse.Errors Parse.Validator Parse.Parser.
From Coq Require Import ZArith Lia List Bool.
From RecordUpdate Require Import RecordSet.
Import RecordSetNotations.
Import ListNotations.
Open Scope N_scope.

(** * Part 1: aliases are keys *)

Definition long_names (a : arg) : list bytes :=
  (match a_long a with Some l => [l] | None => [] end) ++ map fst (a_aliases a).
Definition short_names (a : arg) : list N :=
  (match a_short a with Some s => [s] | None => [] end) ++ map fst (a_short_aliases a).

(** what [assert_app] guarantees about the flags of one command level (see [assert_app_long_unique]) *)
Definition long_unique (c : cmd) : Prop :=
  forall a b l, In a (c_args c) -> In b (c_args c) -> In l (long_names a) -> In l (long_names b) -> a = b.
Definition short_unique (c : cmd) : Prop :=
  forall a b s, In a (c_args c) -> In b (c_args c) -> In s (short_names a) -> In s (short_names b) -> a = b.

Lemma in_keymap c k a : In (k, a) (keymap c) <-> In a (c_args c) /\ In k (arg_keys a).
Proof.
  unfold keymap. rewrite in_flat_map. split.
  - intros [x [Hx H]]. apply in_map_iff in H. destruct H as [k' [E Hk]]. inversion E; subst. auto.
  - intros [Ha Hk]. exists a. split; [exact Ha|]. apply in_map_iff. exists k. auto.
Qed.

Lemma arg_keys_long_in a l : In (KLong l) (arg_keys a) -> In l (long_names a).
Proof.
  unfold arg_keys, long_names. destruct (a_index a).
  - intros [H|[]]. discriminate.
  - rewrite !in_app_iff. intros [H|[H|[H|H]]].
    + destruct (a_short a); [destruct H as [H|[]]; discriminate|destruct H].
    + left. destruct (a_long a); [|destruct H]. destruct H as [H|[]]. inversion H. left. reflexivity.
    + apply in_map_iff in H. destruct H as [x [E _]]. discriminate.
    + right. apply in_map_iff in H. destruct H as [x [E Hx]]. inversion E. apply in_map. exact Hx.
Qed.

Lemma arg_keys_long_of a l : a_index a = None -> In l (long_names a) -> In (KLong l) (arg_keys a).
Proof.
  unfold arg_keys, long_names. intros ->. rewrite !in_app_iff. intros [H|H].
  - right. left. destruct (a_long a); [|destruct H]. destruct H as [<-|[]]. left. reflexivity.
  - right. right. right. apply in_map_iff in H. destruct H as [x [<- Hx]].
    apply in_map_iff. exists x. auto.
Qed.

Lemma arg_keys_short_in a s : In (KShort s) (arg_keys a) -> In s (short_names a).
Proof.
  unfold arg_keys, short_names. destruct (a_index a).
  - intros [H|[]]. discriminate.
  - rewrite !in_app_iff. intros [H|[H|[H|H]]].
    + left. destruct (a_short a); [|destruct H]. destruct H as [H|[]]. inversion H. left. reflexivity.
    + destruct (a_long a); [destruct H as [H|[]]; discriminate|destruct H].
    + right. apply in_map_iff in H. destruct H as [x [E Hx]]. inversion E. apply in_map. exact Hx.
    + apply in_map_iff in H. destruct H as [x [E _]]. discriminate.
Qed.

Lemma arg_keys_short_of a s : a_index a = None -> In s (short_names a) -> In (KShort s) (arg_keys a).
Proof.
  unfold arg_keys, short_names. intros ->. rewrite !in_app_iff. intros [H|H].
  - left. destruct (a_short a); [|destruct H]. destruct H as [<-|[]]. left. reflexivity.
  - right. right. left. apply in_map_iff in H. destruct H as [x [<- Hx]].
    apply in_map_iff. exists x. auto.
Qed.

(** every long name of an argument -- the canonical long and every alias, visible or hidden --
    is a key that [get_long] resolves to that argument *)
Theorem get_long_names c a l :
  long_unique c -> In a (c_args c) -> a_index a = None -> In l (long_names a) -> get_long c l = Some a.
Proof.
  intros U Ha Hi Hl. unfold get_long.
  destruct (find _ (keymap c)) as [[k b]|] eqn:E.
  - apply find_some in E. destruct E as [Hin Hf]. cbn [fst] in Hf.
    destruct k as [s|l'|n]; try discriminate. apply beq_eq in Hf. subst l'.
    apply in_keymap in Hin. destruct Hin as [Hb Hk]. apply arg_keys_long_in in Hk.
    cbn [opt_map snd]. f_equal. symmetry. apply (U a b l); assumption.
  - exfalso. pose proof (find_none _ _ E (KLong l, a)) as N.
    cbn [fst] in N. rewrite beq_refl in N. assert (true = false) by (apply N; apply in_keymap; split;
      [exact Ha|apply arg_keys_long_of; assumption]). discriminate.
Qed.

Theorem get_short_names c a s :
  short_unique c -> In a (c_args c) -> a_index a = None -> In s (short_names a) -> get_short c s = Some a.
Proof.
  intros U Ha Hi Hs. unfold get_short.
  destruct (find _ (keymap c)) as [[k b]|] eqn:E.
  - apply find_some in E. destruct E as [Hin Hf]. cbn [fst] in Hf.
    destruct k as [s'|l'|n]; try discriminate. apply N.eqb_eq in Hf. subst s'.
    apply in_keymap in Hin. destruct Hin as [Hb Hk]. apply arg_keys_short_in in Hk.
    cbn [opt_map snd]. f_equal. symmetry. apply (U a b s); assumption.
  - exfalso. pose proof (find_none _ _ E (KShort s, a)) as N.
    cbn [fst] in N. rewrite N.eqb_refl in N. assert (true = false) by (apply N; apply in_keymap; split;
      [exact Ha|apply arg_keys_short_of; assumption]). discriminate.
Qed.

(** the property's wording: an alias and the canonical name select the same argument *)
Theorem alias_is_key c a l0 l vis :
  long_unique c -> In a (c_args c) -> a_index a = None ->
  a_long a = Some l0 -> In (l, vis) (a_aliases a) ->
  get_long c l = Some a /\ get_long c l = get_long c l0.
Proof.
  intros U Ha Hi Hl Hal.
  assert (H1 : get_long c l = Some a).
  { apply get_long_names; try assumption. unfold long_names. apply in_or_app. right.
    apply in_map_iff. exists (l, vis). auto. }
  assert (H0 : get_long c l0 = Some a).
  { apply get_long_names; try assumption. unfold long_names. rewrite Hl. left. reflexivity. }
  split; [exact H1|]. rewrite H1, H0. reflexivity.
Qed.

Theorem short_alias_is_key c a s0 s vis :
  short_unique c -> In a (c_args c) -> a_index a = None ->
  a_short a = Some s0 -> In (s, vis) (a_short_aliases a) ->
  get_short c s = Some a /\ get_short c s = get_short c s0.
Proof.
  intros U Ha Hi Hs Hal.
  assert (H1 : get_short c s = Some a).
  { apply get_short_names; try assumption. unfold short_names. apply in_or_app. right.
    apply in_map_iff. exists (s, vis). auto. }
  assert (H0 : get_short c s0 = Some a).
  { apply get_short_names; try assumption. unfold short_names. rewrite Hs. left. reflexivity. }
  split; [exact H1|]. rewrite H1, H0. reflexivity.
Qed.

(** ** The validity gate gives the uniqueness hypotheses *)

Lemma count_if_lt2 {A} (f : A -> bool) l a b :
  (count_if f l < 2)%nat -> In a l -> In b l -> f a = true -> f b = true -> a = b.
Proof.
  unfold count_if. induction l as [|x t IH]; intros Hc Ha Hb Fa Fb; [destruct Ha|].
  cbn [filter] in Hc. destruct (f x) eqn:Fx.
  - cbn [length] in Hc.
    assert (Hnil : forall y, In y t -> f y = true -> False).
    { intros y Hy Fy. assert (In y (filter f t)) by (apply filter_In; auto).
      destruct (filter f t); [destruct H|cbn [length] in Hc; lia]. }
    destruct Ha as [<-|Ha]; destruct Hb as [<-|Hb]; try reflexivity.
    + exfalso. apply (Hnil b Hb Fb).
    + exfalso. apply (Hnil a Ha Fa).
    + exfalso. apply (Hnil a Ha Fa).
  - destruct Ha as [<-|Ha]; [congruence|]. destruct Hb as [<-|Hb]; [congruence|]. apply IH; assumption.
Qed.

Lemma flags_ok_spec {K} (eqk : K -> K -> bool) l f1 k1 o1 f2 k2 o2 :
  flags_ok eqk l = true -> In (f1, k1, o1) l -> In (f2, k2, o2) l -> eqk f1 f2 = true -> o1 = o2.
Proof.
  unfold flags_ok. intros H H1 H2 E. rewrite forallb_forall in H. specialize (H _ H1).
  rewrite forallb_forall in H. specialize (H _ H2). cbn in H. rewrite E in H.
  apply andb_true_iff in H. destruct H as [_ H]. apply beq_eq in H. exact H.
Qed.

Lemma assert_app_parts c : assert_app c = true ->
  forallb (fun a => Nat.ltb (count_if (fun x => beq (a_id x) (a_id a)) (c_args c)) 2) (c_args c) = true
  /\ flags_ok beq
       (flat_map (fun sc => (match c_long_flag sc with Some l => [(l, true, c_name sc)] | None => [] end)
                            ++ map (fun p => (fst p, true, c_name sc)) (c_long_flag_aliases sc)) (c_subs c)
        ++ flat_map (fun a => (match a_long a with Some l => [(l, false, a_id a)] | None => [] end)
                              ++ map (fun p => (fst p, false, a_id a)) (a_aliases a)) (c_args c)) = true
  /\ flags_ok N.eqb
       (flat_map (fun sc => (match c_short_flag sc with Some s => [(s, true, c_name sc)] | None => [] end)
                            ++ map (fun p => (fst p, true, c_name sc)) (c_short_flag_aliases sc)) (c_subs c)
        ++ flat_map (fun a => (match a_short a with Some s => [(s, false, a_id a)] | None => [] end)
                              ++ map (fun p => (fst p, false, a_id a)) (a_short_aliases a)) (c_args c)) = true.
Proof.
  unfold assert_app. intros H.
  repeat (apply andb_true_iff in H; let H' := fresh "P" in destruct H as [H H']).
  split; [|split; assumption].
  apply forallb_forall. intros a Ha.
  match goal with HA : forallb _ (c_args c) = true |- _ =>
    rewrite forallb_forall in HA; specialize (HA a Ha);
    repeat (apply andb_true_iff in HA; let H' := fresh "Q" in destruct HA as [HA H'])
  end.
  assumption.
Qed.

Lemma ids_unique c a b : assert_app c = true -> In a (c_args c) -> In b (c_args c) -> a_id a = a_id b -> a = b.
Proof.
  intros V Ha Hb E. destruct (assert_app_parts c V) as [I _].
  rewrite forallb_forall in I. specialize (I a Ha). apply Nat.ltb_lt in I.
  apply (count_if_lt2 _ _ a b I Ha Hb); [apply beq_refl|]. rewrite E. apply beq_refl.
Qed.

Theorem assert_app_long_unique c : assert_app c = true -> long_unique c.
Proof.
  intros V a b l Ha Hb La Lb. destruct (assert_app_parts c V) as [_ [F _]].
  apply (ids_unique c a b V Ha Hb).
  assert (T : forall x, In x (c_args c) -> In l (long_names x) ->
     In (l, false, a_id x)
       (flat_map (fun sc => (match c_long_flag sc with Some l => [(l, true, c_name sc)] | None => [] end)
                            ++ map (fun p => (fst p, true, c_name sc)) (c_long_flag_aliases sc)) (c_subs c)
        ++ flat_map (fun a => (match a_long a with Some l => [(l, false, a_id a)] | None => [] end)
                              ++ map (fun p => (fst p, false, a_id a)) (a_aliases a)) (c_args c))).
  { intros x Hx Lx. apply in_or_app. right. apply in_flat_map. exists x. split; [exact Hx|].
    unfold long_names in Lx. apply in_app_or in Lx. apply in_or_app. destruct Lx as [Lx|Lx].
    - left. destruct (a_long x); [|destruct Lx]. destruct Lx as [<-|[]]. left. reflexivity.
    - right. apply in_map_iff in Lx. destruct Lx as [p [<- Hp]]. apply in_map_iff. exists p. auto. }
  apply (flags_ok_spec beq _ l false (a_id a) l false (a_id b) F (T a Ha La) (T b Hb Lb)). apply beq_refl.
Qed.

Theorem assert_app_short_unique c : assert_app c = true -> short_unique c.
Proof.
  intros V a b s Ha Hb La Lb. destruct (assert_app_parts c V) as [_ [_ F]].
  apply (ids_unique c a b V Ha Hb).
  assert (T : forall x, In x (c_args c) -> In s (short_names x) ->
     In (s, false, a_id x)
       (flat_map (fun sc => (match c_short_flag sc with Some s => [(s, true, c_name sc)] | None => [] end)
                            ++ map (fun p => (fst p, true, c_name sc)) (c_short_flag_aliases sc)) (c_subs c)
        ++ flat_map (fun a => (match a_short a with Some s => [(s, false, a_id a)] | None => [] end)
                              ++ map (fun p => (fst p, false, a_id a)) (a_short_aliases a)) (c_args c))).
  { intros x Hx Lx. apply in_or_app. right. apply in_flat_map. exists x. split; [exact Hx|].
    unfold short_names in Lx. apply in_app_or in Lx. apply in_or_app. destruct Lx as [Lx|Lx].
    - left. destruct (a_short x); [|destruct Lx]. destruct Lx as [<-|[]]. left. reflexivity.
    - right. apply in_map_iff in Lx. destruct Lx as [p [<- Hp]]. apply in_map_iff. exists p. auto. }
  apply (flags_ok_spec N.eqb _ s false (a_id a) s false (a_id b) F (T a Ha La) (T b Hb Lb)). apply N.eqb_refl.
Qed.

(** * Part 2: prefix inference *)

(** ** generic facts about [filter_map], [first_unique], [find]/[existsb] *)
Lemma filter_map_nil {A B} (f : A -> option B) l : Cmd.filter_map f l = [] -> forall x, In x l -> f x = None.
Proof.
  induction l as [|a t IH]; intros H x Hx; [destruct Hx|].
  cbn [Cmd.filter_map] in H. destruct (f a) eqn:E; [discriminate|].
  destruct Hx as [<-|Hx]; [exact E|apply IH; assumption].
Qed.

(** a one-element result comes from exactly one list element *)
Lemma filter_map_singleton {A B} (f : A -> option B) l y : Cmd.filter_map f l = [y] ->
  exists x, In x l /\ f x = Some y /\ forall x', In x' l -> f x' <> None -> x' = x.
Proof.
  induction l as [|a t IH]; intros H; [discriminate|].
  cbn [Cmd.filter_map] in H. destruct (f a) eqn:E.
  - inversion H; subst. exists a. split; [left; reflexivity|]. split; [exact E|].
    intros x' [<-|Hx'] Hn; [reflexivity|]. exfalso. apply Hn. apply (filter_map_nil f t); assumption.
  - destruct (IH H) as [x [Hx [Fx U]]]. exists x. split; [right; exact Hx|]. split; [exact Fx|].
    intros x' [<-|Hx'] Hn; [congruence|]. apply U; assumption.
Qed.

Lemma first_unique_some {A} (l : list A) x : first_unique l = Some x -> l = [x].
Proof. destruct l as [|a [|b t]]; cbn; intros H; inversion H; reflexivity. Qed.

(** two distinct candidates: no unique first *)
Lemma first_unique_two {A B} (f : A -> option B) l a b :
  In a l -> In b l -> a <> b -> f a <> None -> f b <> None -> first_unique (Cmd.filter_map f l) = None.
Proof.
  intros Ha Hb Hab Fa Fb. destruct (first_unique (Cmd.filter_map f l)) as [y|] eqn:E; [|reflexivity].
  apply first_unique_some in E. apply filter_map_singleton in E. destruct E as [x [_ [_ U]]].
  exfalso. apply Hab. rewrite (U a Ha Fa), (U b Hb Fb). reflexivity.
Qed.

Lemma find_none_existsb {A} (p : A -> bool) l : find p l = None <-> existsb p l = false.
Proof.
  induction l as [|a t IH]; cbn; [tauto|]. destruct (p a); cbn; [split; discriminate|exact IH].
Qed.

Lemma existsb_map_fst {A B} (p : A -> bool) (l : list (A * B)) :
  existsb (fun x => p (fst x)) l = existsb p (map fst l).
Proof. induction l as [|a t IH]; cbn; [reflexivity|rewrite IH; reflexivity]. Qed.

Lemma is_prefix_refl s : is_prefix s s = true.
Proof. unfold is_prefix. rewrite <- (app_nil_r s) at 1. apply starts_with_app. Qed.

(** ** long flags: the lookup of [parse_long_arg] *)

(** an argument is a candidate for the prefix [p]: its long or one of its aliases starts with [p] *)
Definition extends (p : bytes) (a : arg) : bool := existsb (is_prefix p) (long_names a).
(** ... and it is not a positional (positionals have no long keys; their aliases are not consulted) *)
Definition candidate (p : bytes) (a : arg) : bool := negb (a_is_positional a) && extends p a.

(** the closure inside [parse_long_arg]'s [filter_map] *)
Definition infer_pick (flag : bytes) (a : arg) : option arg :=
  if a_is_positional a then None else
  match a_long a with
  | Some l => if is_prefix flag l then Some a
              else if existsb (fun p => is_prefix flag (fst p)) (a_aliases a) then Some a else None
  | None => if existsb (fun p => is_prefix flag (fst p)) (a_aliases a) then Some a else None
  end.

(** the [let arg = if let Some(arg) = keymap.get(long_arg) .. else if infer_long_args ..] of [parse_long_arg] *)
Definition lookup_long (c : cmd) (flag : bytes) : option arg :=
  match get_long c flag with
  | Some a => Some a
  | None => if is_set s_infer_long c then first_unique (Cmd.filter_map (infer_pick flag) (c_args c)) else None
  end.

(** what [parse_long_arg] does once the lookup is made *)
Definition parse_long_found (c : cmd) (flag : bytes) (value : option bytes) (pos_counter : N) (vaf : bool) (st : ps)
           (found : option arg) : res (ps * presult * bool) :=
  match found with
  | Some a =>
      if a_takes_value a then
        do x <- parse_opt_value c ILong value a (is_some value) st; ROk (fst x, snd x, true)
      else match value with
      | Some rest => ROk (st, PRUnneeded rest (a_id a), true)
      | None => do x <- react c (Some ILong) SCmdLine a [] None st; ROk (fst x, snd x, true)
      end
  | None =>
      match possible_long_flag_subcommand c flag with
      | Some n => ROk (st, PRFlagSub n, vaf)
      | None =>
          if match get_pos c pos_counter with Some a => a_hyphen a && negb (a_last a) | None => false end
          then ROk (st, PRMaybeHyphen, vaf)
          else ROk (st, PRNoMatchingArg flag, vaf)
      end
  end.

(** [parse_long_arg] is: the guards, then [lookup_long], then [parse_long_found] (checked by conversion,
    so [lookup_long] is the model's lookup, not a re-statement of it) *)
Lemma parse_long_arg_unfold c flag flag_utf8 value pst pos vaf st :
  parse_long_arg c flag flag_utf8 value pst pos vaf st =
  (do sa <- state_arg c pst;
   if match sa with Some a => a_hyphen a | None => false end then ROk (st, PRMaybeHyphen, vaf) else
   if negb flag_utf8 then ROk (st, PRNoMatchingArg flag, vaf) else
   if is_nil flag && negb (is_some value) then RPanic 785 else
   parse_long_found c flag value pos vaf st (lookup_long c flag)).
Proof. reflexivity. Qed.

Lemma infer_pick_extends flag a : infer_pick flag a = if candidate flag a then Some a else None.
Proof.
  unfold infer_pick, candidate, extends, long_names. rewrite existsb_app, <- existsb_map_fst.
  destruct (a_is_positional a); cbn [negb andb]; [reflexivity|].
  destruct (a_long a) as [l|]; cbn [existsb].
  - rewrite orb_false_r. destruct (is_prefix flag l); reflexivity.
  - reflexivity.
Qed.

Lemma infer_pick_some flag a : infer_pick flag a <> None <-> candidate flag a = true.
Proof. rewrite infer_pick_extends. destruct (candidate flag a); split; congruence. Qed.

(** an exact key always wins *)
Theorem long_exact_wins c p a : get_long c p = Some a -> lookup_long c p = Some a.
Proof. unfold lookup_long. intros ->. reflexivity. Qed.

(** a resolved prefix is an exact key, or inference is on and the argument is the only candidate *)
Theorem infer_unique c p a : lookup_long c p = Some a ->
  get_long c p = Some a \/
  (get_long c p = None /\ is_set s_infer_long c = true /\ In a (c_args c) /\ candidate p a = true /\
   forall b, In b (c_args c) -> candidate p b = true -> b = a).
Proof.
  unfold lookup_long. destruct (get_long c p) as [x|]; [intros H; left; exact H|].
  destruct (is_set s_infer_long c); [|discriminate]. intros H. right.
  apply first_unique_some in H. apply filter_map_singleton in H. destruct H as [x [Hx [Fx U]]].
  assert (x = a /\ candidate p x = true) as [-> Ex].
  { rewrite infer_pick_extends in Fx. destruct (candidate p x); inversion Fx. auto. }
  repeat split; try assumption; try reflexivity.
  intros b Hb Eb. apply U; [exact Hb|]. apply infer_pick_some. exact Eb.
Qed.

(** two distinct candidates and no exact key: nothing is selected *)
Theorem infer_ambiguous_rejected c p a b :
  get_long c p = None -> In a (c_args c) -> In b (c_args c) -> a <> b ->
  candidate p a = true -> candidate p b = true -> lookup_long c p = None.
Proof.
  intros G Ha Hb Hab Ea Eb. unfold lookup_long. rewrite G.
  destruct (is_set s_infer_long c); [|reflexivity].
  apply (first_unique_two _ _ a b Ha Hb Hab); apply infer_pick_some; assumption.
Qed.

(** without inference only exact keys resolve *)
Theorem no_inference_exact_only c p : is_set s_infer_long c = false -> lookup_long c p = get_long c p.
Proof. unfold lookup_long. intros ->. destruct (get_long c p); reflexivity. Qed.

(** when the lookup selects nothing, the token is never turned into one of the candidates: the
    parser state is returned untouched and the token is reported as a flag subcommand, a possible
    hyphen value of a positional, or an unknown argument *)
Theorem long_unresolved_untouched c p value pst pos vaf st :
  lookup_long c p = None ->
  match parse_long_arg c p true value pst pos vaf st with
  | ROk (st', pr, vaf') =>
      st' = st /\ vaf' = vaf /\
      (pr = PRMaybeHyphen \/ pr = PRNoMatchingArg p \/ exists n, pr = PRFlagSub n)
  | RErr _ _ => False
  | RPanic _ => True
  end.
Proof.
  intros L. rewrite parse_long_arg_unfold, L.
  assert (T : forall sa : option arg,
    match (if match sa with Some a => a_hyphen a | None => false end then ROk (st, PRMaybeHyphen, vaf) else
           if negb true then ROk (st, PRNoMatchingArg p, vaf) else
           if is_nil p && negb (is_some value) then RPanic 785 else
           parse_long_found c p value pos vaf st None) with
    | ROk (st', pr, vaf') =>
        st' = st /\ vaf' = vaf /\ (pr = PRMaybeHyphen \/ pr = PRNoMatchingArg p \/ exists n, pr = PRFlagSub n)
    | RErr _ _ => False
    | RPanic _ => True
    end).
  { intros sa. destruct (match sa with Some a => a_hyphen a | None => false end); [auto|].
    cbn [negb]. destruct (is_nil p && negb (is_some value)); [exact I|].
    unfold parse_long_found. destruct (possible_long_flag_subcommand c p) as [n|].
    - repeat split; eauto.
    - destruct (match get_pos c pos with Some a => _ | None => false end); auto. }
  unfold state_arg. destruct pst as [|i|i]; cbn [rbind expect].
  - apply (T None).
  - destruct (find_arg c i) as [a|]; cbn [rbind expect]; [apply (T (Some a))|exact I].
  - destruct (find_arg c i) as [a|]; cbn [rbind expect]; [apply (T (Some a))|exact I].
Qed.

(** ** subcommand names *)

Definition sub_pick (tok : bytes) (s : cmd) : option bytes :=
  if is_prefix tok (c_name s) then Some (c_name s) else List.find (is_prefix tok) (all_aliases s).
Definition sub_extends (tok : bytes) (s : cmd) : bool :=
  is_prefix tok (c_name s) || existsb (is_prefix tok) (all_aliases s).

Lemma possible_subcommand_unfold c tok vaf :
  possible_subcommand c tok vaf =
  if negb (utf8_valid tok) then None else
  if is_set s_args_negate_subs c && vaf then None else
  match (if is_set s_infer_sub c then first_unique (Cmd.filter_map (sub_pick tok) (c_subs c)) else None) with
  | Some n => Some n
  | None => opt_map c_name (find_subcommand c tok)
  end.
Proof. reflexivity. Qed.

Lemma sub_pick_some tok s : sub_pick tok s <> None <-> sub_extends tok s = true.
Proof.
  unfold sub_pick, sub_extends. destruct (is_prefix tok (c_name s)); cbn [orb]; [split; congruence|].
  destruct (find (is_prefix tok) (all_aliases s)) eqn:E.
  - split; [intros _|congruence]. destruct (existsb _ _) eqn:X; [reflexivity|].
    apply find_none_existsb in X. congruence.
  - apply find_none_existsb in E. rewrite E. split; congruence.
Qed.

(** the name returned by the inference closure is a name or alias of that subcommand *)
Lemma sub_pick_names tok s n : sub_pick tok s = Some n -> aliases_to s n = true /\ is_prefix tok n = true.
Proof.
  unfold sub_pick, aliases_to. destruct (is_prefix tok (c_name s)) eqn:P.
  - intros H; inversion H; subst. rewrite beq_refl. auto.
  - intros H. apply find_some in H. destruct H as [Hin Hp]. split; [|exact Hp].
    apply orb_true_iff. right. apply existsb_exists. exists n. split; [exact Hin|apply beq_refl].
Qed.

Lemma aliases_to_extends s tok : aliases_to s tok = true -> sub_extends tok s = true.
Proof.
  unfold aliases_to, sub_extends. intros H. apply orb_true_iff in H. apply orb_true_iff. destruct H as [H|H].
  - left. apply beq_eq in H. rewrite H. apply is_prefix_refl.
  - right. apply existsb_exists in H. destruct H as [x [Hx E]]. apply beq_eq in E. subst x.
    apply existsb_exists. exists tok. split; [exact Hx|apply is_prefix_refl].
Qed.

(** a resolved token is an exact name/alias, or inference is on and exactly one subcommand has a
    name or alias extending it (the returned string names that subcommand) *)
Theorem sub_infer_unique c tok vaf n : possible_subcommand c tok vaf = Some n ->
  (exists s, find_subcommand c tok = Some s /\ n = c_name s) \/
  (is_set s_infer_sub c = true /\
   exists s, In s (c_subs c) /\ aliases_to s n = true /\ is_prefix tok n = true /\
             forall s', In s' (c_subs c) -> sub_extends tok s' = true -> s' = s).
Proof.
  rewrite possible_subcommand_unfold.
  destruct (negb (utf8_valid tok)); [discriminate|].
  destruct (is_set s_args_negate_subs c && vaf); [discriminate|].
  destruct (is_set s_infer_sub c).
  - destruct (first_unique _) as [m|] eqn:E.
    + intros H; inversion H; subst m. right. split; [reflexivity|].
      apply first_unique_some in E. apply filter_map_singleton in E. destruct E as [s [Hs [Fs U]]].
      exists s. destruct (sub_pick_names _ _ _ Fs) as [A P]. repeat split; try assumption.
      intros s' Hs' E'. apply U; [exact Hs'|]. apply sub_pick_some. exact E'.
    + intros H. left. destruct (find_subcommand c tok) as [s|]; [|discriminate].
      inversion H. exists s. auto.
  - intros H. left. destruct (find_subcommand c tok) as [s|]; [|discriminate].
    inversion H. exists s. auto.
Qed.

Theorem sub_ambiguous_rejected c tok vaf s1 s2 :
  find_subcommand c tok = None -> In s1 (c_subs c) -> In s2 (c_subs c) -> s1 <> s2 ->
  sub_extends tok s1 = true -> sub_extends tok s2 = true -> possible_subcommand c tok vaf = None.
Proof.
  intros F H1 H2 D E1 E2. rewrite possible_subcommand_unfold.
  destruct (negb (utf8_valid tok)); [reflexivity|].
  destruct (is_set s_args_negate_subs c && vaf); [reflexivity|].
  rewrite F. cbn [opt_map].
  destruct (is_set s_infer_sub c); [|reflexivity].
  rewrite (first_unique_two _ _ s1 s2 H1 H2 D); [reflexivity| |]; apply sub_pick_some; assumption.
Qed.

(** an exact name or alias is always resolved to the subcommand that carries it, even when it is also
    a prefix of other names ("inference supports exact matching even if there are conflicts") *)
Theorem sub_exact_wins c tok vaf s :
  find_subcommand c tok = Some s -> utf8_valid tok = true -> is_set s_args_negate_subs c && vaf = false ->
  exists n, possible_subcommand c tok vaf = Some n /\ aliases_to s n = true.
Proof.
  intros F V Ng. rewrite possible_subcommand_unfold, V, Ng. cbn [negb].
  assert (Hin : In s (c_subs c) /\ aliases_to s tok = true) by (apply find_some in F; exact F).
  destruct Hin as [Hin Hal].
  destruct (is_set s_infer_sub c).
  - destruct (first_unique _) as [m|] eqn:E.
    + exists m. split; [reflexivity|].
      apply first_unique_some in E. apply filter_map_singleton in E. destruct E as [s' [Hs' [Fs' U]]].
      assert (s = s') as -> by (apply U; [exact Hin|apply sub_pick_some, aliases_to_extends; exact Hal]).
      apply (sub_pick_names _ _ _ Fs').
    + rewrite F. exists (c_name s). split; [reflexivity|]. unfold aliases_to. rewrite beq_refl. reflexivity.
  - rewrite F. exists (c_name s). split; [reflexivity|]. unfold aliases_to. rewrite beq_refl. reflexivity.
Qed.

(** ** long flag subcommands *)

Definition lf_pick (l : bytes) (s : cmd) : option bytes :=
  match c_long_flag s with
  | None => None
  | Some lf => if is_prefix l lf then Some (c_name s)
               else if existsb (fun p => is_prefix l (fst p)) (c_long_flag_aliases s)
                    then Some (c_name s) else None
  end.

Lemma possible_long_flag_subcommand_unfold c l :
  possible_long_flag_subcommand c l =
  match (if is_set s_infer_sub c then first_unique (Cmd.filter_map (lf_pick l) (c_subs c)) else None) with
  | Some n => Some n
  | None => find_long_subcmd c l
  end.
Proof. reflexivity. Qed.

Lemma lf_pick_name l s n : lf_pick l s = Some n -> n = c_name s.
Proof.
  unfold lf_pick. destruct (c_long_flag s); [|discriminate].
  destruct (is_prefix l b); [intros H; inversion H; reflexivity|].
  destruct (existsb _ _); [intros H; inversion H; reflexivity|discriminate].
Qed.

Theorem lf_infer_unique c l n : possible_long_flag_subcommand c l = Some n ->
  find_long_subcmd c l = Some n \/
  (is_set s_infer_sub c = true /\
   exists s, In s (c_subs c) /\ n = c_name s /\ lf_pick l s = Some n /\
             forall s', In s' (c_subs c) -> lf_pick l s' <> None -> s' = s).
Proof.
  rewrite possible_long_flag_subcommand_unfold.
  destruct (is_set s_infer_sub c); [|intros H; left; exact H].
  destruct (first_unique _) as [m|] eqn:E; [|intros H; left; exact H].
  intros H; inversion H; subst m. right. split; [reflexivity|].
  apply first_unique_some in E. apply filter_map_singleton in E. destruct E as [s [Hs [Fs U]]].
  exists s. repeat split; try assumption. apply (lf_pick_name _ _ _ Fs).
Qed.

Theorem lf_ambiguous_rejected c l s1 s2 :
  find_long_subcmd c l = None -> In s1 (c_subs c) -> In s2 (c_subs c) -> s1 <> s2 ->
  lf_pick l s1 <> None -> lf_pick l s2 <> None -> possible_long_flag_subcommand c l = None.
Proof.
  intros F H1 H2 D E1 E2. rewrite possible_long_flag_subcommand_unfold, F.
  destruct (is_set s_infer_sub c); [|reflexivity].
  rewrite (first_unique_two _ _ s1 s2 H1 H2 D E1 E2). reflexivity.
Qed.

(** an exact long flag (or long-flag alias) of a subcommand that has a primary long flag wins *)
Theorem lf_exact_wins c l s :
  find (fun s => long_flag_aliases_to s l) (c_subs c) = Some s -> c_long_flag s <> None ->
  possible_long_flag_subcommand c l = Some (c_name s).
Proof.
  intros F Hlf. rewrite possible_long_flag_subcommand_unfold.
  assert (FL : find_long_subcmd c l = Some (c_name s)) by (unfold find_long_subcmd; rewrite F; reflexivity).
  destruct (is_set s_infer_sub c); [|exact FL].
  destruct (first_unique _) as [m|] eqn:E; [|exact FL].
  apply first_unique_some in E. apply filter_map_singleton in E. destruct E as [s' [Hs' [Fs' U]]].
  apply find_some in F. destruct F as [Hin Hal].
  assert (s = s') as <-.
  { apply U; [exact Hin|]. unfold lf_pick, long_flag_aliases_to in *.
    destruct (c_long_flag s) as [lf|]; [|congruence]. apply orb_true_iff in Hal. destruct Hal as [Hal|Hal].
    - apply beq_eq in Hal. subst lf. rewrite is_prefix_refl. discriminate.
    - destruct (is_prefix l lf); [discriminate|].
      replace (existsb (fun p => is_prefix l (fst p)) (c_long_flag_aliases s)) with true; [discriminate|].
      symmetry. apply existsb_exists in Hal. destruct Hal as [x [Hx Ex]]. apply existsb_exists.
      exists x. split; [exact Hx|]. apply beq_eq in Ex. rewrite Ex. apply is_prefix_refl. }
  f_equal. apply (lf_pick_name _ _ _ Fs').
Qed.

(** * Part 3: step-level spelling equalities (for every parser state) *)

(** ** [react_core] never touches the pending buffer, so [resolve_pending] leaves it empty *)
Lemma mt_remove_pending m i : mt_pending (fst (mt_remove m i)) = mt_pending m.
Proof. unfold mt_remove. destruct (fm_remove i (mt_args m)). reflexivity. Qed.

Lemma fold_remove_pending l m :
  mt_pending (fold_left (fun m o => fst (mt_remove m o)) l m) = mt_pending m.
Proof.
  revert m. induction l as [|o t IH]; intros m; [reflexivity|].
  cbn [fold_left]. rewrite IH. apply mt_remove_pending.
Qed.

Lemma remove_overrides_pending c a m : mt_pending (remove_overrides c a m) = mt_pending m.
Proof. unfold remove_overrides. rewrite !fold_remove_pending. reflexivity. Qed.

Lemma add_val_to_pending m i v m' : add_val_to m i v = Some m' -> mt_pending m' = mt_pending m.
Proof.
  unfold add_val_to. destruct (fm_get i (mt_args m)); [|discriminate].
  destruct (append_val v m0); [|discriminate]. intros H; inversion H; reflexivity.
Qed.

Lemma add_index_to_pending m i ix m' : add_index_to m i ix = Some m' -> mt_pending m' = mt_pending m.
Proof.
  unfold add_index_to. destruct (fm_get i (mt_args m)); [|discriminate]. intros H; inversion H; reflexivity.
Qed.

Lemma fold_groups_pending a s gs : forall (acc : res matcher) m',
  fold_left (fun rm g => do m <- rm;
               let m' := start_custom_group_m m g s in
               expect 1533 (add_val_to m' g (a_id a))) gs acc = ROk m' ->
  exists m0, acc = ROk m0 /\ mt_pending m' = mt_pending m0.
Proof.
  induction gs as [|g t IH]; intros acc m' H; cbn [fold_left] in H.
  - exists m'. auto.
  - apply IH in H. destruct H as [m1 [E P]]. destruct acc as [m0|e st|n]; cbn [rbind] in E; try discriminate.
    exists m0. split; [reflexivity|]. rewrite P.
    destruct (add_val_to (start_custom_group_m m0 g s) g (a_id a)) as [m2|] eqn:A; cbn [expect] in E; [|discriminate].
    inversion E; subst. rewrite (add_val_to_pending _ _ _ _ A). reflexivity.
Qed.

Lemma start_custom_arg_pending c a s m m' : start_custom_arg c a s m = ROk m' -> mt_pending m' = mt_pending m.
Proof.
  unfold start_custom_arg.
  assert (P1 : mt_pending (match s with SCmdLine => remove_overrides c a m | _ => m end) = mt_pending m).
  { destruct s; try reflexivity. apply remove_overrides_pending. }
  set (m1 := match s with SCmdLine => remove_overrides c a m | _ => m end) in *.
  destruct (src_explicit s).
  - intros H. apply fold_groups_pending in H. destruct H as [m0 [E P]]. inversion E; subst.
    rewrite P, <- P1. reflexivity.
  - intros H; inversion H; subst. rewrite <- P1. reflexivity.
Qed.

Lemma push_arg_values_pending c a raw : forall st st',
  push_arg_values c a raw st = ROk st' -> mt_pending (mt st') = mt_pending (mt st).
Proof.
  induction raw as [|v t IH]; intros st st' H; cbn [push_arg_values] in H.
  - inversion H; reflexivity.
  - destruct (a_vp a) as [vp|]; cbn [expect rbind] in H; [|discriminate].
    destruct (vp_parse vp v); [discriminate|].
    destruct (add_val_to (mt (ps_bump st)) (a_id a) v) as [m1|] eqn:A; cbn [expect rbind] in H; [|discriminate].
    destruct (add_index_to m1 (a_id a) (cur_idx (ps_bump st))) as [m2|] eqn:B; cbn [expect rbind] in H; [|discriminate].
    apply IH in H. rewrite H. cbn.
    rewrite (add_index_to_pending _ _ _ _ B), (add_val_to_pending _ _ _ _ A). reflexivity.
Qed.

Lemma bump_if_pending (b : bool) st : mt_pending (mt (if b then ps_bump st else st)) = mt_pending (mt st).
Proof. destruct b; reflexivity. Qed.

Lemma react_core_pending c idn s a raw ti st st' pr :
  react_core c idn s a raw ti st = ROk (st', pr) -> mt_pending (mt st') = mt_pending (mt st).
Proof.
  unfold react_core.
  destruct (if is_cmdline s then verify_num_args c a raw st else ROk tt) as [[]|e0 s0|n0]; cbn [rbind]; try discriminate.
  destruct (match raw with [] => if negb (is_nil (a_default_missing a)) then (a_default_missing a, None) else (raw, ti)
                         | _ => (raw, ti) end) as [raw1 ti1].
  destruct (delimit c a raw1 ti1) as [raw2|]; cbn [expect rbind]; [|discriminate].
  assert (SL : forall (rw : list bytes) (bump : bool) (st0 : ps),
    mt_pending (mt st0) = mt_pending (mt st) ->
    (let st := if bump && is_cmdline s && is_flag_ident idn then ps_bump st0 else st0 in
      let '(m1, removed) := mt_remove (mt st) (a_id a) in
      let st := st <| mt := m1 |> in
      if removed && negb (is_set s_args_override_self c || mem_id (a_id a) (a_overrides a))
      then RErr (mkerr c EArgumentConflict (a_id a)) st
      else do m2 <- start_custom_arg c a s m1;
           do st' <- push_arg_values c a rw (st <| mt := m2 |>);
           ROk (st', PRValuesDone)) = ROk (st', pr) ->
    mt_pending (mt st') = mt_pending (mt st)).
  { intros rw bump st0 P0. cbv zeta.
    pose proof (mt_remove_pending (mt (if bump && is_cmdline s && is_flag_ident idn then ps_bump st0 else st0)) (a_id a)) as R.
    destruct (mt_remove (mt (if bump && is_cmdline s && is_flag_ident idn then ps_bump st0 else st0)) (a_id a)) as [m1 removed].
    cbn [fst] in R. rewrite bump_if_pending in R.
    destruct (removed && negb _); [discriminate|].
    destruct (start_custom_arg c a s m1) as [m2|e1 s1|n1] eqn:SC; cbn [rbind]; try discriminate.
    destruct (push_arg_values c a rw _) as [st2|e2 s2|n2] eqn:PV; cbn [rbind]; try discriminate.
    intros H; inversion H; subst. apply push_arg_values_pending in PV. rewrite PV. cbn.
    rewrite (start_custom_arg_pending _ _ _ _ _ SC), R. exact P0. }
  destruct (a_get_action a); try discriminate.
  - apply SL. reflexivity.
  - destruct (start_custom_arg c a s _) as [m2|e1 s1|n1] eqn:SC; cbn [rbind]; try discriminate.
    destruct (push_arg_values c a raw2 _) as [st2|e2 s2|n2] eqn:PV; cbn [rbind]; try discriminate.
    intros H; inversion H; subst. apply push_arg_values_pending in PV. rewrite PV. cbn.
    rewrite (start_custom_arg_pending _ _ _ _ _ SC). apply bump_if_pending.
  - apply SL. reflexivity.
  - apply SL. reflexivity.
  - pose proof (mt_remove_pending (mt st) (a_id a)) as R.
    destruct (mt_remove (mt st) (a_id a)) as [m1 rem]. cbn [fst] in R.
    destruct (start_custom_arg c a s m1) as [m2|e1 s1|n1] eqn:SC; cbn [rbind]; try discriminate.
    destruct (push_arg_values c a _ _) as [st2|e2 s2|n2] eqn:PV; cbn [rbind]; try discriminate.
    intros H; inversion H; subst. apply push_arg_values_pending in PV. rewrite PV. cbn.
    rewrite (start_custom_arg_pending _ _ _ _ _ SC). exact R.
Qed.

Theorem resolve_pending_clears c st st1 : resolve_pending c st = ROk st1 -> mt_pending (mt st1) = None.
Proof.
  unfold resolve_pending. destruct (mt_pending (mt st)) as [p|] eqn:P.
  - destruct (find_arg c (p_id p)) as [a|]; cbn [expect rbind]; [|discriminate].
    destruct (react_core c _ _ _ _ _ _) as [[st' pr]|e s|n] eqn:R; cbn [rbind]; try discriminate.
    intros H; inversion H; subst. cbn [fst]. apply react_core_pending in R. rewrite R. reflexivity.
  - intros H; inversion H; subst. exact P.
Qed.

(** ** [--l=v] / [-o=v] / [-ov] (attached value) vs [--l v] / [-o v] (the next token) *)

(** The branch of [parse_loop] that hands a token to the pending option ([ParseState::Opt]):
    returns the new state and whether the option wants more values ([parse_loop_value_step] below
    shows that this is what [parse_loop] does). *)
Definition take_value (c : cmd) (i : id) (tok : bytes) (st : ps) : res (ps * bool) :=
  do a <- expect 290 (find_arg c i);
  do m1 <- expect 297 (pending_values_push (mt st) i None false (Some tok));
  do more <- expect 299 (needs_more_vals m1 a);
  ROk (st <| mt := m1 |>, more).

Lemma ident_eqb_refl i : ident_eqb (Some i) (Some i) = true.
Proof. destruct i; reflexivity. Qed.

Lemma ps_mt_eta (st : ps) m : mt_pending (mt st) = None -> mt_args m = mt_args (mt st) -> mt_sub m = mt_sub (mt st) ->
  mt_pending m = None -> st <| mt := m |> = st.
Proof.
  destruct st as [m0 ci fa fk]. destruct m0 as [ar pe su]. destruct m as [ar' pe' su'].
  cbn. intros -> -> -> ->. reflexivity.
Qed.

(** For every state: parsing the option with an attached value gives the same state as parsing the
    option alone, letting it take the next token as its value, and flushing the pending occurrence.
    ([has_eq] is free: [--l=v], [-o=v] and [-ov] are covered at once; [idn] is [ILong] or [IShort].) *)
Theorem attached_vs_separate c idn a r v has_eq st :
  find_arg c (a_id a) = Some a -> a_req_eq a = false -> a_num a = Some r ->
  (do x <- parse_opt_value c idn (Some v) a has_eq st; ROk (fst x)) =
  (do x <- parse_opt_value c idn None a false st;
   do y <- take_value c (a_id a) v (fst x);
   resolve_pending c (fst y))
  /\ (forall x y, parse_opt_value c idn None a false st = ROk x -> take_value c (a_id a) v (fst x) = ROk y ->
      snd x = PROpt (a_id a) /\ snd y = r_accepts_more r 1).
Proof.
  intros FA RE NA. unfold parse_opt_value. rewrite RE. cbn [andb]. unfold react.
  destruct (resolve_pending c st) as [st1|e s|n] eqn:RP; cbn [rbind]; [|split; [reflexivity|discriminate]..].
  pose proof (resolve_pending_clears _ _ _ RP) as PN.
  assert (PV1 : pending_values_push (mt st1) (a_id a) (Some idn) false None =
                Some ((mt st1) <| mt_pending := Some (mkPending (a_id a) (Some idn) [] None) |>)).
  { unfold pending_values_push. rewrite PN. cbn [p_id p_ident p_raw p_trailing_idx is_some].
    rewrite beq_refl, ident_eqb_refl. reflexivity. }
  rewrite PV1. cbn [expect rbind fst].
  unfold take_value. rewrite FA. cbn [expect rbind].
  set (m0 := (mt st1) <| mt_pending := Some (mkPending (a_id a) (Some idn) [] None) |>).
  assert (PV2 : pending_values_push (mt (st1 <| mt := m0 |>)) (a_id a) None false (Some v) =
                Some (m0 <| mt_pending := Some (mkPending (a_id a) (Some idn) [v] None) |>)).
  { unfold pending_values_push. cbn. rewrite beq_refl. reflexivity. }
  rewrite PV2. cbn [expect rbind].
  unfold needs_more_vals. cbn [mt_pending]. rewrite NA.
  replace (mt_pending (m0 <| mt_pending := Some (mkPending (a_id a) (Some idn) [v] None) |>))
    with (Some (mkPending (a_id a) (Some idn) [v] None)) by reflexivity.
  cbn [p_id p_raw length]. rewrite beq_refl. cbn [expect rbind fst snd].
  split.
  - unfold resolve_pending.
    replace (mt_pending (mt (st1 <| mt := m0 |> <| mt := m0 <| mt_pending := Some (mkPending (a_id a) (Some idn) [v] None) |> |>)))
      with (Some (mkPending (a_id a) (Some idn) [v] None)) by reflexivity.
    cbn [p_id p_ident p_raw p_trailing_idx]. rewrite FA. cbn [expect rbind].
    match goal with |- _ = rbind (react_core c _ _ _ _ _ ?s0) _ => replace s0 with st1 end.
    + destruct (react_core c (Some idn) SCmdLine a [v] None st1) as [x| |]; reflexivity.
    + symmetry. destruct st1 as [m1 ci fa fk]. destruct m1 as [ar pe su]. cbn in PN. subst pe. reflexivity.
  - intros x y H1 H2. inversion H1; subst x. clear H1. cbn [fst] in H2. rewrite PV2 in H2.
    cbn [expect rbind] in H2. inversion H2; subst y. clear H2. cbn [snd]. split; [reflexivity|].
    rewrite ?beq_refl. reflexivity.
Qed.

(** [take_value] is the step [parse_loop] makes on a token that is neither `--`, a long, nor a short
    flag while an option is pending (no [subcommand_precedence_over_arg]) *)
Theorem parse_loop_value_step c tok rest pos vaf st i :
  is_set s_sub_precedence c = false ->
  is_escape tok = false -> to_long tok = None -> to_short tok = None ->
  parse_loop c (tok :: rest) (mkL (PSOpt i) pos vaf false) st =
  (do a <- expect 290 (find_arg c i);
   if check_terminator a tok then parse_loop c rest (mkL PSValuesDone pos vaf false) st
   else do y <- take_value c i tok st;
        parse_loop c rest (mkL (if snd y then PSOpt i else PSValuesDone) pos vaf false) (fst y)).
Proof.
  intros SP E TL TS. cbn [parse_loop l_trailing l_pst l_pos l_vaf].
  rewrite SP, E, TL, TS. cbn [orb rbind]. cbn [l_trailing l_pst l_pos l_vaf].
  unfold take_value.
  destruct (find_arg c i) as [a|]; cbn [expect rbind]; [|reflexivity].
  destruct (check_terminator a tok); [reflexivity|].
  destruct (pending_values_push (mt st) i None false (Some tok)) as [m1|]; cbn [expect rbind]; [|reflexivity].
  destruct (needs_more_vals m1 a) as [more|]; cbn [expect rbind fst snd]; reflexivity.
Qed.

(** ** short clusters *)

(** the [=]-stripping [match] of [parse_short_arg] as a test on the first byte *)
Lemma strip_eq_match (b : N) (t : bytes) :
  (match Some (b :: t) with
   | Some (61 :: v) => (Some v, true)
   | _ => (Some (b :: t), false) end) = if b =? 61 then (Some t, true) else (Some (b :: t), false).
Proof.
  destruct b as [|p]; [reflexivity|].
  do 6 (destruct p as [p|p|]; try reflexivity).
Qed.

(** with an attached value and no [require_equals], [parse_opt_value] does not look at [has_eq] *)
Lemma parse_opt_value_attached c idn v a he st :
  a_req_eq a = false ->
  parse_opt_value c idn (Some v) a he st = (do x <- react c (Some idn) SCmdLine a [v] None st; ROk (fst x, PRValuesDone)).
Proof. intros RE. unfold parse_opt_value. rewrite RE. reflexivity. Qed.

(** [-o=v] and [-ov]: one leading [=] of the attached value is dropped, nothing else differs
    ([r1], [r2] are the unread bytes of the two clusters at the point where [o] is next) *)
Theorem short_eq_strip c f1 f2 r1 r2 ch a v ret vaf st :
  sf_next r1 = Some (inl ch, 61 :: v) -> sf_next r2 = Some (inl ch, v) ->
  v <> [] -> hd 0 v <> 61 ->
  get_short c ch = Some a -> a_takes_value a = true -> a_req_eq a = false ->
  short_loop c (S f1) r1 ret vaf st = short_loop c (S f2) r2 ret vaf st.
Proof.
  intros N1 N2 NE NH GS TV RE. cbn [short_loop]. rewrite N1, N2, GS, TV. cbn [negb].
  destruct v as [|b t]; [congruence|]. cbn [hd] in NH.
  rewrite strip_eq_match. apply N.eqb_neq in NH. rewrite NH.
  cbv beta iota zeta. rewrite !parse_opt_value_attached by exact RE.
  match goal with |- context [react ?a1 ?a2 ?a3 ?a4 ?a5 ?a6 ?a7] =>
    destruct (react a1 a2 a3 a4 a5 a6 a7) as [x|e s|n] end; reflexivity.
Qed.

(** [parse_opt_value] without an attached value never answers [AttachedValueNotConsumed] *)
Lemma pov_none_not_anc c idn a he st x :
  parse_opt_value c idn None a he st = ROk x -> snd x <> PRAttachedNotConsumed.
Proof.
  unfold parse_opt_value. destruct (a_req_eq a && negb he).
  - destruct (a_num a) as [r|]; cbn [expect rbind]; [|discriminate].
    destruct (vmin r =? 0).
    + destruct (react c (Some idn) SCmdLine a [] None st) as [y|e s|n]; cbn [rbind]; try discriminate.
      intros H; inversion H; subst. cbn. discriminate.
    + intros H; inversion H; subst. cbn. discriminate.
  - destruct (resolve_pending c st) as [st1|e s|n]; cbn [rbind]; try discriminate.
    destruct (pending_values_push _ _ _ _ _); cbn [expect rbind]; [|discriminate].
    intros H; inversion H; subst. cbn. discriminate.
Qed.

Lemma sf_next_shrinks' r x r' : sf_next r = Some (x, r') -> (length r' < length r)%nat.
Proof.
  unfold sf_next. destruct r as [|b t]; [discriminate|].
  destruct (utf8_step (b :: t)) as [[ch n]|] eqn:E.
  - intros H; inversion H; subst. apply utf8_step_len in E. rewrite skipn_length. cbn [length] in *. lia.
  - intros H; inversion H; subst. cbn. lia.
Qed.

(** the fuel of the cluster walk is irrelevant once it exceeds the number of unread bytes *)
Lemma short_loop_fuel c : forall f r ret vaf st, (length r < f)%nat ->
  forall f', (length r < f')%nat -> short_loop c f r ret vaf st = short_loop c f' r ret vaf st.
Proof.
  induction f as [|f IH]; intros r ret vaf st Hl f' Hl'; [lia|].
  destruct f' as [|f']; [lia|]. cbn [short_loop].
  destruct (sf_next r) as [[[ch|rest] r']|] eqn:E; try reflexivity.
  apply sf_next_shrinks' in E.
  destruct (get_short c ch) as [a|]; [|reflexivity].
  destruct (negb (a_takes_value a)).
  - destruct (react c (Some IShort) SCmdLine a [] None st) as [x|e s|n]; cbn [rbind]; try reflexivity.
    apply IH; lia.
  - destruct (match match r' with [] => None | _ => Some r' end with
              | Some (61 :: v) => (Some v, true) | _ => (match r' with [] => None | _ => Some r' end, false) end) as [val he].
    destruct (parse_opt_value c IShort val a he st) as [x|e s|n]; cbn [rbind]; try reflexivity.
    destruct (snd x); try reflexivity. apply IH; lia.
Qed.

(** the result carried through the walk matters only for an empty cluster *)
Lemma short_loop_ret c : forall f r ret ret' vaf st, r <> [] ->
  short_loop c f r ret vaf st = short_loop c f r ret' vaf st.
Proof.
  induction f as [|f IH]; intros r ret ret' vaf st NE; [reflexivity|].
  cbn [short_loop].
  destruct (sf_next r) as [[[ch|rest] r']|] eqn:E; try reflexivity.
  - destruct (get_short c ch) as [a|]; [|reflexivity].
    destruct (negb (a_takes_value a)); [reflexivity|].
    destruct r' as [|b t].
    + (* nothing attached: the answer is never AttachedValueNotConsumed *)
      cbv beta iota zeta.
      match goal with |- context [parse_opt_value ?a1 ?a2 ?a3 ?a4 ?a5 ?a6] =>
        destruct (parse_opt_value a1 a2 a3 a4 a5 a6) as [x|e s|n] eqn:P end; cbn [rbind]; try reflexivity.
      apply pov_none_not_anc in P. destruct (snd x); try reflexivity. congruence.
    + rewrite strip_eq_match.
      destruct (b =? 61); cbv beta iota zeta;
      (match goal with |- context [parse_opt_value ?a1 ?a2 ?a3 ?a4 ?a5 ?a6] =>
        destruct (parse_opt_value a1 a2 a3 a4 a5 a6) as [x|e s|n] eqn:P end; cbn [rbind]; try reflexivity;
       destruct (snd x); try reflexivity; apply IH; discriminate).
  - exfalso. unfold sf_next in E. destruct r; [congruence|]. destruct (utf8_step (n :: r)) as [[? ?]|]; discriminate.
Qed.

(** one step of the cluster walk whose next flag takes no value *)
Lemma short_loop_flag_step c f r ch r' a ret vaf st :
  sf_next r = Some (inl ch, r') -> get_short c ch = Some a -> a_takes_value a = false ->
  short_loop c (S f) r ret vaf st =
  (do x <- react c (Some IShort) SCmdLine a [] None st; short_loop c f r' (snd x) true (fst x)).
Proof. intros N GS TV. cbn [short_loop]. rewrite N, GS, TV. reflexivity. Qed.

(** A cluster [-a<r2>] whose first flag [a] takes no value behaves like the two tokens [-a] [-<r2>]:
    same matcher, same index counter (one bump per flag either way), same result and
    [valid_arg_found]; [r] = unread bytes of the cluster, [r1] = those of the token [-a]. *)
Theorem cluster_split c r r1 r2 ch a ret vaf st :
  sf_next r = Some (inl ch, r2) -> sf_next r1 = Some (inl ch, []) -> r2 <> [] ->
  get_short c ch = Some a -> a_takes_value a = false ->
  short_loop c (S (length r)) r ret vaf st =
  (do x <- short_loop c (S (length r1)) r1 ret vaf st;
   short_loop c (S (length r2)) r2 PRNoArg (snd x) (fst (fst x))).
Proof.
  intros N N1 NE GS TV.
  rewrite (short_loop_flag_step c (length r) r ch r2 a ret vaf st N GS TV).
  rewrite (short_loop_flag_step c (length r1) r1 ch [] a ret vaf st N1 GS TV).
  destruct (react c (Some IShort) SCmdLine a [] None st) as [x|e s|n]; cbn [rbind]; try reflexivity.
  assert (L1 : (0 < length r1)%nat) by (apply sf_next_shrinks' in N1; lia).
  destruct (length r1) as [|k]; [lia|].
  change (short_loop c (S k) [] (snd x) true (fst x)) with (ROk (A := ps * presult * bool) (fst x, snd x, true)).
  cbn [rbind fst snd].
  apply sf_next_shrinks' in N.
  rewrite (short_loop_fuel c (length r) r2 (snd x) true (fst x) N (S (length r2))) by lia.
  apply short_loop_ret. exact NE.
Qed.

(** the cluster walk on a value-taking flag: nothing attached / something attached *)
Lemma short_loop_opt_alone c f r ch a ret vaf st :
  sf_next r = Some (inl ch, []) -> get_short c ch = Some a -> a_takes_value a = true ->
  short_loop c (S f) r ret vaf st =
  (do x <- parse_opt_value c IShort None a false st; ROk (fst x, snd x, true)).
Proof.
  intros N GS TV. cbn [short_loop]. rewrite N, GS, TV. cbn [negb]. cbv beta iota zeta.
  destruct (parse_opt_value c IShort None a false st) as [x|e s|n] eqn:P; cbn [rbind]; try reflexivity.
  apply pov_none_not_anc in P. destruct (snd x); try reflexivity. congruence.
Qed.

Lemma short_loop_opt_attached c f r ch a b t ret vaf st :
  sf_next r = Some (inl ch, b :: t) -> b <> 61 -> get_short c ch = Some a -> a_takes_value a = true ->
  a_req_eq a = false ->
  short_loop c (S f) r ret vaf st =
  (do x <- parse_opt_value c IShort (Some (b :: t)) a false st; ROk (fst x, PRValuesDone, true)).
Proof.
  intros N NB GS TV RE. cbn [short_loop]. rewrite N, GS, TV. cbn [negb].
  rewrite strip_eq_match. apply N.eqb_neq in NB. rewrite NB. cbv beta iota zeta.
  rewrite !parse_opt_value_attached by exact RE.
  match goal with |- context [react ?a1 ?a2 ?a3 ?a4 ?a5 ?a6 ?a7] =>
    destruct (react a1 a2 a3 a4 a5 a6 a7) as [x|e s|n] end; reflexivity.
Qed.

(** [-ov] vs [-o v]: the cluster with the value attached gives the state that the cluster alone, the
    value token taken by the pending option, and the flush give *)
Theorem short_attached_vs_separate c f f' ratt rsep ch a r b t ret vaf st :
  sf_next ratt = Some (inl ch, b :: t) -> b <> 61 -> sf_next rsep = Some (inl ch, []) ->
  get_short c ch = Some a -> a_takes_value a = true -> a_req_eq a = false ->
  find_arg c (a_id a) = Some a -> a_num a = Some r ->
  (do x <- short_loop c (S f) ratt ret vaf st; ROk (fst (fst x))) =
  (do x <- short_loop c (S f') rsep ret vaf st;
   do y <- take_value c (a_id a) (b :: t) (fst (fst x));
   resolve_pending c (fst y)).
Proof.
  intros N1 NB N2 GS TV RE FA NA.
  rewrite (short_loop_opt_attached c f ratt ch a b t ret vaf st N1 NB GS TV RE).
  rewrite (short_loop_opt_alone c f' rsep ch a ret vaf st N2 GS TV).
  destruct (attached_vs_separate c IShort a r (b :: t) false st FA RE NA) as [E _].
  unfold bytes in *.
  match type of E with (rbind ?P _) = _ => destruct P as [x|e s|n] end;
  match type of E with _ = (rbind ?Q _) => destruct Q as [x'|e' s'|n'] end; cbn [rbind fst snd] in *; exact E.
Qed.

(** * Non-vacuity: a concrete command satisfying the hypotheses, and the two refutations *)

(** `ex`: --alpha (hidden alias --alp, -a, short alias -A, flag), --abc (-b, flag), --opt (-o, one value),
    subcommands run (--color, alias --bet; alias rum... ) and rux; inference on *)
Definition ex_cmd : cmd :=
  (cmd_new [112]) <| c_set := settings_none <| s_infer_long := true |> <| s_infer_sub := true |> |>
  <| c_args := [
       (arg_new [111; 48]) <| a_long := Some [97; 108; 112; 104; 97] |> <| a_aliases := [([97; 108; 112], false)] |> <| a_short := Some 97 |>
                           <| a_short_aliases := [(65, true)] |> <| a_action := Some ASetTrue |>;
       (arg_new [111; 49]) <| a_long := Some [97; 98; 99] |> <| a_short := Some 98 |> <| a_action := Some ASetTrue |>;
       (arg_new [111; 50]) <| a_long := Some [111; 112; 116] |> <| a_short := Some 111 |> <| a_action := Some ASet |> ] |>
  <| c_subs := [ (cmd_new [114; 117; 110]) <| c_long_flag := Some [99; 111; 108; 111; 114] |> <| c_long_flag_aliases := [([97; 108; 112; 104], false)] |>
                               <| c_aliases := [([114; 117; 109], true)] |>;
                 (cmd_new [114; 117; 120]) ] |>.
Definition exb := build_self ex_cmd.

Example ex_valid : assert_app exb = true.
Proof. vm_compute. reflexivity. Qed.

(** hypotheses of [alias_is_key] / [short_alias_is_key] hold for a hidden alias / a visible short alias *)
Example ex_alias_nonvacuous : exists a,
  long_unique exb /\ short_unique exb /\ In a (c_args exb) /\ a_index a = None /\
  a_long a = Some [97; 108; 112; 104; 97] /\ In ([97; 108; 112], false) (a_aliases a) /\
  a_short a = Some 97 /\ In (65, true) (a_short_aliases a) /\ get_long exb [97; 108; 112] = Some a.
Proof.
  exists (nth 0 (c_args exb) (arg_new [])).
  split; [apply assert_app_long_unique, ex_valid|]. split; [apply assert_app_short_unique, ex_valid|].
  vm_compute. repeat split; auto.
Qed.

(** a proper prefix resolved by inference only; an ambiguous prefix; an exact key that is also a prefix *)
Example ex_infer_unique : get_long exb [111; 112] = None /\ exists a, lookup_long exb [111; 112] = Some a /\ a_long a = Some [111; 112; 116].
Proof. vm_compute. split; [reflexivity|]. eexists. split; reflexivity. Qed.
Example ex_infer_ambiguous : exists a b,
  get_long exb [97] = None /\ In a (c_args exb) /\ In b (c_args exb) /\ a <> b /\
  candidate [97] a = true /\ candidate [97] b = true /\ lookup_long exb [97] = None.
Proof.
  exists (nth 0 (c_args exb) (arg_new [])), (nth 1 (c_args exb) (arg_new [])).
  vm_compute. repeat split; try (left; reflexivity); try (right; left; reflexivity). discriminate.
Qed.
Example ex_exact_wins : exists a, get_long exb [97; 108; 112] = Some a /\ lookup_long exb [97; 108; 112] = Some a /\ candidate [97; 108; 112] a = true.
Proof. vm_compute. eexists. repeat split. Qed.

Example ex_sub_ambiguous : exists s1 s2,
  find_subcommand exb [114; 117] = None /\ In s1 (c_subs exb) /\ In s2 (c_subs exb) /\ s1 <> s2 /\
  sub_extends [114; 117] s1 = true /\ sub_extends [114; 117] s2 = true /\
  possible_subcommand exb [114; 117] false = None.
Proof.
  exists (nth 0 (c_subs exb) (cmd_new [])), (nth 1 (c_subs exb) (cmd_new [])).
  vm_compute. repeat split; try (left; reflexivity); try (right; left; reflexivity). discriminate.
Qed.
Example ex_sub_unique : possible_subcommand exb [114; 117; 120] false = Some [114; 117; 120]
                        /\ possible_subcommand exb [114; 117; 109] false = Some [114; 117; 109].
Proof. vm_compute. split; reflexivity. Qed.
Example ex_lf_unique : find_long_subcmd exb [99; 111] = None /\ possible_long_flag_subcommand exb [99; 111] = Some [114; 117; 110].
Proof. vm_compute. split; reflexivity. Qed.

(** the step theorems' hypotheses hold, and both sides are successful parses, for [--opt=v] / [-ov] / [-o=v] *)
Definition res_is_ok {A} (r : res A) : bool := match r with ROk _ => true | _ => false end.

Example ex_attached_nonvacuous :
  let a := nth 2 (c_args exb) (arg_new []) in
  get_short exb 111 = Some a /\ find_arg exb (a_id a) = Some a /\ a_req_eq a = false /\ a_num a = Some r_single /\
  a_takes_value a = true /\ r_accepts_more r_single 1 = false /\
  res_is_ok (do x <- parse_opt_value exb ILong (Some [118]) a true ps_new; ROk (fst x)) = true /\
  sf_next [111; 61; 118] = Some (inl 111, [61; 118]) /\ sf_next [111; 118] = Some (inl 111, [118]) /\
  sf_next [111] = Some (inl 111, []).
Proof. vm_compute. repeat split. Qed.

Example ex_cluster_nonvacuous :
  let a := nth 0 (c_args exb) (arg_new []) in
  sf_next [97; 98] = Some (inl 97, [98]) /\ sf_next [97] = Some (inl 97, []) /\
  get_short exb 97 = Some a /\ a_takes_value a = false /\
  match short_loop exb 3 [97; 98] PRNoArg false ps_new with
  | ROk (st', pr, v) => cur_idx st' = 2 /\ pr = PRValuesDone /\ v = true
  | _ => False end.
Proof. vm_compute. repeat split. Qed.

(** ** Refutations (faithful model, replayed on the implementation: known finding / observation) *)

(** "An exact name wins" fails across namespaces: with [infer_long_args] the exact long-flag alias [--alph]
    of subcommand [run] is resolved, as a prefix, to the argument [--alpha] before flag subcommands are
    looked at; so [--color] and its alias [--alph] are not equivalent spellings. *)
Theorem flag_sub_exact_shadowed_refuted : exists c p n a,
  assert_app c = true /\ find_long_subcmd c p = Some n /\ get_long c p = None /\ lookup_long c p = Some a.
Proof. exists exb, [97; 108; 112; 104], [114; 117; 110]. vm_compute. eexists. repeat split. Qed.

(** [lf_exact_wins] needs the primary long flag: a subcommand that only has a long-flag *alias* is not a
    candidate of the inference, so another subcommand's unique prefix match is preferred to its exact alias. *)
Theorem lf_exact_needs_long_flag_refuted : exists c l s,
  find (fun s => long_flag_aliases_to s l) (c_subs c) = Some s /\
  possible_long_flag_subcommand c l <> Some (c_name s).
Proof.
  exists ((cmd_new [112]) <| c_set := settings_none <| s_infer_sub := true |> |>
          <| c_subs := [ (cmd_new [97; 97]) <| c_long_flag_aliases := [([98; 101], false)] |>;
                         (cmd_new [98; 98]) <| c_long_flag := Some [98; 101; 116; 97] |> ] |>), [98; 101].
  eexists. vm_compute. split; [reflexivity|discriminate].
Qed.
