(** Property C05, round 2: one level of [get_matches_with] -- lemmas shared by the sink class
    (EscapeTop.v) and the chain class (EscapeChain.v): the storing facts of a level, the class
    [sink_from], the trailing-mode loop at a sink up to [resolve_pending], the phases after it. *)
From ClapModel Require Import Base.Bytes Base.Machine Base.Utf8 Lex.OsStrExtModel.
From ClapModel Require Import Parse.Cmd Parse.Build Parse.Valid Parse.Matcher Parse.Errors Parse.Validator Parse.Parser.
From ClapModel Require Import ParseProofs.Safe ParseProofs.Invariant ParseProofs.Totality ParseProofs.TotalityMain
  ParseProofs.Sources ParseProofs.Spelling ParseProofs.Dispatch ParseProofs.Provenance
  ParseProofs.Escape ParseProofs.EscapeWalk ParseProofs.EscapeStore ParseProofs.EscapeSub.
From Coq Require Import ZArith Lia List Bool.
From RecordUpdate Require Import RecordSet.
Import RecordSetNotations.
Import ListNotations.
Open Scope N_scope.

(** what the storing step needs of a level *)
Definition lvl_store (c : cmd) : Prop :=
  (forall a, In a (c_args c) -> a_takes_value a = true -> stores_given a)
  /\ (forall a, In a (c_args c) -> find_group c (a_id a) = None).

Lemma lvl_store_of_wfc c : Totality.wfc c -> assert_app c = true -> lvl_store c.
Proof.
  intros (W1 & W2 & W3 & W4 & W5) Happ. split.
  - intros a Hin Ht. destruct (TotalityMain.assert_app_arg _ _ Happ Hin) as [Haa _].
    unfold assert_arg in Haa. repeat (apply andb_true_iff in Haa as [Haa ?]).
    match goal with Hi : (vmax _ <=? vmax _) = true |- _ => rename Hi into HI end.
    unfold a_takes_value, r_takes_values in Ht. apply negb_true_iff, N.eqb_neq in Ht.
    unfold stores_given. destruct (a_get_action a); auto; cbn in HI; apply N.leb_le in HI; exfalso; lia.
  - intros a Hin. destruct (find_group c (a_id a)) as [g|] eqn:Eg; [|reflexivity]. exfalso.
    unfold find_group in Eg. apply List.find_some in Eg. destruct Eg as [Hg Hb]. apply beq_eq in Hb.
    pose proof (Provenance.assert_app_groups_sane c Happ g Hg) as Hs. rewrite Hb, (W3 a Hin) in Hs. discriminate.
Qed.

Section LevelTop.
Variable c : cmd.
Hypothesis Hl : lvl c.
Hypothesis Hst : lvl_store c.
Hypothesis Hnh : forall a, In a (c_args c) -> a_hyphen a = false.
Hypothesis Hdd : forall vaf, possible_subcommand c dashdash vaf = None.

Let W3 := proj1 Hl.
Let WP := proj1 (proj2 Hl).
Let WD := proj2 (proj2 Hl).

(** the class: after the escape every token goes to the multi-valued positional [a], whatever the
    positional counter is (a [last] positional / [allow_missing_positional]), or the counter
    cannot move ([sticky]) and [a] is the positional at its initial value *)
Definition sink_from (pc0 : N) (a : arg) : Prop :=
  (forall pc, sink_arg c pc = Some a) \/ (sticky c = true /\ sink_arg c pc0 = Some a).

Lemma sink_from_at pc0 a q : sink_from pc0 a -> (sticky c = true -> q = pc0) -> sink_arg c q = Some a.
Proof. intros [H|[Hs H]] Hq; [apply H|rewrite (Hq Hs); exact H]. Qed.

Lemma sink_in pc a : sink_arg c pc = Some a -> In a (c_args c) /\ a_index a <> None.
Proof. intros H. destruct (sink_arg_spec c _ _ H) as (_ & Hg & _). exact (get_pos_in _ _ _ Hg). Qed.

Lemma pend_ti_le st : TV c st -> pend_ti (mt st) <= N.of_nat (length (pend_raw (mt st))).
Proof.
  intros H. unfold pend_ti, pend_raw. destruct (mt_pending (mt st)) as [p|] eqn:E; [|cbn; lia].
  destruct (p_trailing_idx p) as [t0|] eqn:Et; [|lia]. exact (proj2 (H p E) t0 Et).
Qed.

Lemma flush_sub a st st1 : flush_for c a st = ROk st1 -> mt_sub (mt st1) = mt_sub (mt st).
Proof.
  unfold flush_for. destruct (_ || _).
  - intros E. pose proof (resolve_pending_sub c (mt_sub (mt st)) st eq_refl) as Hk. rewrite E in Hk. exact Hk.
  - intros E. injection E as <-. reflexivity.
Qed.

(** in trailing mode at a sink the loop can only end with [LDone] *)
Lemma trailing_sink_done toks ls st lr a :
  l_trailing ls = true -> sink_arg c (l_pos ls) = Some a -> parse_loop c toks ls st = ROk lr ->
  exists st1, lr = LDone st1.
Proof.
  intros Htr Hs E.
  destruct (trailing_outcome c toks ls st Htr) as [ls' st2 _ Er|pre tok rest ls1 st1 Eq Hr Hstop].
  - rewrite E in Er. injection Er as ->. eexists; reflexivity.
  - exfalso. rewrite E in Hstop. pose proof (truns_sink c _ _ _ _ _ _ _ Hs Hr) as Hs1.
    destruct (sink_arg_spec c _ _ Hs1) as (Hlow & Hg & _).
    inversion Hstop as [| pc' Hpc Hgn _ | |]; subst.
    rewrite (pos_correct_sink c _ _ _ Hlow) in Hpc. injection Hpc as <-. rewrite Hg in Hgn. discriminate.
Qed.

(** after the loop and [resolve_pending]: the entry of the sink positional ends with the tail,
    every entry outside [touched a] is the one of the state [flush_for a st] *)
Lemma trailing_sink_store x t ls st st1 st2 a :
  l_trailing ls = true -> sink_arg c (l_pos ls) = Some a -> TV c st -> t <> [] ->
  parse_loop c (x ++ t) ls st = ROk (LDone st1) -> resolve_pending c st1 = ROk st2 ->
  exists st0 e gs early' t',
    flush_for c a st = ROk st0 /\
    get_entry (a_id a) st2 = Some e /\ m_raw e = gs ++ [early' ++ t'] /\ m_source e = Some SCmdLine /\
    tail_form c a t = Some t' /\ mt_pending (mt st2) = None /\
    (forall y, touched c a y = false -> get_entry y st2 = get_entry y st0) /\
    mt_sub (mt st2) = mt_sub (mt st0).
Proof.
  intros Htr Hs HTV Ht E Er.
  destruct (x ++ t) as [|tok tail] eqn:Ext; [destruct x; [contradiction|discriminate]|].
  destruct (trailing_done_sink c tok tail ls st st1 a Htr Hs E)
    as (st0 & p & F & Hp & Hid & Hraw & Hti & Hargs & Hsub & _).
  apply beq_eq in Hid. destruct (sink_in _ _ Hs) as [Hin Hidx].
  assert (Hf : find_arg c (p_id p) = Some a) by (rewrite Hid; apply W3; exact Hin).
  pose proof (flush_TV c a st st0 HTV F) as HTV0.
  rewrite <- Ext, app_assoc in Hraw.
  assert (Hk : pend_ti (mt st0) <= N.of_nat (length (pend_raw (mt st0) ++ x))).
  { pose proof (pend_ti_le st0 HTV0). rewrite app_length. lia. }
  destruct (sink_resolve c st1 p a _ t _ st2 (proj2 Hst a Hin) (proj1 Hst a Hin (WP a Hin Hidx)) Hp Hf Hraw Ht Hti Hk Er)
    as (e & gs & early' & t' & G1 & G2 & G3 & _ & G5 & G6).
  exists st0, e, gs, early', t'. repeat split; try assumption.
  - intros y Hy. rewrite (resolve_pending_frame c st1 st2 p a y Hp Hf Hy Er). unfold get_entry. rewrite Hargs. reflexivity.
  - pose proof (resolve_pending_sub c (mt_sub (mt st1)) st1 eq_refl) as Hk2. rewrite Er in Hk2. cbn in Hk2.
    unfold Dispatch.S_ in Hk2. congruence.
Qed.

(** ** the phases after the loop *)
Lemma post_ok_inv parsed st' : post c parsed = ROk st' ->
  exists stp s2 s3, parsed = ROk stp /\ resolve_pending c stp = ROk s2 /\ add_env c s2 = ROk s3 /\
                    add_defaults c s3 = ROk st'.
Proof.
  destruct parsed as [stp|e stp|x]; cbn [post]; [| |discriminate].
  - destruct (resolve_pending c stp) as [s2|e2 s2|x2] eqn:E2; cbn [rbind]; try discriminate.
    destruct (add_env c s2) as [s3|e3 s3|x3] eqn:E3; cbn [rbind]; try discriminate.
    destruct (add_defaults c s3) as [s4|e4 s4|x4] eqn:E4; cbn [rbind]; try discriminate.
    unfold vres_to_res. destruct (validate c (mt s4)); try discriminate.
    intros H. injection H as <-. exists stp, s2, s3. auto.
  - intros H. exfalso. destruct (is_set s_ignore_errors c); [|discriminate].
    destruct (resolve_pending c stp) as [s0|e0 s0|x0]; [| |discriminate];
      (destruct (add_env c s0) as [s1|e1 s1|x1]; [| |discriminate];
        (destruct (add_defaults c s1) as [s2|e2 s2|x2]; discriminate)).
Qed.

Lemma phases_keep s2 s3 st' y e :
  mt_pending (mt s2) = None -> add_env c s2 = ROk s3 -> add_defaults c s3 = ROk st' ->
  find_group c y = None -> get_entry y s2 = Some e -> get_entry y st' = Some e.
Proof.
  intros Hp He Hd Hg Hy.
  destruct (add_env_frame c s2 s3 Hp He) as (Hp3 & _ & Hk & _).
  destruct (add_defaults_frame c s3 st' Hp3 Hd) as (_ & _ & _ & Hk2 & _).
  apply Hk2. apply Hk; assumption.
Qed.

Lemma phases_cmdline s2 s3 st' y e :
  mt_pending (mt s2) = None -> add_env c s2 = ROk s3 -> add_defaults c s3 = ROk st' ->
  find_group c y = None -> get_entry y st' = Some e -> m_source e = Some SCmdLine -> get_entry y s2 = Some e.
Proof.
  intros Hp He Hd Hg Hy Hsrc.
  destruct (add_env_frame c s2 s3 Hp He) as (Hp3 & _ & Hk & Hnew & _).
  destruct (add_defaults_frame c s3 st' Hp3 Hd) as (_ & _ & _ & Hk2 & Hnew2).
  unfold get_entry in *.
  destruct (fm_get y (mt_args (mt s2))) as [e2|] eqn:E2.
  - rewrite (Hk2 _ _ (Hk _ _ Hg E2)) in Hy. exact Hy.
  - exfalso. destruct (fm_get y (mt_args (mt s3))) as [e3|] eqn:E3.
    + destruct (Hnew _ _ Hg E2 E3) as [Hs3 _]. rewrite (Hk2 _ _ E3) in Hy. injection Hy as <-. congruence.
    + pose proof (Hnew2 _ _ E3 Hy). congruence.
Qed.

Definition ls0 : lstate := mkL PSValuesDone 1 false false.

Lemma TV0 st0 : mt_pending (mt st0) = None -> TV c st0 /\ LTV c ls0.
Proof. intros H. split; [apply TV_none; exact H|]. intros i Hi. discriminate. Qed.

(** (1) for the states the loop is entered with (no pending occurrence: [ps_new], [sub_init]): a
    help/version outcome of [pre ++ -- :: t] is the outcome of [pre ++ -- :: t2] for every tail [t2] *)
Theorem display_not_from_tail_initial pre t t2 st0 e st' :
  mt_pending (mt st0) = None ->
  parse_loop c (pre ++ dashdash :: t) ls0 st0 = RErr e st' -> is_display (e_kind e) = true ->
  parse_loop c (pre ++ dashdash :: t2) ls0 st0 = RErr e st'.
Proof.
  intros Hp0. destruct (TV0 st0 Hp0) as [HTV HLTV].
  exact (display_not_from_tail c W3 WP Hnh Hdd WD pre t t2 ls0 st0 e st' HTV HLTV).
Qed.

(** ** the common base state of two runs with different tails *)
Lemma trailing_base l ls st stl sr a :
  l_trailing ls = true -> sink_arg c (l_pos ls) = Some a -> TV c st ->
  parse_loop c l ls st = ROk (LDone stl) -> resolve_pending c stl = ROk sr ->
  exists st0, flush_for c a st = ROk st0 /\ mt_pending (mt sr) = None /\
              (forall y, touched c a y = false -> get_entry y sr = get_entry y st0) /\
              mt_sub (mt sr) = mt_sub (mt st).
Proof.
  intros Htr Hs HTV E Er. destruct l as [|tok tail].
  - cbn [parse_loop] in E. injection E as <-.
    pose proof (Spelling.resolve_pending_clears c st sr Er) as Hnone.
    assert (Hsub : mt_sub (mt sr) = mt_sub (mt st)).
    { pose proof (resolve_pending_sub c (mt_sub (mt st)) st eq_refl) as Hk. rewrite Er in Hk. exact Hk. }
    destruct (sink_in _ _ Hs) as [Hin _].
    unfold flush_for.
    destruct (negb (match pending_arg_id (mt st) with Some i => beq i (a_id a) | None => false end)
              || negb (a_multiple_values a)) eqn:Eb.
    + exists sr. split; [exact Er|]. split; [exact Hnone|]. split; [reflexivity|exact Hsub].
    + exists st. split; [reflexivity|]. split; [exact Hnone|]. split; [|exact Hsub]. intros y Hy.
      apply orb_false_elim in Eb. destruct Eb as [Eb _]. apply negb_false_iff in Eb.
      unfold pending_arg_id in Eb. destruct (mt_pending (mt st)) as [p|] eqn:Ep; cbn [opt_map] in Eb; [|discriminate].
      apply beq_eq in Eb.
      apply (resolve_pending_frame c st sr p a y Ep); [rewrite Eb; apply W3; exact Hin|exact Hy|exact Er].
  - destruct (trailing_sink_store [] (tok :: tail) ls st stl sr a Htr Hs HTV ltac:(discriminate) E Er)
      as (st0 & _ & _ & _ & _ & F & _ & _ & _ & _ & G5 & G6 & G7).
    exists st0. split; [exact F|]. split; [exact G5|]. split; [exact G6|]. rewrite G7. exact (flush_sub _ _ _ F).
Qed.

End LevelTop.
