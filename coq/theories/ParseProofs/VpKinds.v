(** Every rejection of a value parser of the parser model ([Parser.vp_parse]) carries one of the
    three value-error kinds.  Stated once here (for all ten parsers, the C04 ones through the
    results of Value/*.v) so that the per-property proof files, which only need "the kind is not
    X", do not case-split on [vparser] themselves. *)
From ClapModel Require Import Base.Bytes Base.Utf8.
From ClapModel Require Import Parse.Cmd Parse.Errors Parse.Parser.
From Coq Require Import ZArith Bool List.
Import ListNotations.

Lemma ek_of_value_kind k' : ek_of k' = EInvalidUtf8 \/ ek_of k' = EInvalidValue \/ ek_of k' = EValueValidation.
Proof. destruct k'; cbn [ek_of]; tauto. Qed.

Lemma vres_kind_value_kind {A} (r : ClapModel.Value.ValueBase.vresult A) k :
  vres_kind r = Some k -> k = EInvalidUtf8 \/ k = EInvalidValue \/ k = EValueValidation.
Proof.
  destruct r as [a|k']; cbn [vres_kind]; [discriminate|]. intros H; injection H as <-. apply ek_of_value_kind.
Qed.

Lemma vp_parse_value_kind v s k :
  vp_parse v s = Some k -> k = EInvalidUtf8 \/ k = EInvalidValue \/ k = EValueValidation.
Proof.
  destruct v as [| | | |lo hi| | | |ic pvs|t lo hi]; cbn [vp_parse].
  - destruct (utf8_valid s); [discriminate|]. intros H; injection H as <-; tauto.
  - discriminate.
  - destruct (beq s s_true || beq s s_false); [discriminate|]. intros H; injection H as <-; tauto.
  - destruct (negb (utf8_valid s)); [intros H; injection H as <-; tauto|].
    destruct (parse_i64 s) as [z|]; [destruct ((0 <=? z) && (z <=? 255))%Z; [discriminate|]|];
      intros H; injection H as <-; tauto.
  - destruct (negb (utf8_valid s)); [intros H; injection H as <-; tauto|].
    destruct (parse_i64 s) as [z|]; [destruct ((lo <=? z) && (z <=? hi))%Z; [discriminate|]|];
      intros H; injection H as <-; tauto.
  - apply vres_kind_value_kind.
  - apply vres_kind_value_kind.
  - apply vres_kind_value_kind.
  - apply vres_kind_value_kind.
  - apply vres_kind_value_kind.
Qed.

(** the shape the proof files use: any predicate true of the three kinds is true of a rejection *)
Lemma vp_parse_kind_ind (P : ekind -> Prop) v s k :
  P EInvalidUtf8 -> P EInvalidValue -> P EValueValidation -> vp_parse v s = Some k -> P k.
Proof. intros H1 H2 H3 H. destruct (vp_parse_value_kind v s k H) as [->|[->| ->]]; assumption. Qed.
