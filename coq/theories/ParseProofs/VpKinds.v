(** Every rejection of a value parser of the parser model ([Parser.vp_parse]) carries one of the
    three value-error kinds.  Stated once here (for all ten parsers, the C04 ones through the
    results of Value/*.v) so that the per-property proof files, which only need "the kind is not
    X", do not case-split on [vparser] themselves. *)
From ClapModel Require Import Base.Bytes Base.Utf8.
From ClapModel Require Import Parse.Cmd Parse.Errors Parse.Parser.
From ClapModel Require Value.ValueBase Value.IntParse Value.IntFactory Value.BoolParse Value.PossibleValues.
From Coq Require Import ZArith Bool List.
Import ListNotations.

Lemma ek_of_value_kind k' : ek_of k' = EInvalidUtf8 \/ ek_of k' = EInvalidValue \/ ek_of k' = EValueValidation.
Proof. destruct k'; cbn [ek_of]; tauto. Qed.

Lemma vres_kind_value_kind {A} (r : ClapModel.Value.ValueBase.vresult A) k :
  vres_kind r = Some k -> k = EInvalidUtf8 \/ k = EInvalidValue \/ k = EValueValidation.
Proof.
  destruct r as [a|k']; cbn [vres_kind]; [discriminate|]. intros H; injection H as <-. apply ek_of_value_kind.
Qed.

Lemma vp_parse_value_kind v s k :
  vp_parse v s = Some k -> k = EInvalidUtf8 \/ k = EInvalidValue \/ k = EValueValidation.
Proof.
  destruct v as [| | | |lo hi| | | |ic pvs|t lo hi]; cbn [vp_parse].
  - destruct (utf8_valid s); [discriminate|]. intros H; injection H as <-; tauto.
  - discriminate.
  - destruct (beq s s_true || beq s s_false); [discriminate|]. intros H; injection H as <-; tauto.
  - destruct (negb (utf8_valid s)); [intros H; injection H as <-; tauto|].
    destruct (parse_i64 s) as [z|]; [destruct ((0 <=? z) && (z <=? 255))%Z; [discriminate|]|];
      intros H; injection H as <-; tauto.
  - destruct (negb (utf8_valid s)); [intros H; injection H as <-; tauto|].
    destruct (parse_i64 s) as [z|]; [destruct ((lo <=? z) && (z <=? hi))%Z; [discriminate|]|];
      intros H; injection H as <-; tauto.
  - apply vres_kind_value_kind.
  - apply vres_kind_value_kind.
  - apply vres_kind_value_kind.
  - apply vres_kind_value_kind.
  - apply vres_kind_value_kind.
Qed.

(** the shape the proof files use: any predicate true of the three kinds is true of a rejection *)
Lemma vp_parse_kind_ind (P : ekind -> Prop) v s k :
  P EInvalidUtf8 -> P EInvalidValue -> P EValueValidation -> vp_parse v s = Some k -> P k.
Proof. intros H1 H2 H3 H. destruct (vp_parse_value_kind v s k H) as [->|[->| ->]]; assumption. Qed.

(** [InvalidUtf8] is raised for ill-formed input only.  Proved from the DEFINITIONS of the value-parser
    models (no fact about the regenerated literal / folding tables is used), so that the proof files of
    the other properties, which import this file, do not depend on Value/*Proofs.v. *)
Lemma vres_kind_utf8 {A} (r : ClapModel.Value.ValueBase.vresult A) :
  vres_kind r = Some EInvalidUtf8 -> r = ClapModel.Value.ValueBase.VErr ClapModel.Value.ValueBase.InvalidUtf8.
Proof.
  destruct r as [a|k]; cbn [vres_kind]; [discriminate|]. destruct k; cbn [ek_of]; intros H; try discriminate H. reflexivity.
Qed.

Lemma ranged_parse_utf8 k r t s :
  ClapModel.Value.IntFactory.ranged_parse k r t s = ClapModel.Value.ValueBase.VErr ClapModel.Value.ValueBase.InvalidUtf8 ->
  utf8_valid s = false.
Proof.
  unfold ClapModel.Value.IntFactory.ranged_parse, ClapModel.Value.IntFactory.ranged_parse_d,
         ClapModel.Value.IntParse.ranged_i64_d, ClapModel.Value.IntParse.ranged_u64_d, ClapModel.Value.IntParse.ranged_d.
  destruct (utf8_valid s); [|reflexivity]. cbn [negb].
  destruct k.
  - destruct (ClapModel.Value.IntParse.parse_int true _ _ s) as [v|e]; cbn [ClapModel.Value.IntParse.to_vresult ClapModel.Value.IntParse.reject_kind]; [|discriminate].
    destruct (negb _); cbn [ClapModel.Value.IntParse.to_vresult ClapModel.Value.IntParse.reject_kind]; [discriminate|].
    destruct (ClapModel.Value.IntParse.try_from _ _ v); cbn [ClapModel.Value.IntParse.to_vresult ClapModel.Value.IntParse.reject_kind]; discriminate.
  - destruct (ClapModel.Value.IntParse.parse_int false _ _ s) as [v|e]; cbn [ClapModel.Value.IntParse.to_vresult ClapModel.Value.IntParse.reject_kind]; [|discriminate].
    destruct (negb _); cbn [ClapModel.Value.IntParse.to_vresult ClapModel.Value.IntParse.reject_kind]; [discriminate|].
    destruct (ClapModel.Value.IntParse.try_from _ _ v); cbn [ClapModel.Value.IntParse.to_vresult ClapModel.Value.IntParse.reject_kind]; discriminate.
Qed.

Lemma vp_parse_utf8_kind v s : vp_parse v s = Some EInvalidUtf8 -> utf8_valid s = false.
Proof.
  destruct v as [| | | |lo hi| | | |ic pvs|t lo hi]; cbn [vp_parse].
  - destruct (utf8_valid s); [discriminate|reflexivity].
  - discriminate.
  - destruct (beq s s_true || beq s s_false); discriminate.
  - destruct (utf8_valid s); [|reflexivity]. cbn [negb].
    destruct (parse_i64 s) as [z|]; [destruct ((0 <=? z) && (z <=? 255))%Z|]; discriminate.
  - destruct (utf8_valid s); [|reflexivity]. cbn [negb].
    destruct (parse_i64 s) as [z|]; [destruct ((lo <=? z) && (z <=? hi))%Z|]; discriminate.
  - intros H. apply vres_kind_utf8 in H. unfold ClapModel.Value.BoolParse.boolish_parse in H.
    destruct (utf8_valid s); [|reflexivity]. cbn [negb] in H.
    destruct (ClapModel.Value.BoolParse.str_to_bool s); discriminate H.
  - intros H. apply vres_kind_utf8 in H. unfold ClapModel.Value.BoolParse.falsey_parse in H.
    destruct (utf8_valid s); [|reflexivity]. cbn [negb] in H.
    destruct (ClapModel.Value.BoolParse.is_nil_b s); [discriminate H|].
    destruct (ClapModel.Value.BoolParse.str_to_bool s); discriminate H.
  - intros H. apply vres_kind_utf8 in H. unfold ClapModel.Value.BoolParse.nonempty_parse in H.
    destruct (ClapModel.Value.BoolParse.is_nil_b s); [discriminate H|].
    destruct (utf8_valid s); [|reflexivity]. cbn [negb] in H. discriminate H.
  - intros H. apply vres_kind_utf8 in H. unfold ClapModel.Value.PossibleValues.possible_parse in H.
    destruct (utf8_valid s); [|reflexivity]. cbn [negb] in H.
    destruct (existsb _ _); discriminate H.
  - intros H. apply vres_kind_utf8 in H. exact (ranged_parse_utf8 _ _ _ _ H).
Qed.
