(** C01, round 5 (C): every panic-shaped site of the Rust source on the parse path (Gen/ParseSites.v, regenerated on
    every run) has exactly one COVERAGE class, computed from its row of [Sites.model_site_table]:

    - [CovAllDefs]:   a statement about the model proved for EVERY definition (valid or not) and every input
                      ([Proved] rows; the statement is in the row);
    - [CovValid]:     the site is a visible panic result of the model, and none of its numbers is ever the outcome of
                      parsing for EVERY definition the gate accepts ([unbuilt], [valid]) and every token list
                      ([Modelled] rows not containing 920; FsAny.v);
    - [CovClassOnly]: visible in the model, dead for the class [flag_sub_class] (FsTotality.v), REACHABLE outside it
                      (recorded finding C01-flag-subcmd-skip): outside the class the differential run and the direct
                      oracle are the only cover.  One site: [Parser::parse_short_arg] [debug_assert_eq!] #0 (920);
    - [CovReasoned]:  no statement about the model; dead by reasoning local to the Rust function, recorded as a string in
                      the row.  Differential only.

    [sites_coverage_sound]: what each class claims holds.  [sites_classified]: the classification covers exactly the
    generated list, and the members of each class are pinned by name (Properties/C01.v), so a NEW site in the source
    breaks the proof gate until it is given a row and thereby a class, and moving a site between classes is a visible
    change of a pinned statement.  vp/props/c01.py prints the four lists into the evidence. *)
From ClapModel Require Import Base.Bytes Base.Machine Base.Utf8.
From ClapModel Require Import Parse.Cmd Parse.Build Parse.Valid Parse.Matcher Parse.Errors Parse.Validator Parse.Parser.
From ClapModel Require Import ParseProofs.Sites ParseProofs.FsTotality ParseProofs.FsAny ParseProofs.FsTop.
From ClapModel Require Gen.ParseSites.
From Coq Require Import ZArith String.
Open Scope N_scope.

Inductive coverage := CovAllDefs | CovValid | CovClassOnly | CovReasoned.
Definition coverage_eqb (a b : coverage) : bool :=
  match a, b with
  | CovAllDefs, CovAllDefs | CovValid, CovValid | CovClassOnly, CovClassOnly | CovReasoned, CovReasoned => true
  | _, _ => false end.

Definition coverage_of (d : disposition) : coverage :=
  match d with
  | Proved _ _ => CovAllDefs
  | Modelled l => if existsb (N.eqb 920) l then CovClassOnly else CovValid
  | Reasoned _ => CovReasoned
  end.

Definition site_coverage : list (site_key * coverage) :=
  List.map (fun p => (fst p, coverage_of (snd p))) model_site_table.
Definition sites_of (cov : coverage) : list site_key :=
  List.map fst (List.filter (fun p => coverage_eqb (snd p) cov) site_coverage).

Definition claim (k : site_key) (cov : coverage) : Prop :=
  match cov with
  | CovAllDefs => exists P w, In (k, Proved P w) model_site_table /\ P
  | CovValid => exists l, In (k, Modelled l) model_site_table
      /\ forall c0 toks, unbuilt c0 = true -> valid c0 = true -> forall n, In n l -> do_parse c0 toks <> OPanicked n
  | CovClassOnly => exists l, In (k, Modelled l) model_site_table
      /\ forall c0 toks, flag_sub_class c0 = true -> valid c0 = true -> forall n, In n l -> do_parse c0 toks <> OPanicked n
  | CovReasoned => exists w, In (k, Reasoned w) model_site_table
  end.

Lemma existsb_920_false l : existsb (N.eqb 920) l = false -> forall n, In n l -> n <> 920.
Proof.
  intros H n Hin E. subst n.
  assert (existsb (N.eqb 920) l = true) by (apply existsb_exists; exists 920; split; [exact Hin|apply N.eqb_refl]).
  congruence.
Qed.

Lemma in_modelled k l n : In (k, Modelled l) model_site_table -> In n l -> In n modelled_sites.
Proof.
  intros Hin Hn. unfold modelled_sites. apply in_flat_map. exists (k, Modelled l). split; [exact Hin|exact Hn].
Qed.

Theorem sites_coverage_sound k cov : In (k, cov) site_coverage -> claim k cov.
Proof.
  unfold site_coverage. intros H. apply in_map_iff in H. destruct H as [[k0 d] [E Hin]].
  cbn [fst snd] in E. injection E as -> <-.
  destruct d as [l|P w|w]; cbn [coverage_of].
  - destruct (existsb (N.eqb 920) l) eqn:E9; cbn [claim].
    + exists l. split; [exact Hin|]. intros c0 toks Hc Hv n Hn.
      apply sites_dead_fs; [exact Hc|exact Hv|eapply in_modelled; eassumption].
    + exists l. split; [exact Hin|]. intros c0 toks Hu Hv n Hn.
      apply sites_dead_any; [exact Hu|exact Hv|eapply in_modelled; eassumption|eapply existsb_920_false; eassumption].
  - cbn [claim]. exists P, w. split; [exact Hin|eapply sites_proved; exact Hin].
  - cbn [claim]. exists w. exact Hin.
Qed.

Section Lists.
Local Open Scope string_scope.
Theorem sites_classified :
  List.map fst site_coverage = Gen.ParseSites.parse_sites
  /\ sites_of CovAllDefs =
     [ ("parser/parser.rs", "Parser::parse_help_subcommand", "unwrap", 0);
       ("parser/parser.rs", "Parser::parse_opt_value", "debug_assert_eq!", 0);
       ("parser/parser.rs", "Parser::parse_opt_value", "debug_assert_eq!", 1);
       ("parser/arg_matcher.rs", "ArgMatcher::start_occurrence_of_external", "expect", 0);
       ("parser/matches/matched_arg.rs", "MatchedArg::new_external", "expect", 0);
       ("parser/validator.rs", "Validator::missing_required_error", "debug_assert!", 0);
       ("builder/command.rs", "Command::contains_short", "debug_assert!", 0) ]
  /\ sites_of CovValid =
     [ ("parser/parser.rs", "Parser::parse", "index", 0);
       ("parser/parser.rs", "Parser::parse", "unreachable!", 1);
       ("parser/parser.rs", "Parser::parse", "unreachable!", 2);
       ("parser/parser.rs", "Parser::parse", "sub", 0);
       ("parser/parser.rs", "Parser::parse", "unreachable!", 3);
       ("parser/parser.rs", "Parser::parse", "index", 1);
       ("parser/parser.rs", "Parser::parse", "expect", 0);
       ("parser/parser.rs", "Parser::is_new_arg", "index", 0);
       ("parser/parser.rs", "Parser::is_new_arg", "index", 1);
       ("parser/parser.rs", "Parser::parse_long_arg", "index", 0);
       ("parser/parser.rs", "Parser::parse_long_arg", "debug_assert!", 0);
       ("parser/parser.rs", "Parser::parse_short_arg", "index", 0);
       ("parser/parser.rs", "Parser::parse_short_arg", "index", 1);
       ("parser/parser.rs", "Parser::resolve_pending", "expect", 0);
       ("parser/parser.rs", "Parser::verify_num_args", "expect", 0);
       ("parser/parser.rs", "Parser::verify_num_args", "expect", 1);
       ("parser/arg_matcher.rs", "ArgMatcher::add_val_to", "expect", 0);
       ("parser/arg_matcher.rs", "ArgMatcher::add_index_to", "expect", 0);
       ("parser/arg_matcher.rs", "ArgMatcher::needs_more_vals", "expect", 0);
       ("parser/arg_matcher.rs", "ArgMatcher::pending_values_mut", "debug_assert_eq!", 0);
       ("parser/arg_matcher.rs", "ArgMatcher::pending_values_mut", "debug_assert_eq!", 1);
       ("parser/matches/matched_arg.rs", "MatchedArg::append_val", "expect", 0);
       ("parser/matches/matched_arg.rs", "MatchedArg::append_val", "expect", 1);
       ("parser/validator.rs", "Validator::build_conflict_err", "expect", 0);
       ("parser/validator.rs", "Validator::build_conflict_err", "expect", 1);
       ("parser/validator.rs", "gather_direct_conflicts", "debug_assert!", 0);
       ("parser/validator.rs", "gather_arg_direct_conflicts", "expect", 0);
       ("builder/command.rs", "Command::_build_self", "assert_app", 0);
       ("builder/command.rs", "Command::unroll_args_in_group", "expect", 0);
       ("builder/command.rs", "Command::index", "expect", 0) ]
  /\ sites_of CovClassOnly =
     [ ("parser/parser.rs", "Parser::parse_short_arg", "debug_assert_eq!", 0) ]
  /\ sites_of CovReasoned =
     [ ("parser/parser.rs", "Parser::parse", "unreachable!", 0);
       ("parser/parser.rs", "Parser::parse", "unreachable!", 4);
       ("parser/parser.rs", "Parser::parse", "debug_assert_eq!", 0);
       ("parser/parser.rs", "Parser::did_you_mean_error", "index", 0);
       ("parser/arg_matcher.rs", "ArgMatcher::start_custom_arg", "debug_assert_eq!", 0);
       ("parser/arg_matcher.rs", "ArgMatcher::start_custom_group", "debug_assert_eq!", 0);
       ("parser/arg_matcher.rs", "ArgMatcher::start_occurrence_of_external", "debug_assert_eq!", 0);
       ("builder/command.rs", "Command::_build_subcommand", "unwrap", 0);
       ("builder/command.rs", "Command::_build_subcommand", "unwrap", 1);
       ("builder/command.rs", "Command::format_group", "unwrap", 0) ].
Proof. repeat split; vm_compute; reflexivity. Qed.

(** the panic-shaped sites of the files reached while an error is CONSTRUCTED -- the usage string every error carries
    ([Usage::create_usage_with_title] from [Error::with_cmd] and the parser's constructors), the help text of a DisplayHelp error
    ([HelpTemplate], [StyledStr::wrap]).  They are outside the parser model: C12 models them ([Help/UsageModel.v], [HelpModel.v]:
    every one a visible [None]) and proves them dead for its own class ([C12_usage_total], [C12_padding_safe], [C12_render_total]);
    for C01 they are DIFFERENTIAL ONLY (the harness renders every error under catch_unwind).  The list is pinned so that a new
    site on that path is noticed by C01's gate too. *)
Theorem render_path_sites_listed :
  Gen.ParseSites.render_path_sites =
     [
       ("output/usage.rs", "Usage::write_args", "debug_assert!", 0);
       ("output/usage.rs", "Usage::write_args", "index", 0);
       ("output/usage.rs", "Usage::write_args", "debug_assert!", 1);
       ("output/usage.rs", "Usage::write_args", "unwrap", 0);
       ("output/usage.rs", "Usage::write_args", "index", 1);
       ("output/usage.rs", "Usage::write_args", "index", 2);
       ("output/usage.rs", "Usage::write_args", "unwrap", 1);
       ("output/usage.rs", "Usage::write_args", "index", 3);
       ("output/usage.rs", "Usage::write_args", "index", 4);
       ("output/usage.rs", "Usage::write_args", "index", 5);
       ("output/usage.rs", "Usage::get_required_usage_from", "debug_assert!", 0);
       ("output/usage.rs", "Usage::get_required_usage_from", "index", 0);
       ("output/usage.rs", "Usage::get_required_usage_from", "debug_assert!", 1);
       ("output/help_template.rs", "HelpTemplate::align_to_about", "sub", 0);
       ("output/help_template.rs", "HelpTemplate::align_to_about", "sub", 1);
       ("output/help_template.rs", "HelpTemplate::help", "expect", 0);
       ("output/help_template.rs", "HelpTemplate::help", "sub", 0);
       ("output/help_template.rs", "HelpTemplate::help", "sub", 1);
       ("output/help_template.rs", "HelpTemplate::help", "sub", 2);
       ("output/help_template.rs", "HelpTemplate::arg_next_line_help", "sub", 0);
       ("output/help_template.rs", "HelpTemplate::subcommand_next_line_help", "sub", 0);
       ("output/help_template.rs", "HelpTemplate::subcmd", "sub", 0);
       ("builder/styled_str.rs", "StyledStr::wrap", "sub", 0);
       ("builder/styled_str.rs", "StyledStr::wrap", "index", 0);
       ("builder/styled_str.rs", "StyledStr::wrap", "index", 1) ].
Proof. vm_compute. reflexivity. Qed.
End Lists.
