(** Property C05, round 2: the part of the token loop BEFORE the escape.

    One iteration of [Parser.parse_loop] depends on the rest of the line only through its first
    token (the look-ahead of the low-index-multiple / missing-positional rule) -- everything else
    of the rest is carried along unread into the recursive call or into the [LSub]/[LHelpSub]/
    [LExternal] result ([step_sim], one walk over all branches of the loop body).  By induction
    over the prefix ([prefix_sim]) the loop over [pre ++ -- :: t] reaches the [--] in a state that
    does not depend on [t], or ends inside [pre] ([escape_line_sim]).  The same walk carries the
    invariant [TV] "the argument of the pending occurrence takes values", which excludes a pending
    Help/Version argument and closes [Escape.trailing_no_display] ([display_not_from_tail]). *)
From ClapModel Require Import Base.Bytes Base.Machine Base.Utf8 Lex.OsStrExtModel.
From ClapModel Require Import Parse.Cmd Parse.Build Parse.Valid Parse.Matcher Parse.Errors Parse.Validator Parse.Parser.
From ClapModel Require Import ParseProofs.Safe ParseProofs.Invariant ParseProofs.Totality ParseProofs.TotalityMain ParseProofs.Spelling ParseProofs.ActionsLoop ParseProofs.Dispatch ParseProofs.Escape.
From Coq Require Import ZArith Lia List Bool.
From RecordUpdate Require Import RecordSet.
Import RecordSetNotations.
Import ListNotations.
Open Scope N_scope.


(** * The flag/option parsers never touch the recorded subcommand *)
Section KeepSubLoop.
Variable c : cmd.
Variable s : option (bytes * matches).
Notation S_ := (Dispatch.S_ s).

Lemma push_sub m i idn tr v m1 : pending_values_push m i idn tr v = Some m1 -> mt_sub m1 = mt_sub m.
Proof.
  unfold pending_values_push. destruct (negb _); [discriminate|]. destruct (_ && _); [discriminate|].
  intros H. injection H as <-. reflexivity.
Qed.

Lemma parse_opt_value_sub idn att a he st : S_ st ->
  holds (fun x => S_ (fst x)) S_ (parse_opt_value c idn att a he st).
Proof.
  intros Hs. unfold parse_opt_value. destruct (a_req_eq a && negb he).
  - eapply holds_bind; [apply holds_expect; intros; exact I|]. intros r _.
    destruct (vmin r =? 0); [|exact Hs].
    eapply holds_bind; [apply react_sub; exact Hs|]. intros x Hx. exact Hx.
  - destruct att as [v|].
    + eapply holds_bind; [apply react_sub; exact Hs|]. intros x Hx. exact Hx.
    + eapply holds_bind; [apply resolve_pending_sub; exact Hs|]. intros st1 H1.
      destruct (pending_values_push (mt st1) (a_id a) (Some idn) false None) as [m|] eqn:Ep; cbn [expect rbind holds]; [|exact I].
      unfold Dispatch.S_. cbn. rewrite (push_sub _ _ _ _ _ _ Ep). exact H1.
Qed.

Lemma parse_long_arg_sub f ok v pst pc vaf st : S_ st ->
  holds (fun x => S_ (fst (fst x))) S_ (parse_long_arg c f ok v pst pc vaf st).
Proof.
  intros Hs. unfold parse_long_arg.
  destruct (state_arg c pst) as [sa|e0 s0|n0] eqn:Esa; cbn [rbind holds]; [| |exact I].
  2:{ exfalso. destruct pst as [|i|i]; cbn [state_arg] in Esa; try discriminate;
        (destruct (find_arg c i); cbn [expect rbind] in Esa; discriminate). }
  destruct (match sa with Some a => a_hyphen a | None => false end); [exact Hs|].
  destruct (negb ok); [exact Hs|].
  destruct (is_nil f && negb (is_some v)); [exact I|].
  match goal with |- holds _ _ (match ?fd with Some _ => _ | None => _ end) => destruct fd as [a|] end.
  - destruct (a_takes_value a).
    + eapply holds_bind; [apply parse_opt_value_sub; exact Hs|]. intros x Hx. exact Hx.
    + destruct v as [rest|]; [exact Hs|].
      eapply holds_bind; [apply react_sub; exact Hs|]. intros x Hx. exact Hx.
  - destruct (possible_long_flag_subcommand c f); [exact Hs|].
    destruct (match get_pos c pc with Some a => a_hyphen a && negb (a_last a) | None => false end); exact Hs.
Qed.

Lemma short_loop_sub : forall fuel r ret vaf st, S_ st ->
  holds (fun x => S_ (fst (fst x))) S_ (short_loop c fuel r ret vaf st).
Proof.
  induction fuel as [|f IH]; intros r ret vaf st Hs; cbn [short_loop]; [exact I|].
  destruct (sf_next r) as [[[ch|rest] r']|]; [|exact Hs|exact Hs].
  destruct (get_short c ch) as [a|].
  - destruct (negb (a_takes_value a)).
    + eapply holds_bind; [apply react_sub; exact Hs|]. intros x Hx. apply IH. exact Hx.
    + match goal with |- holds _ _ (let '(val, has_eq) := ?t in _) => destruct t as [val' he'] end.
      eapply holds_bind; [apply parse_opt_value_sub; exact Hs|]. intros [st1 pr] Hx. cbn [fst snd] in *.
      destruct pr; try exact Hx. apply IH. exact Hx.
  - destruct (find_short_subcmd c ch); [|exact Hs].
    eapply holds_bind; [apply resolve_pending_sub; exact Hs|]. intros st1 H1. exact H1.
Qed.

Lemma parse_short_arg_sub r pst pc vaf st : S_ st ->
  holds (fun x => S_ (fst (fst x))) S_ (parse_short_arg c r pst pc vaf st).
Proof.
  intros Hs. unfold parse_short_arg.
  destruct (state_arg c pst) as [sa|e0 s0|n0] eqn:Esa; cbn [rbind holds]; [| |exact I].
  2:{ exfalso. destruct pst as [|i|i]; cbn [state_arg] in Esa; try discriminate;
        (destruct (find_arg c i); cbn [expect rbind] in Esa; discriminate). }
  destruct (match sa with Some a => a_hyphen a || (a_negnum a && sf_is_negative_number r) | None => false end); [exact Hs|].
  destruct (match get_pos c pc with Some a => a_negnum a | None => false end && sf_is_negative_number r); [exact Hs|].
  destruct (match get_pos c pc with Some a => a_hyphen a && negb (a_last a) | None => false end
            && sf_any_unknown c (S (length r)) r); [exact Hs|].
  eapply holds_bind; [apply holds_expect; intros; exact I|]. intros r0 _.
  apply short_loop_sub. exact Hs.
Qed.
End KeepSubLoop.

Section Walk.
Variable c : cmd.
Hypothesis W3 : forall a, In a (c_args c) -> find_arg c (a_id a) = Some a.
Hypothesis WP : forall a, In a (c_args c) -> a_index a <> None -> a_takes_value a = true.

Definition takes_id (i : id) : Prop := forall a, find_arg c i = Some a -> a_takes_value a = true.
Definition ti_ok (p : pending) : Prop := forall k, p_trailing_idx p = Some k -> k <= N.of_nat (length (p_raw p)).
Definition TV (st : ps) : Prop := forall p, mt_pending (mt st) = Some p -> takes_id (p_id p) /\ ti_ok p.
Definition RTV (pr : presult) : Prop := forall i, pr = PROpt i -> takes_id i.
Definition LTV (ls : lstate) : Prop := forall i, l_pst ls = PSOpt i -> takes_id i.

Lemma TV_none st : mt_pending (mt st) = None -> TV st.
Proof. intros H p Hp. rewrite H in Hp. discriminate. Qed.

Lemma takes_id_arg a : In a (c_args c) -> a_takes_value a = true -> takes_id (a_id a).
Proof. intros Hin Ht a' Hf. rewrite (W3 a Hin) in Hf. injection Hf as <-. exact Ht. Qed.

Lemma react_TV idn s a raw ti st x : react c idn s a raw ti st = ROk x -> TV (fst x).
Proof.
  unfold react. destruct (resolve_pending c st) as [st1|e0 s0|n0] eqn:E; cbn [rbind]; try discriminate.
  intros H. destruct x as [st' pr]. apply TV_none. cbn [fst].
  rewrite (react_core_pending _ _ _ _ _ _ _ _ _ H). eapply resolve_pending_clears. exact E.
Qed.

Lemma push_TV st i idn tr v m1 :
  pending_values_push (mt st) i idn tr v = Some m1 -> TV st -> takes_id i -> TV (st <| mt := m1 |>).
Proof.
  unfold pending_values_push. intros H HTV Hi p Hp. change (mt (st <| mt := m1 |>)) with m1 in Hp.
  destruct (mt_pending (mt st)) as [p0|] eqn:E0.
  - destruct (negb (beq (p_id p0) i)); [discriminate|]. destruct (_ && _); [discriminate|].
    injection H as <-. cbn in Hp. injection Hp as <-. cbn [p_id]. destruct (HTV p0 E0) as [H1 H2].
    split; [exact H1|]. intros k. cbn [p_trailing_idx p_raw]. intros Hk.
    assert (Hlen : N.of_nat (length (p_raw p0)) <= N.of_nat (length (match v with Some x => p_raw p0 ++ [x] | None => p_raw p0 end))).
    { destruct v; [rewrite app_length; cbn [length]; lia|lia]. }
    assert (k <= N.of_nat (length (p_raw p0))); [|lia].
    destruct tr; [|apply H2; exact Hk].
    destruct (p_trailing_idx p0) as [t0|] eqn:Et; injection Hk as <-; [apply H2; exact Et|lia].
  - cbn [p_id p_ident p_raw p_trailing_idx] in H. rewrite beq_refl in H. cbn [negb] in H.
    destruct (_ && _); [discriminate|]. injection H as <-. cbn in Hp. injection Hp as <-. cbn [p_id].
    split; [exact Hi|]. intros k. cbn [p_trailing_idx p_raw]. destruct tr; [|discriminate].
    intros Hk. injection Hk as <-. cbn [length]. lia.
Qed.

Lemma parse_opt_value_TV idn att a he st x :
  In a (c_args c) -> a_takes_value a = true -> TV st ->
  parse_opt_value c idn att a he st = ROk x -> TV (fst x) /\ RTV (snd x).
Proof.
  intros Hin Ht HTV. unfold parse_opt_value.
  destruct (a_req_eq a && negb he).
  - destruct (a_num a) as [r|]; cbn [expect rbind]; [|discriminate].
    destruct (vmin r =? 0).
    + destruct (react c (Some idn) SCmdLine a [] None st) as [y|e0 s0|n0] eqn:E; cbn [rbind]; try discriminate.
      intros H. injection H as <-. cbn [fst snd]. split; [eapply react_TV; exact E|].
      intros i Hi. destruct (is_some att); discriminate.
    + intros H. injection H as <-. split; [exact HTV|]. intros i Hi. discriminate.
  - destruct att as [v|].
    + destruct (react c (Some idn) SCmdLine a [v] None st) as [y|e0 s0|n0] eqn:E; cbn [rbind]; try discriminate.
      intros H. injection H as <-. cbn [fst snd]. split; [eapply react_TV; exact E|]. intros i Hi. discriminate.
    + destruct (resolve_pending c st) as [st1|e0 s0|n0] eqn:E; cbn [rbind]; try discriminate.
      destruct (pending_values_push (mt st1) (a_id a) (Some idn) false None) as [m|] eqn:Ep; cbn [expect rbind]; [|discriminate].
      intros H. injection H as <-. cbn [fst snd]. split.
      * eapply push_TV; [exact Ep|apply TV_none; eapply resolve_pending_clears; exact E|apply takes_id_arg; assumption].
      * intros i Hi. injection Hi as <-. apply takes_id_arg; assumption.
Qed.

Lemma parse_long_arg_TV f ok v pst pc vaf st x :
  TV st -> parse_long_arg c f ok v pst pc vaf st = ROk x -> TV (fst (fst x)) /\ RTV (snd (fst x)).
Proof.
  intros HTV. unfold parse_long_arg.
  assert (Triv : forall pr b, (forall i, pr <> PROpt i) ->
            ROk (st, pr, b) = ROk x -> TV (fst (fst x)) /\ RTV (snd (fst x))).
  { intros pr b Hpr H. injection H as <-. cbn [fst snd]. split; [exact HTV|]. intros i Hi. exfalso. exact (Hpr i Hi). }
  destruct (state_arg c pst) as [sa|e0 s0|n0]; cbn [rbind]; try discriminate.
  destruct (match sa with Some a => a_hyphen a | None => false end); [apply Triv; discriminate|].
  destruct (negb ok); [apply Triv; discriminate|].
  destruct (is_nil f && negb (is_some v)); [discriminate|].
  set (found := match get_long c f with Some a => Some a | None => _ end).
  assert (Hfound : forall a, found = Some a -> In a (c_args c)).
  { subst found. intros a. destruct (get_long c f) as [a0|] eqn:Eg.
    - intros H; inversion H; subst. exact (proj1 (get_long_in _ _ _ Eg)).
    - destruct (is_set s_infer_long c); [|discriminate]. intros H.
      apply first_unique_in, filter_map_in in H. destruct H as [y [Hin H]].
      destruct (a_is_positional y) eqn:Ep; [discriminate|].
      assert (y = a).
      { destruct (a_long y); [destruct (is_prefix f b); [inversion H; reflexivity|]|];
          destruct (existsb _ _); inversion H; reflexivity. }
      subst. assumption. }
  destruct found as [a|].
  - pose proof (Hfound a eq_refl) as Hin.
    destruct (a_takes_value a) eqn:Et.
    + destruct (parse_opt_value c ILong v a (is_some v) st) as [y|e0 s0|n0] eqn:E; cbn [rbind]; try discriminate.
      intros H. injection H as <-. cbn [fst snd]. eapply parse_opt_value_TV; eassumption.
    + destruct v as [rest|]; [apply Triv; discriminate|].
      destruct (react c (Some ILong) SCmdLine a [] None st) as [y|e0 s0|n0] eqn:E; cbn [rbind]; try discriminate.
      intros H. injection H as <-. cbn [fst snd]. split; [eapply react_TV; exact E|].
      intros i Hi. destruct y as [st1 pr]. cbn [snd] in Hi. subst pr.
      pose proof (ActionsLoop.react_ok_pr _ _ _ _ _ _ _ _ _ E). discriminate.
  - destruct (possible_long_flag_subcommand c f); [apply Triv; discriminate|].
    destruct (match get_pos c pc with Some a => a_hyphen a && negb (a_last a) | None => false end); apply Triv; discriminate.
Qed.

Lemma RTV_not pr : (forall i, pr <> PROpt i) -> RTV pr.
Proof. intros H i Hi. exfalso. exact (H i Hi). Qed.

Lemma short_loop_TV : forall fuel r ret vaf st x,
  TV st -> RTV ret -> short_loop c fuel r ret vaf st = ROk x -> TV (fst (fst x)) /\ RTV (snd (fst x)).
Proof.
  induction fuel as [|f IH]; intros r ret vaf st x HTV Hret; cbn [short_loop]; [discriminate|].
  destruct (sf_next r) as [[[ch|rest] r']|].
  - destruct (get_short c ch) as [a|] eqn:Eg.
    + pose proof (proj1 (get_short_in _ _ _ Eg)) as Hin.
      destruct (a_takes_value a) eqn:Et; cbn [negb].
      * match goal with |- (let '(val, has_eq) := ?t in _) = _ -> _ => destruct t as [val' he'] end.
        destruct (parse_opt_value c IShort val' a he' st) as [y|e0 s0|n0] eqn:E; cbn [rbind]; try discriminate.
        destruct (parse_opt_value_TV _ _ _ _ _ _ Hin Et HTV E) as [H1 H2].
        destruct y as [st1 pr]. cbn [fst snd] in *.
        destruct pr; try (intros H; injection H as <-; cbn [fst snd]; split; [exact H1|exact H2]).
        apply IH; [exact H1|exact Hret].
      * destruct (react c (Some IShort) SCmdLine a [] None st) as [y|e0 s0|n0] eqn:E; cbn [rbind]; try discriminate.
        destruct y as [st1 pr]. pose proof (ActionsLoop.react_ok_pr _ _ _ _ _ _ _ _ _ E) as ->. cbn [fst snd].
        apply IH; [eapply (react_TV _ _ _ _ _ _ _ E)|apply RTV_not; discriminate].
    + destruct (find_short_subcmd c ch) as [name|].
      * destruct (resolve_pending c st) as [st1|e0 s0|n0] eqn:E; cbn [rbind]; try discriminate.
        intros H. injection H as <-. cbn [fst snd]. split; [|apply RTV_not; discriminate].
        apply TV_none. cbn. eapply resolve_pending_clears. exact E.
      * intros H. injection H as <-. cbn [fst snd]. split; [exact HTV|apply RTV_not; discriminate].
  - intros H. injection H as <-. cbn [fst snd]. split; [exact HTV|apply RTV_not; discriminate].
  - intros H. injection H as <-. cbn [fst snd]. split; [exact HTV|exact Hret].
Qed.

Lemma parse_short_arg_TV r pst pc vaf st x :
  TV st -> parse_short_arg c r pst pc vaf st = ROk x -> TV (fst (fst x)) /\ RTV (snd (fst x)).
Proof.
  intros HTV. unfold parse_short_arg.
  assert (Triv : forall pr b, (forall i, pr <> PROpt i) ->
            ROk (st, pr, b) = ROk x -> TV (fst (fst x)) /\ RTV (snd (fst x))).
  { intros pr b Hpr H. injection H as <-. cbn [fst snd]. split; [exact HTV|apply RTV_not; exact Hpr]. }
  destruct (state_arg c pst) as [sa|e0 s0|n0]; cbn [rbind]; try discriminate.
  destruct (match sa with Some a => a_hyphen a || (a_negnum a && sf_is_negative_number r) | None => false end);
    [apply Triv; discriminate|].
  destruct (match get_pos c pc with Some a => a_negnum a | None => false end && sf_is_negative_number r);
    [apply Triv; discriminate|].
  destruct (match get_pos c pc with Some a => a_hyphen a && negb (a_last a) | None => false end
            && sf_any_unknown c (S (length r)) r); [apply Triv; discriminate|].
  destruct (sf_advance_by _ r) as [r0|]; cbn [expect rbind]; [|discriminate].
  apply short_loop_TV; [exact HTV|apply RTV_not; discriminate].
Qed.

(** * One iteration of the loop depends on the rest of the line only through its first token *)
Definition sticky : bool :=
  negb (is_set s_allow_missing_pos c) && negb (low_index_mults_any c) && negb (existsb a_last (c_args c))
  && forallb (fun a => if is_some (a_index a) then a_is_multiple a && negb (is_some (a_term a)) else true) (c_args c).

Definition pos_counter (tr : bool) (pc : N) (vaf : bool) (rest : list bytes) : res N :=
  let positional_count := positional_count c in
  let contains_last := existsb a_last (c_args c) in
  let is_second_to_last := (pc + 1 =? positional_count) in
  let low_index_mults := is_second_to_last
       && existsb (fun a => a_is_multiple a && negb (positional_count =? opt_default 0 (a_index a))) (positionals c)
       && match last (map Some (positionals c)) None with Some p => negb (a_last p) | None => false end in
  let is_terminated := match get_pos c pc with Some a => is_some (a_term a) | None => false end in
  let missing_pos := is_set s_allow_missing_pos c && is_second_to_last && negb tr in
  (if (low_index_mults || missing_pos) && negb is_terminated then
     match rest with
     | n :: _ =>
         match List.find (fun a => match a_index a with Some k => k =? pc | None => false end) (positionals c) with
         | Some a => do na <- is_new_arg c n a;
                     ROk (if na || is_some (possible_subcommand c n vaf) then pc + 1 else pc)
         | None => ROk (pc + 1)
         end
     | [] => ROk (pc + 1)
     end
   else if tr && (is_set s_allow_missing_pos c || contains_last) then ROk positional_count
   else ROk pc).

Lemma pos_counter_hd tr pc vaf r1 r2 : hd_error r1 = hd_error r2 -> pos_counter tr pc vaf r1 = pos_counter tr pc vaf r2.
Proof.
  intros H. unfold pos_counter. destruct r1 as [|a1 r1], r2 as [|a2 r2]; try discriminate; [reflexivity|].
  injection H as ->. reflexivity.
Qed.

Lemma pos_counter_sticky tr pc vaf r : sticky = true -> pos_counter tr pc vaf r = ROk pc.
Proof.
  unfold sticky. intros H. apply andb_prop in H. destruct H as [H _]. apply andb_prop in H. destruct H as [H H3].
  apply andb_prop in H. destruct H as [H1 H2].
  apply negb_true_iff in H1. apply negb_true_iff in H2. apply negb_true_iff in H3. unfold low_index_mults_any in H2.
  unfold pos_counter. cbv zeta. rewrite H1, H3. cbn [andb orb]. rewrite andb_false_r.
  destruct (pc + 1 =? positional_count c); cbn [andb orb]; [|reflexivity].
  rewrite H2. reflexivity.
Qed.

Lemma sticky_pos pc a : sticky = true -> get_pos c pc = Some a -> a_is_multiple a = true /\ a_term a = None.
Proof.
  unfold sticky. intros H Hg. apply andb_prop in H. destruct H as [_ H].
  destruct (get_pos_in _ _ _ Hg) as [Hin Hidx]. rewrite forallb_forall in H. specialize (H a Hin).
  destruct (a_index a); [|contradiction]. cbn in H. apply andb_prop in H. destruct H as [Ha Hb].
  split; [exact Ha|]. destruct (a_term a); [discriminate|reflexivity].
Qed.

(** the positional counter stays within the declared indices when every index is in
    [1 .. positional_count] and the last positional absorbs (multiple, no terminator) *)
Definition ranged : bool :=
  forallb (fun a => match a_index a with Some j => (1 <=? j) && (j <=? positional_count c) | None => true end) (c_args c)
  && match get_pos c (positional_count c) with Some a => a_is_multiple a && negb (is_some (a_term a)) | None => false end.
Definition in_range (q : N) : Prop := 1 <= q <= positional_count c.

Lemma get_pos_index j a : get_pos c j = Some a -> a_index a = Some j.
Proof.
  unfold get_pos. destruct (List.find _ (keymap c)) as [[k a']|] eqn:E; cbn [opt_map snd]; [|discriminate].
  intros H. injection H as <-. apply List.find_some in E. destruct E as [Hin Hk]. cbn [fst] in Hk.
  destruct (keymap_in _ _ _ Hin) as [_ Hkeys]. unfold arg_keys in Hkeys.
  destruct k as [x|x|n]; try discriminate. apply N.eqb_eq in Hk. subst n.
  destruct (a_index a') as [n|].
  - destruct Hkeys as [H|[]]. injection H as ->. reflexivity.
  - exfalso. repeat (apply in_app_or in Hkeys; destruct Hkeys as [Hkeys|Hkeys]);
      try (destruct (a_short a'); cbn in Hkeys; intuition discriminate);
      try (destruct (a_long a'); cbn in Hkeys; intuition discriminate);
      apply in_map_iff in Hkeys; destruct Hkeys as [? [? ?]]; discriminate.
Qed.

Lemma ranged_pos pc' a : ranged = true -> get_pos c pc' = Some a ->
  in_range pc' /\ ((a_is_multiple a = false \/ a_term a <> None) -> in_range (pc' + 1)).
Proof.
  unfold ranged, in_range. intros H Hg. apply andb_prop in H. destruct H as [H1 H2].
  destruct (get_pos_in _ _ _ Hg) as [Hin _]. rewrite forallb_forall in H1. specialize (H1 a Hin).
  rewrite (get_pos_index _ _ Hg) in H1. apply andb_prop in H1. destruct H1 as [Ha Hb].
  apply N.leb_le in Ha, Hb. split; [lia|]. intros Hs.
  assert (pc' <> positional_count c); [|lia]. intros ->. rewrite Hg in H2.
  apply andb_prop in H2. destruct H2 as [Hm Ht]. destruct Hs as [Hs|Hs]; [congruence|].
  destruct (a_term a); [discriminate|contradiction].
Qed.

Definition posfacts (ls ls' : lstate) : Prop :=
  (sticky = true -> l_pos ls' = l_pos ls) /\ (ranged = true -> in_range (l_pos ls) -> in_range (l_pos ls')).

Definition good (ls : lstate) (st : ps) (ls' : lstate) (st' : ps) : Prop :=
  TV st' /\ LTV ls' /\ (l_trailing ls = true -> l_trailing ls' = true) /\ posfacts ls ls'
  /\ mt_sub (mt st') = mt_sub (mt st).

Inductive ssim (tok : bytes) (r1 r2 : list bytes) (ls : lstate) (st : ps) : res loop_res -> res loop_res -> Prop :=
| SS_cont : forall ls' st', good ls st ls' st' -> ssim tok r1 r2 ls st (parse_loop c r1 ls' st') (parse_loop c r2 ls' st')
| SS_err : forall e st', ssim tok r1 r2 ls st (RErr e st') (RErr e st')
| SS_panic : forall x, ssim tok r1 r2 ls st (RPanic x) (RPanic x)
| SS_sub : forall n v st', TV st' -> ssim tok r1 r2 ls st (ROk (LSub n false v st' r1)) (ROk (LSub n false v st' r2))
| SS_subk : forall n v st', TV st' -> ssim tok r1 r2 ls st (ROk (LSub n true v st' (tok :: r1))) (ROk (LSub n true v st' (tok :: r2)))
| SS_help : forall st', ssim tok r1 r2 ls st (ROk (LHelpSub r1 st')) (ROk (LHelpSub r2 st'))
| SS_ext : forall st', TV st' -> ssim tok r1 r2 ls st (ROk (LExternal tok r1 st')) (ROk (LExternal tok r2 st')).

Lemma rpi_cases st : (exists s, resolve_pending_ignore c st = ROk s) \/ (exists x, resolve_pending_ignore c st = RPanic x).
Proof. unfold resolve_pending_ignore. destruct (resolve_pending c st); eauto. Qed.

(** the positional part of an iteration *)
Lemma pos_part_sim tok r1 r2 ls0 st0 pc vaf tr st :
  hd_error r1 = hd_error r2 -> TV st ->
  (l_trailing ls0 = true -> tr = true) -> l_pos ls0 = pc -> mt_sub (mt st) = mt_sub (mt st0) ->
  let body := fun rest =>
        do pc' <- pos_counter tr pc vaf rest;
        match get_pos c pc' with
        | Some a =>
            if a_last a && negb tr then
              do st1 <- resolve_pending_ignore c st;
              RErr (mkerr c EUnknownArgument tok) st1
            else
              let trailing := tr || a_tva a in
              do st1 <- (if negb (match pending_arg_id (mt st) with Some i => beq i (a_id a) | None => false end)
                            || negb (a_multiple_values a)
                         then resolve_pending c st else ROk st);
              if check_terminator a tok then
                parse_loop c rest (mkL PSValuesDone (pc' + 1) true trailing) st1
              else
                do m1 <- expect 415 (pending_values_push (mt st1) (a_id a) (Some IIndex) trailing (Some tok));
                if negb (a_is_multiple a)
                then parse_loop c rest (mkL PSValuesDone (pc' + 1) true trailing) (st1 <| mt := m1 |>)
                else parse_loop c rest (mkL (PSPos (a_id a)) pc' true trailing) (st1 <| mt := m1 |>)
        | None =>
            if is_set s_allow_external c then
              if utf8_valid tok then ROk (LExternal tok rest st)
              else do st1 <- resolve_pending_ignore c st; RErr (mkerr c EInvalidUtf8 []) st1
            else do st1 <- resolve_pending_ignore c st;
                 RErr (match_arg_error c tok vaf tr) st1
        end in
  ssim tok r1 r2 ls0 st0 (body r1) (body r2).
Proof.
  intros Hhd HTV Hls0 Hls0' Hsub0 body. subst body. cbv beta.
  rewrite (pos_counter_hd tr pc vaf r1 r2 Hhd).
  destruct (pos_counter tr pc vaf r2) as [pc'|e0 s0|n0] eqn:Epc; cbn [rbind]; [|constructor|constructor].
  destruct (get_pos c pc') as [a|] eqn:Eg.
  - destruct (get_pos_in _ _ _ Eg) as [Hin Hidx].
    pose proof (takes_id_arg a Hin (WP a Hin Hidx)) as Hta.
    destruct (a_last a && negb tr).
    { destruct (rpi_cases st) as [[s ->]|[x ->]]; cbn [rbind]; constructor. }
    cbv zeta.
    match goal with |- context [rbind (if ?b then resolve_pending c st else ROk st) _] =>
      destruct (if b then resolve_pending c st else ROk st) as [st1|e0 s0|n0] eqn:Ef end; cbn [rbind]; [|constructor|constructor].
    assert (HTV1 : TV st1 /\ mt_sub (mt st1) = mt_sub (mt st0)).
    { match type of Ef with (if ?b then _ else _) = _ => destruct b end.
      - split; [apply TV_none; eapply resolve_pending_clears; exact Ef|].
        pose proof (resolve_pending_sub c (mt_sub (mt st)) st eq_refl) as Hk. rewrite Ef in Hk. cbn in Hk.
        unfold Dispatch.S_ in Hk. congruence.
      - injection Ef as <-. split; [exact HTV|exact Hsub0]. }
    destruct HTV1 as [HTV1 Hsub1].
    assert (Hpos : forall pst' q, (sticky = true -> q = pc) -> (ranged = true -> in_range q) ->
              (forall i, pst' = PSOpt i -> False) ->
              forall st', TV st' -> mt_sub (mt st') = mt_sub (mt st0) -> good ls0 st0 (mkL pst' q true (tr || a_tva a)) st').
    { intros pst' q Hq Hrg Hpst st' HTV' Hsub'. split; [exact HTV'|]. split; [intros i Hi; cbn in Hi; exfalso; eapply Hpst; exact Hi|].
      split; [cbn [l_trailing]; intros Htr; rewrite (Hls0 Htr); reflexivity|].
      split; [|exact Hsub']. split; cbn [l_pos]; [intros Hs; rewrite Hls0'; apply Hq; exact Hs|intros Hr _; apply Hrg; exact Hr]. }
    assert (Hpc : sticky = true -> pc' = pc).
    { intros Hs. rewrite (pos_counter_sticky tr pc vaf r2 Hs) in Epc. injection Epc as <-. reflexivity. }
    destruct (check_terminator a tok) eqn:Ect.
    { apply SS_cont. apply Hpos; [| |discriminate|exact HTV1|exact Hsub1].
      - intros Hs. exfalso. destruct (sticky_pos _ _ Hs Eg) as [_ Hterm].
        unfold check_terminator in Ect. rewrite Hterm in Ect. discriminate.
      - intros Hr. apply (proj2 (ranged_pos _ _ Hr Eg)). right. unfold check_terminator in Ect.
        destruct (a_term a); discriminate. }
    destruct (pending_values_push (mt st1) (a_id a) (Some IIndex) (tr || a_tva a) (Some tok)) as [m1|] eqn:Ep;
      cbn [expect rbind]; [|constructor].
    pose proof (push_TV _ _ _ _ _ _ Ep HTV1 Hta) as HTV2.
    assert (Hsub2 : mt_sub (mt (st1 <| mt := m1 |>)) = mt_sub (mt st0)).
    { change (mt (st1 <| mt := m1 |>)) with m1. rewrite (push_sub _ _ _ _ _ _ Ep). exact Hsub1. }
    destruct (negb (a_is_multiple a)) eqn:Em.
    + apply SS_cont. apply Hpos; [| |discriminate|exact HTV2|exact Hsub2].
      * intros Hs. exfalso. destruct (sticky_pos _ _ Hs Eg) as [Hm _]. rewrite Hm in Em. discriminate.
      * intros Hr. apply (proj2 (ranged_pos _ _ Hr Eg)). left. apply negb_true_iff. exact Em.
    + apply SS_cont. apply Hpos; [exact Hpc|intros Hr; exact (proj1 (ranged_pos _ _ Hr Eg))|discriminate|exact HTV2|exact Hsub2].
  - destruct (is_set s_allow_external c).
    + destruct (utf8_valid tok); [constructor; exact HTV|].
      destruct (rpi_cases st) as [[s ->]|[x ->]]; cbn [rbind]; constructor.
    + destruct (rpi_cases st) as [[s ->]|[x ->]]; cbn [rbind]; constructor.
Qed.

Lemma TV_start_trailing st : TV st -> TV (st <| mt := start_trailing (mt st) |>).
Proof.
  intros H p Hp. change (mt (st <| mt := start_trailing (mt st) |>)) with (start_trailing (mt st)) in Hp.
  unfold start_trailing in Hp. destruct (mt_pending (mt st)) as [p0|] eqn:E; [|rewrite E in Hp; discriminate].
  cbn in Hp. injection Hp as <-. cbn. destruct (H p0 E) as [H1 H2]. split; [exact H1|].
  intros k. cbn. destruct (p_trailing_idx p0) as [t0|] eqn:Et; intros Hk; injection Hk as <-; [apply H2; exact Et|lia].
Qed.

Lemma good_flag pst pc vaf st pst' vaf1 st1 :
  TV st1 -> (forall i, pst' = PSOpt i -> takes_id i) -> mt_sub (mt st1) = mt_sub (mt st) ->
  good (mkL pst pc vaf false) st (mkL pst' pc vaf1 false) st1.
Proof.
  intros H1 H2 H3. split; [exact H1|]. split; [intros i Hi; apply H2; exact Hi|].
  split; [discriminate|]. split; [split; [reflexivity|intros _ H; exact H]|exact H3].
Qed.

Inductive ph1sim (tok : bytes) (r1 r2 : list bytes) (ls : lstate) (st : ps) :
  res (option (res loop_res) * lstate * ps) -> res (option (res loop_res) * lstate * ps) -> Prop :=
| P1_early : forall e1 e2 lsx stx, ssim tok r1 r2 ls st e1 e2 ->
    ph1sim tok r1 r2 ls st (ROk (Some e1, lsx, stx)) (ROk (Some e2, lsx, stx))
| P1_none : forall vaf1 st1, TV st1 -> mt_sub (mt st1) = mt_sub (mt st) ->
    ph1sim tok r1 r2 ls st (ROk (None, mkL (l_pst ls) (l_pos ls) vaf1 (l_trailing ls), st1))
                           (ROk (None, mkL (l_pst ls) (l_pos ls) vaf1 (l_trailing ls), st1))
| P1_err : forall e s, ph1sim tok r1 r2 ls st (RErr e s) (RErr e s)
| P1_panic : forall x, ph1sim tok r1 r2 ls st (RPanic x) (RPanic x).

Lemma step_sim tok r1 r2 ls st :
  hd_error r1 = hd_error r2 -> TV st -> LTV ls ->
  ssim tok r1 r2 ls st (parse_loop c (tok :: r1) ls st) (parse_loop c (tok :: r2) ls st).
Proof.
  intros Hhd HTV HLTV. destruct ls as [pst pc vaf tr].
  cbn [parse_loop l_pst l_pos l_vaf l_trailing].
  match goal with |- ssim _ _ _ _ _ (rbind ?p1 _) (rbind ?p2 _) =>
    assert (Hph : ph1sim tok r1 r2 (mkL pst pc vaf tr) st p1 p2) end.
  { destruct tr; [apply (P1_none tok r1 r2 (mkL pst pc vaf true) st vaf st HTV eq_refl)|].
    match goal with |- context [match (if ?b then possible_subcommand c tok vaf else None) with _ => _ end] =>
      destruct (if b then possible_subcommand c tok vaf else None) as [sc|] end.
    { destruct (beq sc s_help && negb (is_set s_disable_help_sub c)); apply P1_early; constructor; exact HTV. }
    destruct (is_escape tok).
    { destruct (state_arg c pst) as [sa|e0 s0|n0]; cbn [rbind]; [|constructor|constructor].
      destruct (match sa with Some a => a_hyphen a | None => false end).
      - apply (P1_none tok r1 r2 (mkL pst pc vaf false) st vaf st HTV eq_refl).
      - apply P1_early. apply SS_cont. split; [apply TV_start_trailing; exact HTV|].
        split; [exact HLTV|]. split; [reflexivity|]. split; [split; [reflexivity|intros _ H; exact H]|].
        change (mt (st <| mt := start_trailing (mt st) |>)) with (start_trailing (mt st)).
        unfold start_trailing. destruct (mt_pending (mt st)); reflexivity. }
    destruct (to_long tok) as [[[f ok] v]|].
    { destruct (parse_long_arg c f ok v pst pc vaf st) as [[[st1 pr] vaf1]|e0 s0|n0] eqn:El;
        cbn [rbind fst snd]; [|constructor|constructor].
      destruct (parse_long_arg_TV _ _ _ _ _ _ _ _ HTV El) as [H1 H2]. cbn [fst snd] in H1, H2.
      pose proof (parse_long_arg_sub c (mt_sub (mt st)) f ok v pst pc vaf st eq_refl) as H3.
      rewrite El in H3. cbn [holds fst] in H3. unfold Dispatch.S_ in H3.
      destruct pr; cbn [fst snd].
      all: first [ apply P1_panic
                 | apply (P1_none tok r1 r2 (mkL pst pc vaf false) st _ _ H1 H3)
                 | apply P1_early; first [apply SS_sub; exact H1 | apply SS_cont; apply good_flag; [exact H1|intros j Hj; first [discriminate Hj|injection Hj as <-; apply (H2 _ eq_refl)]|exact H3]]
                 | (match goal with |- context [resolve_pending_ignore c ?s] =>
                      destruct (rpi_cases s) as [[? ->]|[? ->]]; cbn [rbind] end;
                    [apply P1_early; apply SS_err|apply P1_panic]) ]. }
    destruct (to_short tok) as [r|]; [|apply (P1_none tok r1 r2 (mkL pst pc vaf false) st vaf st HTV eq_refl)].
    destruct (parse_short_arg c r pst pc vaf st) as [[[st1 pr] vaf1]|e0 s0|n0] eqn:El;
      cbn [rbind fst snd]; [|constructor|constructor].
    destruct (parse_short_arg_TV _ _ _ _ _ _ HTV El) as [H1 H2]. cbn [fst snd] in H1, H2.
    pose proof (parse_short_arg_sub c (mt_sub (mt st)) r pst pc vaf st eq_refl) as H3.
    rewrite El in H3. cbn [holds fst] in H3. unfold Dispatch.S_ in H3.
    destruct pr; cbn [fst snd].
    1: { destruct (fs_at st1) as [at_|]; [|apply P1_early; apply SS_sub; exact H1].
         destruct (checked_sub (cur_idx st1) at_) as [d|]; cbn [expect rbind]; [|apply P1_panic].
         apply P1_early. apply SS_subk. exact H1. }
    all: first [ apply P1_panic
               | apply (P1_none tok r1 r2 (mkL pst pc vaf false) st _ _ H1 H3)
               | apply P1_early; first [apply SS_sub; exact H1 | apply SS_cont; apply good_flag; [exact H1|intros j Hj; first [discriminate Hj|injection Hj as <-; apply (H2 _ eq_refl)]|exact H3]]
               | (match goal with |- context [resolve_pending_ignore c ?s] =>
                    destruct (rpi_cases s) as [[? ->]|[? ->]]; cbn [rbind] end;
                  [apply P1_early; apply SS_err|apply P1_panic]) ]. }
  destruct Hph as [e1 e2 lsx stx He|vaf1 st1 H1 H3|e0 s0|x0]; cbn [rbind]; [exact He| |constructor|constructor].
  cbn [l_pst l_pos l_vaf l_trailing].
  assert (Hpos := pos_part_sim tok r1 r2 (mkL pst pc vaf tr) st pc vaf1 tr st1 Hhd H1).
  cbv zeta in Hpos. cbn [l_trailing l_pos] in Hpos.
  specialize (Hpos (fun H => H) eq_refl H3).
  destruct (if tr then PSValuesDone else pst) as [|i|i] eqn:Est; [exact Hpos| |exact Hpos].
  assert (tr = false /\ pst = PSOpt i) as [-> ->] by (destruct tr; [discriminate|split; [reflexivity|exact Est]]).
  destruct (find_arg c i) as [a|] eqn:Ef; cbn [expect rbind]; [|constructor].
  assert (Hti : takes_id i) by (apply (HLTV i); reflexivity).
  destruct (check_terminator a tok).
  { apply SS_cont. apply good_flag; [exact H1|discriminate|exact H3]. }
  destruct (pending_values_push (mt st1) i None false (Some tok)) as [m1|] eqn:Ep; cbn [expect rbind]; [|constructor].
  destruct (needs_more_vals m1 a) as [more|]; cbn [expect rbind]; [|constructor].
  apply SS_cont. apply good_flag; [eapply push_TV; eassumption| |].
  - intros j Hj. destruct more; [injection Hj as <-; exact Hti|discriminate].
  - change (mt (st1 <| mt := m1 |>)) with m1. rewrite (push_sub _ _ _ _ _ _ Ep). exact H3.
Qed.

Lemma good_refl ls st : TV st -> LTV ls -> good ls st ls st.
Proof.
  intros H1 H2. split; [exact H1|]. split; [exact H2|]. split; [intros H; exact H|].
  split; [split; [reflexivity|intros _ H; exact H]|reflexivity].
Qed.

Lemma good_trans ls st ls1 st1 ls2 st2 : good ls st ls1 st1 -> good ls1 st1 ls2 st2 -> good ls st ls2 st2.
Proof.
  intros (_ & _ & A3 & [A4 A4'] & A5) (B1 & B2 & B3 & [B4 B4'] & B5). split; [exact B1|]. split; [exact B2|].
  split; [intros H; apply B3, A3, H|]. split; [|congruence].
  split; [intros Hs; rewrite (B4 Hs); apply A4; exact Hs|intros Hr H; apply (B4' Hr), (A4' Hr), H].
Qed.

(** * The prefix of the line: the loop over [pre ++ s] reaches [s] in a state that does not depend on
    [s] beyond its first token, or ends inside [pre] with a result in which [s] is only carried along *)
Inductive psim (s1 s2 : list bytes) (ls : lstate) (st : ps) : res loop_res -> res loop_res -> Prop :=
| PS_cont : forall ls' st', good ls st ls' st' ->
    psim s1 s2 ls st (parse_loop c s1 ls' st') (parse_loop c s2 ls' st')
| PS_err : forall e st', psim s1 s2 ls st (RErr e st') (RErr e st')
| PS_panic : forall x, psim s1 s2 ls st (RPanic x) (RPanic x)
| PS_sub : forall n k v st' r, TV st' -> psim s1 s2 ls st (ROk (LSub n k v st' (r ++ s1))) (ROk (LSub n k v st' (r ++ s2)))
| PS_help : forall r st', psim s1 s2 ls st (ROk (LHelpSub (r ++ s1) st')) (ROk (LHelpSub (r ++ s2) st'))
| PS_ext : forall tok r st', TV st' -> psim s1 s2 ls st (ROk (LExternal tok (r ++ s1) st')) (ROk (LExternal tok (r ++ s2) st')).

Theorem prefix_sim : forall pre s1 s2 ls st, hd_error s1 = hd_error s2 -> TV st -> LTV ls ->
  psim s1 s2 ls st (parse_loop c (pre ++ s1) ls st) (parse_loop c (pre ++ s2) ls st).
Proof.
  induction pre as [|tok pre IH]; intros s1 s2 ls st Hhd HTV HLTV.
  - cbn [app]. apply PS_cont. apply good_refl; assumption.
  - cbn [app].
    assert (Hhd' : hd_error (pre ++ s1) = hd_error (pre ++ s2)) by (destruct pre; [exact Hhd|reflexivity]).
    pose proof (step_sim tok (pre ++ s1) (pre ++ s2) ls st Hhd' HTV HLTV) as Hs.
    remember (parse_loop c (tok :: pre ++ s1) ls st) as R1 eqn:E1.
    remember (parse_loop c (tok :: pre ++ s2) ls st) as R2 eqn:E2.
    destruct Hs as [ls' st' Hg|e st'|x|n v st' HT'|n v st' HT'|st'|st' HT'].
    + destruct Hg as (G1 & G2 & G3 & G4 & G5).
      pose proof (IH s1 s2 ls' st' Hhd G1 G2) as Hi.
      remember (parse_loop c (pre ++ s1) ls' st') as Q1 eqn:F1.
      remember (parse_loop c (pre ++ s2) ls' st') as Q2 eqn:F2.
      destruct Hi as [ls2 st2 Hg2|e st2|x|n k v st2 r HT2|r st2|tk r st2 HT2].
      * apply PS_cont. eapply good_trans; [exact (conj G1 (conj G2 (conj G3 (conj G4 G5))))|exact Hg2].
      * apply PS_err.
      * apply PS_panic.
      * apply PS_sub. exact HT2.
      * apply PS_help.
      * apply PS_ext. exact HT2.
    + apply PS_err.
    + apply PS_panic.
    + apply (PS_sub s1 s2 ls st n false v st' pre HT').
    + apply (PS_sub s1 s2 ls st n true v st' (tok :: pre) HT').
    + apply (PS_help s1 s2 ls st pre).
    + apply (PS_ext s1 s2 ls st tok pre st' HT').
Qed.

(** * The iteration on [--] for a level without hyphen-accepting arguments where [--] is no subcommand name *)
Hypothesis Hnh : forall a, In a (c_args c) -> a_hyphen a = false.
Hypothesis Hdd : forall vaf, possible_subcommand c dashdash vaf = None.

Definition esc_ls (ls : lstate) : lstate := mkL (l_pst ls) (l_pos ls) (l_vaf ls) true.
Definition esc_st (st : ps) : ps := st <| mt := start_trailing (mt st) |>.

Lemma escape_sim s1 s2 ls st : l_trailing ls = false ->
  (exists x, parse_loop c (dashdash :: s1) ls st = RPanic x /\ parse_loop c (dashdash :: s2) ls st = RPanic x) \/
  (parse_loop c (dashdash :: s1) ls st = parse_loop c s1 (esc_ls ls) (esc_st st) /\
   parse_loop c (dashdash :: s2) ls st = parse_loop c s2 (esc_ls ls) (esc_st st)).
Proof.
  intros Htr.
  assert (Hsub : sub_hit c dashdash ls = None).
  { unfold sub_hit. destruct (_ || _); [apply Hdd|reflexivity]. }
  destruct (state_arg c (l_pst ls)) as [sa|e0 s0|n0] eqn:Esa.
  - right. assert (Hh : hyphen_pending sa = false).
    { destruct sa as [a|]; [|reflexivity]. cbn. apply Hnh.
      destruct (l_pst ls) as [|i|i]; cbn [state_arg] in Esa; try discriminate;
        (destruct (find_arg c i) as [a'|] eqn:Ef; cbn [expect rbind] in Esa; [|discriminate];
         injection Esa as <-; exact (proj1 (find_arg_some _ _ _ Ef))). }
    split; apply (escape_recognised c _ ls st sa Htr Hsub Esa Hh).
  - exfalso. destruct (l_pst ls) as [|i|i]; cbn [state_arg] in Esa; try discriminate;
      (destruct (find_arg c i); cbn [expect rbind] in Esa; discriminate).
  - left. exists n0. destruct ls as [pst pc vaf tr]. cbn [l_trailing l_pst l_pos l_vaf] in *. subst tr.
    unfold sub_hit in Hsub. cbn [l_pst l_vaf] in Hsub.
    split; cbn [parse_loop l_trailing l_pos l_vaf l_pst]; rewrite Hsub; change (is_escape dashdash) with true; cbv iota;
      rewrite Esa; reflexivity.
Qed.

(** the whole line [pre ++ -- :: t], for two tails *)
Inductive esim (t1 t2 : list bytes) (ls : lstate) (st : ps) : res loop_res -> res loop_res -> Prop :=
| ES_trailing : forall x ls' st', l_trailing ls' = true -> TV st' -> posfacts ls ls' ->
    mt_sub (mt st') = mt_sub (mt st) ->
    esim t1 t2 ls st (parse_loop c (x ++ t1) ls' st') (parse_loop c (x ++ t2) ls' st')
| ES_err : forall e st', esim t1 t2 ls st (RErr e st') (RErr e st')
| ES_panic : forall x, esim t1 t2 ls st (RPanic x) (RPanic x)
| ES_sub : forall n k v st' r, TV st' ->
    esim t1 t2 ls st (ROk (LSub n k v st' (r ++ dashdash :: t1))) (ROk (LSub n k v st' (r ++ dashdash :: t2)))
| ES_help : forall r st',
    esim t1 t2 ls st (ROk (LHelpSub (r ++ dashdash :: t1) st')) (ROk (LHelpSub (r ++ dashdash :: t2) st'))
| ES_ext : forall tok r st', TV st' ->
    esim t1 t2 ls st (ROk (LExternal tok (r ++ dashdash :: t1) st')) (ROk (LExternal tok (r ++ dashdash :: t2) st')).

Theorem escape_line_sim pre t1 t2 ls st : TV st -> LTV ls ->
  esim t1 t2 ls st (parse_loop c (pre ++ dashdash :: t1) ls st) (parse_loop c (pre ++ dashdash :: t2) ls st).
Proof.
  intros HTV HLTV.
  pose proof (prefix_sim pre (dashdash :: t1) (dashdash :: t2) ls st eq_refl HTV HLTV) as Hp.
  remember (parse_loop c (pre ++ dashdash :: t1) ls st) as R1 eqn:E1.
  remember (parse_loop c (pre ++ dashdash :: t2) ls st) as R2 eqn:E2.
  destruct Hp as [ls' st' Hg|e st'|x|n k v st' r HT'|r st'|tk r st' HT'].
  - destruct Hg as (G1 & G2 & G3 & G4 & G5).
    destruct (l_trailing ls') eqn:Etr.
    + apply (ES_trailing t1 t2 ls st [dashdash] ls' st' Etr G1 G4 G5).
    + destruct (escape_sim t1 t2 ls' st' Etr) as [[x [-> ->]]|[-> ->]]; [apply ES_panic|].
      apply (ES_trailing t1 t2 ls st [] (esc_ls ls') (esc_st st')); [reflexivity|apply TV_start_trailing; exact G1|exact G4|].
      rewrite <- G5. unfold esc_st. change (mt (st' <| mt := start_trailing (mt st') |>)) with (start_trailing (mt st')).
      unfold start_trailing. destruct (mt_pending (mt st')); reflexivity.
  - apply ES_err.
  - apply ES_panic.
  - apply ES_sub. exact HT'.
  - apply ES_help.
  - apply ES_ext. exact HT'.
Qed.

(** the same for one line *)
Inductive eone (t : list bytes) (ls : lstate) (st : ps) : res loop_res -> Prop :=
| EO_trailing : forall x ls' st', l_trailing ls' = true -> TV st' -> posfacts ls ls' ->
    mt_sub (mt st') = mt_sub (mt st) -> eone t ls st (parse_loop c (x ++ t) ls' st')
| EO_err : forall e st', eone t ls st (RErr e st')
| EO_panic : forall x, eone t ls st (RPanic x)
| EO_sub : forall n k v st' r, TV st' -> eone t ls st (ROk (LSub n k v st' (r ++ dashdash :: t)))
| EO_help : forall r st', eone t ls st (ROk (LHelpSub (r ++ dashdash :: t) st'))
| EO_ext : forall tok r st', TV st' -> eone t ls st (ROk (LExternal tok (r ++ dashdash :: t) st')).

Lemma esim_left t1 t2 ls st R1 R2 : esim t1 t2 ls st R1 R2 -> eone t1 ls st R1.
Proof. destruct 1; constructor; assumption. Qed.

Theorem escape_line_one pre t ls st : TV st -> LTV ls -> eone t ls st (parse_loop c (pre ++ dashdash :: t) ls st).
Proof. intros H1 H2. exact (esim_left _ _ _ _ _ _ (escape_line_sim pre t t ls st H1 H2)). Qed.

(** * Round 3: levels WITH hyphen-accepting arguments.

    Without the hypothesis "no argument of the level accepts hyphen values" the loop over
    [pre ++ -- :: t] has exactly one more outcome: it reaches the [--] -- in a state that does not
    depend on the tail -- while an argument that accepts hyphen values is still being collected
    ([ParseState::Opt]/[ParseState::Pos] of such an argument): the documented exception, the [--] is
    then one more value of that argument.  In every other case the [--] is recognised, whatever other
    hyphen-accepting arguments the level declares. *)
Lemma escape_sim_h s1 s2 ls st : l_trailing ls = false ->
  (exists x, parse_loop c (dashdash :: s1) ls st = RPanic x /\ parse_loop c (dashdash :: s2) ls st = RPanic x) \/
  (parse_loop c (dashdash :: s1) ls st = parse_loop c s1 (esc_ls ls) (esc_st st) /\
   parse_loop c (dashdash :: s2) ls st = parse_loop c s2 (esc_ls ls) (esc_st st)) \/
  (exists a, state_arg c (l_pst ls) = ROk (Some a) /\ a_hyphen a = true).
Proof.
  intros Htr.
  assert (Hsub : sub_hit c dashdash ls = None).
  { unfold sub_hit. destruct (_ || _); [apply Hdd|reflexivity]. }
  destruct (state_arg c (l_pst ls)) as [sa|e0 s0|n0] eqn:Esa.
  - destruct (hyphen_pending sa) eqn:Hh.
    + right. right. destruct sa as [a|]; [|discriminate]. exists a. split; [reflexivity|exact Hh].
    + right. left. split; apply (escape_recognised c _ ls st sa Htr Hsub Esa Hh).
  - exfalso. destruct (l_pst ls) as [|i|i]; cbn [state_arg] in Esa; try discriminate;
      (destruct (find_arg c i); cbn [expect rbind] in Esa; discriminate).
  - left. exists n0. destruct ls as [pst pc vaf tr]. cbn [l_trailing l_pst l_pos l_vaf] in *. subst tr.
    unfold sub_hit in Hsub. cbn [l_pst l_vaf] in Hsub.
    split; cbn [parse_loop l_trailing l_pos l_vaf l_pst]; rewrite Hsub; change (is_escape dashdash) with true; cbv iota;
      rewrite Esa; reflexivity.
Qed.

(** the exception: both lines stand at the [--], not in trailing mode, in ONE state [(ls', st')], and the
    argument being collected there accepts hyphen values *)
Definition hyphen_exception (t1 t2 : list bytes) (ls : lstate) (st : ps) (R1 R2 : res loop_res) : Prop :=
  exists ls' st' a, TV st' /\ LTV ls' /\ mt_sub (mt st') = mt_sub (mt st) /\ l_trailing ls' = false /\
    state_arg c (l_pst ls') = ROk (Some a) /\ a_hyphen a = true /\
    R1 = parse_loop c (dashdash :: t1) ls' st' /\ R2 = parse_loop c (dashdash :: t2) ls' st'.

Theorem escape_line_sim_h pre t1 t2 ls st : TV st -> LTV ls ->
  esim t1 t2 ls st (parse_loop c (pre ++ dashdash :: t1) ls st) (parse_loop c (pre ++ dashdash :: t2) ls st)
  \/ hyphen_exception t1 t2 ls st (parse_loop c (pre ++ dashdash :: t1) ls st) (parse_loop c (pre ++ dashdash :: t2) ls st).
Proof.
  intros HTV HLTV.
  pose proof (prefix_sim pre (dashdash :: t1) (dashdash :: t2) ls st eq_refl HTV HLTV) as Hp.
  remember (parse_loop c (pre ++ dashdash :: t1) ls st) as R1 eqn:E1.
  remember (parse_loop c (pre ++ dashdash :: t2) ls st) as R2 eqn:E2.
  destruct Hp as [ls' st' Hg|e st'|x|n k v st' r HT'|r st'|tk r st' HT'].
  - destruct Hg as (G1 & G2 & G3 & G4 & G5).
    destruct (l_trailing ls') eqn:Etr.
    + left. apply (ES_trailing t1 t2 ls st [dashdash] ls' st' Etr G1 G4 G5).
    + destruct (escape_sim_h t1 t2 ls' st' Etr) as [[x [-> ->]]|[[-> ->]|[a [Ha Hh]]]].
      * left. apply ES_panic.
      * left. apply (ES_trailing t1 t2 ls st [] (esc_ls ls') (esc_st st')); [reflexivity|apply TV_start_trailing; exact G1|exact G4|].
        rewrite <- G5. unfold esc_st. change (mt (st' <| mt := start_trailing (mt st') |>)) with (start_trailing (mt st')).
        unfold start_trailing. destruct (mt_pending (mt st')); reflexivity.
      * right. exists ls', st', a. split; [exact G1|]. split; [exact G2|]. split; [exact G5|]. split; [exact Etr|].
        split; [exact Ha|]. split; [exact Hh|]. split; reflexivity.
  - left. apply ES_err.
  - left. apply ES_panic.
  - left. apply ES_sub. exact HT'.
  - left. apply ES_help.
  - left. apply ES_ext. exact HT'.
Qed.

(** * No help/version outcome is caused by a token of the tail *)
Hypothesis WD : forall a, In a (c_args c) -> display_action a = true -> a_takes_value a = false.

Lemma flush_TV a st st1 : TV st -> flush_for c a st = ROk st1 -> TV st1.
Proof.
  intros HTV. unfold flush_for. destruct (_ || _).
  - intros E. apply TV_none. eapply resolve_pending_clears. exact E.
  - intros E. injection E as <-. exact HTV.
Qed.

Lemma tstep_TV tok rest ls st ls' st' : tstep c tok rest ls st ls' st' -> TV st -> TV st'.
Proof.
  intros [pc' a st1 _ _ Hf _|pc' a st1 m1 _ Hg Hf _ Hp] HTV.
  - eapply flush_TV; eassumption.
  - destruct (get_pos_in _ _ _ Hg) as [Hin Hidx].
    eapply push_TV; [exact Hp|eapply flush_TV; eassumption|apply takes_id_arg; [exact Hin|apply WP; assumption]].
Qed.

Lemma truns_TV suffix : forall pre ls st ls' st', truns c suffix pre ls st ls' st' -> TV st -> TV st'.
Proof.
  induction pre as [|x pre IH]; intros ls st ls' st' Hr HTV;
    inversion Hr as [|? ? ? ? ls1 st1 ? ? Hst Hrest]; subst; [exact HTV|].
  eapply IH; [exact Hrest|]. eapply tstep_TV; eassumption.
Qed.

Theorem trailing_no_display_TV toks ls st e st' :
  l_trailing ls = true -> TV st -> parse_loop c toks ls st = RErr e st' -> is_display (e_kind e) = false.
Proof.
  intros Htr HTV E. destruct (is_display (e_kind e)) eqn:Hd; [|reflexivity]. exfalso.
  destruct (trailing_no_display c toks ls st e st' Htr E Hd) as (pre & tok & rest & ls1 & st1 & p & a & _ & Hr & Hp & Hf & Ha).
  pose proof (proj1 (truns_TV _ _ _ _ _ _ Hr HTV p Hp) a Hf) as Ht.
  rewrite (WD a (proj1 (find_arg_some _ _ _ Hf)) Ha) in Ht. discriminate.
Qed.

(** (1): a DisplayHelp/DisplayVersion outcome of the line [pre ++ -- :: t] is the outcome of
    [pre ++ -- :: t2] for every other tail [t2] (the empty one included): it is caused by [pre] *)
Theorem display_not_from_tail pre t t2 ls st e st' : TV st -> LTV ls ->
  parse_loop c (pre ++ dashdash :: t) ls st = RErr e st' -> is_display (e_kind e) = true ->
  parse_loop c (pre ++ dashdash :: t2) ls st = RErr e st'.
Proof.
  intros HTV HLTV E Hd.
  pose proof (escape_line_sim pre t t2 ls st HTV HLTV) as Hs.
  remember (parse_loop c (pre ++ dashdash :: t) ls st) as R1 eqn:E1.
  remember (parse_loop c (pre ++ dashdash :: t2) ls st) as R2 eqn:E2.
  destruct Hs as [x ls' st1 Htr H1 _ _|e1 s1|x|n k v s1 r _|r s1|tk r s1 _]; try discriminate E.
  - rewrite (trailing_no_display_TV _ _ _ _ _ Htr H1 E) in Hd. discriminate.
  - exact E.
Qed.
End Walk.

(** * The level hypotheses follow from the build step and the validity gate *)
Definition lvl (c : cmd) : Prop :=
  (forall a, In a (c_args c) -> find_arg c (a_id a) = Some a)
  /\ (forall a, In a (c_args c) -> a_index a <> None -> a_takes_value a = true)
  /\ (forall a, In a (c_args c) -> display_action a = true -> a_takes_value a = false).

Lemma lvl_of_wfc c : Totality.wfc c -> assert_app c = true -> lvl c.
Proof.
  intros (W1 & W2 & W3 & W4 & W5) Happ. split; [exact W3|]. split.
  - intros a Hin Hidx. destruct (TotalityMain.assert_app_arg _ _ Happ Hin) as [Haa _].
    unfold assert_arg in Haa. repeat (apply andb_true_iff in Haa as [Haa ?]).
    match goal with Hi : (if is_some (a_index a) then _ else _) = true |- _ => rename Hi into HI end.
    destruct (a_index a); [|contradiction]. cbn in HI. apply andb_true_iff in HI. apply HI.
  - intros a Hin Hd. destruct (TotalityMain.assert_app_arg _ _ Happ Hin) as [Haa _].
    unfold assert_arg in Haa. repeat (apply andb_true_iff in Haa as [Haa ?]).
    match goal with Hi : (vmax _ <=? vmax _) = true |- _ => rename Hi into HI end.
    unfold display_action in Hd. unfold a_takes_value, r_takes_values.
    destruct (a_get_action a); try discriminate Hd; cbn in HI; apply N.leb_le in HI;
      apply negb_false_iff, N.eqb_eq; lia.
Qed.
