(** Property C06, round 2: the origin theorem at [parse_top] for trees WITH global arguments.

    [_do_parse] ends with [fill_in_global_values] (C09): every level of the reported matches is the
    parser's level with one final map [vmF] inserted, whose keys are ids of global arguments used
    on the chain.  So: at every level, every id that is not a key of [vmF] reports exactly what the
    parser stored (and that has the origin [level_origin] prescribes); a key of [vmF] reports the
    merged entry (C09_globals: the most explicit, deepest one of the chain's own entries, each of
    which has the origin its own level prescribes). *)
From ClapModel Require Import Base.Bytes Base.Machine Base.Utf8 Lex.OsStrExtModel.
From ClapModel Require Import Parse.Cmd Parse.Build Parse.Valid Parse.Matcher Parse.Errors Parse.Validator Parse.Parser.
From ClapModel Require Import ParseProofs.Actions ParseProofs.Sources ParseProofs.Globals
                              ParseProofs.Unparse ParseProofs.UnparseProofs ParseProofs.UnparseTop ParseProofs.UnparseSub
                              ParseProofs.UnparseTrail ParseProofs.UnparseTree ParseProofs.SourcesLine.
From Coq Require Import ZArith Lia List Bool.
From RecordUpdate Require Import RecordSet.
Import RecordSetNotations.
Import ListNotations.
Open Scope N_scope.

(** walking the invocation tree, the parser's matches [m] and the reported (merged) matches [p] in step *)
Inductive at_level2 : cmd -> inv -> matches -> matches -> cmd -> inv -> matches -> matches -> Prop :=
| AL2_here c i m p : at_level2 c i m p c i m p
| AL2_down c its name j m p scb sm sp n' c' i' m' p' :
    child c name = Some scb -> ms_sub m = Some (c_name scb, sm) -> ms_sub p = Some (n', sp) ->
    at_level2 scb j sm sp c' i' m' p' -> at_level2 c (ISub its name j) m p c' i' m' p'.

Lemma at_level2_pre c i m p c' i' m' p' : at_level2 c i m p c' i' m' p' -> at_level c i m c' i' m'.
Proof. induction 1; [constructor|econstructor; eassumption]. Qed.

(** one step of the merge, on the two tracks *)
Lemma fill_walk fuel globals m vm : (matches_depth m <= fuel)%nat ->
  ms_args (fst (fill_in_global_values fuel globals m vm)) =
    ins_all (snd (fill_in_global_values fuel globals m vm)) (ms_args m) /\
  match ms_sub m with
  | Some (name, sm) => exists f' vm1, (matches_depth sm <= f')%nat /\
      ms_sub (fst (fill_in_global_values fuel globals m vm)) = Some (name, fst (fill_in_global_values f' globals sm vm1)) /\
      snd (fill_in_global_values f' globals sm vm1) = snd (fill_in_global_values fuel globals m vm)
  | None => ms_sub (fst (fill_in_global_values fuel globals m vm)) = None
  end.
Proof.
  intros Hd. destruct fuel as [|f]; [destruct m as [a [[n s]|]]; cbn in Hd; lia|].
  destruct m as [a [[n s]|]]; rewrite fill_step; cbv zeta; cbn [ms_args ms_sub].
  - cbn [matches_depth] in Hd.
    destruct (fill_in_global_values f globals s (vm_step globals a vm)) as [sm' vm'] eqn:E. cbn [fst snd ms_args ms_sub].
    split; [reflexivity|]. exists f, (vm_step globals a vm). split; [lia|]. rewrite E. split; reflexivity.
  - cbn [fst snd ms_args ms_sub]. split; reflexivity.
Qed.

Lemma at_level2_fill globals c i m p c' i' m' p' : at_level2 c i m p c' i' m' p' ->
  forall fuel vm, (matches_depth m <= fuel)%nat -> p = fst (fill_in_global_values fuel globals m vm) ->
  exists fuel' vm', (matches_depth m' <= fuel')%nat /\ p' = fst (fill_in_global_values fuel' globals m' vm')
    /\ snd (fill_in_global_values fuel' globals m' vm') = snd (fill_in_global_values fuel globals m vm).
Proof.
  induction 1 as [c i m p|c its name j m p scb sm sp n' c' i' m' p' Hch Hm Hp Hal IH]; intros fuel vm Hd Ep.
  - exists fuel, vm. split; [exact Hd|]. split; [exact Ep|reflexivity].
  - destruct (fill_walk fuel globals m vm Hd) as [_ Hs]. rewrite Hm in Hs.
    destruct Hs as [f' [vm1 [Hd' [Es Ev]]]]. rewrite <- Ep, Hp in Es. inversion Es; subst n' sp.
    destruct (IH f' vm1 Hd' eq_refl) as [fuel' [vm' [Hd2 [Ep' Ev']]]].
    exists fuel', vm'. split; [exact Hd2|]. split; [exact Ep'|]. rewrite Ev'. exact Ev.
Qed.

(** THE ORIGIN THEOREM at [parse_top], any well-formed tree (global arguments allowed) *)
Theorem parse_top_origin_globals c0 bin i mp : is_set s_no_binary_name c0 = false ->
  valid (with_bin c0 bin) = true -> wf_inv (build_self (with_bin c0 bin)) i = true ->
  parse_top c0 (bin :: render_inv i) = OOk mp ->
  exists st vmF, run_inv (build_self (with_bin c0 bin)) i = ROk st /\ NoDup (map fst vmF)
    /\ (forall g, mem_id g (used_global_args (S (matches_depth (into_inner (mt st))))
                              (build_recursive (S (S (depth (build_self (with_bin c0 bin))))) (with_bin c0 bin))
                              (into_inner (mt st))) = false -> fm_get g vmF = None)
    /\ forall c' i' m' p', at_level2 (build_self (with_bin c0 bin)) i (into_inner (mt st)) mp c' i' m' p' ->
         (exists st', m' = into_inner (mt st') /\ level_origin c' (inv_occs c' i') st')
         /\ (forall k, fm_get k (ms_args p') = match fm_get k vmF with Some e => Some e | None => fm_get k (ms_args m') end).
Proof.
  intros Hn Hv Hw H. rewrite (parse_top_inv c0 bin i Hn Hv Hw) in H.
  destruct (wf_inv_parts _ _ Hw) as [_ [Hie _]].
  destruct (run_inv (build_self (with_bin c0 bin)) i) as [st|e s|n] eqn:Er.
  2: { unfold finish_outcome in H. rewrite Hie in H. cbn [andb] in H. discriminate. }
  2: { unfold finish_outcome in H. destruct n; discriminate. }
  unfold finish_outcome in H. cbv zeta in H. inversion H as [Hm]. clear H.
  set (m := into_inner (mt st)) in *.
  set (globals := used_global_args (S (matches_depth m)) (build_recursive (S (S (depth (build_self (with_bin c0 bin))))) (with_bin c0 bin)) m) in *.
  assert (Hd : (matches_depth m <= S (matches_depth m))%nat) by lia.
  exists st, (snd (filled (S (matches_depth m)) globals m)).
  split; [reflexivity|]. split; [apply vmF_nodup; exact Hd|].
  split; [intros g Hg; apply (merge_keys _ globals m Hd g Hg)|].
  intros c' i' m' p' Hal. split.
  - apply (tree_origin _ i st Hw Er c' i' m' (at_level2_pre _ _ _ _ _ _ _ _ Hal)).
  - intros k.
    destruct (at_level2_fill globals _ _ _ _ _ _ _ _ Hal (S (matches_depth m)) [] Hd eq_refl) as [fuel' [vm' [Hd' [Ep' Ev']]]].
    destruct (fill_walk fuel' globals m' vm' Hd') as [Ha _]. rewrite <- Ep' in Ha. rewrite Ha, Ev'.
    apply ins_all_get. apply (vmF_nodup _ globals m Hd).
Qed.
