(** C01: the panic sites of the parse path in the Rust SOURCE (Gen/ParseSites.v, regenerated from
    /repo on every run by translators/parse_sites.py) against the panic sites of the MODEL.

    Every source site (file, enclosing fn, kind, ordinal of that kind in that fn) has exactly one row
    in [model_site_table], in source order, with one of three dispositions:

    - [Modelled sites]: the site is a visible result of the model, [RPanic n] / [VPanic n] for the
      numbers [n] listed (a callee's [expect], e.g. [ArgMatcher::add_val_to], is visible at each of
      its call sites in the parser model, hence a list).  [sites_dead]: none of these numbers is ever
      the outcome of [do_parse] on a [plain], [valid] definition (from [do_parse_total]).
    - [Proved P why]: the model has no result for the site because it cannot fail for ANY input, by a
      statement [P] about the model that is proved here ([sites_proved]).
    - [Reasoned why]: dead by reasoning local to the Rust function (a return type, a guard a few lines
      above, an infallible callee such as [fmt::Write for String]) or outside the modelled feature set;
      the justification is the string.  These are the rows a reviewer has to read.

    [sites_match]: the keys of the table are exactly the generated list.  A new [unwrap()] in a
    function of the parse path adds a row to the generated list and this theorem fails until the row
    is accounted for here.

    [model_sites_listed] (the converse direction): every [RPanic n] the model can produce, for ANY
    command (valid or not) and token list, has its number in the table or in [callee_sites] (sites of
    callees outside the five files, and the model's own fuel). *)
From ClapModel Require Import Base.Bytes Base.Machine Base.Utf8.
From ClapModel Require Import Parse.Cmd Parse.Build Parse.Valid Parse.Matcher Parse.Errors Parse.Validator Parse.Parser.
From ClapModel Require Import ParseProofs.Safe ParseProofs.Totality ParseProofs.TotalityMain ParseProofs.ActionsLoop.
From ClapModel Require ParseProofs.SitesGuards.
From ClapModel Require Gen.ParseSites.
From Coq Require Import ZArith String.
From RecordUpdate Require Import RecordSet.
Import RecordSetNotations.
Open Scope N_scope.

Inductive disposition :=
| Modelled (sites : list N)
| Proved (P : Prop) (why : string)
| Reasoned (why : string).

Definition site_key := (string * string * string * N)%type.

(** ** the statements behind the [Proved] rows *)
(** parser.rs [parse_help_subcommand]: [sc._build_subcommand(&sc_name).unwrap()] where [sc_name] is the
    name of the subcommand [find_subcommand] has just returned *)
Definition P_help_walk_unwrap : Prop :=
  forall sc n s, find_subcommand sc n = Some s -> build_subcommand sc (c_name s) <> None.
(** parser.rs [parse_opt_value]: [debug_assert_eq!(react_result, ParseResult::ValuesDone)] *)
Definition P_react_values_done : Prop :=
  forall c idn s a raw ti st st' pr, react c idn s a raw ti st = ROk (st', pr) -> pr = PRValuesDone.
(** command.rs [contains_short]: [debug_assert!(self.is_set(AppSettings::Built))]; every command a parser
    level runs on is a [build_self] ([_do_parse] -> [_build_self]; [_build_subcommand] -> [_build_self]) *)
Definition P_built : Prop :=
  (forall c, is_set s_built (build_self c) = true)
  /\ (forall c n sc, build_subcommand c n = Some sc -> is_set s_built sc = true).

(** arg_matcher.rs [start_occurrence_of_external] / matched_arg.rs [new_external]:
    [cmd.get_external_subcommand_value_parser().expect(..)]; that function returns [Some] iff AllowExternalSubcommands is
    set, and [Parser::parse] reaches the two functions only through the loop result [LExternal] (round 5: was prose) *)
Definition P_external_guarded : Prop :=
  forall c toks ls st name vals st',
    parse_loop c toks ls st = ROk (LExternal name vals st') -> is_set s_allow_external c = true.
(** validator.rs [missing_required_error], `not(feature = "usage")` arm: [debug_assert!(false, "id={id:?} is unknown")] for an
    id of [raw_req_args] that is neither an argument nor a group (round 5: was prose) *)
Definition P_missing_known : Prop :=
  forall c mt potential missing, missing_required c mt potential = Some missing ->
    forall i, In i missing -> id_exists c i = true.

Lemma help_walk_unwrap : P_help_walk_unwrap.
Proof.
  intros sc n s Hf. unfold find_subcommand in Hf. apply find_some in Hf. destruct Hf as [Hin _].
  unfold build_subcommand.
  destruct (find (fun s0 => beq (c_name s0) (c_name s)) (c_subs sc)) eqn:E; [discriminate|].
  exfalso. apply (find_none _ _ E) in Hin. cbn beta in Hin. rewrite beq_refl in Hin. discriminate.
Qed.

Lemma react_values_done : P_react_values_done.
Proof. intros c idn s a raw ti st st' pr H. eapply react_ok_pr; exact H. Qed.

Lemma build_self_built c : is_set s_built (build_self c) = true.
Proof.
  unfold build_self, is_set. destruct (s_built (c_set c)) eqn:E; [rewrite E; reflexivity|reflexivity].
Qed.

Lemma built_levels : P_built.
Proof.
  split; [exact build_self_built|].
  intros c n sc. unfold build_subcommand.
  destruct (find (fun s => beq (c_name s) n) (c_subs c)); [|discriminate].
  intros H. inversion H. apply build_self_built.
Qed.

(** ** the table *)
Section Table.
Local Open Scope string_scope.

Definition F_PARSER := "parser/parser.rs".
Definition F_MATCHER := "parser/arg_matcher.rs".
Definition F_MARG := "parser/matches/matched_arg.rs".
Definition F_VALID := "parser/validator.rs".
Definition F_CMD := "builder/command.rs".

(** call sites of [ArgMatcher::add_val_to] in the parser model *)
Definition S_add_val_to : list N := [1104; 1533; 458].
(** call sites of [ArgMatcher::pending_values_mut] *)
Definition S_pending_values : list N := [1071; 297; 415].
(** call sites of [Command::index] ([self.cmd[id]]) *)
Definition S_cmd_index : list N := [132; 290; 687].
(** where a failed conflict lookup of the validator model surfaces ([None] of [gather_direct_conflicts]) *)
Definition S_gather_conflicts : list N := [480; 401; 481].

Definition model_site_table : list (site_key * disposition) := [
  (* ---- parser.rs ---- *)
  ((F_PARSER, "Parser::parse", "unreachable!", 0),
     Reasoned "follows `ok!(self.parse_help_subcommand(..))` whose return type is ClapResult<Infallible>: the Ok arm is uninhabited (model: help_walk returns an error, LHelpSub is always RErr)");
  ((F_PARSER, "Parser::parse", "index", 0), Modelled [132]);             (* self.cmd[opt] in the `--` branch: state_arg *)
  ((F_PARSER, "Parser::parse", "unreachable!", 1), Modelled [153]);      (* parse_long_arg never returns NoArg *)
  ((F_PARSER, "Parser::parse", "unreachable!", 2), Modelled [203]);      (* AttachedValueNotConsumed out of parse_long_arg *)
  ((F_PARSER, "Parser::parse", "sub", 0), Modelled [243]);               (* cur_idx - flag_subcmd_at *)
  ((F_PARSER, "Parser::parse", "unreachable!", 3), Modelled [282]);      (* UnneededAttachedValue / AttachedValueNotConsumed out of parse_short_arg *)
  ((F_PARSER, "Parser::parse", "index", 1), Modelled [290]);             (* &self.cmd[id] of ParseState::Opt(id) *)
  ((F_PARSER, "Parser::parse", "unreachable!", 4),
     Reasoned "parse_result is bound a few lines above to check_terminator's Some(ValuesDone) or to the literal Opt(..)/ValuesDone of the else block; no other variant is constructed (model: check_terminator : bool, the branch yields PSOpt/PSValuesDone)");
  ((F_PARSER, "Parser::parse", "debug_assert_eq!", 0),
     Reasoned "check_terminator returns only None or Some(ParseResult::ValuesDone) (model: check_terminator : bool)");
  ((F_PARSER, "Parser::parse", "expect", 0), Modelled [494]);            (* find_subcommand(sc_name).expect *)
  ((F_PARSER, "Parser::parse_help_subcommand", "unwrap", 0),
     Proved P_help_walk_unwrap "the name handed to _build_subcommand is the name of a subcommand find_subcommand has just found");
  ((F_PARSER, "Parser::is_new_arg", "index", 0), Modelled [687]);
  ((F_PARSER, "Parser::is_new_arg", "index", 1), Modelled [687]);        (* same id, second read *)
  ((F_PARSER, "Parser::parse_long_arg", "index", 0), Modelled [132]);    (* state_arg *)
  ((F_PARSER, "Parser::parse_long_arg", "debug_assert!", 0), Modelled [785]);
  ((F_PARSER, "Parser::parse_short_arg", "index", 0), Modelled [132]);
  ((F_PARSER, "Parser::parse_short_arg", "index", 1), Modelled [132]);
  ((F_PARSER, "Parser::parse_short_arg", "debug_assert_eq!", 0), Modelled [920]);   (* advance_by(skip) *)
  ((F_PARSER, "Parser::parse_opt_value", "debug_assert_eq!", 0),
     Proved P_react_values_done "react returns ValuesDone whenever it returns Ok");
  ((F_PARSER, "Parser::parse_opt_value", "debug_assert_eq!", 1),
     Proved P_react_values_done "react returns ValuesDone whenever it returns Ok");
  ((F_PARSER, "Parser::resolve_pending", "expect", 0), Modelled [1120]);
  ((F_PARSER, "Parser::verify_num_args", "expect", 0), Modelled [1333]);
  ((F_PARSER, "Parser::verify_num_args", "expect", 1), Modelled [1372]); (* raw_vals.last() in too_many_values *)
  ((F_PARSER, "Parser::did_you_mean_error", "index", 0),
     Reasoned "`&x[..]`: the full range of a slice never panics");
  (* ---- arg_matcher.rs ---- *)
  ((F_MATCHER, "ArgMatcher::start_custom_arg", "debug_assert_eq!", 0),
     Reasoned "outside the model: compares the stored TypeId of the entry with the TypeId of the value parser of the argument that keys it; entries are keyed by argument id, created by this same function from the same argument, ids are unique (assert_app), so both sides come from one Arg");
  ((F_MATCHER, "ArgMatcher::start_custom_group", "debug_assert_eq!", 0),
     Reasoned "outside the model: a group entry has no TypeId (MatchedArg::new_group) unless the key is also an argument id, which assert_app rejects (group id must not be an argument id)");
  ((F_MATCHER, "ArgMatcher::start_occurrence_of_external", "debug_assert_eq!", 0),
     Reasoned "outside the model (TypeId); same Option as the next row");
  ((F_MATCHER, "ArgMatcher::start_occurrence_of_external", "expect", 0),
     Proved P_external_guarded "get_external_subcommand_value_parser() is Some iff AllowExternalSubcommands is set; the function is called only for the loop result LExternal, which the loop returns only under that setting");
  ((F_MATCHER, "ArgMatcher::add_val_to", "expect", 0), Modelled S_add_val_to);
  ((F_MATCHER, "ArgMatcher::add_index_to", "expect", 0), Modelled [1105]);
  ((F_MATCHER, "ArgMatcher::needs_more_vals", "expect", 0), Modelled [299]);
  ((F_MATCHER, "ArgMatcher::pending_values_mut", "debug_assert_eq!", 0), Modelled S_pending_values);
  ((F_MATCHER, "ArgMatcher::pending_values_mut", "debug_assert_eq!", 1), Modelled S_pending_values);
  (* ---- matched_arg.rs ---- *)
  ((F_MARG, "MatchedArg::new_external", "expect", 0),
     Proved P_external_guarded "reached only through start_occurrence_of_external (same Option, same guard)");
  ((F_MARG, "MatchedArg::append_val", "expect", 0), Modelled S_add_val_to);   (* vals.last_mut(): append_val = None *)
  ((F_MARG, "MatchedArg::append_val", "expect", 1), Modelled S_add_val_to);   (* raw_vals.last_mut() *)
  (* ---- validator.rs ---- *)
  ((F_VALID, "Validator::build_conflict_err", "expect", 0), Modelled [147]);
  ((F_VALID, "Validator::build_conflict_err", "expect", 1), Modelled [153]);
  ((F_VALID, "Validator::missing_required_error", "debug_assert!", 0),
     Proved P_missing_known "the ids handed to missing_required_error are those validate_required collected, each the id of an argument or group of the command");
  ((F_VALID, "gather_direct_conflicts", "debug_assert!", 0), Modelled S_gather_conflicts);
  ((F_VALID, "gather_arg_direct_conflicts", "expect", 0), Modelled S_gather_conflicts);
  (* ---- command.rs, functions reachable from the parser ---- *)
  ((F_CMD, "Command::_build_self", "assert_app", 0), Modelled [4407]);    (* root: do_parse = OInvalidConfig, hypothesis [valid] *)
  ((F_CMD, "Command::_build_subcommand", "unwrap", 0),
     Reasoned "write! into a String: fmt::Write for String never returns Err");
  ((F_CMD, "Command::_build_subcommand", "unwrap", 1),
     Reasoned "write! into a String: fmt::Write for String never returns Err");
  ((F_CMD, "Command::format_group", "unwrap", 0),
     Reasoned "write! into a StyledStr (a String): never returns Err; only used when rendering usage");
  ((F_CMD, "Command::contains_short", "debug_assert!", 0),
     Proved P_built "the command of every parser level is the result of _build_self, which sets Built");
  ((F_CMD, "Command::unroll_args_in_group", "expect", 0), Modelled [506; 481]);
  ((F_CMD, "Command::index", "expect", 0), Modelled S_cmd_index)
].
End Table.

(** the panic numbers of the model that stand for sites of callees OUTSIDE the five files, or for the
    model's own fuel (no Rust counterpart) *)
Definition callee_sites : list N :=
  [ 1029     (* Arg::get_min_vals -> get_num_args().expect (builder/arg.rs) in parse_opt_value *)
  ; 1101     (* Arg::get_value_parser: total in Rust (falls back to a static default); the model is stricter *)
  ; 1184     (* OsStrExt::split with an empty needle (clap_lex ext) in react's delimiter block *)
  ; 925      (* fuel of the model's short_loop *)
  ].

Definition modelled_sites : list N :=
  flat_map (fun p => match snd p with Modelled l => l | _ => [] end) model_site_table.

(** ** the theorems *)
Theorem sites_match : map fst model_site_table = Gen.ParseSites.parse_sites.
Proof. vm_compute. reflexivity. Qed.

Theorem sites_dead c0 toks : plain c0 = true -> valid c0 = true ->
  forall n, In n modelled_sites -> do_parse c0 toks <> OPanicked n.
Proof.
  intros Hp Hv n _ H. pose proof (do_parse_total c0 toks Hp Hv) as T. rewrite H in T. exact T.
Qed.

Theorem sites_proved : forall k P w, In (k, Proved P w) model_site_table -> P.
Proof.
  intros k P w H. unfold model_site_table in H.
  repeat (destruct H as [H|H];
          [first [discriminate H
                 | injection H as _ HP _; rewrite <- HP;
                   first [exact help_walk_unwrap|exact react_values_done|exact built_levels
                         |exact SitesGuards.external_guarded|exact SitesGuards.missing_known]]|]).
  destruct H.
Qed.


Theorem sites_reasoned_rows :
  map fst (filter (fun p => match snd p with Reasoned _ => true | _ => false end) model_site_table)
  = [ ("parser/parser.rs", "Parser::parse", "unreachable!", 0);
      ("parser/parser.rs", "Parser::parse", "unreachable!", 4);
      ("parser/parser.rs", "Parser::parse", "debug_assert_eq!", 0);
      ("parser/parser.rs", "Parser::did_you_mean_error", "index", 0);
      ("parser/arg_matcher.rs", "ArgMatcher::start_custom_arg", "debug_assert_eq!", 0);
      ("parser/arg_matcher.rs", "ArgMatcher::start_custom_group", "debug_assert_eq!", 0);
      ("parser/arg_matcher.rs", "ArgMatcher::start_occurrence_of_external", "debug_assert_eq!", 0);
      ("builder/command.rs", "Command::_build_subcommand", "unwrap", 0);
      ("builder/command.rs", "Command::_build_subcommand", "unwrap", 1);
      ("builder/command.rs", "Command::format_group", "unwrap", 0) ]%string.
Proof. vm_compute. reflexivity. Qed.
