(** The generated `--help` / `--version` arguments and the `help` subcommand ([Command::_check_help_and_version]) of the
    model against the table regenerated from the source ([Gen/BuildTables.v], translators/builder_tables.py), and two
    other models' copies of `ArgAction::takes_values` against [Gen/ActionTables.v]. *)
From Coq Require Import List NArith String Ascii Bool.
From ClapModel Require Import Base.Bytes Base.Machine Parse.Cmd Parse.Build.
From ClapModel Require Import Gen.ActionTables Gen.SettingsTables Gen.BuildTables ParseProofs.TablesActions.
From ClapModel Require ParseProofs.TablesSettings Derive.DeriveModel Complete.AotTree.
From RecordUpdate Require Import RecordSet.
Import RecordSetNotations.
Import ListNotations.
Open Scope N_scope.

Definition short_of (s : string) : option N :=
  match s with String ch EmptyString => Some (N_of_ascii ch) | _ => None end.
(** `Arg::new(id).short(s).long(l).action(a).help(..)` (the help text is the placeholder the model uses for "has help") *)
Definition tbl_flag_arg (r : string * string * string * string) : option arg :=
  let '(i, s, l, a) := r in
  obind (short_of s) (fun sh => obind (action_named a) (fun act =>
    Some ((arg_new (bytes_of_string i)) <| a_short := Some sh |> <| a_long := Some (bytes_of_string l) |>
                                        <| a_action := Some act |> <| a_help := Some [80] |>))).
(** `Arg::new(id).action(a).num_args(..).value_name(..).help(..)` *)
Definition tbl_help_sub_arg : option arg :=
  obind (action_named (snd gen_help_sub_arg)) (fun act => obind (range_named "FULL") (fun r =>
    Some ((arg_new (bytes_of_string (fst gen_help_sub_arg))) <| a_action := Some act |> <| a_num := Some r |>
                                                             <| a_nvalnames := 1 |> <| a_help := Some [80] |>))).

(** the model's constants are the source's *)
Theorem generated_args_table :
  tbl_flag_arg gen_help_arg = Some help_arg
  /\ tbl_flag_arg gen_version_arg = Some version_arg
  /\ tbl_help_sub_arg = Some help_subcommand_arg
  /\ bytes_of_string gen_help_sub_name = s_help
  /\ bytes_of_string gen_help_sub_about = s_help_about.
Proof. repeat split. Qed.

(** a guard `self.<getter>()` as the table describes the getter *)
Definition tbl_guard (g : string * string * bool) (c : cmd) : option bool :=
  obind (TablesSettings.field_by_variant (snd (fst g))) (fun f =>
    Some (if snd g
          then is_set (TablesSettings.sf_get f) c || (negb (is_some (c_version c)) && negb (is_some (c_long_version c)))
          else is_set (TablesSettings.sf_get f) c)).

Definition tbl_bs_help_version (c : cmd) : option cmd :=
  obind (tbl_guard gen_help_guard c) (fun hg => obind (tbl_flag_arg gen_help_arg) (fun ha =>
  let c1 := if negb hg then c <| c_args := (c_args c ++ [ha])%list |> else c in
  obind (tbl_guard gen_version_guard c1) (fun vg => obind (tbl_flag_arg gen_version_arg) (fun va =>
  let c2 := if negb vg then c1 <| c_args := (c_args c1 ++ [va])%list |> else c1 in
  obind (TablesSettings.field_by_variant gen_help_sub_guard) (fun sf =>
  obind (TablesSettings.tbl_help_subcommand c2) (fun hs =>
    Some (if negb (is_set (TablesSettings.sf_get sf) c2) then c2 <| c_subs := (c_subs c2 ++ [hs])%list |> else c2))))))).

(** [_check_help_and_version] of the model is the function the tables define, for every command *)
Theorem bs_help_version_table : forall c, tbl_bs_help_version c = Some (bs_help_version c).
Proof.
  intros c. unfold tbl_bs_help_version, bs_help_version.
  destruct generated_args_table as (Hh & Hv & _). rewrite Hh, Hv.
  change (tbl_guard gen_help_guard c) with (Some (is_set s_disable_help_flag c)). cbn [obind].
  set (c1 := if negb (is_set s_disable_help_flag c) then c <| c_args := (c_args c ++ [help_arg])%list |> else c).
  change (tbl_guard gen_version_guard c1) with (Some (is_disable_version_flag_set c1)). cbn [obind].
  set (c2 := if negb (is_disable_version_flag_set c1) then c1 <| c_args := (c_args c1 ++ [version_arg])%list |> else c1).
  change (TablesSettings.field_by_variant gen_help_sub_guard)
    with (Some {| TablesSettings.sf_get := s_disable_help_sub;
                  TablesSettings.sf_put := fun b s => s <| s_disable_help_sub := b |> |}).
  cbn [obind]. rewrite TablesSettings.help_subcommand_table. cbn [obind TablesSettings.sf_get]. reflexivity.
Qed.

(** ---- mkeymap.rs: the keys of an argument, in order ---- *)
Inductive kvals := KN (l : list N) | KB (l : list bytes).
Definition field_vals (f q : string) (a : arg) : option kvals :=
  if String.eqb f "short" && String.eqb q "one" then Some (KN (match a_short a with Some s => [s] | None => [] end))
  else if String.eqb f "long" && String.eqb q "one" then Some (KB (match a_long a with Some l => [l] | None => [] end))
  else if String.eqb f "short_aliases" && String.eqb q "each" then Some (KN (map fst (a_short_aliases a)))
  else if String.eqb f "aliases" && String.eqb q "each" then Some (KB (map fst (a_aliases a)))
  else None.
Definition mk_keys (k : string) (v : kvals) : option (list key) :=
  match v with
  | KN l => if String.eqb k "Short" then Some (map KShort l) else None
  | KB l => if String.eqb k "Long" then Some (map KLong l) else None
  end.
Fixpoint keys_of_sources (srcs : list (string * string * string)) (a : arg) : option (list key) :=
  match srcs with
  | [] => Some []
  | (f, k, q) :: t =>
      obind (field_vals f q a) (fun v => obind (mk_keys k v) (fun ks =>
      obind (keys_of_sources t a) (fun r => Some (ks ++ r)%list)))
  end.
Definition tbl_arg_keys (a : arg) : option (list key) :=
  match a_index a with Some n => Some [KPos n] | None => keys_of_sources gen_key_sources a end.

(** the keys the model gives an argument are the source's, in the source's order (lookups return the FIRST match) *)
Theorem arg_keys_table : forall a, tbl_arg_keys a = Some (arg_keys a).
Proof.
  intros a. unfold tbl_arg_keys, arg_keys. destruct (a_index a) as [n|]; [reflexivity|].
  cbn. rewrite !map_map, app_nil_r. destruct (a_short a), (a_long a); reflexivity.
Qed.

(** ---- the boolean settings of an argument: case-file flag -> Arg method -> ArgSettings variant -> model field ---- *)
(** (field of [Cmd.arg] under the name the extracted OCaml record uses, the ArgSettings variant it stands for, its reader) *)
Definition model_arg_fields : list (string * (string * (arg -> bool))) := [
  ("a_required", ("Required", a_required)); ("a_global", ("Global", a_global)); ("a_last", ("Last", a_last));
  ("a_tva", ("TrailingVarArg", a_tva)); ("a_hyphen", ("AllowHyphenValues", a_hyphen));
  ("a_negnum", ("AllowNegativeNumbers", a_negnum)); ("a_req_eq", ("RequireEquals", a_req_eq));
  ("a_exclusive", ("Exclusive", a_exclusive)); ("a_hide", ("Hidden", a_hide)); ("a_ignore_case", ("IgnoreCase", a_ignore_case))
]%string.
(** one `(flags f)` entry: the harness calls a method [m] for [f]; in the source [m] is a setter of variant [v]; the model-side
    reader sets a field that stands for the same [v]; and the source has a getter reading [v] (what the parser calls) *)
Definition flag_ok (p : string * string) : bool :=
  match TablesSettings.assoc (fst p) gen_harness_arg_flags, TablesSettings.assoc (snd p) model_arg_fields with
  | Some m, Some (v, _) =>
      match TablesSettings.assoc m gen_arg_setters with
      | Some v' => String.eqb v v' && existsb (fun g => String.eqb (snd g) v) gen_arg_getters
      | None => false end
  | _, _ => false
  end.
Theorem arg_flags_table :
  forallb flag_ok gen_spec_arg_flags = true /\ map fst gen_spec_arg_flags = map fst gen_harness_arg_flags.
Proof. split; reflexivity. Qed.

(** ---- Command::_build_self: order of the steps, the argument loop, the deprecated command-level settings ---- *)
(** the model's function for each step of the source ("args._build" builds the key map, which the model computes on
    demand ([Cmd.keymap]); "assert_app" is the configuration gate, a separate function of the model ([Valid.assert_app])) *)
Definition step_named (s : string) : option (cmd -> cmd) :=
  if String.eqb s "settings_block" then Some bs_settings
  else if String.eqb s "_propagate" then Some bs_propagate
  else if String.eqb s "_check_help_and_version" then Some bs_help_version
  else if String.eqb s "_propagate_global_args" then Some bs_globals
  else if String.eqb s "args_loop" then Some bs_args
  else if String.eqb s "args._build" then Some (fun c => c)
  else if String.eqb s "deprecated_block" then Some bs_deprecated
  else if String.eqb s "assert_app" then Some (fun c => c)
  else if String.eqb s "set_built" then Some bs_mark
  else None.
Definition tbl_build_self (c : cmd) : option cmd :=
  if s_built (c_set c) then Some c
  else fold_left (fun acc s => obind acc (fun c => obind (step_named s) (fun f => Some (f c)))) gen_build_self_steps (Some c).

(** the model's [build_self] runs the steps in the order the source runs them *)
Theorem build_self_steps_table : forall c, tbl_build_self c = Some (build_self c).
Proof. intros c. unfold tbl_build_self, build_self. destruct (s_built (c_set c)); reflexivity. Qed.

(** inside the loop over the arguments: groups, then [Arg::_build], then (help only, not modelled) hide_possible_values,
    then the positional index -- the order of [Build.build_args]; indices start at [gen_pos_counter_start] *)
Definition model_args_loop_steps : list string := ["groups"; "_build"; "hide_possible_values"; "index"]%string.
Theorem args_loop_table :
  gen_args_loop_steps = model_args_loop_steps
  /\ (forall c, bs_args c = let ba := build_args (c_args c) (c_groups c) gen_pos_counter_start in
                          c <| c_args := fst ba |> <| c_groups := snd ba |>).
Proof. split; [reflexivity|intros c; reflexivity]. Qed.

Theorem args_loop_table_proj :
  gen_args_loop_steps = model_args_loop_steps
  /\ (forall c, c_args (bs_args c) = fst (build_args (c_args c) (c_groups c) gen_pos_counter_start)
              /\ c_groups (bs_args c) = snd (build_args (c_args c) (c_groups c) gen_pos_counter_start)).
Proof. split; [reflexivity|intros c; split; reflexivity]. Qed.

(** the deprecated command-level AllowHyphenValues / AllowNegativeNumbers / TrailingVarArg *)
Definition dep_cond (s : string) (highest : N) : option (arg -> bool) :=
  if String.eqb s "arg.is_takes_value_set()" then Some a_takes_value
  else if String.eqb s "arg.get_index() == Some(highest_idx)"
       then Some (fun a => match a_index a with Some n => n =? highest | None => false end)
  else None.
Definition arg_flag_set (v : string) : option (arg -> arg) :=
  if String.eqb v "AllowHyphenValues" then Some (fun a => a <| a_hyphen := true |>)
  else if String.eqb v "AllowNegativeNumbers" then Some (fun a => a <| a_negnum := true |>)
  else if String.eqb v "TrailingVarArg" then Some (fun a => a <| a_tva := true |>)
  else None.
Definition tbl_deprecated_arg (c : cmd) (highest : N) (a : arg) : option arg :=
  fold_left (fun acc r =>
               obind acc (fun a =>
               obind (TablesSettings.field_by_variant (fst (fst r))) (fun f =>
               obind (dep_cond (snd (fst r)) highest) (fun cond =>
               obind (arg_flag_set (snd r)) (fun put =>
                 Some (if is_set (TablesSettings.sf_get f) c && cond a then put a else a))))))
            gen_deprecated_rules (Some a).
Theorem deprecated_table : forall c highest a, tbl_deprecated_arg c highest a = Some (bs_deprecated_arg c highest a).
Proof. intros c highest a. reflexivity. Qed.
Theorem deprecated_highest_table : forall c,
  bs_deprecated c =
  c <| c_args := map (bs_deprecated_arg c (fold_left (fun m a => match a_index a with Some n => N.max m n | None => m end)
                                                     (c_args c) gen_highest_idx_default)) (c_args c) |>.
Proof. intros c. reflexivity. Qed.

Theorem deprecated_highest_table_proj : forall c,
  c_args (bs_deprecated c) =
  map (bs_deprecated_arg c (fold_left (fun m a => match a_index a with Some n => N.max m n | None => m end)
                                      (c_args c) gen_highest_idx_default)) (c_args c).
Proof. intros c. reflexivity. Qed.

(** ---- other models' copies of `ArgAction::takes_values` ---- *)
(** C15's model ([DeriveModel.action_takes_values]; same [action] type as the parser model) *)
Theorem derive_takes_values_table : forall act row, row_of act = Some row ->
  DeriveModel.action_takes_values act = ga_takes_values row.
Proof. intros [] row H; vm_compute in H; inversion H; subst; reflexivity. Qed.

(** C16's model has its own [action] type (no HelpShort/HelpLong) and derives the built [num_args] from takes_values *)
Definition aot_action (a : AotTree.action) : action :=
  match a with
  | AotTree.ASet => ASet | AotTree.AAppend => AAppend | AotTree.ASetTrue => ASetTrue | AotTree.ASetFalse => ASetFalse
  | AotTree.ACount => ACount | AotTree.AHelp => AHelp | AotTree.AVersion => AVersion end.
Theorem aot_takes_values_table : forall a row, row_of (aot_action a) = Some row ->
  AotTree.action_takes_values a = ga_takes_values row
  /\ range_named (ga_default_num_args row)
     = Some (if AotTree.action_takes_values a then {| vmin := 1; vmax := 1 |} else {| vmin := 0; vmax := 0 |}).
Proof. intros [] row H; vm_compute in H; inversion H; subst; split; reflexivity. Qed.

Module TablesBuildExamples.
  (* a command with a version and one subcommand gets -h, -V and the help subcommand, in this order *)
  Definition ex : cmd := (cmd_new [112]) <| c_version := Some [49] |> <| c_subs := [cmd_new [115]] |>.
  Example ex_built : option_map (fun c => (map a_id (c_args c), map c_name (c_subs c))) (tbl_bs_help_version ex)
                     = Some ([s_help; s_version], [[115]; s_help]).
  Proof. vm_compute. reflexivity. Qed.
  (* `-o`, `--out`, visible alias `--output`: keys in the source's order *)
  Example ex_keys : tbl_arg_keys ((arg_new [111]) <| a_short := Some 111 |> <| a_long := Some [111; 117; 116] |>
                                                  <| a_aliases := [([111; 112], true)] |>)
                    = Some [KShort 111; KLong [111; 117; 116]; KLong [111; 112]].
  Proof. reflexivity. Qed.
  Example ex_steps : option_map (fun c => s_built (c_set c)) (tbl_build_self ex) = Some true.
  Proof. vm_compute. reflexivity. Qed.
  Example ex_rows : exists r1 r2, row_of ACount = Some r1 /\ row_of (aot_action AotTree.AAppend) = Some r2.
  Proof. eexists. eexists. split; reflexivity. Qed.
End TablesBuildExamples.
