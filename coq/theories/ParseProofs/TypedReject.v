(** Property C04, round 2: the REJECTION side at the level of the whole parse.

    (a) [bad_value_not_accepted]: an invocation of the un-parser class of C02 ([conv], [wf_items]:
        any mix of [--opt=v], [--opt v..], clusters, positional runs) in which the occurrences give
        an argument a value outside the language of that argument's value parser is NOT accepted --
        by C02's conservation theorem an accepting parse would report that value, by the invariant of
        TypedInv.v it cannot.
    (b) [value_error_sound]: when [parse_top] (class [plain], valid) rejects with a value error
        kind, some level of the chain of the line has an argument [a] and a value [v] that comes from
        the line or from the definition (a piece of a token, a default, an environment value, an
        action literal) with: [a]'s value parser -- the parser model's AND, through [bridge], the C04
        model's -- refuses [v] with exactly the reported kind, and the error names [a] ([e_arg]; the
        model's error record carries the id for every kind, the implementation's InvalidUtf8 message
        does not print it: known finding C04-invalid-utf8-unnamed); or the value belongs to an external
        subcommand; or (InvalidValue) an occurrence with an empty value list ([empty_value]); or a
        non-UTF-8 external subcommand name.  This is C10's [kind_sound]/[justified_value] with the C04
        reading of "refuses" added. *)
From Coq Require Import ZArith List Bool Lia.
From ClapModel Require Import Base.Bytes Base.Machine Base.Utf8.
From ClapModel Require Value.ValueBase Value.ValueParsers.
From ClapModel Require Import Parse.Cmd Parse.Build Parse.Valid Parse.Matcher Parse.Errors Parse.Validator Parse.Parser.
From ClapModel Require Import ParseProofs.Safe ParseProofs.Relations ParseProofs.Totality ParseProofs.TotalityMain
                              ParseProofs.Provenance ParseProofs.ErrorSound ParseProofs.KindSound
                              ParseProofs.Actions ParseProofs.Unparse ParseProofs.UnparseProofs ParseProofs.UnparseTop
                              ParseProofs.Dispatch ParseProofs.TypedInv ParseProofs.TypedView.
From RecordUpdate Require Import RecordSet.
Import RecordSetNotations.
Import ListNotations.
Open Scope N_scope.

Lemma conv_assert_app c : conv c = true -> assert_app c = true.
Proof. unfold conv. intros H. do 4 (apply andb_true_iff in H as [H _]). exact H. Qed.

Theorem bad_value_not_accepted c f its a vp gs v :
  conv c = true -> is_set s_ignore_errors c = false -> wf_items c PSValuesDone 1 its = true ->
  In a (c_args c) -> a_vp a = Some vp ->
  denote_arg c (a_id a) its = Some gs -> In v (concat gs) -> vp_parse vp v <> None ->
  forall st, get_matches_with (S f) c (render its) ps_new <> ROk st.
Proof.
  intros Hconv Hie Hwf Hin Hvp Hd Hv Hrej st Hr.
  destruct (conservation c Hconv Hie f its st Hwf Hr a Hin) as [Hc _].
  specialize (Hc gs Hd). unfold groups_of, get in Hc.
  destruct (fm_get (a_id a) (mt_args (mt st))) as [ma|] eqn:Eg; cbn in Hc; [|discriminate].
  inversion Hc; subst gs.
  pose proof (gmw_typed (S f) c (render its) ps_new (conv_assert_app c Hconv) (TS_ps_new c)) as Ht.
  rewrite Hr in Ht. cbn [holds] in Ht. destruct Ht as [Ht _].
  apply Safe.fm_get_in in Eg. destruct Eg as [k' [Hk' Hb]]. apply beq_eq in Hb. subst k'.
  eapply (never_stored c _ (a_id a) ma a vp v Ht Hk'); [|exact Hvp|exact Hrej|exact Hv].
  apply (assert_app_W3 c (conv_assert_app c Hconv) a Hin).
Qed.

Definition value_kind (k : ekind) : Prop := In k [EInvalidValue; EValueValidation; EInvalidUtf8].

(** the value error is the refusal of the argument's value parser, in the parser model and in C04's *)
Definition refused_by (c' : cmd) (T' : list bytes) (e : error) : Prop :=
  exists a s vp v, In a (c_args c') /\ srcOKarg c' T' a s /\ a_vp a = Some vp /\ origin c' T' v /\
    vp_parse vp v = Some (e_kind e) /\ e_arg e = a_id a /\
    forall p, embed vp = Some p ->
      exists k', ClapModel.Value.ValueParsers.vparse p v = ClapModel.Value.ValueBase.VErr k' /\ e_kind e = ek k'.

Theorem value_error_sound c0 argv e : plain c0 = true ->
  (forall b, valid (with_bin c0 b) = true) -> valid c0 = true ->
  parse_top c0 argv = OErr e -> value_kind (e_kind e) ->
  exists b T c' T', suffix_of T argv /\ reach (build_self (with_bin c0 b)) T c' T' /\
    (refused_by c' T' e
     \/ (exists v, In v T' /\ is_set s_allow_external c' = true /\
                   vp_parse (opt_default VPOsString (c_ext_vp c')) v = Some (e_kind e))
     \/ (e_kind e = EInvalidValue /\
         exists a (raw : list bytes) r, In a (c_args c') /\ occurs c' T' a /\ a_num a = Some r /\ e_arg e = a_id a /\
                         count_breaks (e_kind e) r (N.of_nat (length raw)))
     \/ (e_kind e = EInvalidUtf8 /\ exists tok, In tok T' /\ utf8_valid tok = false /\ is_set s_allow_external c' = true)).
Proof.
  intros Hp Hvb Hv H Hk.
  destruct (kind_sound c0 argv e Hp Hvb Hv H) as [b [T [c' [T' [HT [Hr Hj]]]]]].
  exists b, T, c', T'. split; [exact HT|]. split; [exact Hr|].
  destruct (justified_value c' T' e Hj Hk) as [H1|[H2|[H3|H4]]].
  - left. destruct H1 as [a [s [vp [v [Hin [Hs [Hvp [Ho [Hrej [_ Harg]]]]]]]]]].
    exists a, s, vp, v. repeat split; try assumption.
    intros p Hp'. apply (typed_value_rejects vp p v (e_kind e) Hp'). exact Hrej.
  - right; left. destruct H2 as [v [Hin [Hx [Hrej _]]]]. exists v. auto.
  - right; right; left. destruct H3 as [Hk' [a [raw [r [Hin [Ho [_ [Hn [Ha Hc]]]]]]]]].
    split; [exact Hk'|]. exists a, raw, r. auto.
  - right; right; right. exact H4.
Qed.
