(** Property C03, the converse direction for two rule families (the sentence "inputs that break
    no rule are not rejected" belongs to C10 but lives in this code).

    Part 1 -- conflicts: if the declarative conflict clauses (R1) and (R2) hold of a matcher then
    [validate_conflicts] accepts it, and [validate] never answers ArgumentConflict; for ALL
    relation graphs.
    Part 2 -- statically required arguments: for the class [static_only] (no [requires], no
    conditional rule, no required group / group [requires]; conflicts, overrides, groups and
    exclusive args arbitrary) the validator is *exactly* the specification:
    [validate c mt = VOk <-> Relations c mt] once the two checks that are not relations
    (help-on-empty, subcommand-required) are out of the way. *)
From Coq Require Import ZArith List Bool Lia.
Import ListNotations.
From ClapModel Require Import Base.Bytes Base.Machine.
From ClapModel Require Import Parse.Cmd Parse.Build Parse.Valid Parse.Matcher Parse.Errors Parse.Validator Parse.Parser.
From ClapModel Require Import ParseProofs.Safe ParseProofs.Relations ParseProofs.RelationsClauses ParseProofs.ValidateTotal ParseProofs.TotalityMain.
From RecordUpdate Require Import RecordSet.
Import RecordSetNotations.
Open Scope N_scope.

(** * small list facts *)
Lemma first_err_all_ok {A} (f : A -> vres) l : (forall x, In x l -> f x = VOk) -> first_err (map f l) = VOk.
Proof.
  induction l as [|a t IH]; cbn [map first_err]; [reflexivity|]. intros H.
  rewrite (H a (or_introl eq_refl)). apply IH. intros x Hx. apply H. now right.
Qed.
Lemma fm_get_of_In {V} k (v : V) l : In (k, v) l -> exists v', fm_get k l = Some v'.
Proof.
  induction l as [|[k' v'] t IH]; [intros []|]. cbn [fm_get]. destruct (beq k' k) eqn:E; [eauto|].
  intros [H|H]; [|auto]. inversion H; subst. rewrite beq_refl in E. discriminate.
Qed.
Lemma find_map_some {A B} (f : A -> option B) l b : find_map f l = Some b -> exists x, In x l /\ f x = Some b.
Proof.
  induction l as [|a t IH]; cbn [find_map]; [discriminate|]. destruct (f a) eqn:E.
  - intros [= <-]. exists a. split; [now left|exact E].
  - intros H. destruct (IH H) as (x & Hx & Hf). exists x. split; [now right|exact Hf].
Qed.
Lemma NoDup_keys_filter {V} (f : id * V -> bool) l : NoDup (map fst l) -> NoDup (map fst (filter f l)).
Proof.
  induction l as [|p t IH]; cbn [filter map]; [auto|]. intros H. inversion H as [|? ? Hni Hnd]; subst.
  destruct (f p); [|auto]. cbn [map]. constructor; [|auto].
  intros Hin. apply Hni. apply in_map_iff in Hin as (q & Hq & Hf). apply filter_In in Hf as [Hf _].
  apply in_map_iff. exists q. auto.
Qed.
Lemma other_key {V} (l : list (id * V)) k : NoDup (map fst l) -> (2 <= length l)%nat ->
  exists q, In q l /\ fst q <> k.
Proof.
  destruct l as [|q1 [|q2 t]]; cbn [length]; try lia. intros Hnd _.
  destruct (beq (fst q1) k) eqn:E.
  - apply beq_eq in E. exists q2. split; [right; now left|]. intros E2.
    cbn [map] in Hnd. inversion Hnd as [|? ? Hni _]; subst. apply Hni. left. congruence.
  - apply beq_neq in E. exists q1. split; [now left|exact E].
Qed.

Section Complete.
Variable c : cmd.
Hypothesis W : rel_wf c = true.

(** the two declarative conflict clauses, as hypotheses on a matcher *)
Definition R1 (mt : matcher) : Prop := forall i a x,
  arg_of c i a -> present mt i -> present mt x -> x <> i -> ~ declares c i x /\ ~ declares c x i.
Definition R2 (mt : matcher) : Prop := forall i a j b,
  arg_of c i a -> a_exclusive a = true -> present mt i -> arg_of c j b -> present mt j -> j = i.

(** * Part 1: conflicts *)
Lemma validate_exclusive_complete mt : fm_wf mt -> R2 mt -> validate_exclusive c mt = VOk.
Proof.
  intros Wm H2. unfold validate_exclusive.
  set (expl_args := filter (fun p => is_some (find_arg c (fst p))) (explicit_entries mt)).
  destruct (Nat.leb (length expl_args) 1) eqn:El; [reflexivity|].
  destruct (find_map _ (explicit_entries mt)) as [a|] eqn:Ef; [exfalso|reflexivity].
  apply find_map_some in Ef as ([i mi] & Hin & Hf). cbn [fst] in Hf.
  destruct (find_arg c i) as [a0|] eqn:Ea; [|discriminate].
  destruct (a_exclusive a0) eqn:Ex; [|discriminate].
  apply Nat.leb_gt in El.
  assert (Hnd : NoDup (map fst expl_args)).
  { subst expl_args. apply NoDup_keys_filter. unfold explicit_entries. apply NoDup_keys_filter. exact Wm. }
  destruct (other_key expl_args i Hnd) as ([j mj] & Hq & Hne); [lia|]. cbn [fst] in Hne.
  subst expl_args. apply filter_In in Hq as [Hq Hb]. cbn [fst] in Hb.
  destruct (find_arg c j) as [b|] eqn:Eb; [|discriminate].
  apply Hne. apply (H2 i a0 j b Ea Ex); [now apply (entry_present mt i mi)|exact Eb|now apply (entry_present mt j mj)].
Qed.

Theorem validate_conflicts_complete mt potential :
  fm_wf mt -> conflicts_with_args c mt = Some potential -> R1 mt -> R2 mt ->
  validate_conflicts c mt potential = VOk.
Proof.
  intros Wm Hp H1 H2. unfold validate_conflicts. rewrite (validate_exclusive_complete mt Wm H2).
  apply first_err_all_ok. intros [i mi] Hin. apply filter_In in Hin as [Hin Ha]. cbn [fst] in *.
  destruct (find_arg c i) as [a|] eqn:Ea; [|discriminate].
  destruct (proj1 (cwa_spec c mt potential Hp) i mi Hin) as (conf & Hc & Hg).
  destruct (gather_conflicts c potential i) as [l|] eqn:Egc.
  - destruct (gc_spec c potential i l Egc) as (mine & Hmine & Hnil).
    assert (l = []) as ->; [|reflexivity].
    apply Hnil. intros other oc Ho Hne.
    apply (mine_of_spec c mt) in Hmine; [|exact Hp].
    destruct (proj2 (cwa_spec c mt potential Hp) other oc Ho) as (Hgo & mo & Hmo).
    destruct (H1 i a other Ea (entry_present mt i mi Wm Hin) (entry_present mt other mo Wm Hmo) Hne) as [N1 N2].
    split.
    + intros Hx. apply N1. now apply (gather_direct_spec c W i mine Hmine other).
    + intros Hx. apply N2. now apply (gather_direct_spec c W other oc Hgo i).
  - exfalso. unfold gather_conflicts in Egc.
    destruct (fm_get_of_In i conf potential Hc) as [v' Hv]. rewrite Hv in Egc. discriminate.
Qed.

(** the validator never answers ArgumentConflict for a matcher that satisfies the conflict clauses *)
Theorem validate_no_conflict_error mt : fm_wf mt -> keys_ok c (mt_args mt) -> R1 mt -> R2 mt ->
  forall a, validate c mt <> VErr EArgumentConflict a.
Proof.
  intros Wm Hk H1 H2 a. unfold validate.
  destruct (conflicts_with_args_some c mt Hk) as (pot & Hp & _). rewrite Hp.
  destruct (negb (is_some (mt_sub mt)) && is_set s_arg_required_else_help c && is_nil (explicit_entries mt)); [discriminate|].
  destruct (negb (is_some (mt_sub mt)) && is_set s_sub_required c); [discriminate|].
  rewrite (validate_conflicts_complete mt pot Wm Hp H1 H2).
  destruct (is_set s_subs_negate_reqs c && is_some (mt_sub mt)); [discriminate|].
  destruct (missing_required c mt pot) as [[|m l]|]; discriminate.
Qed.

(** * Part 2: statically required arguments, class [static_only] *)
Definition static_only : bool :=
  forallb (fun a => is_nil (a_requires a) && is_nil (a_r_ifs a) && is_nil (a_r_ifs_all a)
                    && is_nil (a_r_unless a) && is_nil (a_r_unless_all a)) (c_args c)
  && forallb (fun g => negb (g_required g) && is_nil (g_requires g)) (c_groups c).

Hypothesis SO : static_only = true.

Lemma static_arg a : In a (c_args c) ->
  a_requires a = [] /\ a_r_ifs a = [] /\ a_r_ifs_all a = [] /\ a_r_unless a = [] /\ a_r_unless_all a = [].
Proof.
  intros Hin. unfold static_only in SO. apply andb_true_iff in SO as [HA _].
  rewrite forallb_forall in HA. specialize (HA a Hin).
  repeat (apply andb_true_iff in HA as [HA ?]).
  repeat match goal with H : is_nil _ = true |- _ => apply is_nil_true in H end. auto.
Qed.
Lemma static_group g : In g (c_groups c) -> g_required g = false /\ g_requires g = [].
Proof.
  intros Hin. unfold static_only in SO. apply andb_true_iff in SO as [_ HG].
  rewrite forallb_forall in HG. specialize (HG g Hin). apply andb_true_iff in HG as [H1 H2].
  apply negb_true_iff in H1. apply is_nil_true in H2. auto.
Qed.

(** nothing is gathered: the required set is the static graph *)
Lemma gather_requires_static mt req : gather_requires c mt req = Some req.
Proof.
  rewrite gather_requires_unfold. induction (explicit_entries mt) as [|[n m] t IH]; cbn [fold_left]; [reflexivity|].
  replace (gr_step c (Some req) (n, m)) with (Some req); [exact IH|].
  unfold gr_step. destruct (find_arg c n) as [arg|] eqn:Ea.
  - destruct (find_arg_id c n arg Ea) as [Hid Hin].
    unfold unroll_arg_requires, requires_fuel. cbn [unroll_requires_loop mem_id existsb app].
    rewrite Hid, Ea. destruct (static_arg arg Hin) as [-> _]. cbn [filter_map fold_left app]. reflexivity.
  - destruct (find_group c n) as [g|] eqn:Eg; [|reflexivity].
    destruct (find_group_id c n g Eg) as [_ Hin]. destruct (static_group g Hin) as [_ ->]. reflexivity.
Qed.

Lemma required_graph_static x : In x (required_graph c) ->
  exists a, In a (c_args c) /\ a_required a = true /\ x = a_id a.
Proof.
  unfold required_graph.
  set (FA := fun (g : list id) (a : arg) => if a_required a then graph_insert g (a_id a) else g).
  set (FG := fun (g : list id) (grp : group) => if g_required grp then graph_insert g (g_id grp) ++ g_requires grp else g).
  assert (HG : forall l g0, (forall g, In g l -> In g (c_groups c)) -> fold_left FG l g0 = g0).
  { induction l as [|g t IH]; intros g0 Hl; cbn [fold_left]; [reflexivity|].
    unfold FG at 2. destruct (static_group g (Hl g (or_introl eq_refl))) as [-> _]. apply IH.
    intros g' Hg'. apply Hl. now right. }
  rewrite HG; [|auto].
  assert (HA : forall l g0 y, In y (fold_left FA l g0) ->
                 In y g0 \/ exists a, In a l /\ a_required a = true /\ y = a_id a).
  { induction l as [|a t IH]; intros g0 y; cbn [fold_left]; [auto|].
    intros H. apply IH in H as [H|(a' & Hin & Hr & ->)].
    - unfold FA in H. destruct (a_required a) eqn:Er; [|auto].
      apply graph_insert_In in H as [H| ->]; [auto|]. right. exists a. split; [now left|auto].
    - right. exists a'. split; [now right|auto]. }
  intros H. apply HA in H as [[]|H]. exact H.
Qed.

(** the exemptions, converse of [imr_ok_spec] and [excl_present_spec] *)
Lemma excl_present_conv mt : exclusive_present c (present mt) -> excl_present_b c mt = true.
Proof.
  intros (e & b & Ha & Hx & Hp). destruct (present_entry mt e Hp) as (m & Hm).
  unfold excl_present_b. apply existsb_exists. exists (e, m). split; [exact Hm|]. cbn [fst].
  unfold arg_of in Ha. rewrite Ha. exact Hx.
Qed.

Lemma gc_nonempty_conv mt potential x :
  conflicts_with_args c mt = Some potential -> id_exists c x = true ->
  (exists y, present mt y /\ y <> x /\ (declares c x y \/ declares c y x)) ->
  exists l, gather_conflicts c potential x = Some l /\ l <> [].
Proof.
  intros Hp Hx (y & Py & Hne & Hd).
  destruct (gather_conflicts_some c potential x Hx) as (l & Hl & _). exists l. split; [exact Hl|].
  intros ->. destruct (gc_spec c potential x [] Hl) as (mine & Hmine & Hnil).
  apply (mine_of_spec c mt) in Hmine; [|exact Hp].
  destruct (present_entry mt y Py) as (my & Hmy).
  destruct (proj1 (cwa_spec c mt potential Hp) y my Hmy) as (oc & Hoc & Hgy).
  destruct (proj1 Hnil eq_refl y oc Hoc Hne) as [N1 N2].
  destruct Hd as [Hd|Hd].
  - apply N1. now apply (gather_direct_spec c W x mine Hmine y).
  - apply N2. now apply (gather_direct_spec c W y oc Hgy x).
Qed.

Lemma imr_fold_conv potential : forall gl acc,
  (forall g, In g gl -> exists l, gather_conflicts c potential g = Some l) ->
  (acc = Some true \/ (acc = Some false /\ exists g l, In g gl /\ gather_conflicts c potential g = Some l /\ l <> [])) ->
  fold_left (imr_step c potential) gl acc = Some true.
Proof.
  induction gl as [|g t IH]; intros acc Hall Hacc; cbn [fold_left].
  - destruct Hacc as [->|(_ & g & l & [] & _)]. reflexivity.
  - apply IH; [intros g' Hg'; apply Hall; now right|].
    destruct Hacc as [->|(-> & g' & l' & Hin & Hg' & Hne)]; [left; reflexivity|].
    unfold imr_step. destruct (Hall g (or_introl eq_refl)) as (l & Hl). rewrite Hl.
    destruct l as [|z l0].
    + right. split; [reflexivity|]. destruct Hin as [->|Hin].
      * rewrite Hl in Hg'. injection Hg' as <-. now contradiction Hne.
      * exists g', l'. auto.
    + left. reflexivity.
Qed.

Lemma imr_ok_conv mt potential a :
  conflicts_with_args c mt = Some potential -> In a (c_args c) ->
  excused c (present mt) (a_id a) -> is_missing_required_ok c potential a = Some true.
Proof.
  intros Hp Hin Hex. unfold is_missing_required_ok.
  destruct (gather_conflicts_some c potential (a_id a) (id_exists_arg c a Hin)) as (l & Hl & _).
  rewrite Hl. destruct l as [|z l0]; [|reflexivity]. cbn [is_nil negb].
  fold (imr_step c potential). apply imr_fold_conv.
  - intros g Hg. destruct (gather_conflicts_some c potential g (id_exists_group c _ g Hg)) as (l & Hgl & _). eauto.
  - right. split; [reflexivity|]. destruct Hex as [Hex|(g & y & [Hgin Hmem] & Py & Hne & Hd)].
    + exfalso. destruct (gc_nonempty_conv mt potential (a_id a) Hp (id_exists_arg c a Hin) Hex) as (l & Hl' & Hne).
      rewrite Hl in Hl'. injection Hl' as <-. now apply Hne.
    + assert (Hgg : In (g_id g) (groups_for_arg c (a_id a))).
      { unfold groups_for_arg. apply in_map. apply filter_In. split; [exact Hgin|]. now apply mem_id_In. }
      destruct (gc_nonempty_conv mt potential (g_id g) Hp (id_exists_group c _ _ Hgg)) as (l & Hl' & Hnel).
      { exists y. auto. }
      exists (g_id g), l. auto.
Qed.

Hypothesis A : assert_app c = true.

Lemma assert_app_find_arg a : In a (c_args c) -> find_arg c (a_id a) = Some a.
Proof.
  intros Hin. destruct (assert_app_arg c a A Hin) as [_ Hc]. apply Nat.ltb_lt in Hc.
  destruct (find_arg_of_in c a Hin) as [a' Ha']. rewrite Ha'. f_equal.
  unfold find_arg in Ha'. eapply count_lt2_unique; [exact Ha'|exact Hin|apply beq_refl|exact Hc].
Qed.

(** the static clause of (R3), as a hypothesis on a matcher *)
Definition R3s (mt : matcher) : Prop := forall i a,
  arg_of c i a -> a_required a = true ->
  present mt i \/ exclusive_present c (present mt) \/ excused c (present mt) i.

Lemma cond_b_static mt a : In a (c_args c) -> cond_b mt a = false.
Proof.
  intros Hin. destruct (static_arg a Hin) as (_ & E1 & E2 & E3 & E4). unfold cond_b.
  rewrite E1, E2, E3, E4. reflexivity.
Qed.

Theorem missing_required_complete_static mt potential :
  conflicts_with_args c mt = Some potential ->
  (forall p, In p (positionals c) -> a_index p <> None) ->
  R3s mt -> missing_required c mt potential = Some [].
Proof.
  intros Hp Hpos H3. rewrite missing_required_unfold, gather_requires_static.
  assert (S1 : forall l, (forall x, In x l -> In x (required_graph c)) ->
            fold_left (mr_step1 c mt potential (excl_present_b c mt)) l (Some ([], 0)) = Some ([], 0)).
  { induction l as [|x t IH]; intros Hl; cbn [fold_left]; [reflexivity|].
    replace (mr_step1 c mt potential (excl_present_b c mt) (Some ([], 0)) x) with (Some (@nil id, 0));
      [apply IH; intros y Hy; apply Hl; now right|].
    destruct (required_graph_static x (Hl x (or_introl eq_refl))) as (a & Hin & Hr & ->).
    unfold mr_step1. destruct (check_explicit mt (a_id a) PIsPresent) eqn:Ec; [reflexivity|].
    rewrite (assert_app_find_arg a Hin).
    destruct (H3 (a_id a) a (assert_app_find_arg a Hin) Hr) as [Hpr|[Hex|Hex]].
    - apply present_spec in Hpr. congruence.
    - rewrite (excl_present_conv mt Hex). reflexivity.
    - destruct (excl_present_b c mt); [reflexivity|]. rewrite (imr_ok_conv mt potential a Hp Hin Hex). reflexivity. }
  rewrite S1; [|auto].
  assert (S2 : forall l, (forall a, In a l -> In a (c_args c)) ->
            fold_left (mr_step2 mt (excl_present_b c mt)) l ([], 0) = ([], 0)).
  { induction l as [|a t IH]; intros Hl; cbn [fold_left]; [reflexivity|].
    replace (mr_step2 mt (excl_present_b c mt) ([], 0) a) with (@nil id, 0);
      [apply IH; intros y Hy; apply Hl; now right|].
    unfold mr_step2. destruct (check_explicit mt (a_id a) PIsPresent); [reflexivity|].
    rewrite (cond_b_static mt a (Hl a (or_introl eq_refl))), andb_false_r. reflexivity. }
  rewrite S2; [|auto].
  assert (S3 : forall l, (forall p, In p l -> In p (positionals c)) ->
            fold_left (mr_step3 mt 0) l [] = []).
  { induction l as [|p t IH]; intros Hl; cbn [fold_left]; [reflexivity|].
    replace (mr_step3 mt 0 [] p) with (@nil id); [apply IH; intros y Hy; apply Hl; now right|].
    unfold mr_step3. destruct (check_explicit mt (a_id p) PIsPresent); [reflexivity|].
    destruct (a_index p) as [i|] eqn:Ei; [|exfalso; now apply (Hpos p (Hl p (or_introl eq_refl)))].
    destruct (i <? 0) eqn:El; [apply N.ltb_lt in El; lia|reflexivity]. }
  rewrite S3; [|auto]. destruct (negb (is_set s_allow_missing_pos c)); reflexivity.
Qed.

(** the validator accepts every matcher that satisfies the specification (class [static_only]) *)
Theorem validate_complete_static mt :
  fm_wf mt -> keys_ok c (mt_args mt) ->
  (forall p, In p (positionals c) -> a_index p <> None) ->
  negb (is_some (mt_sub mt)) && is_set s_arg_required_else_help c && is_nil (explicit_entries mt) = false ->
  negb (is_some (mt_sub mt)) && is_set s_sub_required c = false ->
  Relations c mt -> validate c mt = VOk.
Proof.
  intros Wm Hk Hpos Hh Hs R. unfold validate.
  destruct (conflicts_with_args_some c mt Hk) as (pot & Hp & _). rewrite Hp, Hh, Hs.
  rewrite (validate_conflicts_complete mt pot Wm Hp (rel_conflicts c mt _ R) (rel_exclusive c mt _ R)).
  destruct (is_set s_subs_negate_reqs c && is_some (mt_sub mt)) eqn:En; [reflexivity|].
  rewrite (missing_required_complete_static mt pot Hp Hpos); [reflexivity|].
  intros i a Ha Hr. destruct (find_arg_id c i a Ha) as [Hid Hin].
  assert (HR : Required c mt (present mt) i). { rewrite <- Hid. now apply Rq_static. }
  apply (proj1 (rel_required c mt _ R En i HR) a Ha).
Qed.
End Complete.

(** exactness on the class: the validator IS the specification *)
Theorem validate_iff_static c mt :
  assert_app c = true -> static_only c = true -> fm_wf mt -> keys_ok c (mt_args mt) ->
  (forall p, In p (positionals c) -> a_index p <> None) ->
  negb (is_some (mt_sub mt)) && is_set s_arg_required_else_help c && is_nil (explicit_entries mt) = false ->
  negb (is_some (mt_sub mt)) && is_set s_sub_required c = false ->
  (validate c mt = VOk <-> Relations c mt).
Proof.
  intros A SO Wm Hk Hpos Hh Hs. split.
  - now apply validate_sound.
  - apply validate_complete_static; auto. now apply assert_app_rel_wf.
Qed.

(** ** non-vacuity: a [static_only] definition with a conflict, a required arg with an excusing
       conflict, an exclusive arg and a non-multiple group; an accepted and a rejected matcher *)
Definition keys_ok_b (c : cmd) (mt : matcher) : bool := forallb (fun p => id_exists c (fst p)) (mt_args mt).
Lemma keys_ok_b_sound c mt : keys_ok_b c mt = true -> keys_ok c (mt_args mt).
Proof. unfold keys_ok_b, keys_ok. rewrite forallb_forall. intros H i m Hin. apply (H (i, m) Hin). Qed.
Definition pos_indexed_b (c : cmd) : bool := forallb (fun p => is_some (a_index p)) (positionals c).
Lemma pos_indexed_b_sound c : pos_indexed_b c = true -> forall p, In p (positionals c) -> a_index p <> None.
Proof.
  unfold pos_indexed_b. rewrite forallb_forall. intros H p Hin E. specialize (H p Hin). rewrite E in H. discriminate.
Qed.

Definition s_cmd : cmd :=
  cmd_new [112]
    <| c_args := [wflag i_a [97;97] <| a_blacklist := [i_b] |>; wflag i_b [98;98]; wflag i_c [99;99];
                  wflag i_r [114;114] <| a_required := true |> <| a_blacklist := [i_k] |>;
                  wflag i_k [107;107]; wflag i_e [101;101] <| a_exclusive := true |>] |>
    <| c_groups := [group_new i_g <| g_args := [i_a; i_c] |>] |>.

Example static_nonvacuous :
  valid s_cmd = true /\ static_only (build_self s_cmd) = true /\ pos_indexed_b (build_self s_cmd) = true
  /\ (exists st, run_level s_cmd [dd [107;107]; dd [99;99]] = ROk st
                 /\ fm_wf_b (mt st) = true /\ keys_ok_b (build_self s_cmd) (mt st) = true
                 /\ validate (build_self s_cmd) (mt st) = VOk)
  /\ (exists e st, run_level s_cmd [dd [97;97]; dd [98;98]; dd [114;114]] = RErr e st
                 /\ fm_wf_b (mt st) = true /\ keys_ok_b (build_self s_cmd) (mt st) = true
                 /\ validate (build_self s_cmd) (mt st) = VErr EArgumentConflict i_a)
  /\ (exists e st, run_level s_cmd [dd [97;97]] = RErr e st
                 /\ validate (build_self s_cmd) (mt st) = VErr EMissingRequiredArgument i_r).
Proof.
  split; [vm_compute; reflexivity|]. split; [vm_compute; reflexivity|]. split; [vm_compute; reflexivity|].
  split; [eexists; split; [vm_compute; reflexivity|]; repeat split; vm_compute; reflexivity|].
  split; do 2 eexists; (split; [vm_compute; reflexivity|]); repeat split; vm_compute; reflexivity.
Qed.
