(** Property C03, round 3: a dedicated traversal of one parser level for state predicates that are
    NOT closed under arbitrary removal of entries (so [closedP] of Totality.v cannot carry them),
    and its instance: coherence of the group entries.

    Part 1 ([LoopInv]): a predicate [J] on parser states that reads only the entries of the matcher
    and is preserved by one whole [react] on a command-line occurrence and by [resolve_pending] is
    preserved by the token loop [parse_loop] (partial correctness: nothing is claimed about error
    states and panics -- C01 excludes the latter).
    Part 2 ([Coh]): outside the two finding families ([group_safe]) "every group's own entry is
    explicit iff one of its members is" is such a predicate: [react_core] removes the occurring
    argument's own entry and [start_custom_arg] rebuilds it together with the entries of its groups
    before anything else looks at the matcher; the default-source calls only run for absent ids
    and add no explicit entry.
    Part 3: through [get_matches_with] (any level, any depth) and [do_parse]: outside the families
    every successful level ends in a coherent matcher, hence satisfies the member-based reading
    [RelationsM] of the property. *)
From Coq Require Import ZArith List Bool Lia.
Import ListNotations.
From ClapModel Require Import Base.Bytes Base.Machine Base.Utf8 Lex.OsStrExtModel.
From ClapModel Require Import Parse.Cmd Parse.Build Parse.Valid Parse.Matcher Parse.Errors Parse.Validator Parse.Parser.
From ClapModel Require Import ParseProofs.Safe ParseProofs.Invariant ParseProofs.Totality ParseProofs.TotalityMain ParseProofs.IndexInv.
From ClapModel Require Import ParseProofs.Relations ParseProofs.Dispatch ParseProofs.RelationsTree
                              ParseProofs.RelationsFamilies ParseProofs.RelationsCoherent.
From ClapModel Require ParseProofs.Spelling.
From RecordUpdate Require Import RecordSet.
Import RecordSetNotations.
Open Scope N_scope.

Notation pc := ClapModel.ParseProofs.Dispatch.holds.
Definition anyE : ps -> Prop := fun _ => True.

(** * Part 1: the generic traversal of the token loop *)
Lemma pending_values_push_args m i idn tr v m' :
  pending_values_push m i idn tr v = Some m' -> mt_args m' = mt_args m.
Proof.
  unfold pending_values_push. cbv zeta.
  destruct (negb (beq _ i)); [discriminate|].
  destruct (is_some idn && _); [discriminate|].
  intros H. injection H as <-. reflexivity.
Qed.
Lemma start_trailing_args m : mt_args (start_trailing m) = mt_args m.
Proof. unfold start_trailing. destruct (mt_pending m); reflexivity. Qed.

Section LoopInv.
Variable c : cmd.
Variable J : ps -> Prop.
Hypothesis J_args : forall st st', mt_args (mt st') = mt_args (mt st) -> J st -> J st'.
Hypothesis J_react : forall idn a raw ti st, In a (c_args c) -> J st ->
  pc (fun x => J (fst x)) anyE (react c idn SCmdLine a raw ti st).
Hypothesis J_resolve : forall st, J st -> pc J anyE (resolve_pending c st).

Lemma rpi_any st : pc (fun _ : ps => True) anyE (resolve_pending_ignore c st).
Proof. unfold resolve_pending_ignore. destruct (resolve_pending c st); exact I. Qed.

Lemma state_arg_any pst : pc (fun _ => True) anyE (state_arg c pst : res (option arg)).
Proof. destruct pst as [|i|i]; cbn; try exact I; destruct (find_arg c i); cbn; exact I. Qed.

Lemma J_push st m i idn tr v : J st -> pending_values_push (mt st) i idn tr v = Some m -> J (st <| mt := m |>).
Proof. intros Hj Hm. apply (J_args st); [|exact Hj]. cbn. exact (pending_values_push_args _ _ _ _ _ _ Hm). Qed.

Lemma parse_opt_value_J idn attached a has_eq st : In a (c_args c) ->
  J st -> pc (fun x => J (fst x)) anyE (parse_opt_value c idn attached a has_eq st).
Proof.
  intros Hin Hs. unfold parse_opt_value. destruct (a_req_eq a && negb has_eq).
  - eapply holds_bind; [apply holds_expect; intros; exact I|]. intros r _.
    destruct (vmin r =? 0).
    + eapply holds_bind; [apply J_react; [exact Hin|exact Hs]|]. intros x Hx. exact Hx.
    + exact Hs.
  - destruct attached as [v|].
    + eapply holds_bind; [apply J_react; [exact Hin|exact Hs]|]. intros x Hx. exact Hx.
    + eapply holds_bind; [apply J_resolve; exact Hs|]. intros st1 H1.
      eapply holds_bind.
      { apply (holds_expect (fun m => J (st1 <| mt := m |>))). intros m Hm. exact (J_push _ _ _ _ _ _ H1 Hm). }
      intros m Hm. exact Hm.
Qed.

Lemma parse_long_arg_J flag ok value pst pos vaf st :
  J st -> pc (fun x => J (fst (fst x))) anyE (parse_long_arg c flag ok value pst pos vaf st).
Proof.
  intros Hs. unfold parse_long_arg.
  eapply holds_bind; [apply state_arg_any|]. intros sa _.
  destruct (match sa with Some a => a_hyphen a | None => false end); [exact Hs|].
  destruct (negb ok); [exact Hs|].
  destruct (is_nil flag && negb (is_some value)); [exact I|].
  set (found := match get_long c flag with Some a => Some a | None => _ end).
  assert (Hfound : forall a, found = Some a -> In a (c_args c)).
  { subst found. intros a. destruct (get_long c flag) as [a0|] eqn:Eg.
    - intros H; inversion H; subst. exact (proj1 (get_long_in _ _ _ Eg)).
    - destruct (is_set s_infer_long c); [|discriminate]. intros H.
      apply Dispatch.first_unique_in, Dispatch.filter_map_in in H. destruct H as [x [Hin H]].
      destruct (a_is_positional x); [discriminate|].
      assert (x = a).
      { destruct (a_long x); [destruct (is_prefix flag b); [inversion H; reflexivity|]|];
          destruct (existsb _ _); inversion H; reflexivity. }
      subst. exact Hin. }
  destruct found as [a|].
  - pose proof (Hfound a eq_refl) as Hin.
    destruct (a_takes_value a).
    + eapply holds_bind; [apply parse_opt_value_J; [exact Hin|exact Hs]|]. intros x Hx. exact Hx.
    + destruct value as [rest|]; [exact Hs|].
      eapply holds_bind; [apply J_react; [exact Hin|exact Hs]|]. intros x Hx. exact Hx.
  - destruct (possible_long_flag_subcommand c flag); [exact Hs|].
    destruct (match get_pos c pos with Some a => a_hyphen a && negb (a_last a) | None => false end); exact Hs.
Qed.

Lemma J_fs st (f : ps -> ps) : (forall s, mt (f s) = mt s) -> J st -> J (f st).
Proof. intros Hf Hj. apply (J_args st); [rewrite Hf; reflexivity|exact Hj]. Qed.

Lemma short_loop_J : forall fuel r ret vaf st,
  J st -> pc (fun x => J (fst (fst x))) anyE (short_loop c fuel r ret vaf st).
Proof.
  induction fuel as [|f IH]; intros r ret vaf st Hs; cbn [short_loop]; [exact I|].
  destruct (sf_next r) as [[[ch|rest] r']|]; [|exact Hs|exact Hs].
  destruct (get_short c ch) as [a|] eqn:Eg.
  - pose proof (proj1 (get_short_in _ _ _ Eg)) as Hin.
    destruct (negb (a_takes_value a)).
    + eapply holds_bind; [apply J_react; [exact Hin|exact Hs]|]. intros x Hx. apply IH. exact Hx.
    + match goal with |- context [let '(_, _) := ?X in _] => destruct X as [val' has_eq] end.
      eapply holds_bind; [apply parse_opt_value_J; [exact Hin|exact Hs]|]. intros x Hx.
      destruct (snd x); try exact Hx. apply IH. exact Hx.
  - destruct (find_short_subcmd c ch); [|exact Hs].
    eapply holds_bind; [apply J_resolve; exact Hs|]. intros st1 H1. cbn [pc fst].
    apply (J_args st1); [reflexivity|exact H1].
Qed.

Lemma parse_short_arg_J r pst pos vaf st :
  J st -> pc (fun x => J (fst (fst x))) anyE (parse_short_arg c r pst pos vaf st).
Proof.
  intros Hs. unfold parse_short_arg.
  eapply holds_bind; [apply state_arg_any|]. intros sa _.
  destruct (match sa with Some a => a_hyphen a || (a_negnum a && sf_is_negative_number r) | None => false end); [exact Hs|].
  destruct (match get_pos c pos with Some a => a_negnum a | None => false end && sf_is_negative_number r); [exact Hs|].
  destruct (match get_pos c pos with Some a => a_hyphen a && negb (a_last a) | None => false end
            && sf_any_unknown c (S (length r)) r); [exact Hs|].
  eapply holds_bind; [apply holds_expect; intros; exact I|]. intros r0 _.
  apply short_loop_J. apply (J_args st); [reflexivity|exact Hs].
Qed.

Definition lrJ (lr : loop_res) : Prop := J (lr_st lr).

Lemma parse_loop_J : forall toks ls st,
  J st -> pc lrJ anyE (parse_loop c toks ls st).
Proof.
  induction toks as [|tok rest IH]; intros ls st Hs; [exact Hs|].
  cbn [parse_loop].
  match goal with |- pc _ _ (rbind ?ph _) => set (phase1 := ph) end.
  assert (Hph : pc (fun x : option (res loop_res) * lstate * ps =>
                      let '(early, _, st1) := x in
                      match early with
                      | Some r => pc lrJ anyE r
                      | None => J st1 end) anyE phase1).
  { subst phase1. destruct (l_trailing ls); [exact Hs|].
    match goal with |- pc _ _ (match ?o with Some _ => _ | None => _ end) => destruct o as [sc|] end.
    { destruct (beq sc s_help && negb (is_set s_disable_help_sub c)); exact Hs. }
    destruct (is_escape tok).
    { eapply holds_bind; [apply state_arg_any|]. intros sa _.
      destruct (match sa with Some a => a_hyphen a | None => false end); [exact Hs|].
      cbn [pc]. apply IH. apply (J_args st); [|exact Hs]. cbn. apply start_trailing_args. }
    destruct (to_long tok) as [[[f ok] v]|].
    { eapply holds_bind; [apply parse_long_arg_J; exact Hs|].
      intros [[st1 pr] vaf1] H1. cbn [fst snd] in H1 |- *.
      destruct pr; cbn [pc];
        first [ exact H1 | exact I | (apply IH; exact H1)
              | (eapply holds_bind; [apply rpi_any|]; intros st2 _; exact I) ]. }
    destruct (to_short tok) as [r|]; [|exact Hs].
    eapply holds_bind; [apply parse_short_arg_J; exact Hs|].
    intros [[st1 pr] vaf1] H1. cbn [fst snd] in H1.
    destruct pr; cbn [pc];
      first [ exact H1 | exact I | (apply IH; exact H1)
            | (eapply holds_bind; [apply rpi_any|]; intros st2 _; exact I)
            | idtac ].
    (* PRFlagSub through a short cluster: the resume bookkeeping *)
    destruct (fs_at st1) as [at_|]; [|exact H1].
    eapply holds_bind; [apply holds_expect; intros; exact I|]. intros d _. cbn [pc].
    unfold lrJ. cbn [lr_st]. apply (J_args st1); [reflexivity|exact H1]. }
  eapply holds_bind; [exact Hph|]. clear Hph phase1.
  intros [[early ls1] st1] H1. destruct early as [r|]; [exact H1|].
  match goal with
  | |- pc _ _ (match _ with PSValuesDone => ?t | PSOpt _ => _ | PSPos _ => _ end) =>
      assert (Hpos : pc lrJ anyE t)
  end.
  { cbv zeta.
    eapply holds_bind with (Q1 := fun _ : N => True).
    { match goal with |- pc _ _ (if ?b then _ else _) => destruct b end.
      - destruct rest as [|n rest']; [exact I|].
        destruct (List.find _ (positionals c)) as [a|]; [|exact I].
        eapply holds_bind; [eapply holds_weaken; [apply is_new_arg_noerr|intros; exact I|intros ? []]|].
        intros; exact I.
      - match goal with |- pc _ _ (if ?b then _ else _) => destruct b end; exact I. }
    intros pcv _. destruct (get_pos c pcv) as [a|].
    - destruct (a_last a && negb (l_trailing ls1)).
      + eapply holds_bind; [apply rpi_any|]. intros s2 _. exact I.
      + eapply holds_bind with (Q1 := J).
        { match goal with |- pc _ _ (if ?b then _ else _) => destruct b end;
            [apply J_resolve; exact H1 | exact H1]. }
        intros s2 H2. destruct (check_terminator a tok); [apply IH; exact H2|].
        eapply holds_bind.
        { apply (holds_expect (fun m => J (s2 <| mt := m |>))). intros m Hm. exact (J_push _ _ _ _ _ _ H2 Hm). }
        intros m1 Hm1. destruct (negb (a_is_multiple a)); apply IH; exact Hm1.
    - destruct (is_set s_allow_external c).
      + destruct (utf8_valid tok); [exact H1|].
        eapply holds_bind; [apply rpi_any|]. intros s2 _. exact I.
      + eapply holds_bind; [apply rpi_any|]. intros s2 _. exact I. }
  destruct (if l_trailing ls1 then PSValuesDone else l_pst ls1) as [|i|i]; [exact Hpos| |exact Hpos].
  clear Hpos.
  eapply holds_bind; [apply holds_expect; intros; exact I|]. intros a _.
  destruct (check_terminator a tok); [apply IH; exact H1|].
  eapply holds_bind.
  { apply (holds_expect (fun m => J (st1 <| mt := m |>))). intros m Hm. exact (J_push _ _ _ _ _ _ H1 Hm). }
  intros m1 Hm1.
  eapply holds_bind; [apply holds_expect; intros; exact I|]. intros more _.
  apply IH. exact Hm1.
Qed.
End LoopInv.

(** * Part 2: coherence of the group entries is such a predicate, outside the two families *)
Lemma fm_remove_absent {V} (k : id) (l : list (id * V)) : fm_get k l = None -> fst (fm_remove k l) = l.
Proof.
  induction l as [|[k' v] t IH]; cbn [fm_get fm_remove fst]; [reflexivity|].
  destruct (beq k' k); [discriminate|]. intros H. specialize (IH H).
  destruct (fm_remove k t) as [t' b]. cbn [fst] in *. rewrite IH. reflexivity.
Qed.

Lemma ex_args m m' : mt_args m' = mt_args m -> forall i, ex m' i = ex m i.
Proof. intros E i. unfold ex, check_explicit. rewrite E. reflexivity. Qed.

Lemma ex_remove_other m o i : i <> o -> ex (fst (mt_remove m o)) i = ex m i.
Proof. intros Hne. unfold ex, check_explicit. rewrite mt_remove_args, fm_get_remove_other; [reflexivity|exact Hne]. Qed.

Lemma ex_add_index m g k m' : add_index_to m g k = Some m' -> forall i, ex m' i = ex m i.
Proof.
  unfold add_index_to. destruct (fm_get g (mt_args m)) as [mg|] eqn:Eg; [|discriminate].
  intros [= <-] i. unfold ex, check_explicit. rewrite args_set_args, fm_get_update.
  destruct (fm_get i (mt_args m)) as [mi|]; [|reflexivity].
  destruct (beq i g); reflexivity.
Qed.

Lemma push_arg_values_ex c a : forall raw st st',
  push_arg_values c a raw st = ROk st' -> forall i, ex (mt st') i = ex (mt st) i.
Proof.
  induction raw as [|v t IH]; intros st st' H i; cbn [push_arg_values] in H.
  - inversion H; reflexivity.
  - destruct (a_vp a) as [vp|]; cbn [expect rbind] in H; [|discriminate].
    destruct (vp_parse vp v); [discriminate|].
    destruct (add_val_to (mt (ps_bump st)) (a_id a) v) as [m1|] eqn:A; cbn [expect rbind] in H; [|discriminate].
    destruct (add_index_to m1 (a_id a) (cur_idx (ps_bump st))) as [m2|] eqn:B; cbn [expect rbind] in H; [|discriminate].
    rewrite (IH _ _ H i). cbn [mt]. rewrite mt_set.
    rewrite (ex_add_index _ _ _ _ B i), (ex_add_val _ _ _ _ A i). reflexivity.
Qed.

Lemma assert_app_group_not_arg c g : assert_app c = true -> In g (c_groups c) -> find_arg c (g_id g) = None.
Proof.
  intros A Hin. unfold assert_app in A. repeat (apply andb_true_iff in A as [A ?]).
  match goal with Hg : forallb _ (c_groups c) = true |- _ => rename Hg into HG end.
  rewrite forallb_forall in HG. specialize (HG g Hin). repeat (apply andb_true_iff in HG as [HG ?]).
  match goal with Hn : negb (is_some (find_arg c (g_id g))) = true |- _ =>
    destruct (find_arg c (g_id g)); [discriminate Hn | reflexivity] end.
Qed.

Section Coh.
Variable c : cmd.
Hypothesis W3 : forall a, In a (c_args c) -> find_arg c (a_id a) = Some a.
Hypothesis Wf : rel_wf c = true.
Hypothesis GS : group_safe c = true.
Hypothesis NA : forall g, In g (c_groups c) -> find_arg c (g_id g) = None.

(** every group's own entry is explicit iff one of its members is *)
Definition Coh (m : matcher) : Prop := forall g, In g (c_groups c) -> cohg m g.

Lemma cohg_ext m m' g : (forall i, ex m' i = ex m i) -> cohg m g -> cohg m' g.
Proof.
  intros E H. apply cohg_ex. apply cohg_ex in H. rewrite E, H.
  split; intros (k & Hk & Hp); exists k; (split; [exact Hk|]); [rewrite E|rewrite <- E]; exact Hp.
Qed.
Lemma Coh_ext m m' : (forall i, ex m' i = ex m i) -> Coh m -> Coh m'.
Proof. intros E H g Hg. exact (cohg_ext m m' g E (H g Hg)). Qed.

Lemma Coh_new : Coh matcher_new.
Proof.
  intros g _. apply cohg_ex. unfold ex, check_explicit. cbn. split; [discriminate|intros (k & _ & H); discriminate].
Qed.

(** [react]'s removal of the occurring argument's own entry leaves every group that does not
    contain it coherent *)
Lemma cohg_remove_self a m g : In a (c_args c) -> In g (c_groups c) -> ~ In (a_id a) (g_args g) ->
  cohg m g -> cohg (fst (mt_remove m (a_id a))) g.
Proof.
  intros Ha Hg Hnm H. apply cohg_ex. apply cohg_ex in H.
  assert (Hgid : g_id g <> a_id a).
  { intros E. pose proof (NA g Hg) as Hn. rewrite E, (W3 a Ha) in Hn. discriminate. }
  rewrite (ex_remove_other m (a_id a) (g_id g) Hgid), H.
  split; intros (k & Hk & Hp); exists k; (split; [exact Hk|]).
  - rewrite ex_remove_other; [exact Hp|]. intros ->. exact (Hnm Hk).
  - rewrite ex_remove_other in Hp; [exact Hp|]. intros ->. exact (Hnm Hk).
Qed.

(** the default source adds an entry that is not explicit, for an absent id *)
Lemma sca_default_ex a m m' : fm_get (a_id a) (mt_args m) = None ->
  start_custom_arg c a SDefault m = ROk m' -> forall i, ex m' i = ex m i.
Proof.
  intros Hn. unfold start_custom_arg. cbn [src_explicit]. intros [= <-] i.
  unfold start_custom_arg_m, ex, check_explicit. rewrite args_set_args.
  destruct (beq i (a_id a)) eqn:E.
  - apply beq_eq in E. subst i. rewrite Hn.
    unfold fm_entry_or_insert, fm_contains. rewrite Hn. cbn [is_some].
    rewrite (fm_get_app_new (a_id a) (mt_args m) _ Hn). reflexivity.
  - apply beq_neq in E. rewrite fm_get_eoi_ne; [reflexivity|exact E].
Qed.

(** the group-handling step on a matcher from which at most the occurring argument's own entry
    has been removed *)
Lemma sca_coh a s m m' : In a (c_args c) ->
  (forall g, In g (c_groups c) -> ~ In (a_id a) (g_args g) -> cohg m g) ->
  (src_explicit s = false -> Coh m /\ fm_get (a_id a) (mt_args m) = None) ->
  start_custom_arg c a s m = ROk m' -> Coh m'.
Proof.
  intros Ha Hpart Hdef Hrun. destruct (src_explicit s) eqn:Es.
  - intros g Hg. exact (start_custom_arg_coherent c a s m m' Wf GS (W3 a Ha) NA Es Hpart Hrun g Hg).
  - destruct (Hdef eq_refl) as [Hc Hn]. destruct s; try discriminate.
    exact (Coh_ext m m' (sca_default_ex a m m' Hn Hrun) Hc).
Qed.

Definition src_ok (s : src) (a : arg) (m : matcher) : Prop :=
  src_explicit s = true \/ fm_get (a_id a) (mt_args m) = None.

Lemma occ_remove_coh a s m m1 rem m' : In a (c_args c) -> src_ok s a m -> Coh m ->
  mt_remove m (a_id a) = (m1, rem) -> start_custom_arg c a s m1 = ROk m' -> Coh m'.
Proof.
  intros Ha Hs Hc Hr Hrun. assert (E1 : m1 = fst (mt_remove m (a_id a))) by (rewrite Hr; reflexivity).
  apply (sca_coh a s m1 m' Ha); [| |exact Hrun].
  - intros g Hg Hnm. rewrite E1. apply cohg_remove_self; auto.
  - intros Es. destruct Hs as [Hs|Hn]; [congruence|].
    assert (Ea : mt_args m1 = mt_args m).
    { rewrite E1, mt_remove_args. apply fm_remove_absent. exact Hn. }
    split; [|rewrite Ea; exact Hn]. exact (Coh_ext m m1 (ex_args m m1 Ea) Hc).
Qed.

Lemma occ_keep_coh a s m m' : In a (c_args c) -> src_ok s a m -> Coh m ->
  start_custom_arg c a s m = ROk m' -> Coh m'.
Proof.
  intros Ha Hs Hc Hrun. apply (sca_coh a s m m' Ha); [| |exact Hrun].
  - intros g Hg _. exact (Hc g Hg).
  - intros Es. destruct Hs as [Hs|Hn]; [congruence|]. split; assumption.
Qed.

Lemma bump_if_mt (b : bool) st : mt (if b then ps_bump st else st) = mt st.
Proof. destruct b; reflexivity. Qed.

(** one whole occurrence *)
Lemma react_core_coh idn s a raw ti st st' pr : In a (c_args c) -> src_ok s a (mt st) -> Coh (mt st) ->
  react_core c idn s a raw ti st = ROk (st', pr) -> Coh (mt st').
Proof.
  intros Ha Hs Hc. unfold react_core.
  destruct (if is_cmdline s then verify_num_args c a raw st else ROk tt) as [[]|e0 s0|n0]; cbn [rbind]; try discriminate.
  destruct (match raw with [] => if negb (is_nil (a_default_missing a)) then (a_default_missing a, None) else (raw, ti)
                         | _ => (raw, ti) end) as [raw1 ti1].
  destruct (delimit c a raw1 ti1) as [raw2|]; cbn [expect rbind]; [|discriminate].
  assert (SL : forall (rw : list bytes) (bump : bool),
    (let st := if bump && is_cmdline s && is_flag_ident idn then ps_bump st else st in
      let '(m1, removed) := mt_remove (mt st) (a_id a) in
      let st := st <| mt := m1 |> in
      if removed && negb (is_set s_args_override_self c || mem_id (a_id a) (a_overrides a))
      then RErr (mkerr c EArgumentConflict (a_id a)) st
      else do m2 <- start_custom_arg c a s m1;
           do st' <- push_arg_values c a rw (st <| mt := m2 |>);
           ROk (st', PRValuesDone)) = ROk (st', pr) ->
    Coh (mt st')).
  { intros rw bump. cbv zeta. rewrite bump_if_mt.
    destruct (mt_remove (mt st) (a_id a)) as [m1 removed] eqn:R.
    destruct (removed && negb _); [discriminate|].
    destruct (start_custom_arg c a s m1) as [m2|e1 s1|n1] eqn:SC; cbn [rbind]; try discriminate.
    destruct (push_arg_values c a rw _) as [st2|e2 s2|n2] eqn:PV; cbn [rbind]; try discriminate.
    intros H; inversion H; subst.
    apply (Coh_ext m2); [intros i; rewrite (push_arg_values_ex c a _ _ _ PV i); reflexivity|].
    exact (occ_remove_coh a s (mt st) m1 removed m2 Ha Hs Hc R SC). }
  destruct (a_get_action a); try discriminate.
  - apply SL.
  - rewrite bump_if_mt.
    destruct (start_custom_arg c a s (mt st)) as [m2|e1 s1|n1] eqn:SC; cbn [rbind]; try discriminate.
    destruct (push_arg_values c a raw2 _) as [st2|e2 s2|n2] eqn:PV; cbn [rbind]; try discriminate.
    intros H; inversion H; subst.
    apply (Coh_ext m2); [intros i; rewrite (push_arg_values_ex c a _ _ _ PV i); reflexivity|].
    exact (occ_keep_coh a s (mt st) m2 Ha Hs Hc SC).
  - apply SL.
  - apply SL.
  - destruct (mt_remove (mt st) (a_id a)) as [m1 rem] eqn:R.
    destruct (start_custom_arg c a s m1) as [m2|e1 s1|n1] eqn:SC; cbn [rbind]; try discriminate.
    destruct (push_arg_values c a _ _) as [st2|e2 s2|n2] eqn:PV; cbn [rbind]; try discriminate.
    intros H; inversion H; subst.
    apply (Coh_ext m2); [intros i; rewrite (push_arg_values_ex c a _ _ _ PV i); reflexivity|].
    exact (occ_remove_coh a s (mt st) m1 rem m2 Ha Hs Hc R SC).
Qed.

Lemma resolve_pending_coh st st1 : Coh (mt st) -> resolve_pending c st = ROk st1 -> Coh (mt st1).
Proof.
  intros Hc. unfold resolve_pending. destruct (mt_pending (mt st)) as [p|].
  - destruct (find_arg c (p_id p)) as [a|] eqn:Ef; cbn [expect rbind]; [|discriminate].
    destruct (react_core c _ _ _ _ _ _) as [[st' pr]|e s|n] eqn:R; cbn [rbind]; try discriminate.
    intros H; inversion H; subst. cbn [fst].
    refine (react_core_coh _ _ _ _ _ _ _ _ _ _ _ R); [exact (proj1 (find_arg_some _ _ _ Ef))|left; reflexivity|exact Hc].
  - intros H; inversion H; subst. exact Hc.
Qed.

Lemma react_coh idn s a raw ti st x : In a (c_args c) -> src_explicit s = true -> Coh (mt st) ->
  react c idn s a raw ti st = ROk x -> Coh (mt (fst x)).
Proof.
  intros Ha Hs Hc. unfold react.
  destruct (resolve_pending c st) as [st1|e s0|n] eqn:RP; cbn [rbind]; try discriminate.
  destruct x as [st' pr]. intros R. cbn [fst].
  refine (react_core_coh _ _ _ _ _ _ _ _ _ _ _ R); [exact Ha|left; exact Hs|exact (resolve_pending_coh st st1 Hc RP)].
Qed.

(** the token loop *)
Definition CohS (st : ps) : Prop := Coh (mt st).

Lemma parse_loop_coh toks ls st : CohS st -> pc (fun lr => CohS (lr_st lr)) anyE (parse_loop c toks ls st).
Proof.
  apply (parse_loop_J c CohS).
  - intros s1 s2 E H. exact (Coh_ext (mt s1) (mt s2) (ex_args (mt s1) (mt s2) E) H).
  - intros idn a raw ti s1 Ha H. destruct (react c idn SCmdLine a raw ti s1) as [x|e s0|n] eqn:R; cbn [pc]; try exact I.
    exact (react_coh idn SCmdLine a raw ti s1 x Ha eq_refl H R).
  - intros s1 H. destruct (resolve_pending c s1) as [s2|e s0|n] eqn:R; cbn [pc]; try exact I.
    exact (resolve_pending_coh s1 s2 H R).
Qed.

(** the phases after the loop: environment (explicit source, absent ids), defaults (absent ids,
    no pending occurrence left) *)
Lemma fold_res_pc {X} (Jx : ps -> Prop) (f : ps -> X -> res ps) (l : list X) (Q : X -> Prop) :
  (forall st x, Q x -> Jx st -> pc Jx anyE (f st x)) -> Forall Q l ->
  forall r, pc Jx anyE r -> pc Jx anyE (fold_left (fun rst x => do st <- rst; f st x) l r).
Proof.
  intros Hf. induction l as [|x t IH]; intros HQ r Hr; cbn [fold_left]; [exact Hr|].
  inversion HQ as [|? ? Hx Ht]; subst.
  apply IH; [exact Ht|]. eapply holds_bind; [exact Hr|]. intros st Hst. apply Hf; assumption.
Qed.

Definition CohD (st : ps) : Prop := Coh (mt st) /\ mt_pending (mt st) = None.

Lemma react_clears idn s a raw ti st x : react c idn s a raw ti st = ROk x -> mt_pending (mt (fst x)) = None.
Proof.
  unfold react. destruct (resolve_pending c st) as [s1|e s0|n] eqn:RP; cbn [rbind]; try discriminate.
  intros H. destruct x as [st' pr]. cbn [fst]. rewrite (Spelling.react_core_pending _ _ _ _ _ _ _ _ _ H).
  exact (Spelling.resolve_pending_clears c st s1 RP).
Qed.

Lemma add_env_coh st : CohD st -> pc CohD anyE (add_env c st).
Proof.
  intros Hs. unfold add_env.
  apply (fold_res_pc CohD (fun st a => if mt_contains (mt st) (a_id a) then ROk st
       else match a_env a with Some v => do x <- react c None SEnv a [v] None st; ROk (fst x) | None => ROk st end)
       (c_args c) (fun a => In a (c_args c))); [|apply Forall_forall; auto|exact Hs].
  intros st0 a Ha H0. destruct (mt_contains _ _); [exact H0|]. destruct (a_env a) as [v|]; [|exact H0].
  destruct (react c None SEnv a [v] None st0) as [x|e s0|n] eqn:R; cbn [rbind pc]; try exact I.
  split; [exact (react_coh None SEnv a [v] None st0 x Ha eq_refl (proj1 H0) R)|exact (react_clears _ _ _ _ _ _ _ R)].
Qed.

Lemma react_default_coh a raw st : In a (c_args c) -> mt_contains (mt st) (a_id a) = false -> CohD st ->
  pc CohD anyE (do x <- react c None SDefault a raw None st; ROk (fst x)).
Proof.
  intros Ha Hn [Hc Hp]. unfold react, resolve_pending. rewrite Hp. cbn [rbind].
  destruct (react_core c None SDefault a raw None st) as [[st' pr]|e s0|n] eqn:R; cbn [rbind pc fst]; try exact I.
  split.
  - refine (react_core_coh _ _ _ _ _ _ _ _ _ _ _ R); [exact Ha| |exact Hc].
    right. unfold mt_contains, fm_contains in Hn. destruct (fm_get (a_id a) (mt_args (mt st))); [discriminate|reflexivity].
  - rewrite (Spelling.react_core_pending _ _ _ _ _ _ _ _ _ R). exact Hp.
Qed.

Lemma add_default_value_coh a st : In a (c_args c) -> CohD st -> pc CohD anyE (add_default_value c a st).
Proof.
  intros Ha Hs. unfold add_default_value.
  assert (Hplain : pc CohD anyE (if negb (is_nil (a_default a)) then
      if mt_contains (mt st) (a_id a) then ROk st
      else do x <- react c None SDefault a (a_default a) None st; ROk (fst x) else ROk st)).
  { destruct (negb _); [|exact Hs]. destruct (mt_contains _ _) eqn:Em; [exact Hs|].
    apply react_default_coh; assumption. }
  destruct (negb (is_nil (a_default_ifs a)) && negb (mt_contains (mt st) (a_id a))) eqn:Eb; [|exact Hplain].
  apply andb_true_iff in Eb as [_ Eb]. apply negb_true_iff in Eb.
  destruct (List.find _ _) as [[[i p] [d|]]|]; [| exact Hs | exact Hplain].
  apply react_default_coh; assumption.
Qed.

Lemma add_defaults_coh st : CohD st -> pc CohD anyE (add_defaults c st).
Proof.
  intros Hs. unfold add_defaults.
  apply (fold_res_pc CohD (fun st a => add_default_value c a st) (c_args c) (fun a => In a (c_args c)));
    [|apply Forall_forall; auto|exact Hs].
  intros st0 a Ha H0. apply add_default_value_coh; assumption.
Qed.

(** one level: a successful [get_matches_with] that starts from a coherent matcher ends in one *)
Theorem gmw_coh f toks st0 st : Coh (mt st0) ->
  get_matches_with (S f) c toks st0 = ROk st -> Coh (mt st).
Proof.
  intros H0. rewrite gmw_unfold. intros H.
  destruct (parsed_of f c toks st0) as [stp|e stp|x] eqn:Ep.
  - assert (Hp : Coh (mt stp)).
    { unfold parsed_of in Ep. pose proof (parse_loop_coh toks (mkL PSValuesDone 1 false false) st0 H0) as Hl.
      destruct (parse_loop c toks _ st0) as [lr|e l|x]; cbn [rbind] in Ep; [|discriminate|discriminate].
      cbn [pc] in Hl. destruct lr as [st1|name keep vaf st1 rest|name vals st1|names st1]; cbn [lr_st] in Hl.
      - inversion Ep; subst. exact Hl.
      - unfold after_sub in Ep. destruct (_ && _); [discriminate|].
        destruct (find_subcommand c name) as [sc0|]; cbn [expect rbind] in Ep; [|discriminate].
        destruct (build_subcommand c (c_name sc0)) as [sc|]; [|inversion Ep; subst; exact Hl].
        destruct (negb (assert_app sc)); [discriminate|].
        destruct (get_matches_with f sc rest (sub_init keep st1)) as [sub_st|e sub_st|x]; [| |discriminate].
        + inversion Ep; subst. exact Hl.
        + destruct (is_set s_ignore_errors c); [|discriminate]. inversion Ep; subst. exact Hl.
      - pose proof (external_verbatim c name vals st1) as Hx. rewrite Ep in Hx. cbn [pc] in Hx. subst stp. exact Hl.
      - discriminate. }
    cbn [post] in H.
    pose proof (fun s1 => resolve_pending_coh stp s1 Hp) as H1.
    destruct (resolve_pending c stp) as [s1|e1 x1|n1] eqn:R1; cbn [rbind] in H; try discriminate.
    specialize (H1 s1 eq_refl).
    pose proof (add_env_coh s1 (conj H1 (Spelling.resolve_pending_clears c stp s1 R1))) as H2.
    destruct (add_env c s1) as [s2|e2 x2|n2] eqn:R2; cbn [rbind] in H; try discriminate. cbn [pc] in H2.
    pose proof (add_defaults_coh s2 H2) as H3.
    destruct (add_defaults c s2) as [s3|e3 x3|n3] eqn:R3; cbn [rbind] in H; try discriminate. cbn [pc] in H3.
    unfold vres_to_res in H. destruct (validate c (mt s3)); try discriminate. inversion H; subst. exact (proj1 H3).
  - exfalso. cbn [post] in H. destruct (is_set s_ignore_errors c); [|discriminate].
    destruct (resolve_pending c stp) as [s0|e0 s0|x0]; [| |discriminate];
      (destruct (add_env c s0) as [s1|e1 s1|x1]; [| |discriminate];
        (destruct (add_defaults c s1) as [s2|e2 s2|x2]; discriminate)).
  - discriminate.
Qed.
End Coh.

(** * Part 3: every level of a successful parse *)
Lemma Coh_coherent c m : Coh c m -> coherent c m.
Proof.
  intros H x g [_ Hg]. destruct (find_group_id c x g Hg) as [Hid Hin]. specialize (H g Hin).
  unfold cohg in H. rewrite Hid in H. exact H.
Qed.

Lemma RelationsM_of c mt : coherent c mt -> Relations c mt -> RelationsM c mt.
Proof. intros Hc R. apply (RelationsP_ext c mt (present mt)); [apply coherent_presentM; exact Hc|exact R]. Qed.

Lemma coherent_level c mt : coherent c mt -> coherent c (level_matcher (into_inner mt)).
Proof. intros H x g Hg. exact (H x g Hg). Qed.

(** any level of the recursion, any depth: outside the two families a successful level that starts
    from a coherent matcher (the parser starts every level from the empty one) ends in a coherent
    matcher ... *)
Theorem level_coherent fuel c toks st0 st :
  tree_ok fuel c -> group_safe c = true -> Coh c (mt st0) ->
  get_matches_with fuel c toks st0 = ROk st -> Coh c (mt st).
Proof.
  destruct fuel as [|f]; [intros []|]. intros [Hw [Happ _]] GS H0 Hr.
  destruct Hw as [_ [_ [W3 _]]].
  apply (gmw_coh c W3 (assert_app_rel_wf c Happ) GS (fun g Hg => assert_app_group_not_arg c g Happ Hg) f toks st0 st H0 Hr).
Qed.

Theorem level_coherent_b fuel c toks st0 st :
  tree_ok fuel c -> group_safe c = true -> coherent_b c (mt st0) = true ->
  get_matches_with fuel c toks st0 = ROk st -> coherent_b c (mt st) = true.
Proof.
  intros Hok GS H0 Hr. destruct fuel as [|f]; [destruct Hok|]. pose proof Hok as [_ [Happ _]].
  apply (coherent_b_complete c (mt st) Happ). apply Coh_coherent.
  apply (level_coherent (S f) c toks st0 st Hok GS); [|exact Hr].
  intros g Hg. pose proof (coherent_b_sound c (mt st0) H0) as Hc.
  destruct (rel_wf_group c g (assert_app_rel_wf c Happ) Hg) as [Hfg _].
  exact (Hc (g_id g) g (conj (assert_app_group_not_arg c g Happ Hg) Hfg)).
Qed.

(** ... and therefore satisfies the member-based reading of the property *)
Theorem level_members fuel c toks st0 st :
  tree_ok fuel c -> group_safe c = true -> G c idx_inv trivV st0 -> Coh c (mt st0) ->
  get_matches_with fuel c toks st0 = ROk st -> RelationsM c (mt st).
Proof.
  intros Hok GS HG H0 Hr. apply RelationsM_of.
  - apply Coh_coherent. exact (level_coherent fuel c toks st0 st Hok GS H0 Hr).
  - exact (level_relations fuel c toks st0 st Hok HG Hr).
Qed.

(** the whole parse, root level *)
Theorem parse_members c0 toks m :
  plain c0 = true -> valid c0 = true -> group_safe (build_self c0) = true ->
  do_parse c0 toks = OOk m -> is_set s_ignore_errors (build_self c0) = false ->
  exists st, run_level c0 toks = ROk st /\ m = reported c0 st
             /\ coherent_b (build_self c0) (mt st) = true /\ RelationsM (build_self c0) (mt st).
Proof.
  intros Hp Hv GS Hd Hi. destruct (do_parse_sound c0 toks m Hd Hi) as [st [Hr [Hm _]]].
  exists st. split; [exact Hr|]. split; [exact Hm|].
  unfold run_level in Hr. cbv zeta in Hr. pose proof Hv as Hv'. unfold valid in Hv'. cbv zeta in Hv'.
  pose proof (tree_ok_of_valid _ _ Hp Hv') as Hok.
  assert (HG : G (build_self c0) idx_inv trivV ps_new).
  { apply G_ps_new. destruct (idx_inv_closed (build_self c0)) as [_ [_ [_ [_ [_ H0]]]]]. exact H0. }
  split.
  - apply (level_coherent_b _ _ toks ps_new st Hok GS); [|exact Hr].
    unfold coherent_b. apply forallb_forall. intros g _. cbn. destruct (existsb _ (g_args g)) eqn:E; [|reflexivity].
    apply existsb_exists in E. destruct E as [k [_ E]]. discriminate.
  - apply (level_members _ _ toks ps_new st Hok GS HG); [|exact Hr]. apply Coh_new.
Qed.

(** ** the chain: hypotheses only ALONG the reported chain
    [along_b q c m]: [q] holds of every level of the chain of subcommands recorded in [m] (the
    level's built definition, and whether the level recorded a subcommand).  Definitions of
    siblings that the parse did not descend into are not constrained. *)
Fixpoint along_b (q : cmd -> bool -> bool) (c : cmd) (m : matches) : bool :=
  match m with
  | Matches _ None => q c false
  | Matches _ (Some (n, sm)) =>
      q c true
      && forallb (fun sc0 => match build_subcommand c (c_name sc0) with
                             | Some sc => if beq (c_name sc) n then along_b q sc sm else true
                             | None => true end) (c_subs c)
  end.

(** a level that recorded a subcommand does not ignore errors (otherwise the child's error would
    have been swallowed and its unvalidated matcher recorded) *)
Definition strict_chain_b : cmd -> matches -> bool :=
  along_b (fun c has_sub => negb has_sub || negb (is_set s_ignore_errors c)).
(** every level of the chain is outside the two families *)
Definition safe_chain_b : cmd -> matches -> bool := along_b (fun c _ => group_safe c).

Lemma along_b_here q c m : along_b q c m = true -> q c (is_some (ms_sub m)) = true.
Proof. destruct m as [args [[n sm]|]]; cbn [along_b ms_sub is_some]; [|auto]. intros H. apply andb_true_iff in H. apply H. Qed.
Lemma along_b_sub q c args n sm sc0 sc :
  along_b q c (Matches args (Some (n, sm))) = true -> In sc0 (c_subs c) ->
  build_subcommand c (c_name sc0) = Some sc -> c_name sc = n -> along_b q sc sm = true.
Proof.
  cbn [along_b]. intros H Hin Hb Hn. apply andb_true_iff in H as [_ H]. rewrite forallb_forall in H.
  specialize (H sc0 Hin). rewrite Hb, Hn, beq_refl in H. exact H.
Qed.

(** the chain with member-based presence at every level *)
Inductive members_chain : cmd -> matches -> Prop :=
| MC_leaf c m : ms_sub m = None -> RelationsM c (level_matcher m) -> members_chain c m
| MC_sub c m sc0 sc sm :
    ms_sub m = Some (c_name sc, sm) -> RelationsM c (level_matcher m) ->
    In sc0 (c_subs c) -> build_subcommand c (c_name sc0) = Some sc ->
    members_chain sc sm -> members_chain c m
| MC_ext c m name sm :
    ms_sub m = Some (name, sm) -> RelationsM c (level_matcher m) ->
    is_set s_allow_external c = true -> ext_matches sm -> members_chain c m.

Theorem gmw_chain_along : forall fuel c toks st0 st,
  tree_ok fuel c -> G c idx_inv trivV st0 -> mt_sub (mt st0) = None ->
  get_matches_with fuel c toks st0 = ROk st ->
  strict_chain_b c (into_inner (mt st)) = true ->
  validated_chain c (into_inner (mt st))
  /\ (Coh c (mt st0) -> safe_chain_b c (into_inner (mt st)) = true -> members_chain c (into_inner (mt st))).
Proof.
  induction fuel as [|f IH]; intros c toks st0 st Hok HG Hsub0 Hr Hstrict; [destruct Hok|].
  pose proof (level_relations (S f) c toks st0 st Hok HG Hr) as Hrel0.
  pose proof (Relations_level _ _ Hrel0) as Hrel.
  assert (HrelM : Coh c (mt st0) -> safe_chain_b c (into_inner (mt st)) = true ->
                  RelationsM c (level_matcher (into_inner (mt st)))).
  { intros H0 Hs. apply along_b_here in Hs.
    apply RelationsM_of; [|exact Hrel]. apply coherent_level, Coh_coherent.
    exact (level_coherent (S f) c toks st0 st Hok Hs H0 Hr). }
  destruct (gmw_step f c toks st0 st Hr) as [lr [Hloop Hlr]].
  destruct (idx_inv_closed c) as [PC1 [PC2 [PC3 [PC4 [PC5 PC0]]]]].
  destruct (trivV_ok c toks) as [[V1 [V2 [V3 [V4 [V5 [V6 [V7 V8]]]]]]] HVtoks].
  pose proof Hok as [Hwf [Happ Hch]]. pose proof Hwf as [W1 [W2 [W3 [W4 W5]]]].
  assert (Hsafe : safe (lr_ok c idx_inv trivV) (G c idx_inv trivV)
                       (parse_loop c toks (mkL PSValuesDone 1 false false) st0)).
  { eapply parse_loop_safe; try eassumption; try exact I. }
  rewrite Hloop in Hsafe. cbn [safe] in Hsafe.
  pose proof (parse_loop_sub c None toks (mkL PSValuesDone 1 false false) st0 Hsub0) as Hfr.
  rewrite Hloop in Hfr. cbn [pc] in Hfr. destruct Hfr as [Hfr Hext].
  destruct lr as [st1|name keep vaf st1 rest|name vals st1|names st1].
  - (* no subcommand *)
    assert (Hnone : ms_sub (into_inner (mt st)) = None) by (cbn [into_inner ms_sub]; rewrite Hlr; exact Hfr).
    split; [apply VC_leaf; [exact Hnone|exact Hrel]|].
    intros H0 Hs. apply MC_leaf; [exact Hnone|exact (HrelM H0 Hs)].
  - destruct Hsafe as [HG1 [-> [sc0' Hfind']]].
    destruct Hlr as [sc0 [Hfind Hb]].
    assert (Hin0 : In sc0 (c_subs c)).
    { unfold find_subcommand in Hfind. apply List.find_some in Hfind. apply Hfind. }
    destruct (build_subcommand_of_sub c sc0 Hin0) as [sc Hbs]. rewrite Hbs in Hb.
    destruct Hb as [sub_st [Hcall Hsub]].
    assert (Hm : into_inner (mt st) = Matches (mt_args (mt st)) (Some (c_name sc, into_inner (mt sub_st)))).
    { unfold into_inner. rewrite Hsub. reflexivity. }
    assert (Hign : is_set s_ignore_errors c = false).
    { pose proof (along_b_here _ _ _ Hstrict) as Hq. rewrite Hm in Hq. cbn [ms_sub is_some negb orb] in Hq.
      apply negb_true_iff in Hq. exact Hq. }
    destruct Hcall as [Hcall|[e [_ Hie]]]; [|rewrite Hie in Hign; discriminate].
    pose proof (Hch _ _ Hbs) as Hoksc.
    assert (HG0 : G sc idx_inv trivV ps_new).
    { destruct (idx_inv_closed sc) as [_ [_ [_ [_ [_ H0]]]]]. apply G_ps_new. exact H0. }
    assert (Hstrict' : strict_chain_b sc (into_inner (mt sub_st)) = true).
    { unfold strict_chain_b in *. rewrite Hm in Hstrict. exact (along_b_sub _ _ _ _ _ sc0 sc Hstrict Hin0 Hbs eq_refl). }
    destruct (IH sc rest ps_new sub_st Hoksc HG0 eq_refl Hcall Hstrict') as [IH1 IH2].
    split.
    + apply (VC_sub c _ sc0 sc (into_inner (mt sub_st))); [exact Hsub|exact Hrel|exact Hin0|exact Hbs|exact IH1].
    + intros H0 Hs. apply (MC_sub c _ sc0 sc (into_inner (mt sub_st))); [exact Hsub|exact (HrelM H0 Hs)|exact Hin0|exact Hbs|].
      apply IH2; [apply Coh_new|]. unfold safe_chain_b in *. rewrite Hm in Hs.
      exact (along_b_sub _ _ _ _ _ sc0 sc Hs Hin0 Hbs eq_refl).
  - split.
    + apply (VC_ext c _ name (Matches [(ext_id, ext_marg vals)] None)); [exact Hlr|exact Hrel|exact Hext|].
      exists vals. reflexivity.
    + intros H0 Hs. apply (MC_ext c _ name (Matches [(ext_id, ext_marg vals)] None)); [exact Hlr|exact (HrelM H0 Hs)|exact Hext|].
      exists vals. reflexivity.
  - destruct Hlr.
Qed.

(** [along_b] reads only the names on the chain, so it can be evaluated on the REPORTED matches
    (the copy of global values keeps the chain: C09 [merge_chain]) *)
Lemma along_b_chain q : forall l m m' c, Globals.chain m = l -> Globals.chain m' = l ->
  along_b q c m = along_b q c m'.
Proof.
  induction l as [|n0 l IH]; intros [a [[n sm]|]] [a' [[n' sm']|]] c; cbn [Globals.chain]; try discriminate; intros E E'.
  - reflexivity.
  - inversion E; inversion E'; subst. cbn [along_b]. f_equal.
    induction (c_subs c) as [|s0 t IHt]; cbn [forallb]; [reflexivity|]. rewrite IHt. f_equal.
    destruct (build_subcommand c (c_name s0)) as [sc|]; [|reflexivity].
    destruct (beq (c_name sc) _); [|reflexivity]. apply IH; [reflexivity|assumption].
Qed.

(** the whole parse: the root does not ignore errors (otherwise "success" is not a success), and
    the hypotheses on the levels are read off the reported chain *)
Theorem parse_sound_along c0 toks m :
  plain c0 = true -> valid c0 = true -> is_set s_ignore_errors (build_self c0) = false ->
  do_parse c0 toks = OOk m -> strict_chain_b (build_self c0) m = true ->
  exists st, run_level c0 toks = ROk st /\ m = reported c0 st
             /\ validated_chain (build_self c0) (into_inner (mt st))
             /\ Globals.chain m = Globals.chain (into_inner (mt st))
             /\ (safe_chain_b (build_self c0) m = true -> members_chain (build_self c0) (into_inner (mt st))).
Proof.
  intros Hp Hv Hi Hd Hs.
  destruct (do_parse_sound c0 toks m Hd Hi) as [st [Hr [Hm _]]].
  assert (Hchain : Globals.chain m = Globals.chain (into_inner (mt st))).
  { rewrite Hm. unfold reported. cbv zeta.
    apply (proj1 (Globals.merge_chain _ _ (into_inner (mt st)) (Nat.le_succ_diag_r _))). }
  exists st. split; [exact Hr|]. split; [exact Hm|].
  pose proof Hr as Hr'. unfold run_level in Hr'. cbv zeta in Hr'. unfold valid in Hv. cbv zeta in Hv.
  assert (HG : G (build_self c0) idx_inv trivV ps_new).
  { apply G_ps_new. destruct (idx_inv_closed (build_self c0)) as [_ [_ [_ [_ [_ H0]]]]]. exact H0. }
  destruct (gmw_chain_along _ (build_self c0) toks ps_new st (tree_ok_of_valid _ _ Hp Hv) HG eq_refl Hr') as [H1 H2].
  { unfold strict_chain_b in *. rewrite <- (along_b_chain _ _ m _ _ eq_refl (eq_sym Hchain)). exact Hs. }
  split; [exact H1|]. split; [exact Hchain|]. intros Hsafe. apply H2; [apply Coh_new|].
  unfold safe_chain_b in *. rewrite <- (along_b_chain _ _ m _ _ eq_refl (eq_sym Hchain)). exact Hsafe.
Qed.

Lemma ignore_bin c0 b : is_set s_ignore_errors (build_self (c0 <| c_bin_name := b |>)) = is_set s_ignore_errors (build_self c0).
Proof.
  destruct (s_built (c_set c0)) eqn:Hb.
  - unfold build_self. cbn [c_set]. replace (c_set (c0 <| c_bin_name := b |>)) with (c_set c0) by (destruct c0; reflexivity).
    rewrite Hb. destruct c0; reflexivity.
  - rewrite !build_self_ignore; [destruct c0; reflexivity|exact Hb|destruct c0; exact Hb].
Qed.

Theorem parse_top_sound_along c0 argv m :
  plain c0 = true -> (forall b, valid (c0 <| c_bin_name := b |>) = true) -> valid c0 = true ->
  is_set s_ignore_errors (build_self c0) = false ->
  parse_top c0 argv = OOk m ->
  exists c1 toks,
    (c1 = c0 \/ exists b, c1 = c0 <| c_bin_name := Some b |>)
    /\ (strict_chain_b (build_self c1) m = true ->
        exists st, run_level c1 toks = ROk st /\ m = reported c1 st
          /\ validated_chain (build_self c1) (into_inner (mt st))
          /\ Globals.chain m = Globals.chain (into_inner (mt st))
          /\ (safe_chain_b (build_self c1) m = true -> members_chain (build_self c1) (into_inner (mt st)))).
Proof.
  intros Hp Hvb Hv Hi. unfold parse_top.
  assert (Hsame : forall toks, do_parse c0 toks = OOk m ->
            exists c1 toks, (c1 = c0 \/ exists b, c1 = c0 <| c_bin_name := Some b |>)
              /\ (strict_chain_b (build_self c1) m = true ->
                  exists st, run_level c1 toks = ROk st /\ m = reported c1 st
                    /\ validated_chain (build_self c1) (into_inner (mt st))
                    /\ Globals.chain m = Globals.chain (into_inner (mt st))
                    /\ (safe_chain_b (build_self c1) m = true -> members_chain (build_self c1) (into_inner (mt st))))).
  { intros toks Hd. exists c0, toks. split; [left; reflexivity|]. intros Hs.
    exact (parse_sound_along c0 toks m Hp Hv Hi Hd Hs). }
  destruct (is_set s_no_binary_name c0); [apply Hsame|].
  destruct argv as [|bin rest]; [apply Hsame|].
  destruct (c_bin_name c0); [apply Hsame|].
  destruct (utf8_valid bin && negb (is_nil bin)); [|apply Hsame].
  intros Hd. exists (c0 <| c_bin_name := Some bin |>), rest. split; [right; exists bin; reflexivity|]. intros Hs.
  apply (parse_sound_along (c0 <| c_bin_name := Some bin |>) rest m); [rewrite plain_bin; exact Hp|apply Hvb| |exact Hd|exact Hs].
  rewrite ignore_bin. exact Hi.
Qed.

(** * non-vacuity
    root: group g = {x}, c overrides d (outside both families), subcommands [s] (a non-multiple group
    {a, b} and an argument conflicting with it) and [t], which sets [ignore_errors] (the builder method: a global setting, inherited by t's own subtree) and
    has a required argument.  [no_ignore] fails for this definition; a parse that reaches [s]
    satisfies the hypotheses on the reported chain. *)
Definition i_h : id := [104].
Definition al_s : cmd :=
  cmd_new [115]
    <| c_args := [wflag i_a [97;97]; wflag i_b [98;98]; wflag i_c [99;99] <| a_blacklist := [i_h] |>] |>
    <| c_groups := [group_new i_h <| g_args := [i_a; i_b] |>] |>.
Definition al_t : cmd :=
  cmd_new [116]
    <| c_args := [wflag i_b [98;98] <| a_required := true |>] |>
    <| c_set := settings_none <| s_ignore_errors := true |> |>
    <| c_gset := settings_none <| s_ignore_errors := true |> |>.
Definition al_cmd : cmd :=
  cmd_new [112]
    <| c_args := [wflag i_x [120;120]; wflag i_d [100;100]; wflag i_c [99;99] <| a_overrides := [i_d] |>] |>
    <| c_groups := [group_new i_g <| g_args := [i_x] |> <| g_multiple := true |>] |>
    <| c_subs := [al_s; al_t] |>.
Definition al_toks : list bytes := [dd [120;120]; dd [100;100]; dd [99;99]; [115]; dd [97;97]].

Definition out_ok (o : outcome) : option matches := match o with OOk m => Some m | _ => None end.
Definition out_kind (o : outcome) : option ekind := match o with OErr e => Some (e_kind e) | _ => None end.

Example along_nonvacuous :
  plain al_cmd = true /\ valid al_cmd = true /\ no_ignore al_cmd = false
  /\ is_set s_ignore_errors (build_self al_cmd) = false
  /\ group_safe (build_self al_cmd) = true
  /\ (exists m, do_parse al_cmd al_toks = OOk m /\ Globals.chain m = [[115]]
                /\ strict_chain_b (build_self al_cmd) m = true /\ safe_chain_b (build_self al_cmd) m = true)
  (* the conflict of [c] with the group {a, b} is seen at the child level; two members are rejected *)
  /\ out_kind (do_parse al_cmd [[115]; dd [97;97]; dd [99;99]]) = Some EArgumentConflict
  /\ out_kind (do_parse al_cmd [[115]; dd [97;97]; dd [98;98]]) = Some EArgumentConflict
  (* the ignoring sibling returns its own error to the (strict) root *)
  /\ out_kind (do_parse al_cmd [[116]]) = Some EMissingRequiredArgument.
Proof.
  split; [vm_compute; reflexivity|]. split; [vm_compute; reflexivity|]. split; [vm_compute; reflexivity|].
  split; [vm_compute; reflexivity|]. split; [vm_compute; reflexivity|].
  split; [eexists; split; [vm_compute; reflexivity|]; repeat split; vm_compute; reflexivity|].
  repeat split; vm_compute; reflexivity.
Qed.
