(** Totality of parsing (C01): assembling Invariant.v (the token loop of one level), Totality.v
    (the recursion over the command tree), ValidateTotal.v (the validator) and the facts that
    [Arg::_build]/[Command::_build_self] and the validity gate [assert_app] provide. *)
From ClapModel Require Import Base.Bytes Base.Machine Base.Utf8.
From ClapModel Require Import Parse.Cmd Parse.Build Parse.Valid Parse.Matcher Parse.Errors Parse.Validator Parse.Parser.
From ClapModel Require Import ParseProofs.Safe ParseProofs.Invariant ParseProofs.Totality
                              ParseProofs.Relations ParseProofs.ValidateTotal.
From Coq Require Import ZArith Lia.
From RecordUpdate Require Import RecordSet.
Import RecordSetNotations.
Open Scope N_scope.

(** * what [assert_app] says about each argument *)
Local Opaque assert_arg.
Lemma assert_app_arg c a : assert_app c = true -> In a (c_args c) ->
  assert_arg a = true
  /\ Nat.ltb (count_if (fun x => beq (a_id x) (a_id a)) (c_args c)) 2 = true.
Proof.
  unfold assert_app. intros H Hin.
  repeat (apply andb_true_iff in H as [H ?]).
  match goal with Hg : forallb _ (c_args c) = true |- _ => rename Hg into HA end.
  rewrite forallb_forall in HA. specialize (HA a Hin).
  repeat (apply andb_true_iff in HA as [HA ?]).
  split; assumption.
Qed.
Local Transparent assert_arg.

Lemma count_lt2_unique {A} (f : A -> bool) : forall l x a,
  List.find f l = Some x -> In a l -> f a = true -> (count_if f l < 2)%nat -> x = a.
Proof.
  unfold count_if. induction l as [|h t IH]; intros x a; cbn [List.find filter]; [discriminate|].
  destruct (f h) eqn:E.
  - intros Hx [<-|Hin] Ha Hc; [inversion Hx; reflexivity|].
    exfalso. cbn [length] in Hc. assert (In a (filter f t)) by (apply filter_In; auto).
    destruct (filter f t); [contradiction|cbn in Hc; lia].
  - intros Hx [<-|Hin] Ha Hc; [congruence|]. eapply IH; eassumption.
Qed.

Lemma find_none_all {A} (f : A -> bool) l : (forall x, In x l -> f x = false) -> List.find f l = None.
Proof.
  induction l as [|h t IH]; intros H; cbn; [reflexivity|].
  rewrite (H h (or_introl eq_refl)). apply IH. intros x Hx. apply H. right; exact Hx.
Qed.

(** * positionals get an index during the build *)
Lemma build_args_index : forall args groups pc a,
  In a (fst (build_args args groups pc)) -> a_is_positional a = true -> a_index a <> None.
Proof.
  induction args as [|x t IH]; intros groups pc a; cbn [build_args fst]; [intros []|].
  set (groups' := add_arg_to_groups (a_id x) (a_groups x) groups).
  destruct (a_is_positional (arg_build x) && negb (is_some (a_index (arg_build x)))) eqn:E.
  - destruct (build_args t groups' (pc + 1)) as [t' g'] eqn:Eb. cbn [fst].
    intros [<-|Hin] Hp; [cbn; discriminate|]. apply (IH groups' (pc + 1)); [rewrite Eb; exact Hin|exact Hp].
  - destruct (build_args t groups' pc) as [t' g'] eqn:Eb. cbn [fst].
    intros [<-|Hin] Hp; [|apply (IH groups' pc); [rewrite Eb; exact Hin|exact Hp]].
    rewrite Hp in E. cbn in E. destruct (a_index (arg_build x)); [discriminate|discriminate].
Qed.

Lemma bs_deprecated_arg_frame c h a :
  a_index (bs_deprecated_arg c h a) = a_index a /\ a_is_positional (bs_deprecated_arg c h a) = a_is_positional a.
Proof.
  unfold bs_deprecated_arg.
  repeat match goal with |- context [if ?x then _ else _] => destruct x end; split; reflexivity.
Qed.

(** * the level hypotheses hold of every built command that passed the gate *)
Lemma wfc_of_built x : s_built (c_set x) = false ->
  (forall s, In s (c_subs x) -> nsf s) ->
  assert_app (build_self x) = true -> wfc (build_self x).
Proof.
  intros Hb Hnsf Happ. unfold wfc. split; [|split; [|split; [|split]]].
  - intros a Hin. eapply build_self_args_complete; eassumption.
  - intros a Hin Hidx. destruct (assert_app_arg _ _ Happ Hin) as [Haa _].
    unfold assert_arg in Haa. repeat (apply andb_true_iff in Haa as [Haa ?]).
    match goal with Hi : (if is_some (a_index a) then _ else _) = true |- _ => rename Hi into HI end.
    destruct (a_index a); [|contradiction]. cbn in HI. apply andb_true_iff in HI. apply HI.
  - intros a Hin. destruct (assert_app_arg _ _ Happ Hin) as [_ Hc]. apply Nat.ltb_lt in Hc.
    destruct (find_arg_of_in _ _ Hin) as [a' Ha']. rewrite Ha'. f_equal.
    unfold find_arg in Ha'. eapply count_lt2_unique; [exact Ha'|exact Hin|apply beq_refl|exact Hc].
  - intros ch. unfold find_short_subcmd. rewrite find_none_all; [reflexivity|].
    intros s Hs. assert (Hn : nsf s).
    { destruct (subs_build_self x Hb s Hs) as [[s0 [Hin0 [[_ [Hf2 Hf3]] _]]]|[_ [Hn _]]]; [|exact Hn].
      destruct (Hnsf s0 Hin0) as [H1 H2]. split; congruence. }
    destruct Hn as [H1 H2]. unfold short_flag_aliases_to. rewrite H1, H2. reflexivity.
  - intros a Hin Hp. unfold build_self in Hin. rewrite Hb in Hin.
    rewrite c_args_bs_mark, c_args_bs_deprecated in Hin. apply in_map_iff in Hin. destruct Hin as [b [<- Hb']].
    destruct (bs_deprecated_arg_frame
                (bs_args (bs_globals (bs_help_version (bs_propagate (bs_settings x)))))
                (fold_left (fun m a0 => match a_index a0 with Some n => N.max m n | None => m end)
                   (c_args (bs_args (bs_globals (bs_help_version (bs_propagate (bs_settings x)))))) 0) b) as [Hi Hpp].
    rewrite Hi. rewrite Hpp in Hp. rewrite c_args_bs_args in Hb'. eapply build_args_index; eassumption.
Qed.

(** * [plain] is inherited by the children the parser builds *)
Lemma plain_frame s s' : c_set s = c_set s' -> c_gset s = c_gset s' -> c_subs s = c_subs s' -> plain s = plain s'.
Proof. destruct s, s'; cbn. intros -> -> ->. reflexivity. Qed.

Lemma plain_child x s : plain x = true -> In s (c_subs (build_self x)) -> plain s = true.
Proof.
  intros Hp Hin. apply plain_spec in Hp. destruct Hp as [Hb [Hg Hch]].
  apply plain_spec.
  destruct (subs_build_self x Hb s Hin) as [[s0 [Hin0 [[Hf1 _] [E1 E2]]]]|[Hn [_ [E1 E2]]]].
  - destruct (Hch s0 Hin0) as [_ Hp0]. apply plain_spec in Hp0. destruct Hp0 as [B1 [B2 B3]].
    rewrite E1, E2, B1, B2, Hg, Hf1. split; [reflexivity|split; [reflexivity|exact B3]].
  - rewrite E1, E2, Hg, Hn. split; [reflexivity|split; [reflexivity|intros s2 []]].
Qed.

Lemma tree_ok_of_valid : forall f x, plain x = true -> valid_tree f (build_self x) = true ->
  tree_ok f (build_self x).
Proof.
  induction f as [|f IH]; intros x Hp Hv; [discriminate|].
  cbn [valid_tree] in Hv. apply andb_true_iff in Hv. destruct Hv as [Happ Hch].
  pose proof Hp as Hp'. apply plain_spec in Hp'. destruct Hp' as [Hb [Hg Hsub]].
  cbn [tree_ok]. split; [|split; [exact Happ|]].
  - apply wfc_of_built; [exact Hb|intros s Hs; apply (Hsub s Hs)|exact Happ].
  - intros name sc Hbs. unfold build_subcommand in Hbs.
    destruct (List.find (fun s => beq (c_name s) name) (c_subs (build_self x))) as [s0|] eqn:Ef; [|discriminate].
    pose proof Ef as Ef2.
    apply List.find_some in Ef. destruct Ef as [Hin0 Hname]. apply beq_eq in Hname.
    rewrite forallb_forall in Hch. specialize (Hch s0 Hin0). rewrite Hname in Hch.
    unfold build_subcommand in Hch. rewrite Ef2 in Hch.
    inversion Hbs; subst sc. clear Hbs.
    match goal with |- tree_ok f (build_self ?y) => assert (Hpy : plain y = true) end.
    { match goal with |- plain ?y = true => rewrite (plain_frame y s0) end;
        [apply (plain_child x s0 Hp Hin0)| | |];
        repeat match goal with |- context [match ?d with Some _ => _ | None => _ end] => destruct d end; reflexivity. }
    apply IH; [exact Hpy|exact Hch].
Qed.

(** * the theorems *)
Definition trivP : list (id * marg) -> N -> Prop := fun _ _ => True.
Lemma trivP_closed : closedP trivP.
Proof. unfold closedP, trivP. repeat split. Qed.

Theorem do_parse_total c0 toks : plain c0 = true -> valid c0 = true ->
  match do_parse c0 toks with OPanicked _ | OOutOfFuel => False | _ => True end.
Proof.
  intros Hp Hv. unfold do_parse. rewrite Hv. cbn [negb].
  unfold valid in Hv. cbn zeta in Hv.
  pose proof (tree_ok_of_valid _ _ Hp Hv) as Hok.
  pose proof (gmw_safe trivP trivP_closed) as Hs.
  assert (Hvt : forall c m, wfc c -> assert_app c = true -> entries_ok c (mt_args m) -> forall s, validate c m <> VPanic s).
  { intros c m _ Happ He s. apply validate_total; [apply assert_app_rel_wf; exact Happ|exact He]. }
  specialize (Hs Hvt _ (build_self c0) toks ps_new Hok (G_ps_new (build_self c0) trivP I)).
  destruct (get_matches_with _ (build_self c0) toks ps_new) as [st|e st|s]; cbn in Hs.
  - exact I.
  - destruct (is_set s_ignore_errors (build_self c0) && use_stderr (e_kind e)); exact I.
  - contradiction.
Qed.

Lemma plain_bin c0 b : plain (c0 <| c_bin_name := b |>) = plain c0.
Proof. destruct c0; reflexivity. Qed.

(** [try_get_matches_from]: the program name taken from argv[0] is stored in the definition
    before it is built; the validity gate does not read it, which the hypothesis states as
    "valid under every program name". *)
Theorem parse_top_total c0 argv : plain c0 = true ->
  (forall b, valid (c0 <| c_bin_name := b |>) = true) -> valid c0 = true ->
  match parse_top c0 argv with OPanicked _ | OOutOfFuel => False | _ => True end.
Proof.
  intros Hp Hvb Hv. unfold parse_top.
  destruct (is_set s_no_binary_name c0); [apply do_parse_total; assumption|].
  destruct argv as [|bin rest]; [apply do_parse_total; assumption|].
  destruct (c_bin_name c0); [apply do_parse_total; assumption|].
  destruct (utf8_valid bin && negb (is_nil bin)); [|apply do_parse_total; assumption].
  apply do_parse_total; [rewrite plain_bin; exact Hp|apply Hvb].
Qed.
