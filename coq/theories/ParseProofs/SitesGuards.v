(** C01, round 5 (C): statements about the model, for EVERY definition and every input, behind three rows of the
    panic-site table that were justified in prose until now.

    - [external_guarded]: the token loop returns [LExternal] (the only caller of
      [ArgMatcher::start_occurrence_of_external], whose [expect] is on
      [cmd.get_external_subcommand_value_parser()], as is the one of [MatchedArg::new_external]) only when
      AllowExternalSubcommands is set on the level, i.e. only when that function returns [Some].
    - [missing_known]: every id [Validator::validate_required] collects for [missing_required_error] is the id of an
      argument or a group of the command (the [debug_assert!(false, "id={id:?} is unknown")] of the
      `not(feature = "usage")` arm). *)
From ClapModel Require Import Base.Bytes Base.Machine Base.Utf8.
From ClapModel Require Import Parse.Cmd Parse.Build Parse.Valid Parse.Matcher Parse.Errors Parse.Validator Parse.Parser.
From Coq Require Import ZArith Lia.
From RecordUpdate Require Import RecordSet.
Import RecordSetNotations.
Open Scope N_scope.

(** a postcondition on the successful result only (errors and panics are other theorems' business) *)
Definition gx {A} (Q : A -> Prop) (r : res A) : Prop := match r with ROk a => Q a | _ => True end.
Lemma gx_bind {A B} (Q : A -> Prop) (Q' : B -> Prop) (r : res A) f :
  gx Q r -> (forall a, Q a -> gx Q' (f a)) -> gx Q' (rbind r f).
Proof. destruct r as [a|e s|s]; cbn; auto. Qed.
Lemma gx_bindT {A B} (Q' : B -> Prop) (r : res A) f : (forall a, gx Q' (f a)) -> gx Q' (rbind r f).
Proof. destruct r as [a|e s|s]; cbn; auto. Qed.

Ltac gxleaf := first [exact I | reflexivity | assumption].
Ltac gxstep :=
  lazymatch goal with
  | |- gx _ (ROk _) => cbn [gx fst snd]; try gxleaf
  | |- gx _ (RErr _ _) => exact I
  | |- gx _ (RPanic _) => exact I
  | |- gx _ (expect _ ?o) => destruct o; cbn [expect]
  | |- gx _ (rbind _ _) => apply gx_bindT; intros ?
  | |- gx _ (if ?b then _ else _) => destruct b
  | |- gx _ (let _ := _ in _) => cbn zeta
  | |- gx _ (match ?x with _ => _ end) => destruct x eqn:?
  end.
Ltac gxsteps := repeat gxstep.

Section Level.
Variable c : cmd.

(** a postcondition [Q toks lr] on the successful result of the token loop on [toks] that (1) survives a further token
    in front, (2) holds of every [LDone]/[LHelpSub], (3) of [LSub] with the rest of the line or -- [keep_state] -- with
    the current token again, (4) of [LExternal] under AllowExternalSubcommands *)
Variable Q : list bytes -> loop_res -> Prop.
Hypothesis Q_cons : forall tok rest lr, Q rest lr -> Q (tok :: rest) lr.
Hypothesis Q_done : forall toks st, Q toks (LDone st).
Hypothesis Q_help : forall tok rest st, Q (tok :: rest) (LHelpSub rest st).
Hypothesis Q_sub : forall tok rest n vaf st, Q (tok :: rest) (LSub n false vaf st rest).
Hypothesis Q_keep : forall tok rest n vaf st r pst pc vaf0 st0 a d,
  to_short tok = Some r -> parse_short_arg c r pst pc vaf0 st0 = ROk (st, PRFlagSub n, vaf) -> fs_at st = Some a ->
  Q (tok :: rest) (LSub n true vaf (st <| fs_skip := d + 1 |>) (tok :: rest)).
Hypothesis Q_ext : forall tok rest st, is_set s_allow_external c = true -> Q (tok :: rest) (LExternal tok rest st).

Lemma gx_cons tok rest (r : res loop_res) : gx (Q rest) r -> gx (Q (tok :: rest)) r.
Proof. destruct r; cbn; auto. Qed.

Definition early_okq (toks : list bytes) (p1 : option (res loop_res) * lstate * ps) : Prop :=
  match fst (fst p1) with Some r => gx (Q toks) r | None => True end.

Lemma gx_parse_loop : forall toks ls st, gx (Q toks) (parse_loop c toks ls st).
Proof.
  induction toks as [|tok rest IH0]; intros ls st; [apply Q_done|].
  assert (IH : forall ls st, gx (Q (tok :: rest)) (parse_loop c rest ls st)) by (intros; apply gx_cons; apply IH0).
  clear IH0.
  cbn [parse_loop].
  match goal with |- gx _ (rbind ?ph _) => set (phase1 := ph) end.
  assert (Hph : gx (early_okq (tok :: rest)) phase1).
  { subst phase1. destruct (l_trailing ls); [exact I|].
    match goal with |- gx _ (match ?x with Some _ => _ | None => _ end) => destruct x as [sc|] end.
    { destruct (beq sc s_help && negb (is_set s_disable_help_sub c)); cbn; [apply Q_help|apply Q_sub]. }
    assert (After : forall x : ps * presult * bool,
      gx (early_okq (tok :: rest))
         (let '(st1, pr, vaf1) := x in
          let ls1 := mkL (l_pst ls) (l_pos ls) vaf1 false in
          match pr with
          | PRValuesDone => ROk (Some (parse_loop c rest (mkL PSValuesDone (l_pos ls) vaf1 false) st1), ls1, st1)
          | PROpt i => ROk (Some (parse_loop c rest (mkL (PSOpt i) (l_pos ls) vaf1 false) st1), ls1, st1)
          | PRFlagSub n => ROk (Some (ROk (LSub n false vaf1 st1 rest)), ls1, st1)
          | PREqualsNotProvided a =>
              do st2 <- resolve_pending_ignore c st1; ROk (Some (RErr (mkerr c ENoEquals a) st2), ls1, st2)
          | PRNoMatchingArg a =>
              do st2 <- resolve_pending_ignore c st1; ROk (Some (RErr (mkerr c EUnknownArgument a) st2), ls1, st2)
          | PRUnneeded r a =>
              do st2 <- resolve_pending_ignore c st1; ROk (Some (RErr (mkerr c ETooManyValues a) st2), ls1, st2)
          | PRMaybeHyphen => ROk (None, ls1, st1)
          | PRNoArg => ROk (None, ls1, st1)
          | PRAttachedNotConsumed => RPanic 203
          end)).
    { intros [[st1 pr] vaf1]. cbn zeta.
      destruct pr; try exact I;
        try (unfold gx, early_okq; cbn [fst snd]; apply IH);
        try (cbn; apply Q_sub);
        (apply gx_bindT; intros st2; exact I). }
    destruct (is_escape tok).
    { apply gx_bindT. intros sa.
      destruct (match sa with Some a => a_hyphen a | None => false end); [exact I|].
      unfold gx, early_okq; cbn [fst snd]. apply IH. }
    destruct (to_long tok) as [[[f ok] v]|].
    { apply gx_bindT. intros [[st1 pr] vaf1]. cbn [fst snd].
      pose proof (After (st1, pr, vaf1)) as HA.
      destruct pr; try exact I; exact HA. }
    destruct (to_short tok) as [r|] eqn:Es; [|exact I].
    destruct (parse_short_arg c r (l_pst ls) (l_pos ls) (l_vaf ls) st) as [[[st1 pr] vaf1]|e0 s0|x0] eqn:Eps;
      cbn [rbind]; [|exact I|exact I].
    pose proof (After (st1, pr, vaf1)) as HA.
    destruct pr; try exact I; try exact HA.
    destruct (fs_at st1) as [a|] eqn:Ea; [|cbn; apply Q_sub].
    destruct (checked_sub (cur_idx st1) a) as [d|]; cbn [expect rbind]; [cbn; eapply Q_keep; eassumption|exact I]. }
  eapply gx_bind; [exact Hph|]. clear Hph phase1.
  intros [[early ls1] st1] H1. unfold early_okq in H1. cbn [fst snd] in H1.
  destruct early as [r|]; [exact H1|]. clear H1.
  assert (Hpos : forall pc', gx (Q (tok :: rest))
     (match get_pos c pc' with
      | Some a =>
          if a_last a && negb (l_trailing ls1) then
            do st2 <- resolve_pending_ignore c st1; RErr (mkerr c EUnknownArgument tok) st2
          else
            let trailing := l_trailing ls1 || a_tva a in
            do st2 <- (if negb (match pending_arg_id (mt st1) with Some i => beq i (a_id a) | None => false end)
                          || negb (a_multiple_values a)
                       then resolve_pending c st1 else ROk st1);
            if check_terminator a tok then
              parse_loop c rest (mkL PSValuesDone (pc' + 1) true trailing) st2
            else
              do m1 <- expect 415 (pending_values_push (mt st2) (a_id a) (Some IIndex) trailing (Some tok));
              if negb (a_is_multiple a)
              then parse_loop c rest (mkL PSValuesDone (pc' + 1) true trailing) (st2 <| mt := m1 |>)
              else parse_loop c rest (mkL (PSPos (a_id a)) pc' true trailing) (st2 <| mt := m1 |>)
      | None =>
          if is_set s_allow_external c then
            if utf8_valid tok then ROk (LExternal tok rest st1)
            else do st2 <- resolve_pending_ignore c st1; RErr (mkerr c EInvalidUtf8 []) st2
          else do st2 <- resolve_pending_ignore c st1;
               RErr (match_arg_error c tok (l_vaf ls1) (l_trailing ls1)) st2
      end)).
  { intros pc'. destruct (get_pos c pc') as [a|].
    - destruct (a_last a && negb (l_trailing ls1)); [apply gx_bindT; intros; exact I|].
      cbn zeta. apply gx_bindT.
      intros st2. destruct (check_terminator a tok); [apply IH|].
      apply gx_bindT. intros m1. destruct (negb (a_is_multiple a)); apply IH.
    - destruct (is_set s_allow_external c) eqn:Ex; [destruct (utf8_valid tok); [cbn; apply Q_ext; reflexivity|]|];
        apply gx_bindT; intros; exact I. }
  destruct (if l_trailing ls1 then PSValuesDone else l_pst ls1) as [|i|i].
  - cbn zeta. apply gx_bindT. intros pc'. apply Hpos.
  - apply gx_bindT. intros a.
    destruct (check_terminator a tok); [apply IH|].
    apply gx_bindT. intros m1.
    apply gx_bindT. intros more. apply IH.
  - cbn zeta. apply gx_bindT. intros pc'. apply Hpos.
Qed.
End Level.

Theorem external_guarded c toks ls st name vals st' :
  parse_loop c toks ls st = ROk (LExternal name vals st') -> is_set s_allow_external c = true.
Proof.
  intros H.
  pose proof (gx_parse_loop c (fun _ lr => match lr with LExternal _ _ _ => is_set s_allow_external c = true | _ => True end)) as G.
  specialize (G (fun _ _ _ H => H) (fun _ _ => I) (fun _ _ _ => I) (fun _ _ _ _ _ => I)
                (fun _ _ _ _ _ _ _ _ _ _ _ _ _ _ _ => I) (fun _ _ _ H => H) toks ls st).
  rewrite H in G. exact G.
Qed.

(** the tokens a subcommand level receives are a suffix of the tokens of its parent: the rest of the line, or -- when a
    short flag-subcommand letter is followed by more of its cluster ([keep_state]) -- the rest with that cluster in front *)
Definition is_suffix (s l : list bytes) : Prop := exists pre, l = pre ++ s.

Theorem sub_tokens_suffix c toks ls st n keep vaf st' toks' :
  parse_loop c toks ls st = ROk (LSub n keep vaf st' toks') -> is_suffix toks' toks.
Proof.
  intros H.
  pose proof (gx_parse_loop c (fun toks lr => match lr with LSub _ _ _ _ t' => is_suffix t' toks | _ => True end)) as G.
  assert (G' : gx (fun lr => match lr with LSub _ _ _ _ t' => is_suffix t' toks | _ => True end) (parse_loop c toks ls st)).
  { apply G; clear.
    - intros tok rest [| ? ? ? ? t'| |]; try exact (fun _ => I). intros [pre ->]. exists (tok :: pre). reflexivity.
    - intros; exact I.
    - intros; exact I.
    - intros tok rest n vaf st. exists [tok]. reflexivity.
    - intros. exists []. reflexivity.
    - intros; exact I. }
  rewrite H in G'. exact G'.
Qed.

(** * the ids collected by [validate_required] are known *)
Definition known (c : cmd) (i : id) : Prop := id_exists c i = true.

Lemma known_arg c a : In a (c_args c) -> known c (a_id a).
Proof.
  intros Hin. unfold known, id_exists, find_arg.
  destruct (List.find (fun x => beq (a_id x) (a_id a)) (c_args c)) eqn:E; [reflexivity|].
  exfalso. apply (List.find_none _ _ E) in Hin. rewrite beq_refl in Hin. discriminate.
Qed.
Lemma known_group c g : In g (c_groups c) -> known c (g_id g).
Proof.
  intros Hin. unfold known, id_exists, find_group.
  destruct (List.find (fun x => beq (g_id x) (g_id g)) (c_groups c)) eqn:E; [apply Bool.orb_true_r|].
  exfalso. apply (List.find_none _ _ E) in Hin. rewrite beq_refl in Hin. discriminate.
Qed.

Lemma fold_inv {A B} (f : A -> B -> A) (I : A -> Prop) l :
  (forall a b, In b l -> I a -> I (f a b)) -> forall a, I a -> I (fold_left f l a).
Proof.
  induction l as [|b l IH]; intros Hf a Ha; [exact Ha|]. cbn [fold_left].
  apply IH; [intros a' b' Hin; apply Hf; right; exact Hin|apply Hf; [left; reflexivity|exact Ha]].
Qed.

Lemma Forall_snoc {A} (Q : A -> Prop) l x : Forall Q l -> Q x -> Forall Q (l ++ [x]).
Proof. intros H1 H2. apply Forall_app. split; [exact H1|constructor; [exact H2|constructor]]. Qed.

Theorem missing_known c mt potential missing :
  missing_required c mt potential = Some missing -> forall i, In i missing -> known c i.
Proof.
  unfold missing_required.
  destruct (gather_requires c mt (required_graph c)) as [required|]; [|discriminate].
  set (excl := existsb _ (explicit_entries mt)).
  match goal with |- match ?s1 with Some _ => _ | None => _ end = _ -> _ => set (step1 := s1) end.
  assert (H1 : match step1 with Some (m, _) => Forall (known c) m | None => True end).
  { subst step1. apply fold_inv; [|constructor].
    intros acc aog _ Hacc. destruct acc as [[m h]|]; [|exact I].
    destruct (check_explicit mt aog PIsPresent); [exact Hacc|].
    destruct (find_arg c aog) as [a|] eqn:Ea.
    - destruct excl; [exact Hacc|].
      destruct (is_missing_required_ok c potential a) as [[|]|]; [exact Hacc| |exact I].
      apply Forall_snoc; [exact Hacc|]. apply known_arg. unfold find_arg in Ea. apply (List.find_some _ _ Ea).
    - destruct (find_group c aog) as [g|] eqn:Eg; [|exact Hacc].
      destruct (unroll_args_in_group c (g_id g)) as [members|]; [|exact I].
      destruct (existsb _ members); [exact Hacc|].
      apply Forall_snoc; [exact Hacc|]. apply known_group. unfold find_group in Eg. apply (List.find_some _ _ Eg). }
  destruct step1 as [[m1 h1]|]; [|discriminate].
  match goal with |- (let '(m, h) := ?s2 in _) = _ -> _ => set (step2 := s2) end.
  assert (H2 : Forall (known c) (fst step2)).
  { subst step2. apply fold_inv; [|exact H1].
    intros [m h] a Hin Hacc. cbn [fst] in *.
    destruct (check_explicit mt (a_id a) PIsPresent); [exact Hacc|].
    match goal with |- Forall _ (fst (if ?b then _ else _)) => destruct b end; [|exact Hacc].
    cbn [fst]. apply Forall_snoc; [exact Hacc|apply known_arg; exact Hin]. }
  destruct step2 as [m2 h2]. cbn [fst] in H2.
  intros H. injection H as <-.
  assert (H3 : Forall (known c)
     (if negb (is_set s_allow_missing_pos c)
      then fold_left (fun missing p => if check_explicit mt (a_id p) PIsPresent then missing
                                       else match a_index p with
                                            | Some i => if i <? h2 then missing ++ [a_id p] else missing
                                            | None => missing ++ [a_id p] end) (positionals c) m2
      else m2)).
  { destruct (negb (is_set s_allow_missing_pos c)); [|exact H2].
    apply fold_inv; [|exact H2].
    intros m p Hin Hacc. unfold positionals in Hin. apply filter_In in Hin. destruct Hin as [Hin _].
    destruct (check_explicit mt (a_id p) PIsPresent); [exact Hacc|].
    destruct (a_index p) as [i|]; [destruct (i <? h2); [|exact Hacc]|];
      (apply Forall_snoc; [exact Hacc|apply known_arg; exact Hin]). }
  intros i Hi. rewrite Forall_forall in H3. apply H3. exact Hi.
Qed.
