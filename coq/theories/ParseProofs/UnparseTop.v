(** Property C02, the un-parser theorem above the token loop: [get_matches_with] on a rendered
    invocation, and conservation (what the matches report per argument is exactly the invocation's
    occurrences of that argument: nothing dropped, duplicated, reordered, invented or moved). *)
From ClapModel Require Import Base.Bytes Base.Machine Base.Utf8 Lex.OsStrExtModel.
From ClapModel Require Import Parse.Cmd Parse.Build Parse.Valid Parse.Matcher Parse.Errors Parse.Validator Parse.Parser.
From ClapModel Require Import ParseProofs.Actions ParseProofs.ActionsLoop ParseProofs.Spelling ParseProofs.Sources
                              ParseProofs.Unparse ParseProofs.UnparseProofs.
From Coq Require Import ZArith Lia List Bool.
From RecordUpdate Require Import RecordSet.
Import RecordSetNotations.
Import ListNotations.
Open Scope N_scope.

(** the phases of [get_matches_with] after the command line has been read and flushed *)
Definition post_loop (c : cmd) (st1 : ps) : res ps :=
  do st2 <- add_env c st1; do st3 <- add_defaults c st2; vres_to_res c (validate c (mt st3)) st3.

(** the occurrence groups the invocation gives to argument [i], computed from the invocation alone
    (C07's abstract fold: Append collects, Set keeps the last, Count counts, overrides remove) *)
Definition denote_os (c : cmd) (i : id) (os : list occ) : option groups := fold_left (step_abs c i) os None.
Definition denote_arg (c : cmd) (i : id) (its : list item) : option groups := denote_os c i (occs c 1 its).

Section Top.
Variable c : cmd.
Hypothesis Hconv : conv c = true.
Hypothesis Hie : is_set s_ignore_errors c = false.

(** one level, no subcommand selected: the whole of [get_matches_with] on the rendered line *)
Theorem gmw_items f its : wf_items c PSValuesDone 1 its = true ->
  get_matches_with (S f) c (render its) ps_new =
  (do st1 <- react_all c (occs c 1 its) ps_new; post_loop c st1).
Proof.
  intros Hw. rewrite get_matches_with_unfold.
  assert (Ec : cmdline_phase f c (render its) ps_new = apply_items c 1 its ps_new).
  { unfold cmdline_phase. rewrite <- (app_nil_r (render its)).
    rewrite (loop_items c Hconv its [] PSValuesDone 1 false ps_new Hw I (pend_inv_none c PSValuesDone ps_new eq_refl) eq_refl).
    cbn [parse_loop]. rewrite rbind_assoc. cbn [rbind]. apply rbind_ret. }
  rewrite Ec. pose proof (flush_items c Hconv its PSValuesDone 1 ps_new Hw) as F.
  cbn [resolve_pending ps_new mt matcher_new mt_pending rbind] in F.
  change (mkPs matcher_new 0 None 0) with ps_new in F.
  rewrite <- F. rewrite Hie.
  destruct (apply_items c 1 its ps_new) as [st'|e s|n]; cbn [rbind]; reflexivity.
Qed.

Lemma flags_occs_args fl : Forall (fun o => In (o_arg o) (c_args c)) (flags_occs c fl).
Proof.
  induction fl as [|ch fl IH]; [constructor|]. unfold flags_occs. cbn [flat_map].
  destruct (get_short c ch) as [a|] eqn:G; cbn [app]; [|exact IH].
  constructor; [apply (get_short_in c ch a G)|exact IH].
Qed.

Lemma occs_args its : forall pos, Forall (fun o => In (o_arg o) (c_args c)) (occs c pos its).
Proof.
  induction its as [|it its IH]; intros pos; [constructor|]. cbn [occs]. apply Forall_app. split; [|apply IH].
  destruct it as [n|n v|n vs|fl t|vs]; cbn [item_occs].
  - destruct (get_long c n) as [a|] eqn:G; constructor; [apply (get_long_in c n a G)|constructor].
  - destruct (get_long c n) as [a|] eqn:G; constructor; [apply (get_long_in c n a G)|constructor].
  - destruct (get_long c n) as [a|] eqn:G; constructor; [apply (get_long_in c n a G)|constructor].
  - apply Forall_app. split; [apply flags_occs_args|].
    destruct t as [|o v|o v|o vs]; cbn [tail_occs]; try constructor;
      destruct (get_short c o) as [a|] eqn:G; constructor; try (apply (get_short_in c o a G)); constructor.
  - destruct (get_pos c pos) as [a|] eqn:G; constructor; [apply (get_pos_in c pos a G)|constructor].
Qed.

(** the flushed command-line state holds, per argument, the invocation's occurrence groups *)
Definition args_of (os : list occ) : Prop := Forall (fun o => In (o_arg o) (c_args c)) os.

Theorem react_all_os_denote os st1 a : args_of os -> In a (c_args c) ->
  react_all c os ps_new = ROk st1 ->
  groups_of (a_id a) (mt st1) = denote_os c (a_id a) os /\ mt_pending (mt st1) = None.
Proof.
  intros Hos Ha H. pose proof (conv_app c Hconv) as HA.
  assert (Hc : Forall (no_group_clash c (a_id a)) os).
  { eapply Forall_impl; [|exact Hos]. intros o Ho. split.
    - apply (assert_app_group_ids c (o_arg o) HA Ho).
    - apply (assert_app_group_ids c a HA Ha). }
  destruct (react_all_denote c (a_id a) os ps_new st1 wf_m_new eq_refl Hc H) as [R [_ P]].
  split; [exact R|exact P].
Qed.

Theorem react_all_occs_denote its st1 a : In a (c_args c) ->
  react_all c (occs c 1 its) ps_new = ROk st1 ->
  groups_of (a_id a) (mt st1) = denote_arg c (a_id a) its /\ mt_pending (mt st1) = None.
Proof. apply react_all_os_denote. apply (occs_args its 1). Qed.

Lemma post_loop_ok st1 st : post_loop c st1 = ROk st ->
  exists st2, add_env c st1 = ROk st2 /\ add_defaults c st2 = ROk st.
Proof.
  unfold post_loop. destruct (add_env c st1) as [st2|e s|n] eqn:E2; cbn [rbind]; try discriminate.
  destruct (add_defaults c st2) as [st3|e s|n] eqn:E3; cbn [rbind]; try discriminate.
  unfold vres_to_res. destruct (validate c (mt st3)); try discriminate.
  intros H; inversion H; subst. exists st2. split; [reflexivity|exact E3].
Qed.

Lemma react_all_pending_keep os st st' : react_all c os st = ROk st' -> mt_pending (mt st) = None ->
  mt_pending (mt st') = None.
Proof.
  intros H P. destruct os as [|o os]; [cbn [react_all] in H; inversion H; subst; exact P|].
  apply (react_all_pending_none c _ _ _ H). discriminate.
Qed.

(** core of conservation: [st1'] carries the flushed command-line entries (and possibly a
    subcommand), [st] is what the env/default/validation phases make of it *)
Lemma conservation_core_os os st1 st1' st : args_of os ->
  react_all c os ps_new = ROk st1 ->
  mt_args (mt st1') = mt_args (mt st1) -> mt_pending (mt st1') = None ->
  post_loop c st1' = ROk st ->
  forall a, In a (c_args c) ->
    (forall gs, denote_os c (a_id a) os = Some gs -> groups_of (a_id a) (mt st) = Some gs)
    /\ (forall e, fm_get (a_id a) (mt_args (mt st)) = Some e -> m_source e = Some SCmdLine ->
          denote_os c (a_id a) os = Some (m_raw e)).
Proof.
  intros Hos E1 EA P1 H a Ha.
  destruct (react_all_os_denote os st1 a Hos Ha E1) as [R _].
  assert (R' : groups_of (a_id a) (mt st1') = denote_os c (a_id a) os).
  { rewrite <- R. unfold groups_of, get. rewrite EA. reflexivity. }
  clear R. rename R' into R.
  destruct (post_loop_ok st1' st H) as [st2 [E2 E3]].
  destruct (assert_app_ids_distinct c (conv_app c Hconv)) as [_ Hng]. specialize (Hng a Ha).
  destruct (add_env_frame c st1' st2 P1 E2) as [P2 [_ [Ek [En _]]]].
  destruct (add_defaults_frame c st2 st P2 E3) as [_ [_ [_ [Dk Dn]]]].
  split.
  - intros gs Hd. rewrite <- R in Hd. unfold groups_of, get in *.
    destruct (fm_get (a_id a) (mt_args (mt st1'))) as [m|] eqn:G; [|discriminate].
    rewrite (Dk _ _ (Ek _ _ Hng G)). exact Hd.
  - intros e Ge Se. rewrite <- R. unfold groups_of, get.
    destruct (fm_get (a_id a) (mt_args (mt st2))) as [m2|] eqn:G2.
    + rewrite (Dk _ _ G2) in Ge. inversion Ge; subst m2.
      destruct (fm_get (a_id a) (mt_args (mt st1'))) as [m1|] eqn:G1.
      * rewrite (Ek _ _ Hng G1) in G2. inversion G2; subst. reflexivity.
      * destruct (En _ _ Hng G1 G2) as [Sx _]. rewrite Sx in Se. discriminate.
    + pose proof (Dn _ _ G2 Ge) as Sx. rewrite Sx in Se. discriminate.
Qed.

Lemma conservation_core its st1 st1' st :
  react_all c (occs c 1 its) ps_new = ROk st1 ->
  mt_args (mt st1') = mt_args (mt st1) -> mt_pending (mt st1') = None ->
  post_loop c st1' = ROk st ->
  forall a, In a (c_args c) ->
    (forall gs, denote_arg c (a_id a) its = Some gs -> groups_of (a_id a) (mt st) = Some gs)
    /\ (forall e, fm_get (a_id a) (mt_args (mt st)) = Some e -> m_source e = Some SCmdLine ->
          denote_arg c (a_id a) its = Some (m_raw e)).
Proof. apply conservation_core_os. apply (occs_args its 1). Qed.

(** CONSERVATION.  On every successful parse of a rendered invocation, for every argument of the
    command: (1) if the invocation gives it occurrence groups [gs], the matches report exactly [gs];
    (2) every entry of the matches that is labelled command line reports exactly the groups the
    invocation gives to that argument (so nothing is invented or attributed to another argument). *)
Theorem conservation f its st : wf_items c PSValuesDone 1 its = true ->
  get_matches_with (S f) c (render its) ps_new = ROk st ->
  forall a, In a (c_args c) ->
    (forall gs, denote_arg c (a_id a) its = Some gs -> groups_of (a_id a) (mt st) = Some gs)
    /\ (forall e, fm_get (a_id a) (mt_args (mt st)) = Some e -> m_source e = Some SCmdLine ->
          denote_arg c (a_id a) its = Some (m_raw e)).
Proof.
  intros Hw H. rewrite (gmw_items f its Hw) in H.
  destruct (react_all c (occs c 1 its) ps_new) as [st1|e s|n] eqn:E1; cbn [rbind] in H; try discriminate.
  apply (conservation_core its st1 st1 st E1 eq_refl); [|exact H].
  apply (react_all_pending_keep _ _ _ E1 eq_refl).
Qed.

(** ** Append arguments: every occurrence, in command-line order, one group each *)
Definition no_overrides : bool := forallb (fun a => is_nil (a_overrides a)) (c_args c).

Lemma no_overrides_spec : no_overrides = true -> forall b j, In b (c_args c) -> overridden c b j = false.
Proof.
  unfold no_overrides. intros H b j Hb. rewrite forallb_forall in H. unfold overridden, overrides_me.
  pose proof (H b Hb) as Eb. destruct (a_overrides b); [|discriminate]. cbn [mem_id existsb orb].
  destruct (find_arg c j) as [ov|] eqn:F; [|reflexivity].
  destruct (find_arg_in c j ov F) as [Hov _]. pose proof (H ov Hov) as Eo.
  destruct (a_overrides ov); [reflexivity|discriminate].
Qed.

Theorem denote_append its a : no_overrides = true -> In a (c_args c) -> a_get_action a = AAppend ->
  (0 < Actions.count_occ (a_id a) (occs c 1 its))%nat ->
  denote_arg c (a_id a) its = Some (occ_groups c (a_id a) (occs c 1 its)).
Proof.
  intros Hno Ha Eact Hn. unfold denote_arg, denote_os.
  assert (Hall : Forall (fun o => (o_arg o = a /\ is_cmdline (o_src o) && overridden c a (a_id a) = false)
                                   \/ unrelated c (a_id a) o) (occs c 1 its)).
  { eapply Forall_impl; [|apply (occs_args its 1)]. intros o Ho.
    destruct (beq (a_id (o_arg o)) (a_id a)) eqn:E.
    - left. apply beq_eq in E. split; [apply (ids_unique c _ _ (conv_app c Hconv) Ho Ha E)|].
      rewrite (no_overrides_spec Hno a (a_id a) Ha). apply andb_false_r.
    - right. split; [exact E|]. rewrite (no_overrides_spec Hno _ (a_id a) Ho). apply andb_false_r. }
  destruct (abs_append c a Eact (occs c 1 its) None Hall) as [A1 A2].
  cbn [opt_default app] in A1.
  assert (S : is_some (fold_left (step_abs c (a_id a)) (occs c 1 its) None) = true) by (apply A2; right; exact Hn).
  destruct (fold_left (step_abs c (a_id a)) (occs c 1 its) None) as [gs|]; [|discriminate].
  cbn [opt_default] in A1. rewrite A1. reflexivity.
Qed.

Theorem conservation_append f its st a : wf_items c PSValuesDone 1 its = true -> no_overrides = true ->
  get_matches_with (S f) c (render its) ps_new = ROk st ->
  In a (c_args c) -> a_get_action a = AAppend -> (0 < Actions.count_occ (a_id a) (occs c 1 its))%nat ->
  groups_of (a_id a) (mt st) = Some (occ_groups c (a_id a) (occs c 1 its)).
Proof.
  intros Hw Hno H Ha Eact Hn.
  destruct (conservation f its st Hw H a Ha) as [C1 _]. apply C1. apply denote_append; assumption.
Qed.

End Top.
