(** Property C04, round 2: the typed VIEW of what the parser stores.

    The parser model ([Parse/Parser.v]) carries its own small acceptance function [vp_parse] for the
    value parsers a definition of the parser model can name ([Cmd.vparser]: String, OsString, Bool,
    the u8 parser of [ArgAction::Count], RangedI64ValueParser<i64>).  This file proves that it is the
    acceptance side of the C04 models of [Value/*.v] ([embed], [bridge]): accepted by [vp_parse] =
    [VOk] of [ValueParsers.vparse]; rejected with kind [k] = [VErr] of the corresponding kind.
    [typed_value] is then the typed value the real code stores NEXT TO the raw one
    ([value_parser.parse_ref(raw)]), and the invariant of TypedInv.v becomes: raw and typed have the
    same shape and each typed value is the image of the raw value at the same place
    ([entry_typed_view]); with the language theorems of [IntParseProofs]/[BoolParseProofs]: for a
    ranged-integer argument each stored raw string is a decimal whose integer reading lies in the
    range and in the target type and IS the typed value ([stored_i64], [stored_count]); for a bool
    argument it is "true"/"false" ([stored_bool]); for a String argument it is well-formed UTF-8 and
    the typed value is the string itself ([stored_string]). *)
From Coq Require Import ZArith List Bool Lia.
From ClapModel Require Import Base.Bytes Base.Machine Base.Utf8.
From ClapModel Require Value.ValueBase Value.IntParse Value.IntParseProofs Value.IntFactory Value.IntFactoryProofs
                       Value.BoolParse Value.BoolParseProofs Value.PossibleValues Value.PossibleValuesProofs
                       Value.ValueParsers Value.ValueParsersProofs.
From ClapModel Require Gen.BoolTables.
From ClapModel Require Import Parse.Cmd Parse.Build Parse.Valid Parse.Matcher Parse.Errors Parse.Validator Parse.Parser.
From ClapModel Require Import ParseProofs.Relations ParseProofs.Dispatch ParseProofs.Chain ParseProofs.TypedInv.
Import ListNotations.
Open Scope N_scope.

Module VB := ClapModel.Value.ValueBase.
Module IP := ClapModel.Value.IntParse.
Module IPP := ClapModel.Value.IntParseProofs.
Module IF_ := ClapModel.Value.IntFactory.
Module BP := ClapModel.Value.BoolParse.
Module BPP := ClapModel.Value.BoolParseProofs.
Module VP := ClapModel.Value.ValueParsers.
Module IFP := ClapModel.Value.IntFactoryProofs.
Module PV := ClapModel.Value.PossibleValues.
Module PVP := ClapModel.Value.PossibleValuesProofs.

(** * [str::parse::<i64>] of the parser model = the digit-by-digit model of C04 *)
Lemma sign_split_spec (s : bytes) :
  (match s with 45 :: d => (true, d) | 43 :: d => (false, d) | _ => (false, s) end) =
  match s with
  | b :: d => if b =? 45 then (true, d) else if b =? 43 then (false, d) else (false, s)
  | [] => (false, s)
  end.
Proof.
  destruct s as [|b d]; [reflexivity|]. destruct b as [|p]; [reflexivity|].
  do 7 (try (destruct p as [p|p|]; try reflexivity)).
Qed.

Lemma digits_val_spec : forall d acc z,
  Parser.digits_val d acc = Some z <-> IPP.all_digits d /\ z = fold_left IPP.fpos d acc.
Proof.
  induction d as [|c t IH]; intros acc z; cbn [Parser.digits_val fold_left].
  - split; [intros H; inversion H; split; [constructor|reflexivity]|intros [_ ->]; reflexivity].
  - destruct (Parser.is_digit c) eqn:Ed.
    + rewrite IH. assert (Hc : (acc * 10 + Z.of_N (c - 48))%Z = IPP.fpos acc c).
      { unfold IPP.fpos. change (Parser.is_digit c) with (IP.is_digit c) in Ed. apply IPP.is_digit_range in Ed. lia. }
      rewrite Hc. split.
      * intros [H1 H2]. split; [constructor; [exact Ed|exact H1]|exact H2].
      * intros [H1 H2]. inversion H1 as [|? ? Hc' Ht']. split; [exact Ht'|exact H2].
    + split; [discriminate|]. intros [H _]. inversion H as [|? ? Hd _]; subst.
      change (IP.is_digit c) with (Parser.is_digit c) in Hd. congruence.
Qed.

Lemma digits_nonempty_dec (d : bytes) : {d = []} + {d <> []}.
Proof. destruct d; [left; reflexivity|right; discriminate]. Qed.

Theorem parse_i64_spec s z :
  Parser.parse_i64 s = Some z <->
  IPP.decimal_signed s /\ IPP.intval s = z /\ (i64_min <= z <= i64_max)%Z.
Proof.
  unfold Parser.parse_i64. rewrite sign_split_spec. rewrite IPP.decimal_signed_char.
  assert (Core : forall (neg : bool) d,
    (match d with
     | [] => None
     | _ => match Parser.digits_val d 0%Z with
            | None => None
            | Some v => let v := if neg then (- v)%Z else v in if in_i64 v then Some v else None
            end
     end) = Some z <->
    (d <> [] /\ IPP.all_digits d) /\ (if neg then (- IPP.digits_val d)%Z else IPP.digits_val d) = z
    /\ (i64_min <= z <= i64_max)%Z).
  { intros neg d. destruct (digits_nonempty_dec d) as [->|Hne].
    - split; [discriminate|]. intros [[H _] _]. congruence.
    - assert (Hm : forall (A : Type) (x y : A), match d with [] => x | _ :: _ => y end = y) by (intros; destruct d; [congruence|reflexivity]).
      rewrite Hm. destruct (Parser.digits_val d 0%Z) as [v|] eqn:Ev.
      + apply digits_val_spec in Ev. destruct Ev as [Had ->]. rewrite <- IPP.digits_val_fold.
        cbv zeta. unfold in_i64. destruct ((i64_min <=? _) && (_ <=? i64_max))%Z eqn:Eb.
        * apply andb_true_iff in Eb. destruct Eb as [E1 E2]. apply Z.leb_le in E1, E2.
          split; [intros H; inversion H; subst; repeat split; auto|intros [_ [H _]]; rewrite H; reflexivity].
        * split; [discriminate|]. intros [_ [H [H1 H2]]]. subst z.
          apply Z.leb_le in H1, H2. rewrite H1, H2 in Eb. discriminate.
      + split; [discriminate|]. intros [[_ Had] _]. exfalso.
        assert (Parser.digits_val d 0%Z = Some (fold_left IPP.fpos d 0%Z)) by (apply digits_val_spec; auto).
        congruence. }
  destruct s as [|b rest].
  - split; [discriminate|intros [[] _]].
  - cbn [IPP.intval]. destruct (N.eqb_spec b 45) as [->|N45].
    + change (45 =? 43) with false. cbn [orb]. rewrite (Core true rest). tauto.
    + destruct (N.eqb_spec b 43) as [->|N43].
      * cbn [orb]. rewrite (Core false rest). tauto.
      * cbn [orb]. rewrite (Core false (b :: rest)).
        split; [intros [[_ H] H2]; split; [exact H|exact H2]|intros [H H2]; split; [split; [discriminate|exact H]|exact H2]].
Qed.

Theorem parse_i64_agree s :
  Parser.parse_i64 s = match IP.parse_i64 s with IP.IOk z => Some z | IP.IErr _ => None end.
Proof.
  assert (Hb : (i64_min <= 0 <= i64_max)%Z) by (unfold i64_min, i64_max; lia).
  destruct (IP.parse_i64 s) as [z|e] eqn:E.
  - apply parse_i64_spec. apply (IPP.parse_int_spec true i64_min i64_max s z Hb) in E. exact E.
  - destruct (Parser.parse_i64 s) as [z|] eqn:E2; [|reflexivity]. exfalso.
    apply parse_i64_spec in E2. apply (IPP.parse_int_spec true i64_min i64_max s z Hb) in E2.
    unfold IP.parse_i64 in E. congruence.
Qed.

(** * the value parsers of the parser model are C04's *)
Definition embed (vp : Cmd.vparser) : option VP.vparser :=
  match vp with
  | Cmd.VPString => Some VP.VPString
  | Cmd.VPOsString => None          (* OsStringValueParser: every string, the value is the string *)
  | Cmd.VPBool => Some VP.VPBool
  | Cmd.VPCount =>                  (* value_parser!(u8), from the regenerated factory table *)
      match IF_.factory_parser true VB.U8 with
      | Some (k, r) => Some (VP.VPRanged k r VB.U8)
      | None => None
      end
  | Cmd.VPI64 lo hi => Some (VP.VPRanged VB.PI64 (VB.Included lo, VB.Included hi) VB.I64)
  (* round 4: the parsers the parser model delegates to Value/*.v *)
  | Cmd.VPBoolish => Some VP.VPBoolish
  | Cmd.VPFalsey => Some VP.VPFalsey
  | Cmd.VPNonEmpty => Some VP.VPNonEmpty
  | Cmd.VPPossible ic pvs => Some (VP.VPPossible clap_unicode ic (map fst pvs))
  | Cmd.VPRanged t lo hi => Some (VP.VPRanged (ity_pkind t) (VB.Included lo, VB.Included hi) t)
  end.

Definition ek (k : VB.err_kind) : ekind :=
  match k with VB.InvalidUtf8 => EInvalidUtf8 | VB.ValueValidation => EValueValidation | VB.InvalidValue => EInvalidValue end.

Lemma ek_of_ek k : ek_of k = ek k.
Proof. destruct k; reflexivity. Qed.

(** [value_parser!(T)] picks the carrier the regenerated factory table says *)
Lemma ity_pkind_factory dbg t : exists r, IF_.factory_parser dbg t = Some (ity_pkind t, r).
Proof. destruct (IFP.factory_total dbg t) as [r H]. exists r. rewrite H. destruct t; reflexivity. Qed.

Lemma vres_kind_bridge {A B} (f : A -> B) (r : VB.vresult A) :
  match VP.vmap f r with
  | VB.VOk _ => vres_kind r = None
  | VB.VErr k => vres_kind r = Some (ek k)
  end.
Proof. destruct r as [a|k]; cbn [VP.vmap vres_kind]; [reflexivity|rewrite ek_of_ek; reflexivity]. Qed.

Lemma ranged_i64_incl_agree lo hi tmin tmax s :
  forall (Hw : forall z, (i64_min <= z <= i64_max)%Z -> (lo <= z <= hi)%Z -> (tmin <= z <= tmax)%Z),
  match IP.ranged_i64 (VB.Included lo, VB.Included hi) tmin tmax s with
  | VB.VOk z => (if negb (utf8_valid s) then Some EInvalidUtf8
                 else match Parser.parse_i64 s with
                      | Some z => if ((lo <=? z) && (z <=? hi))%Z then None else Some EValueValidation
                      | None => Some EValueValidation end) = None
  | VB.VErr k => (if negb (utf8_valid s) then Some EInvalidUtf8
                  else match Parser.parse_i64 s with
                       | Some z => if ((lo <=? z) && (z <=? hi))%Z then None else Some EValueValidation
                       | None => Some EValueValidation end) = Some (ek k)
  end.
Proof.
  intros Hw. unfold IP.ranged_i64, IP.ranged_i64_d, IP.ranged_d.
  destruct (utf8_valid s); cbn [negb]; [|reflexivity].
  rewrite parse_i64_agree. fold (IP.parse_i64 s).
  destruct (IP.parse_i64 s) as [z|e] eqn:E; [|reflexivity].
  unfold IP.bounds_contains. cbn [fst snd].
  destruct ((lo <=? z) && (z <=? hi))%Z eqn:Eb; cbn [negb]; [|reflexivity].
  unfold IP.try_from.
  assert (Hz : (i64_min <= z <= i64_max)%Z).
  { assert (Hb : (i64_min <= 0 <= i64_max)%Z) by (unfold i64_min, i64_max; lia).
    apply (IPP.parse_int_spec true i64_min i64_max s z Hb) in E. apply E. }
  apply andb_true_iff in Eb. destruct Eb as [E1 E2]. apply Z.leb_le in E1, E2.
  destruct (Hw z Hz (conj E1 E2)) as [H1 H2]. apply Z.leb_le in H1, H2. rewrite H1, H2. reflexivity.
Qed.

Lemma factory_u8 : IF_.factory_parser true VB.U8 = Some (VB.PI64, (VB.Included 0%Z, VB.Included 255%Z)).
Proof. vm_compute. reflexivity. Qed.

(** accepted by the parser model's [vp_parse] <-> [VOk] in the C04 model; same rejection kind *)
Theorem bridge vp p s : embed vp = Some p ->
  match VP.vparse p s with
  | VB.VOk _ => vp_parse vp s = None
  | VB.VErr k => vp_parse vp s = Some (ek k)
  end.
Proof.
  destruct vp as [| | | |lo hi| | | |ic pvs|t lo hi]; cbn [embed]; try discriminate.
  5-9: (intros H; inversion H; subst p; cbn [VP.vparse vp_parse]; apply vres_kind_bridge).
  - intros H; inversion H; subst p. cbn [VP.vparse vp_parse]. unfold BP.string_parse.
    destruct (utf8_valid s); reflexivity.
  - intros H; inversion H; subst p. cbn [VP.vparse vp_parse]. unfold BP.bool_parse.
    change BP.lit_true with s_true. change BP.lit_false with s_false.
    destruct (beq s s_true); [reflexivity|]. destruct (beq s s_false); reflexivity.
  - rewrite factory_u8. intros H; inversion H; subst p. cbn [VP.vparse vp_parse].
    unfold IF_.ranged_parse, IF_.ranged_parse_d. fold (IP.ranged_i64 (VB.Included 0%Z, VB.Included 255%Z) (VB.ity_min VB.U8) (VB.ity_max VB.U8) s).
    pose proof (ranged_i64_incl_agree 0 255 (VB.ity_min VB.U8) (VB.ity_max VB.U8) s) as Hr.
    destruct (IP.ranged_i64 _ _ _ s); cbn [VP.vmap]; apply Hr; cbn; intros; lia.
  - intros H; inversion H; subst p. cbn [VP.vparse vp_parse].
    unfold IF_.ranged_parse, IF_.ranged_parse_d. fold (IP.ranged_i64 (VB.Included lo, VB.Included hi) (VB.ity_min VB.I64) (VB.ity_max VB.I64) s).
    pose proof (ranged_i64_incl_agree lo hi (VB.ity_min VB.I64) (VB.ity_max VB.I64) s) as Hr.
    destruct (IP.ranged_i64 _ _ _ s); cbn [VP.vmap]; apply Hr; cbn; unfold i64_min, i64_max; intros; lia.
Qed.

(** * the typed value stored next to a raw value *)
Inductive tv := TVal (v : VP.tvalue) | TOs (s : bytes).

Definition typed_value (vp : Cmd.vparser) (s : bytes) : option tv :=
  match embed vp with
  | Some p => match VP.vparse p s with VB.VOk v => Some (TVal v) | VB.VErr _ => None end
  | None => match vp with Cmd.VPOsString => Some (TOs s) | _ => None end
  end.

Lemma embed_total vp : vp <> Cmd.VPOsString -> exists p, embed vp = Some p.
Proof.
  destruct vp; try (intros _; eexists; reflexivity). congruence.
Qed.

(** the typed value exists exactly when the parser model accepts *)
Theorem typed_value_accepts vp s : accepts vp s <-> exists v, typed_value vp s = Some v.
Proof.
  unfold accepts, typed_value.
  destruct (embed vp) as [p|] eqn:E.
  - pose proof (bridge vp p s E) as Hb. destruct (VP.vparse p s) as [v|k].
    + split; [intros _; eexists; reflexivity|intros _; exact Hb].
    + rewrite Hb. split; [discriminate|intros [v H]; discriminate].
  - destruct vp; try discriminate.
    split; [intros _; eexists; reflexivity|reflexivity].
Qed.

(** ... and a rejection is C04's rejection: same kind *)
Theorem typed_value_rejects vp p s k : embed vp = Some p ->
  (vp_parse vp s = Some k <-> exists k', VP.vparse p s = VB.VErr k' /\ k = ek k').
Proof.
  intros E. pose proof (bridge vp p s E) as Hb. destruct (VP.vparse p s) as [v|k0].
  - rewrite Hb. split; [discriminate|intros [k' [H _]]; discriminate].
  - rewrite Hb. split; [intros H; inversion H; exists k0; auto|intros [k' [H ->]]; inversion H; reflexivity].
Qed.

(** * entries: same shape, each typed value the image of the raw value at the same place *)
Definition typed_of (vp : Cmd.vparser) (raw : list (list bytes)) (tvs : list (list tv)) : Prop :=
  Forall2 (Forall2 (fun r v => typed_value vp r = Some v)) raw tvs.

Lemma typed_group vp g : Forall (accepts vp) g -> exists tg, Forall2 (fun r v => typed_value vp r = Some v) g tg.
Proof.
  induction 1 as [|r t Hr _ [tg IH]]; [exists []; constructor|].
  apply typed_value_accepts in Hr. destruct Hr as [v Hv]. exists (v :: tg). constructor; assumption.
Qed.

Lemma typed_groups vp raw : Forall (Forall (accepts vp)) raw -> exists tvs, typed_of vp raw tvs.
Proof.
  induction 1 as [|g t Hg _ [tvs IH]]; [exists []; constructor|].
  destruct (typed_group vp g Hg) as [tg Htg]. exists (tg :: tvs). constructor; assumption.
Qed.

Theorem entry_typed_view c l i m a vp : typed_entries c l ->
  In (i, m) l -> find_arg c i = Some a -> a_vp a = Some vp ->
  exists tvs, typed_of vp (m_raw m) tvs.
Proof. intros H Hin Hf Hvp. apply typed_groups. apply (H i m a vp Hin Hf Hvp). Qed.

(** * what a stored raw value looks like, per value parser *)
Definition int_reading (lo hi tmin tmax : Z) (s : bytes) : Prop :=
  utf8_valid s = true /\ IPP.decimal_signed s /\
  (lo <= IPP.intval s <= hi)%Z /\ (tmin <= IPP.intval s <= tmax)%Z /\ (i64_min <= IPP.intval s <= i64_max)%Z.

Theorem accepted_i64 lo hi s : accepts (Cmd.VPI64 lo hi) s ->
  int_reading lo hi i64_min i64_max s /\
  typed_value (Cmd.VPI64 lo hi) s = Some (TVal (VP.TVInt (IPP.intval s))).
Proof.
  intros Ha. apply typed_value_accepts in Ha. destruct Ha as [v Hv].
  unfold typed_value in Hv |- *. cbn [embed] in Hv |- *. cbn [VP.vparse] in Hv |- *.
  unfold IF_.ranged_parse, IF_.ranged_parse_d in Hv |- *.
  fold (IP.ranged_i64 (VB.Included lo, VB.Included hi) (VB.ity_min VB.I64) (VB.ity_max VB.I64) s) in Hv |- *.
  destruct (IP.ranged_i64 _ _ _ s) as [z|k] eqn:E; cbn [VP.vmap] in Hv |- *; [|discriminate].
  apply IPP.ranged_i64_spec in E. destruct E as (U & D & Hz & Hc & [R1 R2] & Ht). cbn [fst snd] in R1, R2.
  subst z. split; [|reflexivity]. repeat split; try assumption; try lia.
Qed.

Theorem accepted_count s : accepts Cmd.VPCount s ->
  int_reading 0 255 0 255 s /\
  typed_value Cmd.VPCount s = Some (TVal (VP.TVInt (IPP.intval s))).
Proof.
  intros Ha. apply typed_value_accepts in Ha. destruct Ha as [v Hv].
  unfold typed_value in Hv |- *. cbn [embed] in Hv |- *. rewrite factory_u8 in Hv |- *. cbn [VP.vparse] in Hv |- *.
  unfold IF_.ranged_parse, IF_.ranged_parse_d in Hv |- *.
  fold (IP.ranged_i64 (VB.Included 0%Z, VB.Included 255%Z) (VB.ity_min VB.U8) (VB.ity_max VB.U8) s) in Hv |- *.
  destruct (IP.ranged_i64 _ _ _ s) as [z|k] eqn:E; cbn [VP.vmap] in Hv |- *; [|discriminate].
  apply IPP.ranged_i64_spec in E. destruct E as (U & D & Hz & Hc & [R1 R2] & Ht). cbn [fst snd] in R1, R2. cbn in Ht.
  subst z. split; [|reflexivity]. repeat split; try assumption; try lia.
Qed.

Theorem accepted_bool s : accepts Cmd.VPBool s ->
  exists b : bool, s = (if b then BP.lit_true else BP.lit_false) /\
            typed_value Cmd.VPBool s = Some (TVal (VP.TVBool b)).
Proof.
  intros Ha. apply typed_value_accepts in Ha. destruct Ha as [v Hv].
  unfold typed_value in Hv |- *. cbn [embed VP.vparse] in Hv |- *.
  destruct (BP.bool_parse s) as [b|k] eqn:E; cbn [VP.vmap] in Hv |- *; [|discriminate].
  exists b. split; [apply BPP.bool_parse_spec; exact E|reflexivity].
Qed.

Theorem accepted_string s : accepts Cmd.VPString s ->
  utf8_valid s = true /\ typed_value Cmd.VPString s = Some (TVal (VP.TVStr s)).
Proof.
  intros Ha. apply typed_value_accepts in Ha. destruct Ha as [v Hv].
  unfold typed_value in Hv |- *. cbn [embed VP.vparse] in Hv |- *.
  destruct (BP.string_parse s) as [s'|k] eqn:E; cbn [VP.vmap] in Hv |- *; [|discriminate].
  apply BPP.string_parse_spec in E. destruct E as [U ->]. split; [exact U|reflexivity].
Qed.

Theorem accepted_osstring s : accepts Cmd.VPOsString s /\ typed_value Cmd.VPOsString s = Some (TOs s).
Proof. split; reflexivity. Qed.

(** * the stored values of an entry, per value parser of the argument (any typed level) *)
Section Stored.
Variable c : cmd.
Variable l : list (id * marg).
Hypothesis HT : typed_entries c l.
Variables (i : id) (m : marg) (a : arg).
Hypothesis Hin : In (i, m) l.
Hypothesis Hf : find_arg c i = Some a.

Lemma stored_forall vp (Q : bytes -> Prop) : a_vp a = Some vp -> (forall s, accepts vp s -> Q s) ->
  Forall (Forall Q) (m_raw m).
Proof.
  intros Hvp HQ. pose proof (HT i m a vp Hin Hf Hvp) as H.
  eapply Forall_impl; [|exact H]. intros g Hg. eapply Forall_impl; [|exact Hg]. exact HQ.
Qed.

Theorem stored_i64 lo hi : a_vp a = Some (Cmd.VPI64 lo hi) ->
  Forall (Forall (fun s => int_reading lo hi i64_min i64_max s /\
                           typed_value (Cmd.VPI64 lo hi) s = Some (TVal (VP.TVInt (IPP.intval s))))) (m_raw m).
Proof. intros Hvp. eapply stored_forall; [exact Hvp|]. intros s. apply accepted_i64. Qed.

Theorem stored_count : a_vp a = Some Cmd.VPCount ->
  Forall (Forall (fun s => int_reading 0 255 0 255 s /\
                           typed_value Cmd.VPCount s = Some (TVal (VP.TVInt (IPP.intval s))))) (m_raw m).
Proof. intros Hvp. eapply stored_forall; [exact Hvp|]. intros s. apply accepted_count. Qed.

Theorem stored_bool : a_vp a = Some Cmd.VPBool ->
  Forall (Forall (fun s => exists b : bool, s = (if b then BP.lit_true else BP.lit_false) /\
                           typed_value Cmd.VPBool s = Some (TVal (VP.TVBool b)))) (m_raw m).
Proof. intros Hvp. eapply stored_forall; [exact Hvp|]. intros s. apply accepted_bool. Qed.

Theorem stored_string : a_vp a = Some Cmd.VPString ->
  Forall (Forall (fun s => utf8_valid s = true /\
                           typed_value Cmd.VPString s = Some (TVal (VP.TVStr s)))) (m_raw m).
Proof. intros Hvp. eapply stored_forall; [exact Hvp|]. intros s. apply accepted_string. Qed.
End Stored.
