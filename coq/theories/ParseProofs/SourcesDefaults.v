(** Property C06, round 2: NON-INTERFERENCE OF DEFAULT VALUES.

    Two commands that differ only in the [default_value]s of their arguments
    ([with_defaults f c]: every argument of the level gets the plain defaults [f a], everything else
    is untouched) cannot be told apart by the command-line phase, the environment phase or the
    validator: only [add_default_value] reads [a_default].  Hence, on every line of C02's class, the
    state before the defaults phase and the verdict are the same for both, and the accepted
    results differ only in entries labelled DefaultValue. *)
From ClapModel Require Import Base.Bytes Base.Machine Base.Utf8 Lex.OsStrExtModel.
From ClapModel Require Import Parse.Cmd Parse.Build Parse.Valid Parse.Matcher Parse.Errors Parse.Validator Parse.Parser.
From ClapModel Require Import ParseProofs.Actions ParseProofs.Sources
                              ParseProofs.Unparse ParseProofs.UnparseProofs ParseProofs.UnparseTop ParseProofs.UnparseSub
                              ParseProofs.UnparseTrail ParseProofs.UnparseTree ParseProofs.SourcesLine.
From ClapModel Require Import Sources.Present.
From Coq Require Import ZArith Lia List Bool.
From RecordUpdate Require Import RecordSet.
Import RecordSetNotations.
Import ListNotations.
Open Scope N_scope.

Definition redef (f : arg -> list bytes) (a : arg) : arg := a <| a_default := f a |>.
Definition with_defaults (f : arg -> list bytes) (c : cmd) : cmd := c <| c_args := map (redef f) (c_args c) |>.

(** * generic list facts *)
Lemma find_map_list {A B} (p : B -> bool) (g : A -> B) l :
  find p (map g l) = opt_map g (find (fun x => p (g x)) l).
Proof. induction l as [|h t IH]; [reflexivity|]. cbn [map find]. destruct (p (g h)); [reflexivity|exact IH]. Qed.
Lemma filter_map_list {A B} (p : B -> bool) (g : A -> B) l :
  filter p (map g l) = map g (filter (fun x => p (g x)) l).
Proof. induction l as [|h t IH]; [reflexivity|]. cbn [map filter]. destruct (p (g h)); cbn [map]; rewrite IH; reflexivity. Qed.
Lemma fold_left_map_list {A B C} (step : C -> B -> C) (g : A -> B) l : forall acc,
  fold_left step (map g l) acc = fold_left (fun x y => step x (g y)) l acc.
Proof. induction l as [|h t IH]; intros acc; [reflexivity|]. cbn [map fold_left]. apply IH. Qed.
Lemma flat_map_map_list {A B C} (k : B -> list C) (g : A -> B) l :
  flat_map k (map g l) = flat_map (fun x => k (g x)) l.
Proof. induction l as [|h t IH]; [reflexivity|]. cbn [map flat_map]. rewrite IH. reflexivity. Qed.
Lemma fold_right_ext_list {A B} (f g : B -> A -> A) l a :
  (forall x y, f x y = g x y) -> fold_right f a l = fold_right g a l.
Proof. intros H. induction l as [|h t IH]; [reflexivity|]. cbn [fold_right]. rewrite IH, H. reflexivity. Qed.
Lemma find_map_ext {A B} (f g : A -> option B) l : (forall x, f x = g x) -> find_map f l = find_map g l.
Proof. intros H. induction l as [|h t IH]; [reflexivity|]. cbn [find_map]. rewrite H, IH. reflexivity. Qed.

Section NI.
Variable f : arg -> list bytes.
Variable c : cmd.
Notation g := (redef f).
Notation c' := (with_defaults f c).

(** * lookups *)
Lemma ni_find_arg i : find_arg c' i = opt_map g (find_arg c i).
Proof. unfold find_arg. change (c_args c') with (map g (c_args c)). rewrite find_map_list. reflexivity. Qed.
Lemma ni_find_arg_some i : is_some (find_arg c' i) = is_some (find_arg c i).
Proof. rewrite ni_find_arg. destruct (find_arg c i); reflexivity. Qed.

Lemma ni_keymap : keymap c' = map (fun p => (fst p, g (snd p))) (keymap c).
Proof.
  unfold keymap. change (c_args c') with (map g (c_args c)). rewrite flat_map_map_list.
  induction (c_args c) as [|a l IH]; [reflexivity|]. cbn [flat_map]. rewrite map_app, IH. f_equal.
  change (arg_keys (g a)) with (arg_keys a). rewrite map_map. reflexivity.
Qed.
Lemma ni_get_long n : get_long c' n = opt_map g (get_long c n).
Proof.
  unfold get_long. rewrite ni_keymap, find_map_list. cbn [fst].
  destruct (find _ (keymap c)) as [[k a]|]; reflexivity.
Qed.
Lemma ni_get_short n : get_short c' n = opt_map g (get_short c n).
Proof.
  unfold get_short. rewrite ni_keymap, find_map_list. cbn [fst].
  destruct (find _ (keymap c)) as [[k a]|]; reflexivity.
Qed.
Lemma ni_get_pos n : get_pos c' n = opt_map g (get_pos c n).
Proof.
  unfold get_pos. rewrite ni_keymap, find_map_list. cbn [fst].
  destruct (find _ (keymap c)) as [[k a]|]; reflexivity.
Qed.

(** * occurrences *)
Definition omap (o : occ) : occ := mkOcc (o_ident o) (o_src o) (g (o_arg o)) (o_raw o) (o_ti o).

Lemma ni_item_pos pos it : item_pos c' pos it = item_pos c pos it.
Proof. destruct it; cbn [item_pos]; try reflexivity. rewrite ni_get_pos. destruct (get_pos c pos); reflexivity. Qed.
Lemma ni_items_pos its : forall pos, items_pos c' pos its = items_pos c pos its.
Proof. induction its as [|it its IH]; intros pos; [reflexivity|]. cbn [items_pos]. rewrite ni_item_pos. apply IH. Qed.

Lemma ni_flags_occs fl : flags_occs c' fl = map omap (flags_occs c fl).
Proof.
  induction fl as [|ch fl IH]; [reflexivity|]. unfold flags_occs in *. cbn [flat_map]. rewrite map_app, IH. f_equal.
  rewrite ni_get_short. destruct (get_short c ch); reflexivity.
Qed.
Lemma ni_item_occs pos it : item_occs c' pos it = map omap (item_occs c pos it).
Proof.
  destruct it as [n|n v|n vs|fl t|vs]; cbn [item_occs].
  - rewrite ni_get_long. destruct (get_long c n); reflexivity.
  - rewrite ni_get_long. destruct (get_long c n); reflexivity.
  - rewrite ni_get_long. destruct (get_long c n); reflexivity.
  - rewrite map_app, ni_flags_occs. f_equal.
    destruct t as [|o v|o v|o vs]; cbn [tail_occs]; try reflexivity; rewrite ni_get_short; destruct (get_short c o); reflexivity.
  - rewrite ni_get_pos. destruct (get_pos c pos); reflexivity.
Qed.
Lemma ni_occs its : forall pos, occs c' pos its = map omap (occs c pos its).
Proof.
  induction its as [|it its IH]; intros pos; [reflexivity|]. cbn [occs].
  rewrite map_app, ni_item_occs, ni_item_pos, IH. reflexivity.
Qed.
Lemma ni_trail_occs vs : forall pos, trail_occs c' pos vs = map omap (trail_occs c pos vs).
Proof.
  induction vs as [|v vs IH]; intros pos; [reflexivity|]. cbn [trail_occs]. rewrite ni_get_pos.
  destruct (get_pos c pos) as [a|]; cbn [opt_map]; [|reflexivity].
  change (a_multiple_values (g a)) with (a_multiple_values a). change (a_is_multiple (g a)) with (a_is_multiple a).
  destruct (a_multiple_values a); [reflexivity|]. cbn [map]. rewrite IH. reflexivity.
Qed.
Lemma ni_inv_occs i : inv_occs c' i = map omap (inv_occs c i).
Proof.
  destruct i as [its|its name j|its vs]; cbn [inv_occs]; try apply ni_occs.
  rewrite map_app, ni_occs, ni_items_pos, ni_trail_occs. reflexivity.
Qed.

(** * the occurrence primitive *)
Lemma ni_remove_overrides a m : remove_overrides c' (g a) m = remove_overrides c a m.
Proof.
  unfold remove_overrides. change (a_overrides (g a)) with (a_overrides a). change (a_id (g a)) with (a_id a).
  f_equal. apply filter_ext. intros i. rewrite ni_find_arg. destruct (find_arg c i); reflexivity.
Qed.
Lemma ni_start_custom_arg a s m : start_custom_arg c' (g a) s m = start_custom_arg c a s m.
Proof. unfold start_custom_arg. rewrite ni_remove_overrides. reflexivity. Qed.
Lemma ni_push_arg_values a : forall raw st, push_arg_values c' (g a) raw st = push_arg_values c a raw st.
Proof.
  induction raw as [|v t IH]; intros st; [reflexivity|]. cbn [push_arg_values].
  change (a_vp (g a)) with (a_vp a). destruct (a_vp a) as [vp|]; cbn [expect rbind]; [|reflexivity].
  destruct (vp_parse vp v); [reflexivity|]. change (a_id (g a)) with (a_id a).
  destruct (add_val_to (mt (ps_bump st)) (a_id a) v) as [m1|]; cbn [expect rbind]; [|reflexivity].
  destruct (add_index_to m1 (a_id a) (cur_idx (ps_bump st))) as [m2|]; cbn [expect rbind]; [|reflexivity].
  apply IH.
Qed.
Lemma ni_store a s raw (st : ps) m1 :
  (do m2 <- start_custom_arg c' (g a) s m1; do st' <- push_arg_values c' (g a) raw (st <| mt := m2 |>); ROk (st', PRValuesDone)) =
  (do m2 <- start_custom_arg c a s m1; do st' <- push_arg_values c a raw (st <| mt := m2 |>); ROk (st', PRValuesDone)).
Proof.
  rewrite ni_start_custom_arg. apply rbind_ext. intros m2 _. rewrite ni_push_arg_values. reflexivity.
Qed.
Lemma ni_set_like idn s a raw bump st : set_like c' idn s (g a) raw bump st = set_like c idn s a raw bump st.
Proof.
  unfold set_like. change (a_id (g a)) with (a_id a).
  destruct (mt_remove (mt (if bump && is_cmdline s && is_flag_ident idn then ps_bump st else st)) (a_id a)) as [m1 removed].
  change (self_override c' (g a)) with (self_override c a).
  destruct (removed && negb (self_override c a)); [reflexivity|]. apply ni_store.
Qed.
Lemma ni_react_action idn s a vals st : react_action c' idn s (g a) vals st = react_action c idn s a vals st.
Proof.
  unfold react_action. change (a_get_action (g a)) with (a_get_action a).
  destruct (a_get_action a); try reflexivity; try apply ni_set_like.
  - apply ni_store.
  - change (a_id (g a)) with (a_id a). change (existing_count (g a) (mt st)) with (existing_count a (mt st)).
    destruct (mt_remove (mt st) (a_id a)) as [m1 rm]. apply ni_store.
Qed.
Lemma ni_react_core idn s a raw ti st : react_core c' idn s (g a) raw ti st = react_core c idn s a raw ti st.
Proof.
  rewrite !Actions.react_core_unfold.
  change (verify_num_args c' (g a) raw st) with (verify_num_args c a raw st).
  change (occ_values c' (g a) raw ti) with (occ_values c a raw ti).
  apply rbind_ext. intros _ _. apply rbind_ext. intros vals _. apply ni_react_action.
Qed.
Lemma ni_resolve_pending st : resolve_pending c' st = resolve_pending c st.
Proof.
  unfold resolve_pending. destruct (mt_pending (mt st)) as [p|]; [|reflexivity].
  rewrite ni_find_arg. destruct (find_arg c (p_id p)) as [a|]; cbn [opt_map expect rbind]; [|reflexivity].
  rewrite ni_react_core. reflexivity.
Qed.
Lemma ni_react idn s a raw ti st : react c' idn s (g a) raw ti st = react c idn s a raw ti st.
Proof. unfold react. rewrite ni_resolve_pending. apply rbind_ext. intros st1 _. apply ni_react_core. Qed.
Lemma ni_react_all : forall os st, react_all c' (map omap os) st = react_all c os st.
Proof.
  induction os as [|o os IH]; intros st; [reflexivity|]. cbn [map react_all].
  change (react c' (o_ident (omap o)) (o_src (omap o)) (o_arg (omap o)) (o_raw (omap o)) (o_ti (omap o)) st)
    with (react c' (o_ident o) (o_src o) (g (o_arg o)) (o_raw o) (o_ti o) st).
  rewrite ni_react. apply rbind_ext. intros x _. apply IH.
Qed.

(** * the environment phase *)
Lemma ni_add_env st : add_env c' st = add_env c st.
Proof.
  unfold add_env. change (c_args c') with (map g (c_args c)). rewrite fold_left_map_list.
  apply fold_left_ext. intros rst a. destruct rst as [s|e s|n]; cbn [rbind]; try reflexivity.
  change (a_id (g a)) with (a_id a). change (a_env (g a)) with (a_env a).
  destruct (mt_contains (mt s) (a_id a)); [reflexivity|]. destruct (a_env a) as [v|]; [|reflexivity].
  rewrite ni_react. reflexivity.
Qed.

(** * the validator *)
Lemma ni_required_graph : required_graph c' = required_graph c.
Proof. unfold required_graph. change (c_args c') with (map g (c_args c)). rewrite fold_left_map_list. reflexivity. Qed.

Lemma ni_unroll_group_loop : forall fuel gv args, unroll_group_loop c' fuel gv args = unroll_group_loop c fuel gv args.
Proof.
  induction fuel as [|fu IH]; intros gv args; [reflexivity|]. cbn [unroll_group_loop].
  destruct gv as [|gid rest]; [reflexivity|]. change (find_group c' gid) with (find_group c gid).
  destruct (find_group c gid) as [grp|]; [|reflexivity].
  match goal with |- (let '(a1, p1) := fold_left ?F1 ?l ?i in _) = (let '(a2, p2) := fold_left ?F2 ?l ?i in _) =>
    assert (E : fold_left F1 l i = fold_left F2 l i) end.
  { apply fold_left_ext. intros [a0 p0] n. rewrite ni_find_arg_some. reflexivity. }
  rewrite E. clear E. match goal with |- (let '(x1, x2) := ?X in _) = _ => destruct X as [a1 p1] end. apply IH.
Qed.
Lemma ni_unroll_args_in_group gid : unroll_args_in_group c' gid = unroll_args_in_group c gid.
Proof. unfold unroll_args_in_group. rewrite ni_unroll_group_loop. reflexivity. Qed.

Lemma ni_unroll_requires_loop func root : forall fuel rv pr args,
  unroll_requires_loop c' func root fuel rv pr args = unroll_requires_loop c func root fuel rv pr args.
Proof.
  induction fuel as [|fu IH]; intros rv pr args; [reflexivity|]. cbn [unroll_requires_loop].
  destruct rv as [|a rest]; [reflexivity|]. destruct (mem_id a pr); [apply IH|].
  rewrite ni_find_arg. destruct (find_arg c a) as [arg0|]; cbn [opt_map]; [|apply IH].
  change (a_requires (g arg0)) with (a_requires arg0).
  match goal with |- (let '(a1, p1) := fold_left ?F1 ?l ?i in _) = (let '(a2, p2) := fold_left ?F2 ?l ?i in _) =>
    assert (E : fold_left F1 l i = fold_left F2 l i) end.
  { apply fold_left_ext. intros [a0 p0] r. rewrite ni_find_arg. destruct (find_arg c r); reflexivity. }
  rewrite E. clear E. match goal with |- (let '(x1, x2) := ?X in _) = _ => destruct X as [a1 p1] end. apply IH.
Qed.
Lemma ni_requires_fuel : requires_fuel c' = requires_fuel c.
Proof. unfold requires_fuel. change (c_args c') with (map g (c_args c)). rewrite flat_map_map_list. reflexivity. Qed.
Lemma ni_unroll_arg_requires func a : unroll_arg_requires c' func a = unroll_arg_requires c func a.
Proof. unfold unroll_arg_requires. rewrite ni_requires_fuel. apply ni_unroll_requires_loop. Qed.

Lemma ni_gather_direct_conflicts i : gather_direct_conflicts c' i = gather_direct_conflicts c i.
Proof. unfold gather_direct_conflicts. rewrite ni_find_arg. destruct (find_arg c i); reflexivity. Qed.

Lemma ni_conflicts_with_args m : conflicts_with_args c' m = conflicts_with_args c m.
Proof.
  unfold conflicts_with_args. apply fold_right_ext_list. intros p acc. rewrite ni_gather_direct_conflicts. reflexivity.
Qed.
Lemma ni_gather_conflicts pot i : gather_conflicts c' pot i = gather_conflicts c pot i.
Proof. unfold gather_conflicts. rewrite ni_gather_direct_conflicts. reflexivity. Qed.

Lemma ni_validate_exclusive m : validate_exclusive c' m = validate_exclusive c m.
Proof.
  unfold validate_exclusive.
  rewrite (filter_ext (fun p => is_some (find_arg c' (fst p))) (fun p => is_some (find_arg c (fst p))))
    by (intros p; apply ni_find_arg_some).
  destruct (Nat.leb _ 1); [reflexivity|].
  assert (E : find_map (fun p => match find_arg c' (fst p) with Some a => if a_exclusive a then Some a else None | None => None end) (explicit_entries m)
            = opt_map g (find_map (fun p => match find_arg c (fst p) with Some a => if a_exclusive a then Some a else None | None => None end) (explicit_entries m))).
  { induction (explicit_entries m) as [|p l IH]; [reflexivity|]. cbn [find_map]. rewrite ni_find_arg.
    destruct (find_arg c (fst p)) as [a|]; cbn [opt_map]; [|exact IH].
    change (a_exclusive (g a)) with (a_exclusive a). destruct (a_exclusive a); [reflexivity|exact IH]. }
  rewrite E. clear E. destruct (find_map _ (explicit_entries m)); reflexivity.
Qed.

Lemma ni_build_conflict_err name ids : build_conflict_err c' name ids = build_conflict_err c name ids.
Proof.
  unfold build_conflict_err. destruct (is_nil ids); [reflexivity|].
  match goal with |- match fold_right ?F1 ?i ?l with _ => _ end = match fold_right ?F2 ?i ?l with _ => _ end =>
    assert (E : fold_right F1 i l = fold_right F2 i l) end.
  { apply fold_right_ext_list. intros cid acc. destruct acc; [|reflexivity].
    change (find_group c' cid) with (find_group c cid). rewrite ni_unroll_args_in_group. reflexivity. }
  rewrite E. clear E. destruct (fold_right _ (Some []) ids) as [l|]; [|reflexivity].
  rewrite (forallb_pw (fun i => is_some (find_arg c' i)) (fun i => is_some (find_arg c i))) by (intros i; apply ni_find_arg_some).
  destruct (forallb _ l); [|reflexivity]. rewrite ni_find_arg. destruct (find_arg c name); reflexivity.
Qed.

Lemma ni_validate_conflicts m pot : validate_conflicts c' m pot = validate_conflicts c m pot.
Proof.
  unfold validate_conflicts. rewrite ni_validate_exclusive. destruct (validate_exclusive c m); try reflexivity.
  rewrite (filter_ext (fun p => is_some (find_arg c' (fst p))) (fun p => is_some (find_arg c (fst p))))
    by (intros p; apply ni_find_arg_some).
  f_equal. apply map_ext. intros p. rewrite ni_gather_conflicts. destruct (gather_conflicts c pot (fst p)); [|reflexivity].
  apply ni_build_conflict_err.
Qed.

Lemma ni_gather_requires m req : gather_requires c' m req = gather_requires c m req.
Proof.
  unfold gather_requires. apply fold_left_ext. intros acc [name matched]. destruct acc as [rq|]; [|reflexivity].
  rewrite ni_find_arg. destruct (find_arg c name) as [a|]; cbn [opt_map]; [|reflexivity].
  change (a_id (g a)) with (a_id a). rewrite ni_unroll_arg_requires. reflexivity.
Qed.

Lemma ni_is_missing_required_ok pot a : is_missing_required_ok c' pot (g a) = is_missing_required_ok c pot a.
Proof.
  unfold is_missing_required_ok. change (a_id (g a)) with (a_id a). rewrite ni_gather_conflicts.
  destruct (gather_conflicts c pot (a_id a)) as [l|]; [|reflexivity]. destruct (negb (is_nil l)); [reflexivity|].
  change (groups_for_arg c' (a_id a)) with (groups_for_arg c (a_id a)).
  apply fold_left_ext. intros acc gid. destruct acc as [[|]|]; try reflexivity. rewrite ni_gather_conflicts. reflexivity.
Qed.

Lemma ni_positionals : positionals c' = map g (positionals c).
Proof. unfold positionals. change (c_args c') with (map g (c_args c)). rewrite filter_map_list. reflexivity. Qed.

Lemma ni_missing_required m pot : missing_required c' m pot = missing_required c m pot.
Proof.
  unfold missing_required. rewrite ni_gather_requires, ni_required_graph.
  destruct (gather_requires c m (required_graph c)) as [required|]; [|reflexivity].
  rewrite (existsb_pw (fun p => match find_arg c' (fst p) with Some a => a_exclusive a | None => false end)
                      (fun p => match find_arg c (fst p) with Some a => a_exclusive a | None => false end))
    by (intros p; rewrite ni_find_arg; destruct (find_arg c (fst p)); reflexivity).
  set (iep := existsb _ (explicit_entries m)).
  match goal with |- match fold_left ?F1 ?l ?i with _ => _ end = match fold_left ?F2 ?l ?i with _ => _ end =>
    assert (E : fold_left F1 l i = fold_left F2 l i) end.
  { apply fold_left_ext. intros acc aog. destruct acc as [[missing highest]|]; [|reflexivity].
    destruct (check_explicit m aog PIsPresent); [reflexivity|].
    rewrite ni_find_arg. destruct (find_arg c aog) as [a|]; cbn [opt_map].
    - destruct iep; [reflexivity|]. rewrite ni_is_missing_required_ok. reflexivity.
    - change (find_group c' aog) with (find_group c aog). destruct (find_group c aog) as [gr|]; [|reflexivity].
      rewrite ni_unroll_args_in_group. reflexivity. }
  rewrite E. clear E. destruct (fold_left _ required (Some ([], 0))) as [[missing highest]|]; [|reflexivity].
  change (c_args c') with (map g (c_args c)).
  match goal with |- (let '(x1, x2) := fold_left ?F (map ?gg ?l) ?i in _) = (let '(y1, y2) := ?R in _) =>
    replace (fold_left F (map gg l) i) with R by (rewrite (fold_left_map_list F gg l i); reflexivity) end.
  match goal with |- (let '(x1, x2) := ?X in _) = _ => destruct X as [ms2 hi2] end.
  change (is_set s_allow_missing_pos c') with (is_set s_allow_missing_pos c).
  rewrite ni_positionals.
  match goal with |- context [fold_left ?F (map ?gg ?l) ?i] => rewrite (fold_left_map_list F gg l i) end.
  reflexivity.
Qed.

Theorem ni_validate m : validate c' m = validate c m.
Proof.
  unfold validate. rewrite ni_conflicts_with_args. destruct (conflicts_with_args c m) as [pot|]; [|reflexivity].
  change (is_set s_arg_required_else_help c') with (is_set s_arg_required_else_help c).
  change (is_set s_sub_required c') with (is_set s_sub_required c).
  change (is_set s_subs_negate_reqs c') with (is_set s_subs_negate_reqs c).
  rewrite ni_validate_conflicts, ni_missing_required. reflexivity.
Qed.

Lemma ni_vres_to_res v st : vres_to_res c' v st = vres_to_res c v st.
Proof. reflexivity. Qed.

End NI.

(** * the level before its defaults phase, and the non-interference theorem *)
Definition with_sub (c : cmd) (i : inv) (st1 : ps) : option ps :=
  match i with
  | ISub its name j =>
      match child c name with
      | Some scb => match run_inv scb j with
                    | ROk sub_st => Some (ssub (Some (c_name scb, into_inner (mt sub_st))) st1)
                    | _ => None end
      | None => None end
  | _ => Some st1
  end.

(** [st2] is the state of the level after the command line (the fold of [react] over the
    invocation's occurrences), the selected subcommand's matches and the environment phase *)
Definition pre_defaults (c : cmd) (i : inv) (st2 : ps) : Prop :=
  exists st1 st1', react_all c (inv_occs c i) ps_new = ROk st1 /\ with_sub c i st1 = Some st1'
                   /\ add_env c st1' = ROk st2.

Lemma pre_defaults_det c i x y : pre_defaults c i x -> pre_defaults c i y -> x = y.
Proof.
  intros [s1 [s1' [A [B C]]]] [t1 [t1' [A' [B' C']]]]. rewrite A in A'. inversion A'; subst t1.
  rewrite B in B'. inversion B'; subst t1'. rewrite C in C'. inversion C'. reflexivity.
Qed.

Lemma pre_defaults_pending c i st2 : pre_defaults c i st2 -> mt_pending (mt st2) = None.
Proof.
  intros [st1 [st1' [A [B C]]]].
  pose proof (react_all_pending_keep c _ _ _ A eq_refl) as P1.
  assert (P1' : mt_pending (mt st1') = None).
  { destruct i as [its|its name j|its vs]; cbn [with_sub] in B; try (inversion B; subst; exact P1).
    destruct (child c name) as [scb|]; [|discriminate]. destruct (run_inv scb j) as [sub_st| |]; try discriminate.
    inversion B; subst. rewrite ssub_mt, msub_pending. exact P1. }
  destruct (add_env_frame c st1' st2 P1' C) as [P2 _]. exact P2.
Qed.

Lemma post_loop_split c st1 st : post_loop c st1 = ROk st <->
  exists st2, add_env c st1 = ROk st2 /\ add_defaults c st2 = ROk st /\ validate c (mt st) = VOk.
Proof.
  unfold post_loop. split.
  - destruct (add_env c st1) as [st2|e s|n] eqn:E2; cbn [rbind]; try discriminate.
    destruct (add_defaults c st2) as [st3|e s|n] eqn:E3; cbn [rbind]; try discriminate.
    unfold vres_to_res. destruct (validate c (mt st3)) eqn:Ev; try discriminate.
    intros H; inversion H; subst. exists st2. split; [reflexivity|]. split; [exact E3|exact Ev].
  - intros [st2 [E2 [E3 Ev]]]. rewrite E2. cbn [rbind]. rewrite E3. cbn [rbind]. unfold vres_to_res. rewrite Ev. reflexivity.
Qed.

(** success of a level = the state before defaults exists, the validator accepts IT, and the defaults phase succeeds *)
Theorem run_inv_ok_iff c i st : wf_inv c i = true ->
  (run_inv c i = ROk st <->
   exists st2, pre_defaults c i st2 /\ validate c (mt st2) = VOk /\ add_defaults c st2 = ROk st).
Proof.
  intros Hw. destruct (wf_inv_parts c _ Hw) as [Hconv [Hie Hp]].
  assert (Core : forall os st1', (exists st1, react_all c os ps_new = ROk st1 /\ with_sub c i st1 = Some st1') ->
            inv_occs c i = os ->
            (post_loop c st1' = ROk st <-> exists st2, add_env c st1' = ROk st2 /\ validate c (mt st2) = VOk /\ add_defaults c st2 = ROk st)).
  { intros os st1' [st1 [A B]] Eo. rewrite post_loop_split. subst os.
    split; intros [st2 [E2 H]]; exists st2; (split; [exact E2|]).
    - destruct H as [E3 Ev].
      assert (P2 : mt_pending (mt st2) = None) by (apply (pre_defaults_pending c i); exists st1, st1'; auto).
      destruct (defaults_inert c st2 st P2 E3) as [Hv _]. rewrite <- Hv. split; assumption.
    - destruct H as [Ev E3].
      assert (P2 : mt_pending (mt st2) = None) by (apply (pre_defaults_pending c i); exists st1, st1'; auto).
      destruct (defaults_inert c st2 st P2 E3) as [Hv _]. rewrite Hv. split; assumption. }
  unfold pre_defaults.
  destruct i as [its|its name j|its vs].
  - cbn [run_inv inv_occs with_sub] in *.
    destruct (react_all c (occs c 1 its) ps_new) as [st1|e s|n] eqn:E1; cbn [rbind].
    + rewrite (Core _ st1 (ex_intro _ st1 (conj E1 eq_refl)) eq_refl). split.
      * intros [st2 [E2 H]]. exists st2. split; [exists st1, st1; auto|exact H].
      * intros [st2 [[s1 [s1' [A [B C]]]] H]]. inversion A; subst s1. inversion B; subst s1'. exists st2. split; assumption.
    + split; [discriminate|]. intros [st2 [[s1 [s1' [A _]]] _]]. discriminate.
    + split; [discriminate|]. intros [st2 [[s1 [s1' [A _]]] _]]. discriminate.
  - destruct Hp as [Hwi [_ [_ [scn [sc0 [scb [_ [_ [_ [_ [Hch _]]]]]]]]]]].
    cbn [inv_occs with_sub] in *. rewrite Hch in *.
    destruct (run_inv scb j) as [sub_st|e s|n] eqn:Er.
    + rewrite (run_inv_sub_ok c its name j scb sub_st st Hconv Hwi Hch Er). split.
      * intros [st1 [E1 H]].
        rewrite (Core _ _ (ex_intro _ st1 (conj E1 eq_refl)) eq_refl) in H. destruct H as [st2 [E2 H]].
        exists st2. split; [exists st1, (ssub (Some (c_name scb, into_inner (mt sub_st))) st1); auto|exact H].
      * intros [st2 [[s1 [s1' [A [B C]]]] H]]. inversion B; subst s1'. exists s1. split; [exact A|].
        rewrite (Core _ _ (ex_intro _ s1 (conj A eq_refl)) eq_refl). exists st2. split; assumption.
    + split.
      * cbn [run_inv]. rewrite Hch, Er. destruct (apply_items c 1 its ps_new); discriminate.
      * intros [st2 [[s1 [s1' [_ [B _]]]] _]]. discriminate.
    + split.
      * cbn [run_inv]. rewrite Hch, Er. destruct (apply_items c 1 its ps_new); discriminate.
      * intros [st2 [[s1 [s1' [_ [B _]]]] _]]. discriminate.
  - cbn [run_inv inv_occs with_sub] in *.
    destruct (react_all c (occs c 1 its ++ trail_occs c (items_pos c 1 its) vs) ps_new) as [st1|e s|n] eqn:E1; cbn [rbind].
    + rewrite (Core _ st1 (ex_intro _ st1 (conj E1 eq_refl)) eq_refl). split.
      * intros [st2 [E2 H]]. exists st2. split; [exists st1, st1; auto|exact H].
      * intros [st2 [[s1 [s1' [A [B C]]]] H]]. inversion A; subst s1. inversion B; subst s1'. exists st2. split; assumption.
    + split; [discriminate|]. intros [st2 [[s1 [s1' [A _]]] _]]. discriminate.
    + split; [discriminate|]. intros [st2 [[s1 [s1' [A _]]] _]]. discriminate.
Qed.

(** the state before defaults does not depend on the default values *)
Theorem ni_pre_defaults f c i st2 : pre_defaults (with_defaults f c) i st2 <-> pre_defaults c i st2.
Proof.
  unfold pre_defaults. rewrite ni_inv_occs.
  assert (Ew : forall st1, with_sub (with_defaults f c) i st1 = with_sub c i st1) by (intros st1; destruct i; reflexivity).
  split; intros [st1 [st1' [A [B C]]]]; exists st1, st1'.
  - rewrite ni_react_all in A. rewrite Ew in B. rewrite ni_add_env in C. auto.
  - rewrite ni_react_all, Ew, ni_add_env. auto.
Qed.

Definition is_default (p : id * marg) : Prop := m_source (snd p) = Some SDefault.

(** NON-INTERFERENCE.  [c] and [c' = with_defaults f c] (any other plain defaults for the arguments of
    the level), the same rendered invocation [i], well formed for both:
    (1) the state [st2] before the defaults phase is the same;
    (2) each parse succeeds iff that state exists, the validator accepts it (the verdict is computed
        without any default value and is the same for both) and ITS OWN defaults phase succeeds
        (it fails only when a value parser rejects a default value);
    (3) when both succeed, the results are that same [st2] followed by entries labelled
        DefaultValue only: the explicit entries, the subcommand's matches and [args_present] agree. *)
Theorem defaults_noninterference f c i : wf_inv c i = true -> wf_inv (with_defaults f c) i = true ->
  (forall st2, pre_defaults (with_defaults f c) i st2 <-> pre_defaults c i st2)
  /\ (forall st, run_inv c i = ROk st <->
        exists st2, pre_defaults c i st2 /\ validate c (mt st2) = VOk /\ add_defaults c st2 = ROk st)
  /\ (forall st', run_inv (with_defaults f c) i = ROk st' <->
        exists st2, pre_defaults c i st2 /\ validate c (mt st2) = VOk /\ add_defaults (with_defaults f c) st2 = ROk st')
  /\ (forall st st', run_inv c i = ROk st -> run_inv (with_defaults f c) i = ROk st' ->
        explicit_entries (mt st') = explicit_entries (mt st) /\ mt_sub (mt st') = mt_sub (mt st)
        /\ args_present (into_inner (mt st')) = args_present (into_inner (mt st))
        /\ (forall j p, check_explicit (mt st') j p = check_explicit (mt st) j p)
        /\ exists st2 news news', pre_defaults c i st2
             /\ mt_args (mt st) = mt_args (mt st2) ++ news /\ mt_args (mt st') = mt_args (mt st2) ++ news'
             /\ Forall is_default news /\ Forall is_default news').
Proof.
  intros Hw Hw'.
  assert (R' : forall st', run_inv (with_defaults f c) i = ROk st' <->
        exists st2, pre_defaults c i st2 /\ validate c (mt st2) = VOk /\ add_defaults (with_defaults f c) st2 = ROk st').
  { intros st'. rewrite (run_inv_ok_iff _ i st' Hw'). split; intros [st2 [A [B C]]]; exists st2.
    - rewrite ni_pre_defaults in A. rewrite ni_validate in B. auto.
    - rewrite ni_pre_defaults, ni_validate. auto. }
  split; [intros st2; apply ni_pre_defaults|]. split; [intros st; apply run_inv_ok_iff; exact Hw|]. split; [exact R'|].
  intros st st' H H'. apply (run_inv_ok_iff c i st Hw) in H. apply R' in H'.
  destruct H as [st2 [A [B C]]]. destruct H' as [st2' [A' [B' C']]].
  pose proof (pre_defaults_det c i _ _ A A'). subst st2'.
  pose proof (pre_defaults_pending c i st2 A) as P2.
  destruct (defaults_inert c st2 st P2 C) as [_ [X1 X2]].
  destruct (defaults_inert _ st2 st' P2 C') as [_ [X1' X2']].
  destruct (add_defaults_frame c st2 st P2 C) as [_ [S [[news [N F]] _]]].
  destruct (add_defaults_frame _ st2 st' P2 C') as [_ [S' [[news' [N' F']] _]]].
  split; [rewrite X1, X1'; reflexivity|]. split; [rewrite S, S'; reflexivity|].
  split; [rewrite (args_present_ignores_defaults c st2 st P2 C), (args_present_ignores_defaults _ st2 st' P2 C'); reflexivity|].
  split; [intros j p; rewrite X2, X2'; reflexivity|].
  exists st2, news, news'. split; [exact A|]. split; [exact N|]. split; [exact N'|].
  split; (eapply Forall_impl; [|eassumption]); intros p [Hs _]; exact Hs.
Qed.

(** the explicit part of reported matches *)
Definition explicit_of (m : matches) : list (id * marg) := filter (fun p => check_explicit_m PIsPresent (snd p)) (ms_args m).

(** ... at [parse_top]: two definitions whose built forms differ only in plain default values
    (a hypothesis that is an equation between two computed records), trees without global arguments *)
Theorem parse_top_defaults_ni c0 c0' bin f i m m' :
  is_set s_no_binary_name c0 = false -> is_set s_no_binary_name c0' = false ->
  valid (with_bin c0 bin) = true -> valid (with_bin c0' bin) = true ->
  build_self (with_bin c0' bin) = with_defaults f (build_self (with_bin c0 bin)) ->
  wf_inv (build_self (with_bin c0 bin)) i = true -> wf_inv (with_defaults f (build_self (with_bin c0 bin))) i = true ->
  no_globals (build_recursive (S (S (depth (build_self (with_bin c0 bin))))) (with_bin c0 bin)) = true ->
  no_globals (build_recursive (S (S (depth (build_self (with_bin c0' bin))))) (with_bin c0' bin)) = true ->
  parse_top c0 (bin :: render_inv i) = OOk m -> parse_top c0' (bin :: render_inv i) = OOk m' ->
  explicit_of m' = explicit_of m /\ ms_sub m' = ms_sub m /\ args_present m' = args_present m.
Proof.
  intros Hn Hn' Hv Hv' Eb Hw Hw' Hg Hg' H H'.
  destruct (parse_top_ok_run c0 bin i m Hn Hv Hw Hg H) as [st [Hr Em]].
  assert (Hw2 : wf_inv (build_self (with_bin c0' bin)) i = true) by (rewrite Eb; exact Hw').
  destruct (parse_top_ok_run c0' bin i m' Hn' Hv' Hw2 Hg' H') as [st' [Hr' Em']].
  rewrite Eb in Hr'.
  destruct (defaults_noninterference f _ i Hw Hw') as [_ [_ [_ N]]].
  destruct (N st st' Hr Hr') as [X1 [X2 [X3 _]]]. subst m m'.
  split; [exact X1|]. split; [exact X2|exact X3].
Qed.

(** ... and for [get_matches_with] at the root of any tree *)
Theorem gmw_defaults_ni f c i fu st st' :
  valid_tree (S fu) c = true -> valid_tree (S fu) (with_defaults f c) = true ->
  wf_inv c i = true -> wf_inv (with_defaults f c) i = true ->
  get_matches_with (S fu) c (render_inv i) ps_new = ROk st ->
  get_matches_with (S fu) (with_defaults f c) (render_inv i) ps_new = ROk st' ->
  explicit_entries (mt st') = explicit_entries (mt st) /\ mt_sub (mt st') = mt_sub (mt st)
  /\ args_present (into_inner (mt st')) = args_present (into_inner (mt st))
  /\ (forall j p, check_explicit (mt st') j p = check_explicit (mt st) j p).
Proof.
  intros Hv Hv' Hw Hw' H H'. rewrite (gmw_inv i c fu Hv Hw) in H. rewrite (gmw_inv i _ fu Hv' Hw') in H'.
  destruct (defaults_noninterference f c i Hw Hw') as [_ [_ [_ N]]].
  destruct (N st st' H H') as [X1 [X2 [X3 [X4 _]]]]. repeat split; assumption.
Qed.

(** * the arguments whose defaults were NOT changed
    Class: no [default_value_if] rule of any argument reads an argument whose plain defaults were
    changed.  Then every id that is not a changed argument reports the same source and the same
    raw values in both results (the indices of DefaultValue entries may differ: the counter runs
    over the changed defaults too). *)
Section Unchanged.
Variable f : arg -> list bytes.
Variable c : cmd.
Notation g := (redef f).
Notation c' := (with_defaults f c).

Definition changed_id (i : id) : Prop := exists a, In a (c_args c) /\ a_id a = i /\ f a <> a_default a.
Definition difs_avoid_changed : Prop :=
  forall b r, In b (c_args c) -> In r (a_default_ifs b) -> ~ changed_id (fst (fst r)).
Definition view (e : marg) : option src * list (list bytes) := (m_source e, m_raw e).
Definition agree (m m' : matcher) : Prop :=
  forall i, ~ changed_id i -> opt_map view (fm_get i (mt_args m)) = opt_map view (fm_get i (mt_args m')).

Lemma agree_rule m m' r : agree m m' -> ~ changed_id (fst (fst r)) -> rule_holds m r = rule_holds m' r.
Proof.
  intros Ha Hn. destruct r as [[i p] d]. cbn [fst] in Hn. specialize (Ha i Hn). unfold rule_holds.
  destruct (fm_get i (mt_args m)) as [e|], (fm_get i (mt_args m')) as [e'|]; cbn [opt_map] in Ha; try discriminate; [|reflexivity].
  unfold view in Ha. injection Ha as _ Hr. rewrite Hr. reflexivity.
Qed.

Lemma choice_transfer b m m' ch : f b = a_default b ->
  (forall r, In r (a_default_ifs b) -> rule_holds m r = rule_holds m' r) ->
  default_choice b m ch -> default_choice (g b) m' ch.
Proof.
  intros Hf Hr H. destruct H as [l1 i p d l2 E Hn Hh|Hn].
  - apply (DC_rule (g b) m' l1 i p d l2).
    + exact E.
    + intros r Hin. rewrite <- Hr; [apply Hn; exact Hin|]. change (a_default_ifs b) with (a_default_ifs b).
      rewrite E. apply in_or_app. left. exact Hin.
    + rewrite <- Hr; [exact Hh|]. rewrite E. apply in_or_app. right. left. reflexivity.
  - replace (if is_nil (a_default b) then None else Some (a_default b))
      with (if is_nil (a_default (g b)) then None else Some (a_default (g b))).
    + apply DC_plain. intros r Hin. rewrite <- Hr; [apply Hn; exact Hin|exact Hin].
    + change (a_default (g b)) with (f b). rewrite Hf. reflexivity.
Qed.

(** what one [add_default_value] does to the matcher *)
Lemma adv_effect c0 b s t : mt_pending (mt s) = None -> add_default_value c0 b s = ROk t ->
  mt_pending (mt t) = None /\
  (t = s \/ exists raw vs e, fm_get (a_id b) (mt_args (mt s)) = None /\ default_choice b (mt s) (Some raw)
              /\ delimit c0 b raw None = Some vs /\ mt_args (mt t) = mt_args (mt s) ++ [(a_id b, e)]
              /\ m_source e = Some SDefault /\ m_raw e = [vs]).
Proof.
  intros Hp H. destruct (add_default_value_spec c0 b s t Hp H) as [Hpres Habs].
  destruct (fm_get (a_id b) (mt_args (mt s))) as [e|] eqn:Eg.
  - assert (t = s) by (apply Hpres; discriminate). subst t. split; [exact Hp|left; reflexivity].
  - destruct (Habs eq_refl) as [[raw|] [Hch Hres]].
    + destruct Hres as [vs [e [Hd [_ [A1 [Se [Re [_ [P1 _]]]]]]]]]. split; [congruence|].
      right. exists raw, vs, e. repeat split; assumption.
    + subst t. split; [exact Hp|left; reflexivity].
Qed.

Lemma agree_append_changed m m' l l' : agree m m' ->
  (mt_args m = l) -> (mt_args m' = l') ->
  forall k e (x x' : matcher), changed_id k ->
  (mt_args x = l \/ mt_args x = l ++ [(k, e)]) -> (mt_args x' = l' \/ exists e', mt_args x' = l' ++ [(k, e')]) -> agree x x'.
Proof.
  intros Ha El El' k e x x' Hk Hx Hx' i Hi. specialize (Ha i Hi). rewrite El, El' in Ha.
  assert (Hne : beq k i = false) by (apply beq_neq; intros ->; exact (Hi Hk)).
  assert (E1 : fm_get i (mt_args x) = fm_get i l).
  { destruct Hx as [->| ->]; [reflexivity|]. rewrite fm_get_app. cbn [fm_get]. rewrite Hne. destruct (fm_get i l); reflexivity. }
  assert (E2 : fm_get i (mt_args x') = fm_get i l').
  { destruct Hx' as [->|[e' ->]]; [reflexivity|]. rewrite fm_get_app. cbn [fm_get]. rewrite Hne. destruct (fm_get i l'); reflexivity. }
  rewrite E1, E2. exact Ha.
Qed.

Hypothesis Hids : NoDup (map a_id (c_args c)).
Hypothesis Hdif : difs_avoid_changed.

Lemma adv_step b s s' t t' : In b (c_args c) ->
  mt_pending (mt s) = None -> mt_pending (mt s') = None -> agree (mt s) (mt s') ->
  add_default_value c b s = ROk t -> add_default_value c' (g b) s' = ROk t' ->
  agree (mt t) (mt t') /\ mt_pending (mt t) = None /\ mt_pending (mt t') = None.
Proof.
  intros Hin Hp Hp' Ha H H'.
  destruct (adv_effect c b s t Hp H) as [Pt Et]. destruct (adv_effect c' (g b) s' t' Hp' H') as [Pt' Et'].
  split; [|split; assumption]. change (a_id (g b)) with (a_id b) in Et'.
  destruct (list_eq_dec (list_eq_dec N.eq_dec) (f b) (a_default b)) as [Hf|Hf].
  - (* an unchanged argument *)
    assert (Hnc : ~ changed_id (a_id b)).
    { intros [a [Hina [Hid Hfa]]]. assert (a = b) by (eapply nodup_map_inj; eassumption). subst a. exact (Hfa Hf). }
    assert (Hrules : forall r, In r (a_default_ifs b) -> rule_holds (mt s) r = rule_holds (mt s') r).
    { intros r Hr. apply agree_rule; [exact Ha|]. apply (Hdif b r Hin Hr). }
    pose proof (Ha (a_id b) Hnc) as Hb.
    destruct Et as [->|[raw [vs [e [Gn [Hch [Hd [A1 [Se Re]]]]]]]]].
    + destruct Et' as [->|[raw' [vs' [e' [Gn' [Hch' _]]]]]]; [exact Ha|].
      (* c adds nothing, c' adds: impossible unless the choices differ *)
      exfalso. rewrite Gn' in Hb. destruct (fm_get (a_id b) (mt_args (mt s))) as [e0|] eqn:G0; [discriminate|].
      destruct (add_default_value_spec c b s s Hp H) as [_ Habs]. destruct (Habs G0) as [ch [Hch Hres]].
      pose proof (choice_transfer b (mt s) (mt s') ch Hf Hrules Hch) as Ht.
      pose proof (default_choice_det _ _ _ _ Ht Hch') as E. subst ch.
      destruct Hres as [vs0 [e0 [_ [_ [A0 _]]]]]. apply (f_equal (@length _)) in A0. rewrite app_length in A0. cbn in A0. lia.
    + pose proof (choice_transfer b (mt s) (mt s') (Some raw) Hf Hrules Hch) as Ht.
      destruct Et' as [->|[raw' [vs' [e' [Gn' [Hch' [Hd' [A1' [Se' Re']]]]]]]]].
      * exfalso. rewrite Gn in Hb. destruct (fm_get (a_id b) (mt_args (mt s'))) as [e0|] eqn:G0; [discriminate|].
        destruct (add_default_value_spec c' (g b) s' s' Hp' H') as [_ Habs]. destruct (Habs G0) as [ch [Hch0 Hres]].
        pose proof (default_choice_det _ _ _ _ Ht Hch0) as E. subst ch.
        destruct Hres as [vs0 [e0 [_ [_ [A0 _]]]]]. apply (f_equal (@length _)) in A0. rewrite app_length in A0. cbn in A0. lia.
      * pose proof (default_choice_det _ _ _ _ Ht Hch') as E. inversion E; subst raw'.
        change (delimit c' (g b) raw None) with (delimit c b raw None) in Hd'. rewrite Hd in Hd'. inversion Hd'; subst vs'.
        intros i Hi. rewrite A1, A1', !fm_get_app. specialize (Ha i Hi).
        destruct (fm_get i (mt_args (mt s))) as [x|], (fm_get i (mt_args (mt s'))) as [x'|]; cbn [opt_map] in Ha |- *; try discriminate; [exact Ha|].
        cbn [fm_get]. destruct (beq (a_id b) i); [|reflexivity]. cbn [opt_map]. unfold view. rewrite Se, Se', Re, Re'. reflexivity.
  - (* a changed argument: only its own id is touched *)
    assert (Hk : changed_id (a_id b)) by (exists b; repeat split; assumption).
    destruct Et as [->|[raw [vs [e [_ [_ [_ [A1 _]]]]]]]].
    + apply (agree_append_changed (mt s) (mt s') _ _ Ha eq_refl eq_refl (a_id b) (marg_new false false) _ _ Hk (or_introl eq_refl)).
      destruct Et' as [->|[raw' [vs' [e' [_ [_ [_ [A1' _]]]]]]]]; [left; reflexivity|right; exists e'; exact A1'].
    + apply (agree_append_changed (mt s) (mt s') _ _ Ha eq_refl eq_refl (a_id b) e _ _ Hk (or_intror A1)).
      destruct Et' as [->|[raw' [vs' [e' [_ [_ [_ [A1' _]]]]]]]]; [left; reflexivity|right; exists e'; exact A1'].
Qed.

Lemma defaults_fold_agree : forall l s s' t t', (forall b, In b l -> In b (c_args c)) ->
  mt_pending (mt s) = None -> mt_pending (mt s') = None -> agree (mt s) (mt s') ->
  fold_left (defaults_step c) l (ROk s) = ROk t -> fold_left (defaults_step c') (map g l) (ROk s') = ROk t' ->
  agree (mt t) (mt t').
Proof.
  induction l as [|b l IH]; intros s s' t t' Hl Hp Hp' Ha H H'; cbn [map fold_left] in *.
  - inversion H; inversion H'; subst. exact Ha.
  - unfold defaults_step at 2 in H. unfold defaults_step at 2 in H'. cbn [rbind] in H, H'.
    destruct (add_default_value c b s) as [s1|e1 x1|n1] eqn:E1;
      [|rewrite defaults_fold_err in H; discriminate|rewrite defaults_fold_panic in H; discriminate].
    destruct (add_default_value c' (g b) s') as [s1'|e1' x1'|n1'] eqn:E1';
      [|rewrite defaults_fold_err in H'; discriminate|rewrite defaults_fold_panic in H'; discriminate].
    destruct (adv_step b s s' s1 s1' (Hl b (or_introl eq_refl)) Hp Hp' Ha E1 E1') as [Ha1 [P1 P1']].
    apply (IH s1 s1' t t' (fun b0 Hb0 => Hl b0 (or_intror Hb0)) P1 P1' Ha1 H H').
Qed.

End Unchanged.

(** NON-INTERFERENCE, part 2: when no conditional default reads a changed argument, every id that
    is not a changed argument -- in particular every argument whose defaults were kept -- reports
    the same source and the same values in both results *)
Theorem defaults_unchanged_agree f c i st st' : wf_inv c i = true -> wf_inv (with_defaults f c) i = true ->
  difs_avoid_changed f c ->
  run_inv c i = ROk st -> run_inv (with_defaults f c) i = ROk st' ->
  forall j, ~ changed_id f c j ->
    opt_map view (fm_get j (mt_args (mt st'))) = opt_map view (fm_get j (mt_args (mt st))).
Proof.
  intros Hw Hw' Hdif H H' j Hj.
  destruct (defaults_noninterference f c i Hw Hw') as [_ [R [R' _]]].
  apply R in H. apply R' in H'. destruct H as [st2 [A [_ C]]]. destruct H' as [st2' [A' [_ C']]].
  pose proof (pre_defaults_det c i _ _ A A'). subst st2'.
  pose proof (pre_defaults_pending c i st2 A) as P2.
  destruct (wf_inv_parts c _ Hw) as [Hconv _].
  destruct (assert_app_ids_distinct c (conv_app c Hconv)) as [Hnd _].
  rewrite add_defaults_unfold in C, C'. change (c_args (with_defaults f c)) with (map (redef f) (c_args c)) in C'.
  symmetry. apply (defaults_fold_agree f c Hnd Hdif (c_args c) st2 st2 st st' (fun b Hb => Hb) P2 P2); [|exact C|exact C'|exact Hj].
  intros k _. reflexivity.
Qed.

(** the class as a boolean *)
Fixpoint lbeq (x y : list bytes) : bool :=
  match x, y with
  | [], [] => true
  | a :: x', b :: y' => beq a b && lbeq x' y'
  | _, _ => false
  end.
Lemma lbeq_eq : forall x y, lbeq x y = true -> x = y.
Proof.
  induction x as [|a x IH]; destruct y as [|b y]; cbn [lbeq]; try discriminate; [reflexivity|].
  intros H. apply andb_prop in H. destruct H as [H1 H2]. apply beq_eq in H1. rewrite H1, (IH y H2). reflexivity.
Qed.
Definition changed_b (f : arg -> list bytes) (a : arg) : bool := negb (lbeq (f a) (a_default a)).
Definition difs_avoid_b (f : arg -> list bytes) (c : cmd) : bool :=
  forallb (fun b => forallb (fun r => negb (existsb (fun a => beq (a_id a) (fst (fst r)) && changed_b f a) (c_args c)))
                            (a_default_ifs b)) (c_args c).
Lemma difs_avoid_b_spec f c : difs_avoid_b f c = true -> difs_avoid_changed f c.
Proof.
  unfold difs_avoid_b. intros H b r Hb Hr [a [Ha [Hid Hf]]].
  rewrite forallb_forall in H. specialize (H b Hb). cbv beta in H. rewrite forallb_forall in H. specialize (H r Hr). cbv beta in H.
  assert (E : existsb (fun a0 => beq (a_id a0) (fst (fst r)) && changed_b f a0) (c_args c) = true).
  { apply existsb_exists. exists a. split; [exact Ha|]. rewrite Hid, beq_refl. cbn [andb]. unfold changed_b.
    destruct (lbeq (f a) (a_default a)) eqn:E; [|reflexivity]. apply lbeq_eq in E. contradiction. }
  unfold id in *. rewrite E in H. discriminate.
Qed.
Lemma unchanged_arg_id f c a : NoDup (map a_id (c_args c)) -> In a (c_args c) -> f a = a_default a -> ~ changed_id f c (a_id a).
Proof.
  intros Hnd Hin Hf [a' [Hin' [Hid Hf']]]. assert (a' = a) by (eapply nodup_map_inj; eassumption). subst a'. exact (Hf' Hf).
Qed.

(** the statement for arguments: an argument whose plain defaults were kept reports the same source and values *)
Theorem defaults_unchanged_args f c i st st' : wf_inv c i = true -> wf_inv (with_defaults f c) i = true ->
  difs_avoid_b f c = true ->
  run_inv c i = ROk st -> run_inv (with_defaults f c) i = ROk st' ->
  forall a, In a (c_args c) -> f a = a_default a ->
    opt_map view (fm_get (a_id a) (mt_args (mt st'))) = opt_map view (fm_get (a_id a) (mt_args (mt st))).
Proof.
  intros Hw Hw' Hd H H' a Hin Hf.
  apply (defaults_unchanged_agree f c i st st' Hw Hw' (difs_avoid_b_spec f c Hd) H H').
  destruct (wf_inv_parts c _ Hw) as [Hconv _].
  destruct (assert_app_ids_distinct c (conv_app c Hconv)) as [Hnd _].
  apply unchanged_arg_id; assumption.
Qed.
