(** Property C10, round 2: whole-parse soundness of EVERY error kind.

    One traversal of the parser model (partial correctness: panics are dealt with by C01) carries a
    self-contained invariant [K] that links the matcher to the command line of the level:

    - every entry of the matcher whose source is the command line belongs to an argument that a
      token of the line names (a long flag / alias / unique prefix, a character of a short cluster,
      or -- for a positional -- some token), or to a group of such an argument; an entry whose
      source is the environment belongs to an argument that declares an environment value;
    - the pending occurrence belongs to such an argument and its raw values are pieces of tokens.

    and classifies every error by the site that raised it, together with what the site knows:
    the argument, where the values of the occurrence come from ([origin], Provenance.v), the count /
    value / repetition cause, the offending token, or -- for the validator -- the matcher it ran on.
    [get_matches_with] lifts this to the chain of subcommand levels, [parse_top] to the whole parse. *)
From ClapModel Require Import Base.Bytes Base.Machine Base.Utf8 Lex.OsStrExtModel Lex.OsStrExtProofs.
From ClapModel Require Import Parse.Cmd Parse.Build Parse.Valid Parse.Matcher Parse.Errors Parse.Validator Parse.Parser.
From ClapModel Require Import ParseProofs.Safe ParseProofs.Invariant ParseProofs.Totality ParseProofs.TotalityMain
                              ParseProofs.Provenance ParseProofs.ErrorSound.
From Coq Require Import ZArith Lia.
From RecordUpdate Require Import RecordSet.
Import RecordSetNotations.
Open Scope N_scope.

(** * partial-correctness predicate on results: what holds of a success, what holds of an error *)
Definition okE {A} (Qok : A -> Prop) (Qerr : error -> Prop) (r : res A) : Prop :=
  match r with ROk a => Qok a | RErr e _ => Qerr e | RPanic _ => True end.

Lemma okE_bind {A B} (Q1 : A -> Prop) (Q2 : B -> Prop) Qe (r : res A) (f : A -> res B) :
  okE Q1 Qe r -> (forall a, Q1 a -> okE Q2 Qe (f a)) -> okE Q2 Qe (rbind r f).
Proof. destruct r; cbn; auto. Qed.

Lemma okE_weaken {A} (Q1 Q2 : A -> Prop) (Qe1 Qe2 : error -> Prop) (r : res A) :
  okE Q1 Qe1 r -> (forall a, Q1 a -> Q2 a) -> (forall e, Qe1 e -> Qe2 e) -> okE Q2 Qe2 r.
Proof. destruct r; cbn; auto. Qed.

Lemma okE_expect {A} (Q : A -> Prop) Qe site (o : option A) :
  (forall a, o = Some a -> Q a) -> okE Q Qe (expect site o).
Proof. destruct o; cbn; auto. Qed.

(** [v] is a suffix of a token: what an attached value / a cluster remainder is *)
Definition suffix_of {A} (s l : list A) : Prop := exists pre, l = pre ++ s.
Lemma suffix_refl {A} (l : list A) : suffix_of l l.
Proof. exists []. reflexivity. Qed.
Lemma suffix_tail {A} (x : A) s l : suffix_of (x :: s) l -> suffix_of s l.
Proof. intros [pre ->]. exists (pre ++ [x]). rewrite <- app_assoc. reflexivity. Qed.
Lemma suffix_in {A} (x : A) s l : suffix_of (x :: s) l -> In x l.
Proof. intros [pre ->]. apply in_or_app. right. left. reflexivity. Qed.
Lemma suffix_incl {A} (s l : list A) : suffix_of s l -> forall x, In x s -> In x l.
Proof. intros [pre ->] x Hx. apply in_or_app. right. exact Hx. Qed.

Section Level.
Variable c : cmd.
(** the whole token list of this level *)
Variable T : list bytes.
Hypothesis W3 : forall a, In a (c_args c) -> find_arg c (a_id a) = Some a.

(** ** which argument a token names (key map lookups and lexing only, no parser code) *)
Definition long_selects (f : bytes) (a : arg) : Prop :=
  get_long c f = Some a
  \/ (is_set s_infer_long c = true /\ In a (c_args c) /\ a_is_positional a = false /\
      ((exists l, a_long a = Some l /\ is_prefix f l = true)
       \/ existsb (fun p => is_prefix f (fst p)) (a_aliases a) = true)).
(** [ch] is decoded at some offset of the cluster [r] and is a short key of [a] *)
Definition short_selects (r : bytes) (a : arg) : Prop :=
  exists n ch r', sf_next (skipn n r) = Some (inl ch, r') /\ get_short c ch = Some a.
Definition token_names (tok : bytes) (a : arg) : Prop :=
  (exists f ok v, to_long tok = Some (f, ok, v) /\ long_selects f a)
  \/ (exists r, to_short tok = Some r /\ short_selects r a)
  \/ a_index a <> None.
Definition occurs (a : arg) : Prop := exists tok, In tok T /\ token_names tok a.
Definition Sel (a : arg) : Prop := In a (c_args c) /\ occurs a.

(** ids (of arguments and of their groups) that the line, resp. the environment, accounts for *)
Definition selId (i : id) : Prop :=
  exists a, Sel a /\ (a_id a = i \/ In i (groups_for_arg c (a_id a))).
Definition envId (i : id) : Prop :=
  exists a, In a (c_args c) /\ a_env a <> None /\ (a_id a = i \/ In i (groups_for_arg c (a_id a))).

Definition okSrc (i : id) (s : option src) : Prop :=
  match s with
  | Some SCmdLine => selId i
  | Some SEnv => selId i \/ envId i
  | Some SDefault => True
  | None => False
  end.
(** when a reaction with source [s] may create / touch the entry [i] *)
Definition introOK (i : id) (s : src) : Prop :=
  match s with SCmdLine => selId i | SEnv => selId i \/ envId i | SDefault => True end.

Definition Vt : bytes -> Prop := origin c T.

Definition entK (l : list (id * marg)) : Prop := forall i m, In (i, m) l -> okSrc i (m_source m).
Definition pendK (m : matcher) : Prop :=
  forall p, mt_pending m = Some p ->
    (exists a, find_arg c (p_id p) = Some a /\ Sel a) /\ Forall Vt (p_raw p).
Definition KM (m : matcher) : Prop := pendK m /\ entK (mt_args m).
Definition K (st : ps) : Prop := KM (mt st).

(** the matcher is faithful to the line: what [K] says about the entries, in the vocabulary of the
    validator ([explicit_entries]: source command line or environment) *)
Definition faithful (m : matcher) : Prop :=
  forall i ma, In (i, ma) (explicit_entries m) ->
    (m_source ma = Some SCmdLine /\ selId i) \/ (m_source ma = Some SEnv /\ (selId i \/ envId i)).

Lemma K_faithful st : K st -> faithful (mt st).
Proof.
  intros [_ He] i ma Hin. unfold explicit_entries in Hin. apply filter_In in Hin. destruct Hin as [Hin Hex].
  specialize (He i ma Hin). cbn [snd] in Hex. unfold check_explicit_m in Hex.
  destruct (m_source ma) as [[| |]|]; cbn in *; try discriminate; try contradiction; auto.
Qed.

(** ** provenance facts *)
Lemma Vt_ok : Vok c Vt /\ Forall (fun tok => forall n, Vt (skipn n tok)) T.
Proof. apply origin_Vok. Qed.
Lemma Vt_tok tok n : In tok T -> Vt (skipn n tok).
Proof. intros Hin. destruct Vt_ok as [_ H]. rewrite Forall_forall in H. apply H. exact Hin. Qed.

(** ** entries: closure under the primitive matcher operations *)
Lemma okSrc_set i s0 s : okSrc i (Some s0) -> introOK i s -> okSrc i (Some (src_max s0 s)).
Proof. destruct s0; destruct s; cbn; auto; try tauto. Qed.

Lemma entK_remove l i : entK l -> entK (fst (fm_remove i l)).
Proof. intros H j m Hin. apply (H j m). apply (fm_remove_incl _ _ _ Hin). Qed.

Lemma entK_update l i f : entK l ->
  (forall k v, In (k, v) l -> beq k i = true -> okSrc k (m_source (f v))) -> entK (fm_update i f l).
Proof.
  intros H Hf j m Hin. destruct (fm_update_in _ _ _ _ _ Hin) as [H1|[v [H1 [-> Hb]]]]; [apply (H j m H1)|].
  apply Hf; assumption.
Qed.

Lemma entK_update_src l i f : entK l -> (forall v, m_source (f v) = m_source v) -> entK (fm_update i f l).
Proof. intros H Hf. apply entK_update; [exact H|]. intros k v Hin _. rewrite Hf. apply (H k v Hin). Qed.

Lemma entK_update_const l i m0 m' : entK l -> fm_get i l = Some m0 -> m_source m' = m_source m0 ->
  entK (fm_update i (fun _ => m') l).
Proof.
  intros H Hg Hs. apply entK_update; [exact H|]. intros k v Hin Hb. apply beq_eq in Hb. subst k.
  rewrite Hs. apply Safe.fm_get_in in Hg. destruct Hg as [k' [Hin' Hb']]. apply beq_eq in Hb'. subst k'.
  apply (H i m0 Hin').
Qed.

Lemma entK_entry l i ic grp s : entK l -> introOK i s ->
  entK (fm_entry_or_insert i (marg_new ic grp) (fun m => new_val_group (set_source s m)) l).
Proof.
  intros H Hi j m Hin.
  destruct (fm_entry_or_insert_in _ _ _ _ _ _ Hin) as [H1|[[v [H1 [-> Hb]]]|[-> ->]]].
  - apply (H j m H1).
  - apply beq_eq in Hb. subst j. cbn. pose proof (H i v H1) as Hv.
    destruct (m_source v) as [s0|]; [apply okSrc_set; assumption|contradiction].
  - cbn. destruct s; exact Hi.
Qed.

Lemma append_val_source v m m' : append_val v m = Some m' -> m_source m' = m_source m.
Proof. unfold append_val. destruct (push_last v (m_raw m)); [|discriminate]. intros H; inversion H; reflexivity. Qed.

Lemma KM_remove m i : KM m -> KM (fst (mt_remove m i)) /\ mt_pending (fst (mt_remove m i)) = mt_pending m.
Proof.
  intros [Hp He]. unfold mt_remove. destruct (fm_remove i (mt_args m)) as [l b] eqn:E. cbn [fst].
  split; [split|reflexivity].
  - intros p Hp'. autorewrite with ps in Hp'. apply Hp. exact Hp'.
  - autorewrite with ps. pose proof (entK_remove (mt_args m) i He) as H. rewrite E in H. exact H.
Qed.

Lemma KM_remove_fold ids : forall m, KM m ->
  KM (fold_left (fun m o => fst (mt_remove m o)) ids m)
  /\ mt_pending (fold_left (fun m o => fst (mt_remove m o)) ids m) = mt_pending m.
Proof.
  induction ids as [|i t IH]; intros m H; cbn [fold_left]; [split; [exact H|reflexivity]|].
  destruct (KM_remove m i H) as [H1 H2]. destruct (IH _ H1) as [H3 H4]. split; [exact H3|congruence].
Qed.

Lemma remove_overrides_KM a m : KM m ->
  KM (remove_overrides c a m) /\ mt_pending (remove_overrides c a m) = mt_pending m.
Proof.
  intros H. unfold remove_overrides.
  destruct (KM_remove_fold (a_overrides a) m H) as [H1 H2].
  match goal with |- KM (fold_left _ ?ids ?m1) /\ _ => destruct (KM_remove_fold ids m1 H1) as [H3 H4] end.
  split; [exact H3|congruence].
Qed.

(** [start_custom_arg]: never an error; entries stay accounted for; the pending occurrence is untouched *)
Lemma start_custom_arg_KM a s m : KM m -> introOK (a_id a) s ->
  (forall g, In g (groups_for_arg c (a_id a)) -> introOK g s) ->
  match start_custom_arg c a s m with
  | ROk m' => KM m' /\ mt_pending m' = mt_pending m
  | RErr _ _ => False
  | RPanic _ => True
  end.
Proof.
  intros H Hi Hg. unfold start_custom_arg.
  set (m1 := match s with SCmdLine => remove_overrides c a m | _ => m end).
  assert (H1 : KM m1 /\ mt_pending m1 = mt_pending m).
  { subst m1. destruct s; try (split; [exact H|reflexivity]). apply remove_overrides_KM; exact H. }
  destruct H1 as [[H1p H1e] H1q].
  set (m2 := start_custom_arg_m m1 a s).
  assert (H2 : KM m2 /\ mt_pending m2 = mt_pending m).
  { subst m2. unfold start_custom_arg_m. split; [split|autorewrite with ps; exact H1q].
    - intros p Hp. autorewrite with ps in Hp. apply H1p; exact Hp.
    - autorewrite with ps. apply entK_entry; assumption. }
  destruct (src_explicit s); [|exact H2].
  revert Hg. generalize (groups_for_arg c (a_id a)) as gs.
  assert (Hacc : match (ROk m2 : res matcher) with
                 | ROk m' => KM m' /\ mt_pending m' = mt_pending m | RErr _ _ => False | RPanic _ => True end)
    by exact H2.
  revert Hacc. generalize (ROk m2 : res matcher) as acc.
  intros acc Hacc gs. revert acc Hacc. induction gs as [|g gs IH]; intros acc Hacc Hgs; cbn [fold_left]; [exact Hacc|].
  apply IH; [|intros g' Hg'; apply Hgs; right; exact Hg'].
  destruct acc as [m0|e st0|site]; cbn [rbind]; [|contradiction|exact I].
  destruct Hacc as [[Hp He] Hq].
  unfold start_custom_group_m, add_val_to. autorewrite with ps.
  destruct (fm_get g _) as [v|] eqn:Hv; cbn [expect]; [|exact I].
  destruct (append_val (a_id a) v) as [m'|] eqn:Ha; cbn [expect]; [|exact I].
  split; [split|autorewrite with ps; exact Hq].
  - intros p Hp'. autorewrite with ps in Hp'. apply Hp; exact Hp'.
  - autorewrite with ps. eapply entK_update_const; [|exact Hv|eapply append_val_source; exact Ha].
    apply entK_entry; [exact He|]. apply Hgs. left; reflexivity.
Qed.

(** [push_arg_values]: an error names a value of the list that the argument's parser rejects *)
Lemma push_arg_values_KM a : forall raw st, K st ->
  okE (fun s => K s /\ mt_pending (mt s) = mt_pending (mt st))
      (fun e => exists vp v, a_vp a = Some vp /\ In v raw /\ vp_parse vp v = Some (e_kind e) /\ e_arg e = a_id a)
      (push_arg_values c a raw st).
Proof.
  induction raw as [|v t IH]; intros st HK; cbn [push_arg_values]; [split; [exact HK|reflexivity]|].
  destruct (a_vp a) as [vp|] eqn:Evp; cbn [expect rbind]; [|exact I].
  destruct (vp_parse vp v) as [k|] eqn:Ev.
  { cbn. exists vp, v. split; [reflexivity|]. split; [left; reflexivity|]. split; [exact Ev|reflexivity]. }
  destruct HK as [Hp He].
  unfold add_val_to. autorewrite with ps.
  destruct (fm_get (a_id a) (mt_args (mt st))) as [ma|] eqn:Hget; cbn [expect rbind]; [|exact I].
  destruct (append_val v ma) as [m'|] eqn:Happ; cbn [expect rbind]; [|exact I].
  unfold add_index_to. autorewrite with ps. rewrite fm_get_update, Hget. cbn [expect rbind]. autorewrite with ps.
  eapply okE_weaken; [apply IH| |].
  - split; autorewrite with ps.
    + intros p Hp'. autorewrite with ps in Hp'. apply Hp; exact Hp'.
    + apply entK_update_src; [|reflexivity].
      eapply entK_update_const; [exact He|exact Hget|eapply append_val_source; exact Happ].
  - intros s [Hs1 Hs2]. split; [exact Hs1|]. rewrite Hs2. autorewrite with ps. reflexivity.
  - intros e [vp' [v' [H1 [H2 [H3 H4]]]]]. exists vp', v'. split; [exact H1|]. split; [right; exact H2|]. split; [exact H3|exact H4].
Qed.

(** ** why the reaction to one occurrence of [a] (values [raw], source [s]) is an error *)
Inductive occ_cause (a : arg) (s : src) (raw : list bytes) (e : error) : Prop :=
| OCCount r :                   (* the number of values of the occurrence is outside the declared range *)
    s = SCmdLine -> a_num a = Some r -> e_arg e = a_id a ->
    In (e_kind e) [EInvalidValue; EWrongNumberOfValues; ETooFewValues; ETooManyValues] ->
    count_breaks (e_kind e) r (N.of_nat (length raw)) -> occ_cause a s raw e
| OCRepeat st :                 (* a non-repeatable argument that is already in the (faithful) matcher *)
    e_kind e = EArgumentConflict -> e_arg e = a_id a -> K st ->
    mt_contains (mt st) (a_id a) = true ->
    (is_set s_args_override_self c || mem_id (a_id a) (a_overrides a)) = false ->
    In (a_get_action a) [ASet; ASetTrue; ASetFalse] -> occ_cause a s raw e
| OCValue vp v :                (* a value, of known origin, outside the language of the argument's parser *)
    a_vp a = Some vp -> Vt v -> vp_parse vp v = Some (e_kind e) -> ~ in_lang vp v ->
    e_arg e = a_id a -> occ_cause a s raw e
| OCHelp :
    e_kind e = EDisplayHelp -> In (a_get_action a) [AHelp; AHelpShort; AHelpLong] -> occ_cause a s raw e
| OCVersion :
    e_kind e = EDisplayVersion -> a_get_action a = AVersion -> occ_cause a s raw e.

(** when an argument may react with source [s] *)
Definition srcOKarg (a : arg) (s : src) : Prop :=
  match s with SCmdLine => occurs a | SEnv => a_env a <> None | SDefault => True end.

(** a reaction error of this level: the argument is one of the command's, named by a token of the
    line (or declaring an environment value / a default), the values come from the line or the definition *)
Definition react_err_at (e : error) : Prop :=
  exists a s raw, In a (c_args c) /\ srcOKarg a s /\ Forall Vt raw /\ occ_cause a s raw e.

Lemma introOK_arg a s : In a (c_args c) -> srcOKarg a s ->
  introOK (a_id a) s /\ forall g, In g (groups_for_arg c (a_id a)) -> introOK g s.
Proof.
  intros Hin Hs. destruct s; cbn in *.
  - split; [exact I|intros; exact I].
  - split; [right; exists a; auto|intros g Hg; right; exists a; auto].
  - split; [exists a; split; [split; assumption|left; reflexivity]|intros g Hg; exists a; split; [split; assumption|right; exact Hg]].
Qed.

Lemma K_set_mt st m : KM m -> K (st <| mt := m |>).
Proof. intros H. unfold K. autorewrite with ps. exact H. Qed.
Lemma K_bump st : K st -> K (ps_bump st).
Proof. intros H. exact H. Qed.

Lemma react_core_K idn s a raw ti st : In a (c_args c) -> srcOKarg a s -> Forall Vt raw -> K st ->
  okE (fun x => K (fst x) /\ mt_pending (mt (fst x)) = mt_pending (mt st) /\ snd x = PRValuesDone)
      (fun e => occ_cause a s raw e) (react_core c idn s a raw ti st).
Proof.
  intros Hin Hsrc HVraw HK. unfold react_core.
  destruct Vt_ok as [[V1 [V2 [V3 [V4 [V5 _]]]]] _].
  destruct (introOK_arg a s Hin Hsrc) as [Hia Hig].
  destruct (if is_cmdline s then verify_num_args c a raw st else ROk tt) as [[]|e0 s0|p0] eqn:Ev; cbn [rbind].
  3:{ exact I. }
  2:{ cbn. destruct (is_cmdline s) eqn:Es; [|discriminate Ev].
      destruct (verify_num_args_sound _ _ _ _ _ _ Ev) as [r [Hr [_ [Ha [_ [Hk Hc]]]]]].
      eapply OCCount; try eassumption. destruct s; try discriminate Es; reflexivity. }
  destruct (match raw with [] => if negb (is_nil (a_default_missing a)) then (a_default_missing a, None) else (raw, ti)
                         | _ => (raw, ti) end) as [raw1 ti1] eqn:Eraw1.
  assert (HV1 : Forall Vt raw1).
  { destruct raw; [destruct (negb (is_nil (a_default_missing a)))|]; inversion Eraw1; subst;
      first [apply V5; exact Hin|exact HVraw]. }
  destruct (delimit c a raw1 ti1) as [raw2|] eqn:Hd; cbn [expect rbind]; [|exact I].
  pose proof (delimit_V c Vt V4 a raw1 ti1 raw2 HV1 Hd) as HV2.
  (* the common tail: start_custom_arg then push_arg_values *)
  assert (Tail : forall raw' st1, Forall Vt raw' -> K st1 -> mt_pending (mt st1) = mt_pending (mt st) ->
     okE (fun x => K (fst x) /\ mt_pending (mt (fst x)) = mt_pending (mt st) /\ snd x = PRValuesDone) (fun e => occ_cause a s raw e)
       (do m2 <- start_custom_arg c a s (mt st1);
        do st' <- push_arg_values c a raw' (st1 <| mt := m2 |>);
        ROk (st', PRValuesDone))).
  { intros raw' st1 HVr' HK1 Hpe.
    pose proof (start_custom_arg_KM a s (mt st1) HK1 Hia Hig) as Hs.
    destruct (start_custom_arg c a s (mt st1)) as [m2|e0 s0|site]; cbn [rbind]; [|contradiction|exact I].
    destruct Hs as [HM2 Hp2].
    eapply okE_bind; [eapply okE_weaken; [apply (push_arg_values_KM a raw' (st1 <| mt := m2 |>)); apply K_set_mt; exact HM2| |]|].
    - intros s1 Hs1. exact Hs1.
    - intros e [vp [v [E1 [E2 [E3 E4]]]]].
      apply (OCValue a s raw e vp v E1); [|exact E3| |exact E4].
      + rewrite Forall_forall in HVr'. apply HVr'. exact E2.
      + apply vp_parse_reject_sound in E3. apply E3.
    - intros st' [HK' Hp']. cbn. split; [exact HK'|]. split; [|reflexivity]. rewrite Hp'. autorewrite with ps. congruence. }
  assert (SetLike : In (a_get_action a) [ASet; ASetTrue; ASetFalse] ->
     forall raw' (bump : bool), Forall Vt raw' ->
     okE (fun x => K (fst x) /\ mt_pending (mt (fst x)) = mt_pending (mt st) /\ snd x = PRValuesDone) (fun e => occ_cause a s raw e)
       (let st2 := if bump && is_cmdline s && is_flag_ident idn then ps_bump st else st in
        let '(m1, removed) := mt_remove (mt st2) (a_id a) in
        let st3 := st2 <| mt := m1 |> in
        if removed && negb (is_set s_args_override_self c || mem_id (a_id a) (a_overrides a))
        then RErr (mkerr c EArgumentConflict (a_id a)) st3
        else do m2 <- start_custom_arg c a s m1;
             do st' <- push_arg_values c a raw' (st3 <| mt := m2 |>);
             ROk (st', PRValuesDone))).
  { intros Hact raw' bump HVr'. cbn zeta.
    set (st2 := if bump && is_cmdline s && is_flag_ident idn then ps_bump st else st).
    assert (Hmt2 : mt st2 = mt st) by (subst st2; destruct (bump && is_cmdline s && is_flag_ident idn); reflexivity).
    assert (HK2 : K st2) by (unfold K; rewrite Hmt2; exact HK).
    pose proof (KM_remove (mt st2) (a_id a) HK2) as [HM3 Hp3].
    pose proof (mt_remove_snd (mt st2) (a_id a)) as Hrm.
    destruct (mt_remove (mt st2) (a_id a)) as [m1 removed] eqn:Er. cbn [fst snd] in HM3, Hp3, Hrm.
    destruct (removed && negb (is_set s_args_override_self c || mem_id (a_id a) (a_overrides a))) eqn:Ec.
    - cbn. apply andb_true_iff in Ec. destruct Ec as [E1 E2]. rewrite Hrm, Hmt2 in E1. apply negb_true_iff in E2.
      apply (OCRepeat a s raw _ st); [reflexivity|reflexivity|exact HK|exact E1|exact E2|exact Hact].
    - specialize (Tail raw' (st2 <| mt := m1 |>) HVr' (K_set_mt st2 m1 HM3)). autorewrite with ps in Tail. apply Tail.
      rewrite Hp3, Hmt2. reflexivity. }
  assert (HVt : Forall Vt (match raw2 with [] => [s_true] | _ => raw2 end))
    by (destruct raw2; [repeat constructor; exact V1|exact HV2]).
  assert (HVf : Forall Vt (match raw2 with [] => [s_false] | _ => raw2 end))
    by (destruct raw2; [repeat constructor; exact V2|exact HV2]).
  destruct (a_get_action a) eqn:Eact.
  - apply (SetLike ltac:(cbn; auto) raw2 true HV2).
  - set (st1 := if is_cmdline s && is_flag_ident idn then ps_bump st else st).
    assert (Hmt1 : mt st1 = mt st) by (subst st1; destruct (is_cmdline s && is_flag_ident idn); reflexivity).
    apply (Tail raw2 st1 HV2); [unfold K; rewrite Hmt1; exact HK|rewrite Hmt1; reflexivity].
  - apply (SetLike ltac:(cbn; auto) _ false HVt).
  - apply (SetLike ltac:(cbn; auto) _ false HVf).
  - pose proof (KM_remove (mt st) (a_id a) HK) as [HM3 Hp3].
    destruct (mt_remove (mt st) (a_id a)) as [m1 removed] eqn:Er. cbn [fst] in HM3, Hp3.
    match goal with |- context [push_arg_values c a ?r _] => set (rawc := r) end.
    assert (HVc : Forall Vt rawc) by (subst rawc; destruct raw2; [repeat constructor; apply V3|exact HV2]).
    pose proof (Tail rawc (st <| mt := m1 |>) HVc (K_set_mt st m1 HM3)) as Tl. autorewrite with ps in Tl. apply Tl.
    exact Hp3.
  - cbn. apply OCHelp; [reflexivity|rewrite Eact; cbn; auto].
  - cbn. apply OCHelp; [reflexivity|rewrite Eact; cbn; auto].
  - cbn. apply OCHelp; [reflexivity|rewrite Eact; cbn; auto].
  - cbn. apply OCVersion; [reflexivity|exact Eact].
Qed.


(** ** [resolve_pending], [react] *)
Lemma K_clear_pending st : K st -> K (st <| mt := (mt st) <| mt_pending := None |> |>).
Proof.
  intros [Hp He]. split; autorewrite with ps; [|exact He].
  intros p Hp'. autorewrite with ps in Hp'. discriminate.
Qed.

Lemma resolve_pending_K st : K st ->
  okE (fun s => K s /\ mt_pending (mt s) = None) react_err_at (resolve_pending c st).
Proof.
  intros HK. unfold resolve_pending. destruct (mt_pending (mt st)) as [p|] eqn:Ep; [|split; [exact HK|exact Ep]].
  pose proof HK as [Hp He]. destruct (Hp p Ep) as [[a [Hfind [Hin Hocc]]] HVp]. rewrite Hfind. cbn [expect rbind].
  eapply okE_bind.
  - eapply okE_weaken; [apply (react_core_K (p_ident p) SCmdLine a (p_raw p) (p_trailing_idx p)
                                 (st <| mt := (mt st) <| mt_pending := None |> |>) Hin Hocc HVp (K_clear_pending st HK))| |].
    + intros x Hx. exact Hx.
    + intros e Hc. exists a, SCmdLine, (p_raw p). split; [exact Hin|]. split; [exact Hocc|]. split; [exact HVp|exact Hc].
  - intros [st' pr] [HK' [Hpe _]]. cbn in *. split; [exact HK'|]. rewrite Hpe. autorewrite with ps. reflexivity.
Qed.

Lemma react_K idn s a raw ti st : In a (c_args c) -> srcOKarg a s -> Forall Vt raw -> K st ->
  okE (fun x => K (fst x) /\ mt_pending (mt (fst x)) = None /\ snd x = PRValuesDone) react_err_at
      (react c idn s a raw ti st).
Proof.
  intros Hin Hs HV HK. unfold react. eapply okE_bind; [apply resolve_pending_K; exact HK|].
  intros st1 [HK1 Hp1]. eapply okE_weaken; [apply react_core_K; eassumption| |].
  - intros x [H1 [H2 H3]]. split; [exact H1|]. split; [congruence|exact H3].
  - intros e Hc. exists a, s, raw. split; [exact Hin|]. split; [exact Hs|]. split; [exact HV|exact Hc].
Qed.

Lemma resolve_pending_ignore_K st : okE (fun _ => True) (fun _ => False) (resolve_pending_ignore c st).
Proof. unfold resolve_pending_ignore. destruct (resolve_pending c st); exact I. Qed.

(** ** NoEquals / "flag given a value": what the offending token is *)
Inductive noeq_cause (tok : bytes) (i : id) : Prop :=
| NELong a f ok : to_long tok = Some (f, ok, None) -> long_selects f a -> In a (c_args c) -> a_id a = i ->
    a_req_eq a = true -> (exists r, a_num a = Some r /\ vmin r <> 0) -> noeq_cause tok i
| NEShort a r n ch r' : to_short tok = Some r -> sf_next (skipn n r) = Some (inl ch, r') -> get_short c ch = Some a ->
    match r' with 61 :: _ => False | _ => True end -> In a (c_args c) -> a_id a = i ->
    a_req_eq a = true -> (exists r, a_num a = Some r /\ vmin r <> 0) -> noeq_cause tok i.
Definition unneeded_cause (tok : bytes) (i : id) : Prop :=
  exists a f ok rest, to_long tok = Some (f, ok, Some rest) /\ long_selects f a /\ In a (c_args c) /\ a_id a = i
                      /\ a_takes_value a = false.

(** ** [parse_opt_value] *)
Lemma parse_opt_value_K idn attached a has_eq st :
  In a (c_args c) -> occurs a -> (forall v, attached = Some v -> Vt v) -> K st ->
  okE (fun x => K (fst x) /\
                match snd x with
                | PREqualsNotProvided i => i = a_id a /\ a_req_eq a = true /\ has_eq = false
                                           /\ exists r, a_num a = Some r /\ vmin r <> 0
                | PROpt _ => mt_pending (mt (fst x)) <> None
                | PRAttachedNotConsumed => attached <> None /\ has_eq = false
                | PRValuesDone => True
                | _ => False end) react_err_at
      (parse_opt_value c idn attached a has_eq st).
Proof.
  intros Hin Hocc HVa HK. unfold parse_opt_value.
  destruct (a_req_eq a && negb has_eq) eqn:Ereq.
  - destruct (a_num a) as [r|] eqn:En; cbn [expect rbind]; [|exact I].
    destruct (vmin r =? 0) eqn:Emin.
    + eapply okE_bind; [apply (react_K (Some idn) SCmdLine a [] None st Hin Hocc (Forall_nil _) HK)|].
      intros x [HKx _]. cbn. split; [exact HKx|]. destruct attached; cbn; [|exact I].
      split; [discriminate|]. apply andb_prop in Ereq. destruct Ereq as [_ E2]. destruct has_eq; [discriminate E2|reflexivity].
    + cbn. split; [exact HK|]. apply andb_prop in Ereq. destruct Ereq as [E1 E2].
      split; [reflexivity|]. split; [exact E1|]. split; [destruct has_eq; [discriminate|reflexivity]|].
      exists r. split; [reflexivity|]. apply N.eqb_neq. exact Emin.
  - destruct attached as [v|].
    + eapply okE_bind; [apply (react_K (Some idn) SCmdLine a [v] None st Hin Hocc)|];
        [constructor; [apply HVa; reflexivity|constructor]|exact HK|].
      intros x [HKx _]. cbn. split; [exact HKx|exact I].
    + eapply okE_bind; [apply resolve_pending_K; exact HK|]. intros st1 [HK1 Hp1].
      rewrite (pending_values_push_new _ _ _ _ _ Hp1). cbn [expect rbind]. cbn.
      split; [|autorewrite with ps; discriminate]. destruct HK1 as [_ He1]. split; autorewrite with ps; [|exact He1].
      intros p Hp. autorewrite with ps in Hp. inversion Hp; subst p. cbn.
      split; [exists a; split; [apply W3; exact Hin|split; assumption]|constructor].
Qed.

(** ** [parse_long_arg] *)
Lemma found_long_selects (f : bytes) (a : arg) :
  (match get_long c f with
   | Some a => Some a
   | None => if is_set s_infer_long c then
               first_unique (filter_map (fun a =>
                   if a_is_positional a then None else
                   match a_long a with
                   | Some l => if is_prefix f l then Some a
                               else if existsb (fun p => is_prefix f (fst p)) (a_aliases a) then Some a else None
                   | None => if existsb (fun p => is_prefix f (fst p)) (a_aliases a) then Some a else None
                   end) (c_args c))
             else None
   end) = Some a -> In a (c_args c) /\ long_selects f a.
Proof.
  destruct (get_long c f) as [a0|] eqn:Eg.
  - intros H; inversion H; subst. destruct (get_long_in _ _ _ Eg) as [Hin _]. split; [exact Hin|left; exact Eg].
  - destruct (is_set s_infer_long c) eqn:Ei; [|discriminate]. intros H.
    apply first_unique_in, filter_map_in in H. destruct H as [x [Hin H]].
    destruct (a_is_positional x) eqn:Ep; [discriminate|].
    destruct (a_long x) as [l|] eqn:El.
    + destruct (is_prefix f l) eqn:Epre.
      * inversion H; subst. split; [exact Hin|]. right. split; [exact Ei|]. split; [exact Hin|]. split; [exact Ep|].
        left. exists l. split; assumption.
      * destruct (existsb _ (a_aliases x)) eqn:Eal; inversion H; subst.
        split; [exact Hin|]. right. split; [exact Ei|]. split; [exact Hin|]. split; [exact Ep|]. right. exact Eal.
    + destruct (existsb _ (a_aliases x)) eqn:Eal; inversion H; subst.
      split; [exact Hin|]. right. split; [exact Ei|]. split; [exact Hin|]. split; [exact Ep|]. right. exact Eal.
Qed.

Definition flag_post (tok : bytes) (st0 : ps) (x : ps * presult * bool) : Prop :=
  let '(st1, pr, _) := x in
  K st1 /\ match pr with
           | PREqualsNotProvided i => noeq_cause tok i
           | PRUnneeded _ i => unneeded_cause tok i
           | PROpt _ => mt_pending (mt st1) <> None
           | PRMaybeHyphen | PRNoArg => mt st1 = mt st0
           | PRAttachedNotConsumed => False
           | _ => True end.

Lemma parse_long_arg_K tok f ok v pst pc vaf st :
  In tok T -> to_long tok = Some (f, ok, v) -> K st ->
  okE (flag_post tok st) react_err_at (parse_long_arg c f ok v pst pc vaf st).
Proof.
  intros Htok El HK. unfold parse_long_arg.
  destruct (state_arg c pst) as [sa|e0 s0|p0] eqn:Esa; cbn [rbind]; [|exfalso; eapply state_arg_not_err, Esa|exact I].
  destruct (match sa with Some a => a_hyphen a | None => false end); [cbn; split; [exact HK|reflexivity]|].
  destruct (negb ok); [cbn; split; [exact HK|exact I]|].
  destruct (is_nil f && negb (is_some v)); [exact I|].
  match goal with |- okE _ _ (match ?fd with Some _ => _ | None => _ end) => destruct fd as [a|] eqn:Efound end.
  - destruct (found_long_selects f a Efound) as [Hin Hsel].
    assert (Hocc : occurs a).
    { exists tok. split; [exact Htok|]. left. exists f, ok, v. split; [exact El|exact Hsel]. }
    destruct (a_takes_value a) eqn:Etv.
    + eapply okE_bind; [apply (parse_opt_value_K ILong v a (is_some v) st Hin Hocc)|]; [|exact HK|].
      { intros v0 Hv0. subst v. destruct (to_long_value_suffix _ _ _ _ El) as [n0 ->]. apply Vt_tok. exact Htok. }
      intros [st1 pr] [HK1 Hpr]. cbn in *. split; [exact HK1|].
      destruct pr; try exact I; try contradiction; try exact Hpr.
      * destruct Hpr as [H1 H2]. destruct v; [discriminate H2|contradiction].
      * destruct Hpr as [-> [H1 [H2 H3]]].
        destruct v; [discriminate H2|]. eapply NELong; try eassumption. reflexivity.
    + destruct v as [rest|].
      * cbn. split; [exact HK|]. exists a, f, ok, rest. repeat split; assumption.
      * eapply okE_bind; [apply (react_K (Some ILong) SCmdLine a [] None st Hin Hocc (Forall_nil _) HK)|].
        intros [st1 pr] [HK1 [_ Hpr]]. cbn in *. subst pr. split; [exact HK1|exact I].
  - destruct (possible_long_flag_subcommand c f); [cbn; split; [exact HK|exact I]|].
    destruct (match get_pos c pc with Some a => a_hyphen a && negb (a_last a) | None => false end);
      cbn; (split; [exact HK|first [reflexivity|exact I]]).
Qed.

(** ** the short cluster *)
Lemma sf_advance_by_skipn : forall n r r', sf_advance_by n r = Some r' -> exists k, r' = skipn k r.
Proof.
  induction n as [|n IH]; intros r r'; cbn [sf_advance_by]; [intros H; inversion H; exists 0%nat; reflexivity|].
  destruct (sf_next r) as [[[ch|rest] r1]|] eqn:En; try discriminate.
  intros H. destruct (IH _ _ H) as [k ->]. destruct (sf_next_skipn _ _ _ En) as [n0 ->].
  rewrite skipn_add. eexists; reflexivity.
Qed.

Definition sl_post (tok : bytes) (st : ps) (r : bytes) (ret : presult) (x : ps * presult * bool) : Prop :=
  let '(st1, pr, _) := x in
  K st1 /\ match pr with
           | PREqualsNotProvided i => noeq_cause tok i
           | PROpt _ => mt_pending (mt st1) <> None
           | PRNoArg => ret = PRNoArg /\ r = [] /\ st1 = st
           | PRUnneeded _ _ | PRMaybeHyphen | PRAttachedNotConsumed => False
           | _ => True end.

Lemma short_loop_K tok r0 : In tok T -> to_short tok = Some r0 ->
  forall fuel r ret vaf st, (exists n, r = skipn n r0) -> K st ->
  (ret = PRNoArg \/ ret = PRValuesDone) ->
  okE (sl_post tok st r ret) react_err_at (short_loop c fuel r ret vaf st).
Proof.
  intros Htok Es.
  assert (HVsuf : forall n, Vt (skipn n r0)).
  { destruct (to_short_suffix _ _ Es) as [n0 ->]. intros n. rewrite skipn_add. apply Vt_tok. exact Htok. }
  induction fuel as [|fu IH]; intros r ret vaf st [nr Hr] HK Hret; [exact I|].
  cbn [short_loop].
  destruct (sf_next r) as [[[ch|rest] r']|] eqn:En.
  - assert (Hr' : exists n, r' = skipn n r0).
    { destruct (sf_next_skipn _ _ _ En) as [n0 ->]. subst r. rewrite skipn_add. eexists; reflexivity. }
    destruct (get_short c ch) as [a|] eqn:Eg.
    + destruct (get_short_in _ _ _ Eg) as [Hin _].
      assert (Hocc : occurs a).
      { exists tok. split; [exact Htok|]. right; left. exists r0. split; [exact Es|].
        exists nr, ch, r'. subst r. split; [exact En|exact Eg]. }
      destruct (negb (a_takes_value a)).
      * eapply okE_bind; [apply (react_K (Some IShort) SCmdLine a [] None st Hin Hocc (Forall_nil _) HK)|].
        intros [st1 pr] [HK1 [_ Hpr]]. cbn in Hpr, HK1. subst pr. cbn [fst snd].
        eapply okE_weaken; [apply (IH r' PRValuesDone true st1 Hr' HK1); right; reflexivity| |auto].
        intros [[st2 pr2] v2] [HK2 H2]. split; [exact HK2|].
        destruct pr2; try exact H2; try exact I. destruct H2 as [H2 _]. discriminate H2.
      * set (val := match r' with [] => None | _ => Some r' end).
        destruct (match val with Some (61 :: v) => (Some v, true) | _ => (val, false) end) as [val' has_eq] eqn:Ev.
        assert (Hval : (forall v, val' = Some v -> Vt v)
                       /\ (has_eq = false -> match r' with 61 :: _ => False | _ => True end)
                       /\ (val' <> None -> r' <> [])).
        { rewrite strip_eq_spec in Ev. subst val. destruct Hr' as [n' Hr'].
          destruct r' as [|b0 t0].
          { injection Ev as E1 E2. split; [intros v Hv; rewrite <- E1 in Hv; discriminate|].
            split; [intros _; exact I|intros Hn; rewrite <- E1 in Hn; contradiction]. }
          destruct (b0 =? 61) eqn:Eb; injection Ev as E1 E2.
          - split; [|split; [intros; congruence|intros _; discriminate]]. intros v Hv. rewrite <- E1 in Hv. injection Hv as <-.
            pose proof (HVsuf (n' + 1)%nat) as HH. rewrite <- skipn_add, <- Hr' in HH. exact HH.
          - split; [|split; [|intros _; discriminate]].
            + intros v Hv. rewrite <- E1 in Hv. injection Hv as <-. rewrite Hr'. apply HVsuf.
            + intros _. destruct b0 as [|pb]; [exact I|]. apply N.eqb_neq in Eb.
              do 7 (try (destruct pb as [pb|pb|]; try exact I)). congruence. }
        destruct Hval as [HVval [Hnoeq Hne]].
        eapply okE_bind; [apply (parse_opt_value_K IShort val' a has_eq st Hin Hocc HVval HK)|].
        intros [st1 pr] [HK1 Hpr]. cbn [fst snd] in *.
        destruct pr; try contradiction.
        -- cbn. split; [exact HK1|exact Hpr].
        -- cbn. split; [exact HK1|exact I].
        -- destruct Hpr as [Hatt _].
           eapply okE_weaken; [apply (IH r' ret true st1 Hr' HK1 Hret)| |auto].
           intros [[st2 pr2] v2] [HK2 H2]. split; [exact HK2|].
           destruct pr2; try exact H2; try exact I. destruct H2 as [_ [H2 _]]. exfalso. apply (Hne Hatt H2).
        -- cbn. split; [exact HK1|]. destruct Hpr as [-> [H1 [H2 H3]]].
           subst r. eapply NEShort; try eassumption; [apply Hnoeq; exact H2|reflexivity].
    + destruct (find_short_subcmd c ch).
      * eapply okE_bind; [apply resolve_pending_K; exact HK|]. intros st1 [HK1 _]. cbn. split; [exact HK1|exact I].
      * cbn. split; [exact HK|exact I].
  - cbn. split; [exact HK|exact I].
  - cbn. split; [exact HK|]. destruct Hret as [->| ->]; [|exact I].
    split; [reflexivity|split; [|reflexivity]]. unfold sf_next in En. destruct r; [reflexivity|].
    destruct (utf8_step (n :: r)) as [[? ?]|]; discriminate.
Qed.

Lemma parse_short_arg_K tok r pst pc vaf st : In tok T -> to_short tok = Some r -> K st ->
  okE (flag_post tok st) react_err_at (parse_short_arg c r pst pc vaf st).
Proof.
  intros Htok Es HK. unfold parse_short_arg.
  destruct (state_arg c pst) as [sa|e0 s0|p0] eqn:Esa; cbn [rbind]; [|exfalso; eapply state_arg_not_err, Esa|exact I].
  destruct (match sa with Some a => a_hyphen a || (a_negnum a && sf_is_negative_number r) | None => false end);
    [cbn; split; [exact HK|reflexivity]|].
  destruct (match get_pos c pc with Some a => a_negnum a | None => false end && sf_is_negative_number r);
    [cbn; split; [exact HK|reflexivity]|].
  destruct (match get_pos c pc with Some a => a_hyphen a && negb (a_last a) | None => false end
            && sf_any_unknown c (S (length r)) r);
    [cbn; split; [exact HK|reflexivity]|].
  destruct (sf_advance_by _ r) as [r1|] eqn:Ea; cbn [expect rbind]; [|exact I].
  eapply okE_weaken; [apply (short_loop_K tok r Htok Es (S (length r1)) r1 PRNoArg vaf (st <| fs_skip := 0 |>));
                      [eapply sf_advance_by_skipn; exact Ea|exact HK|left; reflexivity]| |auto].
  intros [[st1 pr] v] [HK1 H1]. split; [exact HK1|].
  destruct pr; try exact H1; try exact I; try contradiction.
  destruct H1 as [_ [_ ->]]. reflexivity.
Qed.


(** ** the token loop of one level *)
Inductive loop_cause (e : error) : Prop :=
| LCReact : react_err_at e -> loop_cause e
| LCUnknown tok : In tok T -> unknown_cause c tok e ->
    In (e_kind e) [EUnknownArgument; EInvalidSubcommand; EArgumentConflict] -> loop_cause e
| LCNoEq tok i : In tok T -> noeq_cause tok i -> e = mkerr c ENoEquals i -> loop_cause e
| LCUnneeded tok i : In tok T -> unneeded_cause tok i -> e = mkerr c ETooManyValues i -> loop_cause e
| LCExtUtf8 tok : In tok T -> utf8_valid tok = false -> is_set s_allow_external c = true ->
    e = mkerr c EInvalidUtf8 [] -> loop_cause e.

Definition lr_post (lr : loop_res) : Prop :=
  match lr with
  | LDone st => K st
  | LSub n keep vaf st rest => K st /\ suffix_of rest T
  | LExternal n vals st => K st /\ suffix_of (n :: vals) T /\ is_set s_allow_external c = true
  | LHelpSub names st => K st /\ suffix_of names T
  end.

(** while an option collects values its pending occurrence exists *)
Definition LI' (pst : pstate_t) (st : ps) : Prop :=
  match pst with PSOpt _ => mt_pending (mt st) <> None | _ => True end.

Lemma LI'_mt pst st st' : mt st' = mt st -> LI' pst st -> LI' pst st'.
Proof. intros H. unfold LI'. rewrite H. auto. Qed.

Lemma resolve_pending_L st : K st ->
  okE (fun s => K s /\ mt_pending (mt s) = None) loop_cause (resolve_pending c st).
Proof. intros HK. eapply okE_weaken; [apply resolve_pending_K; exact HK|auto|intros e He; apply LCReact; exact He]. Qed.

Lemma resolve_pending_ignore_L Qe st : okE (fun _ : ps => True) Qe (resolve_pending_ignore c st).
Proof. unfold resolve_pending_ignore. destruct (resolve_pending c st); exact I. Qed.

Lemma pending_values_push_KM m i idn tr v m1 : KM m -> Vt v ->
  (mt_pending m = None -> exists a, find_arg c i = Some a /\ Sel a) ->
  pending_values_push m i idn tr (Some v) = Some m1 -> KM m1 /\ mt_pending m1 <> None.
Proof.
  intros [Hp He] Hv Hnew. unfold pending_values_push.
  set (p := match mt_pending m with Some p => p | None => mkPending i idn [] None end).
  destruct (negb (beq (p_id p) i)); [discriminate|].
  destruct (is_some idn && negb (ident_eqb (p_ident p) idn)); [discriminate|].
  intros H; inversion H; subst m1; clear H. split; [|autorewrite with ps; discriminate].
  split; autorewrite with ps; [|exact He].
  intros p' Hp'. autorewrite with ps in Hp'. inversion Hp'; subst p'; clear Hp'. cbn [p_id p_raw].
  subst p. destruct (mt_pending m) as [p0|] eqn:Ep.
  - destruct (Hp p0 Ep) as [Ha HV]. split; [exact Ha|]. apply Forall_app. split; [exact HV|repeat constructor; exact Hv].
  - cbn. split; [apply Hnew; reflexivity|repeat constructor; exact Hv].
Qed.

Lemma K_start_trailing st : K st -> K (st <| mt := start_trailing (mt st) |>).
Proof.
  intros [Hp He]. unfold K, start_trailing. autorewrite with ps.
  destruct (mt_pending (mt st)) as [p|] eqn:Ep; [|split; assumption].
  split; autorewrite with ps; [|exact He].
  intros p' Hp'. autorewrite with ps in Hp'. inversion Hp'; subst p'. cbn. apply (Hp p Ep).
Qed.

Lemma parse_loop_K : forall toks ls st, suffix_of toks T -> K st -> LI' (l_pst ls) st ->
  okE lr_post loop_cause (parse_loop c toks ls st).
Proof.
  induction toks as [|tok rest IH0]; intros ls st Hsuf HK HL; [cbn; exact HK|].
  pose proof (suffix_in _ _ _ Hsuf) as Htok. pose proof (suffix_tail _ _ _ Hsuf) as Hrest.
  assert (IH : forall ls st, K st -> LI' (l_pst ls) st -> okE lr_post loop_cause (parse_loop c rest ls st))
    by (intros; apply IH0; assumption).
  clear IH0.
  assert (HVt0 : Vt tok) by (apply (Vt_tok tok 0 Htok)).
  cbn [parse_loop].
  match goal with |- okE _ _ (rbind ?ph _) => set (phase1 := ph) end.
  set (PH := fun x : option (res loop_res) * lstate * ps =>
               let '(early, ls1, st1) := x in
               match early with
               | Some r => okE lr_post loop_cause r
               | None => K st1 /\ LI' (l_pst ls1) st1 end).
  assert (Hph : okE PH loop_cause phase1).
  { subst phase1 PH. destruct (l_trailing ls); [cbn; split; [exact HK|exact HL]|].
    destruct (if is_set s_sub_precedence c || match l_pst ls with PSValuesDone => true | _ => false end
              then possible_subcommand c tok (l_vaf ls) else None) as [sc|] eqn:Esub.
    { destruct (beq sc s_help && negb (is_set s_disable_help_sub c)); cbn; (split; [exact HK|exact Hrest]). }
    assert (After : forall x, flag_post tok st x ->
       match snd (fst x) with PRNoMatchingArg a => unknown_cause c tok (mkerr c EUnknownArgument a) | _ => True end ->
       okE (fun y : option (res loop_res) * lstate * ps =>
               let '(early, ls1, st1) := y in
               match early with
               | Some r => okE lr_post loop_cause r
               | None => K st1 /\ LI' (l_pst ls1) st1 end) loop_cause
         (let '(st1, pr, vaf1) := x in
          let ls1 := mkL (l_pst ls) (l_pos ls) vaf1 false in
          match pr with
          | PRValuesDone => ROk (Some (parse_loop c rest (mkL PSValuesDone (l_pos ls) vaf1 false) st1), ls1, st1)
          | PROpt i => ROk (Some (parse_loop c rest (mkL (PSOpt i) (l_pos ls) vaf1 false) st1), ls1, st1)
          | PRFlagSub n => ROk (Some (ROk (LSub n false vaf1 st1 rest)), ls1, st1)
          | PREqualsNotProvided a =>
              do st2 <- resolve_pending_ignore c st1; ROk (Some (RErr (mkerr c ENoEquals a) st2), ls1, st2)
          | PRNoMatchingArg a =>
              do st2 <- resolve_pending_ignore c st1; ROk (Some (RErr (mkerr c EUnknownArgument a) st2), ls1, st2)
          | PRUnneeded r a =>
              do st2 <- resolve_pending_ignore c st1; ROk (Some (RErr (mkerr c ETooManyValues a) st2), ls1, st2)
          | PRMaybeHyphen => ROk (None, ls1, st1)
          | PRNoArg => ROk (None, ls1, st1)
          | PRAttachedNotConsumed => RPanic 203
          end)).
    { intros [[st1 pr] vaf1] [HK1 Hpr] Hnm. cbn zeta. cbn [fst snd] in Hnm.
      destruct pr; cbn [okE].
      - split; [exact HK1|exact Hrest].
      - apply IH; [exact HK1|exact Hpr].
      - apply IH; [exact HK1|exact I].
      - exact I.
      - eapply okE_bind; [apply resolve_pending_ignore_L|]. intros st2 _. cbn. eapply LCUnneeded; [exact Htok|exact Hpr|reflexivity].
      - cbn. split; [exact HK1|]. eapply LI'_mt; [exact Hpr|exact HL].
      - eapply okE_bind; [apply resolve_pending_ignore_L|]. intros st2 _. cbn. eapply LCNoEq; [exact Htok|exact Hpr|reflexivity].
      - eapply okE_bind; [apply resolve_pending_ignore_L|]. intros st2 _. cbn. eapply LCUnknown; [exact Htok|exact Hnm|cbn; auto].
      - cbn. split; [exact HK1|]. eapply LI'_mt; [exact Hpr|exact HL]. }
    destruct (is_escape tok).
    { destruct (state_arg c (l_pst ls)) as [sa|e0 s0|p0] eqn:Esa; cbn [rbind]; [|exfalso; eapply state_arg_not_err, Esa|exact I].
      destruct (match sa with Some a => a_hyphen a | None => false end); cbn; [split; [exact HK|exact HL]|].
      apply IH; [apply K_start_trailing; exact HK|].
      cbn [l_pst]. unfold LI' in *. destruct (l_pst ls); try exact I. autorewrite with ps. unfold start_trailing.
      destruct (mt_pending (mt st)); [autorewrite with ps; discriminate|contradiction]. }
    destruct (to_long tok) as [[[f ok] v]|] eqn:El.
    { pose proof (parse_long_arg_K tok f ok v (l_pst ls) (l_pos ls) (l_vaf ls) st Htok El HK) as HP.
      destruct (parse_long_arg c f ok v (l_pst ls) (l_pos ls) (l_vaf ls) st) as [[[st1 pr] vaf1]|e1 s1|p1] eqn:E;
        cbn [rbind okE] in HP |- *; [|apply LCReact; exact HP|exact I].
      cbn [fst snd].
      assert (Hnm : match pr with PRNoMatchingArg a => unknown_cause c tok (mkerr c EUnknownArgument a) | _ => True end).
      { destruct pr; try exact I. apply parse_long_no_match_sound in E. destruct E as [-> [_ Hc]].
        eapply UCLong; [exact El|reflexivity|exact Hc]. }
      destruct pr; try exact I;
        (let HA := fresh "HA" in pose proof (After (st1, _, vaf1) HP Hnm) as HA; cbn in HA |- *; exact HA). }
    destruct (to_short tok) as [r|] eqn:Es; [|cbn; split; [exact HK|exact HL]].
    pose proof (parse_short_arg_K tok r (l_pst ls) (l_pos ls) (l_vaf ls) st Htok Es HK) as HP.
    destruct (parse_short_arg c r (l_pst ls) (l_pos ls) (l_vaf ls) st) as [[[st1 pr] vaf1]|e1 s1|p1] eqn:E;
      cbn [rbind okE] in HP |- *; [|apply LCReact; exact HP|exact I].
    assert (Hnm : match pr with PRNoMatchingArg a => unknown_cause c tok (mkerr c EUnknownArgument a) | _ => True end).
    { destruct pr; try exact I. apply parse_short_no_match_sound in E.
      eapply UCShort; [exact Es|]. cbn [e_arg mkerr]. exact E. }
    pose proof (After (st1, pr, vaf1) HP Hnm) as HA.
    destruct pr; try exact I; try (cbn in HA |- *; exact HA).
    destruct HP as [HK1 _].
    destruct (fs_at st1) as [a|]; [|cbn; split; [exact HK1|exact Hrest]].
    destruct (checked_sub (cur_idx st1) a); cbn [expect rbind]; [|exact I].
    cbn. split; [exact HK1|exact Hsuf]. }
  eapply okE_bind; [exact Hph|]. clear Hph phase1. subst PH.
  intros [[early ls1] st1] H1.
  destruct early as [r|]; [exact H1|].
  destruct H1 as [HK1 HL1].
  match goal with
  | |- okE _ _ (match _ with PSValuesDone => ?t | PSOpt _ => _ | PSPos _ => _ end) =>
      assert (Hpos : okE lr_post loop_cause t)
  end.
  { cbn zeta.
    match goal with |- okE _ _ (rbind ?e _) => set (pce := e) end.
    assert (Hpc : forall e0 s0, pce <> RErr e0 s0).
    { subst pce. intros e0 s0.
      repeat match goal with
             | |- (if ?b then _ else _) <> _ => destruct b
             | |- match ?x with _ => _ end <> _ => destruct x eqn:?
             end; try discriminate.
      match goal with |- rbind (is_new_arg c ?n ?a) _ <> _ => destruct (is_new_arg c n a) eqn:En end;
        cbn [rbind]; [discriminate|exfalso; eapply is_new_arg_not_err, En|discriminate]. }
    destruct pce as [pcv|e0 s0|p0]; cbn [rbind]; [|exfalso; eapply Hpc; reflexivity|exact I]. clear Hpc.
    destruct (get_pos c pcv) as [a|] eqn:Eg.
    - destruct (get_pos_in _ _ _ Eg) as [Hin Hidx].
      assert (Hsel : Sel a).
      { split; [exact Hin|]. exists tok. split; [exact Htok|]. right; right. exact Hidx. }
      destruct (a_last a && negb (l_trailing ls1)) eqn:Elast.
      + eapply okE_bind; [apply resolve_pending_ignore_L|]. intros s2 _. cbn.
        apply andb_prop in Elast. destruct Elast as [Elast _].
        eapply LCUnknown; [exact Htok| |cbn; auto]. eapply UCLast; [exact Eg|exact Elast|reflexivity].
      + assert (Push : forall s2, K s2 ->
                  okE lr_post loop_cause
                    (if check_terminator a tok
                     then parse_loop c rest (mkL PSValuesDone (pcv + 1) true (l_trailing ls1 || a_tva a)) s2
                     else do m1 <- expect 415 (pending_values_push (mt s2) (a_id a) (Some IIndex) (l_trailing ls1 || a_tva a) (Some tok));
                          if negb (a_is_multiple a)
                          then parse_loop c rest (mkL PSValuesDone (pcv + 1) true (l_trailing ls1 || a_tva a)) (s2 <| mt := m1 |>)
                          else parse_loop c rest (mkL (PSPos (a_id a)) pcv true (l_trailing ls1 || a_tva a)) (s2 <| mt := m1 |>))).
        { intros s2 HK2. destruct (check_terminator a tok); [apply IH; [exact HK2|exact I]|].
          destruct (pending_values_push (mt s2) (a_id a) (Some IIndex) (l_trailing ls1 || a_tva a) (Some tok)) as [m1|] eqn:Epush;
            cbn [expect rbind]; [|exact I].
          destruct (pending_values_push_KM _ _ _ _ _ _ HK2 HVt0 (fun _ => ex_intro _ a (conj (W3 a Hin) Hsel)) Epush) as [HKm _].
          destruct (negb (a_is_multiple a)); apply IH; try (apply K_set_mt; exact HKm); exact I. }
        match goal with |- okE _ _ (rbind (if ?b then _ else _) _) => destruct b end.
        * eapply okE_bind; [apply resolve_pending_L; exact HK1|]. intros s2 [HK2 _]. apply Push. exact HK2.
        * cbn [rbind]. apply Push. exact HK1.
    - destruct (is_set s_allow_external c) eqn:Eext.
      + destruct (utf8_valid tok) eqn:Eu; [cbn; split; [exact HK1|split; [exact Hsuf|exact Eext]]|].
        eapply okE_bind; [apply resolve_pending_ignore_L|]. intros s2 _. cbn.
        eapply LCExtUtf8; [exact Htok|exact Eu|exact Eext|reflexivity].
      + eapply okE_bind; [apply resolve_pending_ignore_L|]. intros s2 _. cbn.
        eapply LCUnknown; [exact Htok|eapply UCNoPos; [exact Eg|exact Eext|reflexivity]|].
        destruct (match_arg_error_kinds c tok (l_vaf ls1) (l_trailing ls1)) as [_ [Hk|[[Hk _]|[Hk _]]]]; rewrite Hk; cbn; auto. }
  destruct (if l_trailing ls1 then PSValuesDone else l_pst ls1) eqn:Est.
  - exact Hpos.
  - assert (Hi : l_pst ls1 = PSOpt i) by (destruct (l_trailing ls1); [discriminate|exact Est]).
    rewrite Hi in HL1. cbn in HL1.
    destruct (find_arg c i) as [a|] eqn:Hf; cbn [expect rbind]; [|exact I].
    destruct (check_terminator a tok); [apply IH; [exact HK1|exact I]|].
    destruct (pending_values_push (mt st1) i None false (Some tok)) as [m1|] eqn:Epush; cbn [expect rbind]; [|exact I].
    destruct (pending_values_push_KM _ _ _ _ _ _ HK1 HVt0 (fun Hn => False_ind _ (HL1 Hn)) Epush) as [HKm Hpm].
    destruct (needs_more_vals m1 a) as [more|]; cbn [expect rbind]; [|exact I].
    apply IH; [apply K_set_mt; exact HKm|].
    cbn [l_pst]. destruct more; [cbn; autorewrite with ps; exact Hpm|exact I].
  - exact Hpos.
Qed.


(** ** the environment and default phases *)
Lemma fold_res_okE {A} (step : res ps -> A -> res ps) (l : list A) (Q : A -> Prop) Qe :
  (forall x, In x l -> Q x) ->
  (forall acc x, Q x -> okE K Qe acc -> okE K Qe (step acc x)) ->
  forall acc, okE K Qe acc -> okE K Qe (fold_left step l acc).
Proof.
  intros HQ Hstep. induction l as [|x t IH]; intros acc Hacc; cbn [fold_left]; [exact Hacc|].
  apply IH; [intros y Hy; apply HQ; right; exact Hy|]. apply Hstep; [apply HQ; left; reflexivity|exact Hacc].
Qed.

Lemma add_env_K st : K st -> okE K react_err_at (add_env c st).
Proof.
  intros HK. unfold add_env. destruct Vt_ok as [[_ [_ [_ [_ [_ [_ [V7 _]]]]]]] _].
  apply (fold_res_okE _ (c_args c) (fun a => In a (c_args c))); [auto| |exact HK].
  intros acc a Hin Hacc. eapply okE_bind; [exact Hacc|]. intros s HKs.
  destruct (mt_contains (mt s) (a_id a)); [exact HKs|].
  destruct (a_env a) as [v|] eqn:Eenv; [|exact HKs].
  eapply okE_bind; [apply (react_K None SEnv a [v] None s Hin)|];
    [cbn; rewrite Eenv; discriminate|repeat constructor; eapply V7; eassumption|exact HKs|].
  intros x [Hx _]. exact Hx.
Qed.

Lemma add_default_value_K a st : In a (c_args c) -> K st -> okE K react_err_at (add_default_value c a st).
Proof.
  intros Hin HK. unfold add_default_value. destruct Vt_ok as [[_ [_ [_ [_ [_ [V6 [_ V8]]]]]]] _].
  assert (Plain : okE K react_err_at (if negb (is_nil (a_default a)) then
                              if mt_contains (mt st) (a_id a) then ROk st
                              else do x <- react c None SDefault a (a_default a) None st; ROk (fst x)
                            else ROk st)).
  { destruct (negb (is_nil (a_default a))); [|exact HK]. destruct (mt_contains (mt st) (a_id a)); [exact HK|].
    eapply okE_bind; [apply (react_K None SDefault a (a_default a) None st Hin I (V6 a Hin) HK)|]. intros x [Hx _]. exact Hx. }
  destruct (negb (is_nil (a_default_ifs a)) && negb (mt_contains (mt st) (a_id a))); [|exact Plain].
  destruct (List.find _ (a_default_ifs a)) as [[[i p] [d|]]|] eqn:Ef; [|exact HK|exact Plain].
  apply List.find_some in Ef. destruct Ef as [Hind _].
  eapply okE_bind; [apply (react_K None SDefault a [d] None st Hin I)|];
    [repeat constructor; eapply V8; eassumption|exact HK|].
  intros x [Hx _]. exact Hx.
Qed.

Lemma add_defaults_K st : K st -> okE K react_err_at (add_defaults c st).
Proof.
  intros HK. unfold add_defaults.
  apply (fold_res_okE _ (c_args c) (fun a => In a (c_args c))); [auto| |exact HK].
  intros acc a Hin Hacc. eapply okE_bind; [exact Hacc|]. intros s HKs. apply add_default_value_K; assumption.
Qed.

Lemma K_set_sub st sub : K st -> K (st <| mt := (mt st) <| mt_sub := sub |> |>).
Proof. intros [Hp He]. split; assumption. Qed.

Lemma K_fresh st : mt st = matcher_new -> K st.
Proof.
  intros H. unfold K. rewrite H. split; [intros p Hp; discriminate|intros i m []].
Qed.

End Level.

(** * what an error of one level (command [c], line [T]) is caused by *)
Inductive level_breaks (c : cmd) (T : list bytes) (e : error) : Prop :=
| LBLoop : loop_cause c T e -> level_breaks c T e
    (* raised while a token, the pending occurrence, an environment value or a default was processed *)
| LBSubConflict name : is_set s_args_negate_subs c = true -> e = mkerr c EArgumentConflict name -> level_breaks c T e
| LBHelpSub names : suffix_of names T -> e = help_walk c names -> level_breaks c T e
| LBExtValue v : In v T -> is_set s_allow_external c = true ->
    vp_parse (opt_default VPOsString (c_ext_vp c)) v = Some (e_kind e) -> e_arg e = [] -> level_breaks c T e
| LBValidate m k x : assert_app c = true -> faithful c T m -> validate c m = VErr k x -> e = mkerr c k x -> level_breaks c T e.

(** the error belongs to this level or to a level further down the chain of subcommands, each parsing a tail of the line *)
Inductive breaks : cmd -> list bytes -> error -> Prop :=
| BHere c T e : level_breaks c T e -> breaks c T e
| BSub c T n sc T' e : build_subcommand c n = Some sc -> suffix_of T' T -> breaks sc T' e -> breaks c T e.

Lemma external_fill_cause c vp st vals e st' :
  fold_left (fun rm v => do m <- rm;
                         match vp_parse vp v with
                         | Some k => RErr (mkerr c k []) st
                         | None => expect 458 (add_val_to m ext_id v)
                         end) vals (ROk (start_custom_arg_m matcher_new (arg_new ext_id) SCmdLine)) = RErr e st' ->
  exists v, In v vals /\ vp_parse vp v = Some (e_kind e) /\ e_arg e = [].
Proof.
  intros H.
  apply (fold_res_err (fun v m => match vp_parse vp v with
                                  | Some k => RErr (mkerr c k []) st
                                  | None => expect 458 (add_val_to m ext_id v) end)) in H.
  destruct H as [[s Hs]|[v [m [Hin [s Hf]]]]]; [discriminate Hs|].
  destruct (vp_parse vp v) as [k|] eqn:Ev; [|exfalso; eapply expect_not_err, Hf].
  injection Hf as <- _. exists v. split; [exact Hin|]. split; [exact Ev|reflexivity].
Qed.

Theorem gmw_breaks : forall fuel c toks st0, tree_ok fuel c -> K c toks st0 ->
  okE (K c toks) (breaks c toks) (get_matches_with fuel c toks st0).
Proof.
  induction fuel as [|f IH]; intros c toks st0 Hok HK; [exact I|].
  destruct Hok as [Hwf [Happ Hch]]. pose proof Hwf as [_ [_ [W3 _]]].
  cbn [get_matches_with].
  match goal with |- okE _ _ (match ?pp with ROk _ => _ | RErr _ _ => _ | RPanic _ => _ end) => set (parsed := pp) end.
  assert (Hparsed : okE (K c toks) (breaks c toks) parsed).
  { subst parsed. eapply okE_bind.
    - eapply okE_weaken; [apply (parse_loop_K c toks W3 toks (mkL PSValuesDone 1 false false) st0 (suffix_refl toks) HK I)| |].
      + intros lr Hlr. exact Hlr.
      + intros e He. apply BHere, LBLoop. exact He.
    - intros lr Hlr. destruct lr as [st|name keep vaf st rest|name vals st|names st].
      + exact Hlr.
      + destruct Hlr as [HKs Hrest].
        destruct (is_set s_args_negate_subs c && vaf) eqn:Eneg.
        { cbn. apply BHere. eapply LBSubConflict; [|reflexivity]. apply andb_prop in Eneg. apply Eneg. }
        destruct (find_subcommand c name) as [sc0|]; cbn [expect rbind]; [|exact I].
        destruct (build_subcommand c (c_name sc0)) as [sc|] eqn:Eb; [|exact HKs].
        destruct (negb (assert_app sc)); [exact I|].
        pose proof (Hch _ _ Eb) as Hsc.
        match goal with |- context [get_matches_with f sc rest ?s0] =>
          assert (Hsub : okE (K sc rest) (breaks sc rest) (get_matches_with f sc rest s0))
            by (apply IH; [exact Hsc|apply K_fresh; destruct keep; reflexivity]);
          destruct (get_matches_with f sc rest s0) as [sub_st|e sub_st|site]
        end; cbn [okE] in Hsub |- *.
        * apply K_set_sub; exact HKs.
        * destruct (is_set s_ignore_errors c); [apply K_set_sub; exact HKs|].
          cbn. eapply BSub; [exact Eb|exact Hrest|exact Hsub].
        * exact I.
      + destruct Hlr as [HKs [Hsuf Hext]].
        match goal with |- okE _ _ (rbind ?fl _) => destruct fl as [m|e s|x] eqn:Efill end; cbn [rbind okE]; [|..].
        * apply K_set_sub; exact HKs.
        * apply external_fill_cause in Efill. destruct Efill as [v [Hv [Hk Ha]]].
          apply BHere. eapply (LBExtValue c toks e v); [|exact Hext|exact Hk|exact Ha].
          eapply suffix_incl; [exact Hsuf|right; exact Hv].
        * exact I.
      + cbn. destruct Hlr as [_ Hn]. apply BHere. eapply LBHelpSub; [exact Hn|reflexivity]. }
  destruct parsed as [st|e st|site]; cbn [okE] in Hparsed; [| |exact I].
  - eapply okE_bind; [eapply okE_weaken; [apply (resolve_pending_K c toks st Hparsed)|intros s Hs; exact Hs|]|].
    { intros e He. apply BHere, LBLoop, LCReact. exact He. }
    intros st1 [HK1 _].
    eapply okE_bind; [eapply okE_weaken; [apply (add_env_K c toks st1 HK1)|intros s Hs; exact Hs|]|].
    { intros e He. apply BHere, LBLoop, LCReact. exact He. }
    intros st2 HK2.
    eapply okE_bind; [eapply okE_weaken; [apply (add_defaults_K c toks st2 HK2)|intros s Hs; exact Hs|]|].
    { intros e He. apply BHere, LBLoop, LCReact. exact He. }
    intros st3 HK3. unfold vres_to_res.
    destruct (validate c (mt st3)) as [|k a|s] eqn:Ev; cbn; [exact HK3| |exact I].
    apply BHere. eapply LBValidate; [exact Happ|apply K_faithful; exact HK3|exact Ev|reflexivity].
  - destruct (is_set s_ignore_errors c); [|exact Hparsed].
    destruct (resolve_pending c st) as [s0|e0 s0|x0]; try exact I;
      (match goal with |- context [add_env c ?x] => destruct (add_env c x) as [s1|e1 s1|x1] end; try exact I;
       match goal with |- context [add_defaults c ?x] => destruct (add_defaults c x) end; try exact I; exact Hparsed).
Qed.

(** * the whole parse *)
Theorem do_parse_breaks c0 toks e : plain c0 = true -> valid c0 = true ->
  do_parse c0 toks = OErr e -> breaks (build_self c0) toks e.
Proof.
  intros Hp Hv. unfold do_parse. rewrite Hv. cbn [negb].
  unfold valid in Hv. cbn zeta in Hv.
  pose proof (tree_ok_of_valid _ _ Hp Hv) as Hok.
  pose proof (gmw_breaks _ (build_self c0) toks ps_new Hok (K_fresh (build_self c0) toks ps_new eq_refl)) as Hs.
  destruct (get_matches_with _ (build_self c0) toks ps_new) as [st|e1 st|s]; cbn [okE] in Hs.
  - discriminate.
  - destruct (is_set s_ignore_errors (build_self c0) && use_stderr (e_kind e1)); [discriminate|].
    intros H; injection H as <-. exact Hs.
  - destruct s; discriminate.
Qed.

(** an accepted level: every explicit entry of its matcher is accounted for by the line or the environment *)
Theorem accepted_faithful c0 toks st : plain c0 = true -> valid c0 = true ->
  get_matches_with (S (S (depth (build_self c0)))) (build_self c0) toks ps_new = ROk st ->
  faithful (build_self c0) toks (mt st).
Proof.
  intros Hp Hv H. unfold valid in Hv. cbn zeta in Hv.
  pose proof (tree_ok_of_valid _ _ Hp Hv) as Hok.
  pose proof (gmw_breaks _ (build_self c0) toks ps_new Hok (K_fresh (build_self c0) toks ps_new eq_refl)) as Hs.
  rewrite H in Hs. apply K_faithful. exact Hs.
Qed.

Lemma bin_name_eta c0 : c0 <| c_bin_name := c_bin_name c0 |> = c0.
Proof. destruct c0; reflexivity. Qed.

(** the chain of levels: the root command, or a built subcommand of a reached level with a tail of its line *)
Inductive reach : cmd -> list bytes -> cmd -> list bytes -> Prop :=
| RHere c T : reach c T c T
| RSub c T n sc T' c2 T2 : build_subcommand c n = Some sc -> suffix_of T' T -> reach sc T' c2 T2 -> reach c T c2 T2.

Lemma breaks_reach c T e : breaks c T e -> exists c' T', reach c T c' T' /\ level_breaks c' T' e.
Proof.
  induction 1 as [c T e H|c T n sc T' e Hb Hs _ [c' [T2 [Hr Hl]]]].
  - exists c, T. split; [constructor|exact H].
  - exists c', T2. split; [econstructor; eassumption|exact Hl].
Qed.

Theorem parse_top_breaks c0 argv e : plain c0 = true ->
  (forall b, valid (c0 <| c_bin_name := b |>) = true) -> valid c0 = true ->
  parse_top c0 argv = OErr e ->
  exists b T, suffix_of T argv /\ breaks (build_self (c0 <| c_bin_name := b |>)) T e.
Proof.
  intros Hp Hvb Hv. unfold parse_top.
  assert (Same : forall T, suffix_of T argv -> do_parse c0 T = OErr e ->
            exists b T, suffix_of T argv /\ breaks (build_self (c0 <| c_bin_name := b |>)) T e).
  { intros T HT H. exists (c_bin_name c0), T. split; [exact HT|]. rewrite bin_name_eta.
    apply do_parse_breaks; assumption. }
  destruct (is_set s_no_binary_name c0); [apply Same; apply suffix_refl|].
  destruct argv as [|bin rest]; [apply Same; apply suffix_refl|].
  assert (Hrest : suffix_of rest (bin :: rest)) by (exists [bin]; reflexivity).
  destruct (c_bin_name c0); [apply Same; exact Hrest|].
  destruct (utf8_valid bin && negb (is_nil bin)); [|apply Same; exact Hrest].
  intros H. exists (Some bin), rest. split; [exact Hrest|].
  apply do_parse_breaks; [rewrite plain_bin; exact Hp|apply Hvb|exact H].
Qed.

(** * what "a rule asks for [x]" means, declaratively (no worklist, no [ChildGraph]) *)
Section Req.
Variable c : cmd.

(** what the explicit occurrence [m] of the present argument [root] demands: the targets of the [requires] /
    [requires_if] rules of [root] whose predicate holds of [m], and -- transitively -- the targets of the
    UNCONDITIONAL [requires] rules of the arguments so reached.  (As in command.rs [unroll_arg_requires] after the
    repair: a conditional rule of an argument that is only reached through the chain says nothing about the values
    of [root] and is not followed; it is judged when that argument is itself explicitly present, as a root.) *)
Inductive req_by (m : marg) (root : id) : id -> Prop :=
| RB_root a p y : find_arg c root = Some a -> In (p, y) (a_requires a) -> Relations.holds p m -> req_by m root y
| RB_step x b y : req_by m root x -> find_arg c x = Some b -> In (PIsPresent, y) (a_requires b) -> req_by m root y.

(** a requirement rule of the definition asks for [x], given the explicit entries of [mt] *)
Inductive rule_requires (mt : matcher) (x : id) : Prop :=
| RRArg a : In a (c_args c) -> a_required a = true -> a_id a = x -> rule_requires mt x
| RRGroup g : In g (c_groups c) -> g_required g = true -> (g_id g = x \/ In x (g_requires g)) -> rule_requires mt x
| RRPresentGroup i ma g : In (i, ma) (explicit_entries mt) -> find_arg c i = None -> find_group c i = Some g ->
    In x (g_requires g) -> rule_requires mt x
| RRPresentArg i ma : In (i, ma) (explicit_entries mt) -> req_by ma i x -> rule_requires mt x.

Definition ur_step (acc : list id * list id) (r : id) : list id * list id :=
  let '(args, pushed) := acc in
  let pushed := match find_arg c r with
                | Some req => if negb (is_nil (a_requires req)) then a_id req :: pushed else pushed
                | None => pushed end in
  (args ++ [r], pushed).

Lemma ur_step_sound : forall l args pushed args' pushed',
  fold_left ur_step l (args, pushed) = (args', pushed') ->
  args' = args ++ l /\ forall z, In z pushed' -> In z pushed \/ In z l.
Proof.
  induction l as [|r t IH]; intros args pushed args' pushed'; cbn [fold_left].
  - intros H; injection H as <- <-. rewrite app_nil_r. split; [reflexivity|]. intros z Hz. left; exact Hz.
  - unfold ur_step at 2. intros H. apply IH in H. destruct H as [-> Hp]. rewrite <- app_assoc. cbn [app].
    split; [reflexivity|]. intros z Hz. destruct (Hp z Hz) as [H1|H1]; [|right; right; exact H1].
    destruct (find_arg c r) as [rq|] eqn:Ef; [|left; exact H1].
    destruct (negb (is_nil (a_requires rq))); [|left; exact H1].
    destruct H1 as [H1|H1]; [|left; exact H1].
    right; left. apply ErrorSound.find_arg_id in Ef. destruct Ef as [Ef _]. congruence.
Qed.

Lemma unroll_loop_sound (m : marg) (root : id) : forall fuel r_vec processed args out,
  unroll_requires_loop c (fun r => if check_explicit_m (fst r) m then Some (snd r) else None) root fuel r_vec processed args
    = Some out ->
  (forall x, In x r_vec -> x = root \/ req_by m root x) ->
  (forall y, In y args -> req_by m root y) ->
  forall y, In y out -> req_by m root y.
Proof.
  induction fuel as [|f IH]; intros r_vec processed args out; cbn [unroll_requires_loop]; [discriminate|].
  destruct r_vec as [|a rest]; [intros H _ Ha; injection H as <-; exact Ha|].
  destruct (mem_id a processed).
  { intros H Hr Ha. eapply IH; [exact H| |exact Ha]. intros x Hx. apply Hr. right; exact Hx. }
  destruct (find_arg c a) as [arg|] eqn:Efa.
  2:{ intros H Hr Ha. eapply IH; [exact H| |exact Ha]. intros x Hx. apply Hr. right; exact Hx. }
  set (l := filter_map (relevant_rule (fun r : pred * id => if check_explicit_m (fst r) m then Some (snd r) else None)
                                      (beq a root)) (a_requires arg)).
  change (fold_left _ l (args, [])) with (fold_left ur_step l (args, [])).
  destruct (fold_left ur_step l (args, [])) as [args' pushed'] eqn:Ef.
  apply ur_step_sound in Ef. destruct Ef as [-> Hp].
  intros H Hr Ha.
  assert (Hl : forall y, In y l -> req_by m root y).
  { intros y Hy. subst l. apply filter_map_in in Hy. destruct Hy as [[p y'] [Hin Hf]].
    unfold relevant_rule in Hf. cbn [fst snd] in Hf.
    destruct (beq a root) eqn:Eroot.
    - (* the root's own rules: judged by [func] *)
      apply beq_eq in Eroot. subst a. cbn [orb] in Hf.
      destruct (check_explicit_m p m) eqn:Ece; [|discriminate Hf]. injection Hf as ->.
      apply Relations.check_explicit_m_spec in Ece. eapply RB_root; eassumption.
    - (* an argument behind the chain: only its unconditional rules *)
      cbn [orb] in Hf. destruct p as [v|]; cbn [pred_is_present] in Hf; [discriminate Hf|].
      destruct (check_explicit_m PIsPresent m); [|discriminate Hf]. injection Hf as ->.
      destruct (Hr a (or_introl eq_refl)) as [->|Hra]; [rewrite beq_refl in Eroot; discriminate Eroot|].
      eapply RB_step; eassumption. }
  eapply IH; [exact H| |].
  - intros x Hx. apply in_app_or in Hx. destruct Hx as [Hx|Hx]; [|apply Hr; right; exact Hx].
    destruct (Hp x Hx) as [[]|Hx']. right. apply Hl. exact Hx'.
  - intros y Hy. apply in_app_or in Hy. destruct Hy as [Hy|Hy]; [apply Ha; exact Hy|apply Hl; exact Hy].
Qed.

Theorem requirement_set_sound mt req x :
  gather_requires c mt (required_graph c) = Some req -> In x req -> rule_requires mt x.
Proof.
  intros Hg Hx. destruct (gather_requires_in _ _ _ _ _ Hg Hx) as [Hb|[[i ma] [Hin [[a [rs [Hf [Hu Hrs]]]]|[g [Hf [Hfg Hxg]]]]]]].
  - destruct (required_graph_in _ _ Hb) as [[a [H1 [H2 H3]]]|[g [H1 [H2 H3]]]].
    + eapply RRArg; eassumption.
    + eapply RRGroup; eassumption.
  - cbn [fst snd] in *. eapply RRPresentArg; [exact Hin|].
    destruct (ErrorSound.find_arg_id _ _ _ Hf) as [Hid _]. rewrite Hid in Hu.
    unfold unroll_arg_requires in Hu.
    eapply (unroll_loop_sound ma i _ _ _ _ _ Hu); [| |exact Hrs].
    + intros y [<-|[]]. left; reflexivity.
    + intros y [].
  - cbn [fst] in *. eapply RRPresentGroup; eassumption.
Qed.

(** [req_by] is C03's [Relations.ReqBy] (the two vocabularies were written independently) *)
Lemma req_by_ReqBy m root y : req_by m root y <-> Relations.ReqBy c root m y.
Proof.
  split.
  - induction 1 as [a p y Ha Hin Hh|x b y _ IH Hb Hin].
    + eapply Relations.RB_direct; eassumption.
    + eapply Relations.RB_trans; eassumption.
  - induction 1 as [a p y Ha Hin Hh|x b y _ IH Hb Hin].
    + eapply RB_root; eassumption.
    + eapply RB_step; eassumption.
Qed.

(** the other inclusion: every id a rule asks for is in the set the validator computes *)
Theorem requirement_set_complete mt req x :
  gather_requires c mt (required_graph c) = Some req -> rule_requires mt x -> In x req.
Proof.
  intros Hg HR. rewrite Relations.gather_requires_unfold in Hg. apply Relations.gr_fold_spec in Hg.
  destruct Hg as [Hi He].
  destruct HR as [a Hin Hr Hid|g Hin Hr Hx|i ma g Hin Hna Hg Hx|i ma Hin Hrb].
  - apply Hi, Relations.required_graph_spec. left. exists a. repeat split; [exact Hin|exact Hr|symmetry; exact Hid].
  - apply Hi, Relations.required_graph_spec. right. exists g. repeat split; [exact Hin|exact Hr|].
    destruct Hx as [Hx|Hx]; [left; symmetry; exact Hx|right; exact Hx].
  - destruct (He i ma Hin) as [_ Hgrp]. apply (Hgrp g Hna Hg). exact Hx.
  - assert (Ha : exists a, find_arg c i = Some a).
    { clear - Hrb. induction Hrb as [a p y Ha _ _|x b y _ IH _ _]; [exists a; exact Ha|exact IH]. }
    destruct Ha as [a Ha]. destruct (He i ma Hin) as [Harg _]. destruct (Harg a Ha) as [rs [Hu Hrs]].
    apply Hrs. apply (Relations.ReqBy_unrolled c i ma rs Hu). apply req_by_ReqBy. exact Hrb.
Qed.

(** the requirement set IS the set of ids demanded by the declarative rule *)
Theorem requirement_set_exact mt req :
  gather_requires c mt (required_graph c) = Some req -> forall x, In x req <-> rule_requires mt x.
Proof.
  intros Hg x. split; [apply requirement_set_sound; exact Hg|apply requirement_set_complete; exact Hg].
Qed.

(** ... and it always exists (the worklist never runs out of fuel) *)
Theorem requirement_set_exists_exact mt :
  exists req, gather_requires c mt (required_graph c) = Some req /\ forall x, In x req <-> rule_requires mt x.
Proof.
  destruct (ValidateTotal.gather_requires_some c mt (required_graph c)) as [req Hg].
  exists req. split; [exact Hg|apply requirement_set_exact; exact Hg].
Qed.

(** why [x] is reported missing, without reference to the validator's tables *)
Definition missing_rule (mt : matcher) (x : id) : Prop :=
  check_explicit mt x PIsPresent = false /\
  (rule_requires mt x
   \/ (exists a, In a (c_args c) /\ a_id a = x /\ ErrorSound.cond_required mt a)
   \/ (exists p, In p (positionals c) /\ a_id p = x /\ is_set s_allow_missing_pos c = false)).

Theorem missing_rule_sound mt x :
  validate c mt = VErr EMissingRequiredArgument x -> missing_rule mt x.
Proof.
  intros Hv. destruct (validate_missing_sound _ _ _ Hv) as [req [Hr [Hn Hc]]]. split; [exact Hn|].
  destruct Hc as [Hc|[Hc|Hc]]; [left; eapply requirement_set_sound; eassumption|right; left; exact Hc|right; right; exact Hc].
Qed.
End Req.

(** * the kind names the cause: per kind, what [level_breaks] amounts to *)
Section Justified.
Variable c : cmd.
Variable T : list bytes.

(** the line or the environment accounts for the id (of an argument or of one of its groups) *)
Definition accounted (i : id) : Prop := selId c T i \/ envId c i.

Lemma faithful_accounted m i : faithful c T m -> explicit_id m i -> accounted i.
Proof.
  intros Hf Hi. unfold explicit_id in Hi. apply in_map_iff in Hi. destruct Hi as [[j ma] [<- Hin]]. cbn [fst].
  destruct (Hf j ma Hin) as [[_ H]|[_ H]]; [left; exact H|exact H].
Qed.

(** an occurrence of [a] whose number of values breaks the declared range *)
Definition J_count_occ (e : error) : Prop :=
  exists a raw r, In a (c_args c) /\ occurs c T a /\ Forall (origin c T) raw /\ a_num a = Some r /\
                  e_arg e = a_id a /\ count_breaks (e_kind e) r (N.of_nat (length raw)).
(** a value of known origin outside the language of the parser of the argument it was given to *)
Definition J_value_occ (e : error) : Prop :=
  exists a s vp v, In a (c_args c) /\ srcOKarg c T a s /\ a_vp a = Some vp /\ origin c T v /\
                   vp_parse vp v = Some (e_kind e) /\ ~ in_lang vp v /\ e_arg e = a_id a.
Definition J_ext_value (e : error) : Prop :=
  exists v, In v T /\ is_set s_allow_external c = true /\
            vp_parse (opt_default VPOsString (c_ext_vp c)) v = Some (e_kind e) /\
            ~ in_lang (opt_default VPOsString (c_ext_vp c)) v.
Definition J_unknown_tok (e : error) : Prop := exists tok, In tok T /\ unknown_cause c tok e.
Definition J_help_walk (e : error) : Prop := exists names, suffix_of names T /\ e = help_walk c names.

Definition kind_justified (e : error) : Prop :=
  match e_kind e with
  | EMissingRequiredArgument =>
      (* a matcher faithful to the line in which the named id is not explicitly present although a rule asks for it *)
      exists m, faithful c T m /\ missing_rule c m (e_arg e)
  | EArgumentConflict =>
      (* two accounted-for ids one of which declares a conflict with the other *)
      (accounted (e_arg e) /\ is_some (find_arg c (e_arg e)) = true /\
       exists other, accounted other /\ other <> e_arg e /\
                     (Relations.declares c (e_arg e) other \/ Relations.declares c other (e_arg e)))
      (* an exclusive argument next to another explicit argument *)
      \/ (accounted (e_arg e) /\
          exists a m, find_arg c (e_arg e) = Some a /\ a_exclusive a = true /\ faithful c T m /\
                      (2 <= length (filter (fun p => is_some (find_arg c (fst p))) (explicit_entries m)))%nat)
      (* a repeated Set / SetTrue / SetFalse argument that does not override itself *)
      \/ (exists a s st, In a (c_args c) /\ srcOKarg c T a s /\ e_arg e = a_id a /\ K c T st /\
                         mt_contains (mt st) (a_id a) = true /\
                         (is_set s_args_override_self c || mem_id (a_id a) (a_overrides a)) = false /\
                         In (a_get_action a) [ASet; ASetTrue; ASetFalse])
      (* args_conflicts_with_subcommands: a word where no positional is left / a subcommand after an argument *)
      \/ J_unknown_tok e
      \/ is_set s_args_negate_subs c = true
  | ETooManyValues =>
      J_count_occ e \/ (exists tok, In tok T /\ unneeded_cause c tok (e_arg e))
  | ETooFewValues | EWrongNumberOfValues => J_count_occ e
  | ENoEquals => exists tok, In tok T /\ noeq_cause c tok (e_arg e)
  | EInvalidValue => J_value_occ e \/ J_count_occ e \/ J_ext_value e
  | EValueValidation => J_value_occ e \/ J_ext_value e
  | EInvalidUtf8 =>
      J_value_occ e \/ J_ext_value e
      \/ (exists tok, In tok T /\ utf8_valid tok = false /\ is_set s_allow_external c = true)
  | EUnknownArgument => J_unknown_tok e
  | EInvalidSubcommand => J_unknown_tok e \/ J_help_walk e
  | EDisplayHelp =>
      (exists a s, In a (c_args c) /\ srcOKarg c T a s /\ In (a_get_action a) [AHelp; AHelpShort; AHelpLong])
      \/ J_help_walk e
  | EDisplayVersion => exists a s, In a (c_args c) /\ srcOKarg c T a s /\ a_get_action a = AVersion
  | EDisplayHelpOnMissing =>
      exists m, faithful c T m /\ explicit_entries m = [] /\ mt_sub m = None /\ is_set s_arg_required_else_help c = true
  | EMissingSubcommand => exists m, faithful c T m /\ mt_sub m = None /\ is_set s_sub_required c = true
  | EIo | EFormat => False
  end.

Lemma validate_early c' m k x : validate c' m = VErr k x ->
  (k = EDisplayHelpOnMissing -> explicit_entries m = [] /\ mt_sub m = None /\ is_set s_arg_required_else_help c' = true)
  /\ (k = EMissingSubcommand -> mt_sub m = None /\ is_set s_sub_required c' = true).
Proof.
  unfold validate. destruct (conflicts_with_args c' m) as [pot|]; [|discriminate].
  destruct (negb (is_some (mt_sub m)) && is_set s_arg_required_else_help c' && is_nil (explicit_entries m)) eqn:E1.
  { intros H; injection H as <- _. split; [intros _|discriminate].
    apply andb_prop in E1. destruct E1 as [E1 E3]. apply andb_prop in E1. destruct E1 as [E1 E2].
    destruct (explicit_entries m); [|discriminate E3]. destruct (mt_sub m); [discriminate E1|]. auto. }
  destruct (negb (is_some (mt_sub m)) && is_set s_sub_required c') eqn:E2.
  { intros H; injection H as <- _. split; [discriminate|intros _].
    apply andb_prop in E2. destruct E2 as [E2 E3]. destruct (mt_sub m); [discriminate E2|]. auto. }
  destruct (validate_conflicts c' m pot) as [|k' a'|s] eqn:Ev.
  - destruct (is_set s_subs_negate_reqs c' && is_some (mt_sub m)); [discriminate|].
    destruct (missing_required c' m pot) as [[|y t]|]; try discriminate. intros H; injection H as <- _. split; discriminate.
  - intros H; injection H as <- _. apply validate_conflicts_kind in Ev. subst k'. split; discriminate.
  - discriminate.
Qed.

Ltac kind_no H := exfalso; cbn in H; repeat (destruct H as [H|H]; [discriminate H|]); exact H.

Theorem level_breaks_justified e : level_breaks c T e -> kind_justified e.
Proof.
  intros H. unfold kind_justified. destruct H as [Hl|name Hn He|names Hs He|v Hv Hext Hk Ha|m k x Happ Hf Hv He].
  - destruct Hl as [Hr|tok Htok Hc Hk|tok i Htok Hc He|tok i Htok Hc He|tok Htok Hu Hext He].
    + destruct Hr as [a [s [raw [Hin [Hs [HV Hc]]]]]].
      destruct Hc as [r Hcmd Hnum Harg Hk Hcb|st Hk Harg HK Hcon Hso Hact|vp v Hvp Hvt Hpv Hnl Harg|Hk Hact|Hk Hact].
      * assert (Hocc : J_count_occ e).
        { exists a, raw, r. subst s. repeat (split; [assumption|]); assumption. }
        cbn in Hk. destruct Hk as [Hk|[Hk|[Hk|[Hk|[]]]]]; rewrite <- Hk; auto.
      * rewrite Hk. right; right; left. exists a, s, st. repeat (split; [assumption|]); assumption.
      * assert (Hocc : J_value_occ e).
        { exists a, s, vp, v. repeat (split; [assumption|]); assumption. }
        pose proof Hpv as Hpv'. apply vp_parse_reject_sound in Hpv'. destruct Hpv' as [_ [Hk _]].
        cbn in Hk. destruct Hk as [Hk|[Hk|[Hk|[]]]]; rewrite <- Hk; auto.
      * rewrite Hk. left. exists a, s. repeat (split; [assumption|]); assumption.
      * rewrite Hk. exists a, s. repeat (split; [assumption|]); assumption.
    + assert (Hj : J_unknown_tok e) by (exists tok; split; assumption).
      cbn in Hk. destruct Hk as [Hk|[Hk|[Hk|[]]]]; rewrite <- Hk; auto.
    + subst e. cbn. exists tok. split; assumption.
    + subst e. cbn. right. exists tok. split; assumption.
    + subst e. cbn. right; right. exists tok. repeat (split; [assumption|]); assumption.
  - subst e. cbn. right; right; right; right. exact Hn.
  - assert (Hj : J_help_walk e) by (exists names; split; assumption).
    destruct (help_walk_sound names c) as [Hk|[Hk _]]; rewrite <- He in Hk; rewrite Hk; auto.
  - assert (Hj : J_ext_value e).
    { exists v. split; [exact Hv|]. split; [exact Hext|]. split; [exact Hk|]. apply vp_parse_reject_sound in Hk. apply Hk. }
    pose proof Hk as Hk'. apply vp_parse_reject_sound in Hk'. destruct Hk' as [_ [Hkk _]].
    cbn in Hkk. destruct Hkk as [Hkk|[Hkk|[Hkk|[]]]]; rewrite <- Hkk; auto.
  - subst e. cbn [e_kind e_arg mkerr].
    pose proof (validate_kinds _ _ _ _ Hv) as Hk. pose proof (validate_early _ _ _ _ Hv) as [Hh Hms].
    cbn in Hk. destruct Hk as [Hk|[Hk|[Hk|[Hk|[]]]]]; subst k.
    + destruct (Hh eq_refl) as [H1 [H2 H3]]. exists m. repeat (split; [assumption|]); assumption.
    + destruct (Hms eq_refl) as [H1 H2]. exists m. repeat (split; [assumption|]); assumption.
    + destruct (validate_conflict_sound _ _ _ Hv) as [Hex [Harg Hc]].
      pose proof (faithful_accounted m x Hf Hex) as Hax.
      destruct Hc as [[a [Ha [Hexc Hlen]]]|[other [Hoex [Hne Hd]]]].
      * right; left. split; [exact Hax|]. exists a, m. repeat (split; [assumption|]); assumption.
      * left. split; [exact Hax|]. split; [exact Harg|]. exists other.
        split; [eapply faithful_accounted; eassumption|]. split; [exact Hne|].
        pose proof (Relations.assert_app_rel_wf c Happ) as W.
        destruct Hd as [[l [Hg Hin]]|[l [Hg Hin]]]; [left|right];
          apply (Relations.gather_direct_spec c W _ _ Hg); exact Hin.
    + exists m. split; [exact Hf|]. apply missing_rule_sound. exact Hv.
Qed.
End Justified.

(** the single theorem: a rejection of the whole parse is justified, by kind, at a level of the subcommand chain *)
Definition Breaks (c0 : cmd) (argv : list bytes) (e : error) : Prop :=
  exists b T c' T', suffix_of T argv /\ reach (build_self (c0 <| c_bin_name := b |>)) T c' T' /\ kind_justified c' T' e.

Theorem kind_sound c0 argv e : plain c0 = true ->
  (forall b, valid (c0 <| c_bin_name := b |>) = true) -> valid c0 = true ->
  parse_top c0 argv = OErr e -> Breaks c0 argv e.
Proof.
  intros Hp Hvb Hv H. destruct (parse_top_breaks c0 argv e Hp Hvb Hv H) as [b [T [HT Hb]]].
  destruct (breaks_reach _ _ _ Hb) as [c' [T' [Hr Hl]]].
  exists b, T, c', T'. split; [exact HT|]. split; [exact Hr|]. apply level_breaks_justified. exact Hl.
Qed.

(** * non-vacuity: a valid [plain] command (required option, ranged integer option, conflicting flags,
    require-equals option, two-valued option) and lines rejected with eleven different kinds *)
Definition ex_dd (l : bytes) : bytes := 45 :: 45 :: l.
Definition ex_cmd : cmd :=
  let n := (arg_new [110]) <| a_long := Some [110; 97] |> <| a_required := true |> in
  let k := (arg_new [107]) <| a_long := Some [107; 107] |> <| a_vp := Some (VPI64 (-5) 300) |> in
  let f := (arg_new [102]) <| a_long := Some [102; 102] |> <| a_short := Some 102 |> <| a_action := Some ASetTrue |>
             <| a_blacklist := [[111]] |> in
  let o := (arg_new [111]) <| a_long := Some [111; 111] |> <| a_action := Some ASetTrue |> in
  let q := (arg_new [113]) <| a_long := Some [113; 113] |> <| a_req_eq := true |> in
  let w := (arg_new [119]) <| a_long := Some [119; 119] |> <| a_num := Some {| vmin := 2; vmax := 2 |} |> in
  (cmd_new [112]) <| c_args := [n; k; f; o; q; w] |>.
Definition ex_kind (l : list bytes) : option ekind :=
  match parse_top ex_cmd ([112] :: l) with OErr e => Some (e_kind e) | _ => None end.

Example kind_sound_nonvacuous :
  plain ex_cmd = true /\ valid ex_cmd = true /\ (forall b, valid (ex_cmd <| c_bin_name := b |>) = true)
  /\ map ex_kind
       [ [];                                                            (* required --na missing *)
         [ex_dd [110;97]; [120]];                                       (* accepted *)
         [ex_dd [110;97]; [120]; ex_dd [102;102]; ex_dd [111;111]];     (* --ff conflicts with --oo *)
         [ex_dd [110;97]; [120]; ex_dd [110;97]; [121]];                (* --na repeated *)
         [ex_dd [110;97]; [120]; ex_dd [107;107]; [57;57;57]];          (* --kk 999: outside -5..=300 *)
         [ex_dd [110;97]; [120]; ex_dd [113;113]; [118]];               (* --qq v: `=` required *)
         [ex_dd [110;97]; [120]; ex_dd [102;102;61;120]];               (* --ff=x: a flag takes no value *)
         [ex_dd [110;97]; [120]; ex_dd [119;119]; [118]];               (* --ww v: two values declared *)
         [ex_dd [110;97]; [120]; ex_dd [122;122]];                      (* --zz unknown *)
         [ex_dd [110;97]; [255]];                                       (* value is not UTF-8 *)
         [ex_dd [104;101;108;112]];                                     (* --help *)
         [ex_dd [110;97]] ]                                             (* --na without a value *)
     = [Some EMissingRequiredArgument; None; Some EArgumentConflict; Some EArgumentConflict; Some EValueValidation;
        Some ENoEquals; Some ETooManyValues; Some EWrongNumberOfValues; Some EUnknownArgument; Some EInvalidUtf8;
        Some EDisplayHelp; Some EInvalidValue].
Proof.
  split; [vm_compute; reflexivity|]. split; [vm_compute; reflexivity|]. split; [|vm_compute; reflexivity].
  intros [b|]; vm_compute; reflexivity.
Qed.

(** * the definitions spelled out (pinned in Properties/C10.v, so that a change of a definition shows) *)
Lemma long_selects_spec c f a : long_selects c f a <->
  (get_long c f = Some a
   \/ (is_set s_infer_long c = true /\ In a (c_args c) /\ a_is_positional a = false /\
       ((exists l, a_long a = Some l /\ is_prefix f l = true)
        \/ existsb (fun p => is_prefix f (fst p)) (a_aliases a) = true))).
Proof. split; intros H; exact H. Qed.
Lemma occurs_spec c T a : occurs c T a <->
  exists tok, In tok T /\
    ((exists f ok v, to_long tok = Some (f, ok, v) /\ long_selects c f a)
     \/ (exists r, to_short tok = Some r /\
                   exists n ch r', sf_next (skipn n r) = Some (inl ch, r') /\ get_short c ch = Some a)
     \/ a_index a <> None).
Proof. split; intros H; exact H. Qed.
Lemma selId_spec c T i : selId c T i <->
  exists a, (In a (c_args c) /\ occurs c T a) /\ (a_id a = i \/ In i (groups_for_arg c (a_id a))).
Proof. split; intros H; exact H. Qed.
Lemma envId_spec c i : envId c i <->
  exists a, In a (c_args c) /\ a_env a <> None /\ (a_id a = i \/ In i (groups_for_arg c (a_id a))).
Proof. split; intros H; exact H. Qed.
Lemma faithful_spec c T m : faithful c T m <->
  forall i ma, In (i, ma) (explicit_entries m) ->
    (m_source ma = Some SCmdLine /\ selId c T i) \/ (m_source ma = Some SEnv /\ (selId c T i \/ envId c i)).
Proof. split; intros H; exact H. Qed.
Lemma Breaks_spec c0 argv e : Breaks c0 argv e <->
  exists b T c' T', suffix_of T argv /\ reach (build_self (c0 <| c_bin_name := b |>)) T c' T' /\ kind_justified c' T' e.
Proof. split; intros H; exact H. Qed.

Lemma justified_missing c T e : kind_justified c T e -> e_kind e = EMissingRequiredArgument ->
  exists m, faithful c T m /\ check_explicit m (e_arg e) PIsPresent = false /\
    (rule_requires c m (e_arg e)
     \/ (exists a, In a (c_args c) /\ a_id a = e_arg e /\ ErrorSound.cond_required m a)
     \/ (exists p, In p (positionals c) /\ a_id p = e_arg e /\ is_set s_allow_missing_pos c = false)).
Proof. unfold kind_justified. intros H Hk. rewrite Hk in H. exact H. Qed.

Lemma justified_conflict c T e : kind_justified c T e -> e_kind e = EArgumentConflict ->
  (accounted c T (e_arg e) /\ is_some (find_arg c (e_arg e)) = true /\
   exists other, accounted c T other /\ other <> e_arg e /\
                 (Relations.declares c (e_arg e) other \/ Relations.declares c other (e_arg e)))
  \/ (accounted c T (e_arg e) /\
      exists a m, find_arg c (e_arg e) = Some a /\ a_exclusive a = true /\ faithful c T m /\
                  (2 <= length (filter (fun p => is_some (find_arg c (fst p))) (explicit_entries m)))%nat)
  \/ (exists a s st, In a (c_args c) /\ srcOKarg c T a s /\ e_arg e = a_id a /\ K c T st /\
                     mt_contains (mt st) (a_id a) = true /\
                     (is_set s_args_override_self c || mem_id (a_id a) (a_overrides a)) = false /\
                     In (a_get_action a) [ASet; ASetTrue; ASetFalse])
  \/ (exists tok, In tok T /\ unknown_cause c tok e)
  \/ is_set s_args_negate_subs c = true.
Proof. unfold kind_justified. intros H Hk. rewrite Hk in H. exact H. Qed.

Lemma justified_count c T e : kind_justified c T e ->
  In (e_kind e) [ETooManyValues; ETooFewValues; EWrongNumberOfValues] ->
  (exists a raw r, In a (c_args c) /\ occurs c T a /\ Forall (origin c T) raw /\ a_num a = Some r /\
                   e_arg e = a_id a /\ count_breaks (e_kind e) r (N.of_nat (length raw)))
  \/ (e_kind e = ETooManyValues /\ exists tok, In tok T /\ unneeded_cause c tok (e_arg e)).
Proof.
  unfold kind_justified. intros H Hk. cbn in Hk. destruct Hk as [Hk|[Hk|[Hk|[]]]]; rewrite <- Hk in H.
  - destruct H as [H|H]; [left; exact H|right; split; [symmetry; exact Hk|exact H]].
  - left; exact H.
  - left; exact H.
Qed.

Lemma justified_noeq c T e : kind_justified c T e -> e_kind e = ENoEquals ->
  exists tok, In tok T /\ noeq_cause c tok (e_arg e).
Proof. unfold kind_justified. intros H Hk. rewrite Hk in H. exact H. Qed.

Lemma justified_value c T e : kind_justified c T e ->
  In (e_kind e) [EInvalidValue; EValueValidation; EInvalidUtf8] ->
  (exists a s vp v, In a (c_args c) /\ srcOKarg c T a s /\ a_vp a = Some vp /\ origin c T v /\
                    vp_parse vp v = Some (e_kind e) /\ ~ in_lang vp v /\ e_arg e = a_id a)
  \/ (exists v, In v T /\ is_set s_allow_external c = true /\
                vp_parse (opt_default VPOsString (c_ext_vp c)) v = Some (e_kind e) /\
                ~ in_lang (opt_default VPOsString (c_ext_vp c)) v)
  \/ (e_kind e = EInvalidValue /\
      exists a raw r, In a (c_args c) /\ occurs c T a /\ Forall (origin c T) raw /\ a_num a = Some r /\
                      e_arg e = a_id a /\ count_breaks (e_kind e) r (N.of_nat (length raw)))
  \/ (e_kind e = EInvalidUtf8 /\ exists tok, In tok T /\ utf8_valid tok = false /\ is_set s_allow_external c = true).
Proof.
  unfold kind_justified. intros H Hk. cbn in Hk. destruct Hk as [Hk|[Hk|[Hk|[]]]]; rewrite <- Hk in H.
  - destruct H as [H|[H|H]]; [left; exact H|right; right; left; split; [symmetry; exact Hk|exact H]|right; left; exact H].
  - destruct H as [H|H]; [left; exact H|right; left; exact H].
  - destruct H as [H|[H|H]]; [left; exact H|right; left; exact H|right; right; right; split; [symmetry; exact Hk|exact H]].
Qed.

Lemma justified_unknown c T e : kind_justified c T e -> unknown_kind (e_kind e) ->
  (exists tok, In tok T /\ unknown_cause c tok e) \/ (exists names, suffix_of names T /\ e = help_walk c names).
Proof.
  unfold kind_justified. intros H [Hk|Hk]; rewrite Hk in H; [left; exact H|exact H].
Qed.

(** * no spurious rejection, as the contrapositive of [kind_sound] joined with totality (C01): a line for which
    no error is justified at any level is accepted *)
Lemma do_parse_not_invalid c0 toks : valid c0 = true -> do_parse c0 toks <> OInvalidConfig.
Proof.
  intros Hv. unfold do_parse. rewrite Hv. cbn [negb].
  destruct (get_matches_with _ _ _ _) as [st|e st|s]; [discriminate| |destruct s; discriminate].
  destruct (is_set s_ignore_errors (build_self c0) && use_stderr (e_kind e)); discriminate.
Qed.

Theorem unbroken_accepted c0 argv : plain c0 = true ->
  (forall b, valid (c0 <| c_bin_name := b |>) = true) -> valid c0 = true ->
  (forall e, ~ Breaks c0 argv e) -> exists m, parse_top c0 argv = OOk m.
Proof.
  intros Hp Hvb Hv Hn.
  pose proof (parse_top_total c0 argv Hp Hvb Hv) as Ht.
  destruct (parse_top c0 argv) as [m|e|s| |] eqn:E; try contradiction.
  - exists m. reflexivity.
  - exfalso. apply (Hn e). apply kind_sound; assumption.
  - exfalso. revert E. unfold parse_top.
    destruct (is_set s_no_binary_name c0); [apply do_parse_not_invalid; exact Hv|].
    destruct argv as [|bin rest]; [apply do_parse_not_invalid; exact Hv|].
    destruct (c_bin_name c0); [apply do_parse_not_invalid; exact Hv|].
    destruct (utf8_valid bin && negb (is_nil bin)); apply do_parse_not_invalid; [apply Hvb|exact Hv].
Qed.

Lemma rule_requires_spec c mt x : rule_requires c mt x <->
  (exists a, In a (c_args c) /\ a_required a = true /\ a_id a = x)
  \/ (exists g, In g (c_groups c) /\ g_required g = true /\ (g_id g = x \/ In x (g_requires g)))
  \/ (exists i ma g, In (i, ma) (explicit_entries mt) /\ find_arg c i = None /\ find_group c i = Some g /\ In x (g_requires g))
  \/ (exists i ma, In (i, ma) (explicit_entries mt) /\ req_by c ma i x).
Proof.
  split.
  - intros [a H1 H2 H3|g H1 H2 H3|i ma g H1 H2 H3 H4|i ma H1 H2].
    + left. exists a. auto.
    + right; left. exists g. auto.
    + right; right; left. exists i, ma, g. auto.
    + right; right; right. exists i, ma. auto.
  - intros [[a [H1 [H2 H3]]]|[[g [H1 [H2 H3]]]|[[i [ma [g [H1 [H2 [H3 H4]]]]]]|[i [ma [H1 H2]]]]]].
    + eapply RRArg; eassumption.
    + eapply RRGroup; eassumption.
    + eapply RRPresentGroup; eassumption.
    + eapply RRPresentArg; eassumption.
Qed.

Lemma req_by_spec c m root y : req_by c m root y <->
  (exists a p, find_arg c root = Some a /\ In (p, y) (a_requires a) /\ Relations.holds p m)
  \/ (exists x b, req_by c m root x /\ find_arg c x = Some b /\ In (PIsPresent, y) (a_requires b)).
Proof.
  split.
  - intros [a p y' H1 H2 H3|x b y' H1 H2 H3].
    + left. exists a, p. auto.
    + right. exists x, b. auto.
  - intros [[a [p [H1 [H2 H3]]]]|[x [b [H1 [H2 H3]]]]].
    + eapply RB_root; eassumption.
    + eapply RB_step; eassumption.
Qed.

(** the witnesses for the repaired behaviour of [unroll_arg_requires] (a conditional rule behind a [requires] chain)
    and for the kept pre-repair function are in ParseProofs/RequiresChain.v *)
