(** Property C02, fourth pass, item (1): non-vacuity of the class with tails ([last(true)], [trailing_var_arg], [--]). *)
From ClapModel Require Import Base.Bytes Base.Machine Base.Utf8 Lex.OsStrExtModel.
From ClapModel Require Import Parse.Cmd Parse.Build Parse.Valid Parse.Matcher Parse.Errors Parse.Validator Parse.Parser.
From ClapModel Require Import ParseProofs.Actions ParseProofs.Unparse ParseProofs.UnparseProofs ParseProofs.UnparseTop
                              ParseProofs.UnparseSub ParseProofs.UnparseTrail ParseProofs.UnparseTree ParseProofs.UnparseIdx ParseProofs.UnparseIdxTop
                              ParseProofs.UnparseX ParseProofs.UnparseXProofs ParseProofs.UnparseXTree ParseProofs.UnparseXTrail ParseProofs.UnparseXLook
                              ParseProofs.UnparseYTree ParseProofs.UnparseBridge.
From Coq Require Import ZArith List Bool.
From RecordUpdate Require Import RecordSet.
Import RecordSetNotations.
Import ListNotations.
Open Scope N_scope.

Module YEx.
  (** prog -v (Count)  --opt <o> (Set)  <files>... (Append)  [-- <cmd>...]   ([cmd]: last(true), 1.. values, terminator ";")
      a multiple positional BELOW the highest index, allowed because the last positional is last(true).
      line 1: prog -v A B --opt X -- -a -- run      ([files] = A B; everything after the first [--] is [cmd], the second [--] included)
      line 2: prog -v -- R S                        ([files] absent: the counter jumps to [cmd]) *)
  Definition v : arg := (arg_new [118]) <| a_short := Some 118 |> <| a_action := Some ACount |>.
  Definition o : arg := (arg_new [111]) <| a_long := Some [111; 112; 116] |> <| a_action := Some ASet |>.
  Definition files : arg := (arg_new [102]) <| a_num := Some {| vmin := 1; vmax := usize_max |} |> <| a_action := Some AAppend |>.
  Definition cmdl : arg := (arg_new [99]) <| a_num := Some {| vmin := 1; vmax := usize_max |} |> <| a_action := Some AAppend |>
                             <| a_last := true |> <| a_term := Some [59] |>.
  Definition c0 : cmd := (cmd_new [112]) <| c_args := [v; o; files; cmdl] |>.
  Definition bin : bytes := [112].
  Definition c : cmd := build_self (with_bin c0 bin).
  Definition its : list item := [ItCluster [118] TNone; ItPos [[65]; [66]]; ItLongSep [111; 112; 116] [[88]]].
  Definition yinv : invy := YTrail its [[45; 97]; [45; 45]; [114; 117; 110]].
  Definition yinv2 : invy := YTrail [ItCluster [118] TNone] [[82]; [83]].
  Definition raw_of (i : id) (m : matches) : option groups := opt_map m_raw (fm_get i (ms_args m)).
  Definition idx_of_m (i : id) (m : matches) : option (list N) := opt_map m_indices (fm_get i (ms_args m)).
  Example ex_hyps :
    is_set s_no_binary_name c0 = false /\ valid (with_bin c0 bin) = true /\ wfy_inv c yinv = true /\ wfy_inv c yinv2 = true /\
    convx c = true /\ conv c = false /\ low_index_multiple c = true /\
    no_globals (build_recursive (S (S (depth c))) (with_bin c0 bin)) = true /\
    render_invy yinv = [[45; 118]; [65]; [66]; [45; 45; 111; 112; 116]; [88]; [45; 45]; [45; 97]; [45; 45]; [114; 117; 110]] /\
    render_invy yinv2 = [[45; 118]; [45; 45]; [82]; [83]].
  Proof. vm_compute. repeat split; reflexivity. Qed.
  Example ex_parse : exists m m2,
    parse_top c0 (bin :: render_invy yinv) = OOk m /\
    raw_of [102] m = Some [[[65]; [66]]] /\ raw_of [99] m = Some [[[45; 97]; [45; 45]; [114; 117; 110]]] /\ raw_of [111] m = Some [[[88]]] /\
    idx_of_m [102] m = Some [2; 3] /\ idx_of_m [99] m = Some [6; 7; 8] /\
    parse_top c0 (bin :: render_invy yinv2) = OOk m2 /\
    raw_of [102] m2 = None /\ raw_of [99] m2 = Some [[[82]; [83]]] /\ idx_of_m [99] m2 = Some [2; 3].
  Proof. eexists. eexists. split; [vm_compute; reflexivity|]. split; [reflexivity|]. split; [reflexivity|]. split; [reflexivity|].
    split; [reflexivity|]. split; [reflexivity|]. split; [vm_compute; reflexivity|]. repeat split. Qed.

  (** prog -v (Count)  <cmd>  <args>... (trailing_var_arg, 0.. values)
      line: prog -v C a1 --x -v -- z      (after [a1] every token is a raw value of [args]: [--x], the KNOWN flag [-v], [--]) *)
  Definition cm : arg := arg_new [99].
  Definition args : arg := (arg_new [97]) <| a_num := Some {| vmin := 0; vmax := usize_max |} |> <| a_tva := true |>.
  Definition t0 : cmd := (cmd_new [112]) <| c_args := [v; cm; args] |>.
  Definition tc : cmd := build_self (with_bin t0 bin).
  Definition tinv : invy := YTva [ItCluster [118] TNone; ItPos [[67]]] [[97; 49]; [45; 45; 120]; [45; 118]; [45; 45]; [122]].
  Example ex_tva_hyps :
    is_set s_no_binary_name t0 = false /\ valid (with_bin t0 bin) = true /\ wfy_inv tc tinv = true /\
    convx tc = true /\ conv tc = false /\
    no_globals (build_recursive (S (S (depth tc))) (with_bin t0 bin)) = true /\
    render_invy tinv = [[45; 118]; [67]; [97; 49]; [45; 45; 120]; [45; 118]; [45; 45]; [122]].
  Proof. vm_compute. repeat split; reflexivity. Qed.
  Example ex_tva_parse : exists m,
    parse_top t0 (bin :: render_invy tinv) = OOk m /\
    raw_of [99] m = Some [[[67]]] /\ raw_of [97] m = Some [[[97; 49]; [45; 45; 120]; [45; 118]; [45; 45]; [122]]] /\
    raw_of [118] m = Some [[[49]]] /\ idx_of_m [97] m = Some [3; 4; 5; 6; 7].
  Proof. eexists. split; [vm_compute; reflexivity|]. repeat split. Qed.
End YEx.

Module HEx.
  (** prog -v (Count)  --opt <o>  <pat> (allow_hyphen_values)  <num> (allow_negative_numbers)
      line 1: prog -v --opt X --weird -5     ([--weird]: an unknown long -> [pat]; [-5] -> [num])
      line 2: prog -x -v -7                  ([-x]: a cluster with an unknown short -> [pat]; [-v] is the flag; [-7] -> [num]) *)
  Definition v : arg := (arg_new [118]) <| a_short := Some 118 |> <| a_action := Some ACount |>.
  Definition o : arg := (arg_new [111]) <| a_long := Some [111; 112; 116] |> <| a_action := Some ASet |>.
  Definition pat : arg := (arg_new [112]) <| a_hyphen := true |>.
  Definition num : arg := (arg_new [110]) <| a_negnum := true |>.
  Definition c0 : cmd := (cmd_new [112]) <| c_args := [v; o; pat; num] |>.
  Definition bin : bytes := [112].
  Definition c : cmd := build_self (with_bin c0 bin).
  Definition hinv : invy :=
    YLeaf [ItCluster [118] TNone; ItLongSep [111; 112; 116] [[88]]; ItPos [[45; 45; 119; 101; 105; 114; 100]]; ItPos [[45; 53]]].
  Definition hinv2 : invy := YLeaf [ItPos [[45; 120]]; ItCluster [118] TNone; ItPos [[45; 55]]].
  Definition raw_of (i : id) (m : matches) : option groups := opt_map m_raw (fm_get i (ms_args m)).
  Definition idx_of_m (i : id) (m : matches) : option (list N) := opt_map m_indices (fm_get i (ms_args m)).
  Example ex_hyps :
    is_set s_no_binary_name c0 = false /\ valid (with_bin c0 bin) = true /\ wfy_inv c hinv = true /\ wfy_inv c hinv2 = true /\
    user_conventionalx c0 = true /\
    no_globals (build_recursive (S (S (depth c))) (with_bin c0 bin)) = true /\
    render_invy hinv = [[45; 118]; [45; 45; 111; 112; 116]; [88]; [45; 45; 119; 101; 105; 114; 100]; [45; 53]] /\
    render_invy hinv2 = [[45; 120]; [45; 118]; [45; 55]].
  Proof. vm_compute. repeat split; reflexivity. Qed.
  Example ex_parse : exists m m2,
    parse_top c0 (bin :: render_invy hinv) = OOk m /\
    raw_of [112] m = Some [[[45; 45; 119; 101; 105; 114; 100]]] /\ raw_of [110] m = Some [[[45; 53]]] /\ raw_of [111] m = Some [[[88]]] /\
    raw_of [118] m = Some [[[49]]] /\ idx_of_m [112] m = Some [4] /\ idx_of_m [110] m = Some [5] /\
    parse_top c0 (bin :: render_invy hinv2) = OOk m2 /\
    raw_of [112] m2 = Some [[[45; 120]]] /\ raw_of [110] m2 = Some [[[45; 55]]] /\ raw_of [118] m2 = Some [[[49]]] /\
    idx_of_m [112] m2 = Some [1] /\ idx_of_m [110] m2 = Some [3].
  Proof. eexists. eexists. split; [vm_compute; reflexivity|]. do 6 (split; [reflexivity|]). split; [vm_compute; reflexivity|]. repeat split. Qed.

  (** prog -v <cmd> <args>... ([args]: allow_hyphen_values, 1.. values), subcommand [sub]
      line: prog -v C --foo -v -- sub      (from [--foo] on every token is a value of [args]: the known flag, [--], the subcommand name) *)
  Definition cm : arg := arg_new [99].
  Definition args : arg := (arg_new [97]) <| a_num := Some {| vmin := 1; vmax := usize_max |} |> <| a_hyphen := true |>.
  Definition sub : cmd := cmd_new [115; 117; 98].
  Definition m0 : cmd := (cmd_new [112]) <| c_args := [v; cm; args] |> <| c_subs := [sub] |>.
  Definition mc : cmd := build_self (with_bin m0 bin).
  Definition minv : invy := YHyp [ItCluster [118] TNone; ItPos [[67]]] [[45; 45; 102; 111; 111]; [45; 118]; [45; 45]; [115; 117; 98]].
  Example ex_multi_hyps :
    is_set s_no_binary_name m0 = false /\ valid (with_bin m0 bin) = true /\ wfy_inv mc minv = true /\ user_conventionalx m0 = true /\
    no_globals (build_recursive (S (S (depth mc))) (with_bin m0 bin)) = true /\
    render_invy minv = [[45; 118]; [67]; [45; 45; 102; 111; 111]; [45; 118]; [45; 45]; [115; 117; 98]].
  Proof. vm_compute. repeat split; reflexivity. Qed.
  Example ex_multi_parse : exists m,
    parse_top m0 (bin :: render_invy minv) = OOk m /\ raw_of [99] m = Some [[[67]]] /\
    raw_of [97] m = Some [[[45; 45; 102; 111; 111]; [45; 118]; [45; 45]; [115; 117; 98]]] /\
    raw_of [118] m = Some [[[49]]] /\ idx_of_m [97] m = Some [3; 4; 5; 6] /\ ms_sub m = None.
  Proof. eexists. split; [vm_compute; reflexivity|]. repeat split. Qed.
End HEx.

Module LEx.
  (** prog -v (Count)  <src>... (required, 1.. values)  <dst> (required)        -- a low-index multiple
      line 1: prog -v A B C       ([src] = A B, [dst] = C: the last token goes to the last positional)
      line 2: prog A B C -v       (C is followed by a flag: it goes to [dst]) *)
  Definition v : arg := (arg_new [118]) <| a_short := Some 118 |> <| a_action := Some ACount |>.
  Definition src : arg := (arg_new [115]) <| a_num := Some {| vmin := 1; vmax := usize_max |} |> <| a_required := true |>.
  Definition dst : arg := (arg_new [100]) <| a_required := true |>.
  Definition c0 : cmd := (cmd_new [112]) <| c_args := [v; src; dst] |>.
  Definition bin : bytes := [112].
  Definition c : cmd := build_self (with_bin c0 bin).
  Definition l1 : invy := YLook [ItCluster [118] TNone] [[65]; [66]] [67] [].
  Definition l2 : invy := YLook [] [[65]; [66]] [67] [ItCluster [118] TNone].
  Definition raw_of (i : id) (m : matches) : option groups := opt_map m_raw (fm_get i (ms_args m)).
  Definition idx_of_m (i : id) (m : matches) : option (list N) := opt_map m_indices (fm_get i (ms_args m)).
  Example ex_hyps :
    is_set s_no_binary_name c0 = false /\ valid (with_bin c0 bin) = true /\ wfy_inv c l1 = true /\ wfy_inv c l2 = true /\
    user_conventionalx c0 = true /\ Escape.low_index_mults_any c = true /\
    no_globals (build_recursive (S (S (depth c))) (with_bin c0 bin)) = true /\
    render_invy l1 = [[45; 118]; [65]; [66]; [67]] /\ render_invy l2 = [[65]; [66]; [67]; [45; 118]].
  Proof. vm_compute. repeat split; reflexivity. Qed.
  Example ex_parse : exists m m2,
    parse_top c0 (bin :: render_invy l1) = OOk m /\
    raw_of [115] m = Some [[[65]; [66]]] /\ raw_of [100] m = Some [[[67]]] /\ raw_of [118] m = Some [[[49]]] /\
    idx_of_m [115] m = Some [2; 3] /\ idx_of_m [100] m = Some [4] /\
    parse_top c0 (bin :: render_invy l2) = OOk m2 /\
    raw_of [115] m2 = Some [[[65]; [66]]] /\ raw_of [100] m2 = Some [[[67]]] /\ raw_of [118] m2 = Some [[[49]]] /\
    idx_of_m [115] m2 = Some [1; 2] /\ idx_of_m [100] m2 = Some [3].
  Proof. eexists. eexists. split; [vm_compute; reflexivity|]. do 5 (split; [reflexivity|]). split; [vm_compute; reflexivity|]. repeat split. Qed.

  (** prog -v [first] <second>   with allow_missing_positional
      line 1: prog A -v           ([first] skipped: A is [second])
      line 2: prog -v A B         ([first] = A, [second] = B) *)
  Definition first : arg := arg_new [102].
  Definition second : arg := (arg_new [115]) <| a_required := true |>.
  Definition m0 : cmd := (cmd_new [112]) <| c_args := [v; first; second] |> <| c_set := settings_none <| s_allow_missing_pos := true |> |>.
  Definition mc : cmd := build_self (with_bin m0 bin).
  Definition a1 : invy := YLook [] [] [65] [ItCluster [118] TNone].
  Definition a2 : invy := YLook [ItCluster [118] TNone] [[65]] [66] [].
  Example ex_amp_hyps :
    is_set s_no_binary_name m0 = false /\ valid (with_bin m0 bin) = true /\ wfy_inv mc a1 = true /\ wfy_inv mc a2 = true /\
    user_conventionalx m0 = true /\ is_set s_allow_missing_pos mc = true /\
    no_globals (build_recursive (S (S (depth mc))) (with_bin m0 bin)) = true /\
    render_invy a1 = [[65]; [45; 118]] /\ render_invy a2 = [[45; 118]; [65]; [66]].
  Proof. vm_compute. repeat split; reflexivity. Qed.
  Example ex_amp_parse : exists m m2,
    parse_top m0 (bin :: render_invy a1) = OOk m /\ raw_of [102] m = None /\ raw_of [115] m = Some [[[65]]] /\ idx_of_m [115] m = Some [1] /\
    parse_top m0 (bin :: render_invy a2) = OOk m2 /\ raw_of [102] m2 = Some [[[65]]] /\ raw_of [115] m2 = Some [[[66]]] /\
    idx_of_m [102] m2 = Some [2] /\ idx_of_m [115] m2 = Some [3].
  Proof. eexists. eexists. split; [vm_compute; reflexivity|]. do 3 (split; [reflexivity|]). split; [vm_compute; reflexivity|]. repeat split. Qed.
End LEx.
