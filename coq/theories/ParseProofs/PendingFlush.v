(** Properties C06 / C02: the occurrence that is still being collected when an error is raised, under [ignore_errors].

    Before the repair of [Parser::get_matches_with] the error branch ran [add_env] and [add_defaults] WITHOUT first
    storing the pending occurrence (the success path does [resolve_pending] before them).  [add_default_value] /
    [add_env] then saw the argument as absent; their [react] flushed the pending command-line values first and
    - appended the DEFAULT value to the same entry, still labelled CommandLine (multi-valued positional:
      `p s help E` with [p] = [num_args(1..)], [default_value("pd")] reports [p] = CommandLine ["s"; "pd"]), or
    - replaced the command-line value by the default (single-valued positional with env + default:
      `p a help x` reports [p] = DefaultValue ["d"]: the value "a" is lost).
    (found by the thorough tier of C02 / C06: direct oracle on the implementation; model and crate agreed.)
    The repair: [let _ = self.resolve_pending(matcher);] first in that branch.

    This file keeps the PRE-repair function (proof side only; the model file Parse/Parser.v mirrors the repaired
    code) and proves the witnesses about it and about the repaired model, plus the generic shape lemmas of the
    repaired branch that the other proof files use. *)
From ClapModel Require Import Base.Bytes Base.Machine Base.Utf8.
From ClapModel Require Import Parse.Cmd Parse.Build Parse.Valid Parse.Matcher Parse.Errors Parse.Validator Parse.Parser.
From Coq Require Import ZArith List Bool Lia.
From RecordUpdate Require Import RecordSet.
Import RecordSetNotations.
Import ListNotations.
Open Scope N_scope.

(** * the repaired error branch, named *)

(** the state a phase whose result is dropped ([let _ = ...]) leaves behind *)
Definition left_by (r : res ps) (dflt : ps) : ps :=
  match r with ROk s => s | RErr _ s => s | RPanic _ => dflt end.

(** [r] did not panic and left [s] *)
Definition leaves (r : res ps) (s : ps) : Prop := r = ROk s \/ exists e, r = RErr e s.

Lemma leaves_ok s : leaves (ROk s) s. Proof. left; reflexivity. Qed.
Lemma leaves_err e s : leaves (RErr e s) s. Proof. right; exists e; reflexivity. Qed.
Ltac lv := first [apply leaves_ok | apply leaves_err].

Lemma leaves_left_by r d s : leaves r s -> left_by r d = s.
Proof. intros [->|[e ->]]; reflexivity. Qed.

(** the error branch of [get_matches_with] under [ignore_errors], as in Parse/Parser.v *)
Definition ignored_post (c : cmd) (e : error) (st : ps) : res ps :=
  let st0 := match resolve_pending c st with ROk s => s | RErr _ s => s | RPanic _ => st end in
  let st1 := match add_env c st0 with ROk s => s | RErr _ s => s | RPanic _ => st0 end in
  let st2 := match add_defaults c st1 with ROk s => s | RErr _ s => s | RPanic _ => st1 end in
  match resolve_pending c st with
  | RPanic s => RPanic s
  | _ =>
    match add_env c st0, add_defaults c st1 with
    | RPanic s, _ => RPanic s
    | _, RPanic s => RPanic s
    | _, _ => RErr e st2
    end
  end.

(** the three dropped phases, in the statement order of the repaired code: either one of them panics, or the
    error [e] is returned with the state the third one left *)
Lemma ignored_post_cases c e st :
  (exists s, ignored_post c e st = RPanic s /\
     (resolve_pending c st = RPanic s
      \/ (exists st0, leaves (resolve_pending c st) st0 /\
            (add_env c st0 = RPanic s
             \/ exists st1, leaves (add_env c st0) st1 /\ add_defaults c st1 = RPanic s))))
  \/ (exists st0 st1 st2,
        leaves (resolve_pending c st) st0 /\ leaves (add_env c st0) st1 /\ leaves (add_defaults c st1) st2
        /\ ignored_post c e st = RErr e st2).
Proof.
  unfold ignored_post. cbv zeta.
  destruct (resolve_pending c st) as [s0|e0 s0|x0] eqn:E0; [| |left; exists x0; auto].
  all: assert (L0 : leaves (resolve_pending c st) s0) by (rewrite E0; lv); rewrite <- E0 in *; clear E0.
  all: destruct (add_env c s0) as [s1|e1 s1|x1] eqn:E1.
  all: try (left; exists x1; split; [destruct (resolve_pending c st); try reflexivity; destruct L0 as [L0|[? L0]]; discriminate
                                    |right; exists s0; split; [exact L0|left; exact E1]]).
  all: assert (L1 : leaves (add_env c s0) s1) by (rewrite E1; lv).
  all: destruct (add_defaults c s1) as [s2|e2 s2|x2] eqn:E2.
  all: try (left; exists x2; split; [destruct (resolve_pending c st); try reflexivity; destruct L0 as [L0|[? L0]]; discriminate
                                    |right; exists s0; split; [exact L0|right; exists s1; split; [exact L1|exact E2]]]).
  all: right; exists s0, s1, s2; split; [exact L0|split; [exact L1|split; [rewrite E2; lv|]]].
  all: destruct (resolve_pending c st); try reflexivity; destruct L0 as [L0|[? L0]]; discriminate.
Qed.

Lemma ignored_post_not_ok c e st s : ignored_post c e st <> ROk s.
Proof.
  destruct (ignored_post_cases c e st) as [[x [H _]]|[s0 [s1 [s2 [_ [_ [_ H]]]]]]]; rewrite H; discriminate.
Qed.

Lemma ignored_post_err c e st e' s : ignored_post c e st = RErr e' s -> e' = e.
Proof.
  destruct (ignored_post_cases c e st) as [[x [H _]]|[s0 [s1 [s2 [_ [_ [_ H]]]]]]]; rewrite H; [discriminate|].
  intros [= <- _]. reflexivity.
Qed.

(** * the PRE-repair function (kept for the witnesses; the sub-levels are parsed by the pre-repair function too) *)
Fixpoint get_matches_with_before_fix (fuel : nat) (c : cmd) (toks : list bytes) (st0 : ps) : res ps :=
  match fuel with
  | O => RPanic 0
  | S fuel' =>
    let parsed : res ps :=
      do lr <- parse_loop c toks (mkL PSValuesDone 1 false false) st0;
      let after_sub (name : bytes) (keep_state vaf : bool) (st : ps) (rest : list bytes) : res ps :=
        if is_set s_args_negate_subs c && vaf then
          RErr (mkerr c EArgumentConflict name) st
        else
          do sc0 <- expect 494 (find_subcommand c name);
          match build_subcommand c (c_name sc0) with
          | None => ROk st
          | Some sc =>
              if negb (assert_app sc) then RPanic 4407 else
              let sub_st0 := if keep_state then mkPs matcher_new (cur_idx st) (fs_at st) (fs_skip st) else ps_new in
              let finish (sub_st : ps) : res ps :=
                ROk (st <| mt := (mt st) <| mt_sub := Some (c_name sc, into_inner (mt sub_st)) |> |>) in
              match get_matches_with_before_fix fuel' sc rest sub_st0 with
              | ROk sub_st => finish sub_st
              | RErr e sub_st => if is_set s_ignore_errors c then finish sub_st else RErr e st
              | RPanic s => RPanic s
              end
          end in
      match lr with
      | LDone st => ROk st
      | LSub name keep vaf st rest => after_sub name keep vaf st rest
      | LHelpSub names st => RErr (help_walk c names) st
      | LExternal name vals st =>
          let vp := opt_default VPOsString (c_ext_vp c) in
          let sc_m := start_custom_arg_m matcher_new (arg_new ext_id) SCmdLine in
          let filled := fold_left (fun rm v =>
                          do m <- rm;
                          match vp_parse vp v with
                          | Some k => RErr (mkerr c k []) st
                          | None => expect 458 (add_val_to m ext_id v)
                          end) vals (ROk sc_m) in
          do m <- filled;
          ROk (st <| mt := (mt st) <| mt_sub := Some (name, into_inner m) |> |>)
      end in
    match parsed with
    | RPanic s => RPanic s
    | RErr e st =>
        if is_set s_ignore_errors c then
          (* PRE-repair: let _ = add_env; let _ = add_defaults; -- the pending occurrence is not stored first *)
          let st1 := match add_env c st with ROk s => s | RErr _ s => s | RPanic _ => st end in
          let st2 := match add_defaults c st1 with ROk s => s | RErr _ s => s | RPanic _ => st1 end in
          match add_env c st, add_defaults c st1 with
          | RPanic s, _ => RPanic s
          | _, RPanic s => RPanic s
          | _, _ => RErr e st2
          end
        else RErr e st
    | ROk st =>
        do st1 <- resolve_pending c st;
        do st2 <- add_env c st1;
        do st3 <- add_defaults c st2;
        vres_to_res c (validate c (mt st3)) st3
    end
  end.

Definition do_parse_before_fix (c0 : cmd) (toks : list bytes) : outcome :=
  let c := build_self c0 in
  if negb (valid c0) then OInvalidConfig else
  let fuel := S (S (depth c)) in
  let finish (st : ps) : outcome :=
    let m := into_inner (mt st) in
    let globals := used_global_args (S (matches_depth m)) (build_recursive fuel c0) m in
    OOk (fst (fill_in_global_values (S (matches_depth m)) globals m [])) in
  match get_matches_with_before_fix fuel c toks ps_new with
  | ROk st => finish st
  | RErr e st => if is_set s_ignore_errors c && use_stderr (e_kind e) then finish st else OErr e
  | RPanic 0 => OOutOfFuel
  | RPanic s => OPanicked s
  end.

Definition parse_top_before_fix (c0 : cmd) (argv : list bytes) : outcome :=
  if is_set s_no_binary_name c0 then do_parse_before_fix c0 argv
  else match argv with
       | [] => do_parse_before_fix c0 []
       | bin :: rest =>
           let c0 := match c_bin_name c0 with
                     | Some _ => c0
                     | None => if utf8_valid bin && negb (is_nil bin) then c0 <| c_bin_name := Some bin |> else c0 end in
           do_parse_before_fix c0 rest
       end.

(** * the witnesses *)

(** the entry of [i] in the matches of an accepted parse: (source, indices, occurrence groups) *)
Definition entry_view (o : outcome) (i : id) : option (option src * list N * list (list bytes)) :=
  match o with
  | OOk m => match fm_get i (ms_args m) with
             | Some ma => Some (m_source ma, m_indices ma, m_raw ma)
             | None => None end
  | _ => None
  end.

(** witness 1: [p] = positional [num_args(1..)], [default_value("pd")]; [subcommand_precedence_over_arg],
    [ignore_errors]; one subcommand [a] (so that the [help] subcommand exists) *)
Definition flush_cmd1 : cmd :=
  let p := (arg_new [112]) <| a_num := Some {| vmin := 1; vmax := usize_max |} |> <| a_default := [[112; 100]] |> in
  (cmd_new [112]) <| c_args := [p] |> <| c_subs := [cmd_new [97]] |>
                  <| c_set := settings_none <| s_ignore_errors := true |> <| s_sub_precedence := true |> |>.
(** `p s help E`: the occurrence of [p] (value "s") is still open when `help E` fails (no subcommand E) *)
Definition flush_line1 : list bytes := [[112]; [115]; [104; 101; 108; 112]; [69]].

(** witness 2: [p] = single-valued positional with [default_value("d")] and an environment variable whose value
    is "e"; [ignore_errors]; one subcommand [t] *)
Definition flush_cmd2 : cmd :=
  let p := (arg_new [112]) <| a_default := [[100]] |> <| a_env := Some [101] |> in
  (cmd_new [112]) <| c_args := [p] |> <| c_subs := [cmd_new [116]] |>
                  <| c_set := settings_none <| s_ignore_errors := true |> |>.
(** `p a help x` *)
Definition flush_line2 : list bytes := [[112]; [97]; [104; 101; 108; 112]; [120]].

(** pre-repair: the default value "pd" is appended to the command-line occurrence and carries the label
    CommandLine and a command-line index; the command-line value "a" of the second command is replaced by the
    default (the environment phase flushed it and then failed on the repeated occurrence, removing the entry) *)
Lemma pending_default_before_fix :
  entry_view (parse_top_before_fix flush_cmd1 flush_line1) [112]
    = Some (Some SCmdLine, [1; 2], [[[115]]; [[112; 100]]])
  /\ entry_view (parse_top_before_fix flush_cmd2 flush_line2) [112]
    = Some (Some SDefault, [2], [[[100]]]).
Proof. split; vm_compute; reflexivity. Qed.

(** repaired: the same inputs report exactly the command-line occurrence *)
Lemma pending_default_fixed :
  entry_view (parse_top flush_cmd1 flush_line1) [112] = Some (Some SCmdLine, [1], [[[115]]])
  /\ entry_view (parse_top flush_cmd2 flush_line2) [112] = Some (Some SCmdLine, [1], [[[97]]]).
Proof. split; vm_compute; reflexivity. Qed.
