(** Property C04, round 2: the value-parser theorems connected to the PARSER.

    The matcher model stores raw values only ([m_raw]; the typed values of [MatchedArg::vals] are by
    construction [value_parser.parse_ref] of them, pushed by the same [add_val_to] call), so the
    statement "typed and raw have the same shape and each typed value is the image of the raw value
    next to it" is, in the model, the invariant

      for every entry of an argument [a] of the level, every raw value stored in it was ACCEPTED
      by [vp_parse (value parser of a)]

    ([typed_entries]).  The generic closure conditions of Invariant.v cannot express it (their
    "push a value" operation knows a provenance predicate on the value, not the argument whose
    parser accepted it), so this file walks the parser once more, in the style of Dispatch.v /
    Chain.v (partial correctness: [holds]; panics are excluded by C01 for the class [plain]):
    command line, environment, default, conditional default and default-missing values all reach the
    matcher through [push_arg_values], which is the only place that appends to an argument's entry.

    [gmw_typed]: for EVERY command that passes the validity gate [assert_app] (sub-levels are gated
    by the parser itself) and every token list, the matcher that [get_matches_with] hands back --
    on success AND on error (what the caller receives under [ignore_errors]) -- is typed at every
    level of the recorded subcommand chain ([typed_matches]; an external subcommand's values are
    accepted by the command's external value parser). *)
From ClapModel Require Import Base.Bytes Base.Machine Base.Utf8 Lex.OsStrExtModel.
From ClapModel Require Import Parse.Cmd Parse.Build Parse.Valid Parse.Matcher Parse.Errors Parse.Validator Parse.Parser.
From ClapModel Require Import ParseProofs.Safe ParseProofs.Invariant ParseProofs.Relations ParseProofs.Totality ParseProofs.TotalityMain
                              ParseProofs.Provenance ParseProofs.Spelling ParseProofs.Globals ParseProofs.Dispatch
                              ParseProofs.Chain.
From Coq Require Import ZArith Lia.
From RecordUpdate Require Import RecordSet.
Import RecordSetNotations.
Open Scope N_scope.

(** * the state predicate *)
Definition accepts (vp : vparser) (v : bytes) : Prop := vp_parse vp v = None.

Definition typed_entries (c : cmd) (l : list (id * marg)) : Prop :=
  forall i m a vp, In (i, m) l -> find_arg c i = Some a -> a_vp a = Some vp ->
    Forall (Forall (accepts vp)) (m_raw m).

Lemma holds_conj {A} (Q1 Q2 : A -> Prop) (E1 E2 : ps -> Prop) (r : res A) :
  holds Q1 E1 r -> holds Q2 E2 r -> holds (fun a => Q1 a /\ Q2 a) (fun s => E1 s /\ E2 s) r.
Proof. destruct r; cbn; auto. Qed.

Section Level.
Variable c : cmd.
Hypothesis W3 : forall a, In a (c_args c) -> find_arg c (a_id a) = Some a.
Hypothesis GS : groups_sane c.

Notation TE := (typed_entries c).
Definition TM (m : matcher) : Prop := TE (mt_args m).
Definition T (st : ps) : Prop := TM (mt st).

(** ** closure under the primitive matcher operations *)
Lemma te_nil : TE [].
Proof. intros i m a vp []. Qed.

Lemma te_remove l i : TE l -> TE (fst (fm_remove i l)).
Proof. intros H j m a vp Hin. apply (H j m a vp). eapply fm_remove_incl. exact Hin. Qed.

Lemma te_entry l i ic grp s : TE l ->
  TE (fm_entry_or_insert i (marg_new ic grp) (fun m => new_val_group (set_source s m)) l).
Proof.
  intros H j m a vp Hin Hf Hvp.
  destruct (fm_entry_or_insert_in _ _ _ _ _ _ Hin) as [H1|[[v [H1 [-> _]]]|[-> ->]]].
  - apply (H j m a vp H1 Hf Hvp).
  - cbn. apply Forall_app. split; [apply (H j v a vp H1 Hf Hvp)|repeat constructor].
  - cbn. repeat constructor.
Qed.

Lemma te_update_frame l i f : (forall v, m_raw (f v) = m_raw v) -> TE l -> TE (fm_update i f l).
Proof.
  intros Hfr H j m a vp Hin Hf Hvp.
  destruct (fm_update_in _ _ _ _ _ Hin) as [H1|[v [H1 [-> _]]]]; [apply (H j m a vp H1 Hf Hvp)|].
  rewrite Hfr. apply (H j v a vp H1 Hf Hvp).
Qed.

(** a group's entry (its values are the ids of its members) is not an argument's entry *)
Lemma te_group_addval l g j m' : In g (groups_for_arg c j) -> TE l -> TE (fm_update g (fun _ => m') l).
Proof.
  intros Hg H k m a vp Hin Hf Hvp.
  destruct (fm_update_in _ _ _ _ _ Hin) as [H1|[v0 [H1 [-> Hb]]]]; [apply (H k m a vp H1 Hf Hvp)|].
  exfalso. apply beq_eq in Hb. subst k.
  unfold groups_for_arg in Hg. apply in_map_iff in Hg. destruct Hg as [grp [Hgid Hgin]].
  apply filter_In in Hgin. destruct Hgin as [Hgin _]. rewrite <- Hgid in Hf. rewrite (GS grp Hgin) in Hf. discriminate.
Qed.

(** the checked push: the value was accepted by the parser of the argument that owns the entry *)
Lemma te_push l i m m' v : TE l -> fm_get i l = Some m -> append_val v m = Some m' ->
  (forall a vp, find_arg c i = Some a -> a_vp a = Some vp -> accepts vp v) ->
  TE (fm_update i (fun _ => m') l).
Proof.
  intros H Hget Happ Hacc k mk a vp Hin Hf Hvp.
  destruct (fm_update_in _ _ _ _ _ Hin) as [H1|[v0 [H1 [-> Hb]]]]; [apply (H k mk a vp H1 Hf Hvp)|].
  apply beq_eq in Hb. subst k.
  eapply append_val_raw; [exact Happ| |apply (Hacc a vp Hf Hvp)].
  apply Safe.fm_get_in in Hget. destruct Hget as [k' [Hk' Hbk]]. apply beq_eq in Hbk. subst k'.
  apply (H i m a vp Hk' Hf Hvp).
Qed.

Lemma add_val_to_inv m i v m' : add_val_to m i v = Some m' ->
  exists ma ma', fm_get i (mt_args m) = Some ma /\ append_val v ma = Some ma' /\
                 mt_args m' = fm_update i (fun _ => ma') (mt_args m).
Proof.
  unfold add_val_to. destruct (fm_get i (mt_args m)) as [ma|]; [|discriminate].
  destruct (append_val v ma) as [ma'|] eqn:E; [|discriminate].
  intros H. inversion H. exists ma, ma'. repeat split. exact E.
Qed.

Lemma add_index_to_inv m i k m' : add_index_to m i k = Some m' ->
  mt_args m' = fm_update i (push_index k) (mt_args m).
Proof.
  unfold add_index_to. destruct (fm_get i (mt_args m)); [|discriminate]. intros H. inversion H. reflexivity.
Qed.

(** ** [mt_remove], [remove_overrides] *)
Lemma TM_remove m o : TM m -> TM (fst (mt_remove m o)).
Proof.
  intros H. unfold TM, mt_remove. pose proof (te_remove (mt_args m) o H) as Hr.
  destruct (fm_remove o (mt_args m)) as [l b]. exact Hr.
Qed.

Lemma TM_remove_fold l : forall m, TM m -> TM (fold_left (fun m o => fst (mt_remove m o)) l m).
Proof. induction l as [|o t IH]; intros m H; cbn [fold_left]; [exact H|]. apply IH, TM_remove, H. Qed.

Lemma remove_overrides_TM a m : TM m -> TM (remove_overrides c a m).
Proof. intros H. unfold remove_overrides. apply TM_remove_fold, TM_remove_fold, H. Qed.

(** ** [start_custom_arg] *)
Lemma start_custom_arg_T a sr m : TM m -> holds TM (fun _ => False) (start_custom_arg c a sr m).
Proof.
  intros Hm. unfold start_custom_arg.
  set (m1 := match sr with SCmdLine => remove_overrides c a m | _ => m end).
  assert (H1 : TM m1). { subst m1. destruct sr; try exact Hm. apply remove_overrides_TM. exact Hm. }
  assert (H2 : TM (start_custom_arg_m m1 a sr)) by (unfold TM, start_custom_arg_m; cbn; apply te_entry; exact H1).
  destruct (src_explicit sr); [|exact H2].
  assert (Hgs : forall g, In g (groups_for_arg c (a_id a)) -> In g (groups_for_arg c (a_id a))) by auto.
  revert Hgs. generalize (groups_for_arg c (a_id a)) at 1 3.
  assert (H0 : holds TM (fun _ => False) (ROk (start_custom_arg_m m1 a sr) : res matcher)) by exact H2.
  revert H0. generalize (ROk (start_custom_arg_m m1 a sr) : res matcher).
  intros r H0 l. revert r H0. induction l as [|g t IH]; intros r H0 Hgs; cbn [fold_left]; [exact H0|].
  apply IH; [|intros g' Hg'; apply Hgs; right; exact Hg'].
  eapply holds_bind; [exact H0|]. intros m0 Hm0.
  apply holds_expect. intros m' Hm'. apply add_val_to_inv in Hm'.
  destruct Hm' as [ma [ma' [_ [_ Hargs]]]]. unfold TM. rewrite Hargs.
  eapply te_group_addval; [apply Hgs; left; reflexivity|].
  unfold start_custom_group_m. cbn. apply te_entry. exact Hm0.
Qed.

(** ** [push_arg_values]: the only place where an argument's entry receives a value *)
Lemma T_bump st : T st -> T (ps_bump st).
Proof. intros H. exact H. Qed.

Lemma push_arg_values_T a : In a (c_args c) -> forall raw st, T st -> holds T T (push_arg_values c a raw st).
Proof.
  intros Hin. induction raw as [|v t IH]; intros st Hs; cbn [push_arg_values]; [exact Hs|].
  destruct (a_vp a) as [vp|] eqn:Evp; cbn [expect rbind]; [|exact I].
  destruct (vp_parse vp v) as [k|] eqn:Eacc; [exact Hs|].
  eapply holds_bind.
  { apply (holds_expect TM). intros m1 H1. apply add_val_to_inv in H1.
    destruct H1 as [ma [ma' [Hget [Happ Hargs]]]]. unfold TM. rewrite Hargs.
    eapply te_push; [exact Hs|exact Hget|exact Happ|].
    intros a0 vp0 Hf Hvp0. rewrite (W3 a Hin) in Hf. inversion Hf; subst a0.
    rewrite Evp in Hvp0. inversion Hvp0; subst vp0. exact Eacc. }
  intros m1 Hm1.
  eapply holds_bind.
  { apply (holds_expect TM). intros m2 H2. apply add_index_to_inv in H2. unfold TM. rewrite H2.
    apply te_update_frame; [reflexivity|exact Hm1]. }
  intros m2 Hm2. apply IH. exact Hm2.
Qed.

Lemma verify_num_args_T a raw st : T st -> holds (fun _ => True) T (verify_num_args c a raw st).
Proof.
  intros Hs. unfold verify_num_args. destruct (is_set s_ignore_errors c); [exact I|].
  eapply holds_bind; [apply holds_expect; intros; exact I|]. intros r _.
  destruct (_ && _); [exact Hs|]. destruct (r_num_values r).
  - destruct (negb _); [exact Hs | exact I].
  - destruct (_ <? _); [exact Hs|]. destruct (_ <? _); [|exact I]. destruct raw; [exact I | exact Hs].
Qed.

(** ** [react_core], [resolve_pending], [react] *)
Lemma react_core_T idn sr a raw ti st : In a (c_args c) ->
  T st -> holds (fun x => T (fst x)) T (react_core c idn sr a raw ti st).
Proof.
  intros Hin Hs. unfold react_core.
  eapply holds_bind.
  { destruct (is_cmdline sr); [apply verify_num_args_T; exact Hs | exact I]. }
  intros _ _.
  match goal with |- context [let '(_, _) := ?X in _] => destruct X as [raw' ti'] end.
  eapply holds_bind; [apply holds_expect; intros; exact I|]. intros raw2 _.
  assert (Hbump : forall (b : bool) st0, T st0 -> T (if b then ps_bump st0 else st0)) by (intros [] ? ?; assumption).
  assert (Hset : forall raw0 bump st0, T st0 ->
     holds (fun x : ps * presult => T (fst x)) T
       (let st := if bump && is_cmdline sr && is_flag_ident idn then ps_bump st0 else st0 in
        let '(m1, removed) := mt_remove (mt st) (a_id a) in
        let st := st <| mt := m1 |> in
        if removed && negb (is_set s_args_override_self c || mem_id (a_id a) (a_overrides a))
        then RErr (mkerr c EArgumentConflict (a_id a)) st
        else do m2 <- start_custom_arg c a sr m1;
             do st' <- push_arg_values c a raw0 (st <| mt := m2 |>);
             ROk (st', PRValuesDone))).
  { intros raw0 bump st0 Hs0. cbv zeta.
    pose proof (Hbump (bump && is_cmdline sr && is_flag_ident idn) st0 Hs0) as Hb.
    set (stb := if bump && is_cmdline sr && is_flag_ident idn then ps_bump st0 else st0) in *.
    pose proof (TM_remove (mt stb) (a_id a) Hb) as Hr.
    destruct (mt_remove (mt stb) (a_id a)) as [m1 removed]. cbn [fst] in Hr.
    destruct (removed && _); [exact Hr|].
    eapply holds_bind; [eapply holds_weaken; [apply start_custom_arg_T; exact Hr | intros ? H; exact H | intros ? []]|].
    intros m2 Hm2.
    eapply holds_bind; [apply push_arg_values_T; [exact Hin|exact Hm2]|]. intros st' Hst'. exact Hst'. }
  destruct (a_get_action a).
  - apply Hset. exact Hs.
  - assert (Hb := Hbump (is_cmdline sr && is_flag_ident idn) st Hs).
    eapply holds_bind; [eapply holds_weaken; [apply start_custom_arg_T; exact Hb | intros ? H; exact H | intros ? []]|].
    intros m2 Hm2. eapply holds_bind; [apply push_arg_values_T; [exact Hin|exact Hm2]|]. intros st' Hst'. exact Hst'.
  - apply Hset. exact Hs.
  - apply Hset. exact Hs.
  - pose proof (TM_remove (mt st) (a_id a) Hs) as Hr.
    destruct (mt_remove (mt st) (a_id a)) as [m1 removed]. cbn [fst] in Hr.
    eapply holds_bind; [eapply holds_weaken; [apply start_custom_arg_T; exact Hr | intros ? H; exact H | intros ? []]|].
    intros m2 Hm2. eapply holds_bind; [apply push_arg_values_T; [exact Hin|exact Hm2]|]. intros st' Hst'. exact Hst'.
  - exact Hs.
  - exact Hs.
  - exact Hs.
  - exact Hs.
Qed.

Lemma resolve_pending_T st : T st -> holds T T (resolve_pending c st).
Proof.
  intros Hs. unfold resolve_pending. destruct (mt_pending (mt st)) as [p|]; [|exact Hs].
  destruct (find_arg c (p_id p)) as [a|] eqn:Ef; cbn [expect rbind]; [|exact I].
  destruct (find_arg_some _ _ _ Ef) as [Hin _].
  eapply holds_bind; [apply react_core_T; [exact Hin|exact Hs]|]. intros x Hx. exact Hx.
Qed.

Lemma react_T idn sr a raw ti st : In a (c_args c) ->
  T st -> holds (fun x => T (fst x)) T (react c idn sr a raw ti st).
Proof.
  intros Hin Hs. unfold react. eapply holds_bind; [apply resolve_pending_T; exact Hs|].
  intros st1 H1. apply react_core_T; assumption.
Qed.

Lemma resolve_pending_ignore_T st : T st -> holds T T (resolve_pending_ignore c st).
Proof.
  intros Hs. unfold resolve_pending_ignore. pose proof (resolve_pending_T st Hs) as H.
  destruct (resolve_pending c st) as [s1|e s1|x]; cbn [holds] in *; auto.
Qed.

(** ** the option / flag parsers *)
Lemma pending_values_push_args m i idn tr v m' :
  pending_values_push m i idn tr v = Some m' -> mt_args m' = mt_args m.
Proof.
  unfold pending_values_push. destruct (negb _); [discriminate|]. destruct (_ && _); [discriminate|].
  intros H. inversion H. reflexivity.
Qed.

Lemma start_trailing_args m : mt_args (start_trailing m) = mt_args m.
Proof. unfold start_trailing. destruct (mt_pending m); reflexivity. Qed.

Lemma state_arg_any pst (Qe : ps -> Prop) : holds (fun _ : option arg => True) Qe (state_arg c pst).
Proof.
  destruct pst as [|i|i]; cbn [state_arg]; [exact I| |];
    (destruct (find_arg c i); cbn [expect rbind holds]; exact I).
Qed.

Lemma parse_opt_value_T idn att a he st : In a (c_args c) ->
  T st -> holds (fun x => T (fst x)) T (parse_opt_value c idn att a he st).
Proof.
  intros Hin Hs. unfold parse_opt_value. destruct (a_req_eq a && negb he).
  - eapply holds_bind; [apply holds_expect; intros; exact I|]. intros r _.
    destruct (vmin r =? 0); [|exact Hs].
    eapply holds_bind; [apply react_T; [exact Hin|exact Hs]|]. intros x Hx. exact Hx.
  - destruct att as [v|].
    + eapply holds_bind; [apply react_T; [exact Hin|exact Hs]|]. intros x Hx. exact Hx.
    + eapply holds_bind; [apply resolve_pending_T; exact Hs|]. intros st1 H1.
      eapply holds_bind.
      { apply (holds_expect TM). intros m Hm. apply pending_values_push_args in Hm.
        unfold TM. rewrite Hm. exact H1. }
      intros m Hm. exact Hm.
Qed.

Lemma lookup_long_in f a : lookup_long c f = Some a -> In a (c_args c).
Proof.
  intros H. destruct (infer_unique c f a H) as [Hg|[_ [_ [Hin _]]]]; [|exact Hin].
  apply (get_long_in _ _ _ Hg).
Qed.

Lemma parse_long_arg_T f ok v pst pos vaf st :
  T st -> holds (fun x => T (fst (fst x))) T (parse_long_arg c f ok v pst pos vaf st).
Proof.
  intros Hs. rewrite parse_long_arg_unfold.
  eapply holds_bind; [apply state_arg_any|]. intros sa _.
  destruct (match sa with Some a => a_hyphen a | None => false end); [exact Hs|].
  destruct (negb ok); [exact Hs|].
  destruct (is_nil f && negb (is_some v)); [exact I|].
  unfold parse_long_found. destruct (lookup_long c f) as [a|] eqn:El.
  - pose proof (lookup_long_in f a El) as Hin.
    destruct (a_takes_value a).
    + eapply holds_bind; [apply parse_opt_value_T; [exact Hin|exact Hs]|]. intros x Hx. exact Hx.
    + destruct v as [r|]; [exact Hs|].
      eapply holds_bind; [apply react_T; [exact Hin|exact Hs]|]. intros x Hx. exact Hx.
  - destruct (possible_long_flag_subcommand c f); [exact Hs|].
    destruct (match get_pos c pos with Some a => a_hyphen a && negb (a_last a) | None => false end); exact Hs.
Qed.

Lemma short_loop_T : forall fuel r ret vaf st,
  T st -> holds (fun x => T (fst (fst x))) T (short_loop c fuel r ret vaf st).
Proof.
  induction fuel as [|f IH]; intros r ret vaf st Hs; cbn [short_loop]; [exact I|].
  destruct (sf_next r) as [[[ch|rs] r']|]; [|exact Hs|exact Hs].
  destruct (get_short c ch) as [a|] eqn:Eg.
  - destruct (get_short_in _ _ _ Eg) as [Hin _].
    destruct (negb (a_takes_value a)).
    + eapply holds_bind; [apply react_T; [exact Hin|exact Hs]|]. intros x Hx. apply IH. exact Hx.
    + match goal with |- context [let '(_, _) := ?X in _] => destruct X as [val he] end.
      eapply holds_bind; [apply parse_opt_value_T; [exact Hin|exact Hs]|]. intros x Hx.
      destruct (snd x); try exact Hx. apply IH. exact Hx.
  - destruct (find_short_subcmd c ch) as [n|]; [|exact Hs].
    eapply holds_bind; [apply resolve_pending_T; exact Hs|]. intros st1 H1. exact H1.
Qed.

Lemma parse_short_arg_T r pst pos vaf st :
  T st -> holds (fun x => T (fst (fst x))) T (parse_short_arg c r pst pos vaf st).
Proof.
  intros Hs. unfold parse_short_arg.
  eapply holds_bind; [apply state_arg_any|]. intros sa _.
  match goal with |- holds _ _ (if ?b then _ else _) => destruct b end; [exact Hs|].
  match goal with |- holds _ _ (if ?b then _ else _) => destruct b end; [exact Hs|].
  match goal with |- holds _ _ (if ?b then _ else _) => destruct b end; [exact Hs|].
  eapply holds_bind; [apply holds_expect; intros; exact I|]. intros r0 _.
  apply short_loop_T. exact Hs.
Qed.

Lemma is_new_arg_any n a (Qe : ps -> Prop) : holds (fun _ : bool => True) Qe (is_new_arg c n a).
Proof.
  unfold is_new_arg. destruct (find_arg c (a_id a)) as [a0|]; cbn [expect rbind]; [|exact I].
  destruct (a_hyphen a0 || (a_negnum a0 && pa_is_negative_number n)); [exact I|].
  destruct (is_long n); [exact I|]. destruct (is_short n); exact I.
Qed.

(** ** the token loop *)
Notation LT := (fun lr => T (lr_st lr)).

Lemma parse_loop_T : forall toks ls st, T st -> holds LT T (parse_loop c toks ls st).
Proof.
  induction toks as [|tok rest IH]; intros ls st Hs; [exact Hs|].
  cbn [parse_loop].
  match goal with |- holds _ _ (rbind ?ph _) => set (phase1 := ph) end.
  assert (Hph : holds (fun x => let '(early, ls1, st1) := x in
                         T st1 /\ match early with Some r => holds LT T r | None => True end) T phase1).
  { subst phase1. destruct (l_trailing ls); [cbn; split; [exact Hs|exact I]|].
    destruct (if is_set s_sub_precedence c || match l_pst ls with PSValuesDone => true | _ => false end
              then possible_subcommand c tok (l_vaf ls) else None) as [sc|].
    { destruct (beq sc s_help && negb (is_set s_disable_help_sub c)); cbn; split; exact Hs. }
    assert (After : forall x, T (fst (fst x)) ->
       holds (fun y => let '(early, ls1, st1) := y in
                        T st1 /\ match early with Some r => holds LT T r | None => True end) T
         (let '(st1, pr, vaf1) := x in
          let ls1 := mkL (l_pst ls) (l_pos ls) vaf1 false in
          match pr with
          | PRValuesDone => ROk (Some (parse_loop c rest (mkL PSValuesDone (l_pos ls) vaf1 false) st1), ls1, st1)
          | PROpt i => ROk (Some (parse_loop c rest (mkL (PSOpt i) (l_pos ls) vaf1 false) st1), ls1, st1)
          | PRFlagSub n => ROk (Some (ROk (LSub n false vaf1 st1 rest)), ls1, st1)
          | PREqualsNotProvided a =>
              do st2 <- resolve_pending_ignore c st1; ROk (Some (RErr (mkerr c ENoEquals a) st2), ls1, st2)
          | PRNoMatchingArg a =>
              do st2 <- resolve_pending_ignore c st1; ROk (Some (RErr (mkerr c EUnknownArgument a) st2), ls1, st2)
          | PRUnneeded r a =>
              do st2 <- resolve_pending_ignore c st1; ROk (Some (RErr (mkerr c ETooManyValues a) st2), ls1, st2)
          | PRMaybeHyphen => ROk (None, ls1, st1)
          | PRNoArg => ROk (None, ls1, st1)
          | PRAttachedNotConsumed => RPanic 203
          end)).
    { intros [[st1 pr] vaf1] H1. cbn [fst] in H1. cbv zeta.
      destruct pr; cbn [holds].
      - split; exact H1.
      - split; [exact H1|]. apply IH. exact H1.
      - split; [exact H1|]. apply IH. exact H1.
      - exact I.
      - eapply holds_bind; [apply resolve_pending_ignore_T; exact H1|]. intros st2 H2. cbn. split; exact H2.
      - split; [exact H1|exact I].
      - eapply holds_bind; [apply resolve_pending_ignore_T; exact H1|]. intros st2 H2. cbn. split; exact H2.
      - eapply holds_bind; [apply resolve_pending_ignore_T; exact H1|]. intros st2 H2. cbn. split; exact H2.
      - split; [exact H1|exact I]. }
    destruct (is_escape tok).
    { eapply holds_bind; [apply state_arg_any|]. intros sa _.
      destruct (match sa with Some a => a_hyphen a | None => false end); cbn [holds]; [split; [exact Hs|exact I]|].
      split; [exact Hs|]. apply IH. unfold T, TM. cbn. rewrite start_trailing_args. exact Hs. }
    destruct (to_long tok) as [[[f ok] v]|].
    { eapply holds_bind; [apply parse_long_arg_T; exact Hs|].
      intros [[st1 pr] vaf1] H1. cbn [fst snd] in *.
      pose proof (After (st1, pr, vaf1) H1) as HA.
      destruct pr; try exact I; cbn in HA |- *; exact HA. }
    destruct (to_short tok) as [r|]; [|cbn; split; [exact Hs|exact I]].
    eapply holds_bind; [apply parse_short_arg_T; exact Hs|].
    intros [[st1 pr] vaf1] H1. cbn [fst] in H1.
    pose proof (After (st1, pr, vaf1) H1) as HA.
    destruct pr; try exact I; try (cbn in HA |- *; exact HA). clear HA.
    destruct (fs_at st1) as [a0|]; [|cbn; split; exact H1].
    eapply holds_bind; [apply holds_expect; intros; exact I|]. intros d _. cbn. split; exact H1. }
  eapply holds_bind; [exact Hph|]. clear Hph phase1.
  intros [[early ls1] st1] [H1 He].
  destruct early as [r|]; [exact He|]. clear He.
  match goal with
  | |- holds _ _ (match _ with PSValuesDone => ?t | PSOpt _ => _ | PSPos _ => _ end) =>
      assert (Hpos : holds LT T t)
  end.
  { cbv zeta.
    eapply (holds_bind (fun _ : N => True)).
    { match goal with |- holds _ _ (if ?b then _ else _) => destruct b end.
      - destruct rest as [|n rest']; [exact I|].
        destruct (List.find _ (positionals c)) as [a|]; [|exact I].
        eapply holds_bind; [apply is_new_arg_any|]. intros na _. exact I.
      - match goal with |- holds _ _ (if ?b then _ else _) => destruct b end; exact I. }
    intros pcv _.
    destruct (get_pos c pcv) as [a|].
    - destruct (a_last a && negb (l_trailing ls1)).
      + eapply holds_bind; [apply resolve_pending_ignore_T; exact H1|]. intros s2 H2. exact H2.
      + eapply (holds_bind T).
        { match goal with |- holds _ _ (if ?b then _ else _) => destruct b end;
            [apply resolve_pending_T; exact H1|exact H1]. }
        intros s2 H2.
        destruct (check_terminator a tok); [apply IH; exact H2|].
        eapply holds_bind.
        { apply (holds_expect TM). intros m Hm. apply pending_values_push_args in Hm.
          unfold TM. rewrite Hm. exact H2. }
        intros m1 Hm1. destruct (negb (a_is_multiple a)); apply IH; exact Hm1.
    - destruct (is_set s_allow_external c).
      + destruct (utf8_valid tok); [exact H1|].
        eapply holds_bind; [apply resolve_pending_ignore_T; exact H1|]. intros s2 H2. exact H2.
      + eapply holds_bind; [apply resolve_pending_ignore_T; exact H1|]. intros s2 H2. exact H2. }
  destruct (if l_trailing ls1 then PSValuesDone else l_pst ls1).
  - exact Hpos.
  - eapply holds_bind; [apply holds_expect; intros; exact I|]. intros a _.
    destruct (check_terminator a tok); [apply IH; exact H1|].
    eapply holds_bind.
    { apply (holds_expect TM). intros m Hm. apply pending_values_push_args in Hm.
      unfold TM. rewrite Hm. exact H1. }
    intros m1 Hm1.
    eapply holds_bind; [apply holds_expect; intros; exact I|]. intros more _.
    apply IH. exact Hm1.
  - exact Hpos.
Qed.

(** ** environment and defaults: the same [react], hence the same parser *)
Lemma fold_res_T {X} (f : ps -> X -> res ps) (l : list X) (Qx : X -> Prop) :
  (forall x, In x l -> Qx x) ->
  (forall st x, Qx x -> T st -> holds T T (f st x)) ->
  forall r, holds T T r -> holds T T (fold_left (fun rst x => do st <- rst; f st x) l r).
Proof.
  intros HQ Hf. induction l as [|x t IH]; intros r Hr; cbn [fold_left]; [exact Hr|].
  apply IH; [intros y Hy; apply HQ; right; exact Hy|].
  eapply holds_bind; [exact Hr|]. intros st Hst. apply Hf; [apply HQ; left; reflexivity|exact Hst].
Qed.

Lemma add_env_T st : T st -> holds T T (add_env c st).
Proof.
  intros Hs. unfold add_env.
  apply (fold_res_T (fun st a => if mt_contains (mt st) (a_id a) then ROk st
       else match a_env a with Some v => do x <- react c None SEnv a [v] None st; ROk (fst x) | None => ROk st end)
       (c_args c) (fun a => In a (c_args c))); [auto| |exact Hs].
  intros st0 a Hin H0. destruct (mt_contains _ _); [exact H0|]. destruct (a_env a); [|exact H0].
  eapply holds_bind; [apply react_T; [exact Hin|exact H0]|]. intros x Hx. exact Hx.
Qed.

Lemma add_default_value_T a st : In a (c_args c) -> T st -> holds T T (add_default_value c a st).
Proof.
  intros Hin Hs. unfold add_default_value.
  assert (Hplain : holds T T (if negb (is_nil (a_default a)) then
      if mt_contains (mt st) (a_id a) then ROk st
      else do x <- react c None SDefault a (a_default a) None st; ROk (fst x) else ROk st)).
  { destruct (negb _); [|exact Hs]. destruct (mt_contains _ _); [exact Hs|].
    eapply holds_bind; [apply react_T; [exact Hin|exact Hs]|]. intros x Hx. exact Hx. }
  destruct (_ && _); [|exact Hplain].
  destruct (List.find _ _) as [[[i p] [d|]]|]; [| exact Hs | exact Hplain].
  eapply holds_bind; [apply react_T; [exact Hin|exact Hs]|]. intros x Hx. exact Hx.
Qed.

Lemma add_defaults_T st : T st -> holds T T (add_defaults c st).
Proof.
  intros Hs. unfold add_defaults.
  apply (fold_res_T (fun st a => add_default_value c a st) (c_args c) (fun a => In a (c_args c))); [auto| |exact Hs].
  intros st0 a Hin H0. apply add_default_value_T; assumption.
Qed.

Lemma post_T parsed : holds T T parsed -> holds T T (post c parsed).
Proof.
  destruct parsed as [st|e st|x]; cbn [holds post]; intros Hs; [| |exact I].
  - eapply holds_bind; [apply resolve_pending_T; exact Hs|]. intros st1 H1.
    eapply holds_bind; [apply add_env_T; exact H1|]. intros st2 H2.
    eapply holds_bind; [apply add_defaults_T; exact H2|]. intros st3 H3.
    unfold vres_to_res. destruct (validate c (mt st3)); cbn [holds]; auto.
  - destruct (is_set s_ignore_errors c); [|exact Hs].
    pose proof (resolve_pending_T st Hs) as Hr.
    destruct (resolve_pending c st) as [s0|e0 s0|x0]; cbn [holds] in Hr; [| |exact I].
    all: pose proof (add_env_T s0 Hr) as He.
    all: destruct (add_env c s0) as [s1|e1 s1|x1]; cbn [holds] in He; [| |exact I].
    all: pose proof (add_defaults_T s1 He) as Hd.
    all: destruct (add_defaults c s1) as [s2|e2 s2|x2]; cbn [holds] in Hd |- *; auto.
Qed.
End Level.

(** * what the validity gate provides at one level *)
Lemma assert_app_W3 c : assert_app c = true -> forall a, In a (c_args c) -> find_arg c (a_id a) = Some a.
Proof.
  intros Happ a Hin. destruct (assert_app_arg _ _ Happ Hin) as [_ Hc]. apply Nat.ltb_lt in Hc.
  destruct (find_arg_of_in _ _ Hin) as [a' Ha']. rewrite Ha'. f_equal.
  unfold find_arg in Ha'. eapply count_lt2_unique; [exact Ha'|exact Hin|apply beq_refl|exact Hc].
Qed.

(** * the recorded chain of subcommand levels *)
Inductive typed_sub : cmd -> option (bytes * matches) -> Prop :=
| TS_none c : typed_sub c None
| TS_sub c n sc sm : build_subcommand c n = Some sc -> typed_matches sc sm -> typed_sub c (Some (n, sm))
| TS_ext c n vals : Forall (accepts (opt_default VPOsString (c_ext_vp c))) vals ->
    typed_sub c (Some (n, Matches [(ext_id, ext_marg vals)] None))
with typed_matches : cmd -> matches -> Prop :=
| TM_intro c args sub : typed_entries c args -> typed_sub c sub -> typed_matches c (Matches args sub).

(** the state predicate of the recursion: this level's entries and everything recorded below it *)
Definition TS (c : cmd) (st : ps) : Prop :=
  typed_entries c (mt_args (mt st)) /\ typed_sub c (mt_sub (mt st)).

Lemma TS_matches c st : TS c st -> typed_matches c (into_inner (mt st)).
Proof. intros [H1 H2]. unfold into_inner. constructor; assumption. Qed.

(** the external-subcommand capture stores only values its parser accepted *)
Lemma external_fold_accepts c st vp : forall vals acc m,
  fold_left (fun rm v => do m <- rm;
               match vp_parse vp v with
               | Some k => RErr (mkerr c k []) st
               | None => expect 458 (add_val_to m ext_id v)
               end) vals acc = ROk m ->
  Forall (accepts vp) vals /\ exists m0, acc = ROk m0.
Proof.
  induction vals as [|v t IH]; intros acc m; cbn [fold_left].
  - intros ->. split; [constructor|eexists; reflexivity].
  - intros H. destruct (IH _ _ H) as [Ht [m1 H1]].
    destruct acc as [m0|e s|x]; cbn [rbind] in H1; [|discriminate|discriminate].
    split; [|eexists; reflexivity]. constructor; [|exact Ht].
    unfold accepts. destruct (vp_parse vp v); [discriminate|reflexivity].
Qed.

Lemma external_matches_typed c name vals st : TS c st -> holds (TS c) (TS c) (external_matches c name vals st).
Proof.
  intros [H1 H2].
  pose proof (external_verbatim c name vals st) as Hx.
  destruct (external_matches c name vals st) as [st'|e st'|x] eqn:E; cbn [holds] in Hx |- *; [|subst st'; split; assumption|exact I].
  subst st'. split; [exact H1|]. cbn. apply TS_ext.
  unfold external_matches in E. cbv zeta in E.
  match type of E with (rbind ?fl _) = _ => destruct fl as [m|e s|x] eqn:Ef end; cbn [rbind] in E; try discriminate.
  apply (external_fold_accepts c st _ vals _ m Ef).
Qed.

(** * the theorem: every level that [get_matches_with] hands back is typed *)
Theorem gmw_typed : forall fuel c toks st0,
  assert_app c = true -> TS c st0 -> holds (TS c) (TS c) (get_matches_with fuel c toks st0).
Proof.
  induction fuel as [|f IH]; intros c toks st0 Happ [He Hsub]; [exact I|].
  pose proof (assert_app_W3 c Happ) as W3. pose proof (assert_app_groups_sane c Happ) as GS.
  rewrite gmw_unfold.
  assert (Hparsed : holds (TS c) (TS c) (parsed_of f c toks st0)).
  { unfold parsed_of.
    eapply holds_bind with (Q1 := fun lr => TS c (lr_st lr)).
    { eapply holds_weaken;
        [apply holds_conj; [apply (parse_loop_T c W3 GS toks _ st0 He)|apply (loop_keeps_sub c toks _ st0)]| |];
        cbn beta; intros x [HT Hk]; (split; [exact HT|rewrite Hk; exact Hsub]). }
    intros lr Hlr.
    destruct lr as [st|name keep vaf st rest|name vals st|names st]; cbn [lr_st] in Hlr.
    - exact Hlr.
    - unfold after_sub. destruct (_ && _); [exact Hlr|].
      eapply holds_bind; [apply holds_expect; intros; exact I|]. intros sc0 _.
      destruct (build_subcommand c (c_name sc0)) as [sc|] eqn:Eb; [|exact Hlr].
      destruct (assert_app sc) eqn:Eapp; cbn [negb]; [|exact I].
      assert (Hinit : TS sc (sub_init keep st)).
      { unfold sub_init. destruct keep; split; cbn; try (intros i m a vp []); constructor. }
      pose proof (IH sc rest (sub_init keep st) Eapp Hinit) as Hrec.
      assert (Hrecord : forall sub_st, TS sc sub_st -> TS c (record_sub st (c_name sc) sub_st)).
      { intros sub_st Hs. destruct Hlr as [H1 _]. split; [exact H1|]. cbn.
        eapply TS_sub; [|apply TS_matches; exact Hs].
        rewrite (build_subcommand_name c _ sc Eb). exact Eb. }
      destruct (get_matches_with f sc rest (sub_init keep st)) as [sub_st|e sub_st|x]; cbn [holds] in Hrec |- *.
      + apply Hrecord. exact Hrec.
      + destruct (is_set s_ignore_errors c); cbn [holds]; [apply Hrecord; exact Hrec|exact Hlr].
      + exact I.
    - apply external_matches_typed. exact Hlr.
    - exact Hlr. }
  destruct (parsed_of f c toks st0) as [st|e st|x]; cbn [holds] in Hparsed.
  - destruct Hparsed as [H1 H2].
    eapply holds_weaken; [apply holds_conj; [apply (post_T c W3 GS (ROk st) H1)|apply (post_keeps_sub c (mt_sub (mt st)) (ROk st) eq_refl)]| |];
      cbn beta; intros s0 [Ha Hb]; (split; [exact Ha|unfold S_ in Hb; rewrite Hb; exact H2]).
  - destruct Hparsed as [H1 H2].
    eapply holds_weaken; [apply holds_conj; [apply (post_T c W3 GS (RErr e st) H1)|apply (post_keeps_sub c (mt_sub (mt st)) (RErr e st) eq_refl)]| |];
      cbn beta; intros s0 [Ha Hb]; (split; [exact Ha|unfold S_ in Hb; rewrite Hb; exact H2]).
  - exact I.
Qed.

(** * the whole parse *)
Lemma valid_assert_app_root c0 : valid c0 = true -> assert_app (build_self c0) = true.
Proof.
  unfold valid. cbn zeta. cbn [valid_tree]. intros H. apply andb_true_iff in H. apply H.
Qed.

Lemma TS_ps_new c : TS c ps_new.
Proof. split; cbn; [intros i m a vp []|constructor]. Qed.

(** the state the parser ends in -- success, or the error state that [ignore_errors] hands to the
    caller -- for the root level of any valid definition and any token list *)
Theorem root_typed c0 toks : valid c0 = true ->
  holds (fun st => typed_matches (build_self c0) (into_inner (mt st)))
        (fun st => typed_matches (build_self c0) (into_inner (mt st)))
        (get_matches_with (S (S (depth (build_self c0)))) (build_self c0) toks ps_new).
Proof.
  intros Hv. eapply holds_weaken; [apply gmw_typed; [apply valid_assert_app_root; exact Hv|apply TS_ps_new]| |];
    intros s Hs; apply TS_matches; exact Hs.
Qed.

(** [fill_in_global_values] with no global id in use is the identity *)
Lemma fill_nil : forall fuel m, fill_in_global_values fuel [] m [] = (m, []).
Proof.
  induction fuel as [|f IH]; intros m; [reflexivity|].
  destruct m as [args [[n sm]|]]; cbn [fill_in_global_values fold_left ms_sub ms_args].
  - rewrite IH. reflexivity.
  - reflexivity.
Qed.

(** what [_do_parse] reports is the globals merge ([reported], Relations.v) of a typed chain *)
Theorem do_parse_typed c0 toks m : do_parse c0 toks = OOk m ->
  exists st, m = reported c0 st /\ typed_matches (build_self c0) (into_inner (mt st)).
Proof.
  unfold do_parse, reported. destruct (valid c0) eqn:V; cbn [negb]; [|discriminate].
  pose proof (root_typed c0 toks V) as Ht.
  destruct (get_matches_with _ (build_self c0) toks ps_new) as [st|e st|n]; cbn [holds] in Ht.
  - intros H. injection H as H. exists st. split; [symmetry; exact H|exact Ht].
  - destruct (_ && _); [|discriminate]. intros H. injection H as H. exists st. split; [symmetry; exact H|exact Ht].
  - destruct n; discriminate.
Qed.

(** ... and when no argument on the reported chain is global, it IS that chain *)
Theorem do_parse_typed_noglobals c0 toks m : do_parse c0 toks = OOk m ->
  (forall st, used_global_args (S (matches_depth (into_inner (mt st))))
                (build_recursive (S (S (depth (build_self c0)))) c0) (into_inner (mt st)) = []) ->
  typed_matches (build_self c0) m.
Proof.
  intros H Hg. destruct (do_parse_typed c0 toks m H) as [st [-> Ht]].
  unfold reported. cbv zeta. rewrite Hg, fill_nil. exact Ht.
Qed.

(** [try_get_matches_from]: the definition parsed is [c0], possibly with the program name of argv[0] stored *)
Definition with_bin (c0 : cmd) (b : option bytes) : cmd := c0 <| c_bin_name := b |>.

Theorem parse_top_typed c0 argv m : parse_top c0 argv = OOk m ->
  exists c0' st, (c0' = c0 \/ exists b, c0' = with_bin c0 (Some b)) /\
    m = reported c0' st /\ typed_matches (build_self c0') (into_inner (mt st)).
Proof.
  unfold parse_top. intros H.
  assert (D : forall c1 toks, do_parse c1 toks = OOk m ->
            exists st, m = reported c1 st /\ typed_matches (build_self c1) (into_inner (mt st)))
    by (intros c1 toks; apply do_parse_typed).
  destruct (is_set s_no_binary_name c0).
  { destruct (D _ _ H) as [st Hst]. exists c0, st. split; [left; reflexivity|exact Hst]. }
  destruct argv as [|bin rest].
  { destruct (D _ _ H) as [st Hst]. exists c0, st. split; [left; reflexivity|exact Hst]. }
  destruct (c_bin_name c0).
  { destruct (D _ _ H) as [st Hst]. exists c0, st. split; [left; reflexivity|exact Hst]. }
  destruct (utf8_valid bin && negb (is_nil bin)).
  - destruct (D _ _ H) as [st Hst]. eexists _, st. split; [right; eexists; reflexivity|exact Hst].
  - destruct (D _ _ H) as [st Hst]. exists c0, st. split; [left; reflexivity|exact Hst].
Qed.

(** unfolding principle of [typed_matches]: this level, then the recorded subcommand -- a level of the
    (lazily built) child definition, or the capture of an external subcommand *)
Theorem typed_matches_inv c args sub : typed_matches c (Matches args sub) ->
  typed_entries c args /\
  match sub with
  | None => True
  | Some (n, sm) =>
      (exists sc, build_subcommand c n = Some sc /\ typed_matches sc sm)
      \/ (exists vals, sm = Matches [(ext_id, ext_marg vals)] None /\
                       Forall (accepts (opt_default VPOsString (c_ext_vp c))) vals)
  end.
Proof.
  intros H. inversion H as [c1 a1 s1 He Hs]; subst. split; [exact He|].
  inversion Hs; subst; [exact I|left; eexists; split; eassumption|right; eexists; split; [reflexivity|assumption]].
Qed.

(** rejection side, first half: a value outside the language of the argument's parser is never among
    the stored values of a level that the parser hands back *)
Theorem never_stored c l i m a vp v : typed_entries c l ->
  In (i, m) l -> find_arg c i = Some a -> a_vp a = Some vp ->
  vp_parse vp v <> None -> ~ In v (concat (m_raw m)).
Proof.
  intros H Hin Hf Hvp Hrej Hv. apply Hrej.
  pose proof (H i m a vp Hin Hf Hvp) as Hall.
  apply in_concat in Hv. destruct Hv as [g [Hg Hvg]].
  rewrite Forall_forall in Hall. specialize (Hall g Hg). rewrite Forall_forall in Hall. apply (Hall v Hvg).
Qed.

(** the state predicate, spelled out *)
Lemma typed_entries_spec c l : typed_entries c l <->
  forall i m a vp, In (i, m) l -> find_arg c i = Some a -> a_vp a = Some vp ->
    Forall (Forall (fun v => vp_parse vp v = None)) (m_raw m).
Proof. unfold typed_entries, accepts. tauto. Qed.
