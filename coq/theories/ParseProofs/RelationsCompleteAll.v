(** Property C03, round 3: completeness of the validator for EVERY relation graph.

    Round 2 proved the converse of soundness for conflicts (any graph) and, for the class
    [static_only], for statically required arguments.  Here the rest: [requires] / [requires_if]
    chains (through the exact requirement set [required_set_exact]), required groups, group
    [requires], the [requires] of a present group, and the five conditional rule families.
    Result: once the two checks that are not relations (help-on-empty-argv, subcommand-required)
    are out of the way, [validate c mt = VOk <-> Relations c mt] for every definition that passed
    the debug assertions and every well-formed matcher. *)
From Coq Require Import ZArith List Bool Lia.
Import ListNotations.
From ClapModel Require Import Base.Bytes Base.Machine.
From ClapModel Require Import Parse.Cmd Parse.Build Parse.Valid Parse.Matcher Parse.Errors Parse.Validator Parse.Parser.
From ClapModel Require Import ParseProofs.Safe ParseProofs.Relations ParseProofs.RelationsClauses ParseProofs.ValidateTotal
                              ParseProofs.TotalityMain ParseProofs.RelationsComplete.
From ClapModel Require ParseProofs.RequiresChain.
From RecordUpdate Require Import RecordSet.
Import RecordSetNotations.
Open Scope N_scope.

Section CompleteAll.
Variable c : cmd.
Hypothesis W : rel_wf c = true.

(** the unrolled member list of a group contains every declared member *)
Lemma ug_inner_all : forall l args pushed,
  (forall n, In n l -> is_some (find_arg c n) = true) ->
  forall args' pushed', fold_left (ug_inner c) l (args, pushed) = (args', pushed') ->
  forall z, In z args \/ In z l -> In z args'.
Proof.
  induction l as [|n t IH]; intros args pushed Hl args' pushed'; cbn [fold_left].
  - intros [= <- _] z [H|[]]. exact H.
  - unfold ug_inner at 2. destruct (mem_id n args) eqn:Em.
    + intros E z Hz. apply (IH args pushed (fun k Hk => Hl k (or_intror Hk)) _ _ E).
      destruct Hz as [H|[<-|H]]; auto. left. now apply mem_id_In.
    + rewrite (Hl n (or_introl eq_refl)).
      intros E z Hz. apply (IH (args ++ [n]) pushed (fun k Hk => Hl k (or_intror Hk)) _ _ E).
      destruct Hz as [H|[<-|H]]; auto; left; apply in_app_iff; [left; exact H|right; now left].
Qed.

Lemma unroll_group_all g members : In g (c_groups c) ->
  unroll_args_in_group c (g_id g) = Some members -> forall z, In z (g_args g) -> In z members.
Proof.
  intros Hin. destruct (rel_wf_group c g W Hin) as [Hf Hm].
  unfold unroll_args_in_group. cbn [unroll_group_loop]. rewrite Hf. fold (ug_inner c).
  destruct (fold_left (ug_inner c) (g_args g) ([], [])) as [args' pushed'] eqn:E.
  assert (Hall : forall n, In n (g_args g) -> is_some (find_arg c n) = true).
  { intros n Hn. destruct (Hm n Hn) as (a & ->). reflexivity. }
  destruct (ug_inner_spec c (g_args g) [] [] Hall) as (args2 & E2 & _).
  rewrite E in E2. injection E2 as -> ->. cbn [app].
  intros [= <-] z Hz. apply (ug_inner_all (g_args g) [] [] Hall _ _ E z). now right.
Qed.

(** converse of [cond_b_spec]: the boolean the validator computes for the conditional rules IS
    the specification's [cond_required] *)
Lemma cond_b_conv mt a : cond_b mt a = true -> cond_required mt (present mt) a.
Proof.
  unfold cond_b, cond_required. intros H.
  apply orb_true_iff in H as [H|H]; [apply orb_true_iff in H as [H|H]|].
  - left. apply existsb_exists in H as ([o v] & Hin & Hv). cbn [fst snd] in Hv.
    exists o, v. split; [exact Hin|now apply has_value_spec].
  - right. left. apply andb_true_iff in H as [Hall Hne]. split.
    + apply negb_true_iff in Hne. now apply is_nil_false.
    + intros o v Hin. rewrite forallb_forall in Hall. apply has_value_spec. exact (Hall (o, v) Hin).
  - right. right. apply andb_true_iff in H as [Hne Hf]. split.
    + apply orb_true_iff in Hne as [Hne|Hne]; apply negb_true_iff in Hne; [left|right]; now apply is_nil_false.
    + unfold fails_arg_required_unless in Hf. apply andb_true_iff in Hf as [Hall Hany]. split.
      * intros o Ho Hp. apply negb_true_iff in Hany.
        assert (existsb (fun i => check_explicit mt i PIsPresent) (a_r_unless a) = true); [|congruence].
        apply existsb_exists. exists o. split; [exact Ho|now apply present_spec].
      * apply orb_true_iff in Hall as [Hnil|Hnall]; [left; now apply is_nil_true|]. right.
        apply negb_true_iff in Hnall.
        assert (Hex : exists o, In o (a_r_unless_all a) /\ check_explicit mt o PIsPresent = false).
        { clear -Hnall. induction (a_r_unless_all a) as [|o t IH]; cbn [forallb] in Hnall; [discriminate|].
          destruct (check_explicit mt o PIsPresent) eqn:Eo.
          - destruct (IH Hnall) as (o' & Hin & Ho'). exists o'. split; [now right|exact Ho'].
          - exists o. split; [now left|exact Eo]. }
        destruct Hex as (o & Hin & Ho). exists o. split; [exact Hin|now apply not_present_spec].
Qed.

(** * nothing is missing when the specification's (R3) holds: every relation graph *)
Theorem missing_required_complete mt potential :
  fm_wf mt -> conflicts_with_args c mt = Some potential ->
  (forall p, In p (positionals c) -> a_index p <> None) ->
  (forall x, Required c mt (present mt) x -> satisfied c (present mt) x) ->
  (forall a, In a (c_args c) -> cond_required mt (present mt) a ->
             present mt (a_id a) \/ exclusive_present c (present mt)) ->
  missing_required c mt potential = Some [].
Proof.
  intros Wm Hp Hpos H3 H4. rewrite missing_required_unfold.
  destruct (gather_requires_some c mt (required_graph c)) as [required Hreq]. rewrite Hreq.
  pose proof (RequiresChain.required_set_exact c mt required Wm Hreq) as Hex.
  assert (S1 : forall l, (forall x, In x l -> In x required) ->
            fold_left (mr_step1 c mt potential (excl_present_b c mt)) l (Some ([], 0)) = Some ([], 0)).
  { induction l as [|x t IH]; intros Hl; cbn [fold_left]; [reflexivity|].
    replace (mr_step1 c mt potential (excl_present_b c mt) (Some ([], 0)) x) with (Some (@nil id, 0));
      [apply IH; intros y Hy; apply Hl; now right|].
    pose proof (H3 x (proj1 (Hex x) (Hl x (or_introl eq_refl)))) as [Sa Sg].
    unfold mr_step1. destruct (check_explicit mt x PIsPresent) eqn:Ec; [reflexivity|].
    destruct (find_arg c x) as [a|] eqn:Ea.
    - destruct (find_arg_id c x a Ea) as [Hid Hin].
      destruct (Sa a Ea) as [Hpr|[Hx|Hx]].
      + apply present_spec in Hpr. congruence.
      + rewrite (excl_present_conv c mt Hx). reflexivity.
      + destruct (excl_present_b c mt); [reflexivity|].
        rewrite <- Hid in Hx. rewrite (imr_ok_conv c W mt potential a Hp Hin Hx). reflexivity.
    - destruct (find_group c x) as [g|] eqn:Eg; [|reflexivity].
      destruct (find_group_id c x g Eg) as [Hid Hin].
      destruct (unroll_group_args c W g Hin) as (members & Hm & _). rewrite Hm.
      destruct (Sg g (conj Ea Eg)) as [Hpr|(m & Hmin & Hpm)].
      + apply present_spec in Hpr. congruence.
      + replace (existsb (fun m0 => check_explicit mt m0 PIsPresent) members) with true; [reflexivity|].
        symmetry. apply existsb_exists. exists m. split; [|now apply present_spec].
        exact (unroll_group_all g members Hin Hm m Hmin). }
  rewrite S1; [|auto].
  assert (S2 : forall l, (forall a, In a l -> In a (c_args c)) ->
            fold_left (mr_step2 mt (excl_present_b c mt)) l ([], 0) = ([], 0)).
  { induction l as [|a t IH]; intros Hl; cbn [fold_left]; [reflexivity|].
    replace (mr_step2 mt (excl_present_b c mt) ([], 0) a) with (@nil id, 0);
      [apply IH; intros y Hy; apply Hl; now right|].
    unfold mr_step2. destruct (check_explicit mt (a_id a) PIsPresent) eqn:Ec; [reflexivity|].
    destruct (cond_b mt a) eqn:Eb; [|rewrite andb_false_r; reflexivity].
    destruct (H4 a (Hl a (or_introl eq_refl)) (cond_b_conv mt a Eb)) as [Hpr|Hx].
    - apply present_spec in Hpr. congruence.
    - rewrite (excl_present_conv c mt Hx). reflexivity. }
  rewrite S2; [|auto].
  assert (S3 : forall l, (forall p, In p l -> In p (positionals c)) ->
            fold_left (mr_step3 mt 0) l [] = []).
  { induction l as [|p t IH]; intros Hl; cbn [fold_left]; [reflexivity|].
    replace (mr_step3 mt 0 [] p) with (@nil id); [apply IH; intros y Hy; apply Hl; now right|].
    unfold mr_step3. destruct (check_explicit mt (a_id p) PIsPresent); [reflexivity|].
    destruct (a_index p) as [i|] eqn:Ei; [|exfalso; now apply (Hpos p (Hl p (or_introl eq_refl)))].
    destruct (i <? 0) eqn:El; [apply N.ltb_lt in El; lia|reflexivity]. }
  rewrite S3; [|auto]. destruct (negb (is_set s_allow_missing_pos c)); reflexivity.
Qed.

(** the validator accepts every matcher that satisfies the specification *)
Theorem validate_complete mt :
  fm_wf mt -> keys_ok c (mt_args mt) ->
  (forall p, In p (positionals c) -> a_index p <> None) ->
  negb (is_some (mt_sub mt)) && is_set s_arg_required_else_help c && is_nil (explicit_entries mt) = false ->
  negb (is_some (mt_sub mt)) && is_set s_sub_required c = false ->
  Relations c mt -> validate c mt = VOk.
Proof.
  intros Wm Hk Hpos Hh Hs R. unfold validate.
  destruct (conflicts_with_args_some c mt Hk) as (pot & Hp & _). rewrite Hp, Hh, Hs.
  rewrite (validate_conflicts_complete c W mt pot Wm Hp (rel_conflicts c mt _ R) (rel_exclusive c mt _ R)).
  destruct (is_set s_subs_negate_reqs c && is_some (mt_sub mt)) eqn:En; [reflexivity|].
  rewrite (missing_required_complete mt pot Wm Hp Hpos); [reflexivity| |].
  - exact (rel_required c mt _ R En).
  - exact (rel_cond_required c mt _ R En).
Qed.

(** a matcher that satisfies the specification is never answered MissingRequiredArgument *)
Theorem validate_no_missing_error mt :
  fm_wf mt -> keys_ok c (mt_args mt) -> (forall p, In p (positionals c) -> a_index p <> None) ->
  Relations c mt -> forall a, validate c mt <> VErr EMissingRequiredArgument a.
Proof.
  intros Wm Hk Hpos R a. unfold validate.
  destruct (conflicts_with_args_some c mt Hk) as (pot & Hp & _). rewrite Hp.
  destruct (negb (is_some (mt_sub mt)) && is_set s_arg_required_else_help c && is_nil (explicit_entries mt)); [discriminate|].
  destruct (negb (is_some (mt_sub mt)) && is_set s_sub_required c); [discriminate|].
  rewrite (validate_conflicts_complete c W mt pot Wm Hp (rel_conflicts c mt _ R) (rel_exclusive c mt _ R)).
  destruct (is_set s_subs_negate_reqs c && is_some (mt_sub mt)) eqn:En; [discriminate|].
  rewrite (missing_required_complete mt pot Wm Hp Hpos (rel_required c mt _ R En) (rel_cond_required c mt _ R En)).
  discriminate.
Qed.
End CompleteAll.

(** exactness: the validator IS the specification, every relation graph *)
Theorem validate_iff c mt :
  assert_app c = true -> fm_wf mt -> keys_ok c (mt_args mt) ->
  (forall p, In p (positionals c) -> a_index p <> None) ->
  negb (is_some (mt_sub mt)) && is_set s_arg_required_else_help c && is_nil (explicit_entries mt) = false ->
  negb (is_some (mt_sub mt)) && is_set s_sub_required c = false ->
  (validate c mt = VOk <-> Relations c mt).
Proof.
  intros A Wm Hk Hpos Hh Hs. split.
  - now apply validate_sound.
  - apply validate_complete; auto. now apply assert_app_rel_wf.
Qed.

(** the same for the member-based reading, on coherent matchers (every matcher a successful level
    of a definition outside the two finding families ends in: [C03_level_coherent]) *)
Theorem validate_iff_members c mt :
  assert_app c = true -> fm_wf mt -> keys_ok c (mt_args mt) ->
  (forall p, In p (positionals c) -> a_index p <> None) ->
  negb (is_some (mt_sub mt)) && is_set s_arg_required_else_help c && is_nil (explicit_entries mt) = false ->
  negb (is_some (mt_sub mt)) && is_set s_sub_required c = false ->
  coherent_b c mt = true ->
  (validate c mt = VOk <-> RelationsM c mt).
Proof.
  intros A Wm Hk Hpos Hh Hs Hc. rewrite (validate_iff c mt A Wm Hk Hpos Hh Hs).
  pose proof (coherent_presentM c mt (coherent_b_sound c mt Hc)) as Hp.
  split; apply RelationsP_ext; intros x; [apply Hp|symmetry; apply Hp].
Qed.
