(** Reasoning kit for the parser model: the [safe] predicate on results ("no panic, and the
    state that comes out — of a success or of an error — satisfies a predicate"), its bind rule,
    and facts about [FlatMap] operations and key-map lookups. *)
From ClapModel Require Import Base.Bytes Base.Machine Base.Utf8 Lex.OsStrExtModel Lex.OsStrExtProofs.
From ClapModel Require Import Parse.Cmd Parse.Build Parse.Valid Parse.Matcher Parse.Errors Parse.Validator Parse.Parser.
From Coq Require Import ZArith Lia.
From RecordUpdate Require Import RecordSet.
Import RecordSetNotations.
Open Scope N_scope.

(** * [safe] *)
Definition safe {A} (Qok : A -> Prop) (Qerr : ps -> Prop) (r : res A) : Prop :=
  match r with ROk a => Qok a | RErr _ st => Qerr st | RPanic _ => False end.

Lemma safe_bind {A B} (Q1 : A -> Prop) (Q2 : B -> Prop) Qe (r : res A) (f : A -> res B) :
  safe Q1 Qe r -> (forall a, Q1 a -> safe Q2 Qe (f a)) -> safe Q2 Qe (rbind r f).
Proof. destruct r; cbn; auto. Qed.

Lemma safe_weaken {A} (Q1 Q2 : A -> Prop) (Qe1 Qe2 : ps -> Prop) (r : res A) :
  safe Q1 Qe1 r -> (forall a, Q1 a -> Q2 a) -> (forall s, Qe1 s -> Qe2 s) -> safe Q2 Qe2 r.
Proof. destruct r; cbn; auto. Qed.

Lemma safe_expect {A} (Q : A -> Prop) Qe site (o : option A) :
  (exists a, o = Some a /\ Q a) -> safe Q Qe (expect site o).
Proof. intros [a [-> H]]. exact H. Qed.

Lemma safe_ok {A} (Q : A -> Prop) Qe (a : A) : Q a -> safe Q Qe (ROk a).
Proof. auto. Qed.

(** * FlatMap facts *)
Section FM.
Context {V : Type}.
Implicit Types l : list (id * V).

Lemma fm_get_in k l v : fm_get k l = Some v -> exists k', In (k', v) l /\ beq k' k = true.
Proof.
  induction l as [|[k0 v0] t IH]; cbn; [discriminate|].
  destruct (beq k0 k) eqn:E.
  - intros H; inversion H; subst. exists k0; split; [left; reflexivity|exact E].
  - intros H. destruct (IH H) as [k' [Hin Hb]]. exists k'; split; [right; exact Hin|exact Hb].
Qed.

Lemma fm_update_keys k f l : map fst (fm_update k f l) = map fst l.
Proof.
  induction l as [|[k0 v0] t IH]; cbn; [reflexivity|].
  destruct (beq k0 k); cbn; [reflexivity|]. f_equal. exact IH.
Qed.

Lemma fm_remove_incl k l : forall x, In x (fst (fm_remove k l)) -> In x l.
Proof.
  induction l as [|[k0 v0] t IH]; cbn; [tauto|].
  destruct (beq k0 k).
  - cbn. intros x H; right; exact H.
  - destruct (fm_remove k t) as [t' b] eqn:E. cbn in *. intros x [H|H]; [left; exact H|right; apply IH; exact H].
Qed.

Lemma fm_update_in k f l : forall k' v', In (k', v') (fm_update k f l) ->
  In (k', v') l \/ (exists v, In (k', v) l /\ v' = f v /\ beq k' k = true).
Proof.
  induction l as [|[k0 v0] t IH]; cbn; [tauto|].
  destruct (beq k0 k) eqn:E; cbn.
  - intros k' v' [H|H].
    + inversion H; subst. right. exists v0. split; [left; reflexivity|split; [reflexivity|exact E]].
    + left; right; exact H.
  - intros k' v' [H|H].
    + left; left; exact H.
    + destruct (IH _ _ H) as [H1|[v [H1 [H2 H3]]]]; [left; right; exact H1|].
      right. exists v. split; [right; exact H1|split; assumption].
Qed.

Lemma fm_entry_or_insert_in k v0 f l : forall k' v', In (k', v') (fm_entry_or_insert k v0 f l) ->
  In (k', v') l \/ (exists v, In (k', v) l /\ v' = f v /\ beq k' k = true) \/ (k' = k /\ v' = f v0).
Proof.
  unfold fm_entry_or_insert. destruct (fm_contains k l).
  - intros k' v' H. destruct (fm_update_in _ _ _ _ _ H) as [H1|H1]; [left; exact H1|right; left; exact H1].
  - intros k' v' H. apply in_app_or in H. destruct H as [H|[H|[]]]; [left; exact H|].
    inversion H; subst. right; right; split; reflexivity.
Qed.

Lemma fm_get_update_same k f l v : fm_get k l = Some v -> fm_get k (fm_update k f l) = Some (f v).
Proof.
  induction l as [|[k0 v0] t IH]; cbn; [discriminate|].
  destruct (beq k0 k) eqn:E; cbn; rewrite E; [intros H; inversion H; reflexivity|exact IH].
Qed.

Lemma fm_get_app_new k l v : fm_get k l = None -> fm_get k (l ++ [(k, v)]) = Some v.
Proof.
  induction l as [|[k0 v0] t IH]; cbn; [rewrite beq_refl; reflexivity|].
  destruct (beq k0 k); [discriminate|exact IH].
Qed.

Lemma fm_entry_or_insert_get k v0 f l :
  exists v, fm_get k (fm_entry_or_insert k v0 f l) = Some (f v).
Proof.
  unfold fm_entry_or_insert, fm_contains. destruct (fm_get k l) as [v|] eqn:E; cbn.
  - exists v. apply fm_get_update_same. exact E.
  - exists v0. apply fm_get_app_new. exact E.
Qed.
End FM.

(** * Key map and lookups return arguments of the command *)
Lemma find_some_in {A} (f : A -> bool) l x : List.find f l = Some x -> In x l /\ f x = true.
Proof. apply List.find_some. Qed.

Lemma keymap_in c k a : In (k, a) (keymap c) -> In a (c_args c) /\ In k (arg_keys a).
Proof.
  unfold keymap. intros H. apply in_flat_map in H. destruct H as [a' [Hin H]].
  apply in_map_iff in H. destruct H as [k' [Heq Hk]]. inversion Heq; subst. split; assumption.
Qed.

Lemma get_long_in c l a : get_long c l = Some a -> In a (c_args c) /\ a_index a = None.
Proof.
  unfold get_long. destruct (List.find _ (keymap c)) as [[k a']|] eqn:E; cbn; [|discriminate].
  intros H; inversion H; subst. apply List.find_some in E. destruct E as [Hin Hk]. cbn in Hk.
  destruct (keymap_in _ _ _ Hin) as [Ha Hkeys]. split; [exact Ha|].
  unfold arg_keys in Hkeys. destruct (a_index a); [|reflexivity].
  destruct Hkeys as [<-|[]]. discriminate.
Qed.

Lemma get_short_in c s a : get_short c s = Some a -> In a (c_args c) /\ a_index a = None.
Proof.
  unfold get_short. destruct (List.find _ (keymap c)) as [[k a']|] eqn:E; cbn; [|discriminate].
  intros H; inversion H; subst. apply List.find_some in E. destruct E as [Hin Hk]. cbn in Hk.
  destruct (keymap_in _ _ _ Hin) as [Ha Hkeys]. split; [exact Ha|].
  unfold arg_keys in Hkeys. destruct (a_index a); [|reflexivity].
  destruct Hkeys as [<-|[]]. discriminate.
Qed.

Lemma get_pos_in c n a : get_pos c n = Some a -> In a (c_args c) /\ a_index a <> None.
Proof.
  unfold get_pos. destruct (List.find _ (keymap c)) as [[k a']|] eqn:E; cbn; [|discriminate].
  intros H; inversion H; subst. apply List.find_some in E. destruct E as [Hin Hk]. cbn in Hk.
  destruct (keymap_in _ _ _ Hin) as [Ha Hkeys]. split; [exact Ha|].
  unfold arg_keys in Hkeys. destruct (a_index a); [discriminate|].
  destruct k; try discriminate.
  repeat (apply in_app_or in Hkeys; destruct Hkeys as [Hkeys|Hkeys]);
    try (destruct (a_short a); cbn in Hkeys; intuition discriminate);
    try (destruct (a_long a); cbn in Hkeys; intuition discriminate);
    apply in_map_iff in Hkeys; destruct Hkeys as [? [? ?]]; discriminate.
Qed.

Lemma find_arg_some c i a : find_arg c i = Some a -> In a (c_args c) /\ beq (a_id a) i = true.
Proof. unfold find_arg. apply List.find_some. Qed.

Lemma find_arg_of_in c a : In a (c_args c) -> exists a', find_arg c (a_id a) = Some a'.
Proof.
  unfold find_arg. intros Hin.
  destruct (List.find (fun x => beq (a_id x) (a_id a)) (c_args c)) as [a'|] eqn:E; [exists a'; reflexivity|].
  exfalso. apply (List.find_none _ _ E) in Hin. rewrite beq_refl in Hin. discriminate.
Qed.

Lemma id_exists_arg c a : In a (c_args c) -> id_exists c (a_id a) = true.
Proof. intros H. unfold id_exists. destruct (find_arg_of_in c a H) as [a' ->]. reflexivity. Qed.

Lemma groups_for_arg_exist c i g : In g (groups_for_arg c i) -> exists grp, find_group c g = Some grp.
Proof.
  unfold groups_for_arg. intros H. apply in_map_iff in H. destruct H as [grp [<- Hin]].
  apply filter_In in Hin. destruct Hin as [Hin _]. unfold find_group.
  destruct (List.find (fun g0 => beq (g_id g0) (g_id grp)) (c_groups c)) as [g'|] eqn:E; [exists g'; reflexivity|].
  exfalso. apply (List.find_none _ _ E) in Hin. rewrite beq_refl in Hin. discriminate.
Qed.

Lemma id_exists_group c i g : In g (groups_for_arg c i) -> id_exists c g = true.
Proof.
  intros H. destruct (groups_for_arg_exist _ _ _ H) as [grp Hg]. unfold id_exists. rewrite Hg.
  apply Bool.orb_true_r.
Qed.

(** * completeness of built arguments; the short-cluster walk shrinks *)
Definition arg_complete (a : arg) : Prop :=
  a_action a <> None /\ a_num a <> None /\ a_vp a <> None.


Lemma sf_next_shrinks r x r' : sf_next r = Some (x, r') -> (length r' < length r)%nat.
Proof.
  unfold sf_next. destruct r as [|b t]; [discriminate|].
  destruct (utf8_step (b :: t)) as [[c n]|] eqn:E.
  - intros H; inversion H; subst. apply utf8_step_len in E. rewrite skipn_length. cbn [length] in *. lia.
  - intros H; inversion H; subst. cbn. lia.
Qed.

