(** C01 (3), stretch: can [C01_no_panic] be widened from [plain] (no short flag-subcommands at all) to a class
    in which short flag-subcommands exist?

    Result of this round: the classes one would naturally try are REFUTED by the faithful model, each by a
    different mechanism of the [flag_subcmd_at]/[flag_subcmd_skip] resume logic, and every witness panics the
    real crate (debug build) in the same [debug_assert_eq!(short_arg.advance_by(skip), Ok(()))]:

    - [one_index_flags] (every short-named argument is a value-less SetTrue/SetFalse/Count flag without
      default_missing_values: each occurrence consumes exactly one index) is refuted by a STALE
      [flag_subcmd_at]: it is only ever cleared when a flag-subcommand letter ends a cluster, so after
      `-Sx` the child still carries the parent's [at]; a later cluster `-Qy` of the child computes
      skip = cur_idx - at + 1 = 3 for a two-letter cluster.                      ([stale_at_witness])
    - adding [flat_flag_subs] (a command that has a short flag has no child with a short flag: nesting depth
      one, so [at] is always fresh when it is read) is refuted by an UNCONSUMED skip: [parse_short_arg]
      returns MaybeHyphenValue *before* it takes and resets [flag_subcmd_skip] when the re-read cluster is
      accepted as a hyphen value by the child's positional; the next cluster then meets skip = 1, and
      [advance_by 1] fails on a cluster that starts with an invalid UTF-8 byte.   ([unconsumed_skip_witness])
    - the third witness combines nesting and a hyphen positional ([unconsumed_skip_witness2]): skip = 3 met by a
      one-letter cluster.

    What a proof would honestly need (NOT proved; the invariant of Invariant.v fixes [fs_at = None /\ fs_skip = 0]
    in every lemma and would have to be generalised throughout): [one_index_flags] /\ [flat_flag_subs] /\
    [no_hyphen_in_flag_subs] -- then [at] is fresh, skip = 1 on entry and is consumed by the first (re-read)
    cluster, whose first letter is valid UTF-8 because it matched a short flag in the parent.  Three concrete
    inputs of that class are evaluated below ([candidate_class_examples]); they are examples, not a theorem. *)
From ClapModel Require Import Base.Bytes Base.Machine Base.Utf8.
From ClapModel Require Import Parse.Cmd Parse.Build Parse.Valid Parse.Matcher Parse.Errors Parse.Validator Parse.Parser.
From ClapModel Require Import ParseProofs.Totality.
From Coq Require Import ZArith.
From RecordUpdate Require Import RecordSet.
Import RecordSetNotations.
Open Scope N_scope.

(** all nodes of a definition (fuel = depth) *)
Fixpoint nodes (fuel : nat) (x : cmd) : list cmd :=
  match fuel with O => [] | S f => x :: flat_map (nodes f) (c_subs x) end.
Definition all_nodes (x : cmd) : list cmd := nodes (depth x) x.

Definition has_short_flag (s : cmd) : bool := is_some (c_short_flag s) || negb (is_nil (c_short_flag_aliases s)).
Definition short_named (a : arg) : bool := is_some (a_short a) || negb (is_nil (a_short_aliases a)).
(** an occurrence of [a] in a cluster bumps the index counter exactly once and stores one literal *)
Definition one_index_arg (a : arg) : bool :=
  if short_named a then
    match a_action a with Some ASetTrue | Some ASetFalse | Some ACount => true | _ => false end
    && is_nil (a_default_missing a) && match a_num a with None => true | Some r => r_eqb r r_empty end
  else true.
Definition one_index_flags (x : cmd) : bool := forallb (fun n => forallb one_index_arg (c_args n)) (all_nodes x).
Definition flat_flag_subs (x : cmd) : bool :=
  forallb (fun n => if has_short_flag n then forallb (fun s => negb (has_short_flag s)) (c_subs n) else true) (all_nodes x).
Definition no_hyphen_in_flag_subs (x : cmd) : bool :=
  forallb (fun n => if has_short_flag n
                    then forallb (fun a => negb (a_hyphen a) && negb (a_negnum a)) (c_args n)
                         && negb (is_set s_allow_hyphen n) && negb (is_set s_allow_negnum n)
                    else true) (all_nodes x).
Definition unplain_ok (x : cmd) : bool :=    (* the [Built] part of [plain] only *)
  forallb (fun n => negb (s_built (c_set n)) && negb (s_built (c_gset n))) (all_nodes x).

Definition flag (ch : N) : arg := (arg_new [ch]) <| a_short := Some ch |> <| a_action := Some ASetTrue |>.

(** `p -Sx -Qy`: S = subcommand with short flag 'S', flags x, w and a subcommand Q with short flag 'Q', flag y *)
Definition stale_cmd : cmd :=
  let q := (cmd_new [113]) <| c_short_flag := Some 81 |> <| c_args := [flag 121] |> in
  let s := (cmd_new [115]) <| c_short_flag := Some 83 |> <| c_args := [flag 120; flag 119] |> <| c_subs := [q] |> in
  (cmd_new [112]) <| c_subs := [s] |>.
Theorem stale_at_witness :
  valid stale_cmd = true /\ unplain_ok stale_cmd = true /\ one_index_flags stale_cmd = true
  /\ parse_top stale_cmd [[112]; [45; 83; 120]; [45; 81; 121]] = OPanicked 920.
Proof. repeat match goal with |- _ /\ _ => split end; vm_compute; reflexivity. Qed.

(** `p -Sz -\xff`: S has short flag 'S', a positional that allows hyphen values, a flag y; no nesting *)
Definition hyphen_cmd : cmd :=
  let v := (arg_new [118]) <| a_hyphen := true |> in
  let s := (cmd_new [115]) <| c_short_flag := Some 83 |> <| c_args := [v; flag 121] |> in
  (cmd_new [112]) <| c_subs := [s] |>.
Theorem unconsumed_skip_witness :
  valid hyphen_cmd = true /\ unplain_ok hyphen_cmd = true /\ one_index_flags hyphen_cmd = true
  /\ flat_flag_subs hyphen_cmd = true
  /\ parse_top hyphen_cmd [[112]; [45; 83; 122]; [45; 255]] = OPanicked 920.
Proof. repeat match goal with |- _ /\ _ => split end; vm_compute; reflexivity. Qed.

(** `p -SxQz -y`: nesting and a hyphen positional in the innermost command *)
Definition hyphen2_cmd : cmd :=
  let v := (arg_new [118]) <| a_hyphen := true |> in
  let q := (cmd_new [113]) <| c_short_flag := Some 81 |> <| c_args := [v; flag 121] |> in
  let s := (cmd_new [115]) <| c_short_flag := Some 83 |> <| c_args := [flag 120] |> <| c_subs := [q] |> in
  (cmd_new [112]) <| c_subs := [s] |>.
Theorem unconsumed_skip_witness2 :
  valid hyphen2_cmd = true /\ one_index_flags hyphen2_cmd = true
  /\ parse_top hyphen2_cmd [[112]; [45; 83; 120; 81; 122]; [45; 121]] = OPanicked 920.
Proof. repeat match goal with |- _ /\ _ => split end; vm_compute; reflexivity. Qed.

(** the classes really are wider than [plain], and the witnesses really are outside [plain] *)
Example classes_wider_than_plain :
  plain stale_cmd = false /\ plain hyphen_cmd = false
  /\ flat_flag_subs stale_cmd = false /\ no_hyphen_in_flag_subs hyphen_cmd = false.
Proof. repeat match goal with |- _ /\ _ => split end; vm_compute; reflexivity. Qed.

(** a definition of the candidate class [one_index_flags /\ flat_flag_subs /\ no_hyphen_in_flag_subs] with a short
    flag-subcommand, and three inputs that use it in each position of a cluster: no panic (examples only) *)
Definition candidate_cmd : cmd :=
  let s := (cmd_new [115]) <| c_short_flag := Some 83 |> <| c_args := [flag 120; flag 119; arg_new [118]] |> in
  (cmd_new [112]) <| c_args := [flag 97] |> <| c_subs := [s] |>.
Example candidate_class_examples :
  valid candidate_cmd = true /\ one_index_flags candidate_cmd = true /\ flat_flag_subs candidate_cmd = true
  /\ no_hyphen_in_flag_subs candidate_cmd = true /\ plain candidate_cmd = false
  /\ (forall argv, In argv [ [[112]; [45; 83; 120]; [45; 119]];          (* p -Sx -w *)
                             [[112]; [45; 97; 83; 120]];                  (* p -aSx  *)
                             [[112]; [45; 83]; [45; 120; 119]; [45; 255]] (* p -S -xw -\xff *) ] ->
        match parse_top candidate_cmd argv with OPanicked _ | OOutOfFuel => False | _ => True end).
Proof.
  do 5 (split; [vm_compute; reflexivity|]).
  intros argv [<-|[<-|[<-|[]]]]; vm_compute; exact I.
Qed.
