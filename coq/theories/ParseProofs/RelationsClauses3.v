(** Property C03, round 3: three clauses made explicit (each is the target of a seeded change), and
    the witnesses for the completeness theorem of RelationsCompleteAll.v.

    (a) a conflict declared by a GROUP against another GROUP reaches the members of both, whether
        or not the declaring group is [multiple] (validator.rs [gather_direct_conflicts] adds the
        conflicts of every group of the argument, not only of the non-multiple ones);
    (b) [required_if_eq*] and [required_unless_present*] on ONE argument are a UNION: either
        family alone demands the argument, whatever the other says;
    (c) an [Equals] predicate ([required_if_eq], [requires_if], ...) looks at ALL stored
        occurrences of the condition argument (action Append), not only at the last one. *)
From Coq Require Import ZArith List Bool Lia.
Import ListNotations.
From ClapModel Require Import Base.Bytes Base.Machine.
From ClapModel Require Import Parse.Cmd Parse.Build Parse.Valid Parse.Matcher Parse.Errors Parse.Validator Parse.Parser.
From ClapModel Require Import ParseProofs.Relations ParseProofs.RelationsClauses ParseProofs.RelationsComplete
                              ParseProofs.RelationsCompleteAll ParseProofs.ValidateTotal.
From ClapModel Require ParseProofs.RelationsLoop ParseProofs.RelationsTree ParseProofs.Globals.
From ClapModel Require Import ParseProofs.Safe ParseProofs.Invariant ParseProofs.Totality ParseProofs.TotalityMain ParseProofs.IndexInv.
From RecordUpdate Require Import RecordSet.
Import RecordSetNotations.
Open Scope N_scope.

(** * (a) group against group, member-based presence *)
Theorem clause_group_conflicts_group_members c mt :
  RelationsM c mt -> forall i a g h gh j,
  arg_of c i a -> member c i g -> In h (g_conflicts g) -> group_of c h gh -> In j (g_args gh) ->
  present mt i -> present mt j -> False.
Proof.
  intros R i a g h gh j Ha Hm Hh [Hna Hg] Hj Pi Pj.
  assert (Hne : h <> i). { intros ->. unfold arg_of in Ha. congruence. }
  assert (PMi : presentM c mt i). { unfold presentM. unfold arg_of in Ha. rewrite Ha. exact Pi. }
  assert (PMh : presentM c mt h). { unfold presentM. rewrite Hna, Hg. exists j. auto. }
  destruct (rel_conflicts c mt _ R i a h Ha PMi PMh Hne) as [H _].
  apply H. left. exists a. split; [exact Ha|]. right. right. exists g. auto.
Qed.

(** the same read off the matcher's own entries: with the group's entry present *)
Theorem clause_group_conflicts_group_entry c mt :
  Relations c mt -> forall i a g h gh,
  arg_of c i a -> member c i g -> In h (g_conflicts g) -> group_of c h gh ->
  present mt i -> present mt h -> False.
Proof.
  intros R i a g h gh Ha Hm Hh [Hna Hg] Pi Ph.
  assert (Hne : h <> i). { intros ->. unfold arg_of in Ha. congruence. }
  destruct (rel_conflicts c mt _ R i a h Ha Pi Ph Hne) as [H _].
  apply H. left. exists a. split; [exact Ha|]. right. right. exists g. auto.
Qed.

(** the validator's table really holds the group-level conflicts for a member of a [multiple] group
    (the code fact behind (a); any graph) *)
Theorem direct_conflicts_multiple_group c : rel_wf c = true -> forall i a g h conf,
  arg_of c i a -> member c i g -> g_multiple g = true -> In h (g_conflicts g) ->
  gather_direct_conflicts c i = Some conf -> In h conf.
Proof.
  intros W i a g h conf Ha Hm _ Hh Hg. apply (gather_direct_spec c W i conf Hg h).
  left. exists a. split; [exact Ha|]. right. right. exists g. auto.
Qed.

(** * (b) the two conditional families on one argument are a union *)
Definition if_fires (mt : matcher) (a : arg) : Prop :=
  (exists o v, In (o, v) (a_r_ifs a) /\ has_value mt o v)
  \/ (a_r_ifs_all a <> [] /\ forall o v, In (o, v) (a_r_ifs_all a) -> has_value mt o v).
Definition unless_fires (mt : matcher) (a : arg) : Prop :=
  (a_r_unless a <> [] \/ a_r_unless_all a <> [])
  /\ (forall o, In o (a_r_unless a) -> ~ present mt o)
  /\ (a_r_unless_all a = [] \/ exists o, In o (a_r_unless_all a) /\ ~ present mt o).

Theorem clause_required_if_unless_union c mt : Relations c mt -> negates_reqs c mt = false ->
  forall a, In a (c_args c) -> if_fires mt a \/ unless_fires mt a ->
  present mt (a_id a) \/ exclusive_present c (present mt).
Proof.
  intros R Hn a Hin H. apply (rel_cond_required c mt _ R Hn a Hin). unfold cond_required.
  destruct H as [[H|H]|H]; auto.
Qed.

(** [required_if_eq] fires although an argument of the [required_unless_present] list IS present *)
Theorem clause_required_if_despite_unless c mt : Relations c mt -> negates_reqs c mt = false ->
  forall a o v u, In a (c_args c) -> In (o, v) (a_r_ifs a) -> has_value mt o v ->
  In u (a_r_unless a) -> present mt u ->
  present mt (a_id a) \/ exclusive_present c (present mt).
Proof.
  intros R Hn a o v u Hin Ho Hv _ _. apply (clause_required_if_unless_union c mt R Hn a Hin).
  left. left. exists o, v. auto.
Qed.

(** [required_unless_present] fires although no [required_if_eq] condition holds *)
Theorem clause_required_unless_despite_if c mt : Relations c mt -> negates_reqs c mt = false ->
  forall a, In a (c_args c) -> a_r_unless a <> [] -> a_r_unless_all a = [] ->
  (forall o, In o (a_r_unless a) -> ~ present mt o) ->
  (forall o v, In (o, v) (a_r_ifs a) -> ~ has_value mt o v) ->
  present mt (a_id a) \/ exclusive_present c (present mt).
Proof.
  intros R Hn a Hin Hne Hall Hno _. apply (clause_required_if_unless_union c mt R Hn a Hin).
  right. split; [now left|]. split; [exact Hno|now left].
Qed.

(** and the validator's boolean is that union, both directions (the converse is what makes a
    change from "or" to "and" visible to the completeness theorem) *)
Theorem cond_b_is_union mt a : cond_b mt a = true <-> if_fires mt a \/ unless_fires mt a.
Proof.
  split.
  - intros H. apply cond_b_conv in H. unfold cond_required in H. unfold if_fires, unless_fires. tauto.
  - intros H. apply cond_b_spec. unfold cond_required. unfold if_fires, unless_fires in H. tauto.
Qed.

(** * (c) [Equals] reads every occurrence *)
Lemma value_matches_any_occurrence m v grp :
  In grp (m_raw m) -> In v grp -> m_ignore_case m = false -> value_matches m v.
Proof.
  intros Hg Hv Hic. exists v. split; [|rewrite Hic; reflexivity].
  apply in_concat. exists grp. auto.
Qed.

Theorem clause_required_if_eq_any_occurrence c mt : Relations c mt -> negates_reqs c mt = false ->
  forall a o v m grp, In a (c_args c) -> In (o, v) (a_r_ifs a) ->
  fm_get o (mt_args mt) = Some m -> m_source m <> Some SDefault -> m_ignore_case m = false ->
  In grp (m_raw m) -> In v grp ->
  present mt (a_id a) \/ exclusive_present c (present mt).
Proof.
  intros R Hn a o v m grp Hin Ho Hg Hs Hic Hgrp Hv.
  apply (clause_required_if_eq c mt R Hn a o v Hin Ho).
  exists m. split; [exact Hg|]. split; [exact Hs|]. exact (value_matches_any_occurrence m v grp Hgrp Hv Hic).
Qed.

Theorem clause_requires_if_any_occurrence c mt : Relations c mt -> negates_reqs c mt = false ->
  forall i a m v y b grp, arg_of c i a -> fm_get i (mt_args mt) = Some m -> In (PEquals v, y) (a_requires a) ->
  m_source m <> Some SDefault -> m_ignore_case m = false -> In grp (m_raw m) -> In v grp ->
  arg_of c y b -> arg_satisfied c mt y.
Proof.
  intros R Hn i a m v y b grp Ha Hg Hr Hs Hic Hgrp Hv Hb.
  apply (clause_requires_arg c mt R Hn i a m (PEquals v) y b Ha Hg Hr); [|exact Hb].
  split; [exact Hs|]. exact (value_matches_any_occurrence m v grp Hgrp Hv Hic).
Qed.

(** * witnesses
    [o] --oo <v> (Append), [a] --aa requires [b], [b] --bb <v> requires [y] if its value is "v",
    [p] --pp: required_if_eq(o, "v") AND required_unless_present(a) on one argument,
    [q] --qq: required_if_eq_all [(o,"v"); (b,"w")], [u] --uu: required_unless_present_all [a; y],
    groups: G = {m} required; K = {k} ([multiple]) conflicts_with H = {n}, and requires [y]. *)
Definition wopt (i : id) (l : bytes) (act : action) : arg :=
  arg_new i <| a_long := Some l |> <| a_action := Some act |>.
Definition j_o : id := [111]. Definition j_p : id := [112]. Definition j_q : id := [113].
Definition j_u : id := [117]. Definition j_y : id := [121]. Definition j_m : id := [109].
Definition j_k : id := [107]. Definition j_n : id := [110].
Definition j_G : id := [71]. Definition j_K : id := [75]. Definition j_H : id := [72].
Definition vv : bytes := [118]. Definition ww : bytes := [119]. Definition xx : bytes := [120].
Definition ca_cmd : cmd :=
  cmd_new [99]
    <| c_args := [wopt j_o [111;111] AAppend;
                  wflag i_a [97;97] <| a_requires := [(PIsPresent, i_b)] |>;
                  wopt i_b [98;98] ASet <| a_requires := [(PEquals vv, j_y)] |>;
                  wflag j_y [121;121];
                  wflag j_p [112;112] <| a_r_ifs := [(j_o, vv)] |> <| a_r_unless := [i_a] |>;
                  wflag j_q [113;113] <| a_r_ifs_all := [(j_o, vv); (i_b, ww)] |>;
                  wflag j_u [117;117] <| a_r_unless_all := [i_a; j_y] |>;
                  wflag j_m [109;109]; wflag j_k [107;107]; wflag j_n [110;110]] |>
    <| c_groups := [group_new j_G <| g_args := [j_m] |> <| g_required := true |>;
                    group_new j_K <| g_args := [j_k] |> <| g_multiple := true |>
                                  <| g_conflicts := [j_H] |> <| g_requires := [j_y] |>;
                    group_new j_H <| g_args := [j_n] |>] |>.

Definition lvl_verdict (c0 : cmd) (toks : list bytes) : option vres :=
  match run_level c0 toks with
  | ROk st => Some (validate (build_self c0) (mt st))
  | RErr _ st => Some (validate (build_self c0) (mt st))
  | RPanic _ => None
  end.
Definition lvl_wf (c0 : cmd) (toks : list bytes) : bool :=
  match run_level c0 toks with
  | ROk st | RErr _ st => fm_wf_b (mt st) && keys_ok_b (build_self c0) (mt st)
  | RPanic _ => false
  end.
Definition mm := dd [109;109].
Definition full_line : list bytes := [mm; dd [97;97]; dd [98;98]; ww; dd [121;121]; dd [111;111]; xx].

Example complete_all_witnesses :
  valid ca_cmd = true /\ static_only (build_self ca_cmd) = false /\ pos_indexed_b (build_self ca_cmd) = true
  (* accepted: nothing fires but the unless-rules, which are answered *)
  /\ lvl_wf ca_cmd [mm; dd [112;112]; dd [117;117]] = true
  /\ lvl_verdict ca_cmd [mm; dd [112;112]; dd [117;117]] = Some VOk
  (* accepted: the whole chain, no conditional rule fires (o = "x", b = "w") *)
  /\ lvl_wf ca_cmd full_line = true /\ lvl_verdict ca_cmd full_line = Some VOk
  (* (b) union: [a] present answers required_unless_present, but o = "v" fires required_if_eq *)
  /\ lvl_verdict ca_cmd [mm; dd [97;97]; dd [98;98]; ww; dd [121;121]; dd [111;111]; vv]
     = Some (VErr EMissingRequiredArgument j_p)
  (* (b) union, other side: no required_if_eq condition holds, required_unless_present fires *)
  /\ lvl_verdict ca_cmd [mm; dd [117;117]] = Some (VErr EMissingRequiredArgument j_p)
  (* (c) Append: the FIRST occurrence carries "v", the last one does not *)
  /\ lvl_verdict ca_cmd [mm; dd [97;97]; dd [98;98]; xx; dd [121;121]; dd [111;111]; vv; dd [111;111]; xx]
     = Some (VErr EMissingRequiredArgument j_p)
  (* required_if_eq_all: both conditions *)
  /\ lvl_verdict ca_cmd [mm; dd [97;97]; dd [98;98]; ww; dd [121;121]; dd [111;111]; vv; dd [112;112]]
     = Some (VErr EMissingRequiredArgument j_q)
  (* the requires_if of the ROOT [b] fires on its own value; behind [a] it would not *)
  /\ lvl_verdict ca_cmd [mm; dd [97;97]; dd [98;98]; vv; dd [111;111]; xx]
     = Some (VErr EMissingRequiredArgument j_y)
  (* required group; requires of a present group *)
  /\ lvl_verdict ca_cmd [dd [112;112]; dd [117;117]] = Some (VErr EMissingRequiredArgument j_G)
  /\ lvl_verdict ca_cmd [mm; dd [112;112]; dd [117;117]; dd [107;107]] = Some (VErr EMissingRequiredArgument j_y)
  (* (a) the [multiple] group K conflicts with the group H: members k and n *)
  /\ lvl_verdict ca_cmd [mm; dd [112;112]; dd [117;117]; dd [121;121]; dd [107;107]; dd [110;110]]
     = Some (VErr EArgumentConflict j_k).
Proof. repeat split; vm_compute; reflexivity. Qed.

(** with the completeness theorem a rejection by the validator REFUTES the specification on that
    matcher: the matcher of the "union" line does not satisfy [Relations] *)
Example union_line_breaks_relations :
  exists e st, run_level ca_cmd [mm; dd [97;97]; dd [98;98]; ww; dd [121;121]; dd [111;111]; vv] = RErr e st
    /\ ~ Relations (build_self ca_cmd) (mt st).
Proof.
  do 2 eexists. split; [vm_compute; reflexivity|].
  match goal with |- ~ Relations ?c ?m => set (cc := c); set (mm0 := m) end.
  intros R.
  assert (Hv : validate cc mm0 = VOk).
  { apply (validate_complete cc); [vm_compute; reflexivity| | | | | |exact R].
    - apply fm_wf_b_sound. vm_compute. reflexivity.
    - apply keys_ok_b_sound. vm_compute. reflexivity.
    - apply pos_indexed_b_sound. vm_compute. reflexivity.
    - vm_compute. reflexivity.
    - vm_compute. reflexivity. }
  vm_compute in Hv. discriminate.
Qed.

(** * the parser's states: for every state that satisfies the invariant of the token loop (every
    state [get_matches_with] reaches at a level of a [plain], valid definition -- C01/C02), the
    validator's verdict IS the specification *)
Theorem validate_iff_invariant c st :
  wfc c -> assert_app c = true -> G c idx_inv trivV st ->
  negb (is_some (mt_sub (mt st))) && is_set s_arg_required_else_help c && is_nil (explicit_entries (mt st)) = false ->
  negb (is_some (mt_sub (mt st))) && is_set s_sub_required c = false ->
  (validate c (mt st) = VOk <-> Relations c (mt st)).
Proof.
  intros [_ [_ [_ [_ W5]]]] A [[_ [He Hi]] _] Hh Hs.
  apply validate_iff; [exact A|exact (proj1 Hi)|exact He| |exact Hh|exact Hs].
  intros p Hp. unfold positionals in Hp. apply filter_In in Hp as [Hin Hpos]. exact (W5 p Hin Hpos).
Qed.

(** * the hypothesis [strict_chain_b] of the chain theorems is needed: when a level ON the chain
    ignores errors, the error of its child is swallowed and the child's unvalidated matcher is
    recorded -- root -> s (ignore_errors) -> t (a required argument): `s t` "succeeds" and the
    recorded matcher of [t] does not satisfy the relations of [t] *)
Definition ig_t : cmd := cmd_new [116] <| c_args := [wflag i_b [98;98] <| a_required := true |>] |>.
Definition ig_s : cmd :=
  cmd_new [115] <| c_subs := [ig_t] |>
    <| c_set := settings_none <| s_ignore_errors := true |> |>
    <| c_gset := settings_none <| s_ignore_errors := true |> |>.
Definition ig_root : cmd := cmd_new [112] <| c_args := [wflag i_a [97;97]] |> <| c_subs := [ig_s] |>.

Definition sub_matches (m : matches) : option matches := match ms_sub m with Some (_, sm) => Some sm | None => None end.
Definition built_sub (c : cmd) (n : bytes) : cmd := opt_default c (build_subcommand c n).

Example strict_chain_needed :
  plain ig_root = true /\ valid ig_root = true /\ is_set s_ignore_errors (build_self ig_root) = false
  /\ exists m sm, do_parse ig_root [[115]; [116]] = OOk m /\ Globals.chain m = [[115]; [116]]
       /\ RelationsLoop.strict_chain_b (build_self ig_root) m = false
       /\ match sub_matches m with Some m1 => sub_matches m1 | None => None end = Some sm
       /\ ~ Relations (built_sub (built_sub (build_self ig_root) [115]) [116]) (RelationsTree.level_matcher sm).
Proof.
  split; [vm_compute; reflexivity|]. split; [vm_compute; reflexivity|]. split; [vm_compute; reflexivity|].
  do 2 eexists. split; [vm_compute; reflexivity|]. split; [vm_compute; reflexivity|].
  split; [vm_compute; reflexivity|]. split; [vm_compute; reflexivity|].
  match goal with |- ~ Relations ?c ?m => set (cc := c); set (mm0 := m) end.
  intros R.
  assert (Hv : validate cc mm0 = VOk).
  { apply (validate_complete cc); [vm_compute; reflexivity| | | | | |exact R].
    - apply fm_wf_b_sound. vm_compute. reflexivity.
    - apply keys_ok_b_sound. vm_compute. reflexivity.
    - apply pos_indexed_b_sound. vm_compute. reflexivity.
    - vm_compute. reflexivity.
    - vm_compute. reflexivity. }
  vm_compute in Hv. discriminate.
Qed.
