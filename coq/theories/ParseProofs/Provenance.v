(** Provenance of values (C02, "no value is invented"): every raw value the matcher stores for an
    argument is a contiguous piece of a token of that level's command line, of a value the
    definition declares for that level (default, default-missing, conditional default, environment
    value) or of an action literal ("true", "false", a decimal count).  Instance of the parse-loop
    invariant of Invariant.v / Totality.v. *)
From ClapModel Require Import Base.Bytes Base.Machine Lex.OsStrExtModel Lex.OsStrExtProofs.
From ClapModel Require Import Parse.Cmd Parse.Build Parse.Valid Parse.Matcher Parse.Errors Parse.Validator Parse.Parser.
From ClapModel Require Import ParseProofs.Safe ParseProofs.Invariant ParseProofs.Totality
                              ParseProofs.Relations ParseProofs.ValidateTotal ParseProofs.TotalityMain.
From Coq Require Import ZArith Lia.
From RecordUpdate Require Import RecordSet.
Import RecordSetNotations.
Open Scope N_scope.

(** [v] is a contiguous piece of [t] *)
Definition sub_of (v t : bytes) : Prop := exists a b, t = a ++ v ++ b.

Lemma sub_of_refl v : sub_of v v.
Proof. exists [], []. rewrite app_nil_r. reflexivity. Qed.
Lemma sub_of_trans u v w : sub_of u v -> sub_of v w -> sub_of u w.
Proof.
  intros [a [b ->]] [a' [b' ->]]. exists (a' ++ a), (b ++ b'). rewrite <- !app_assoc. reflexivity.
Qed.
Lemma sub_of_skipn n t : sub_of (skipn n t) t.
Proof. exists (firstn n t), []. rewrite app_nil_r, firstn_skipn. reflexivity. Qed.

Definition declared (c : cmd) (t : bytes) : Prop :=
  exists a, In a (c_args c) /\
    (In t (a_default_missing a) \/ In t (a_default a) \/ a_env a = Some t
     \/ exists i p, In (i, p, Some t) (a_default_ifs a)).
Definition literal (t : bytes) : Prop := t = s_true \/ t = s_false \/ exists n, t = n_to_dec n.

(** where a stored value may come from *)
Definition origin (c : cmd) (toks : list bytes) (v : bytes) : Prop :=
  exists t, (In t toks \/ declared c t \/ literal t) /\ sub_of v t.

Lemma origin_of_source c toks t : (In t toks \/ declared c t \/ literal t) -> origin c toks t.
Proof. intros H. exists t. split; [exact H|apply sub_of_refl]. Qed.

Lemma SplitSpec_pieces n h l : SplitSpec n h l -> forall x, In x l -> sub_of x h.
Proof.
  induction 1 as [h Hn|h a b rest Hh Hm Hs IH]; intros x Hx.
  - destruct Hx as [<-|[]]. apply sub_of_refl.
  - destruct Hx as [<-|Hx].
    + exists [], (n ++ b). exact Hh.
    + apply (sub_of_trans x b h); [apply IH; exact Hx|]. exists (a ++ n), []. rewrite app_nil_r, <- app_assoc. exact Hh.
Qed.

Lemma split_pieces v d l : split v d = SplitOk l -> forall x, In x l -> sub_of x v.
Proof.
  intros H. destruct d as [|b d']; [discriminate|].
  destruct (split_total v (b :: d')) as [l' [Hl' [Hs _]]]; [discriminate|].
  rewrite Hl' in H. inversion H; subst. apply (SplitSpec_pieces _ _ _ Hs).
Qed.

Lemma origin_Vok c toks :
  Vok c (origin c toks) /\ Forall (fun tok => forall n, origin c toks (skipn n tok)) toks.
Proof.
  split; [unfold Vok; repeat split|].
  - apply origin_of_source. right; right. left; reflexivity.
  - apply origin_of_source. right; right. right; left; reflexivity.
  - intros n. apply origin_of_source. right; right. right; right. exists n; reflexivity.
  - intros v d l [t [Ht Hsub]] Hs. apply Forall_forall. intros x Hx.
    exists t. split; [exact Ht|]. eapply sub_of_trans; [eapply split_pieces; eassumption|exact Hsub].
  - intros a Hin. apply Forall_forall. intros x Hx. apply origin_of_source. right; left. exists a. auto.
  - intros a Hin. apply Forall_forall. intros x Hx. apply origin_of_source. right; left. exists a. auto.
  - intros a v Hin He. apply origin_of_source. right; left. exists a. auto.
  - intros a i p d Hin Hd. apply origin_of_source. right; left. exists a. split; [exact Hin|].
    right; right; right. exists i, p. exact Hd.
  - apply Forall_forall. intros tok Hin n. exists tok. split; [left; exact Hin|apply sub_of_skipn].
Qed.

(** groups are not arguments (one conjunct of [assert_app]) *)
Definition groups_sane (c : cmd) : Prop := forall g, In g (c_groups c) -> find_arg c (g_id g) = None.

Lemma assert_app_groups_sane c : assert_app c = true -> groups_sane c.
Proof.
  unfold assert_app. intros H g Hin.
  repeat (apply andb_true_iff in H as [H ?]).
  match goal with Hg : forallb _ (c_groups c) = true |- _ => rename Hg into HG end.
  rewrite forallb_forall in HG. specialize (HG g Hin).
  repeat (apply andb_true_iff in HG as [HG ?]).
  match goal with Hn : negb (is_some (find_arg c (g_id g))) = true |- _ =>
    destruct (find_arg c (g_id g)); [discriminate|reflexivity] end.
Qed.

(** the state predicate: the raw values of every *argument* entry have an admissible origin *)
Definition prov (c : cmd) (toks : list bytes) (l : list (id * marg)) (k : N) : Prop :=
  groups_sane c ->
  forall i m, In (i, m) l -> (exists a, find_arg c i = Some a) -> Forall (Forall (origin c toks)) (m_raw m).

Lemma append_val_raw v m m' (Q : bytes -> Prop) :
  append_val v m = Some m' -> Forall (Forall Q) (m_raw m) -> Q v -> Forall (Forall Q) (m_raw m').
Proof.
  unfold append_val, push_last. destruct (rev (m_raw m)) as [|g r] eqn:E; [discriminate|].
  intros H; inversion H; subst; clear H. cbn. intros Hall Hv.
  assert (Hm : m_raw m = rev r ++ [g]).
  { rewrite <- (rev_involutive (m_raw m)), E. reflexivity. }
  rewrite Hm in Hall. apply Forall_app in Hall. destruct Hall as [H1 H2]. inversion H2; subst.
  apply Forall_app. split; [exact H1|]. constructor; [|constructor].
  apply Forall_app. split; [assumption|constructor; [exact Hv|constructor]].
Qed.

Lemma prov_closed c toks : closedP c (origin c toks) (prov c toks).
Proof.
  unfold closedP, prov. split; [|split; [|split; [|split; [|split]]]].
  - intros l k H Hs. apply H. exact Hs.
  - intros l k i H Hs j m Hin. apply (H Hs j m). eapply fm_remove_incl. exact Hin.
  - intros l k i ic grp s H Hs j m Hin Harg.
    destruct (fm_entry_or_insert_in _ _ _ _ _ _ Hin) as [H1|[[v [H1 [-> _]]]|[-> ->]]].
    + apply (H Hs j m H1 Harg).
    + cbn. apply Forall_app. split; [apply (H Hs j v H1 Harg)|repeat constructor].
    + cbn. repeat constructor.
  - intros l k i j m m' v Hgrp H Hget Happ Hs j' mj Hin Harg.
    destruct (fm_update_in _ _ _ _ _ Hin) as [H1|[v0 [H1 [-> Hb]]]]; [apply (H Hs j' mj H1 Harg)|].
    exfalso. apply beq_eq in Hb. subst j'. destruct Harg as [a Ha].
    unfold groups_for_arg in Hgrp. apply in_map_iff in Hgrp. destruct Hgrp as [g [Hg Hgin]].
    apply filter_In in Hgin. destruct Hgin as [Hgin _]. rewrite <- Hg in Ha. rewrite (Hs g Hgin) in Ha. discriminate.
  - intros l k i m m' v HV H Hget Happ Hs j' mj Hin Harg.
    destruct (fm_update_in _ _ _ _ _ Hin) as [H1|[v1 [H1 [-> Hb]]]].
    + destruct (fm_update_in _ _ _ _ _ H1) as [H2|[v2 [H2 [-> Hb2]]]]; [apply (H Hs j' mj H2 Harg)|].
      eapply append_val_raw; [exact Happ| |exact HV].
      apply fm_get_in in Hget. destruct Hget as [k' [Hk' Hbk]]. apply beq_eq in Hbk, Hb2. subst.
      apply (H Hs _ m Hk' Harg).
    + cbn. destruct (fm_update_in _ _ _ _ _ H1) as [H2|[v2 [H2 [-> Hb2]]]]; [apply (H Hs j' v1 H2 Harg)|].
      eapply append_val_raw; [exact Happ| |exact HV].
      apply fm_get_in in Hget. destruct Hget as [k' [Hk' Hbk]]. apply beq_eq in Hbk, Hb2. subst.
      apply (H Hs _ m Hk' Harg).
  - intros _ i m [].
Qed.

(** * the theorems *)
Theorem level_provenance fuel c toks st0 st :
  tree_ok fuel c -> G c (prov c toks) (origin c toks) st0 ->
  get_matches_with fuel c toks st0 = ROk st ->
  forall i m, In (i, m) (mt_args (mt st)) -> (exists a, find_arg c i = Some a) ->
  Forall (Forall (origin c toks)) (m_raw m).
Proof.
  intros Hok HG Hr.
  assert (Hvt : forall c m, wfc c -> assert_app c = true -> entries_ok c (mt_args m) -> forall s, validate c m <> VPanic s).
  { intros c' m _ Happ He s. apply validate_total; [apply assert_app_rel_wf; exact Happ|exact He]. }
  pose proof (gmw_safe origin prov prov_closed origin_Vok Hvt fuel c toks st0 Hok HG) as Hs.
  rewrite Hr in Hs. cbn in Hs. destruct Hs as [[_ [_ HP]] _].
  destruct fuel as [|f]; [destruct Hok|]. destruct Hok as [_ [Happ _]].
  apply HP. apply assert_app_groups_sane. exact Happ.
Qed.

Theorem root_provenance c0 toks st :
  plain c0 = true -> valid c0 = true ->
  get_matches_with (S (S (depth (build_self c0)))) (build_self c0) toks ps_new = ROk st ->
  forall i m, In (i, m) (mt_args (mt st)) -> (exists a, find_arg (build_self c0) i = Some a) ->
  Forall (Forall (origin (build_self c0) toks)) (m_raw m).
Proof.
  intros Hp Hv Hr. unfold valid in Hv. cbn zeta in Hv.
  eapply level_provenance; [apply tree_ok_of_valid; eassumption| |exact Hr].
  apply G_ps_new. destruct (prov_closed (build_self c0) toks) as [_ [_ [_ [_ [_ H0]]]]]. exact H0.
Qed.
