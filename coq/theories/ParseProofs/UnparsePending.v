(** Property C02, third pass, item (5): the pending buffer and the value range -- for ALL commands.

    What bounds the buffer of an OPTION is the pair "open empty / take one while [accepts_more]":
    [pending_open_empty] (an occurrence opened by [--o] / [-o] starts with no value), [take_value_spec]
    (the branch of the loop that hands a token to the open option appends exactly that token and answers
    "more" iff the new length is below [num_args.max]) and hence [take_value_bounded] (below the maximum
    before => at most the maximum after, and the option stays open only strictly below it).
    What is FLUSHED is bounded on both sides for every kind of argument: [flushed_in_range]
    (a command-line occurrence that [react] accepts has between min and max raw values).
    The literal statement "the buffer never exceeds max" is FALSE for multi-valued positionals:
    [pending_positional_unbounded] (the run is only checked when it is flushed; the line is then rejected with
    TooManyValues -- the real crate answers the same on that line). *)
From ClapModel Require Import Base.Bytes Base.Machine Base.Utf8 Lex.OsStrExtModel.
From ClapModel Require Import Parse.Cmd Parse.Build Parse.Valid Parse.Matcher Parse.Errors Parse.Validator Parse.Parser.
From ClapModel Require Import ParseProofs.Actions ParseProofs.Spelling ParseProofs.Sources.
From Coq Require Import ZArith Lia List Bool.
From RecordUpdate Require Import RecordSet.
Import RecordSetNotations.
Import ListNotations.
Open Scope N_scope.

(** an occurrence opened without a value ([--o], [-o], cluster ending in [o]) starts with an empty buffer *)
Theorem pending_open_empty c idn attached a has_eq st st' i :
  parse_opt_value c idn attached a has_eq st = ROk (st', PROpt i) ->
  i = a_id a /\ mt_pending (mt st') = Some (mkPending (a_id a) (Some idn) [] None).
Proof.
  unfold parse_opt_value. destruct (a_req_eq a && negb has_eq).
  - destruct (a_num a) as [r|]; cbn [expect rbind]; [|discriminate].
    destruct (vmin r =? 0).
    + destruct (react c (Some idn) SCmdLine a [] None st) as [x|e s|n]; cbn [rbind]; [|discriminate|discriminate].
      destruct (is_some attached); discriminate.
    + discriminate.
  - destruct attached as [v|].
    + destruct (react c (Some idn) SCmdLine a [v] None st) as [x|e s|n]; cbn [rbind]; discriminate.
    + destruct (resolve_pending c st) as [st1|e s|n] eqn:RP; cbn [rbind]; [|discriminate|discriminate].
      pose proof (resolve_pending_clears _ _ _ RP) as PN.
      unfold pending_values_push. rewrite PN. cbn [p_id p_ident p_raw p_trailing_idx is_some].
      rewrite beq_refl, ident_eqb_refl. cbn [negb andb expect rbind].
      intros H. inversion H; subst. split; [reflexivity|]. destruct st1 as [m ci fa fk]. destruct m. reflexivity.
Qed.

(** the loop's value branch ([Spelling.take_value], shown to be that branch by [parse_loop_value_step] /
    [C02_value_step_x]): exactly the token is appended, "more" iff the new length is below the maximum *)
Theorem take_value_spec c i tok st st' more p a r :
  mt_pending (mt st) = Some p -> p_id p = i -> find_arg c i = Some a -> a_id a = i -> a_num a = Some r ->
  take_value c i tok st = ROk (st', more) ->
  mt_pending (mt st') = Some (mkPending (p_id p) (p_ident p) (p_raw p ++ [tok]) (p_trailing_idx p)) /\
  more = r_accepts_more r (N.of_nat (length (p_raw p ++ [tok]))).
Proof.
  intros Hp Hi Hf Hid Hr. subst i. unfold take_value. rewrite Hf. cbn [expect rbind].
  unfold pending_values_push. rewrite Hp, beq_refl. cbn [negb is_some andb expect rbind].
  unfold needs_more_vals. rewrite Hr.
  replace (mt_pending ((mt st) <| mt_pending := Some (mkPending (p_id p) (p_ident p) (p_raw p ++ [tok]) (p_trailing_idx p)) |>))
    with (Some (mkPending (p_id p) (p_ident p) (p_raw p ++ [tok]) (p_trailing_idx p))) by (destruct (mt st); reflexivity).
  cbn [p_id p_raw]. rewrite Hid, beq_refl. cbn [expect rbind].
  intros H. inversion H; subst. split; [destruct st as [m ci fa fk]; destruct m; reflexivity|reflexivity].
Qed.

Theorem take_value_bounded c i tok st st' more p a r :
  mt_pending (mt st) = Some p -> p_id p = i -> find_arg c i = Some a -> a_id a = i -> a_num a = Some r ->
  N.of_nat (length (p_raw p)) < vmax r ->
  take_value c i tok st = ROk (st', more) ->
  exists p', mt_pending (mt st') = Some p' /\ p_id p' = i /\ p_raw p' = p_raw p ++ [tok] /\
    N.of_nat (length (p_raw p')) <= vmax r /\
    (more = true -> N.of_nat (length (p_raw p')) < vmax r) /\
    (more = false -> N.of_nat (length (p_raw p')) = vmax r).
Proof.
  intros Hp Hi Hf Hid Hr Hlt H. destruct (take_value_spec c i tok st st' more p a r Hp Hi Hf Hid Hr H) as [E M].
  eexists. split; [exact E|]. cbn [p_id p_raw]. split; [exact Hi|]. split; [reflexivity|].
  assert (L : N.of_nat (length (p_raw p ++ [tok])) = N.of_nat (length (p_raw p)) + 1).
  { rewrite app_length. cbn [length]. lia. }
  unfold r_accepts_more in M. split; [lia|]. split; intros ->.
  - symmetry in M. apply N.ltb_lt in M. exact M.
  - symmetry in M. apply N.ltb_ge in M. lia.
Qed.

(** WHAT IS FLUSHED IS IN RANGE: a command-line occurrence that [react] accepts (no [ignore_errors]) carries at
    least [num_args.min] and at most [num_args.max] raw values -- options and positionals alike *)
Theorem flushed_in_range c idn a raw ti st x r : is_set s_ignore_errors c = false -> a_num a = Some r ->
  react_core c idn SCmdLine a raw ti st = ROk x ->
  vmin r <= N.of_nat (length raw) <= vmax r.
Proof.
  intros Hie Hr. unfold react_core. cbn [is_cmdline]. unfold verify_num_args. rewrite Hie, Hr. cbn [expect rbind].
  destruct ((0 <? vmin r) && (N.of_nat (length raw) =? 0)) eqn:E0; cbn [rbind]; [discriminate|].
  unfold r_num_values, r_is_fixed. destruct (vmin r =? vmax r) eqn:Ef.
  - destruct (negb (vmin r =? N.of_nat (length raw))) eqn:En; cbn [rbind]; [discriminate|]. intros _.
    apply N.eqb_eq in Ef. apply negb_false_iff in En. apply N.eqb_eq in En. lia.
  - destruct (N.of_nat (length raw) <? vmin r) eqn:E1; cbn [rbind]; [discriminate|].
    destruct (vmax r <? N.of_nat (length raw)) eqn:E2; cbn [rbind]; [destruct raw; discriminate|]. intros _.
    apply N.ltb_ge in E1, E2. lia.
Qed.

(** REFUTED for positionals: [prog <f>{1..2}] on [a b c] -- when the line ends the run of [f] holds three
    values although [num_args.max] = 2 (the count is only checked when the run is flushed, and the line is then
    rejected with TooManyValues) *)
Module PendEx.
  Definition f : arg := (arg_new [102]) <| a_num := Some {| vmin := 1; vmax := 2 |} |>.
  Definition c : cmd := build_self ((cmd_new [112]) <| c_args := [f] |>).
  Definition toks : list bytes := [[97]; [98]; [99]].
End PendEx.
Theorem pending_positional_unbounded : exists c toks st p a r,
  assert_app c = true /\ parse_loop c toks (mkL PSValuesDone 1 false false) ps_new = ROk (LDone st) /\
  mt_pending (mt st) = Some p /\ find_arg c (p_id p) = Some a /\ a_num a = Some r /\
  vmax r < N.of_nat (length (p_raw p)) /\
  (exists e s, get_matches_with 2 c toks ps_new = RErr e s /\ e_kind e = ETooManyValues).
Proof.
  exists PendEx.c, PendEx.toks. eexists. eexists. eexists. eexists.
  split; [vm_compute; reflexivity|]. split; [vm_compute; reflexivity|]. split; [reflexivity|].
  split; [vm_compute; reflexivity|]. split; [reflexivity|]. split; [vm_compute; reflexivity|].
  eexists. eexists. split; [vm_compute; reflexivity|reflexivity].
Qed.

(** non-vacuity of the option side: [prog --mu <v>{1..2}] after [--mu A]: one value pending, the option still open;
    after [--mu A B]: two pending, closed *)
Module PendOptEx.
  Definition m : arg := (arg_new [109]) <| a_long := Some [109; 117] |> <| a_action := Some AAppend |>
                          <| a_num := Some {| vmin := 1; vmax := 2 |} |>.
  Definition c : cmd := build_self ((cmd_new [112]) <| c_args := [m] |>).
  Definition pend_after (toks : list bytes) : option (list bytes) :=
    match parse_loop c toks (mkL PSValuesDone 1 false false) ps_new with
    | ROk (LDone st) => opt_map p_raw (mt_pending (mt st)) | _ => None end.
  Example ex : pend_after [[45; 45; 109; 117]] = Some [] /\ pend_after [[45; 45; 109; 117]; [65]] = Some [[65]] /\
               pend_after [[45; 45; 109; 117]; [65]; [66]] = Some [[65]; [66]] /\
               (exists e s, get_matches_with 2 c [[45; 45; 109; 117]; [65]; [66]; [67]] ps_new = RErr e s /\ e_kind e = EUnknownArgument).
  Proof. split; [vm_compute; reflexivity|]. split; [vm_compute; reflexivity|]. split; [vm_compute; reflexivity|].
         eexists. eexists. split; [vm_compute; reflexivity|reflexivity]. Qed.
End PendOptEx.
