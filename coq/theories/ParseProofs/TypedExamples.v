(** Property C04, round 2: non-vacuity of the whole-parse theorems (all by computation). *)
From Coq Require Import ZArith List Bool.
From ClapModel Require Import Base.Bytes Base.Machine Base.Utf8.
From ClapModel Require Value.TypedStore Value.TypedStoreProofs Value.ValueParsers Value.IntParseProofs.
From ClapModel Require Import Parse.Cmd Parse.Build Parse.Valid Parse.Matcher Parse.Errors Parse.Validator Parse.Parser.
From ClapModel Require Import ParseProofs.Relations ParseProofs.Totality ParseProofs.Unparse ParseProofs.UnparseTop
                              ParseProofs.Dispatch ParseProofs.TypedInv ParseProofs.TypedView ParseProofs.TypedAccess ParseProofs.TypedReject ParseProofs.TypedMerge ParseProofs.Globals.
From RecordUpdate Require Import RecordSet.
Import RecordSetNotations.
Import ListNotations.
Open Scope N_scope.

Module TypedEx.
  (** prog --num <i64 in -5..10, default "3"> -v (Count) --qu (SetTrue) --lvl <i64 in 0..100, env "7">
           <word> (String)  sub --k <i64 in 1..2> *)
  Definition w_num : bytes := [110; 117; 109].
  Definition w_qu : bytes := [113; 117].
  Definition w_lvl : bytes := [108; 118; 108].
  Definition w_sub : bytes := [115; 117; 98].
  Definition n : arg := (arg_new w_num) <| a_long := Some w_num |> <| a_action := Some ASet |>
                          <| a_vp := Some (VPI64 (-5) 10) |> <| a_default := [[51]] |>.
  Definition v : arg := (arg_new [118]) <| a_short := Some 118 |> <| a_action := Some ACount |>.
  Definition q : arg := (arg_new w_qu) <| a_long := Some w_qu |> <| a_action := Some ASetTrue |>.
  Definition e : arg := (arg_new w_lvl) <| a_long := Some w_lvl |> <| a_action := Some ASet |>
                          <| a_vp := Some (VPI64 0 100) |> <| a_env := Some [55] |>.
  Definition w : arg := arg_new [119].
  Definition k : arg := (arg_new [107]) <| a_long := Some [107] |> <| a_action := Some ASet |> <| a_vp := Some (VPI64 1 2) |>.
  Definition sub : cmd := (cmd_new w_sub) <| c_args := [k] |>.
  Definition c0 : cmd := (cmd_new [112]) <| c_args := [n; v; q; e; w] |> <| c_subs := [sub] |>.
  Definition c : cmd := build_self c0.
  Definition dd (s : bytes) : bytes := 45 :: 45 :: s.
  (** p --num +7 -vv --qu abc sub --k=2 *)
  Definition argv : list bytes := [[112]; dd w_num; [43; 55]; [45; 118; 118]; dd w_qu; [97; 98; 99]; w_sub; dd [107; 61; 50]].
  (** p --num 11 *)
  Definition argv_bad : list bytes := [[112]; dd w_num; [49; 49]].

  Definition raws (m : matches) (i : id) : option (list (list bytes)) := opt_map m_raw (fm_get i (ms_args m)).
  Definition sub_of (m : matches) : option matches := opt_map snd (ms_sub m).

  Example ex_valid : valid c0 = true /\ plain c0 = true.
  Proof. vm_compute. split; reflexivity. Qed.

  (** the parse succeeds; command-line, default-free, env and action-literal values are all stored *)
  Example ex_parse : exists m sm, parse_top c0 argv = OOk m /\ sub_of m = Some sm /\
    raws m w_num = Some [[[43; 55]]] /\ raws m [118] = Some [[[50]]] /\ raws m w_qu = Some [[s_true]] /\
    raws m w_lvl = Some [[[55]]] /\ raws m [119] = Some [[[97; 98; 99]]] /\ raws sm [107] = Some [[[50]]].
  Proof. eexists. eexists. vm_compute. repeat split; reflexivity. Qed.

  (** ... with the default when --num is absent *)
  Example ex_default : exists m, parse_top c0 [[112]] = OOk m /\ raws m w_num = Some [[[51]]] /\ raws m w_lvl = Some [[[55]]].
  Proof. eexists. vm_compute. repeat split; reflexivity. Qed.

  (** the typed values next to them: "+7" reads 7, "2" (two -v) reads 2, "true" reads true *)
  Example ex_typed :
    typed_value (VPI64 (-5) 10) [43; 55] = Some (TVal (ClapModel.Value.ValueParsers.TVInt 7)) /\
    typed_value VPCount [50] = Some (TVal (ClapModel.Value.ValueParsers.TVInt 2)) /\
    typed_value VPBool s_true = Some (TVal (ClapModel.Value.ValueParsers.TVBool true)) /\
    typed_value (VPI64 (-5) 10) [49; 49] = None /\ vp_parse (VPI64 (-5) 10) [49; 49] = Some EValueValidation.
  Proof. vm_compute. repeat split; reflexivity. Qed.

  (** rejection: 11 is outside -5..10: a value error that names the argument *)
  Example ex_reject : exists err, parse_top c0 argv_bad = OErr err /\ e_kind err = EValueValidation /\ e_arg err = w_num.
  Proof. eexists. vm_compute. repeat split; reflexivity. Qed.

  Example ex_valid_any_bin : forall b, valid (with_bin c0 b) = true.
  Proof. intros b. vm_compute. reflexivity. Qed.

  (** the hypotheses of [bad_value_not_accepted] on the rendered invocation `--num 11 -vv` *)
  Definition its : list item := [ItLongSep w_num [[49; 49]]; ItCluster [118; 118] TNone].
  Example ex_bad_rendered :
    conv c = true /\ is_set s_ignore_errors c = false /\ wf_items c PSValuesDone 1 its = true /\
    In (List.nth 0 (c_args c) n) (c_args c) /\ a_vp (List.nth 0 (c_args c) n) = Some (VPI64 (-5) 10) /\
    a_id (List.nth 0 (c_args c) n) = w_num /\
    denote_arg c w_num its = Some [[[49; 49]]] /\ vp_parse (VPI64 (-5) 10) [49; 49] <> None /\
    render its = [dd w_num; [49; 49]; [45; 118; 118]].
  Proof. vm_compute. repeat split; try reflexivity; try (left; reflexivity); discriminate. Qed.

  (** typed access on the result of the parse of `--num +7 -vv --qu abc`: a wrong type and an unknown id
      fail, a right type succeeds; the history leaves the other entries alone *)
  Definition toks1 : list bytes := [dd w_num; [43; 55]; [45; 118; 118]; dd w_qu; [97; 98; 99]].
  Definition rend0 (vp : vparser) (r : bytes) : bytes := r.
  Example ex_access : exists st,
    get_matches_with (S (S (depth c))) c toks1 ps_new = ROk st /\
    let S0 := store_of rend0 c (mt_args (mt st)) in
    fst (ClapModel.Value.TypedStore.run true S0
           [ClapModel.Value.TypedStore.GetOne w_num 0;          (* i64 argument read as String: Downcast *)
            ClapModel.Value.TypedStore.RemoveOne w_num 2;       (* ... removed as bool: Downcast, nothing removed *)
            ClapModel.Value.TypedStore.GetOne [122] 4;          (* unknown id *)
            ClapModel.Value.TypedStore.GetOne w_num 4;          (* the right type *)
            ClapModel.Value.TypedStore.RemoveOne [118] 3;
            ClapModel.Value.TypedStore.GetOne [118] 3]) =
      [ClapModel.Value.TypedStore.OErr (ClapModel.Value.TypedStore.Downcast 4 0);
       ClapModel.Value.TypedStore.OErr (ClapModel.Value.TypedStore.Downcast 4 2);
       ClapModel.Value.TypedStore.OErr ClapModel.Value.TypedStore.UnknownArgument;
       ClapModel.Value.TypedStore.OOne [43; 55];
       ClapModel.Value.TypedStore.OOne [50];
       ClapModel.Value.TypedStore.ONone].
  Proof. eexists. split; [vm_compute; reflexivity|]. vm_compute. reflexivity. Qed.
  (** OBSERVATION (replayed on the implementation): the invariant is about what the PARSER stores.  The
      globals merge that follows it ([propagate_globals]) copies entries between levels by id alone: when
      a subcommand defines its own argument with the id of an ancestor's global argument but another
      value parser, the ancestor's level ends up reporting, under that id, a value that its own
      argument's parser refuses (here: root `g` is i64 in 0..9, global; `sub` has a String argument
      with the same id; `p sub --gg abc` reports g = "abc" at the root). *)
  Definition g_root : arg := (arg_new [103]) <| a_long := Some [103] |> <| a_action := Some ASet |>
                               <| a_vp := Some (VPI64 0 9) |> <| a_global := true |>.
  Definition g_sub : arg := (arg_new [103]) <| a_long := Some [103; 103] |> <| a_action := Some ASet |> <| a_vp := Some VPString |>.
  Definition cg : cmd := (cmd_new [112]) <| c_args := [g_root] |> <| c_subs := [(cmd_new w_sub) <| c_args := [g_sub] |>] |>.
  Definition argv_g : list bytes := [[112]; w_sub; dd [103; 103]; [97; 98; 99]].
  Lemma merged_typed_refuted : exists c1 argv1 m a ma,
    valid c1 = true /\ plain c1 = true /\ parse_top c1 argv1 = OOk m /\
    find_arg (build_self c1) [103] = Some a /\ a_vp a = Some (VPI64 0 9) /\
    fm_get [103] (ms_args m) = Some ma /\ m_raw ma = [[[97; 98; 99]]] /\
    vp_parse (VPI64 0 9) [97; 98; 99] = Some EValueValidation.
  Proof. exists cg, argv_g. do 3 eexists. vm_compute. repeat split; reflexivity. Qed.
  (** ... while the ordinary use of a global argument satisfies [globals_consistent]: `--cfg` (i64 0..9,
      global) defined at the root, copied into `sub` by the build step, given after the subcommand name *)
  Definition w_cfg : bytes := [99; 102; 103].
  Definition cfg : arg := (arg_new w_cfg) <| a_long := Some w_cfg |> <| a_action := Some ASet |>
                            <| a_vp := Some (VPI64 0 9) |> <| a_global := true |>.
  Definition ck : cmd := (cmd_new [112]) <| c_args := [cfg; v] |> <| c_subs := [sub] |>.
  Definition argv_k : list bytes := [[112]; [45; 118]; w_sub; dd w_cfg; [52]].
  Definition sck : cmd := match build_subcommand (build_self ck) w_sub with Some sc => sc | None => ck end.
  Lemma ex_merge_consistent : exists m st,
    valid ck = true /\ do_parse ck (List.tl argv_k) = OOk m /\ m = reported ck st /\
    chain_specs (build_self ck) (into_inner (mt st)) [cmd_spec (build_self ck); cmd_spec sck] /\
    globals_consistent
      (used_global_args (S (matches_depth (into_inner (mt st))))
         (build_recursive (S (S (depth (build_self ck)))) ck) (into_inner (mt st)))
      [cmd_spec (build_self ck); cmd_spec sck] (levels (into_inner (mt st))) /\
    raws m w_cfg = Some [[[52]]] /\ opt_map (fun sm => raws sm w_cfg) (sub_of m) = Some (Some [[[52]]]).
  Proof.
    destruct (get_matches_with (S (S (depth (build_self ck)))) (build_self ck) (List.tl argv_k) ps_new) as [st|e st|x] eqn:E;
      [|vm_compute in E; discriminate|vm_compute in E; discriminate].
    eexists. exists st.
    assert (Est : st = match get_matches_with (S (S (depth (build_self ck)))) (build_self ck) (List.tl argv_k) ps_new with ROk s => s | _ => ps_new end)
      by (rewrite E; reflexivity).
    vm_compute in Est. subst st.
    split; [vm_compute; reflexivity|]. split; [vm_compute; reflexivity|]. split; [vm_compute; reflexivity|].
    split.
    { unfold into_inner. cbn [mt mt_args mt_sub].
      eapply CS_sub; [vm_compute; reflexivity|].
      change (chain_specs sck (Matches (mt_args (mt (mkPs (mkMatcher [(w_cfg, mkMarg (Some SCmdLine) [2] [[[52]]] false false)] None None) 2 None 0))) None) [cmd_spec sck]).
      apply CS_leaf. }
    split; [|vm_compute; split; reflexivity].
    match goal with |- globals_consistent ?G _ _ => assert (Egl : G = [w_cfg; w_cfg]) by (vm_compute; reflexivity); rewrite Egl end.
    assert (H1 : cmd_spec (build_self ck) w_cfg = Some (VPI64 0 9)) by (vm_compute; reflexivity).
    assert (H2 : cmd_spec sck w_cfg = Some (VPI64 0 9)) by (vm_compute; reflexivity).
    revert H1 H2. generalize (cmd_spec (build_self ck)) as s1. generalize (cmd_spec sck) as s2.
    intros s2 s1 H1 H2 g Hg sp vp Hsp Hs sp' l' ma Hin Hget.
    assert (g = w_cfg).
    { unfold mem_id in Hg. cbn [existsb] in Hg. rewrite Bool.orb_false_r, Bool.orb_diag in Hg. apply beq_eq in Hg. exact Hg. }
    subst g.
    assert (vp = VPI64 0 9) by (destruct Hsp as [<-|[<-|[]]]; congruence). subst vp.
    vm_compute in Hin. destruct Hin as [Hin|[Hin|[]]]; inversion Hin; subst; assumption.
  Qed.
End TypedEx.
