(** Property C05, round 2: the hop "pending values -> raw occurrence of the positional" through
    [resolve_pending]/[react_core] as ONE theorem ([sink_resolve]): [verify_num_args], the delimiter
    block, [mt_remove]/[start_custom_arg] and [push_arg_values] composed. *)
From ClapModel Require Import Base.Bytes Base.Machine Base.Utf8 Lex.OsStrExtModel.
From ClapModel Require Import Parse.Cmd Parse.Build Parse.Valid Parse.Matcher Parse.Errors Parse.Validator Parse.Parser.
From ClapModel Require Import ParseProofs.Safe ParseProofs.Sources ParseProofs.Spelling ParseProofs.Escape.
From Coq Require Import ZArith Lia List Bool.
From RecordUpdate Require Import RecordSet.
Import RecordSetNotations.
Import ListNotations.
Open Scope N_scope.

Section Store.
Variable c : cmd.

Lemma delimit_go_false_irrel db : forall l ti i ti' i', delimit_go false db ti i l = delimit_go false db ti' i' l.
Proof.
  induction l as [|v t IH]; intros ti i ti' i'; [reflexivity|].
  cbn [delimit_go andb]. rewrite (IH ti (i + 1) ti' (i' + 1)). reflexivity.
Qed.

(** how the values after the escape are stored: untouched with [dont_delimit_trailing_values] or
    without a declared delimiter, split at the declared delimiter otherwise *)
Definition tail_form (a : arg) (t : list bytes) : option (list bytes) :=
  if is_set s_dont_delimit_trailing c then Some t else delimit c a t None.

Lemma tail_form_ddt a t : is_set s_dont_delimit_trailing c = true -> tail_form a t = Some t.
Proof. unfold tail_form. intros ->. reflexivity. Qed.
Lemma tail_form_no_delim a t : a_delim a = None -> tail_form a t = Some t.
Proof. unfold tail_form, delimit. intros ->. destruct (is_set _ c); reflexivity. Qed.

Lemma delimit_app_trailing a earlier t k : k <= N.of_nat (length earlier) ->
  delimit c a (earlier ++ t) (Some k) =
  match delimit c a earlier (Some k), tail_form a t with
  | Some x, Some y => Some (x ++ y)
  | _, _ => None
  end.
Proof.
  intros Hk. unfold tail_form, delimit. destruct (a_delim a) as [d|].
  2:{ destruct (is_set s_dont_delimit_trailing c); reflexivity. }
  destruct (is_set s_dont_delimit_trailing c) eqn:Ed; cbn [andb].
  - destruct k as [|kp]; [reflexivity|].
    rewrite delimit_go_app. rewrite (delimit_go_exempt (encode_utf8 d) (N.pos kp) t) by lia.
    destruct (delimit_go true (encode_utf8 d) (Some (N.pos kp)) 0 earlier); reflexivity.
  - rewrite delimit_go_app.
    rewrite (delimit_go_false_irrel (encode_utf8 d) t (Some k) (0 + N.of_nat (length earlier)) None 0).
    reflexivity.
Qed.

(** (2): closing the occurrence of the sink positional that holds [earlier ++ t] (trailing index
    at or before the first value of [t]) leaves an entry whose last value group is the earlier
    values (delimited as usual) followed by [t] in its stored form *)
Theorem sink_resolve st p a earlier t k st' :
  find_group c (a_id a) = None ->
  a_get_action a = ASet \/ a_get_action a = AAppend ->
  mt_pending (mt st) = Some p -> find_arg c (p_id p) = Some a ->
  p_raw p = earlier ++ t -> t <> [] -> p_trailing_idx p = Some k -> k <= N.of_nat (length earlier) ->
  resolve_pending c st = ROk st' ->
  exists e gs early' t',
    get_entry (a_id a) st' = Some e /\ m_raw e = gs ++ [early' ++ t'] /\ m_source e = Some SCmdLine /\
    delimit c a earlier (Some k) = Some early' /\ tail_form a t = Some t' /\
    mt_pending (mt st') = None.
Proof.
  intros Hg Hact Hp Hf Hraw Ht Hti Hk. unfold resolve_pending. rewrite Hp, Hf. cbn [expect rbind].
  destruct (react_core c (p_ident p) SCmdLine a (p_raw p) (p_trailing_idx p) _) as [[s2 pr]|e0 s0|n0] eqn:Er;
    cbn [rbind]; try discriminate.
  intros E. injection E as <-. cbn [fst].
  pose proof (Spelling.react_core_pending _ _ _ _ _ _ _ _ _ Er) as Hpend.
  destruct (react_cmdline_values c _ a _ _ _ _ _ Hg Hact Er) as (e & vs & Ge & Se & Dv & Lv).
  assert (Hne : p_raw p <> []) by (rewrite Hraw; destruct earlier; [exact Ht|discriminate]).
  assert (Erv : react_vals a (p_raw p) (p_trailing_idx p) = (p_raw p, p_trailing_idx p)).
  { unfold react_vals. destruct (p_raw p); [contradiction|reflexivity]. }
  rewrite Erv in Dv. cbn [fst snd] in Dv. rewrite Hraw, Hti in Dv.
  rewrite (delimit_app_trailing a earlier t k Hk) in Dv.
  destruct (delimit c a earlier (Some k)) as [early'|] eqn:E1; [|discriminate].
  destruct (tail_form a t) as [t'|] eqn:E2; [|discriminate]. injection Dv as <-.
  assert (Hvs : early' ++ t' <> []).
  { assert (Ht' : t' <> []).
    { unfold tail_form in E2. destruct (is_set s_dont_delimit_trailing c); [injection E2 as <-; exact Ht|].
      exact (delimit_nonempty c a t None t' Ht E2). }
    destruct early'; cbn [app]; [exact Ht'|discriminate]. }
  assert (Hm : m_raw e <> []) by (intros Hm; rewrite Hm in Lv; cbn in Lv; apply Hvs; symmetry; exact Lv).
  exists e, (removelast (m_raw e)), early', t'.
  split; [exact Ge|]. split; [rewrite <- Lv; apply app_removelast_last; exact Hm|].
  split; [exact Se|]. split; [reflexivity|]. split; [reflexivity|]. rewrite Hpend. reflexivity.
Qed.
End Store.
