(** Property C05, round 2: the hop "pending values -> raw occurrence of the positional" through
    [resolve_pending]/[react_core] as ONE theorem ([sink_resolve]): [verify_num_args], the delimiter
    block, [mt_remove]/[start_custom_arg] and [push_arg_values] composed. *)
From ClapModel Require Import Base.Bytes Base.Machine Base.Utf8 Lex.OsStrExtModel.
From ClapModel Require Import Parse.Cmd Parse.Build Parse.Valid Parse.Matcher Parse.Errors Parse.Validator Parse.Parser.
From ClapModel Require Import ParseProofs.Safe ParseProofs.Sources ParseProofs.Spelling ParseProofs.Escape.
From Coq Require Import ZArith Lia List Bool.
From RecordUpdate Require Import RecordSet.
Import RecordSetNotations.
Import ListNotations.
Open Scope N_scope.

Section Store.
Variable c : cmd.

Lemma delimit_go_false_irrel db : forall l ti i ti' i', delimit_go false db ti i l = delimit_go false db ti' i' l.
Proof.
  induction l as [|v t IH]; intros ti i ti' i'; [reflexivity|].
  cbn [delimit_go andb]. rewrite (IH ti (i + 1) ti' (i' + 1)). reflexivity.
Qed.

(** how the values after the escape are stored: untouched with [dont_delimit_trailing_values] or
    without a declared delimiter, split at the declared delimiter otherwise *)
Definition tail_form (a : arg) (t : list bytes) : option (list bytes) :=
  if is_set s_dont_delimit_trailing c then Some t else delimit c a t None.

Lemma tail_form_ddt a t : is_set s_dont_delimit_trailing c = true -> tail_form a t = Some t.
Proof. unfold tail_form. intros ->. reflexivity. Qed.
Lemma tail_form_no_delim a t : a_delim a = None -> tail_form a t = Some t.
Proof. unfold tail_form, delimit. intros ->. destruct (is_set _ c); reflexivity. Qed.

Lemma delimit_app_trailing a earlier t k : k <= N.of_nat (length earlier) ->
  delimit c a (earlier ++ t) (Some k) =
  match delimit c a earlier (Some k), tail_form a t with
  | Some x, Some y => Some (x ++ y)
  | _, _ => None
  end.
Proof.
  intros Hk. unfold tail_form, delimit. destruct (a_delim a) as [d|].
  2:{ destruct (is_set s_dont_delimit_trailing c); reflexivity. }
  destruct (is_set s_dont_delimit_trailing c) eqn:Ed; cbn [andb].
  - destruct k as [|kp]; [reflexivity|].
    rewrite delimit_go_app. rewrite (delimit_go_exempt (encode_utf8 d) (N.pos kp) t) by lia.
    destruct (delimit_go true (encode_utf8 d) (Some (N.pos kp)) 0 earlier); reflexivity.
  - rewrite delimit_go_app.
    rewrite (delimit_go_false_irrel (encode_utf8 d) t (Some k) (0 + N.of_nat (length earlier)) None 0).
    reflexivity.
Qed.

(** the actions whose occurrences store the values given on the command line: Set / Append, and -- since the model's
    configuration gate follows action.rs ([ValueRange::OPTIONAL] for the two flag actions) -- SetTrue / SetFalse given
    a value (`--flag=false`; a positional flag with [num_args(0..=1)]) *)
Definition stores_given (a : arg) : Prop :=
  a_get_action a = ASet \/ a_get_action a = AAppend \/ a_get_action a = ASetTrue \/ a_get_action a = ASetFalse.

(** [Sources.react_cmdline_values] for the two flag actions: the values of the occurrence are stored as given whenever
    there are any (without values the flag literal is stored instead) *)
Lemma react_cmdline_values_flag idn a raw ti st st' pr :
  find_group c (a_id a) = None ->
  a_get_action a = ASetTrue \/ a_get_action a = ASetFalse ->
  react_core c idn SCmdLine a raw ti st = ROk (st', pr) ->
  exists e vs, fm_get (a_id a) (mt_args (mt st')) = Some e /\ m_source e = Some SCmdLine
    /\ delimit c a (fst (react_vals a raw ti)) (snd (react_vals a raw ti)) = Some vs
    /\ (vs <> [] -> last (m_raw e) [] = vs).
Proof.
  intros Hg Hact H. rewrite react_core_unfold in H. cbn [is_cmdline] in H.
  destruct (verify_num_args _ _ _ _); [|discriminate|discriminate]. cbn [rbind] in H.
  unfold react_tail in H. destruct (delimit c a _ _) as [vs|] eqn:Ed; [|discriminate]. cbn [expect rbind] in H.
  assert (Hstore : forall w m1 (sx : ps),
    (do m2 <- start_custom_arg c a SCmdLine m1;
     do st' <- push_arg_values c a w (sx <| mt := m2 |>); ROk (st', PRValuesDone)) = ROk (st', pr) ->
    exists e, fm_get (a_id a) (mt_args (mt st')) = Some e /\ m_source e = Some SCmdLine /\ last (m_raw e) [] = w).
  { intros w m1 sx Hq.
    destruct (start_custom_arg c a SCmdLine m1) as [m2| |] eqn:E1; [|discriminate|discriminate]. cbn [rbind] in Hq.
    destruct (push_arg_values c a w _) as [s2| |] eqn:E2; [|discriminate|discriminate]. cbn [rbind] in Hq.
    inversion Hq; subst s2. destruct (start_custom_arg_cl_entry c a m1 m2 Hg E1) as [e0 [gs [G0 [R0 S0]]]].
    apply push_arg_values_spec in E2. destruct E2 as [_ [_ [_ [_ [_ He]]]]].
    destruct (He e0 gs [] G0 R0) as [e' [G' [S' [R' _]]]].
    exists e'. split; [exact G'|]. split; [congruence|]. rewrite R'. cbn [app]. apply last_last. }
  destruct Hact as [Ha|Ha]; rewrite Ha in H.
  - match type of H with context [mt_remove (mt ?S) ?I] => destruct (mt_remove (mt S) I) as [m1 removed] end.
    destruct (removed && _); [discriminate|].
    destruct (Hstore _ _ _ H) as [e [G [S L]]].
    exists e, vs. split; [exact G|]. split; [exact S|]. split; [reflexivity|].
    intros Hne. rewrite L. destruct vs; [contradiction|reflexivity].
  - match type of H with context [mt_remove (mt ?S) ?I] => destruct (mt_remove (mt S) I) as [m1 removed] end.
    destruct (removed && _); [discriminate|].
    destruct (Hstore _ _ _ H) as [e [G [S L]]].
    exists e, vs. split; [exact G|]. split; [exact S|]. split; [reflexivity|].
    intros Hne. rewrite L. destruct vs; [contradiction|reflexivity].
Qed.

(** (2): closing the occurrence of the sink positional that holds [earlier ++ t] (trailing index
    at or before the first value of [t]) leaves an entry whose last value group is the earlier
    values (delimited as usual) followed by [t] in its stored form *)
Theorem sink_resolve st p a earlier t k st' :
  find_group c (a_id a) = None ->
  stores_given a ->
  mt_pending (mt st) = Some p -> find_arg c (p_id p) = Some a ->
  p_raw p = earlier ++ t -> t <> [] -> p_trailing_idx p = Some k -> k <= N.of_nat (length earlier) ->
  resolve_pending c st = ROk st' ->
  exists e gs early' t',
    get_entry (a_id a) st' = Some e /\ m_raw e = gs ++ [early' ++ t'] /\ m_source e = Some SCmdLine /\
    delimit c a earlier (Some k) = Some early' /\ tail_form a t = Some t' /\
    mt_pending (mt st') = None.
Proof.
  intros Hg Hact Hp Hf Hraw Ht Hti Hk. unfold resolve_pending. rewrite Hp, Hf. cbn [expect rbind].
  destruct (react_core c (p_ident p) SCmdLine a (p_raw p) (p_trailing_idx p) _) as [[s2 pr]|e0 s0|n0] eqn:Er;
    cbn [rbind]; try discriminate.
  intros E. injection E as <-. cbn [fst].
  pose proof (Spelling.react_core_pending _ _ _ _ _ _ _ _ _ Er) as Hpend.
  assert (Hvals : exists e vs, fm_get (a_id a) (mt_args (mt s2)) = Some e /\ m_source e = Some SCmdLine
            /\ delimit c a (fst (react_vals a (p_raw p) (p_trailing_idx p))) (snd (react_vals a (p_raw p) (p_trailing_idx p))) = Some vs
            /\ (vs <> [] -> last (m_raw e) [] = vs)).
  { destruct Hact as [Ha|[Ha|[Ha|Ha]]].
    - destruct (react_cmdline_values c _ a _ _ _ _ _ Hg (or_introl Ha) Er) as (e & vs & Ge & Se & Dv & Lv).
      exists e, vs. repeat split; try assumption. intros _. exact Lv.
    - destruct (react_cmdline_values c _ a _ _ _ _ _ Hg (or_intror Ha) Er) as (e & vs & Ge & Se & Dv & Lv).
      exists e, vs. repeat split; try assumption. intros _. exact Lv.
    - exact (react_cmdline_values_flag _ a _ _ _ _ _ Hg (or_introl Ha) Er).
    - exact (react_cmdline_values_flag _ a _ _ _ _ _ Hg (or_intror Ha) Er). }
  destruct Hvals as (e & vs & Ge & Se & Dv & Lv0).
  assert (Hne : p_raw p <> []) by (rewrite Hraw; destruct earlier; [exact Ht|discriminate]).
  assert (Erv : react_vals a (p_raw p) (p_trailing_idx p) = (p_raw p, p_trailing_idx p)).
  { unfold react_vals. destruct (p_raw p); [contradiction|reflexivity]. }
  rewrite Erv in Dv. cbn [fst snd] in Dv. rewrite Hraw, Hti in Dv.
  rewrite (delimit_app_trailing a earlier t k Hk) in Dv.
  destruct (delimit c a earlier (Some k)) as [early'|] eqn:E1; [|discriminate].
  destruct (tail_form a t) as [t'|] eqn:E2; [|discriminate]. injection Dv as <-.
  assert (Hvs : early' ++ t' <> []).
  { assert (Ht' : t' <> []).
    { unfold tail_form in E2. destruct (is_set s_dont_delimit_trailing c); [injection E2 as <-; exact Ht|].
      exact (delimit_nonempty c a t None t' Ht E2). }
    destruct early'; cbn [app]; [exact Ht'|discriminate]. }
  pose proof (Lv0 Hvs) as Lv.
  assert (Hm : m_raw e <> []) by (intros Hm; rewrite Hm in Lv; cbn in Lv; apply Hvs; symmetry; exact Lv).
  exists e, (removelast (m_raw e)), early', t'.
  split; [exact Ge|]. split; [rewrite <- Lv; apply app_removelast_last; exact Hm|].
  split; [exact Se|]. split; [reflexivity|]. split; [reflexivity|]. rewrite Hpend. reflexivity.
Qed.
End Store.
