(** Property C07, part 7: arbitrary override graphs.

    [step_abs] (Actions.v) says what ONE occurrence does to the stored groups of argument [i].  Here the fold over
    a whole occurrence list is put in closed form for ANY number of arguments in override relations with [i]
    (declared on either side): what [i] holds in the end is the fold of its OWN occurrences after the LAST
    command-line occurrence of any other argument related to it ([live]); everything before that point is gone,
    however many overriders there were and in whatever order.  As theorems about [parse_top]: Count = the number
    of live occurrences (saturating), Append = the live occurrences' values, one group each. *)
From ClapModel Require Import Base.Bytes Base.Machine Base.Utf8 Lex.OsStrExtModel.
From ClapModel Require Import Parse.Cmd Parse.Build Parse.Valid Parse.Matcher Parse.Errors Parse.Validator Parse.Parser.
From ClapModel Require Import ParseProofs.Actions ParseProofs.ActionsLoop ParseProofs.ActionsTokens ParseProofs.ActionsTop ParseProofs.ActionsWide ParseProofs.ActionsWideTop.
From ClapModel Require ParseProofs.Spelling.
From Coq Require Import ZArith.
From RecordUpdate Require Import RecordSet.
Import RecordSetNotations.
Open Scope N_scope.

(** [o] is a command-line occurrence of ANOTHER argument in an override relation with [i] (either direction) *)
Definition overrider (c : cmd) (i : id) (o : occ) : bool :=
  negb (beq (a_id (o_arg o)) i) && (is_cmdline (o_src o) && overridden c (o_arg o) i).

(** the occurrences after the last overrider of [i] (all of them when there is none) *)
Fixpoint live (c : cmd) (i : id) (os : list occ) : list occ :=
  match os with
  | [] => []
  | o :: t => if existsb (overrider c i) t then live c i t
              else if overrider c i o then t else o :: t
  end.

Lemma live_id c i os : existsb (overrider c i) os = false -> live c i os = os.
Proof.
  destruct os as [|o t]; [reflexivity|]. cbn [existsb live]. intros H. apply orb_false_iff in H. destruct H as [H1 H2].
  rewrite H2, H1. reflexivity.
Qed.

(** [live] is the suffix after the last overrider *)
Theorem live_suffix c i : forall os,
  (existsb (overrider c i) os = false /\ live c i os = os) \/
  (exists pre o, os = pre ++ o :: live c i os /\ overrider c i o = true).
Proof.
  induction os as [|o t IH]; [left; split; reflexivity|]. cbn [live existsb].
  destruct (existsb (overrider c i) t) eqn:Et.
  - right. destruct IH as [[H _]|[pre [o' [E Ho]]]]; [congruence|].
    exists (o :: pre), o'. split; [cbn [app]; f_equal; exact E|exact Ho].
  - destruct (overrider c i o) eqn:Eo.
    + right. exists [], o. split; [reflexivity|exact Eo].
    + left. split; reflexivity.
Qed.

Theorem live_no_overrider c i : forall os, existsb (overrider c i) (live c i os) = false.
Proof.
  induction os as [|o t IH]; [reflexivity|]. cbn [live].
  destruct (existsb (overrider c i) t) eqn:Et; [exact IH|].
  destruct (overrider c i o) eqn:Eo; [exact Et|]. cbn [existsb]. rewrite Eo, Et. reflexivity.
Qed.

Lemma step_abs_overrider c i g o : overrider c i o = true -> step_abs c i g o = None.
Proof.
  unfold overrider, step_abs. intros H. apply andb_prop in H. destruct H as [H1 H2].
  apply negb_true_iff in H1. rewrite H1, H2. reflexivity.
Qed.

(** the closed form of the abstract fold, any override graph *)
Theorem abs_live_gen c i : forall os g,
  fold_left (step_abs c i) os g = fold_left (step_abs c i) (live c i os) (if existsb (overrider c i) os then None else g).
Proof.
  induction os as [|o t IH]; intros g; [reflexivity|]. cbn [fold_left live existsb]. rewrite IH.
  destruct (existsb (overrider c i) t) eqn:Et.
  - rewrite orb_true_r. reflexivity.
  - rewrite (live_id c i t Et). rewrite orb_false_r. destruct (overrider c i o) eqn:Eo.
    + rewrite (step_abs_overrider c i g o Eo). reflexivity.
    + reflexivity.
Qed.

Theorem abs_live c i os : fold_left (step_abs c i) os None = fold_left (step_abs c i) (live c i os) None.
Proof. rewrite (abs_live_gen c i os None). destruct (existsb (overrider c i) os); reflexivity. Qed.

(** an occurrence that is neither [i]'s own nor an overrider is unrelated *)
Lemma not_overrider_unrelated c i o : overrider c i o = false -> beq (a_id (o_arg o)) i = false -> unrelated c i o.
Proof.
  unfold overrider. intros H Hb. rewrite Hb in H. cbn [negb andb] in H. split; [exact Hb|exact H].
Qed.

Lemma live_incl c i : forall os o, In o (live c i os) -> In o os.
Proof.
  induction os as [|x t IH]; intros o H; [exact H|]. cbn [live] in H.
  destruct (existsb (overrider c i) t); [right; exact (IH o H)|].
  destruct (overrider c i x); [right; exact H|exact H].
Qed.

Lemma live_forall c i (P : occ -> Prop) os : Forall P os -> Forall P (live c i os).
Proof. rewrite !Forall_forall. intros H o Ho. exact (H o (live_incl c i os o Ho)). Qed.

(** * At [parse_top], for any class of lines ([gen_class]) *)
Theorem gen_top_override_graph c0 bin toks os m a :
  let c := build_self (with_bin c0 bin) in
  gen_class c0 bin toks os -> parse_top c0 (bin :: toks) = OOk m -> In a (c_args c) ->
  match fold_left (step_abs c (a_id a)) (live c (a_id a) os) None with
  | Some g => exists e, fm_get (a_id a) (ms_args m) = Some e /\ m_raw e = g /\ m_source e = Some SCmdLine
  | None => forall e, fm_get (a_id a) (ms_args m) = Some e -> m_source e = Some SEnv \/ m_source e = Some SDefault
  end.
Proof.
  intros c TC HP Hin. pose proof (gen_top_denote c0 bin toks os m a TC HP Hin) as HD. fold c in HD.
  rewrite (abs_live c (a_id a) os) in HD. exact HD.
Qed.

(** Count, any override graph: the number of occurrences after the last overrider, saturating *)
Theorem gen_top_count_graph c0 bin toks os m a :
  let c := build_self (with_bin c0 bin) in
  gen_class c0 bin toks os -> parse_top c0 (bin :: toks) = OOk m -> In a (c_args c) ->
  count_flag a ->
  let n := count_occ (a_id a) (live c (a_id a) os) in
  ((0 < n)%nat -> exists e, fm_get (a_id a) (ms_args m) = Some e /\
       m_raw e = [[n_to_dec (N.min (N.of_nat n) 255)]] /\ m_source e = Some SCmdLine) /\
  (n = 0%nat -> forall e, fm_get (a_id a) (ms_args m) = Some e -> m_source e = Some SEnv \/ m_source e = Some SDefault).
Proof.
  intros c TC HP Hin [EA [_ [EDM ENUM]]] n.
  pose proof (top_valid c0 bin toks os m TC HP) as HA. fold c in HA.
  pose proof (gen_top_override_graph c0 bin toks os m a TC HP Hin) as HD. fold c in HD.
  destruct TC as [_ [_ [_ HSc]]]. fold c in HSc.
  assert (TV : a_takes_value a = false) by (unfold a_takes_value; rewrite ENUM; reflexivity).
  pose proof (live_no_overrider c (a_id a) os) as NO.
  assert (HAll : Forall (fun o => (o_arg o = a /\ o_raw o = []) \/ unrelated c (a_id a) o) (live c (a_id a) os)).
  { apply Forall_forall. intros o Ho.
    assert (So : wscanned c o) by (rewrite Forall_forall in HSc; exact (HSc o (live_incl c _ os o Ho))).
    destruct (beq (a_id (o_arg o)) (a_id a)) eqn:Eb.
    - left. pose proof (scanned_same c a o HA Hin So Eb) as E. split; [exact E|].
      destruct So as [_ [_ Hr]]. rewrite E in Hr. exact (Hr TV).
    - right. apply not_overrider_unrelated; [|exact Eb].
      destruct (overrider c (a_id a) o) eqn:Eo; [|reflexivity].
      assert (X : existsb (overrider c (a_id a)) (live c (a_id a) os) = true) by (apply existsb_exists; exists o; auto).
      congruence. }
  change (@None groups) with (enc 0) in HD. rewrite (abs_count c a EA EDM _ 0 HAll) in HD.
  fold n in HD. rewrite N.add_0_l in HD. unfold enc in HD.
  split.
  - intros Hn. destruct (N.of_nat n =? 0) eqn:E0; [apply N.eqb_eq in E0; lia|]. exact HD.
  - intros Hn. rewrite Hn in HD. exact HD.
Qed.

(** Append, any override graph (the argument does not override itself): the values of the occurrences after the
    last overrider, one group each, in order *)
Theorem gen_top_append_graph c0 bin toks os m a :
  let c := build_self (with_bin c0 bin) in
  gen_class c0 bin toks os -> parse_top c0 (bin :: toks) = OOk m -> In a (c_args c) ->
  a_get_action a = AAppend -> overridden c a (a_id a) = false ->
  let lv := live c (a_id a) os in
  ((0 < count_occ (a_id a) lv)%nat ->
     exists e, fm_get (a_id a) (ms_args m) = Some e /\ m_raw e = occ_groups c (a_id a) lv /\ m_source e = Some SCmdLine) /\
  (count_occ (a_id a) lv = 0%nat ->
     forall e, fm_get (a_id a) (ms_args m) = Some e -> m_source e = Some SEnv \/ m_source e = Some SDefault).
Proof.
  intros c TC HP Hin EA OS lv.
  pose proof (top_valid c0 bin toks os m TC HP) as HA. fold c in HA.
  pose proof (gen_top_override_graph c0 bin toks os m a TC HP Hin) as HD. fold c in HD. fold lv in HD.
  destruct TC as [_ [_ [_ HSc]]]. fold c in HSc.
  pose proof (live_no_overrider c (a_id a) os) as NO. fold lv in NO.
  assert (HU : forall o, In o lv -> beq (a_id (o_arg o)) (a_id a) = false -> unrelated c (a_id a) o).
  { intros o Ho Eb. apply not_overrider_unrelated; [|exact Eb].
    destruct (overrider c (a_id a) o) eqn:Eo; [|reflexivity].
    assert (X : existsb (overrider c (a_id a)) lv = true) by (apply existsb_exists; exists o; auto). congruence. }
  split.
  - intros Hn.
    assert (HAll : Forall (fun o => (o_arg o = a /\ is_cmdline (o_src o) && overridden c a (a_id a) = false)
                                    \/ unrelated c (a_id a) o) lv).
    { apply Forall_forall. intros o Ho.
      assert (So : wscanned c o) by (rewrite Forall_forall in HSc; exact (HSc o (live_incl c _ os o Ho))).
      destruct (beq (a_id (o_arg o)) (a_id a)) eqn:Eb.
      - left. split; [exact (scanned_same c a o HA Hin So Eb)|]. rewrite OS. apply andb_false_r.
      - right. exact (HU o Ho Eb). }
    destruct (abs_append c a EA lv None HAll) as [A1 A2]. cbn [opt_default app] in A1.
    specialize (A2 (or_intror Hn)).
    destruct (fold_left (step_abs c (a_id a)) lv None) as [g|]; [|discriminate A2]. cbn [opt_default] in A1.
    rewrite <- A1. exact HD.
  - intros Hn. rewrite (fold_absent c (a_id a) lv (count_occ_zero (a_id a) lv Hn)) in HD. exact HD.
Qed.

(** Set / SetTrue / SetFalse, any override graph: the LAST own occurrence after the last overrider decides; when there is
    none the argument holds no command-line entry *)
Fixpoint last_own (i : id) (os : list occ) : option occ :=
  match os with
  | [] => None
  | o :: t => match last_own i t with
              | Some o' => Some o'
              | None => if beq (a_id (o_arg o)) i then Some o else None
              end
  end.

Lemma last_own_none i : forall os, last_own i os = None -> Forall (fun o => beq (a_id (o_arg o)) i = false) os.
Proof.
  induction os as [|o t IH]; intros H; [constructor|]. cbn [last_own] in H.
  destruct (last_own i t) as [o'|]; [discriminate|]. destruct (beq (a_id (o_arg o)) i) eqn:E; [discriminate|].
  constructor; [exact E|exact (IH eq_refl)].
Qed.

Lemma last_own_split i : forall os o, last_own i os = Some o ->
  exists l1 l2, os = l1 ++ o :: l2 /\ beq (a_id (o_arg o)) i = true /\ Forall (fun o' => beq (a_id (o_arg o')) i = false) l2.
Proof.
  induction os as [|x t IH]; intros o H; [discriminate|]. cbn [last_own] in H.
  destruct (last_own i t) as [o'|] eqn:E.
  - inversion H; subst o'. destruct (IH o eq_refl) as [l1 [l2 [E1 [E2 E3]]]].
    exists (x :: l1), l2. split; [cbn [app]; f_equal; exact E1|]. auto.
  - destruct (beq (a_id (o_arg x)) i) eqn:Eb; [|discriminate]. inversion H; subst x.
    exists [], t. split; [reflexivity|]. split; [exact Eb|exact (last_own_none i t E)].
Qed.

Theorem gen_top_set_graph c0 bin toks os m a :
  let c := build_self (with_bin c0 bin) in
  gen_class c0 bin toks os -> parse_top c0 (bin :: toks) = OOk m -> In a (c_args c) ->
  set_family a = true ->
  match last_own (a_id a) (live c (a_id a) os) with
  | Some o => exists e, fm_get (a_id a) (ms_args m) = Some e /\
                m_raw e = step_self c SCmdLine a (o_vals c o) None /\ m_source e = Some SCmdLine
  | None => forall e, fm_get (a_id a) (ms_args m) = Some e -> m_source e = Some SEnv \/ m_source e = Some SDefault
  end.
Proof.
  intros c TC HP Hin SF.
  pose proof (top_valid c0 bin toks os m TC HP) as HA. fold c in HA.
  pose proof (gen_top_override_graph c0 bin toks os m a TC HP Hin) as HD. fold c in HD.
  destruct TC as [_ [_ [_ HSc]]]. fold c in HSc.
  destruct (last_own (a_id a) (live c (a_id a) os)) as [o|] eqn:EL.
  - destruct (last_own_split _ _ _ EL) as [l1 [l2 [E1 [E2 E3]]]].
    assert (Ho : In o (live c (a_id a) os)) by (rewrite E1; apply in_or_app; right; left; reflexivity).
    assert (So : wscanned c o) by (rewrite Forall_forall in HSc; exact (HSc o (live_incl c _ os o Ho))).
    pose proof (scanned_same c a o HA Hin So E2) as Eo.
    assert (HU : Forall (unrelated c (a_id a)) l2).
    { apply Forall_forall. intros o' Ho'. rewrite Forall_forall in E3.
      apply not_overrider_unrelated; [|exact (E3 o' Ho')].
      destruct (overrider c (a_id a) o') eqn:Eo'; [|reflexivity].
      assert (X : existsb (overrider c (a_id a)) (live c (a_id a) os) = true).
      { apply existsb_exists. exists o'. split; [|exact Eo']. rewrite E1. apply in_or_app. right. right. exact Ho'. }
      rewrite (live_no_overrider c (a_id a) os) in X. discriminate. }
    rewrite E1 in HD. rewrite (abs_last_wins c a l1 o l2 None SF Eo HU) in HD.
    destruct So as [_ [Es _]]. rewrite Es in HD. exact HD.
  - rewrite (fold_absent c (a_id a) _ (last_own_none _ _ EL)) in HD. exact HD.
Qed.

(** * The same for the two scanned classes *)
Theorem top_override_graph c0 bin toks os m a :
  let c := build_self (with_bin c0 bin) in
  top_class c0 bin toks os -> parse_top c0 (bin :: toks) = OOk m -> In a (c_args c) ->
  match fold_left (step_abs c (a_id a)) (live c (a_id a) os) None with
  | Some g => exists e, fm_get (a_id a) (ms_args m) = Some e /\ m_raw e = g /\ m_source e = Some SCmdLine
  | None => forall e, fm_get (a_id a) (ms_args m) = Some e -> m_source e = Some SEnv \/ m_source e = Some SDefault
  end.
Proof. intros c TC. exact (gen_top_override_graph c0 bin toks os m a (top_gen _ _ _ _ TC)). Qed.

Theorem wide_override_graph c0 bin toks os m a :
  let c := build_self (with_bin c0 bin) in
  wide_class c0 bin toks os -> parse_top c0 (bin :: toks) = OOk m -> In a (c_args c) ->
  match fold_left (step_abs c (a_id a)) (live c (a_id a) os) None with
  | Some g => exists e, fm_get (a_id a) (ms_args m) = Some e /\ m_raw e = g /\ m_source e = Some SCmdLine
  | None => forall e, fm_get (a_id a) (ms_args m) = Some e -> m_source e = Some SEnv \/ m_source e = Some SDefault
  end.
Proof. intros c TC. exact (gen_top_override_graph c0 bin toks os m a (wide_gen _ _ _ _ TC)). Qed.

Theorem wide_count_graph c0 bin toks os m a :
  let c := build_self (with_bin c0 bin) in
  wide_class c0 bin toks os -> parse_top c0 (bin :: toks) = OOk m -> In a (c_args c) ->
  count_flag a ->
  let n := count_occ (a_id a) (live c (a_id a) os) in
  ((0 < n)%nat -> exists e, fm_get (a_id a) (ms_args m) = Some e /\
       m_raw e = [[n_to_dec (N.min (N.of_nat n) 255)]] /\ m_source e = Some SCmdLine) /\
  (n = 0%nat -> forall e, fm_get (a_id a) (ms_args m) = Some e -> m_source e = Some SEnv \/ m_source e = Some SDefault).
Proof. intros c TC. exact (gen_top_count_graph c0 bin toks os m a (wide_gen _ _ _ _ TC)). Qed.

Theorem wide_append_graph c0 bin toks os m a :
  let c := build_self (with_bin c0 bin) in
  wide_class c0 bin toks os -> parse_top c0 (bin :: toks) = OOk m -> In a (c_args c) ->
  a_get_action a = AAppend -> overridden c a (a_id a) = false ->
  let lv := live c (a_id a) os in
  ((0 < count_occ (a_id a) lv)%nat ->
     exists e, fm_get (a_id a) (ms_args m) = Some e /\ m_raw e = occ_groups c (a_id a) lv /\ m_source e = Some SCmdLine) /\
  (count_occ (a_id a) lv = 0%nat ->
     forall e, fm_get (a_id a) (ms_args m) = Some e -> m_source e = Some SEnv \/ m_source e = Some SDefault).
Proof. intros c TC. exact (gen_top_append_graph c0 bin toks os m a (wide_gen _ _ _ _ TC)). Qed.

Theorem wide_set_graph c0 bin toks os m a :
  let c := build_self (with_bin c0 bin) in
  wide_class c0 bin toks os -> parse_top c0 (bin :: toks) = OOk m -> In a (c_args c) ->
  set_family a = true ->
  match last_own (a_id a) (live c (a_id a) os) with
  | Some o => exists e, fm_get (a_id a) (ms_args m) = Some e /\
                m_raw e = step_self c SCmdLine a (o_vals c o) None /\ m_source e = Some SCmdLine
  | None => forall e, fm_get (a_id a) (ms_args m) = Some e -> m_source e = Some SEnv \/ m_source e = Some SDefault
  end.
Proof. intros c TC. exact (gen_top_set_graph c0 bin toks os m a (wide_gen _ _ _ _ TC)). Qed.

(** * Non-vacuity: FOUR arguments in override relations with [-t] *)
Module GraphExamples.
  Import WideExamples.
  (** prog -t (Count, overrides o) -a (SetTrue, overrides t) -b (SetTrue, overrides t and o) -o <v> (Append)
      -z (Count, overrides t) *)
  Definition c1 : cmd := (cmd_new [112]) <| c_args := [
     (mk [116]) <| a_short := Some 116 |> <| a_action := Some ACount |> <| a_overrides := [[111]] |>;
     (mk [97]) <| a_short := Some 97 |> <| a_action := Some ASetTrue |> <| a_overrides := [[116]] |>;
     (mk [98]) <| a_short := Some 98 |> <| a_action := Some ASetTrue |> <| a_overrides := [[116]; [111]] |>;
     (mk [111]) <| a_short := Some 111 |> <| a_action := Some AAppend |>;
     (mk [122]) <| a_short := Some 122 |> <| a_action := Some ACount |> <| a_overrides := [[116]] |> ] |>.
  Definition bin : bytes := [112].
  Definition cb : cmd := build_self (with_bin c1 bin).
  Definition argB (i : id) : arg := match find_arg cb i with Some a => a | None => arg_new [] end.
  Definition occs (toks : list bytes) : list occ := opt_default [] (woccurrences cb toks).
  Definition result (toks : list bytes) : matches :=
    match parse_top c1 (bin :: toks) with OOk m => m | _ => Matches [] None end.
  Definition entry (toks : list bytes) (i : id) := option_map (fun e => (m_source e, m_raw e)) (fm_get i (ms_args (result toks))).
  (** -o 1 -t -a -z -o 2 -t -b -t -t :
      a, b, z, o (all given before the last -t) are gone; t counts the two occurrences after -b *)
  Definition lineG : list bytes :=
    [[45;111]; [49]; [45;116]; [45;97]; [45;122]; [45;111]; [50]; [45;116]; [45;98]; [45;116]; [45;116]].
  (** -o 1 -t -o 2 -b -o 3 -o 4 : o keeps the two occurrences after -b (its last overrider); t is gone *)
  Definition lineH : list bytes :=
    [[45;111]; [49]; [45;116]; [45;111]; [50]; [45;98]; [45;111]; [51]; [45;111]; [52]].
  Ltac vmr := vm_compute; reflexivity.
  Ltac in_args := vm_compute; repeat (try (left; reflexivity); right).
  Example classG : wide_class c1 bin lineG (occs lineG).
  Proof. unfold wide_class. split; [|split; [|split]]; vmr. Qed.
  Example okG : parse_top c1 (bin :: lineG) = OOk (result lineG).
  Proof. vmr. Qed.
  Example classH : wide_class c1 bin lineH (occs lineH).
  Proof. unfold wide_class. split; [|split; [|split]]; vmr. Qed.
  Example okH : parse_top c1 (bin :: lineH) = OOk (result lineH).
  Proof. vmr. Qed.
  Eval vm_compute in (entry lineG [116], entry lineG [97], entry lineG [98], entry lineG [122], entry lineG [111]).
  Eval vm_compute in (entry lineH [116], entry lineH [111]).
  Example count_t : entry lineG [116] = Some (Some SCmdLine, [[[50]]]).
  Proof.
    assert (Hin : In (argB [116]) (c_args cb)) by in_args.
    assert (CF : count_flag (argB [116])) by (unfold count_flag; split; [|split; [|split]]; vmr).
    destruct (wide_count_graph c1 bin lineG (occs lineG) (result lineG) (argB [116]) classG okG Hin CF) as [H _].
    destruct (H ltac:(vm_compute; lia)) as [e [Ge [Re Se]]].
    unfold entry. assert (E : a_id (argB [116]) = [116]) by vmr. rewrite E in Ge. rewrite Ge. cbn [option_map].
    rewrite Re, Se. vmr.
  Qed.
  Example append_o : entry lineH [111] = Some (Some SCmdLine, [[[51]]; [[52]]]).
  Proof.
    assert (Hin : In (argB [111]) (c_args cb)) by in_args.
    destruct (wide_append_graph c1 bin lineH (occs lineH) (result lineH) (argB [111]) classH okH Hin ltac:(vmr) ltac:(vmr)) as [H _].
    destruct (H ltac:(vm_compute; lia)) as [e [Ge [Re Se]]].
    unfold entry. assert (E : a_id (argB [111]) = [111]) by vmr. rewrite E in Ge. rewrite Ge. cbn [option_map].
    rewrite Re, Se. vmr.
  Qed.
  (** Set-like in the graph: on lineH, -b (SetTrue) is followed by -o 3 (related: b overrides o), so b holds only its default;
      on the line -b -o 1 -t -b the last -b is live *)
  Definition lineS : list bytes := [[45;98]; [45;111]; [49]; [45;116]; [45;98]].
  Example classS : wide_class c1 bin lineS (occs lineS).
  Proof. unfold wide_class. split; [|split; [|split]]; vmr. Qed.
  Example okS : parse_top c1 (bin :: lineS) = OOk (result lineS).
  Proof. vmr. Qed.
  Example set_b : entry lineS [98] = Some (Some SCmdLine, [[s_true]]) /\
    forall e, fm_get [98] (ms_args (result lineH)) = Some e -> m_source e = Some SEnv \/ m_source e = Some SDefault.
  Proof.
    assert (Hin : In (argB [98]) (c_args cb)) by in_args.
    assert (E : a_id (argB [98]) = [98]) by vmr.
    split.
    - pose proof (wide_set_graph c1 bin lineS (occs lineS) (result lineS) (argB [98]) classS okS Hin ltac:(vmr)) as H.
      cbv zeta in H. fold cb in H.
      assert (EL : last_own (a_id (argB [98])) (live cb (a_id (argB [98])) (occs lineS)) = Some (nth 3 (occs lineS) (tok_occ IShort (arg_new []) []))) by vmr.
      rewrite EL in H. destruct H as [e [Ge [Re Se]]].
      unfold entry. rewrite E in Ge. rewrite Ge. cbn [option_map]. rewrite Re, Se. vmr.
    - pose proof (wide_set_graph c1 bin lineH (occs lineH) (result lineH) (argB [98]) classH okH Hin ltac:(vmr)) as H.
      cbv zeta in H. fold cb in H.
      assert (EL : last_own (a_id (argB [98])) (live cb (a_id (argB [98])) (occs lineH)) = None) by vmr.
      rewrite EL in H. rewrite E in H. exact H.
  Qed.
  (** every one of the FOUR earlier arguments related to t is gone (only defaults are left) *)
  Example overriders_gone : forall i, In i [[97]; [98]; [122]; [111]] ->
    forall e, fm_get i (ms_args (result lineG)) = Some e -> m_source e = Some SEnv \/ m_source e = Some SDefault.
  Proof.
    intros i Hi.
    assert (G : forall j, In (argB j) (c_args cb) -> a_id (argB j) = j ->
                fold_left (step_abs cb j) (live cb j (occs lineG)) None = None ->
                forall e, fm_get j (ms_args (result lineG)) = Some e -> m_source e = Some SEnv \/ m_source e = Some SDefault).
    { intros j Hin Ej HF. pose proof (wide_override_graph c1 bin lineG (occs lineG) (result lineG) (argB j) classG okG Hin) as H.
      cbv zeta in H. fold cb in H. rewrite Ej in H. rewrite HF in H. exact H. }
    destruct Hi as [<-|[<-|[<-|[<-|[]]]]]; apply G; try vmr; in_args.
  Qed.
End GraphExamples.
