(** Property C07, part 5: tokens -> occurrences for the WIDE class.

    [ActionsTokens.occurrences] reads flags, clusters and options with exactly one value.  The scanner
    [woccurrences] below additionally reads
    - positional values: one occurrence per maximal run for a positional with a value range
      ([num_args(1..)], [num_args(2)], ...), one occurrence PER VALUE for an [Append] positional with
      [num_args(1)], the positional counter stepping as [Parser::parse] steps it;
    - the escape [--] (everything after it is a positional value, the trailing index is recorded);
    - options with ANY value range (optional values [num_args(0..=1)], [num_args(0..)], several
      values [num_args(1..)], [num_args(2)], value terminators): separate values are collected until the
      range is full, a flag-like token, a terminator or the end of the line closes the occurrence -
      a value-less occurrence is an occurrence with NO raw value (for [Append] without
      [default_missing_value]: an empty group).
    The scanner mirrors the control state of the token loop (parse state, positional counter,
    trailing flag, the content of the pending buffer) and nothing of the matcher.  On every line it
    accepts, the token loop followed by the flush of the pending buffer IS the fold of [react] over
    the scanned occurrences followed by the flush - errors and panic sites included. *)
From ClapModel Require Import Base.Bytes Base.Machine Base.Utf8 Lex.OsStrExtModel.
From ClapModel Require Import Parse.Cmd Parse.Build Parse.Valid Parse.Matcher Parse.Errors Parse.Validator Parse.Parser.
From ClapModel Require Import ParseProofs.Actions ParseProofs.ActionsLoop ParseProofs.ActionsTokens ParseProofs.ActionsTop.
From ClapModel Require ParseProofs.Spelling ParseProofs.SpellingLine.
From Coq Require Import ZArith.
From RecordUpdate Require Import RecordSet.
Import RecordSetNotations.
Open Scope N_scope.

(** * 1. The scanner *)

(** the pending buffer as the scanner sees it: spelling, argument, raw values so far, trailing index *)
Definition wpending := (ident * arg * list bytes * option N)%type.
Definition pend_occ (p : wpending) : occ := let '(idn, a, raw, ti) := p in mkOcc (Some idn) SCmdLine a raw ti.
Definition pend_of (p : wpending) : pending := let '(idn, a, raw, ti) := p in mkPending (a_id a) (Some idn) raw ti.
Definition flush (p : option wpending) : list occ := match p with Some x => [pend_occ x] | None => [] end.
Definition wtrail (p : option wpending) : option wpending :=
  match p with
  | Some (idn, a, raw, ti) => Some (idn, a, raw, match ti with Some t => Some t | None => Some (N.of_nat (length raw)) end)
  | None => None
  end.

(** an option in the class: it does not insist on [=] (any value range) *)
Definition wopt (a : arg) : bool := negb (a_req_eq a).

(** a short cluster: value-less flags, optionally ended by an option with the rest of the cluster attached
    as its single value (one leading [=] dropped) or, when nothing is left, waiting for separate values *)
Fixpoint wcluster (c : cmd) (fuel : nat) (r : bytes) : option contrib :=
  match fuel with
  | O => None
  | S f =>
    match sf_next r with
    | None => Some ([], None)
    | Some (inr _, _) => None
    | Some (inl ch, r') =>
        match get_short c ch with
        | None => None
        | Some a =>
            if a_takes_value a then
              if wopt a then
                match r' with
                | [] => Some ([], Some (IShort, a))
                | b :: t => Some ([tok_occ IShort a [if b =? 61 then t else b :: t]], None)
                end
              else None
            else match wcluster c f r' with
                 | Some (os, p) => Some (tok_occ IShort a [] :: os, p)
                 | None => None
                 end
        end
    end
  end.

(** a flag-like token (not [--]) *)
Definition wclassify (c : cmd) (tok : bytes) : option contrib :=
  match to_long tok with
  | Some (f, ok, v) =>
      if negb ok then None else
      match get_long c f with
      | None => None
      | Some a =>
          if a_takes_value a then
            if wopt a then
              match v with
              | Some x => Some ([tok_occ ILong a [x]], None)
              | None => Some ([], Some (ILong, a))
              end
            else None
          else match v with
               | None => Some ([tok_occ ILong a []], None)
               | Some _ => None
               end
      end
  | None =>
      match to_short tok with
      | Some r => wcluster c (S (length r)) r
      | None => None
      end
  end.

(** the control state of the token loop *)
Record wstate := mkW { w_pst : pstate_t; w_pos : N; w_trailing : bool; w_pend : option wpending }.

(** [self.cmd[id]] of the parse state succeeds and that argument does not take hyphen values *)
Definition pst_ok (c : cmd) (pst : pstate_t) : bool :=
  match pst with
  | PSValuesDone => true
  | PSOpt i | PSPos i => match find_arg c i with Some a => negb (a_hyphen a) | None => false end
  end.

(** the positional counter is not corrected: no [allow_missing_positional], no [last] argument, only
    the highest positional index may take several values / be [Append] *)
Definition pos_simple (c : cmd) : bool :=
  negb (is_set s_allow_missing_pos c) && negb (existsb a_last (c_args c))
  && negb (existsb (fun a => a_is_multiple a && negb (positional_count c =? opt_default 0 (a_index a))) (positionals c)).

(** the subcommand test of the loop says no (it is only made between occurrences, or always under
    [subcommand_precedence_over_arg]) *)
Definition sub_free (c : cmd) (pst : pstate_t) (tok : bytes) : bool :=
  (negb (is_set s_sub_precedence c) && negb (match pst with PSValuesDone => true | _ => false end)) || nosub c tok.

(** a positional value *)
Definition wpos_step (c : cmd) (w : wstate) (tok : bytes) : option (list occ * wstate) :=
  if negb (pos_simple c) then None else
  match get_pos c (w_pos w) with
  | None => None
  | Some a =>
     if negb (a_takes_value a) then None else
     let trailing := w_trailing w || a_tva a in
     (* the pending occurrence is closed unless it belongs to this positional and the positional
        takes several values per occurrence *)
     let flushed : option (list occ * option wpending) :=
       match w_pend w with
       | Some (idn, b, raw, ti) =>
           if beq (a_id b) (a_id a) && a_multiple_values a
           then match idn with IIndex => Some ([], w_pend w) | _ => None end
           else Some (flush (w_pend w), None)
       | None => Some ([], None)
       end in
     match flushed with
     | None => None
     | Some (os, pend) =>
       if check_terminator a tok then Some (os, mkW PSValuesDone (w_pos w + 1) trailing pend)
       else
         let pend' := match pend with
            | Some (idn, b, raw, ti) =>
                Some (idn, b, raw ++ [tok],
                      if trailing then match ti with Some t => Some t | None => Some (N.of_nat (length raw)) end else ti)
            | None => Some (IIndex, a, [tok], if trailing then Some 0 else None)
            end in
         if negb (a_is_multiple a) then Some (os, mkW PSValuesDone (w_pos w + 1) trailing pend')
         else Some (os, mkW (PSPos (a_id a)) (w_pos w) trailing pend')
     end
  end.

(** one token *)
Definition wstep (c : cmd) (w : wstate) (tok : bytes) : option (list occ * wstate) :=
  if w_trailing w then wpos_step c w tok else
  if negb (sub_free c (w_pst w) tok) then None else
  if is_escape tok then
    if pst_ok c (w_pst w) then Some ([], mkW (w_pst w) (w_pos w) true (wtrail (w_pend w))) else None
  else if is_some (to_long tok) || is_some (to_short tok) then
    if pst_ok c (w_pst w) then
      match wclassify c tok with
      | Some (os1, p) =>
          Some (flush (w_pend w) ++ os1,
                mkW (pst_of p) (w_pos w) false
                    (match p with Some (idn, a) => Some (idn, a, [], None) | None => None end))
      | None => None
      end
    else None
  else match w_pst w with
       | PSOpt i =>
           match w_pend w with
           | Some (idn, a, raw, ti) =>
               if negb (beq (a_id a) i) then None else
               match a_num a with
               | Some r =>
                   Some ([], if check_terminator a tok then mkW PSValuesDone (w_pos w) false (w_pend w)
                             else mkW (if r_accepts_more r (N.of_nat (length (raw ++ [tok]))) then PSOpt i else PSValuesDone)
                                      (w_pos w) false (Some (idn, a, raw ++ [tok], ti)))
               | None => None
               end
           | None => None
           end
       | _ => wpos_step c w tok
       end.

Fixpoint wscan (c : cmd) (w : wstate) (toks : list bytes) : option (list occ) :=
  match toks with
  | [] => Some (flush (w_pend w))
  | tok :: rest =>
      match wstep c w tok with
      | Some (os1, w') => match wscan c w' rest with
                          | Some os2 => Some (os1 ++ os2)
                          | None => None
                          end
      | None => None
      end
  end.

Definition w_init : wstate := mkW PSValuesDone 1 false None.
Definition woccurrences (c : cmd) (toks : list bytes) : option (list occ) := wscan c w_init toks.

(** * Examples first: a built command with positionals and multi-valued options, concrete lines, computed *)
Module WideExamples.
  Definition mk (i : id) := arg_new i.
  (** prog -v (Count) -q/--quiet (SetTrue) -o/--opt [<v>...] (Append, num_args 0.., no default-missing)
      -m/--many <v> <v>... (Append, num_args 1.., terminator ";") -s/--set [<v>] (Set, num_args 0..=1, default-missing "d",
      overrides itself) <src> (Set positional) <rest>... (Append positional, num_args 1) *)
  Definition c0 : cmd := (cmd_new [112]) <| c_args := [
     (mk [118]) <| a_short := Some 118 |> <| a_action := Some ACount |>;
     (mk [113]) <| a_short := Some 113 |> <| a_long := Some [113; 117; 105; 101; 116] |> <| a_action := Some ASetTrue |>;
     (mk [111]) <| a_short := Some 111 |> <| a_long := Some [111; 112; 116] |> <| a_action := Some AAppend |>
                <| a_num := Some r_full |>;
     (mk [109]) <| a_short := Some 109 |> <| a_long := Some [109; 97; 110; 121] |> <| a_action := Some AAppend |>
                <| a_num := Some {| vmin := 1; vmax := usize_max |} |> <| a_term := Some [59] |>;
     (mk [115]) <| a_short := Some 115 |> <| a_long := Some [115; 101; 116] |> <| a_action := Some ASet |>
                <| a_num := Some {| vmin := 0; vmax := 1 |} |> <| a_default_missing := [[100]] |> <| a_overrides := [[115]] |>;
     (mk [83]) <| a_action := Some ASet |>;
     (mk [82]) <| a_action := Some AAppend |> <| a_num := Some r_single |> ] |>.
  Definition c := build_self c0.
  Definition loop_flush (toks : list bytes) (st : ps) : res ps :=
    match parse_loop c toks (mkL PSValuesDone 1 false false) st with
    | ROk (LDone s) => resolve_pending c s
    | ROk _ => RPanic 999
    | RErr e s => RErr e s
    | RPanic x => RPanic x
    end.
  Definition show (toks : list bytes) := option_map (map (fun o => (o_ident o, a_id (o_arg o), o_raw o, o_ti o))) (woccurrences c toks).
  Definition agree (toks : list bytes) : Prop :=
    match woccurrences c toks with Some os => loop_flush toks ps_new = fold_flush c os ps_new | None => False end.
  (** --opt -o --opt a b -v x --many 1 2 ; y z -s -q -sK w -- -v --opt *)
  Definition line1 : list bytes :=
    [[45;45;111;112;116]; [45;111]; [45;45;111;112;116]; [97]; [98]; [45;118]; [120]; [45;45;109;97;110;121]; [49]; [50]; [59];
     [121]; [122]; [45;115]; [45;113]; [45;115;75]; [119]; [45;45]; [45;118]; [45;45;111;112;116]].
  (** x --many ; -s v -s : the terminator right after the option (too few values), error line *)
  Definition line2 : list bytes := [[120]; [45;45;109;97;110;121]; [59]; [45;115]; [118]; [45;115]].
  (** --opt a -- b c : the trailing index of the option's occurrence is recorded *)
  Definition line3 : list bytes := [[45;45;111;112;116]; [97]; [45;45]; [98]; [99]].
  Eval vm_compute in show line1.
  Eval vm_compute in show line2.
  Eval vm_compute in show line3.
  Example candidate1 : agree line1. Proof. vm_compute. reflexivity. Qed.
  Example candidate2 : agree line2. Proof. vm_compute. reflexivity. Qed.
  Example candidate3 : agree line3. Proof. vm_compute. reflexivity. Qed.
  Eval vm_compute in match fold_flush c (opt_default [] (woccurrences c line1)) ps_new with
    | ROk s => Some (map (fun p => (fst p, m_raw (snd p))) (mt_args (mt s))) | RErr e s => None | RPanic _ => None end.
  Eval vm_compute in match fold_flush c (opt_default [] (woccurrences c line2)) ps_new with
    | RErr e s => Some (e_kind e, e_arg e) | _ => None end.
End WideExamples.

(** * 2. Flag-like tokens: the effect of one token, in any parse state *)
Lemma wopt_req_eq a : wopt a = true -> a_req_eq a = false.
Proof. unfold wopt. destruct (a_req_eq a); [discriminate|reflexivity]. Qed.

Lemma pst_ok_state_arg c pst : pst_ok c pst = true ->
  exists sa, state_arg c pst = ROk sa /\
    match sa with Some a => a_hyphen a = false | None => True end.
Proof.
  destruct pst as [|i|i]; cbn [pst_ok state_arg]; intros H.
  - exists None. auto.
  - destruct (find_arg c i) as [a|]; [|discriminate]. exists (Some a). split; [reflexivity|].
    destruct (a_hyphen a); [discriminate|reflexivity].
  - destruct (find_arg c i) as [a|]; [|discriminate]. exists (Some a). split; [reflexivity|].
    destruct (a_hyphen a); [discriminate|reflexivity].
Qed.

Lemma find_arg_in c i a : find_arg c i = Some a -> In a (c_args c).
Proof. unfold find_arg. intros H. apply find_some in H. tauto. Qed.

Lemma parse_long_arg_pst c f ok v pst pos vaf st : pst_ok c pst = true ->
  parse_long_arg c f ok v pst pos vaf st = parse_long_arg c f ok v PSValuesDone pos vaf st.
Proof.
  intros H. destruct (pst_ok_state_arg c pst H) as [sa [E Hh]].
  unfold parse_long_arg. rewrite E. cbn [state_arg rbind].
  destruct sa as [a|]; [rewrite Hh|]; reflexivity.
Qed.

Lemma parse_short_arg_pst c r pst pos vaf st : no_hyphen_args c = true -> pst_ok c pst = true ->
  parse_short_arg c r pst pos vaf st = parse_short_arg c r PSValuesDone pos vaf st.
Proof.
  intros NH H. unfold parse_short_arg.
  destruct pst as [|i|i]; cbn [pst_ok state_arg] in *; try reflexivity.
  - destruct (find_arg c i) as [a|] eqn:FA; [|discriminate]. cbn [expect rbind].
    destruct (no_hyphen_in c a NH (find_arg_in c i a FA)) as [E1 E2]. rewrite E1, E2. reflexivity.
  - destruct (find_arg c i) as [a|] eqn:FA; [|discriminate]. cbn [expect rbind].
    destruct (no_hyphen_in c a NH (find_arg_in c i a FA)) as [E1 E2]. rewrite E1, E2. reflexivity.
Qed.

(** what [parse_long_arg] does on a long token of the class *)
Lemma wlong_effect c tok f v k pos vaf st :
  to_long tok = Some (f, true, v) ->
  match get_long c f with
  | None => None
  | Some a =>
      if a_takes_value a then
        if wopt a then
          match v with
          | Some x => Some ([tok_occ ILong a [x]], None)
          | None => Some ([], Some (ILong, a))
          end
        else None
      else match v with
           | None => Some ([tok_occ ILong a []], None)
           | Some _ => None
           end
  end = Some k ->
  parse_long_arg c f true v PSValuesDone pos vaf st = (do s <- tok_effect c k st; ROk (s, pr_of (snd k), true)).
Proof.
  intros TL HK. destruct (get_long c f) as [a|] eqn:GL; [|discriminate].
  assert (Hn : (is_nil f && negb (is_some v)) = false).
  { destruct v as [x|]; [apply andb_false_r|]. apply to_long_flag_nonempty in TL. destruct f; [congruence|reflexivity]. }
  rewrite (parse_long_arg_found c f v pos vaf st a GL Hn).
  destruct (a_takes_value a).
  - destruct (wopt a) eqn:SO; [|discriminate]. pose proof (wopt_req_eq a SO) as RE.
    destruct v as [x|]; inversion HK; subst k; clear HK; cbn [snd pr_of is_some].
    + rewrite (Spelling.parse_opt_value_attached c ILong x a true st RE). rewrite tok_effect_single.
      cbn [tok_occ o_ident o_src o_arg o_raw o_ti].
      destruct (react c (Some ILong) SCmdLine a [x] None st) as [y|e s|n]; reflexivity.
    + rewrite (parse_opt_value_none c ILong a st RE). rewrite tok_effect_open.
      destruct (open_pending c (Some (ILong, a)) st) as [y|e s|n]; reflexivity.
  - destruct v as [x|]; [discriminate|]. inversion HK; subst k; clear HK; cbn [snd pr_of].
    rewrite tok_effect_single. cbn [tok_occ o_ident o_src o_arg o_raw o_ti].
    destruct (react c (Some ILong) SCmdLine a [] None st) as [[s1 pr]|e s|n] eqn:Er; cbn [rbind fst snd]; try reflexivity.
    rewrite (react_ok_pr _ _ _ _ _ _ _ _ _ Er). reflexivity.
Qed.

Lemma wcluster_nil c fuel k : wcluster c fuel [] = Some k -> k = ([], None).
Proof. destruct fuel as [|f]; cbn [wcluster sf_next]; [discriminate|]. intros H; inversion H; reflexivity. Qed.

Lemma short_loop_wscan c : forall fuel r k, wcluster c fuel r = Some k ->
  forall fuel' ret vaf st, (length r < fuel')%nat ->
  short_loop c fuel' r ret vaf st =
  (do s <- tok_effect c k st;
   ROk (s, (if is_nil r then ret else pr_of (snd k)), (if is_nil r then vaf else true))).
Proof.
  induction fuel as [|f IH]; intros r k HK fuel' ret vaf st HF; [discriminate|].
  destruct fuel' as [|f']; [lia|].
  cbn [wcluster] in HK.
  destruct (sf_next r) as [[[ch|bad] r']|] eqn:N.
  - assert (NE : is_nil r = false).
    { destruct r; [discriminate N|reflexivity]. }
    rewrite NE.
    destruct (get_short c ch) as [a|] eqn:GS; [|discriminate].
    destruct (a_takes_value a) eqn:TV.
    + destruct (wopt a) eqn:SO; [|discriminate]. pose proof (wopt_req_eq a SO) as RE.
      destruct r' as [|b t].
      * inversion HK; subst k; clear HK. cbn [snd pr_of].
        rewrite (Spelling.short_loop_opt_alone c f' r ch a ret vaf st N GS TV).
        rewrite (parse_opt_value_none c IShort a st RE). rewrite tok_effect_open.
        destruct (open_pending c (Some (IShort, a)) st) as [y|e s|n]; reflexivity.
      * inversion HK; subst k; clear HK. cbn [snd pr_of].
        rewrite tok_effect_single. cbn [tok_occ o_ident o_src o_arg o_raw o_ti].
        cbn [short_loop]. rewrite N, GS, TV. cbn [negb]. rewrite Spelling.strip_eq_match.
        destruct (b =? 61); cbv beta iota zeta;
          rewrite (Spelling.parse_opt_value_attached c IShort _ a _ st RE); unfold bytes in *;
          match goal with |- context [react ?a1 ?a2 ?a3 ?a4 ?a5 ?a6 ?a7] =>
            destruct (react a1 a2 a3 a4 a5 a6 a7) as [x|e s|n] end; reflexivity.
    + destruct (wcluster c f r') as [[os p]|] eqn:SC; [|discriminate].
      inversion HK; subst k; clear HK. cbn [snd].
      rewrite tok_effect_cons. cbn [tok_occ o_ident o_src o_arg o_raw o_ti].
      rewrite (Spelling.short_loop_flag_step c f' r ch r' a ret vaf st N GS TV).
      destruct (react c (Some IShort) SCmdLine a [] None st) as [[s1 pr]|e s|n] eqn:Er; cbn [rbind fst snd]; try reflexivity.
      pose proof (Spelling.sf_next_shrinks' r (inl ch) r' N) as SH.
      rewrite (IH r' (os, p) SC f' pr true s1) by lia. cbn [snd].
      rewrite (react_ok_pr _ _ _ _ _ _ _ _ _ Er).
      destruct r' as [|b t]; cbn [is_nil].
      * apply wcluster_nil in SC. inversion SC; subst. reflexivity.
      * reflexivity.
  - discriminate.
  - inversion HK; subst k; clear HK. apply sf_next_nil_iff in N. subst r. reflexivity.
Qed.

Lemma wshort_effect c r k pos vaf st :
  no_hyphen_args c = true -> fs_skip st = 0 -> r <> [] ->
  wcluster c (S (length r)) r = Some k ->
  parse_short_arg c r PSValuesDone pos vaf st = (do s <- tok_effect c k st; ROk (s, pr_of (snd k), true)).
Proof.
  intros NH SK NE SC. unfold parse_short_arg. cbn [state_arg rbind]. cbv iota.
  assert (H1 : match get_pos c pos with Some a => a_negnum a | None => false end = false).
  { destruct (get_pos c pos) as [a|] eqn:GP; [|reflexivity]. apply (no_hyphen_in c a NH (get_pos_in c pos a GP)). }
  assert (H2 : match get_pos c pos with Some a => a_hyphen a && negb (a_last a) | None => false end = false).
  { destruct (get_pos c pos) as [a|] eqn:GP; [|reflexivity].
    destruct (no_hyphen_in c a NH (get_pos_in c pos a GP)) as [E _]. rewrite E. reflexivity. }
  rewrite H1, H2. cbn [andb]. rewrite SK, N.min_0_l. cbn [N.to_nat sf_advance_by expect rbind].
  rewrite (ps_skip_id st SK).
  rewrite (short_loop_wscan c _ r k SC (S (length r)) PRNoArg vaf st) by lia.
  destruct r; [congruence|]. reflexivity.
Qed.

(** a flag-like token always contributes an occurrence or opens an option *)
Lemma wcluster_progress c : forall fuel r p, r <> [] -> wcluster c fuel r = Some ([], p) -> p <> None.
Proof.
  intros fuel r p NE H. destruct fuel as [|f]; [discriminate|]. cbn [wcluster] in H.
  destruct (sf_next r) as [[[ch|bad] r']|] eqn:N; try discriminate.
  - destruct (get_short c ch) as [a|]; [|discriminate].
    destruct (a_takes_value a).
    + destruct (wopt a); [|discriminate]. destruct r'; inversion H; subst. discriminate.
    + destruct (wcluster c f r') as [[os q]|]; discriminate.
  - apply sf_next_nil_iff in N. contradiction.
Qed.

Lemma wclassify_progress c tok p : wclassify c tok = Some ([], p) -> p <> None.
Proof.
  unfold wclassify. destruct (to_long tok) as [[[f ok] v]|].
  - destruct (negb ok); [discriminate|]. destruct (get_long c f) as [a|]; [|discriminate].
    destruct (a_takes_value a).
    + destruct (wopt a); [|discriminate]. destruct v; intros H; inversion H; subst. discriminate.
    + destruct v; discriminate.
  - destruct (to_short tok) as [r|] eqn:TS; [|discriminate].
    apply wcluster_progress. exact (to_short_nonempty tok r TS).
Qed.

Lemma wcluster_pend c : forall fuel r os idn a, wcluster c fuel r = Some (os, Some (idn, a)) -> In a (c_args c).
Proof.
  induction fuel as [|f IH]; intros r os idn a H; [discriminate|]. cbn [wcluster] in H.
  destruct (sf_next r) as [[[ch|bad] r']|]; try discriminate.
  destruct (get_short c ch) as [b|] eqn:GS; [|discriminate].
  destruct (a_takes_value b).
  - destruct (wopt b) eqn:SO; [|discriminate]. destruct r' as [|x t]; [|discriminate].
    inversion H; subst. exact (get_short_in c ch a GS).
  - destruct (wcluster c f r') as [[os' p]|] eqn:SC; [|discriminate]. inversion H; subst.
    exact (IH r' os' idn a SC).
Qed.

Lemma wclassify_pend c tok os idn a : wclassify c tok = Some (os, Some (idn, a)) -> In a (c_args c).
Proof.
  unfold wclassify. destruct (to_long tok) as [[[f ok] v]|].
  - destruct (negb ok); [discriminate|]. destruct (get_long c f) as [b|] eqn:GL; [|discriminate].
    destruct (a_takes_value b).
    + destruct (wopt b) eqn:SO; [|discriminate]. destruct v; [discriminate|].
      intros H; inversion H; subst. exact (get_long_in c f a GL).
    + destruct v; discriminate.
  - destruct (to_short tok) as [r|]; [|discriminate]. apply wcluster_pend.
Qed.

(** * 3. One iteration of the token loop, by kind of token (pieces named in SpellingLine.v) *)
Section Iter.
Variable c : cmd.
Variable rest : list bytes.
Notation rec := (parse_loop c rest).

Lemma phase1_free tok pst pos vaf st : sub_free c pst tok = true ->
  SpellingLine.phase1 c rec rest tok (mkL pst pos vaf false) st =
  SpellingLine.classify c rec rest tok (mkL pst pos vaf false) st.
Proof.
  intros H. unfold SpellingLine.phase1. cbn [l_trailing l_pst l_vaf]. unfold sub_free in H.
  apply orb_prop in H. destruct H as [H|H].
  - apply andb_prop in H. destruct H as [H1 H2]. apply negb_true_iff in H1. rewrite H1. cbn [orb].
    destruct pst; [discriminate H2|reflexivity|reflexivity].
  - rewrite (possible_subcommand_vaf c tok vaf H).
    destruct (is_set s_sub_precedence c || match pst with PSValuesDone => true | _ => false end); reflexivity.
Qed.

(** a token answered by [parse_long_arg] / [parse_short_arg] with [ValuesDone] or [Opt] *)
Lemma iter_flaglike tok pst pos vaf st (r : res ps) (p : option (ident * arg)) :
  sub_free c pst tok = true -> is_escape tok = false ->
  match to_long tok with
  | Some (f, ok, v) => parse_long_arg c f ok v pst pos vaf st = (do s <- r; ROk (s, pr_of p, true))
  | None => match to_short tok with
            | Some r0 => parse_short_arg c r0 pst pos vaf st = (do s <- r; ROk (s, pr_of p, true))
            | None => False
            end
  end ->
  parse_loop c (tok :: rest) (mkL pst pos vaf false) st =
  (do s <- r; parse_loop c rest (mkL (pst_of p) pos true false) s).
Proof.
  intros SF ES H. rewrite SpellingLine.parse_loop_cons. unfold SpellingLine.iteration.
  rewrite (phase1_free tok pst pos vaf st SF). unfold SpellingLine.classify. rewrite ES.
  cbn [l_pst l_pos l_vaf].
  destruct (to_long tok) as [[[f ok] v]|].
  - rewrite H. destruct r as [s|e s|n]; cbn [rbind fst snd SpellingLine.finish_iter]; try reflexivity.
    destruct p as [[idn a]|]; reflexivity.
  - destruct (to_short tok) as [r0|]; [|contradiction].
    rewrite H. destruct r as [s|e s|n]; cbn [rbind fst snd SpellingLine.finish_iter]; try reflexivity.
    destruct p as [[idn a]|]; reflexivity.
Qed.

(** a token that is not lexed as [--], a long or a short flag goes to the second phase *)
Lemma iter_plain tok pst pos vaf st :
  sub_free c pst tok = true -> is_escape tok = false -> to_long tok = None -> to_short tok = None ->
  parse_loop c (tok :: rest) (mkL pst pos vaf false) st =
  SpellingLine.phase2 c rec rest tok (mkL pst pos vaf false) st.
Proof.
  intros SF ES TL TS. rewrite SpellingLine.parse_loop_cons. unfold SpellingLine.iteration.
  rewrite (phase1_free tok pst pos vaf st SF). unfold SpellingLine.classify. rewrite ES, TL, TS. reflexivity.
Qed.

(** after [--] every token goes to the second phase *)
Lemma iter_trailing tok pst pos vaf st :
  parse_loop c (tok :: rest) (mkL pst pos vaf true) st =
  SpellingLine.phase2 c rec rest tok (mkL pst pos vaf true) st.
Proof. reflexivity. Qed.

(** the escape itself *)
Lemma iter_escape tok pst pos vaf st :
  sub_free c pst tok = true -> is_escape tok = true -> pst_ok c pst = true ->
  parse_loop c (tok :: rest) (mkL pst pos vaf false) st =
  parse_loop c rest (mkL pst pos vaf true) (st <| mt := start_trailing (mt st) |>).
Proof.
  intros SF ES PK. rewrite SpellingLine.parse_loop_cons. unfold SpellingLine.iteration.
  rewrite (phase1_free tok pst pos vaf st SF). unfold SpellingLine.classify. rewrite ES.
  cbn [l_pst l_pos l_vaf]. destruct (pst_ok_state_arg c pst PK) as [sa [E Hh]]. rewrite E. cbn [rbind].
  destruct sa as [a|]; [rewrite Hh|]; reflexivity.
Qed.
End Iter.

(** * 4. The simulation: scanner state vs. loop state *)
Definition ls_of (w : wstate) (vaf : bool) : lstate := mkL (w_pst w) (w_pos w) vaf (w_trailing w).
Definition pend_ready (c : cmd) (p : option wpending) (st : ps) : Prop :=
  mt_pending (mt st) = option_map pend_of p /\
  match p with Some (_, a, _, _) => find_arg c (a_id a) = Some a | None => True end.
Definition wrel (c : cmd) (w : wstate) (st : ps) : Prop := fs_skip st = 0 /\ pend_ready c (w_pend w) st.

Lemma fold_flush_flushed c p os st : pend_ready c p st ->
  fold_flush c (flush p ++ os) (clear_pending st) = fold_flush c os st.
Proof.
  intros [HP FA]. destruct p as [[[[idn a] raw] ti]|]; cbn [flush app option_map pend_of pend_occ] in *.
  - symmetry. exact (fold_flush_pending c idn a raw ti os st HP FA).
  - rewrite (clear_pending_id st HP). reflexivity.
Qed.

Lemma clear_set_pending st p : clear_pending (st <| mt := (mt st) <| mt_pending := p |> |>) = clear_pending st.
Proof. destruct st as [m ci fa fk]. destruct m as [ar pe su]. reflexivity. Qed.

Lemma set_pending_get st p : mt_pending (mt (st <| mt := (mt st) <| mt_pending := p |> |>)) = p.
Proof. destruct st as [m ci fa fk]. destruct m as [ar pe su]. reflexivity. Qed.

Lemma set_pending_fs st p : fs_skip (st <| mt := (mt st) <| mt_pending := p |> |>) = fs_skip st.
Proof. destruct st as [m ci fa fk]. reflexivity. Qed.

Lemma pvp_fresh m i idn tr v : mt_pending m = None ->
  pending_values_push m i (Some idn) tr (Some v) =
  Some (m <| mt_pending := Some (mkPending i (Some idn) [v] (if tr then Some 0 else None)) |>).
Proof.
  intros H. unfold pending_values_push. rewrite H. cbn [p_id p_ident p_raw p_trailing_idx is_some].
  rewrite beq_refl, Spelling.ident_eqb_refl. cbn [negb andb app length N.of_nat]. reflexivity.
Qed.

Lemma pvp_same m i idn raw ti tr v : mt_pending m = Some (mkPending i (Some idn) raw ti) ->
  pending_values_push m i (Some idn) tr (Some v) =
  Some (m <| mt_pending := Some (mkPending i (Some idn) (raw ++ [v])
            (if tr then match ti with Some t => Some t | None => Some (N.of_nat (length raw)) end else ti)) |>).
Proof.
  intros H. unfold pending_values_push. rewrite H. cbn [p_id p_ident p_raw p_trailing_idx is_some].
  rewrite beq_refl, Spelling.ident_eqb_refl. cbn [negb andb]. reflexivity.
Qed.

Lemma pvp_val m i idn raw ti v : mt_pending m = Some (mkPending i idn raw ti) ->
  pending_values_push m i None false (Some v) = Some (m <| mt_pending := Some (mkPending i idn (raw ++ [v]) ti) |>).
Proof.
  intros H. unfold pending_values_push. rewrite H. cbn [p_id p_ident p_raw p_trailing_idx is_some].
  rewrite beq_refl. cbn [negb andb]. reflexivity.
Qed.

(** ** positional values *)
Lemma pos_counter_simple c rest ls : pos_simple c = true -> SpellingLine.pos_counter c rest ls = ROk (l_pos ls).
Proof.
  unfold pos_simple. intros H. apply andb_prop in H. destruct H as [H H3]. apply andb_prop in H. destruct H as [H1 H2].
  apply negb_true_iff in H1. apply negb_true_iff in H2. apply negb_true_iff in H3.
  unfold SpellingLine.pos_counter. cbv zeta. rewrite H1, H2, H3. cbn [andb orb]. rewrite !andb_false_r. reflexivity.
Qed.

Lemma pos_simple_last c a : pos_simple c = true -> In a (c_args c) -> a_last a = false.
Proof.
  unfold pos_simple. intros H Hin. apply andb_prop in H. destruct H as [H _]. apply andb_prop in H. destruct H as [_ H2].
  apply negb_true_iff in H2. destruct (a_last a) eqn:E; [|reflexivity].
  assert (X : existsb a_last (c_args c) = true) by (apply existsb_exists; exists a; auto). congruence.
Qed.

Lemma positional_simple c rest tok ls st a : pos_simple c = true -> get_pos c (l_pos ls) = Some a ->
  SpellingLine.positional c (parse_loop c rest) rest tok ls st =
  (let trailing := l_trailing ls || a_tva a in
   do st1 <- (if negb (match pending_arg_id (mt st) with Some i => beq i (a_id a) | None => false end)
                 || negb (a_multiple_values a)
              then resolve_pending c st else ROk st);
   if check_terminator a tok then
     parse_loop c rest (mkL PSValuesDone (l_pos ls + 1) true trailing) st1
   else
     do m1 <- expect 415 (pending_values_push (mt st1) (a_id a) (Some IIndex) trailing (Some tok));
     if negb (a_is_multiple a)
     then parse_loop c rest (mkL PSValuesDone (l_pos ls + 1) true trailing) (st1 <| mt := m1 |>)
     else parse_loop c rest (mkL (PSPos (a_id a)) (l_pos ls) true trailing) (st1 <| mt := m1 |>)).
Proof.
  intros PS GP. unfold SpellingLine.positional. rewrite (pos_counter_simple c rest ls PS). cbn [rbind].
  rewrite GP. rewrite (pos_simple_last c a PS (get_pos_in c _ a GP)). reflexivity.
Qed.

Definition step_ok (c : cmd) (rest : list bytes) (w w' : wstate) (os1 : list occ) (st : ps) (lhs : res loop_res) : Prop :=
  exists (rs : res ps) vaf',
    lhs = (do s <- rs; parse_loop c rest (ls_of w' vaf') s) /\
    (forall s, rs = ROk s -> wrel c w' s) /\
    (forall os2, fold_flush c (os1 ++ os2) (clear_pending st) = (do s <- rs; fold_flush c os2 (clear_pending s))).

Lemma wpos_sim c rest tok w w' os1 vaf st :
  ids_ok c -> wpos_step c w tok = Some (os1, w') -> wrel c w st ->
  step_ok c rest w w' os1 st (SpellingLine.positional c (parse_loop c rest) rest tok (ls_of w vaf) st).
Proof.
  intros IDS HS [SK [HP FA]]. unfold wpos_step in HS.
  destruct (pos_simple c) eqn:PS; cbn [negb] in HS; [|discriminate].
  destruct (get_pos c (w_pos w)) as [a|] eqn:GP; [|discriminate].
  destruct (a_takes_value a); cbn [negb] in HS; [|discriminate].
  pose proof (IDS a (get_pos_in c _ a GP)) as FAa.
  rewrite (positional_simple c rest tok (ls_of w vaf) st a PS GP). cbv zeta. cbn [ls_of l_trailing l_pos].
  set (trailing := w_trailing w || a_tva a) in *.
  unfold pending_arg_id. rewrite HP.
  destruct (w_pend w) as [[[[idn b] raw] ti]|] eqn:EP; cbn [option_map pend_of opt_map p_id] in *.
  - destruct (beq (a_id b) (a_id a) && a_multiple_values a) eqn:KEEP.
    + (* the run continues *)
      apply andb_prop in KEEP. destruct KEEP as [K1 K2]. rewrite K1, K2. cbn [negb orb rbind].
      destruct idn; try discriminate. apply beq_eq in K1.
      destruct (check_terminator a tok).
      * inversion HS; subst os1 w'; clear HS. exists (ROk st), true. split; [reflexivity|]. split.
        -- intros s E; inversion E; subst s. split; [exact SK|]. cbn [w_pend]. split; [exact HP|exact FA].
        -- intros os2. reflexivity.
      * rewrite <- K1. rewrite (pvp_same (mt st) (a_id b) IIndex raw ti trailing tok HP). cbn [expect rbind].
        set (ti' := if trailing then match ti with Some t => Some t | None => Some (N.of_nat (length raw)) end else ti) in *.
        set (s' := st <| mt := (mt st) <| mt_pending := Some (mkPending (a_id b) (Some IIndex) (raw ++ [tok]) ti') |> |>).
        assert (R : wrel c (mkW (if negb (a_is_multiple a) then PSValuesDone else PSPos (a_id b))
                               (if negb (a_is_multiple a) then w_pos w + 1 else w_pos w) trailing
                               (Some (IIndex, b, raw ++ [tok], ti'))) s').
        { split; [unfold s'; rewrite set_pending_fs; exact SK|]. cbn [w_pend]. split; [|exact FA].
          unfold s'. rewrite set_pending_get. reflexivity. }
        destruct (negb (a_is_multiple a)); inversion HS; subst os1 w'; clear HS; rewrite <- ?K1.
        -- exists (ROk s'), true. split; [reflexivity|]. split; [intros s E; inversion E; subst s; exact R|].
           intros os2. cbn [rbind app]. unfold s'. rewrite clear_set_pending. reflexivity.
        -- exists (ROk s'), true. split; [reflexivity|]. split; [intros s E; inversion E; subst s; exact R|].
           intros os2. cbn [rbind app]. unfold s'. rewrite clear_set_pending. reflexivity.
    + (* the pending occurrence is closed *)
      assert (CO : negb (beq (a_id b) (a_id a)) || negb (a_multiple_values a) = true).
      { destruct (beq (a_id b) (a_id a)); [|reflexivity]. cbn [andb] in KEEP. rewrite KEEP. reflexivity. }
      rewrite CO.
      assert (PR : pend_ready c (Some (idn, b, raw, ti)) st) by (split; assumption).
      destruct (check_terminator a tok).
      * inversion HS; subst os1 w'; clear HS. exists (resolve_pending c st), true. split; [reflexivity|]. split.
        -- intros s E. split; [rewrite (resolve_pending_fs c st s E); exact SK|]. cbn [w_pend]. split; [|exact I].
           exact (Spelling.resolve_pending_clears c st s E).
        -- intros os2. etransitivity; [exact (fold_flush_flushed c (Some (idn, b, raw, ti)) os2 st PR)|].
           rewrite fold_flush_resolve.
           destruct (resolve_pending c st) as [s1|e s|n] eqn:RP; cbn [rbind]; try reflexivity.
           rewrite (clear_pending_id s1 (Spelling.resolve_pending_clears c st s1 RP)). reflexivity.
      * set (p' := Some (mkPending (a_id a) (Some IIndex) [tok] (if trailing then Some 0 else None))).
        exists (do s1 <- resolve_pending c st; ROk (s1 <| mt := (mt s1) <| mt_pending := p' |> |>)), true.
        split; [|split].
        -- destruct (resolve_pending c st) as [s1|e s|n] eqn:RP; cbn [rbind]; try reflexivity.
           rewrite (pvp_fresh (mt s1) (a_id a) IIndex trailing tok (Spelling.resolve_pending_clears c st s1 RP)).
           cbn [expect rbind]. fold p'.
           destruct (negb (a_is_multiple a)); inversion HS; subst os1 w'; reflexivity.
        -- intros s E. destruct (resolve_pending c st) as [s1|e0 s0|n] eqn:RP; cbn [rbind] in E; try discriminate.
           inversion E; subst s; clear E.
           assert (R : forall pst pos, wrel c (mkW pst pos trailing (Some (IIndex, a, [tok], if trailing then Some 0 else None)))
                                        (s1 <| mt := (mt s1) <| mt_pending := p' |> |>)).
           { intros pst pos. split; [rewrite set_pending_fs, (resolve_pending_fs c st s1 RP); exact SK|].
             cbn [w_pend]. split; [rewrite set_pending_get; reflexivity|exact FAa]. }
           destruct (negb (a_is_multiple a)); inversion HS; subst os1 w'; apply R.
        -- intros os2.
           assert (E1 : os1 = flush (Some (idn, b, raw, ti))) by (destruct (negb (a_is_multiple a)); inversion HS; reflexivity).
           rewrite E1. etransitivity; [exact (fold_flush_flushed c (Some (idn, b, raw, ti)) os2 st PR)|].
           rewrite fold_flush_resolve.
           destruct (resolve_pending c st) as [s1|e s|n] eqn:RP; cbn [rbind]; try reflexivity.
           rewrite clear_set_pending. rewrite (clear_pending_id s1 (Spelling.resolve_pending_clears c st s1 RP)). reflexivity.
  - (* nothing pending *)
    cbn [negb orb]. rewrite (resolve_pending_none c st HP). cbn [rbind].
    destruct (check_terminator a tok).
    + inversion HS; subst os1 w'; clear HS. exists (ROk st), true. split; [reflexivity|]. split.
      * intros s E; inversion E; subst s. split; [exact SK|]. cbn [w_pend]. split; [exact HP|exact I].
      * intros os2. reflexivity.
    + rewrite (pvp_fresh (mt st) (a_id a) IIndex trailing tok HP). cbn [expect rbind].
      set (p' := Some (mkPending (a_id a) (Some IIndex) [tok] (if trailing then Some 0 else None))).
      set (s' := st <| mt := (mt st) <| mt_pending := p' |> |>).
      assert (R : forall pst pos, wrel c (mkW pst pos trailing (Some (IIndex, a, [tok], if trailing then Some 0 else None))) s').
      { intros pst pos. split; [unfold s'; rewrite set_pending_fs; exact SK|].
        cbn [w_pend]. split; [unfold s'; rewrite set_pending_get; reflexivity|exact FAa]. }
      destruct (negb (a_is_multiple a)); inversion HS; subst os1 w'; clear HS.
      * exists (ROk s'), true. split; [reflexivity|]. split; [intros s E; inversion E; subst s; apply R|].
        intros os2. cbn [rbind app flush]. unfold s'. rewrite clear_set_pending. reflexivity.
      * exists (ROk s'), true. split; [reflexivity|]. split; [intros s E; inversion E; subst s; apply R|].
        intros os2. cbn [rbind app flush]. unfold s'. rewrite clear_set_pending. reflexivity.
Qed.

(** ** flag-like tokens *)
Lemma react_all_last_pending c : forall os st s, os <> [] -> react_all c os st = ROk s -> mt_pending (mt s) = None.
Proof.
  intros os st s NE H. destruct os as [|o os]; [congruence|]. cbn [react_all] in H.
  destruct (react c (o_ident o) (o_src o) (o_arg o) (o_raw o) (o_ti o) st) as [x|e s0|n] eqn:Er; cbn [rbind] in H; try discriminate.
  exact (react_all_pending_none c os (fst x) s (react_pending_none _ _ _ _ _ _ _ _ Er) H).
Qed.

Lemma open_pending_some c idn a s : open_pending c (Some (idn, a)) s =
  (do s1 <- resolve_pending c s;
   ROk (s1 <| mt := (mt s1) <| mt_pending := Some (mkPending (a_id a) (Some idn) [] None) |> |>)).
Proof.
  unfold open_pending. destruct (resolve_pending c s) as [s1|e x|n] eqn:RP; cbn [rbind]; try reflexivity.
  pose proof (Spelling.resolve_pending_clears c s s1 RP) as PN.
  unfold pending_values_push. rewrite PN. cbn [p_id p_ident p_raw p_trailing_idx is_some].
  rewrite beq_refl, Spelling.ident_eqb_refl. reflexivity.
Qed.

Lemma wclassify_effect c tok k pst pos vaf st :
  no_hyphen_args c = true -> fs_skip st = 0 -> pst_ok c pst = true -> wclassify c tok = Some k ->
  match to_long tok with
  | Some (f, ok, v) => parse_long_arg c f ok v pst pos vaf st = (do s <- tok_effect c k st; ROk (s, pr_of (snd k), true))
  | None => match to_short tok with
            | Some r0 => parse_short_arg c r0 pst pos vaf st = (do s <- tok_effect c k st; ROk (s, pr_of (snd k), true))
            | None => False
            end
  end.
Proof.
  intros NH SK PK CL. unfold wclassify in CL.
  destruct (to_long tok) as [[[f ok] v]|] eqn:TL.
  - destruct ok; cbn [negb] in CL; [|discriminate]. rewrite (parse_long_arg_pst c f true v pst pos vaf st PK).
    exact (wlong_effect c tok f v k pos vaf st TL CL).
  - destruct (to_short tok) as [r0|] eqn:TS; [|discriminate].
    rewrite (parse_short_arg_pst c r0 pst pos vaf st NH PK).
    exact (wshort_effect c r0 k pos vaf st NH SK (to_short_nonempty tok r0 TS) CL).
Qed.

Lemma wflag_sim c rest tok w os1 p vaf st :
  no_hyphen_args c = true -> ids_ok c -> w_trailing w = false ->
  sub_free c (w_pst w) tok = true -> is_escape tok = false -> pst_ok c (w_pst w) = true ->
  wclassify c tok = Some (os1, p) -> wrel c w st ->
  step_ok c rest w
    (mkW (pst_of p) (w_pos w) false (match p with Some (idn, a) => Some (idn, a, [], None) | None => None end))
    (flush (w_pend w) ++ os1) st (parse_loop c (tok :: rest) (ls_of w vaf) st).
Proof.
  intros NH IDS TR SF ES PK CL [SK PR].
  exists (tok_effect c (os1, p) st), true. unfold ls_of. rewrite TR. cbn [w_pst w_pos w_trailing].
  split; [|split].
  - apply (iter_flaglike c rest tok (w_pst w) (w_pos w) vaf st (tok_effect c (os1, p) st) p SF ES).
    exact (wclassify_effect c tok (os1, p) (w_pst w) (w_pos w) vaf st NH SK PK CL).
  - intros s E. unfold tok_effect in E. cbn [fst snd] in E.
    destruct (react_all c os1 st) as [s0|e0 x0|n0] eqn:RA; cbn [rbind] in E; try discriminate.
    pose proof (react_all_skip c os1 st s0 SK RA) as SK0.
    destruct p as [[idn a]|].
    + rewrite open_pending_some in E.
      destruct (resolve_pending c s0) as [s1|e1 x1|n1] eqn:RP; cbn [rbind] in E; try discriminate.
      inversion E; subst s; clear E. split.
      * rewrite set_pending_fs, (resolve_pending_fs c s0 s1 RP). exact SK0.
      * cbn [w_pend]. split; [rewrite set_pending_get; reflexivity|].
        exact (IDS a (wclassify_pend c tok os1 idn a CL)).
    + cbn [open_pending] in E. inversion E; subst s; clear E. split; [exact SK0|]. cbn [w_pend]. split; [|exact I].
      apply (react_all_last_pending c os1 st s0); [|exact RA]. intros ->.
      exact (wclassify_progress c tok None CL eq_refl).
  - intros os2. rewrite <- app_assoc. rewrite (fold_flush_flushed c (w_pend w) (os1 ++ os2) st PR).
    rewrite fold_flush_app. unfold tok_effect. cbn [fst snd].
    destruct (react_all c os1 st) as [s0|e0 x0|n0] eqn:RA; cbn [rbind]; try reflexivity.
    destruct p as [[idn a]|].
    + rewrite open_pending_some, fold_flush_resolve.
      destruct (resolve_pending c s0) as [s1|e1 x1|n1] eqn:RP; cbn [rbind]; try reflexivity.
      rewrite clear_set_pending, (clear_pending_id s1 (Spelling.resolve_pending_clears c s0 s1 RP)). reflexivity.
    + cbn [open_pending rbind]. rewrite clear_pending_id; [reflexivity|].
      apply (react_all_last_pending c os1 st s0); [|exact RA]. intros ->.
      exact (wclassify_progress c tok None CL eq_refl).
Qed.

(** ** the escape *)
Lemma clear_start_trailing st : clear_pending (st <| mt := start_trailing (mt st) |>) = clear_pending st.
Proof.
  destruct st as [m ci fa fk]. destruct m as [ar pe su]. unfold start_trailing. cbn [mt_pending].
  destruct pe as [p|]; reflexivity.
Qed.

Lemma wesc_sim c rest tok w vaf st :
  w_trailing w = false -> sub_free c (w_pst w) tok = true -> is_escape tok = true -> pst_ok c (w_pst w) = true ->
  wrel c w st ->
  step_ok c rest w (mkW (w_pst w) (w_pos w) true (wtrail (w_pend w))) [] st (parse_loop c (tok :: rest) (ls_of w vaf) st).
Proof.
  intros TR SF ES PK [SK [HP FA]].
  exists (ROk (st <| mt := start_trailing (mt st) |>)), vaf. unfold ls_of. rewrite TR. cbn [w_pst w_pos w_trailing].
  split; [exact (iter_escape c rest tok (w_pst w) (w_pos w) vaf st SF ES PK)|]. split.
  - intros s E. inversion E; subst s; clear E. split; [destruct st; exact SK|]. cbn [w_pend].
    destruct st as [m ci fa fk]. destruct m as [ar pe su]. cbn [mt mt_pending] in HP. subst pe.
    destruct (w_pend w) as [[[[idn a] raw] ti]|]; cbn [wtrail option_map pend_of]; split; try exact FA; reflexivity.
  - intros os2. cbn [app rbind]. rewrite clear_start_trailing. reflexivity.
Qed.

(** ** a separate value of the pending option *)
Lemma wval_sim c rest tok w vaf st i idn a raw ti r :
  w_trailing w = false -> w_pst w = PSOpt i -> w_pend w = Some (idn, a, raw, ti) -> beq (a_id a) i = true ->
  a_num a = Some r -> wrel c w st ->
  step_ok c rest w
    (if check_terminator a tok then mkW PSValuesDone (w_pos w) false (w_pend w)
     else mkW (if r_accepts_more r (N.of_nat (length (raw ++ [tok]))) then PSOpt i else PSValuesDone)
              (w_pos w) false (Some (idn, a, raw ++ [tok], ti)))
    [] st (SpellingLine.phase2 c (parse_loop c rest) rest tok (ls_of w vaf) st).
Proof.
  intros TR EP EW EI NA [SK [HP FA]]. apply beq_eq in EI. subst i.
  unfold SpellingLine.phase2, ls_of. rewrite TR, EP. cbn [l_trailing l_pst l_pos l_vaf].
  rewrite EW in HP, FA. cbn [option_map pend_of] in HP. rewrite FA. cbn [expect rbind].
  destruct (check_terminator a tok).
  - exists (ROk st), vaf. split; [reflexivity|]. split.
    + intros s E; inversion E; subst s. split; [exact SK|]. cbn [w_pend]. rewrite EW. split; [exact HP|exact FA].
    + intros os2. reflexivity.
  - rewrite (pvp_val (mt st) (a_id a) (Some idn) raw ti tok HP). cbn [expect rbind].
    unfold needs_more_vals.
    assert (E : mt_pending ((mt st) <| mt_pending := Some (mkPending (a_id a) (Some idn) (raw ++ [tok]) ti) |>)
                = Some (mkPending (a_id a) (Some idn) (raw ++ [tok]) ti)) by (destruct (mt st); reflexivity).
    rewrite E. cbn [p_id p_raw]. rewrite beq_refl, NA. cbn [expect rbind].
    set (s' := st <| mt := (mt st) <| mt_pending := Some (mkPending (a_id a) (Some idn) (raw ++ [tok]) ti) |> |>).
    exists (ROk s'), vaf. split; [reflexivity|]. split.
    + intros s Es; inversion Es; subst s. split; [unfold s'; rewrite set_pending_fs; exact SK|]. cbn [w_pend].
      split; [unfold s'; rewrite set_pending_get; reflexivity|exact FA].
    + intros os2. cbn [app rbind]. unfold s'. rewrite clear_set_pending. reflexivity.
Qed.

(** ** one token *)
Lemma phase2_positional c rest tok w vaf st :
  (w_trailing w = true \/ match w_pst w with PSOpt _ => False | _ => True end) ->
  SpellingLine.phase2 c (parse_loop c rest) rest tok (ls_of w vaf) st =
  SpellingLine.positional c (parse_loop c rest) rest tok (ls_of w vaf) st.
Proof.
  intros H. unfold SpellingLine.phase2, ls_of. cbn [l_trailing l_pst].
  destruct (w_trailing w); [reflexivity|]. destruct H as [H|H]; [discriminate|].
  destruct (w_pst w); [reflexivity|contradiction|reflexivity].
Qed.

Lemma wstep_sim c rest tok w w' os1 vaf st :
  no_hyphen_args c = true -> ids_ok c -> wstep c w tok = Some (os1, w') -> wrel c w st ->
  step_ok c rest w w' os1 st (parse_loop c (tok :: rest) (ls_of w vaf) st).
Proof.
  intros NH IDS HS R. unfold wstep in HS.
  destruct (w_trailing w) eqn:TR.
  - assert (EQ : parse_loop c (tok :: rest) (ls_of w vaf) st =
                 SpellingLine.positional c (parse_loop c rest) rest tok (ls_of w vaf) st).
    { rewrite <- (phase2_positional c rest tok w vaf st (or_introl TR)). unfold ls_of. rewrite TR. apply iter_trailing. }
    rewrite EQ. exact (wpos_sim c rest tok w w' os1 vaf st IDS HS R).
  - destruct (sub_free c (w_pst w) tok) eqn:SF; cbn [negb] in HS; [|discriminate].
    destruct (is_escape tok) eqn:ES.
    + destruct (pst_ok c (w_pst w)) eqn:PK; [|discriminate]. inversion HS; subst os1 w'; clear HS.
      exact (wesc_sim c rest tok w vaf st TR SF ES PK R).
    + destruct (is_some (to_long tok) || is_some (to_short tok)) eqn:FL.
      * destruct (pst_ok c (w_pst w)) eqn:PK; [|discriminate].
        destruct (wclassify c tok) as [[os1' p]|] eqn:CL; [|discriminate]. inversion HS; subst os1 w'; clear HS.
        exact (wflag_sim c rest tok w os1' p vaf st NH IDS TR SF ES PK CL R).
      * apply orb_false_iff in FL. destruct FL as [FL1 FL2].
        assert (TL : to_long tok = None) by (destruct (to_long tok); [discriminate|reflexivity]).
        assert (TS : to_short tok = None) by (destruct (to_short tok); [discriminate|reflexivity]).
        assert (EQ : parse_loop c (tok :: rest) (ls_of w vaf) st =
                     SpellingLine.phase2 c (parse_loop c rest) rest tok (ls_of w vaf) st).
        { unfold ls_of. rewrite TR. exact (iter_plain c rest tok (w_pst w) (w_pos w) vaf st SF ES TL TS). }
        rewrite EQ.
        destruct (w_pst w) as [|i|i] eqn:EP.
        -- rewrite (phase2_positional c rest tok w vaf st); [|right; rewrite EP; exact I].
           exact (wpos_sim c rest tok w w' os1 vaf st IDS HS R).
        -- destruct (w_pend w) as [[[[idn a] raw] ti]|] eqn:EW; [|discriminate].
           destruct (beq (a_id a) i) eqn:EI; cbn [negb] in HS; [|discriminate].
           destruct (a_num a) as [r|] eqn:NA; [|discriminate]. inversion HS; subst os1 w'; clear HS.
           rewrite <- EW.
           exact (wval_sim c rest tok w vaf st i idn a raw ti r TR EP EW EI NA R).
        -- rewrite (phase2_positional c rest tok w vaf st); [|right; rewrite EP; exact I].
           exact (wpos_sim c rest tok w w' os1 vaf st IDS HS R).
Qed.

(** * 5. The whole line *)
Theorem parse_loop_wscan c : no_hyphen_args c = true -> ids_ok c ->
  forall toks w os, wscan c w toks = Some os ->
  forall vaf st, wrel c w st ->
  exists r : res ps,
    parse_loop c toks (ls_of w vaf) st = (do s <- r; ROk (LDone s)) /\
    (do s <- r; resolve_pending c s) = fold_flush c os (clear_pending st).
Proof.
  intros NH IDS. induction toks as [|tok rest IH]; intros w os HS vaf st R.
  - cbn [wscan] in HS. inversion HS; subst os; clear HS. exists (ROk st). split; [reflexivity|]. cbn [rbind].
    destruct R as [_ PR]. rewrite <- (app_nil_r (flush (w_pend w))).
    rewrite (fold_flush_flushed c (w_pend w) [] st PR). reflexivity.
  - cbn [wscan] in HS. destruct (wstep c w tok) as [[os1 w']|] eqn:WS; [|discriminate].
    destruct (wscan c w' rest) as [os2|] eqn:SR; [|discriminate]. inversion HS; subst os; clear HS.
    destruct (wstep_sim c rest tok w w' os1 vaf st NH IDS WS R) as [rs [vaf' [E1 [E2 E3]]]].
    rewrite E1, (E3 os2). destruct rs as [s|e s|n]; cbn [rbind].
    + exact (IH w' os2 SR vaf' s (E2 s eq_refl)).
    + exists (RErr e s). split; reflexivity.
    + exists (RPanic n). split; reflexivity.
Qed.

(** the statement for the scanner's entry point: any state without a pending occurrence *)
Theorem parse_loop_woccurrences c toks os vaf st :
  no_hyphen_args c = true -> ids_ok c -> woccurrences c toks = Some os ->
  fs_skip st = 0 -> mt_pending (mt st) = None ->
  exists r : res ps,
    parse_loop c toks (mkL PSValuesDone 1 vaf false) st = (do s <- r; ROk (LDone s)) /\
    (do s <- r; resolve_pending c s) = fold_flush c os st.
Proof.
  intros NH IDS HS SK HP.
  assert (R : wrel c w_init st) by (split; [exact SK|split; [exact HP|exact I]]).
  destruct (parse_loop_wscan c NH IDS toks w_init os HS vaf st R) as [r [E1 E2]].
  exists r. split; [exact E1|]. rewrite E2, (clear_pending_id st HP). reflexivity.
Qed.

(** * 6. What the scanner returns: command-line occurrences of arguments of the command; an argument that
    takes no value occurs without one *)
(** ([wscanned] is defined in ActionsTop.v) *)
Definition pend_scanned (c : cmd) (p : option wpending) : Prop :=
  match p with Some (_, a, _, _) => In a (c_args c) /\ a_takes_value a = true | None => True end.

Lemma flush_scanned c p : pend_scanned c p -> Forall (wscanned c) (flush p).
Proof.
  destruct p as [[[[idn a] raw] ti]|]; cbn [flush pend_occ pend_scanned]; [|constructor].
  intros [HIn TV]. constructor; [|constructor]. unfold wscanned. cbn [o_arg o_src o_raw].
  split; [exact HIn|]. split; [reflexivity|]. congruence.
Qed.

Lemma wcluster_scanned c : forall fuel r os p, wcluster c fuel r = Some (os, p) ->
  Forall (wscanned c) os /\ match p with Some (_, a) => In a (c_args c) /\ a_takes_value a = true | None => True end.
Proof.
  induction fuel as [|f IH]; intros r os p H; [discriminate|]. cbn [wcluster] in H.
  destruct (sf_next r) as [[[ch|bad] r']|]; try discriminate.
  - destruct (get_short c ch) as [a|] eqn:GS; [|discriminate]. pose proof (get_short_in c ch a GS) as HIn.
    destruct (a_takes_value a) eqn:TV.
    + destruct (wopt a); [|discriminate]. destruct r' as [|b t]; inversion H; subst.
      * split; [constructor|]. auto.
      * split; [|exact I]. constructor; [|constructor]. unfold wscanned. cbn [tok_occ o_arg o_src o_raw].
        split; [exact HIn|]. split; [reflexivity|]. congruence.
    + destruct (wcluster c f r') as [[os' p']|] eqn:SC; [|discriminate]. inversion H; subst.
      destruct (IH r' os' p SC) as [I1 I2]. split; [|exact I2].
      constructor; [|exact I1]. unfold wscanned. cbn [tok_occ o_arg o_src o_raw]. auto.
  - inversion H; subst. split; [constructor|exact I].
Qed.

Lemma wclassify_scanned c tok os p : wclassify c tok = Some (os, p) ->
  Forall (wscanned c) os /\ match p with Some (_, a) => In a (c_args c) /\ a_takes_value a = true | None => True end.
Proof.
  unfold wclassify. destruct (to_long tok) as [[[f ok] v]|].
  - destruct (negb ok); [discriminate|]. destruct (get_long c f) as [a|] eqn:GL; [|discriminate].
    pose proof (get_long_in c f a GL) as HIn. destruct (a_takes_value a) eqn:TV.
    + destruct (wopt a); [|discriminate]. destruct v as [x|]; intros H; inversion H; subst.
      * split; [|exact I]. constructor; [|constructor]. unfold wscanned. cbn [tok_occ o_arg o_src o_raw].
        split; [exact HIn|]. split; [reflexivity|]. congruence.
      * split; [constructor|]. auto.
    + destruct v; [discriminate|]. intros H; inversion H; subst. split; [|exact I].
      constructor; [|constructor]. unfold wscanned. cbn [tok_occ o_arg o_src o_raw]. auto.
  - destruct (to_short tok) as [r|]; [|discriminate]. apply wcluster_scanned.
Qed.

Lemma wpos_step_scanned c w tok os w' : pend_scanned c (w_pend w) -> wpos_step c w tok = Some (os, w') ->
  Forall (wscanned c) os /\ pend_scanned c (w_pend w').
Proof.
  intros PS H. unfold wpos_step in H. destruct (negb (pos_simple c)); [discriminate|].
  destruct (get_pos c (w_pos w)) as [a|] eqn:GP; [|discriminate]. pose proof (get_pos_in c _ a GP) as HIn.
  destruct (a_takes_value a) eqn:TV; cbn [negb] in H; [|discriminate].
  destruct (w_pend w) as [[[[idn b] raw] ti]|] eqn:EW.
  - destruct (beq (a_id b) (a_id a) && a_multiple_values a).
    + destruct idn; try discriminate.
      destruct (check_terminator a tok); [|destruct (negb (a_is_multiple a))]; inversion H; subst;
        (split; [constructor|exact PS]).
    + destruct (check_terminator a tok); [|destruct (negb (a_is_multiple a))]; inversion H; subst;
        (split; [exact (flush_scanned c _ PS)|cbn [w_pend pend_scanned]; auto]).
  - destruct (check_terminator a tok); [|destruct (negb (a_is_multiple a))]; inversion H; subst;
      (split; [constructor|cbn [w_pend pend_scanned]; auto]).
Qed.

Lemma wstep_scanned c w tok os w' : pend_scanned c (w_pend w) -> wstep c w tok = Some (os, w') ->
  Forall (wscanned c) os /\ pend_scanned c (w_pend w').
Proof.
  intros PS H. unfold wstep in H. destruct (w_trailing w); [exact (wpos_step_scanned c w tok os w' PS H)|].
  destruct (negb (sub_free c (w_pst w) tok)); [discriminate|].
  destruct (is_escape tok).
  - destruct (pst_ok c (w_pst w)); [|discriminate]. inversion H; subst. split; [constructor|]. cbn [w_pend].
    destruct (w_pend w) as [[[[idn a] raw] ti]|]; exact PS.
  - destruct (is_some (to_long tok) || is_some (to_short tok)).
    + destruct (pst_ok c (w_pst w)); [|discriminate].
      destruct (wclassify c tok) as [[os1 p]|] eqn:CL; [|discriminate]. inversion H; subst.
      destruct (wclassify_scanned c tok os1 p CL) as [S1 S2]. split.
      * apply Forall_app. split; [exact (flush_scanned c _ PS)|exact S1].
      * cbn [w_pend]. destruct p as [[idn a]|]; exact S2.
    + destruct (w_pst w) as [|i|i]; try exact (wpos_step_scanned c w tok os w' PS H).
      destruct (w_pend w) as [[[[idn a] raw] ti]|] eqn:EW; [|discriminate].
      destruct (negb (beq (a_id a) i)); [discriminate|]. destruct (a_num a); [|discriminate].
      inversion H; subst. split; [constructor|].
      destruct (check_terminator a tok); cbn [w_pend]; exact PS.
Qed.

Lemma wscan_scanned c : forall toks w os, pend_scanned c (w_pend w) -> wscan c w toks = Some os -> Forall (wscanned c) os.
Proof.
  induction toks as [|tok rest IH]; intros w os PS H; cbn [wscan] in H.
  - inversion H; subst. exact (flush_scanned c _ PS).
  - destruct (wstep c w tok) as [[os1 w']|] eqn:WS; [|discriminate].
    destruct (wscan c w' rest) as [os2|] eqn:SR; [|discriminate]. inversion H; subst.
    destruct (wstep_scanned c w tok os1 w' PS WS) as [S1 S2].
    apply Forall_app. split; [exact S1|exact (IH w' os2 S2 SR)].
Qed.

Theorem woccurrences_scanned c toks os : woccurrences c toks = Some os -> Forall (wscanned c) os.
Proof. exact (wscan_scanned c toks w_init os I). Qed.
