(** Property C08, whole-line level: rewriting one occurrence between equivalent spellings leaves the
    result of the token loop (and of [get_matches_with] / [do_parse] / [parse_top]) unchanged, for an
    ARBITRARY rest of the line.

    The obstacle: after [--opt v] the value sits in the pending buffer, after [--opt=v] it has already
    been reacted.  Part 1 names the pieces of one [parse_loop] iteration (checked by conversion).
    Part 2 defines the relation "[s2] is [s'] with one occurrence still pending" ([lazy_of]) and shows
    that every loop iteration either keeps it or resolves it (bisimulation, [flush_bisim]).  Part 3
    lifts it through [get_matches_with].  Part 4 are the spelling theorems. *)
From ClapModel Require Import Base.Bytes Base.Machine Base.Utf8 Lex.OsStrExtModel.
From ClapModel Require Import Parse.Cmd Parse.Build Parse.Valid Parse.Matcher Parse.Errors Parse.Validator Parse.Parser.
From ClapModel Require Import ParseProofs.Spelling ParseProofs.Actions ParseProofs.ActionsLoop ParseProofs.Dispatch.
From Coq Require Import ZArith Lia List Bool.
From RecordUpdate Require Import RecordSet.
Import RecordSetNotations.
Import ListNotations.
Open Scope N_scope.

(** * Part 1: one iteration of [parse_loop], in named pieces *)
Section Pieces.
Variable c : cmd.
Variable rec : lstate -> ps -> res loop_res.   (* the recursive call on the rest of the line *)
Variable rest : list bytes.

Definition after_flag (ls : lstate) (x : ps * presult * bool) : res (option (res loop_res) * lstate * ps) :=
  let '(st1, pr, vaf1) := x in
  let ls1 := mkL (l_pst ls) (l_pos ls) vaf1 false in
  match pr with
  | PRValuesDone => ROk (Some (rec (mkL PSValuesDone (l_pos ls) vaf1 false) st1), ls1, st1)
  | PROpt i => ROk (Some (rec (mkL (PSOpt i) (l_pos ls) vaf1 false) st1), ls1, st1)
  | PRFlagSub n => ROk (Some (ROk (LSub n false vaf1 st1 rest)), ls1, st1)
  | PREqualsNotProvided a =>
      do st2 <- resolve_pending_ignore c st1; ROk (Some (RErr (mkerr c ENoEquals a) st2), ls1, st2)
  | PRNoMatchingArg a =>
      do st2 <- resolve_pending_ignore c st1; ROk (Some (RErr (mkerr c EUnknownArgument a) st2), ls1, st2)
  | PRUnneeded r a =>
      do st2 <- resolve_pending_ignore c st1; ROk (Some (RErr (mkerr c ETooManyValues a) st2), ls1, st2)
  | PRMaybeHyphen => ROk (None, ls1, st1)
  | PRNoArg => ROk (None, ls1, st1)
  | PRAttachedNotConsumed => RPanic 203
  end.

(** what the loop does with the answer of [parse_short_arg] *)
Definition after_short (tok : bytes) (ls : lstate) (x : ps * presult * bool)
  : res (option (res loop_res) * lstate * ps) :=
  match x with
  | (st1, PRFlagSub n, vaf1) =>
      match fs_at st1 with
      | Some a =>
          do d <- expect 243 (checked_sub (cur_idx st1) a);
          let st2 := st1 <| fs_skip := d + 1 |> in
          ROk (Some (ROk (LSub n true vaf1 st2 (tok :: rest))), ls, st2)
      | None => ROk (Some (ROk (LSub n false vaf1 st1 rest)), ls, st1)
      end
  | (_, PRUnneeded _ _, _) => RPanic 282
  | (_, PRAttachedNotConsumed, _) => RPanic 282
  | _ => after_flag ls x
  end.

(** phase 1 once the subcommand test has said no *)
Definition classify (tok : bytes) (ls : lstate) (st : ps) : res (option (res loop_res) * lstate * ps) :=
  if is_escape tok then
    do sa <- state_arg c (l_pst ls);
    if match sa with Some a => a_hyphen a | None => false end then ROk (None, ls, st)
    else ROk (Some (rec (mkL (l_pst ls) (l_pos ls) (l_vaf ls) true)
                        (st <| mt := start_trailing (mt st) |>)), ls, st)
  else match to_long tok with
  | Some (f, ok, v) =>
      do x <- parse_long_arg c f ok v (l_pst ls) (l_pos ls) (l_vaf ls) st;
      match snd (fst x) with PRNoArg => RPanic 153 | _ => after_flag ls x end
  | None =>
    match to_short tok with
    | Some r =>
        do x <- parse_short_arg c r (l_pst ls) (l_pos ls) (l_vaf ls) st;
        after_short tok ls x
    | None => ROk (None, ls, st)
    end
  end.

Definition phase1 (tok : bytes) (ls : lstate) (st : ps) : res (option (res loop_res) * lstate * ps) :=
  if l_trailing ls then ROk (None, ls, st) else
  let try_sub := is_set s_sub_precedence c
                 || match l_pst ls with PSValuesDone => true | _ => false end in
  match (if try_sub then possible_subcommand c tok (l_vaf ls) else None) with
  | Some sc =>
      if beq sc s_help && negb (is_set s_disable_help_sub c)
      then ROk (Some (ROk (LHelpSub rest st)), ls, st)
      else ROk (Some (ROk (LSub sc false (l_vaf ls) st rest)), ls, st)
  | None => classify tok ls st
  end.

(** the positional counter correction *)
Definition pos_counter (ls : lstate) : res N :=
  let positional_count := positional_count c in
  let contains_last := existsb a_last (c_args c) in
  let pc := l_pos ls in
  let is_second_to_last := (pc + 1 =? positional_count) in
  let low_index_mults := is_second_to_last
       && existsb (fun a => a_is_multiple a && negb (positional_count =? opt_default 0 (a_index a))) (positionals c)
       && match last (map Some (positionals c)) None with Some p => negb (a_last p) | None => false end in
  let is_terminated := match get_pos c pc with Some a => is_some (a_term a) | None => false end in
  let missing_pos := is_set s_allow_missing_pos c && is_second_to_last && negb (l_trailing ls) in
  (if (low_index_mults || missing_pos) && negb is_terminated then
     match rest with
     | n :: _ =>
         match List.find (fun a => match a_index a with Some k => k =? pc | None => false end) (positionals c) with
         | Some a => do na <- is_new_arg c n a;
                     ROk (if na || is_some (possible_subcommand c n (l_vaf ls)) then pc + 1 else pc)
         | None => ROk (pc + 1)
         end
     | [] => ROk (pc + 1)
     end
   else if l_trailing ls && (is_set s_allow_missing_pos c || contains_last) then ROk positional_count
   else ROk pc).

(** the token is a positional value (or nothing can take it) *)
Definition positional (tok : bytes) (ls : lstate) (st : ps) : res loop_res :=
  do pc' <- pos_counter ls;
  match get_pos c pc' with
  | Some a =>
      if a_last a && negb (l_trailing ls) then
        do st1 <- resolve_pending_ignore c st;
        RErr (mkerr c EUnknownArgument tok) st1
      else
        let trailing := l_trailing ls || a_tva a in
        do st1 <- (if negb (match pending_arg_id (mt st) with Some i => beq i (a_id a) | None => false end)
                      || negb (a_multiple_values a)
                   then resolve_pending c st else ROk st);
        if check_terminator a tok then
          rec (mkL PSValuesDone (pc' + 1) true trailing) st1
        else
          do m1 <- expect 415 (pending_values_push (mt st1) (a_id a) (Some IIndex) trailing (Some tok));
          if negb (a_is_multiple a)
          then rec (mkL PSValuesDone (pc' + 1) true trailing) (st1 <| mt := m1 |>)
          else rec (mkL (PSPos (a_id a)) pc' true trailing) (st1 <| mt := m1 |>)
  | None =>
      if is_set s_allow_external c then
        if utf8_valid tok then ROk (LExternal tok rest st)
        else do st1 <- resolve_pending_ignore c st; RErr (mkerr c EInvalidUtf8 []) st1
      else do st1 <- resolve_pending_ignore c st;
           RErr (match_arg_error c tok (l_vaf ls) (l_trailing ls)) st1
  end.

Definition phase2 (tok : bytes) (ls : lstate) (st : ps) : res loop_res :=
  match (if l_trailing ls then PSValuesDone else l_pst ls) with
  | PSOpt i =>
      do a <- expect 290 (find_arg c i);
      if check_terminator a tok then
        rec (mkL PSValuesDone (l_pos ls) (l_vaf ls) (l_trailing ls)) st
      else
        do m1 <- expect 297 (pending_values_push (mt st) i None false (Some tok));
        do more <- expect 299 (needs_more_vals m1 a);
        rec (mkL (if more then PSOpt i else PSValuesDone) (l_pos ls) (l_vaf ls) (l_trailing ls))
            (st <| mt := m1 |>)
  | _ => positional tok ls st
  end.

Definition finish_iter (tok : bytes) (p : res (option (res loop_res) * lstate * ps)) : res loop_res :=
  do p1 <- p;
  let '(early, ls, st) := p1 in
  match early with
  | Some r => r
  | None => phase2 tok ls st
  end.

Definition iteration (tok : bytes) (ls : lstate) (st : ps) : res loop_res :=
  finish_iter tok (phase1 tok ls st).
End Pieces.

Lemma parse_loop_cons c tok rest ls st :
  parse_loop c (tok :: rest) ls st = iteration c (parse_loop c rest) rest tok ls st.
Proof. reflexivity. Qed.

(** * Part 2: the bisimulation "one occurrence still pending" *)
Section Bisim.
Variable c : cmd.

(** the pending occurrence does not belong to a positional (so the positional branch, which keeps
    collecting into a pending *positional* of the same id, always closes it first) *)
Definition pend_ok (s : ps) : Prop :=
  forall p, mt_pending (mt s) = Some p -> forall k b, get_pos c k = Some b -> beq (p_id p) (a_id b) = false.

(** [s2] is [s'] with one occurrence not yet reacted: flushing [s2] succeeds and gives [s'] *)
Definition lazy_of (s2 s' : ps) : Prop :=
  resolve_pending c s2 = ROk s' /\ pend_ok s2 /\ fs_skip s2 = 0.

Lemma resolve_none s : mt_pending (mt s) = None -> resolve_pending c s = ROk s.
Proof. unfold resolve_pending. intros ->. reflexivity. Qed.

Lemma lazy_clear s2 s' : lazy_of s2 s' -> mt_pending (mt s') = None.
Proof. intros [H _]. apply (resolve_pending_clears _ _ _ H). Qed.

Lemma lazy_resolved s2 s' : lazy_of s2 s' -> resolve_pending c s' = ROk s'.
Proof. intros H. apply resolve_none. apply (lazy_clear _ _ H). Qed.

Lemma lazy_react s2 s' idn s a raw ti : lazy_of s2 s' ->
  react c idn s a raw ti s2 = react c idn s a raw ti s'.
Proof. intros H. unfold react. rewrite (lazy_resolved _ _ H). destruct H as [-> _]. reflexivity. Qed.

Lemma lazy_ignore s2 s' : lazy_of s2 s' ->
  resolve_pending_ignore c s2 = ROk s' /\ resolve_pending_ignore c s' = ROk s'.
Proof.
  intros H. unfold resolve_pending_ignore. rewrite (lazy_resolved _ _ H). destruct H as [-> _]. auto.
Qed.

Lemma resolve_pending_fs s s' : resolve_pending c s = ROk s' -> fs_skip s' = fs_skip s.
Proof.
  unfold resolve_pending. destruct (mt_pending (mt s)) as [p|].
  - destruct (find_arg c (p_id p)) as [a|]; cbn [expect rbind]; [|discriminate].
    destruct (react_core c _ _ _ _ _ _) as [[s1 pr]|e s1|n] eqn:R; cbn [rbind]; try discriminate.
    intros H; inversion H; subst. cbn [fst]. apply react_core_fs in R. rewrite R. destruct s; reflexivity.
  - intros H; inversion H; reflexivity.
Qed.

Lemma skip0_eta (s : ps) : fs_skip s = 0 -> s <| fs_skip := 0 |> = s.
Proof. destruct s; cbn; intros ->; reflexivity. Qed.

Lemma lazy_skip0 s2 s' : lazy_of s2 s' -> s2 <| fs_skip := 0 |> = s2 /\ s' <| fs_skip := 0 |> = s'.
Proof.
  intros [R [_ F]]. split; apply skip0_eta; [exact F|]. rewrite (resolve_pending_fs _ _ R). exact F.
Qed.

(** ** [start_trailing] on a pending occurrence that is flushed without further values is harmless:
    the trailing index it records is the length of the occurrence, and [delimit] only asks whether a
    value's position is at or beyond it *)
Lemma delimit_go_beyond ddt db k : forall l i, i + N.of_nat (length l) <= k ->
  delimit_go ddt db (Some k) i l = delimit_go ddt db None i l.
Proof.
  induction l as [|v t IH]; intros i Hk; [reflexivity|].
  cbn [delimit_go]. cbn [length] in Hk.
  assert (E : (k <=? i) = false) by (apply N.leb_gt; lia).
  rewrite E. rewrite IH by lia. reflexivity.
Qed.

Lemma delimit_len a raw : delimit c a raw (Some (N.of_nat (length raw))) = delimit c a raw None.
Proof.
  unfold delimit. destruct (a_delim a) as [d|]; [|reflexivity].
  destruct raw as [|v t].
  - cbn [length N.of_nat]. destruct (is_set s_dont_delimit_trailing c); reflexivity.
  - replace (is_set s_dont_delimit_trailing c && match Some (N.of_nat (length (v :: t))) with Some 0 => true | _ => false end)
      with false by (cbn [length]; rewrite Nat2N.inj_succ; destruct (N.of_nat (length t)); cbn; rewrite andb_false_r; reflexivity).
    rewrite andb_false_r. apply delimit_go_beyond. lia.
Qed.

Lemma occ_values_len a raw : occ_values c a raw (Some (N.of_nat (length raw))) = occ_values c a raw None.
Proof.
  unfold occ_values. destruct raw as [|v t].
  - destruct (negb (is_nil (a_default_missing a))); [reflexivity|]. apply (delimit_len a []).
  - apply (delimit_len a (v :: t)).
Qed.

Lemma react_core_ti_len idn s a raw st :
  react_core c idn s a raw (Some (N.of_nat (length raw))) st = react_core c idn s a raw None st.
Proof. rewrite !react_core_unfold, occ_values_len. reflexivity. Qed.

Lemma resolve_start_trailing s : resolve_pending c (s <| mt := start_trailing (mt s) |>) = resolve_pending c s.
Proof.
  destruct s as [m ci fa fk]. destruct m as [ar pe su]. unfold resolve_pending, start_trailing.
  cbn [mt mt_pending]. destruct pe as [p|]; [|reflexivity].
  destruct p as [pid pidn praw pti]. cbn.
  destruct (find_arg c pid) as [a|]; cbn [expect rbind]; [|reflexivity].
  destruct pti as [t|]; [reflexivity|]. rewrite react_core_ti_len. reflexivity.
Qed.

Lemma start_trailing_none (s : ps) : mt_pending (mt s) = None -> s <| mt := start_trailing (mt s) |> = s.
Proof. destruct s as [m ci fa fk]. destruct m as [ar pe su]. cbn. intros ->. reflexivity. Qed.

Lemma lazy_trailing s2 s' : lazy_of s2 s' ->
  lazy_of (s2 <| mt := start_trailing (mt s2) |>) (s' <| mt := start_trailing (mt s') |>).
Proof.
  intros H. pose proof (start_trailing_none s' (lazy_clear _ _ H)) as Q.
  replace (s' <| mt := start_trailing (mt s') |>) with s' by (symmetry; exact Q). clear Q. destruct H as [R [P F]].
  split; [rewrite resolve_start_trailing; exact R|]. split.
  - intros p Hp k b Hb. destruct s2 as [m ci fa fk]. destruct m as [ar pe su].
    unfold start_trailing in Hp. cbn in Hp. destruct pe as [q|]; [|discriminate].
    inversion Hp; subst p. cbn [p_id]. apply (P q eq_refl k b Hb).
  - destruct s2; exact F.
Qed.

(** ** relations on results *)
Inductive lr_rel : loop_res -> loop_res -> Prop :=
| lr_eq lr : lr_rel lr lr
| lr_done s2 s' : lazy_of s2 s' -> lr_rel (LDone s2) (LDone s')
| lr_sub n v s2 s' rest : lazy_of s2 s' -> lr_rel (LSub n false v s2 rest) (LSub n false v s' rest)
| lr_ext n vals s2 s' : lazy_of s2 s' -> lr_rel (LExternal n vals s2) (LExternal n vals s')
| lr_help names s2 s' : lazy_of s2 s' -> lr_rel (LHelpSub names s2) (LHelpSub names s').

(** equal, or both successful with the same shape and lazily related states *)
Definition res_rel (r2 r' : res loop_res) : Prop :=
  match r2, r' with
  | ROk a, ROk b => lr_rel a b
  | _, _ => r2 = r'
  end.

Lemma res_rel_refl r : res_rel r r.
Proof. destruct r; cbn; [apply lr_eq|reflexivity|reflexivity]. Qed.

Lemma res_rel_eq r r' : r = r' -> res_rel r r'.
Proof. intros ->. apply res_rel_refl. Qed.

Definition untouched (pr : presult) : Prop :=
  match pr with
  | PRMaybeHyphen | PRNoArg | PRNoMatchingArg _ | PREqualsNotProvided _ | PRUnneeded _ _ => True
  | _ => False
  end.

(** answers of [parse_long_arg] / [parse_short_arg] from lazily related states: identical, or the state
    came back untouched with an answer that makes the loop flush (or dispatch) next *)
Definition x_rel (fsub : bool) (r2 r' : res (ps * presult * bool)) : Prop :=
  r2 = r' \/
  exists s2 s' pr v, r2 = ROk (s2, pr, v) /\ r' = ROk (s', pr, v) /\ lazy_of s2 s' /\
                     (untouched pr \/ (fsub = true /\ exists n, pr = PRFlagSub n)).

Lemma parse_opt_value_rel idn att a he s2 s' : lazy_of s2 s' ->
  parse_opt_value c idn att a he s2 = parse_opt_value c idn att a he s' \/
  (parse_opt_value c idn att a he s2 = ROk (s2, PREqualsNotProvided (a_id a)) /\
   parse_opt_value c idn att a he s' = ROk (s', PREqualsNotProvided (a_id a))).
Proof.
  intros H. unfold parse_opt_value.
  destruct (a_req_eq a && negb he).
  - destruct (a_num a) as [r|]; cbn [expect rbind]; [|left; reflexivity].
    destruct (vmin r =? 0); [|right; auto].
    left. rewrite (lazy_react _ _ _ _ _ _ _ H). reflexivity.
  - left. destruct att as [v|].
    + rewrite (lazy_react _ _ _ _ _ _ _ H). reflexivity.
    + rewrite (lazy_resolved _ _ H). destruct H as [-> _]. reflexivity.
Qed.

Lemma parse_long_arg_rel f ok v pst pos vaf s2 s' : lazy_of s2 s' ->
  x_rel true (parse_long_arg c f ok v pst pos vaf s2) (parse_long_arg c f ok v pst pos vaf s').
Proof.
  intros H. unfold x_rel. rewrite !parse_long_arg_unfold.
  destruct (state_arg c pst) as [sa|e s|n]; cbn [rbind]; [|left; reflexivity..].
  destruct (match sa with Some a => a_hyphen a | None => false end).
  { right. exists s2, s', PRMaybeHyphen, vaf. cbn. auto. }
  destruct (negb ok).
  { right. exists s2, s', (PRNoMatchingArg f), vaf. cbn. auto. }
  destruct (is_nil f && negb (is_some v)); [left; reflexivity|].
  unfold parse_long_found. destruct (lookup_long c f) as [a|].
  - destruct (a_takes_value a).
    + destruct (parse_opt_value_rel ILong v a (is_some v) s2 s' H) as [E|[E2 E']].
      * left. rewrite E. reflexivity.
      * rewrite E2, E'. cbn [rbind fst snd]. right.
        exists s2, s', (PREqualsNotProvided (a_id a)), true. cbn. auto.
    + destruct v as [rst|].
      * right. exists s2, s', (PRUnneeded rst (a_id a)), true. cbn. auto.
      * left. rewrite (lazy_react _ _ _ _ _ _ _ H). reflexivity.
  - destruct (possible_long_flag_subcommand c f) as [n|].
    + right. exists s2, s', (PRFlagSub n), vaf. split; [reflexivity|]. split; [reflexivity|]. split; [exact H|]. right. split; [reflexivity|]. exists n. reflexivity.
    + destruct (match get_pos c pos with Some a => a_hyphen a && negb (a_last a) | None => false end).
      * right. exists s2, s', PRMaybeHyphen, vaf. cbn. auto.
      * right. exists s2, s', (PRNoMatchingArg f), vaf. cbn. auto.
Qed.

Lemma short_loop_rel fuel r ret vaf s2 s' : lazy_of s2 s' -> untouched ret ->
  x_rel false (short_loop c fuel r ret vaf s2) (short_loop c fuel r ret vaf s').
Proof.
  intros H U. unfold x_rel. destruct fuel as [|f]; [left; reflexivity|]. cbn [short_loop].
  destruct (sf_next r) as [[[ch|rst] r']|].
  - destruct (get_short c ch) as [a|].
    + destruct (negb (a_takes_value a)).
      * left. rewrite (lazy_react _ _ _ _ _ _ _ H). reflexivity.
      * destruct (match match r' with [] => None | _ => Some r' end with
                  | Some (61 :: v) => (Some v, true)
                  | _ => (match r' with [] => None | _ => Some r' end, false) end) as [val he].
        destruct (parse_opt_value_rel IShort val a he s2 s' H) as [E|[E2 E']].
        -- left. rewrite E. reflexivity.
        -- rewrite E2, E'. cbn [rbind fst snd]. right.
           exists s2, s', (PREqualsNotProvided (a_id a)), true. cbn. auto.
    + destruct (find_short_subcmd c ch) as [name|].
      * left. rewrite (lazy_resolved _ _ H). destruct H as [-> _]. reflexivity.
      * right. exists s2, s', (PRNoMatchingArg (DASH :: encode_utf8 ch)), vaf. cbn. auto.
  - right. exists s2, s', (PRNoMatchingArg (DASH :: rst)), vaf. cbn. auto.
  - right. exists s2, s', ret, vaf. auto.
Qed.

Lemma parse_short_arg_rel r pst pos vaf s2 s' : lazy_of s2 s' ->
  x_rel false (parse_short_arg c r pst pos vaf s2) (parse_short_arg c r pst pos vaf s').
Proof.
  intros H. unfold x_rel, parse_short_arg.
  destruct (state_arg c pst) as [sa|e s|n]; cbn [rbind]; [|left; reflexivity..].
  destruct (match sa with Some a => a_hyphen a || (a_negnum a && sf_is_negative_number r) | None => false end).
  { right. exists s2, s', PRMaybeHyphen, vaf. cbn. auto. }
  destruct (match get_pos c pos with Some a => a_negnum a | None => false end && sf_is_negative_number r).
  { right. exists s2, s', PRMaybeHyphen, vaf. cbn. auto. }
  destruct (match get_pos c pos with Some a => a_hyphen a && negb (a_last a) | None => false end
            && sf_any_unknown c (S (length r)) r).
  { right. exists s2, s', PRMaybeHyphen, vaf. cbn. auto. }
  destruct (lazy_skip0 _ _ H) as [E2 E']. rewrite E2, E'.
  assert (F' : fs_skip s' = fs_skip s2).
  { destruct H as [R _]. apply (resolve_pending_fs _ _ R). }
  rewrite F'.
  destruct (sf_advance_by _ r) as [r0|]; cbn [expect rbind]; [|left; reflexivity].
  apply (short_loop_rel (S (length r0)) r0 PRNoArg vaf s2 s' H I).
Qed.
End Bisim.

(** ** one loop iteration keeps the relation or resolves it *)
Section Iter.
Variable c : cmd.
Variable rec : lstate -> ps -> res loop_res.
Variable rest : list bytes.

(** the loop is not handing tokens to a pending *option* (that branch appends to the buffer without
    flushing it: there the two runs really differ) *)
Definition ls_ok (ls : lstate) : Prop :=
  forall i, (if l_trailing ls then PSValuesDone else l_pst ls) <> PSOpt i.

Hypothesis Hrec : forall ls s2 s', lazy_of c s2 s' -> ls_ok ls -> res_rel c (rec ls s2) (rec ls s').

Definition p1_rel (p2 p' : res (option (res loop_res) * lstate * ps)) : Prop :=
  p2 = p' \/
  (exists r2 r' l2 l' s2 s', p2 = ROk (Some r2, l2, s2) /\ p' = ROk (Some r', l', s') /\ res_rel c r2 r') \/
  (exists l s2 s', p2 = ROk (None, l, s2) /\ p' = ROk (None, l, s') /\ lazy_of c s2 s' /\ ls_ok l).

Lemma p1_early r2 r' l2 l' s2 s' : res_rel c r2 r' -> p1_rel (ROk (Some r2, l2, s2)) (ROk (Some r', l', s')).
Proof. intros H. right. left. exists r2, r', l2, l', s2, s'. auto. Qed.

Lemma p1_none l s2 s' : lazy_of c s2 s' -> ls_ok l -> p1_rel (ROk (None, l, s2)) (ROk (None, l, s')).
Proof. intros H L. right. right. exists l, s2, s'. auto. Qed.

Lemma ls_ok_flag ls v : ls_ok ls -> l_trailing ls = false -> ls_ok (mkL (l_pst ls) (l_pos ls) v false).
Proof. unfold ls_ok. intros H T i. cbn. specialize (H i). rewrite T in H. exact H. Qed.

Lemma after_flag_rel ls s2 s' pr v : lazy_of c s2 s' ->
  untouched pr \/ (exists n, pr = PRFlagSub n) -> ls_ok ls -> l_trailing ls = false ->
  p1_rel (after_flag c rec rest ls (s2, pr, v)) (after_flag c rec rest ls (s', pr, v)).
Proof.
  intros H U L T. destruct (lazy_ignore c _ _ H) as [I2 I'].
  unfold after_flag. destruct pr; cbn in U.
  - apply p1_early. cbn. apply lr_sub. exact H.
  - exfalso. destruct U as [[]|[n E]]; discriminate.
  - exfalso. destruct U as [[]|[n E]]; discriminate.
  - exfalso. destruct U as [[]|[n E]]; discriminate.
  - rewrite I2, I'. left. reflexivity.
  - apply p1_none; [exact H|apply ls_ok_flag; assumption].
  - rewrite I2, I'. left. reflexivity.
  - rewrite I2, I'. left. reflexivity.
  - apply p1_none; [exact H|apply ls_ok_flag; assumption].
Qed.

Lemma after_short_rel tok ls s2 s' pr v : lazy_of c s2 s' ->
  untouched pr -> ls_ok ls -> l_trailing ls = false ->
  p1_rel (after_short c rec rest tok ls (s2, pr, v)) (after_short c rec rest tok ls (s', pr, v)).
Proof.
  intros H U L T. destruct pr; cbn in U; try contradiction; unfold after_short;
    try (apply after_flag_rel; [exact H|left; exact I|exact L|exact T]).
  left. reflexivity.
Qed.

Lemma classify_rel tok ls s2 s' : lazy_of c s2 s' -> ls_ok ls -> l_trailing ls = false ->
  p1_rel (classify c rec rest tok ls s2) (classify c rec rest tok ls s').
Proof.
  intros H L T. unfold classify. destruct (is_escape tok).
  - destruct (state_arg c (l_pst ls)) as [sa|e s|n]; cbn [rbind]; [|left; reflexivity..].
    destruct (match sa with Some a => a_hyphen a | None => false end).
    + apply p1_none; assumption.
    + apply p1_early. apply Hrec; [apply lazy_trailing; exact H|]. intros i. cbn. discriminate.
  - destruct (to_long tok) as [[[f ok] v]|].
    + destruct (parse_long_arg_rel c f ok v (l_pst ls) (l_pos ls) (l_vaf ls) s2 s' H) as [E|[t2 [t' [pr [w [E2 [E' [Ht U]]]]]]]].
      * rewrite E. left. reflexivity.
      * rewrite E2, E'. cbn [rbind fst snd].
        assert (U' : untouched pr \/ (exists n, pr = PRFlagSub n)).
        { destruct U as [U|[_ U]]; auto. }
        destruct pr; try (apply after_flag_rel; assumption); cbn in U'.
        left. reflexivity.
    + destruct (to_short tok) as [r|].
      * destruct (parse_short_arg_rel c r (l_pst ls) (l_pos ls) (l_vaf ls) s2 s' H) as [E|[t2 [t' [pr [w [E2 [E' [Ht U]]]]]]]].
        -- rewrite E. left. reflexivity.
        -- rewrite E2, E'. cbn [rbind]. destruct U as [U|[U _]]; [|discriminate].
           apply after_short_rel; assumption.
      * apply p1_none; assumption.
Qed.

Lemma phase1_rel tok ls s2 s' : lazy_of c s2 s' -> ls_ok ls ->
  p1_rel (phase1 c rec rest tok ls s2) (phase1 c rec rest tok ls s').
Proof.
  intros H L. unfold phase1. destruct (l_trailing ls) eqn:T.
  - apply p1_none; assumption.
  - cbv zeta.
    destruct (if is_set s_sub_precedence c || match l_pst ls with PSValuesDone => true | _ => false end
              then possible_subcommand c tok (l_vaf ls) else None) as [sc|].
    + destruct (beq sc s_help && negb (is_set s_disable_help_sub c)).
      * apply p1_early. cbn. apply lr_help. exact H.
      * apply p1_early. cbn. apply lr_sub. exact H.
    + apply classify_rel; assumption.
Qed.

Lemma positional_rel tok ls s2 s' : lazy_of c s2 s' ->
  res_rel c (positional c rec rest tok ls s2) (positional c rec rest tok ls s').
Proof.
  intros H. destruct (lazy_ignore c _ _ H) as [I2 I'].
  destruct (mt_pending (mt s2)) as [p|] eqn:P.
  2:{ destruct H as [R _]. rewrite (resolve_none c s2 P) in R. inversion R; subst. apply res_rel_refl. }
  unfold positional.
  destruct (pos_counter c rest ls) as [pc'|e s|n]; cbn [rbind]; [|reflexivity..].
  destruct (get_pos c pc') as [a|] eqn:G.
  - destruct (a_last a && negb (l_trailing ls)).
    + rewrite I2, I'. apply res_rel_refl.
    + assert (B : beq (p_id p) (a_id a) = false).
      { destruct H as [_ [PO _]]. apply (PO p P pc' a G). }
      unfold pending_arg_id. rewrite P, (lazy_clear c _ _ H). cbn [opt_map]. rewrite B. cbn [negb orb].
      rewrite (lazy_resolved c _ _ H). destruct H as [-> _]. apply res_rel_refl.
  - destruct (is_set s_allow_external c).
    + destruct (utf8_valid tok).
      * cbn. apply lr_ext. exact H.
      * rewrite I2, I'. apply res_rel_refl.
    + rewrite I2, I'. apply res_rel_refl.
Qed.

Lemma phase2_rel tok ls s2 s' : lazy_of c s2 s' -> ls_ok ls ->
  res_rel c (phase2 c rec rest tok ls s2) (phase2 c rec rest tok ls s').
Proof.
  intros H L. unfold phase2. unfold ls_ok in L.
  destruct (if l_trailing ls then PSValuesDone else l_pst ls) as [|i|i].
  - apply positional_rel. exact H.
  - exfalso. apply (L i). reflexivity.
  - apply positional_rel. exact H.
Qed.

Lemma iteration_rel tok ls s2 s' : lazy_of c s2 s' -> ls_ok ls ->
  res_rel c (iteration c rec rest tok ls s2) (iteration c rec rest tok ls s').
Proof.
  intros H L. unfold iteration, finish_iter.
  destruct (phase1_rel tok ls s2 s' H L) as [E|[[r2 [r' [l2 [l' [t2 [t' [E2 [E' R]]]]]]]]|[l [t2 [t' [E2 [E' [Ht Ll]]]]]]]].
  - rewrite E. apply res_rel_refl.
  - rewrite E2, E'. cbn [rbind]. exact R.
  - rewrite E2, E'. cbn [rbind]. apply phase2_rel; assumption.
Qed.
End Iter.

(** The bisimulation: from a state with one occurrence still pending and from the state in which it has
    been reacted, the token loop gives the same result for EVERY rest of the line -- identical errors
    and panics, and successful results that differ at most in that the first still carries the pending
    occurrence (flushing it gives the second). *)
Theorem flush_bisim c : forall toks ls s2 s', lazy_of c s2 s' -> ls_ok ls ->
  res_rel c (parse_loop c toks ls s2) (parse_loop c toks ls s').
Proof.
  induction toks as [|tok rest IH]; intros ls s2 s' H L.
  - cbn. apply lr_done. exact H.
  - rewrite !parse_loop_cons. apply iteration_rel; [exact IH|exact H|exact L].
Qed.

(** * Part 3: through [get_matches_with] *)

(** ** [react_core] neither reads nor writes the recorded subcommand: it commutes with recording one *)
Section SubFrame.
Variable c : cmd.
Variable X : option (bytes * matches).

Definition wsm (m : matcher) : matcher := m <| mt_sub := X |>.
Definition ws (st : ps) : ps := st <| mt := wsm (mt st) |>.

Definition rmap {A} (fa : A -> A) (r : res A) : res A :=
  match r with ROk a => ROk (fa a) | RErr e st => RErr e (ws st) | RPanic n => RPanic n end.

Lemma mt_remove_ws m i : mt_remove (wsm m) i = (wsm (fst (mt_remove m i)), snd (mt_remove m i)).
Proof. destruct m as [ar pe su]. unfold mt_remove, wsm. cbn. destruct (fm_remove i ar); reflexivity. Qed.

Lemma fold_remove_ws l : forall m,
  fold_left (fun m o => fst (mt_remove m o)) l (wsm m) = wsm (fold_left (fun m o => fst (mt_remove m o)) l m).
Proof.
  induction l as [|o t IH]; intros m; [reflexivity|]. cbn [fold_left]. rewrite mt_remove_ws. cbn [fst]. apply IH.
Qed.

Lemma arg_ids_ws m : arg_ids (wsm m) = arg_ids m.
Proof. destruct m; reflexivity. Qed.

Lemma remove_overrides_ws a m : remove_overrides c a (wsm m) = wsm (remove_overrides c a m).
Proof. unfold remove_overrides. rewrite !fold_remove_ws, arg_ids_ws. reflexivity. Qed.

Lemma start_custom_arg_m_ws m a s : start_custom_arg_m (wsm m) a s = wsm (start_custom_arg_m m a s).
Proof. destruct m; reflexivity. Qed.
Lemma start_custom_group_m_ws m g s : start_custom_group_m (wsm m) g s = wsm (start_custom_group_m m g s).
Proof. destruct m; reflexivity. Qed.

Lemma add_val_to_ws m i v : add_val_to (wsm m) i v = opt_map wsm (add_val_to m i v).
Proof.
  destruct m as [ar pe su]. unfold add_val_to, wsm. cbn.
  destruct (fm_get i ar) as [ma|]; [|reflexivity]. destruct (append_val v ma); reflexivity.
Qed.
Lemma add_index_to_ws m i k : add_index_to (wsm m) i k = opt_map wsm (add_index_to m i k).
Proof.
  destruct m as [ar pe su]. unfold add_index_to, wsm. cbn. destruct (fm_get i ar); reflexivity.
Qed.

Definition rmapm (r : res matcher) : res matcher :=
  match r with ROk m => ROk (wsm m) | RErr e st => RErr e (ws st) | RPanic n => RPanic n end.

Lemma fold_groups_ws a s gs : forall acc,
  fold_left (fun rm g => do m <- rm;
               let m' := start_custom_group_m m g s in
               expect 1533 (add_val_to m' g (a_id a))) gs (rmapm acc)
  = rmapm (fold_left (fun rm g => do m <- rm;
               let m' := start_custom_group_m m g s in
               expect 1533 (add_val_to m' g (a_id a))) gs acc).
Proof.
  induction gs as [|g t IH]; intros acc; [reflexivity|]. cbn [fold_left]. rewrite <- IH. f_equal.
  destruct acc as [m|e st|n]; cbn [rmapm rbind]; try reflexivity.
  cbv zeta. rewrite start_custom_group_m_ws, add_val_to_ws.
  destruct (add_val_to (start_custom_group_m m g s) g (a_id a)); reflexivity.
Qed.

Lemma start_custom_arg_ws a s m : start_custom_arg c a s (wsm m) = rmapm (start_custom_arg c a s m).
Proof.
  unfold start_custom_arg.
  assert (E : match s with SCmdLine => remove_overrides c a (wsm m) | _ => wsm m end
              = wsm (match s with SCmdLine => remove_overrides c a m | _ => m end)).
  { destruct s; try reflexivity. apply remove_overrides_ws. }
  rewrite E, start_custom_arg_m_ws. destruct (src_explicit s); [|reflexivity].
  apply (fold_groups_ws a s _ (ROk _)).
Qed.

Lemma ws_set_mt st m : (ws st) <| mt := wsm m |> = ws (st <| mt := m |>).
Proof. destruct st as [m0 ci fa fk]. reflexivity. Qed.
Lemma ws_bump st : ps_bump (ws st) = ws (ps_bump st).
Proof. destruct st as [m0 ci fa fk]. reflexivity. Qed.
Lemma ws_mt st : mt (ws st) = wsm (mt st).
Proof. destruct st as [m0 ci fa fk]. reflexivity. Qed.
Lemma ws_idx st : cur_idx (ws st) = cur_idx st.
Proof. destruct st as [m0 ci fa fk]. reflexivity. Qed.

Lemma push_arg_values_ws a : forall raw st,
  push_arg_values c a raw (ws st) = rmap ws (push_arg_values c a raw st).
Proof.
  induction raw as [|v t IH]; intros st; [reflexivity|]. cbn [push_arg_values].
  destruct (a_vp a) as [vp|]; cbn [expect rbind]; [|reflexivity].
  rewrite ws_bump. destruct (vp_parse vp v); [reflexivity|].
  rewrite ws_mt, add_val_to_ws.
  destruct (add_val_to (mt (ps_bump st)) (a_id a) v) as [m1|]; cbn [opt_map expect rbind]; [|reflexivity].
  rewrite add_index_to_ws, ws_idx.
  destruct (add_index_to m1 (a_id a) (cur_idx (ps_bump st))) as [m2|]; cbn [opt_map expect rbind]; [|reflexivity].
  rewrite ws_set_mt. apply IH.
Qed.

Lemma verify_num_args_ws a raw st : verify_num_args c a raw (ws st) = rmap (fun u => u) (verify_num_args c a raw st).
Proof.
  unfold verify_num_args. destruct (is_set s_ignore_errors c); [reflexivity|].
  destruct (a_num a) as [r|]; cbn [expect rbind]; [|reflexivity].
  destruct ((0 <? vmin r) && (N.of_nat (length raw) =? 0)); [reflexivity|].
  destruct (r_num_values r) as [n|].
  - destruct (negb (n =? N.of_nat (length raw))); reflexivity.
  - destruct (N.of_nat (length raw) <? vmin r); [reflexivity|].
    destruct (vmax r <? N.of_nat (length raw)); [|reflexivity]. destruct raw; reflexivity.
Qed.

Definition rmapx (r : res (ps * presult)) : res (ps * presult) := rmap (fun x => (ws (fst x), snd x)) r.

Lemma start_push_ws a s vals st m1 :
  (do m2 <- start_custom_arg c a s (wsm m1);
   do st' <- push_arg_values c a vals ((ws st) <| mt := m2 |>); ROk (st', PRValuesDone))
  = rmapx (do m2 <- start_custom_arg c a s m1;
           do st' <- push_arg_values c a vals (st <| mt := m2 |>); ROk (st', PRValuesDone)).
Proof.
  rewrite start_custom_arg_ws.
  destruct (start_custom_arg c a s m1) as [m2|e s0|n]; cbn [rmapm rbind]; try reflexivity.
  rewrite ws_set_mt, push_arg_values_ws.
  destruct (push_arg_values c a vals (st <| mt := m2 |>)) as [st'|e s0|n]; reflexivity.
Qed.

Lemma if_bump_ws (b : bool) st : (if b then ps_bump (ws st) else ws st) = ws (if b then ps_bump st else st).
Proof. destruct b; [apply ws_bump|reflexivity]. Qed.

Lemma set_like_ws idn s a vals bump st :
  set_like c idn s a vals bump (ws st) = rmapx (set_like c idn s a vals bump st).
Proof.
  unfold set_like. rewrite if_bump_ws.
  set (st1 := if bump && is_cmdline s && is_flag_ident idn then ps_bump st else st).
  rewrite ws_mt, mt_remove_ws. destruct (mt_remove (mt st1) (a_id a)) as [m1 removed]. cbn [fst snd].
  rewrite ws_set_mt.
  destruct (removed && negb (self_override c a)); [reflexivity|].
  apply (start_push_ws a s vals (st1 <| mt := m1 |>) m1).
Qed.

Lemma existing_count_ws a m : existing_count a (wsm m) = existing_count a m.
Proof. destruct m; reflexivity. Qed.

Lemma react_action_ws idn s a vals st :
  react_action c idn s a vals (ws st) = rmapx (react_action c idn s a vals st).
Proof.
  unfold react_action. destruct (a_get_action a); try apply set_like_ws; try reflexivity.
  - rewrite if_bump_ws. set (st1 := if is_cmdline s && is_flag_ident idn then ps_bump st else st).
    rewrite ws_mt. apply (start_push_ws a s vals st1 (mt st1)).
  - rewrite ws_mt, existing_count_ws, mt_remove_ws.
    destruct (mt_remove (mt st) (a_id a)) as [m1 removed]. cbn [fst snd].
    apply (start_push_ws a s _ st m1).
Qed.

Lemma react_core_ws idn s a raw ti st :
  react_core c idn s a raw ti (ws st) = rmapx (react_core c idn s a raw ti st).
Proof.
  rewrite !react_core_unfold.
  assert (V : (if is_cmdline s then verify_num_args c a raw (ws st) else ROk tt)
              = rmap (fun u => u) (if is_cmdline s then verify_num_args c a raw st else ROk tt)).
  { destruct (is_cmdline s); [apply verify_num_args_ws|reflexivity]. }
  rewrite V. destruct (if is_cmdline s then verify_num_args c a raw st else ROk tt) as [[]|e s0|n]; cbn [rmap rbind]; try reflexivity.
  destruct (occ_values c a raw ti) as [vals|]; cbn [expect rbind]; [|reflexivity].
  apply react_action_ws.
Qed.

Lemma resolve_pending_ws st : resolve_pending c (ws st) = rmap ws (resolve_pending c st).
Proof.
  unfold resolve_pending. rewrite ws_mt.
  replace (mt_pending (wsm (mt st))) with (mt_pending (mt st)) by (destruct (mt st); reflexivity).
  destruct (mt_pending (mt st)) as [p|]; [|reflexivity].
  destruct (find_arg c (p_id p)) as [a|]; cbn [expect rbind]; [|reflexivity].
  replace ((ws st) <| mt := (wsm (mt st)) <| mt_pending := None |> |>)
    with (ws (st <| mt := (mt st) <| mt_pending := None |> |>))
    by (destruct st as [m ci fa fk]; destruct m; reflexivity).
  rewrite react_core_ws.
  destruct (react_core c (p_ident p) SCmdLine a (p_raw p) (p_trailing_idx p) _) as [x|e s0|n]; reflexivity.
Qed.
End SubFrame.

(** ** one level of [get_matches_with] from related loop results *)
Section Gmw.
Variable c : cmd.

(** equal, except that two failures may carry different parser states (the state of a failure is only
    observable under [ignore_errors]) *)
Definition gmw_rel (r2 r' : res ps) : Prop :=
  match r2, r' with
  | RErr e _, RErr e' _ => e = e'
  | _, _ => r2 = r'
  end.

Lemma gmw_rel_refl r : gmw_rel r r.
Proof. destruct r; reflexivity. Qed.

Definition dispatch_lr (f : nat) (lr : loop_res) : res ps :=
  match lr with
  | LDone st => ROk st
  | LSub name keep vaf st rest => after_sub f c name keep vaf st rest
  | LHelpSub names st => RErr (help_walk c names) st
  | LExternal name vals st => external_matches c name vals st
  end.

Lemma parsed_of_dispatch f toks st0 :
  parsed_of f c toks st0 = (do lr <- parse_loop c toks (mkL PSValuesDone 1 false false) st0; dispatch_lr f lr).
Proof. reflexivity. Qed.

(** what [post] needs to know about two "parsed" results *)
Definition parsed_rel (p2 p' : res ps) : Prop :=
  p2 = p' \/
  (exists e t2 t', p2 = RErr e t2 /\ p' = RErr e t') \/
  (exists t2 t', p2 = ROk t2 /\ p' = ROk t' /\ resolve_pending c t2 = ROk t' /\ resolve_pending c t' = ROk t').

Lemma lazy_ws X s2 s' : lazy_of c s2 s' ->
  resolve_pending c (ws X s2) = ROk (ws X s') /\ resolve_pending c (ws X s') = ROk (ws X s').
Proof.
  intros H. rewrite !resolve_pending_ws, (lazy_resolved c _ _ H). destruct H as [-> _]. split; reflexivity.
Qed.

Lemma fold_rpanic {X} (F : matcher -> X -> res matcher) n : forall l,
  fold_left (fun rm v => do m <- rm; F m v) l (RPanic n) = RPanic n.
Proof. induction l as [|x t IH]; cbn [fold_left rbind]; [reflexivity | exact IH]. Qed.

Lemma ext_fold_rel vp s2 s' : forall vals m0,
  let F st := fold_left (fun rm v => do m <- rm;
                           match vp_parse vp v with
                           | Some k => RErr (mkerr c k []) st
                           | None => expect 458 (add_val_to m ext_id v)
                           end) vals (ROk m0) in
  (exists r, F s2 = r /\ F s' = r /\ forall e t, r <> RErr e t) \/ (exists e, F s2 = RErr e s2 /\ F s' = RErr e s').
Proof.
  induction vals as [|v t IH]; intros m0; cbn [fold_left rbind].
  - left. exists (ROk m0). repeat split. discriminate.
  - destruct (vp_parse vp v) as [k|].
    + right. exists (mkerr c k []).
      split; apply (fold_rerr (fun m v => match vp_parse vp v with
                                           | Some k => RErr (mkerr c k []) _
                                           | None => expect 458 (add_val_to m ext_id v) end)).
    + destruct (add_val_to m0 ext_id v) as [m1|]; cbn [expect].
      * apply IH.
      * left. exists (RPanic 458).
        split; [|split; [|discriminate]];
        apply (fold_rpanic (fun m v => match vp_parse vp v with
                                        | Some k => RErr (mkerr c k []) _
                                        | None => expect 458 (add_val_to m ext_id v) end)).
Qed.

Lemma dispatch_rel f lr2 lr' : is_set s_ignore_errors c = false -> lr_rel c lr2 lr' ->
  parsed_rel (dispatch_lr f lr2) (dispatch_lr f lr').
Proof.
  intros IE H. destruct H as [lr|s2 s' H|n v s2 s' rest H|n vals s2 s' H|names s2 s' H]; cbn [dispatch_lr].
  - left. reflexivity.
  - right. right. exists s2, s'. repeat split; [apply H|apply (lazy_resolved c _ _ H)].
  - unfold after_sub. destruct (is_set s_args_negate_subs c && v).
    { right. left. eexists _, s2, s'. split; reflexivity. }
    destruct (find_subcommand c n) as [sc0|]; cbn [expect rbind]; [|left; reflexivity].
    destruct (build_subcommand c (c_name sc0)) as [sc|].
    2:{ right. right. exists s2, s'. repeat split; [apply H|apply (lazy_resolved c _ _ H)]. }
    destruct (negb (assert_app sc)); [left; reflexivity|].
    cbn [sub_init]. rewrite IE.
    destruct (get_matches_with f sc rest ps_new) as [sub_st|e sub_st|k].
    + right. right. exists (record_sub s2 (c_name sc) sub_st), (record_sub s' (c_name sc) sub_st).
      split; [reflexivity|]. split; [reflexivity|].
      apply (lazy_ws (Some (c_name sc, into_inner (mt sub_st))) s2 s' H).
    + right. left. exists e, s2, s'. split; reflexivity.
    + left. reflexivity.
  - unfold external_matches. cbv zeta.
    destruct (ext_fold_rel (opt_default VPOsString (c_ext_vp c)) s2 s' vals
                (start_custom_arg_m matcher_new (arg_new ext_id) SCmdLine)) as [[r [E2 [E' NE]]]|[e [E2 E']]].
    + cbv zeta in E2, E'. rewrite E2, E'. destruct r as [m|e t|k]; cbn [rbind].
      * right. right. eexists _, _. split; [reflexivity|]. split; [reflexivity|].
        apply (lazy_ws (Some (n, into_inner m)) s2 s' H).
      * exfalso. apply (NE e t). reflexivity.
      * left. reflexivity.
    + cbv zeta in E2, E'. rewrite E2, E'. cbn [rbind]. right. left. exists e, s2, s'. split; reflexivity.
  - right. left. eexists _, s2, s'. split; reflexivity.
Qed.

Lemma post_rel p2 p' : is_set s_ignore_errors c = false -> parsed_rel p2 p' -> gmw_rel (post c p2) (post c p').
Proof.
  intros IE [E|[[e [t2 [t' [E2 E']]]]|[t2 [t' [E2 [E' [R2 R']]]]]]].
  - rewrite E. apply gmw_rel_refl.
  - rewrite E2, E'. unfold post. rewrite IE. reflexivity.
  - rewrite E2, E'. unfold post. rewrite R2, R'. apply gmw_rel_refl.
Qed.

(** [get_matches_with] from related loop results *)
Lemma gmw_of_loops f (r2 r' : res loop_res) : is_set s_ignore_errors c = false -> res_rel c r2 r' ->
  gmw_rel (post c (do lr <- r2; dispatch_lr f lr)) (post c (do lr <- r'; dispatch_lr f lr)).
Proof.
  intros IE H. apply post_rel; [exact IE|].
  destruct r2 as [lr2|e2 t2|n2]; destruct r' as [lr'|e' t'|n']; cbn [res_rel] in H; try discriminate.
  - cbn [rbind]. apply dispatch_rel; assumption.
  - rewrite H. left. reflexivity.
  - rewrite H. left. reflexivity.
Qed.
End Gmw.

(** * Part 4: the spelling theorems *)
Section Spell.
Variable c : cmd.
Let ls0 := mkL PSValuesDone 1 false false.

(** ** classes *)
(** the id belongs to an option: no positional slot carries it *)
Definition opt_id (i : id) : Prop := forall k b, get_pos c k = Some b -> beq i (a_id b) = false.

(** a single-valued option that does not insist on [=] *)
Definition single_opt (a : arg) (r : vrange) : Prop :=
  a_takes_value a = true /\ a_req_eq a = false /\ find_arg c (a_id a) = Some a /\ a_num a = Some r /\
  r_accepts_more r 1 = false /\ opt_id (a_id a).

(** a token that the loop hands to a pending option without looking at it as a flag, and that is not
    that option's terminator *)
Definition plain_value (a : arg) (v : bytes) : Prop :=
  is_escape v = false /\ to_long v = None /\ to_short v = None /\ check_terminator a v = false.

(** the loop looks at [tok] as a flag: not after [--], the pending argument (if any) does not allow
    hyphen values, and [tok] is not a subcommand name *)
Definition flag_site (ls : lstate) (tok : bytes) : Prop :=
  l_trailing ls = false /\
  match state_arg c (l_pst ls) with
  | ROk (Some b) => a_hyphen b = false
  | ROk None => True
  | _ => False
  end /\
  possible_subcommand c tok (l_vaf ls) = None /\ is_escape tok = false.

Lemma to_long_nonempty s l ok : to_long s = Some (l, ok, None) -> is_nil l = false.
Proof.
  unfold to_long. destruct (strip_prefix s [DASH; DASH]) as [r|]; [|discriminate].
  destruct r as [|x t]; [discriminate|].
  destruct (split_once (x :: t) [EQ]) as [[f v]|]; [discriminate|].
  intros H; inversion H; reflexivity.
Qed.

Lemma if_same {A} (b : bool) (x : A) : (if b then x else x) = x.
Proof. destruct b; reflexivity. Qed.

(** phase 1 on a token that is looked at as a long flag resolving to [a] *)
Lemma phase1_long rec rest ls tok l v a st :
  flag_site ls tok -> to_long tok = Some (l, true, v) -> (is_nil l && negb (is_some v)) = false ->
  lookup_long c l = Some a -> a_takes_value a = true ->
  phase1 c rec rest tok ls st =
  (do x <- parse_opt_value c ILong v a (is_some v) st;
   after_flag c rec rest ls (fst x, snd x, true)).
Proof.
  intros [T [Hy [PS E]]] TL NL LK TV. unfold phase1. rewrite T. cbv zeta. rewrite PS, if_same.
  unfold classify. rewrite E, TL. rewrite parse_long_arg_unfold.
  destruct (state_arg c (l_pst ls)) as [sa|e s|n] eqn:SA; cbn [rbind]; [|contradiction..].
  assert (HH : match sa with Some b => a_hyphen b | None => false end = false).
  { destruct sa as [b|]; [exact Hy|reflexivity]. }
  rewrite HH. cbn [negb]. rewrite NL. unfold parse_long_found. rewrite LK, TV.
  destruct (parse_opt_value c ILong v a (is_some v) st) as [[st1 pr]|e s|n] eqn:P; cbn [rbind fst snd]; try reflexivity.
  destruct pr; try reflexivity.
  (* PRNoArg is never an answer of parse_opt_value *)
  exfalso. unfold parse_opt_value in P.
  destruct (a_req_eq a && negb (is_some v)).
  - destruct (a_num a) as [r0|]; cbn [expect rbind] in P; [|discriminate]. destruct (vmin r0 =? 0).
    + destruct (react c (Some ILong) SCmdLine a [] None st); cbn [rbind] in P; try discriminate.
      destruct (is_some v); try discriminate; try solve [inversion P].
    + try discriminate; try solve [inversion P].
  - destruct v as [v1|].
    + destruct (react c (Some ILong) SCmdLine a [v1] None st); cbn [rbind] in P; try discriminate; try solve [inversion P].
    + destruct (resolve_pending c st); cbn [rbind] in P; try discriminate.
      destruct (pending_values_push _ _ _ _ _); cbn [expect rbind] in P; try discriminate; try solve [inversion P].
Qed.

Lemma push_pending_id m i idn tr v m1 : pending_values_push m i idn tr v = Some m1 ->
  exists p, mt_pending m1 = Some p /\ p_id p = i.
Proof.
  unfold pending_values_push.
  set (p := match mt_pending m with Some p => p | None => mkPending i idn [] None end).
  destruct (negb (beq (p_id p) i)) eqn:B; [discriminate|].
  destruct (is_some idn && negb (ident_eqb (p_ident p) idn)); [discriminate|].
  intros H; inversion H; subst. eexists. split; [reflexivity|]. cbn [p_id].
  apply negb_false_iff in B. apply beq_eq in B. exact B.
Qed.

(** the common core of [--opt v] / [-o v] versus the attached spellings: once the option (without a
    value) has been seen, the value token is taken and the rest of the line parsed -- related to
    parsing the rest from the state in which the occurrence [a = v] has been reacted *)
Lemma opt_then_value idn a r v rest tok ls st x0 :
  is_set s_sub_precedence c = false ->
  single_opt a r -> plain_value a v -> fs_skip st = 0 ->
  react c (Some idn) SCmdLine a [v] None st = ROk x0 ->
  res_rel c
    (finish_iter c (parse_loop c (v :: rest)) (v :: rest) tok
       (do x <- parse_opt_value c idn None a false st;
        after_flag c (parse_loop c (v :: rest)) (v :: rest) ls (fst x, snd x, true)))
    (parse_loop c rest (mkL PSValuesDone (l_pos ls) true false) (fst x0)).
Proof.
  intros SP [TV [RE [FA [NA [AM OI]]]]] [E [TL [TS CT]]] FS R.
  destruct (attached_vs_separate c idn a r v false st FA RE NA) as [EQ SN].
  rewrite (parse_opt_value_attached c idn v a false st RE), R in EQ. cbn [rbind fst] in EQ.
  destruct (parse_opt_value c idn None a false st) as [x1|e s|n] eqn:P1; cbn [rbind] in EQ; try discriminate.
  destruct (take_value c (a_id a) v (fst x1)) as [y1|e s|n] eqn:TK; cbn [rbind] in EQ; try discriminate.
  destruct (SN x1 y1 eq_refl TK) as [S1 S2]. rewrite AM in S2.
  cbn [rbind]. destruct x1 as [st1 pr1]. cbn [fst snd] in *. subst pr1.
  unfold after_flag, finish_iter. cbn [rbind].
  rewrite (parse_loop_value_step c v rest (l_pos ls) true st1 (a_id a) SP E TL TS).
  rewrite FA. cbn [expect rbind]. rewrite CT, TK. cbn [rbind]. rewrite S2.
  (* the relation *)
  assert (FS1 : fs_skip st1 = 0).
  { unfold parse_opt_value in P1. rewrite RE in P1. cbn [andb] in P1.
    destruct (resolve_pending c st) as [s1|e s|n] eqn:RP; cbn [rbind] in P1; try discriminate.
    destruct (pending_values_push (mt s1) (a_id a) (Some idn) false None); cbn [expect rbind] in P1; try discriminate.
    inversion P1; subst. rewrite <- FS, <- (resolve_pending_fs c _ _ RP). destruct s1; reflexivity. }
  unfold take_value in TK. rewrite FA in TK. cbn [expect rbind] in TK.
  destruct (pending_values_push (mt st1) (a_id a) None false (Some v)) as [m1|] eqn:PV; cbn [expect rbind] in TK; [|discriminate].
  destruct (needs_more_vals m1 a); cbn [expect rbind] in TK; [|discriminate].
  inversion TK; subst y1. cbn [fst] in *.
  apply flush_bisim.
  - split; [exact (eq_sym EQ)|]. split.
    + intros p Hp k b0 Hb. destruct (push_pending_id _ _ _ _ _ _ PV) as [q [Hq Hi]].
      replace (mt (st1 <| mt := m1 |>)) with m1 in Hp by (destruct st1; reflexivity).
      rewrite Hq in Hp. inversion Hp; subst q. rewrite Hi. apply (OI k b0 Hb).
    + rewrite <- FS1. destruct st1; reflexivity.
  - intros i. cbn. discriminate.
Qed.

(** [--opt v] and [--opt=v]: for every rest of the line, every loop state at which the token is looked
    at as a flag, and every parser state in which the occurrence is accepted *)
Theorem long_space_vs_eq l v a r tokA tokB rest ls st x0 :
  is_set s_sub_precedence c = false ->
  flag_site ls tokA -> flag_site ls tokB ->
  to_long tokA = Some (l, true, Some v) -> to_long tokB = Some (l, true, None) ->
  lookup_long c l = Some a -> single_opt a r -> plain_value a v -> fs_skip st = 0 ->
  react c (Some ILong) SCmdLine a [v] None st = ROk x0 ->
  res_rel c (parse_loop c (tokB :: v :: rest) ls st) (parse_loop c (tokA :: rest) ls st).
Proof.
  intros SP FA FB TA TB LK SO PV FS R.
  pose proof SO as [TV [RE _]].
  rewrite !parse_loop_cons. unfold iteration.
  rewrite (phase1_long _ _ ls tokA l (Some v) a st FA TA) by (try assumption; apply andb_false_r).
  rewrite (phase1_long _ _ ls tokB l None a st FB TB) by (try assumption; rewrite (to_long_nonempty _ _ _ TB); reflexivity).
  cbn [is_some].
  rewrite (parse_opt_value_attached c ILong v a true st RE), R.
  unfold finish_iter at 2. cbn [rbind fst snd after_flag].
  apply (opt_then_value ILong a r v rest tokB ls st x0 SP SO PV FS R).
Qed.
End Spell.

(** ** lifting a loop-level result to [get_matches_with], [do_parse], [parse_top] *)
Definition ls_top := mkL PSValuesDone 1 false false.

Lemma gmw_lift c f X Y st0 : is_set s_ignore_errors c = false ->
  res_rel c (parse_loop c X ls_top st0) (parse_loop c Y ls_top st0) ->
  gmw_rel (get_matches_with (S f) c X st0) (get_matches_with (S f) c Y st0).
Proof. intros IE H. rewrite !gmw_unfold, !parsed_of_dispatch. apply gmw_of_loops; assumption. Qed.

Lemma do_parse_lift c0 X Y : is_set s_ignore_errors (build_self c0) = false ->
  res_rel (build_self c0) (parse_loop (build_self c0) X ls_top ps_new) (parse_loop (build_self c0) Y ls_top ps_new) ->
  do_parse c0 X = do_parse c0 Y.
Proof.
  intros IE H. unfold do_parse. cbv zeta. destruct (negb (valid c0)); [reflexivity|].
  pose proof (gmw_lift (build_self c0) (S (depth (build_self c0))) X Y ps_new IE H) as G.
  destruct (get_matches_with (S (S (depth (build_self c0)))) (build_self c0) X ps_new) as [s2|e2 s2|n2];
  destruct (get_matches_with (S (S (depth (build_self c0)))) (build_self c0) Y ps_new) as [s'|e' s'|n'];
  cbn [gmw_rel] in G; try discriminate.
  - inversion G; reflexivity.
  - subst e'. rewrite IE. reflexivity.
  - inversion G; reflexivity.
Qed.

(** the command [parse_top] hands to [do_parse]: the binary name is filled in from [argv[0]] *)
Definition top_cmd (c0 : cmd) (bin : bytes) : cmd :=
  match c_bin_name c0 with
  | Some _ => c0
  | None => if utf8_valid bin && negb (is_nil bin) then c0 <| c_bin_name := Some bin |> else c0
  end.

Lemma parse_top_lift c0 bin X Y : is_set s_no_binary_name c0 = false ->
  let c := build_self (top_cmd c0 bin) in
  is_set s_ignore_errors c = false ->
  res_rel c (parse_loop c X ls_top ps_new) (parse_loop c Y ls_top ps_new) ->
  parse_top c0 (bin :: X) = parse_top c0 (bin :: Y).
Proof.
  intros NB c IE H. unfold parse_top. rewrite NB. apply (do_parse_lift (top_cmd c0 bin) X Y IE H).
Qed.

(** a decidable sufficient condition for [opt_id] *)
Definition opt_id_b (c : cmd) (i : id) : bool :=
  forallb (fun p => match fst p with KPos _ => negb (beq i (a_id (snd p))) | _ => true end) (keymap c).
Lemma opt_id_of_b c i : opt_id_b c i = true -> opt_id c i.
Proof.
  unfold opt_id_b, opt_id, get_pos. intros H k b G.
  destruct (find _ (keymap c)) as [[ky b']|] eqn:F; cbn [opt_map snd] in G; [|discriminate].
  inversion G; subst b'. apply find_some in F. destruct F as [Hin Hk].
  rewrite forallb_forall in H. specialize (H _ Hin). cbn [fst snd] in *.
  destruct ky; try discriminate. apply negb_true_iff in H. exact H.
Qed.

(** [possible_subcommand] answering no before any argument was seen answers no afterwards as well *)
Lemma possible_subcommand_vaf c tok vaf : possible_subcommand c tok false = None -> possible_subcommand c tok vaf = None.
Proof.
  rewrite !possible_subcommand_unfold. destruct (negb (utf8_valid tok)); [reflexivity|].
  rewrite andb_false_r. destruct (is_set s_args_negate_subs c && vaf); [reflexivity|]. intros H; exact H.
Qed.

(** [--opt v] vs [--opt=v] at the head of a command line, through the whole of [parse_top] *)
Theorem long_space_vs_eq_top c0 bin l v a r tokA tokB rest x0 :
  is_set s_no_binary_name c0 = false ->
  let c := build_self (top_cmd c0 bin) in
  is_set s_ignore_errors c = false -> is_set s_sub_precedence c = false ->
  flag_site c ls_top tokA -> flag_site c ls_top tokB ->
  to_long tokA = Some (l, true, Some v) -> to_long tokB = Some (l, true, None) ->
  lookup_long c l = Some a -> single_opt c a r -> plain_value a v ->
  react c (Some ILong) SCmdLine a [v] None ps_new = ROk x0 ->
  parse_top c0 (bin :: tokB :: v :: rest) = parse_top c0 (bin :: tokA :: rest).
Proof.
  intros NB c IE SP FA FB TA TB LK SO PV R.
  apply (parse_top_lift c0 bin _ _ NB IE).
  apply (long_space_vs_eq c l v a r tokA tokB rest ls_top ps_new x0); try assumption. reflexivity.
Qed.

(** * Non-vacuity *)
(** Spelling.ex_cmd (flags --alpha/-a (alias --alp, -A), --abc/-b, option --opt/-o, subcommands run, rux,
    inference on) plus a positional [f] and a fixed binary name *)
Definition exl_cmd : cmd :=
  ex_cmd <| c_bin_name := Some [112] |>
         <| c_args := c_args ex_cmd ++ [(arg_new [102]) <| a_action := Some ASet |>] |>.
Definition exl := build_self exl_cmd.
Definition t_opt : bytes := [45; 45; 111; 112; 116].
Definition t_opt_eq_v : bytes := [45; 45; 111; 112; 116; 61; 118].
Definition t_v : bytes := [118].
Definition t_f : bytes := [102; 49].
Definition t_run : bytes := [114; 117; 110].
Definition exl_opt : arg := nth 2 (c_args exl) (arg_new []).
Definition out_ok (o : outcome) : bool := match o with OOk _ => true | _ => false end.

Example exl_top : build_self (top_cmd exl_cmd [112]) = exl /\ assert_app exl = true /\ valid exl_cmd = true.
Proof. vm_compute. repeat split. Qed.

Example exl_single_opt : single_opt exl exl_opt r_single.
Proof.
  unfold single_opt.
  split; [vm_compute; reflexivity|]. split; [vm_compute; reflexivity|]. split; [vm_compute; reflexivity|].
  split; [vm_compute; reflexivity|]. split; [vm_compute; reflexivity|].
  apply opt_id_of_b. vm_compute. reflexivity.
Qed.

(** every hypothesis of [long_space_vs_eq_top] holds for [p --opt v ...] / [p --opt=v ...]; the two lines
    [p --opt v run] / [p --opt=v run] are successful parses (the pending value crosses the dispatch) *)
Example ex_long_space_vs_eq_hyps :
  is_set s_no_binary_name exl_cmd = false /\
  is_set s_ignore_errors exl = false /\ is_set s_sub_precedence exl = false /\
  flag_site exl ls_top t_opt_eq_v /\ flag_site exl ls_top t_opt /\
  to_long t_opt_eq_v = Some ([111; 112; 116], true, Some t_v) /\ to_long t_opt = Some ([111; 112; 116], true, None) /\
  lookup_long exl [111; 112; 116] = Some exl_opt /\ single_opt exl exl_opt r_single /\ plain_value exl_opt t_v /\
  (exists x0, react exl (Some ILong) SCmdLine exl_opt [t_v] None ps_new = ROk x0) /\
  out_ok (parse_top exl_cmd [[112]; t_opt; t_v; t_run]) = true /\
  out_ok (parse_top exl_cmd [[112]; t_opt; t_v; t_f; t_run]) = true.
Proof.
  split; [vm_compute; reflexivity|]. split; [vm_compute; reflexivity|]. split; [vm_compute; reflexivity|].
  split; [vm_compute; auto|]. split; [vm_compute; auto|].
  split; [vm_compute; reflexivity|]. split; [vm_compute; reflexivity|]. split; [vm_compute; reflexivity|].
  split; [exact exl_single_opt|]. split; [vm_compute; auto|].
  split; [eexists; vm_compute; reflexivity|]. split; vm_compute; reflexivity.
Qed.

(** The success hypothesis is needed: when the occurrence itself is rejected the two spellings report
    different errors ([--opt=<bad> --zzz]: the value error at once; [--opt <bad> --zzz]: the value is
    still pending when [--zzz] is found unknown, and the flush error is dropped).  Not a violation of the
    property (it speaks about successful lines); recorded as an observation. *)
Definition out_kind (o : outcome) : option ekind := match o with OErr e => Some (e_kind e) | _ => None end.
Theorem spelling_needs_success_witness : exists c0 tokA tokB v rest,
  out_kind (parse_top c0 ([112] :: tokA :: rest)) = Some EInvalidUtf8 /\
  out_kind (parse_top c0 ([112] :: tokB :: v :: rest)) = Some EUnknownArgument.
Proof.
  exists exl_cmd, (t_opt ++ [61; 255]), t_opt, [255], [[45; 45; 122; 122; 122]].
  vm_compute. split; reflexivity.
Qed.

(** * What the relations and classes say, spelled out (pinned, so that the definitions cannot drift) *)
Theorem res_rel_meaning c r2 r' : res_rel c r2 r' ->
  r2 = r' \/
  exists s2 s',
    resolve_pending c s2 = ROk s' /\ fs_skip s2 = 0 /\
    (forall p, mt_pending (mt s2) = Some p -> forall k b, get_pos c k = Some b -> beq (p_id p) (a_id b) = false) /\
    ((r2 = ROk (LDone s2) /\ r' = ROk (LDone s')) \/
     (exists n v rest, r2 = ROk (LSub n false v s2 rest) /\ r' = ROk (LSub n false v s' rest)) \/
     (exists n vals, r2 = ROk (LExternal n vals s2) /\ r' = ROk (LExternal n vals s')) \/
     (exists names, r2 = ROk (LHelpSub names s2) /\ r' = ROk (LHelpSub names s'))).
Proof.
  destruct r2 as [lr2|e2 t2|n2]; destruct r' as [lr'|e' t'|n']; cbn [res_rel]; try (intros H; left; exact H).
  intros H. destruct H as [lr|s2 s' [R [P F]]|n v s2 s' rest [R [P F]]|n vals s2 s' [R [P F]]|names s2 s' [R [P F]]].
  - left. reflexivity.
  - right. exists s2, s'. repeat split; try assumption. left. split; reflexivity.
  - right. exists s2, s'. repeat split; try assumption. right. left. exists n, v, rest. split; reflexivity.
  - right. exists s2, s'. repeat split; try assumption. right. right. left. exists n, vals. split; reflexivity.
  - right. exists s2, s'. repeat split; try assumption. right. right. right. exists names. split; reflexivity.
Qed.

Theorem gmw_rel_meaning r2 r' : gmw_rel r2 r' -> r2 = r' \/ exists e t2 t', r2 = RErr e t2 /\ r' = RErr e t'.
Proof.
  destruct r2 as [s2|e2 t2|n2]; destruct r' as [s'|e' t'|n']; cbn [gmw_rel]; try (intros H; left; exact H).
  intros ->. right. exists e', t2, t'. split; reflexivity.
Qed.

Theorem classes_meaning c :
  (forall ls tok, flag_site c ls tok <->
     l_trailing ls = false /\
     match state_arg c (l_pst ls) with ROk (Some b) => a_hyphen b = false | ROk None => True | _ => False end /\
     possible_subcommand c tok (l_vaf ls) = None /\ is_escape tok = false) /\
  (forall a r, single_opt c a r <->
     a_takes_value a = true /\ a_req_eq a = false /\ find_arg c (a_id a) = Some a /\ a_num a = Some r /\
     r_accepts_more r 1 = false /\ forall k b, get_pos c k = Some b -> beq (a_id a) (a_id b) = false) /\
  (forall a v, plain_value a v <->
     is_escape v = false /\ to_long v = None /\ to_short v = None /\ check_terminator a v = false) /\
  (forall c0 bin toks, is_set s_no_binary_name c0 = false -> parse_top c0 (bin :: toks) = do_parse (top_cmd c0 bin) toks).
Proof.
  split; [intros; reflexivity|]. split; [intros; reflexivity|]. split; [intros; reflexivity|].
  intros c0 bin toks NB. unfold parse_top. rewrite NB. reflexivity.
Qed.

(** * Short spellings: [-o v] = [-ov] = [-o=v], and clusters *)
Section Short.
Variable c : cmd.

Lemma to_short_facts s r : to_short s = Some r -> to_long s = None /\ is_escape s = false.
Proof.
  unfold to_short, to_long, is_escape, strip_prefix, DASH.
  destruct s as [|x t]; [discriminate|]. cbn [starts_with length skipn].
  destruct (x =? 45) eqn:X; cbn [andb]; [|discriminate].
  apply N.eqb_eq in X. subst x.
  destruct t as [|y u]; cbn [starts_with is_nil andb].
  { intros H; discriminate H. }
  replace (starts_with u []) with true by (destruct u; reflexivity). rewrite !andb_true_r.
  destruct (y =? 45) eqn:Y; [intros H; discriminate H|].
  intros _. split; [reflexivity|]. cbn [beq]. rewrite Y. apply andb_false_r.
Qed.

(** the loop looks at [tok] as a short cluster *)
Definition short_site (ls : lstate) (tok : bytes) : Prop :=
  l_trailing ls = false /\ l_pst ls = PSValuesDone /\ no_hyphen_pos c (l_pos ls) /\
  possible_subcommand c tok (l_vaf ls) = None.

Lemma phase1_short rec rest ls tok r st :
  short_site ls tok -> to_short tok = Some r -> fs_skip st = 0 ->
  phase1 c rec rest tok ls st =
  (do x <- short_loop c (S (length r)) r PRNoArg (l_vaf ls) st; after_short c rec rest tok ls x).
Proof.
  intros [T [PV [NH PS]]] TS FS. destruct (to_short_facts _ _ TS) as [TL E].
  unfold phase1. rewrite T. cbv zeta. rewrite PS, if_same. unfold classify. rewrite E, TL, TS, PV.
  rewrite (parse_short_arg_clean c r (l_pos ls) (l_vaf ls) st FS NH), (skip0_eta st FS). reflexivity.
Qed.

Lemma pov_none_result idn a st x : a_req_eq a = false ->
  parse_opt_value c idn None a false st = ROk x -> snd x = PROpt (a_id a).
Proof.
  intros RE. unfold parse_opt_value. rewrite RE. cbn [andb].
  destruct (resolve_pending c st); cbn [rbind]; try discriminate.
  destruct (pending_values_push _ _ _ _ _); cbn [expect rbind]; try discriminate.
  intros H; inversion H; reflexivity.
Qed.

(** [-o v] and [-ov] *)
Theorem short_space_vs_att ch a r b t rA rB tokA tokB rest ls st x0 :
  is_set s_sub_precedence c = false ->
  short_site ls tokA -> short_site ls tokB ->
  to_short tokA = Some rA -> sf_next rA = Some (inl ch, b :: t) -> b <> 61 ->
  to_short tokB = Some rB -> sf_next rB = Some (inl ch, []) ->
  get_short c ch = Some a -> single_opt c a r -> plain_value a (b :: t) -> fs_skip st = 0 ->
  react c (Some IShort) SCmdLine a [b :: t] None st = ROk x0 ->
  res_rel c (parse_loop c (tokB :: (b :: t) :: rest) ls st) (parse_loop c (tokA :: rest) ls st).
Proof.
  intros SP SA SB TA NA NB TB NB' GS SO PV FS R.
  pose proof SO as [TV [RE _]].
  rewrite !parse_loop_cons. unfold iteration.
  rewrite (phase1_short _ _ ls tokA rA st SA TA FS), (phase1_short _ _ ls tokB rB st SB TB FS).
  rewrite (short_loop_opt_attached c (length rA) rA ch a b t PRNoArg (l_vaf ls) st NA NB GS TV RE).
  rewrite (short_loop_opt_alone c (length rB) rB ch a PRNoArg (l_vaf ls) st NB' GS TV).
  pose proof (parse_opt_value_attached c IShort (b :: t) a false st RE) as PA.
  pose proof (opt_then_value c IShort a r (b :: t) rest tokB ls st x0 SP SO PV FS R) as K.
  destruct (parse_opt_value c IShort None a false st) as [[st1 pr1]|e s|n] eqn:P.
  - pose proof (pov_none_result IShort a st _ RE P) as E. cbn [snd] in E. subst pr1.
    unfold bytes in *. rewrite PA, R.
    unfold finish_iter at 2. cbn [rbind fst snd after_short after_flag] in *. exact K.
  - unfold bytes in *. rewrite PA, R.
    unfold finish_iter at 2. cbn [rbind fst snd after_short after_flag] in *. exact K.
  - unfold bytes in *. rewrite PA, R.
    unfold finish_iter at 2. cbn [rbind fst snd after_short after_flag] in *. exact K.
Qed.

(** [-o=v] and [-ov]: equal results *)
Theorem short_eq_vs_att ch a b t rA rC tokA tokC rest ls st :
  short_site ls tokA -> short_site ls tokC ->
  to_short tokA = Some rA -> sf_next rA = Some (inl ch, b :: t) -> b <> 61 ->
  to_short tokC = Some rC -> sf_next rC = Some (inl ch, 61 :: b :: t) ->
  get_short c ch = Some a -> a_takes_value a = true -> a_req_eq a = false -> fs_skip st = 0 ->
  parse_loop c (tokC :: rest) ls st = parse_loop c (tokA :: rest) ls st.
Proof.
  intros SA SC TA NA NB TC NC GS TV RE FS.
  rewrite !parse_loop_cons. unfold iteration.
  rewrite (phase1_short _ _ ls tokA rA st SA TA FS), (phase1_short _ _ ls tokC rC st SC TC FS).
  rewrite (short_eq_strip c (length rC) (length rA) rC rA ch a (b :: t) PRNoArg (l_vaf ls) st NC NA) by (try assumption; discriminate).
  rewrite (short_loop_opt_attached c (length rA) rA ch a b t PRNoArg (l_vaf ls) st NA NB GS TV RE).
  destruct (parse_opt_value c IShort (Some (b :: t)) a false st) as [[st1 pr1]|e s|n]; reflexivity.
Qed.
End Short.

(** ** clusters: [-a<rest>] = [-a] [-<rest>] *)
Section Cluster.
Variable c : cmd.

(** the class of C01's totality theorem: no short flag-subcommands (their resume logic re-reads the
    cluster token, so the token itself is part of the loop result) *)
Definition no_short_subs : Prop := forall ch, find_short_subcmd c ch = None.

(** the answers with which the cluster walk ends an iteration without going on to the positional phase *)
Definition loop_kind (pr : presult) : Prop :=
  match pr with
  | PRValuesDone | PROpt _ | PREqualsNotProvided _ | PRNoMatchingArg _ => True
  | _ => False
  end.

Lemma pov_kinds idn att a he st x : parse_opt_value c idn att a he st = ROk x ->
  (snd x = PRAttachedNotConsumed /\ att <> None) \/ loop_kind (snd x).
Proof.
  unfold parse_opt_value. destruct (a_req_eq a && negb he).
  - destruct (a_num a) as [r|]; cbn [expect rbind]; [|discriminate].
    destruct (vmin r =? 0).
    + destruct (react c (Some idn) SCmdLine a [] None st) as [y|e s|n]; cbn [rbind]; try discriminate.
      intros H; inversion H; subst. cbn [snd]. destruct att; cbn [is_some]; [left; split; [reflexivity|discriminate]|right; exact I].
    + intros H; inversion H; subst. right. exact I.
  - destruct att as [v|].
    + destruct (react c (Some idn) SCmdLine a [v] None st) as [y|e s|n]; cbn [rbind]; try discriminate.
      intros H; inversion H; subst. right. exact I.
    + destruct (resolve_pending c st) as [s1|e s|n]; cbn [rbind]; try discriminate.
      destruct (pending_values_push _ _ _ _ _); cbn [expect rbind]; try discriminate.
      intros H; inversion H; subst. right. exact I.
Qed.

Lemma short_loop_kind : no_short_subs -> forall fuel r ret vaf st st' pr v',
  r <> [] \/ loop_kind ret ->
  short_loop c fuel r ret vaf st = ROk (st', pr, v') -> loop_kind pr.
Proof.
  intros NS. induction fuel as [|f IH]; intros r ret vaf st st' pr v' HR; [discriminate|].
  cbn [short_loop].
  destruct (sf_next r) as [[[ch|rst] r']|] eqn:N.
  - destruct (get_short c ch) as [a|].
    + destruct (negb (a_takes_value a)).
      * destruct (react c (Some IShort) SCmdLine a [] None st) as [[s1 p1]|e s|n] eqn:R; cbn [rbind fst snd]; try discriminate.
        apply react_ok_pr in R. subst p1. apply IH. right. exact I.
      * destruct r' as [|b t].
        -- cbv beta iota zeta.
           destruct (parse_opt_value c IShort None a false st) as [x|e s|n] eqn:P; cbn [rbind]; try discriminate.
           destruct (pov_kinds _ _ _ _ _ _ P) as [[E NN]|K]; [congruence|].
           destruct (snd x) eqn:SX; cbn in K; try contradiction; intros H; inversion H; subst; exact I.
        -- rewrite strip_eq_match.
           destruct (b =? 61); cbv beta iota zeta;
           (match goal with |- context [parse_opt_value ?a1 ?a2 ?a3 ?a4 ?a5 ?a6] =>
              destruct (parse_opt_value a1 a2 a3 a4 a5 a6) as [x|e s|n] eqn:P end; cbn [rbind]; try discriminate;
            destruct (pov_kinds _ _ _ _ _ _ P) as [[E NN]|K];
            [rewrite E; apply IH; left; discriminate
            |destruct (snd x) eqn:SX; cbn in K; try contradiction; intros H; inversion H; subst; exact I]).
    + rewrite (NS ch). intros H; inversion H; subst. exact I.
  - intros H; inversion H; subst. exact I.
  - intros H; inversion H; subst. destruct HR as [HR|HR]; [|exact HR].
    exfalso. unfold sf_next in N. destruct r; [congruence|]. destruct (utf8_step (n :: r)) as [[? ?]|]; discriminate.
Qed.

Lemma after_short_kind rec rest tok tok' ls ls' s pr v :
  loop_kind pr -> l_pst ls = l_pst ls' -> l_pos ls = l_pos ls' ->
  finish_iter c rec rest tok (after_short c rec rest tok ls (s, pr, v)) =
  finish_iter c rec rest tok' (after_short c rec rest tok' ls' (s, pr, v)).
Proof.
  intros K E1 E2. destruct pr; cbn in K; try contradiction; unfold after_short, after_flag, finish_iter;
    rewrite <- ?E1, <- ?E2; try reflexivity;
    destruct (resolve_pending_ignore c s); reflexivity.
Qed.

Theorem cluster_vs_split ch a r r1 r2 tok tok1 tok2 rest ls st :
  no_short_subs ->
  short_site c ls tok -> short_site c ls tok1 -> possible_subcommand c tok2 true = None ->
  to_short tok = Some r -> sf_next r = Some (inl ch, r2) -> r2 <> [] ->
  to_short tok1 = Some r1 -> sf_next r1 = Some (inl ch, []) -> to_short tok2 = Some r2 ->
  get_short c ch = Some a -> a_takes_value a = false -> fs_skip st = 0 ->
  parse_loop c (tok :: rest) ls st = parse_loop c (tok1 :: tok2 :: rest) ls st.
Proof.
  intros NS S0 S1 PS2 T0 N0 NE T1 N1 T2 GS TV FS.
  rewrite (parse_loop_cons c tok), (parse_loop_cons c tok1). unfold iteration.
  rewrite (phase1_short c _ _ ls tok r st S0 T0 FS), (phase1_short c _ _ ls tok1 r1 st S1 T1 FS).
  rewrite (cluster_split c r r1 r2 ch a PRNoArg (l_vaf ls) st N0 N1 NE GS TV).
  rewrite (short_loop_flag_step c (length r1) r1 ch [] a PRNoArg (l_vaf ls) st N1 GS TV).
  assert (L1 : (0 < length r1)%nat) by (apply sf_next_shrinks' in N1; lia).
  destruct (length r1) as [|k]; [lia|].
  destruct (react c (Some IShort) SCmdLine a [] None st) as [[s1 p1]|e s|n] eqn:R; cbn [rbind fst snd]; try reflexivity.
  change (short_loop c (S k) [] p1 true s1) with (ROk (A := ps * presult * bool) (s1, p1, true)).
  cbn [rbind fst snd].
  pose proof (react_fs _ _ _ _ _ _ _ _ _ R) as FS1. rewrite FS in FS1.
  apply react_ok_pr in R. subst p1.
  unfold finish_iter at 2. unfold after_short at 2. unfold after_flag. cbn [rbind].
  (* the second token of the split line *)
  destruct S0 as [T [PV [NH _]]].
  assert (S2 : short_site c (mkL PSValuesDone (l_pos ls) true false) tok2).
  { split; [reflexivity|]. split; [reflexivity|]. split; [exact NH|exact PS2]. }
  rewrite (parse_loop_cons c tok2). unfold iteration.
  rewrite (phase1_short c _ _ _ tok2 r2 s1 S2 T2 FS1). cbn [l_vaf].
  destruct (short_loop c (S (length r2)) r2 PRNoArg true s1) as [[[s2 p2] v2]|e s|n] eqn:SL; cbn [rbind]; try reflexivity.
  apply (after_short_kind (parse_loop c rest) rest tok tok2 ls (mkL PSValuesDone (l_pos ls) true false) s2 p2 v2).
  - apply (short_loop_kind NS _ _ _ _ _ _ _ _ (or_introl NE) SL).
  - exact PV.
  - reflexivity.
Qed.
End Cluster.

(** ** alias = canonical name, unique prefix = full name *)
Section Names.
Variable c : cmd.

(** two long spellings that the lookup resolves to the same argument (alias vs name, unique prefix vs
    full name, prefix of an alias ...), with the same attached value or none: identical results *)
Lemma long_found_not_hyphen l v pos vaf st a s pr w :
  parse_long_found c l v pos vaf st (Some a) = ROk (s, pr, w) -> pr <> PRMaybeHyphen.
Proof.
  unfold parse_long_found. destruct (a_takes_value a).
  - destruct (parse_opt_value c ILong v a (is_some v) st) as [x|e s0|n] eqn:P; cbn [rbind]; try discriminate.
    intros H; inversion H; subst.
    destruct (pov_kinds c _ _ _ _ _ _ P) as [[E _]|K]; [rewrite E; discriminate|].
    destruct (snd x); cbn in K; try contradiction; discriminate.
  - destruct v as [rst|].
    + intros H; inversion H; subst. discriminate.
    + destruct (react c (Some ILong) SCmdLine a [] None st) as [[s1 p1]|e s0|n] eqn:R; cbn [rbind fst snd]; try discriminate.
      apply react_ok_pr in R. subst p1. intros H; inversion H; subst. discriminate.
Qed.

Lemma after_long_tok rec rest tok tok' ls s pr w : pr <> PRMaybeHyphen ->
  finish_iter c rec rest tok (match pr with PRNoArg => RPanic 153 | _ => after_flag c rec rest ls (s, pr, w) end) =
  finish_iter c rec rest tok' (match pr with PRNoArg => RPanic 153 | _ => after_flag c rec rest ls (s, pr, w) end).
Proof.
  intros NH. destruct pr; try congruence; unfold after_flag, finish_iter; try reflexivity;
    destruct (resolve_pending_ignore c s); reflexivity.
Qed.

Theorem long_respell l1 l2 v a tokA tokB rest ls st :
  flag_site c ls tokA -> flag_site c ls tokB ->
  to_long tokA = Some (l1, true, v) -> to_long tokB = Some (l2, true, v) ->
  (is_nil l1 && negb (is_some v)) = false -> (is_nil l2 && negb (is_some v)) = false ->
  lookup_long c l1 = Some a -> lookup_long c l2 = Some a ->
  parse_loop c (tokA :: rest) ls st = parse_loop c (tokB :: rest) ls st.
Proof.
  intros [T [Hy [PA EA]]] [_ [_ [PB EB]]] TA TB NA NB LA LB.
  rewrite !parse_loop_cons. unfold iteration, phase1. rewrite T. cbv zeta. rewrite PA, PB, !if_same.
  unfold classify. rewrite EA, EB, TA, TB, !parse_long_arg_unfold.
  destruct (state_arg c (l_pst ls)) as [sa|e s|n]; cbn [rbind]; [|contradiction..].
  assert (HH : match sa with Some b => a_hyphen b | None => false end = false).
  { destruct sa as [b|]; [exact Hy|reflexivity]. }
  rewrite HH. cbn [negb]. rewrite NA, NB, LA, LB.
  change (parse_long_found c l1 v (l_pos ls) (l_vaf ls) st (Some a))
    with (parse_long_found c l2 v (l_pos ls) (l_vaf ls) st (Some a)).
  destruct (parse_long_found c l2 v (l_pos ls) (l_vaf ls) st (Some a)) as [[[s1 p1] w1]|e s|n] eqn:F; cbn [rbind fst snd]; try reflexivity.
  apply after_long_tok. apply (long_found_not_hyphen _ _ _ _ _ _ _ _ _ F).
Qed.

(** the property's wording, for a visible or hidden alias *)
Theorem long_alias_vs_name a l0 l vis v tokA tokB rest ls st :
  long_unique c -> In a (c_args c) -> a_index a = None ->
  a_long a = Some l0 -> In (l, vis) (a_aliases a) ->
  flag_site c ls tokA -> flag_site c ls tokB ->
  to_long tokA = Some (l, true, v) -> to_long tokB = Some (l0, true, v) ->
  (is_nil l && negb (is_some v)) = false -> (is_nil l0 && negb (is_some v)) = false ->
  parse_loop c (tokA :: rest) ls st = parse_loop c (tokB :: rest) ls st.
Proof.
  intros U Ha Hi Hl Hal FA FB TA TB NA NB.
  destruct (alias_is_key c a l0 l vis U Ha Hi Hl Hal) as [G1 G2].
  apply (long_respell l l0 v a tokA tokB rest ls st FA FB TA TB NA NB).
  - apply long_exact_wins. exact G1.
  - apply long_exact_wins. rewrite <- G2. exact G1.
Qed.

(** a prefix that inference resolves (it is then the only candidate, [C08_infer_unique]) vs any exact key
    of the same argument *)
Theorem long_prefix_vs_name a p l0 v tokA tokB rest ls st :
  lookup_long c p = Some a -> get_long c l0 = Some a ->
  flag_site c ls tokA -> flag_site c ls tokB ->
  to_long tokA = Some (p, true, v) -> to_long tokB = Some (l0, true, v) ->
  (is_nil p && negb (is_some v)) = false -> (is_nil l0 && negb (is_some v)) = false ->
  parse_loop c (tokA :: rest) ls st = parse_loop c (tokB :: rest) ls st.
Proof.
  intros LP G FA FB TA TB NA NB.
  apply (long_respell p l0 v a tokA tokB rest ls st FA FB TA TB NA NB LP). apply long_exact_wins. exact G.
Qed.

(** short alias vs short name (first letter of a cluster, the rest of the cluster unchanged) *)
Lemma short_loop_head r1 r2 ch1 ch2 r' a ret vaf st :
  sf_next r1 = Some (inl ch1, r') -> sf_next r2 = Some (inl ch2, r') ->
  get_short c ch1 = Some a -> get_short c ch2 = Some a ->
  short_loop c (S (length r1)) r1 ret vaf st = short_loop c (S (length r2)) r2 ret vaf st.
Proof.
  intros N1 N2 G1 G2. cbn [short_loop]. rewrite N1, N2, G1, G2.
  apply sf_next_shrinks' in N1. apply sf_next_shrinks' in N2.
  destruct (negb (a_takes_value a)).
  - destruct (react c (Some IShort) SCmdLine a [] None st) as [x|e s|n]; cbn [rbind]; try reflexivity.
    apply short_loop_fuel; assumption.
  - destruct (match match r' with [] => None | _ => Some r' end with
              | Some (61 :: v) => (Some v, true)
              | _ => (match r' with [] => None | _ => Some r' end, false) end) as [val he].
    destruct (parse_opt_value c IShort val a he st) as [x|e s|n]; cbn [rbind]; try reflexivity.
    destruct (snd x); try reflexivity. apply short_loop_fuel; assumption.
Qed.

Theorem short_respell ch1 ch2 a r1 r2 r' tokA tokB rest ls st :
  no_short_subs c ->
  short_site c ls tokA -> short_site c ls tokB ->
  to_short tokA = Some r1 -> sf_next r1 = Some (inl ch1, r') ->
  to_short tokB = Some r2 -> sf_next r2 = Some (inl ch2, r') ->
  get_short c ch1 = Some a -> get_short c ch2 = Some a -> fs_skip st = 0 ->
  parse_loop c (tokA :: rest) ls st = parse_loop c (tokB :: rest) ls st.
Proof.
  intros NS SA SB TA N1 TB N2 G1 G2 FS.
  rewrite !parse_loop_cons. unfold iteration.
  rewrite (phase1_short c _ _ ls tokA r1 st SA TA FS), (phase1_short c _ _ ls tokB r2 st SB TB FS).
  rewrite (short_loop_head r1 r2 ch1 ch2 r' a PRNoArg (l_vaf ls) st N1 N2 G1 G2).
  destruct (short_loop c (S (length r2)) r2 PRNoArg (l_vaf ls) st) as [[[s2 p2] v2]|e s|n] eqn:SL; cbn [rbind]; try reflexivity.
  apply after_short_kind; try reflexivity.
  assert (NE : r2 <> []) by (intros E; rewrite E in N2; discriminate N2).
  apply (short_loop_kind c NS _ _ _ _ _ _ _ _ (or_introl NE) SL).
Qed.
End Names.

(** ** a whole cluster of flags = the flags one by one *)
Section Singles.
Variable c : cmd.

(** an ASCII flag letter (other than [-]) that takes no value *)
Definition flag_ch (ch : N) : Prop :=
  ch < 128 /\ ch <> 45 /\ exists a, get_short c ch = Some a /\ a_takes_value a = false.
(** no token starting with [-] is taken for a subcommand name *)
Definition dash_not_sub : Prop := forall t vaf, possible_subcommand c (45 :: t) vaf = None.

Lemma to_short_dash ch r : ch <> 45 -> to_short (45 :: ch :: r) = Some (ch :: r).
Proof.
  intros NE. unfold to_short, strip_prefix, DASH. cbn [starts_with length skipn].
  change ((45 =? 45) && true) with true. cbn iota. cbn [starts_with is_nil].
  apply N.eqb_neq in NE. rewrite NE. reflexivity.
Qed.

Lemma single_flag_step ch a X ls st :
  dash_not_sub -> l_trailing ls = false -> l_pst ls = PSValuesDone -> no_hyphen_pos c (l_pos ls) ->
  ch < 128 -> ch <> 45 -> get_short c ch = Some a -> a_takes_value a = false -> fs_skip st = 0 ->
  parse_loop c ([45; ch] :: X) ls st =
  (do x <- react c (Some IShort) SCmdLine a [] None st;
   parse_loop c X (mkL PSValuesDone (l_pos ls) true false) (fst x)).
Proof.
  intros DS T PV NH LT NE GS TV FS.
  assert (SS : short_site c ls [45; ch]) by (repeat split; try assumption; apply DS).
  rewrite parse_loop_cons. unfold iteration.
  rewrite (phase1_short c _ _ ls [45; ch] [ch] st SS (to_short_dash ch [] NE) FS). cbn [length].
  rewrite (short_loop_flag_step c 1 [ch] ch [] a PRNoArg (l_vaf ls) st (sf_next_ascii ch [] LT) GS TV).
  destruct (react c (Some IShort) SCmdLine a [] None st) as [[s1 p1]|e s|n] eqn:R; cbn [rbind fst snd]; try reflexivity.
  apply react_ok_pr in R. subst p1. reflexivity.
Qed.

Theorem cluster_vs_singles : no_short_subs c -> dash_not_sub ->
  forall chs ch0 rest ls st,
  Forall flag_ch (ch0 :: chs) ->
  l_trailing ls = false -> l_pst ls = PSValuesDone -> no_hyphen_pos c (l_pos ls) -> fs_skip st = 0 ->
  parse_loop c ((45 :: ch0 :: chs) :: rest) ls st =
  parse_loop c (map (fun ch => [45; ch]) (ch0 :: chs) ++ rest) ls st.
Proof.
  intros NS DS. induction chs as [|ch1 chs IH]; intros ch0 rest ls st FA T PV NH FS; [reflexivity|].
  inversion FA as [|? ? [LT0 [NE0 [a0 [G0 TV0]]]] FA']; subst.
  inversion FA' as [|? ? [LT1 [NE1 _]] _]; subst.
  assert (SS : forall t, short_site c ls (45 :: t)) by (intros t; repeat split; try assumption; apply DS).
  etransitivity; [apply (cluster_vs_split c ch0 a0 (ch0 :: ch1 :: chs) [ch0] (ch1 :: chs)
             (45 :: ch0 :: ch1 :: chs) [45; ch0] (45 :: ch1 :: chs) rest ls st NS (SS _) (SS _) (DS _ _)
             (to_short_dash ch0 _ NE0) (sf_next_ascii ch0 _ LT0) ltac:(discriminate)
             (to_short_dash ch0 [] NE0) (sf_next_ascii ch0 [] LT0) (to_short_dash ch1 _ NE1) G0 TV0 FS)|].
  cbn [map app].
  etransitivity; [apply (single_flag_step ch0 a0 _ ls st DS T PV NH LT0 NE0 G0 TV0 FS)|].
  etransitivity; [|symmetry; apply (single_flag_step ch0 a0 _ ls st DS T PV NH LT0 NE0 G0 TV0 FS)].
  destruct (react c (Some IShort) SCmdLine a0 [] None st) as [[s1 p1]|e s|n] eqn:R; cbn [rbind fst]; try reflexivity.
  apply (IH ch1 rest _ s1 FA'); try reflexivity; [exact NH|].
  rewrite (react_fs _ _ _ _ _ _ _ _ _ R). exact FS.
Qed.
End Singles.

(** a decidable sufficient condition for [dash_not_sub]: no subcommand name or alias starts with [-] *)
Definition no_dash_names (c : cmd) : bool :=
  forallb (fun s => forallb (fun n => negb (match n with 45 :: _ => true | _ => false end)) (c_name s :: all_aliases s)) (c_subs c).

Lemma is_prefix_dash t n : match n with 45 :: _ => true | _ => false end = false -> is_prefix (45 :: t) n = false.
Proof.
  unfold is_prefix. destruct n as [|x u]; [reflexivity|]. cbn [starts_with].
  destruct (x =? 45) eqn:X; [|reflexivity]. apply N.eqb_eq in X. subst x. discriminate.
Qed.

Lemma beq_dash t n : match n with 45 :: _ => true | _ => false end = false -> beq n (45 :: t) = false.
Proof.
  intros H. apply beq_neq. intros E. subst n. discriminate.
Qed.

Lemma dash_not_sub_of_b c : no_dash_names c = true -> dash_not_sub c.
Proof.
  unfold no_dash_names. intros H t vaf. rewrite forallb_forall in H.
  assert (HS : forall s, In s (c_subs c) -> sub_pick (45 :: t) s = None /\ aliases_to s (45 :: t) = false).
  { intros s Hs. specialize (H s Hs). rewrite forallb_forall in H.
    assert (HN : forall n, In n (c_name s :: all_aliases s) -> match n with 45 :: _ => true | _ => false end = false).
    { intros n Hn. specialize (H n Hn). apply negb_true_iff in H. exact H. }
    split.
    - unfold sub_pick. rewrite (is_prefix_dash t (c_name s) (HN _ (or_introl eq_refl))).
      destruct (find (is_prefix (45 :: t)) (all_aliases s)) as [n|] eqn:F; [|reflexivity].
      apply find_some in F. destruct F as [Hin Hp]. rewrite (is_prefix_dash t n (HN _ (or_intror Hin))) in Hp. discriminate.
    - unfold aliases_to. rewrite (beq_dash t (c_name s) (HN _ (or_introl eq_refl))). cbn [orb].
      destruct (existsb (beq (45 :: t)) (all_aliases s)) eqn:X; [|reflexivity].
      apply existsb_exists in X. destruct X as [n [Hin Hb]]. apply beq_eq in Hb. subst n.
      specialize (HN _ (or_intror Hin)). discriminate. }
  rewrite possible_subcommand_unfold.
  destruct (negb (utf8_valid (45 :: t))); [reflexivity|].
  destruct (is_set s_args_negate_subs c && vaf); [reflexivity|].
  assert (FM : Cmd.filter_map (sub_pick (45 :: t)) (c_subs c) = []).
  { clear H. induction (c_subs c) as [|s l IH]; [reflexivity|]. cbn [Cmd.filter_map].
    destruct (HS s (or_introl eq_refl)) as [-> _]. apply IH. intros s' Hs'. apply HS. right. exact Hs'. }
  assert (FS : find_subcommand c (45 :: t) = None).
  { unfold find_subcommand. destruct (find (fun s => aliases_to s (45 :: t)) (c_subs c)) as [s|] eqn:F; [|reflexivity].
    apply find_some in F. destruct F as [Hin Ha]. destruct (HS s Hin) as [_ E]. congruence. }
  rewrite FM, FS. destruct (is_set s_infer_sub c); reflexivity.
Qed.

(** a decidable sufficient condition for [no_short_subs] *)
Definition no_short_subs_b (c : cmd) : bool :=
  forallb (fun s => negb (is_some (c_short_flag s)) && is_nil (c_short_flag_aliases s)) (c_subs c).
Lemma no_short_subs_of_b c : no_short_subs_b c = true -> no_short_subs c.
Proof.
  unfold no_short_subs_b, no_short_subs, find_short_subcmd. intros H ch. rewrite forallb_forall in H.
  destruct (find (fun s => short_flag_aliases_to s ch) (c_subs c)) as [s|] eqn:F; [|reflexivity].
  apply find_some in F. destruct F as [Hin Ha]. specialize (H s Hin). apply andb_true_iff in H. destruct H as [H1 H2].
  unfold short_flag_aliases_to in Ha. destruct (c_short_flag s); [discriminate|].
  destruct (c_short_flag_aliases s); [discriminate|discriminate].
Qed.

(** * Line-level corollaries: the occurrence at the head of the command line, through [parse_top] *)
Section Lines.
Variable c0 : cmd.
Variable bin : bytes.
Hypothesis NB : is_set s_no_binary_name c0 = false.
Let c := build_self (top_cmd c0 bin).
Hypothesis IE : is_set s_ignore_errors c = false.

Theorem short_space_vs_att_top ch a r b t rA rB tokA tokB rest x0 :
  is_set s_sub_precedence c = false ->
  short_site c ls_top tokA -> short_site c ls_top tokB ->
  to_short tokA = Some rA -> sf_next rA = Some (inl ch, b :: t) -> b <> 61 ->
  to_short tokB = Some rB -> sf_next rB = Some (inl ch, []) ->
  get_short c ch = Some a -> single_opt c a r -> plain_value a (b :: t) ->
  react c (Some IShort) SCmdLine a [b :: t] None ps_new = ROk x0 ->
  parse_top c0 (bin :: tokB :: (b :: t) :: rest) = parse_top c0 (bin :: tokA :: rest).
Proof.
  intros. apply (parse_top_lift c0 bin _ _ NB IE).
  apply (short_space_vs_att c ch a r b t rA rB tokA tokB rest ls_top ps_new x0); try assumption. reflexivity.
Qed.

Theorem short_eq_vs_att_top ch a b t rA rC tokA tokC rest :
  short_site c ls_top tokA -> short_site c ls_top tokC ->
  to_short tokA = Some rA -> sf_next rA = Some (inl ch, b :: t) -> b <> 61 ->
  to_short tokC = Some rC -> sf_next rC = Some (inl ch, 61 :: b :: t) ->
  get_short c ch = Some a -> a_takes_value a = true -> a_req_eq a = false ->
  parse_top c0 (bin :: tokC :: rest) = parse_top c0 (bin :: tokA :: rest).
Proof.
  intros. apply (parse_top_lift c0 bin _ _ NB IE). apply res_rel_eq.
  apply (short_eq_vs_att c ch a b t rA rC tokA tokC rest ls_top ps_new); try assumption. reflexivity.
Qed.

Theorem cluster_vs_singles_top chs ch0 rest :
  no_short_subs c -> dash_not_sub c -> Forall (flag_ch c) (ch0 :: chs) -> no_hyphen_pos c 1 ->
  parse_top c0 (bin :: (45 :: ch0 :: chs) :: rest) = parse_top c0 (bin :: map (fun ch => [45; ch]) (ch0 :: chs) ++ rest).
Proof.
  intros NS DS FA NH. apply (parse_top_lift c0 bin _ _ NB IE). apply res_rel_eq.
  apply (cluster_vs_singles c NS DS chs ch0 rest ls_top ps_new FA); try reflexivity. exact NH.
Qed.

Theorem long_respell_top l1 l2 v a tokA tokB rest :
  flag_site c ls_top tokA -> flag_site c ls_top tokB ->
  to_long tokA = Some (l1, true, v) -> to_long tokB = Some (l2, true, v) ->
  (is_nil l1 && negb (is_some v)) = false -> (is_nil l2 && negb (is_some v)) = false ->
  lookup_long c l1 = Some a -> lookup_long c l2 = Some a ->
  parse_top c0 (bin :: tokA :: rest) = parse_top c0 (bin :: tokB :: rest).
Proof.
  intros. apply (parse_top_lift c0 bin _ _ NB IE). apply res_rel_eq.
  apply (long_respell c l1 l2 v a tokA tokB rest ls_top ps_new); assumption.
Qed.

Theorem short_respell_top ch1 ch2 a r1 r2 r' tokA tokB rest :
  no_short_subs c -> short_site c ls_top tokA -> short_site c ls_top tokB ->
  to_short tokA = Some r1 -> sf_next r1 = Some (inl ch1, r') ->
  to_short tokB = Some r2 -> sf_next r2 = Some (inl ch2, r') ->
  get_short c ch1 = Some a -> get_short c ch2 = Some a ->
  parse_top c0 (bin :: tokA :: rest) = parse_top c0 (bin :: tokB :: rest).
Proof.
  intros. apply (parse_top_lift c0 bin _ _ NB IE). apply res_rel_eq.
  apply (short_respell c ch1 ch2 a r1 r2 r' tokA tokB rest ls_top ps_new); try assumption. reflexivity.
Qed.
End Lines.

(** * Non-vacuity of the short / cluster / name theorems (command [exl]) *)
Definition t_o : bytes := [45; 111].
Definition t_ov : bytes := [45; 111; 118].
Definition t_o_eq_v : bytes := [45; 111; 61; 118].

Example ex_short_hyps :
  short_site exl ls_top t_ov /\ short_site exl ls_top t_o /\ short_site exl ls_top t_o_eq_v /\
  to_short t_ov = Some [111; 118] /\ sf_next [111; 118] = Some (inl 111, [118]) /\ 118 <> 61 /\
  to_short t_o = Some [111] /\ sf_next [111] = Some (inl 111, []) /\
  to_short t_o_eq_v = Some [111; 61; 118] /\ sf_next [111; 61; 118] = Some (inl 111, [61; 118]) /\
  get_short exl 111 = Some exl_opt /\ plain_value exl_opt [118] /\
  (exists x0, react exl (Some IShort) SCmdLine exl_opt [[118]] None ps_new = ROk x0) /\
  out_ok (parse_top exl_cmd [[112]; t_o; t_v; t_run]) = true /\
  parse_top exl_cmd [[112]; t_o; t_v; t_run] = parse_top exl_cmd [[112]; t_o_eq_v; t_run].
Proof.
  assert (SS : forall t, possible_subcommand exl t false = None -> short_site exl ls_top t).
  { intros t H. split; [reflexivity|]. split; [reflexivity|]. split; [vm_compute; auto|exact H]. }
  split; [apply SS; vm_compute; reflexivity|]. split; [apply SS; vm_compute; reflexivity|].
  split; [apply SS; vm_compute; reflexivity|].
  split; [vm_compute; reflexivity|]. split; [vm_compute; reflexivity|]. split; [discriminate|].
  split; [vm_compute; reflexivity|]. split; [vm_compute; reflexivity|].
  split; [vm_compute; reflexivity|]. split; [vm_compute; reflexivity|].
  split; [vm_compute; reflexivity|]. split; [vm_compute; auto|].
  split; [eexists; vm_compute; reflexivity|]. split; vm_compute; reflexivity.
Qed.

Example ex_cluster_hyps :
  no_short_subs exl /\ dash_not_sub exl /\ Forall (flag_ch exl) [97; 98] /\ no_hyphen_pos exl 1 /\
  out_ok (parse_top exl_cmd [[112]; [45; 97; 98]; t_f; t_run]) = true /\
  parse_top exl_cmd [[112]; [45; 97; 98]; t_f; t_run] = parse_top exl_cmd [[112]; [45; 97]; [45; 98]; t_f; t_run].
Proof.
  split; [apply no_short_subs_of_b; vm_compute; reflexivity|].
  split; [apply dash_not_sub_of_b; vm_compute; reflexivity|].
  split.
  { constructor; [|constructor; [|constructor]]; (split; [reflexivity|]); (split; [discriminate|]);
    eexists; split; vm_compute; reflexivity. }
  split; [vm_compute; auto|]. split; vm_compute; reflexivity.
Qed.

(** hidden alias [--alp] vs [--alpha]; inferred prefix [--op=v] vs [--opt=v]; short alias [-A] vs [-a] *)
Example ex_names_hyps :
  flag_site exl ls_top [45; 45; 97; 108; 112] /\ flag_site exl ls_top [45; 45; 97; 108; 112; 104; 97] /\
  get_long exl [97; 108; 112] = get_long exl [97; 108; 112; 104; 97] /\ get_long exl [97; 108; 112] <> None /\
  get_long exl [111; 112] = None /\ lookup_long exl [111; 112] = Some exl_opt /\ get_long exl [111; 112; 116] = Some exl_opt /\
  to_long [45; 45; 111; 112; 61; 118] = Some ([111; 112], true, Some [118]) /\
  get_short exl 65 = get_short exl 97 /\ get_short exl 65 <> None /\
  out_ok (parse_top exl_cmd [[112]; [45; 45; 97; 108; 112]; t_run]) = true /\
  parse_top exl_cmd [[112]; [45; 45; 97; 108; 112]; t_run] = parse_top exl_cmd [[112]; [45; 45; 97; 108; 112; 104; 97]; t_run] /\
  parse_top exl_cmd [[112]; [45; 45; 111; 112; 61; 118]; t_run] = parse_top exl_cmd [[112]; t_opt_eq_v; t_run] /\
  parse_top exl_cmd [[112]; [45; 65]; t_run] = parse_top exl_cmd [[112]; [45; 97]; t_run].
Proof.
  split; [vm_compute; auto|]. split; [vm_compute; auto|].
  split; [vm_compute; reflexivity|]. split; [vm_compute; discriminate|].
  split; [vm_compute; reflexivity|]. split; [vm_compute; reflexivity|]. split; [vm_compute; reflexivity|].
  split; [vm_compute; reflexivity|]. split; [vm_compute; reflexivity|]. split; [vm_compute; discriminate|].
  split; [vm_compute; reflexivity|]. split; [vm_compute; reflexivity|]. split; vm_compute; reflexivity.
Qed.

(** * The occurrence after a prefix of separate flags (successful lines) *)
Section Prefix.
Variable c : cmd.

(** a rewriting [X ~> Y] that is sound at every loop state of the class whenever the [X] line succeeds
    stays sound behind any sequence of separate flag tokens *)
Theorem flags_prefix_congr X Y : dash_not_sub c ->
  forall chs ls st, Forall (flag_ch c) chs ->
  l_trailing ls = false -> l_pst ls = PSValuesDone -> no_hyphen_pos c (l_pos ls) -> fs_skip st = 0 ->
  (forall ls' st' lr, l_trailing ls' = false -> l_pst ls' = PSValuesDone -> l_pos ls' = l_pos ls -> fs_skip st' = 0 ->
     parse_loop c X ls' st' = ROk lr -> res_rel c (parse_loop c Y ls' st') (ROk lr)) ->
  forall lr, parse_loop c (map (fun ch => [45; ch]) chs ++ X) ls st = ROk lr ->
  res_rel c (parse_loop c (map (fun ch => [45; ch]) chs ++ Y) ls st) (ROk lr).
Proof.
  intros DS. induction chs as [|ch chs IH]; intros ls st FA T PV NH FS H lr.
  - cbn [map app]. apply H; try assumption. reflexivity.
  - inversion FA as [|? ? [LT [NE [a [G TV]]]] FA']; subst. cbn [map app].
    rewrite !(single_flag_step c ch a _ ls st DS T PV NH LT NE G TV FS).
    destruct (react c (Some IShort) SCmdLine a [] None st) as [[s1 p1]|e s|n] eqn:R; cbn [rbind fst]; try discriminate.
    apply (IH _ s1 FA'); try reflexivity; [exact NH|rewrite (react_fs _ _ _ _ _ _ _ _ _ R); exact FS|].
    intros ls' st' lr' T' PV' PO' FS'. apply H; try assumption.
Qed.

(** a successful [--opt=v ...] has accepted the occurrence *)
Lemma long_eq_success l v a tokA rest ls st lr :
  flag_site c ls tokA -> to_long tokA = Some (l, true, Some v) -> lookup_long c l = Some a ->
  a_takes_value a = true -> a_req_eq a = false ->
  parse_loop c (tokA :: rest) ls st = ROk lr ->
  exists x0, react c (Some ILong) SCmdLine a [v] None st = ROk x0.
Proof.
  intros FA TA LK TV RE. rewrite parse_loop_cons. unfold iteration.
  rewrite (phase1_long c _ _ ls tokA l (Some v) a st FA TA) by (try assumption; apply andb_false_r).
  cbn [is_some]. rewrite (parse_opt_value_attached c ILong v a true st RE).
  destruct (react c (Some ILong) SCmdLine a [v] None st) as [x0|e s|n]; cbn [finish_iter rbind]; try discriminate.
  intros _. exists x0. reflexivity.
Qed.

(** [-a -b ... --opt v rest] vs [-a -b ... --opt=v rest], successful lines *)
Theorem after_flags_long_space_vs_eq chs l v a r tokA tokB rest ls st lr :
  is_set s_sub_precedence c = false -> dash_not_sub c -> Forall (flag_ch c) chs ->
  l_trailing ls = false -> l_pst ls = PSValuesDone -> no_hyphen_pos c (l_pos ls) -> fs_skip st = 0 ->
  is_escape tokA = false -> is_escape tokB = false ->
  possible_subcommand c tokA false = None -> possible_subcommand c tokB false = None ->
  to_long tokA = Some (l, true, Some v) -> to_long tokB = Some (l, true, None) ->
  lookup_long c l = Some a -> single_opt c a r -> plain_value a v ->
  parse_loop c (map (fun ch => [45; ch]) chs ++ tokA :: rest) ls st = ROk lr ->
  res_rel c (parse_loop c (map (fun ch => [45; ch]) chs ++ tokB :: v :: rest) ls st) (ROk lr).
Proof.
  intros SP DS FA T PV NH FS EA EB PA PB TA TB LK SO PL.
  apply (flags_prefix_congr (tokA :: rest) (tokB :: v :: rest) DS chs ls st FA T PV NH FS).
  intros ls' st' lr' T' PV' PO' FS' OK.
  assert (FS_ : forall tok, is_escape tok = false -> possible_subcommand c tok false = None -> flag_site c ls' tok).
  { intros tok E P. split; [exact T'|]. split; [rewrite PV'; exact I|]. split; [apply possible_subcommand_vaf; exact P|exact E]. }
  pose proof SO as [TV [RE _]].
  destruct (long_eq_success l v a tokA rest ls' st' lr' (FS_ _ EA PA) TA LK TV RE OK) as [x0 R].
  rewrite <- OK.
  apply (long_space_vs_eq c l v a r tokA tokB rest ls' st' x0 SP (FS_ _ EA PA) (FS_ _ EB PB) TA TB LK SO PL FS' R).
Qed.
End Prefix.

Lemma parse_top_cons c0 bin toks : is_set s_no_binary_name c0 = false ->
  parse_top c0 (bin :: toks) = do_parse (top_cmd c0 bin) toks.
Proof. intros NB. unfold parse_top. rewrite NB. reflexivity. Qed.

(** lifting a success-conditional loop result to [parse_top] *)
Lemma parse_top_lift_ok c0 bin X Y m : is_set s_no_binary_name c0 = false ->
  let c := build_self (top_cmd c0 bin) in
  is_set s_ignore_errors c = false ->
  (forall lr, parse_loop c X ls_top ps_new = ROk lr -> res_rel c (parse_loop c Y ls_top ps_new) (ROk lr)) ->
  parse_top c0 (bin :: X) = OOk m -> parse_top c0 (bin :: Y) = OOk m.
Proof.
  intros NB c IE H OK.
  destruct (parse_loop c X ls_top ps_new) as [lr|e s|n] eqn:PX.
  - rewrite <- OK. apply (parse_top_lift c0 bin Y X NB IE). fold c. rewrite PX. apply H. reflexivity.
  - exfalso. subst c. unfold ls_top in PX. revert OK. rewrite (parse_top_cons c0 bin X NB). unfold do_parse. cbv zeta.
    destruct (negb (valid (top_cmd c0 bin))); [discriminate|].
    rewrite gmw_unfold, parsed_of_dispatch, PX. cbn [rbind post]. rewrite IE. cbn [andb]. discriminate.
  - exfalso. subst c. unfold ls_top in PX. revert OK. rewrite (parse_top_cons c0 bin X NB). unfold do_parse. cbv zeta.
    destruct (negb (valid (top_cmd c0 bin))); [discriminate|].
    rewrite gmw_unfold, parsed_of_dispatch, PX. cbn [rbind post]. destruct n; discriminate.
Qed.

Theorem after_flags_long_space_vs_eq_top c0 bin chs l v a r tokA tokB rest m :
  is_set s_no_binary_name c0 = false ->
  let c := build_self (top_cmd c0 bin) in
  is_set s_ignore_errors c = false -> is_set s_sub_precedence c = false ->
  dash_not_sub c -> Forall (flag_ch c) chs -> no_hyphen_pos c 1 ->
  is_escape tokA = false -> is_escape tokB = false ->
  possible_subcommand c tokA false = None -> possible_subcommand c tokB false = None ->
  to_long tokA = Some (l, true, Some v) -> to_long tokB = Some (l, true, None) ->
  lookup_long c l = Some a -> single_opt c a r -> plain_value a v ->
  parse_top c0 (bin :: map (fun ch => [45; ch]) chs ++ tokA :: rest) = OOk m ->
  parse_top c0 (bin :: map (fun ch => [45; ch]) chs ++ tokB :: v :: rest) = OOk m.
Proof.
  intros NB c IE SP DS FA NH EA EB PA PB TA TB LK SO PL.
  apply (parse_top_lift_ok c0 bin _ _ m NB IE). intros lr OK.
  apply (after_flags_long_space_vs_eq c chs l v a r tokA tokB rest ls_top ps_new lr); try assumption; reflexivity.
Qed.

Example ex_after_flags :
  Forall (flag_ch exl) [97; 98] /\
  out_ok (parse_top exl_cmd ([112] :: map (fun ch => [45; ch]) [97; 98] ++ t_opt_eq_v :: [t_run])) = true /\
  parse_top exl_cmd ([112] :: map (fun ch => [45; ch]) [97; 98] ++ t_opt :: t_v :: [t_run]) =
  parse_top exl_cmd ([112] :: map (fun ch => [45; ch]) [97; 98] ++ t_opt_eq_v :: [t_run]).
Proof.
  split; [exact (proj1 (proj2 (proj2 ex_cluster_hyps)))|]. split; vm_compute; reflexivity.
Qed.

(** the unconditional variant, for rewritings that are equalities at every loop state of the class
    (clusters, aliases, prefixes, [-o=v] vs [-ov]) *)
Theorem flags_prefix_congr_eq c X Y : dash_not_sub c ->
  forall chs ls st, Forall (flag_ch c) chs ->
  l_trailing ls = false -> l_pst ls = PSValuesDone -> no_hyphen_pos c (l_pos ls) -> fs_skip st = 0 ->
  (forall ls' st', l_trailing ls' = false -> l_pst ls' = PSValuesDone -> l_pos ls' = l_pos ls -> fs_skip st' = 0 ->
     parse_loop c X ls' st' = parse_loop c Y ls' st') ->
  parse_loop c (map (fun ch => [45; ch]) chs ++ X) ls st = parse_loop c (map (fun ch => [45; ch]) chs ++ Y) ls st.
Proof.
  intros DS. induction chs as [|ch chs IH]; intros ls st FA T PV NH FS H.
  - cbn [map app]. apply H; try assumption. reflexivity.
  - inversion FA as [|? ? [LT [NE [a [G TV]]]] FA']; subst. cbn [map app].
    rewrite !(single_flag_step c ch a _ ls st DS T PV NH LT NE G TV FS).
    destruct (react c (Some IShort) SCmdLine a [] None st) as [[s1 p1]|e s|n] eqn:R; cbn [rbind fst]; try reflexivity.
    apply (IH _ s1 FA'); try reflexivity; [exact NH|rewrite (react_fs _ _ _ _ _ _ _ _ _ R); exact FS|].
    intros ls' st' T' PV' PO' FS'. apply H; try assumption.
Qed.

(** e.g. a long alias / inferred prefix behind any prefix of separate flags *)
Theorem after_flags_long_respell c chs l1 l2 v a tokA tokB rest ls st :
  dash_not_sub c -> Forall (flag_ch c) chs ->
  l_trailing ls = false -> l_pst ls = PSValuesDone -> no_hyphen_pos c (l_pos ls) -> fs_skip st = 0 ->
  is_escape tokA = false -> is_escape tokB = false ->
  possible_subcommand c tokA false = None -> possible_subcommand c tokB false = None ->
  to_long tokA = Some (l1, true, v) -> to_long tokB = Some (l2, true, v) ->
  (is_nil l1 && negb (is_some v)) = false -> (is_nil l2 && negb (is_some v)) = false ->
  lookup_long c l1 = Some a -> lookup_long c l2 = Some a ->
  parse_loop c (map (fun ch => [45; ch]) chs ++ tokA :: rest) ls st =
  parse_loop c (map (fun ch => [45; ch]) chs ++ tokB :: rest) ls st.
Proof.
  intros DS FA T PV NH FS EA EB PA PB TA TB NA NB LA LB.
  apply (flags_prefix_congr_eq c _ _ DS chs ls st FA T PV NH FS).
  intros ls' st' T' PV' PO' FS'.
  assert (FS_ : forall tok, is_escape tok = false -> possible_subcommand c tok false = None -> flag_site c ls' tok).
  { intros tok E P. split; [exact T'|]. split; [rewrite PV'; exact I|]. split; [apply possible_subcommand_vaf; exact P|exact E]. }
  apply (long_respell c l1 l2 v a tokA tokB rest ls' st' (FS_ _ EA PA) (FS_ _ EB PB) TA TB NA NB LA LB).
Qed.
