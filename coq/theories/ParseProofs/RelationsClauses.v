(** Property C03, clause by clause.

    [Relations c mt] (ParseProofs/Relations.v) is one record; this file spells out every clause
    of the property text as its own consequence, for ALL relation graphs and all matchers:
    conflicts (arg/arg, arg/group, through groups, overrides), exclusive, non-multiple groups,
    required (static, [requires], [requires_if], chains of [requires] -- the transitive closure
    by induction --, required groups, the [requires] of groups), the four conditional rules, the
    exemptions exactly as the code grants them (with witnesses that each one is really granted and
    that the conditional rules have none), and "defaults never count as presence" for every rule
    at once: [Relations] is a function of the explicit entries only. *)
From Coq Require Import ZArith List Bool Lia Relations.Relation_Operators.
Import ListNotations.
From ClapModel Require Import Base.Bytes Base.Machine.
From ClapModel Require Import Parse.Cmd Parse.Build Parse.Valid Parse.Matcher Parse.Errors Parse.Validator Parse.Parser.
From ClapModel Require Import ParseProofs.Relations.
From RecordUpdate Require Import RecordSet.
Import RecordSetNotations.
Open Scope N_scope.

Section Clauses.
Variable c : cmd.
Variable mt : matcher.
Hypothesis R : Relations c mt.
Notation P := (present mt).

(** ** (R1) conflicts *)

(** [Arg::conflicts_with]: the declaring arg and the named arg or group are never both present *)
Theorem clause_conflicts_with i a y :
  arg_of c i a -> In y (a_blacklist a) -> y <> i -> P i -> P y -> False.
Proof.
  intros Ha Hy Hne Pi Py. destruct (rel_conflicts c mt _ R i a y Ha Pi Py Hne) as [H _].
  apply H. left. exists a. auto.
Qed.

(** [Arg::overrides_with] implies a conflict ("overrides are implicitly conflicts") *)
Theorem clause_overrides_conflict i a y :
  arg_of c i a -> In y (a_overrides a) -> y <> i -> P i -> P y -> False.
Proof.
  intros Ha Hy Hne Pi Py. destruct (rel_conflicts c mt _ R i a y Ha Pi Py Hne) as [H _].
  apply H. left. exists a. auto.
Qed.

(** a conflict declared by a group [g] holds for each of its members *)
Theorem clause_group_conflict_member i a g y :
  arg_of c i a -> member c i g -> In y (g_conflicts g) -> y <> i -> P i -> P y -> False.
Proof.
  intros Ha Hm Hy Hne Pi Py. destruct (rel_conflicts c mt _ R i a y Ha Pi Py Hne) as [H _].
  apply H. left. exists a. split; [exact Ha|]. right. right. exists g. auto.
Qed.

(** [ArgGroup::conflicts_with] seen from the group's own entry: a present group and a present
    arg it names *)
Theorem clause_group_conflicts_with x g y b :
  group_of c x g -> In y (g_conflicts g) -> arg_of c y b -> P x -> P y -> False.
Proof.
  intros Hg Hy Hb Px Py.
  assert (Hne : x <> y). { intros ->. destruct Hg as [Hn _]. unfold arg_of in Hb. congruence. }
  destruct (rel_conflicts c mt _ R y b x Hb Py Px Hne) as [_ H].
  apply H. right. exists g. auto.
Qed.

(** an arg that names a *group* as conflict: the group's entry and the arg are never both present *)
Theorem clause_conflicts_with_group i a x g :
  arg_of c i a -> In x (a_blacklist a) -> group_of c x g -> P i -> P x -> False.
Proof.
  intros Ha Hx Hg Pi Px. apply (clause_conflicts_with i a x Ha Hx); auto.
  intros ->. destruct Hg as [Hn _]. unfold arg_of in Ha. congruence.
Qed.

(** a non-[multiple] group has at most one member present *)
Theorem clause_group_single g i j a :
  In g (c_groups c) -> g_multiple g = false -> In i (g_args g) -> In j (g_args g) ->
  arg_of c i a -> P i -> P j -> i = j.
Proof. intros. eapply group_single; eassumption. Qed.

(** ** (R2) an exclusive argument is present alone *)
Theorem clause_exclusive i a j b :
  arg_of c i a -> a_exclusive a = true -> P i -> arg_of c j b -> P j -> j = i.
Proof. apply (rel_exclusive c mt _ R). Qed.

(** ** (R3) required *)
Hypothesis NR : negates_reqs c mt = false.

(** what "satisfied" means for an argument: present, or one of the two exemptions *)
Definition arg_satisfied (x : id) : Prop := P x \/ exclusive_present c P \/ excused c P x.
(** for a group: its entry or one of its members is present (no exemption) *)
Definition group_satisfied (x : id) (g : group) : Prop := P x \/ exists m, In m (g_args g) /\ P m.

(** statically required *)
Theorem clause_required_static i a : arg_of c i a -> a_required a = true -> arg_satisfied i.
Proof.
  intros Ha Hr. destruct (find_arg_id c i a Ha) as [Hid Hin].
  assert (HR : Required c mt P i). { rewrite <- Hid. now apply Rq_static. }
  apply (proj1 (rel_required c mt _ R NR i HR) a Ha).
Qed.

(** [requires] / [requires_if]: a present arg whose rule fires demands its target *)
Theorem clause_requires_arg i a m p y b :
  arg_of c i a -> fm_get i (mt_args mt) = Some m -> In (p, y) (a_requires a) -> holds p m ->
  arg_of c y b -> arg_satisfied y.
Proof.
  intros Ha Hm Hin Hh Hb.
  assert (HR : Required c mt P y).
  { apply (Rq_requires c mt P i m y Hm (proj1 Hh)). now apply (RB_direct c i m a p y). }
  apply (proj1 (rel_required c mt _ R NR y HR) b Hb).
Qed.
Theorem clause_requires_group i a m p y g :
  arg_of c i a -> fm_get i (mt_args mt) = Some m -> In (p, y) (a_requires a) -> holds p m ->
  group_of c y g -> group_satisfied y g.
Proof.
  intros Ha Hm Hin Hh Hg.
  assert (HR : Required c mt P y).
  { apply (Rq_requires c mt P i m y Hm (proj1 Hh)). now apply (RB_direct c i m a p y). }
  apply (proj2 (rel_required c mt _ R NR y HR) g Hg).
Qed.

(** chains of unconditional [requires]: the transitive closure, by induction on the chain *)
Definition requires_edge (x y : id) : Prop := exists b, arg_of c x b /\ In (PIsPresent, y) (a_requires b).
Definition requires_chain : id -> id -> Prop := clos_trans_1n id requires_edge.

Lemma chain_ReqBy root m : explicit_m m -> forall y, requires_chain root y -> ReqBy c root m y.
Proof.
  intros He y Hc.
  assert (Hgen : forall x y, requires_chain x y ->
                   (x = root \/ ReqBy c root m x) -> ReqBy c root m y).
  { clear y Hc. intros x y Hc. induction Hc as [x y (b & Hb & Hin) | x z y (b & Hb & Hin) Hc IH].
    - intros [->|Hx].
      + apply (RB_direct c root m b PIsPresent y Hb Hin). split; [exact He|exact I].
      + apply (RB_trans c root m x b y Hx Hb Hin).
    - intros Hx. apply IH. right. destruct Hx as [->|Hx].
      + apply (RB_direct c root m b PIsPresent z Hb Hin). split; [exact He|exact I].
      + apply (RB_trans c root m x b z Hx Hb Hin). }
  apply (Hgen root y Hc). now left.
Qed.

Theorem clause_requires_chain root y b :
  P root -> requires_chain root y -> arg_of c y b -> arg_satisfied y.
Proof.
  intros (m & Hm & He) Hc Hb.
  assert (HR : Required c mt P y).
  { apply (Rq_requires c mt P root m y Hm He). now apply chain_ReqBy. }
  apply (proj1 (rel_required c mt _ R NR y HR) b Hb).
Qed.

(** where no exemption applies the closure is literally present *)
Corollary clause_requires_chain_present root y b :
  ~ exclusive_present c P -> ~ excused c P y ->
  P root -> requires_chain root y -> arg_of c y b -> P y.
Proof.
  intros Hx He Pr Hc Hb. destruct (clause_requires_chain root y b Pr Hc Hb) as [H|[H|H]]; tauto.
Qed.

(** a fired [requires_if] followed by a chain of unconditional [requires] *)
Theorem clause_requires_if_then_chain i a m p x y b :
  arg_of c i a -> fm_get i (mt_args mt) = Some m -> In (p, x) (a_requires a) -> holds p m ->
  requires_chain x y -> arg_of c y b -> arg_satisfied y.
Proof.
  intros Ha Hm Hin Hh Hc Hb.
  assert (HR0 : ReqBy c i m x) by now apply (RB_direct c i m a p x).
  assert (HR1 : ReqBy c i m y).
  { clear Hb Hin. revert HR0. induction Hc as [x y (b' & Hb' & Hin') | x z y (b' & Hb' & Hin') Hc IH]; intros HR0.
    - apply (RB_trans c i m x b' y HR0 Hb' Hin').
    - apply IH. apply (RB_trans c i m x b' z HR0 Hb' Hin'). }
  apply (proj1 (rel_required c mt _ R NR y (Rq_requires c mt P i m y Hm (proj1 Hh) HR1)) b Hb).
Qed.

(** required groups, what they require, and what a present group requires *)
Theorem clause_required_group g :
  In g (c_groups c) -> g_required g = true -> group_of c (g_id g) g -> group_satisfied (g_id g) g.
Proof.
  intros Hin Hr Hg. apply (proj2 (rel_required c mt _ R NR (g_id g) (Rq_group c mt P g Hin Hr)) g Hg).
Qed.
Theorem clause_required_group_requires g y b :
  In g (c_groups c) -> g_required g = true -> In y (g_requires g) -> arg_of c y b -> arg_satisfied y.
Proof.
  intros Hin Hr Hy Hb.
  apply (proj1 (rel_required c mt _ R NR y (Rq_group_requires c mt P g y Hin Hr Hy)) b Hb).
Qed.
Theorem clause_present_group_requires x g y b :
  group_of c x g -> P x -> In y (g_requires g) -> arg_of c y b -> arg_satisfied y.
Proof.
  intros Hg Px Hy Hb.
  apply (proj1 (rel_required c mt _ R NR y (Rq_present_group c mt P x g y Hg Px Hy)) b Hb).
Qed.

(** the four conditional rules; the only exemption the code grants is a present exclusive arg *)
Theorem clause_required_if_eq a o v :
  In a (c_args c) -> In (o, v) (a_r_ifs a) -> has_value mt o v -> P (a_id a) \/ exclusive_present c P.
Proof.
  intros Hin Hr Hv. apply (rel_cond_required c mt _ R NR a Hin). left. exists o, v. auto.
Qed.
Theorem clause_required_if_eq_all a :
  In a (c_args c) -> a_r_ifs_all a <> [] -> (forall o v, In (o, v) (a_r_ifs_all a) -> has_value mt o v) ->
  P (a_id a) \/ exclusive_present c P.
Proof. intros Hin Hne Hall. apply (rel_cond_required c mt _ R NR a Hin). right. left. auto. Qed.
Theorem clause_required_unless_present_any a :
  In a (c_args c) -> a_r_unless a <> [] -> a_r_unless_all a = [] ->
  (forall o, In o (a_r_unless a) -> ~ P o) -> P (a_id a) \/ exclusive_present c P.
Proof.
  intros Hin Hne Hnil Hnone. apply (rel_cond_required c mt _ R NR a Hin). right. right.
  split; [now left|]. split; [exact Hnone | now left].
Qed.
Theorem clause_required_unless_present_all a o :
  In a (c_args c) -> a_r_unless a = [] -> In o (a_r_unless_all a) -> ~ P o ->
  P (a_id a) \/ exclusive_present c P.
Proof.
  intros Hin Hnil Ho Hno. apply (rel_cond_required c mt _ R NR a Hin). right. right.
  split; [right; intros E; rewrite E in Ho; destruct Ho|]. split.
  - rewrite Hnil. intros ? [].
  - right. exists o. auto.
Qed.
(** both lists together, as [fails_arg_required_unless] combines them: none of the "any" ids and
    not all of the "all" ids *)
Theorem clause_required_unless_both a o :
  In a (c_args c) -> (forall o', In o' (a_r_unless a) -> ~ P o') -> In o (a_r_unless_all a) -> ~ P o ->
  P (a_id a) \/ exclusive_present c P.
Proof.
  intros Hin Hnone Ho Hno. apply (rel_cond_required c mt _ R NR a Hin). right. right.
  split; [right; intros E; rewrite E in Ho; destruct Ho|]. split; [exact Hnone|].
  right. exists o. auto.
Qed.
End Clauses.

(** ** the subcommand exemption: with [subcommand_negates_reqs] and a subcommand, (R3) is void,
       (R1)/(R2) still hold -- these are the first two fields of the record, which carry no
       [negates_reqs] hypothesis *)
Theorem clause_negated_keeps_conflicts c mt : Relations c mt ->
  (forall i a x, arg_of c i a -> present mt i -> present mt x -> x <> i -> ~ declares c i x /\ ~ declares c x i)
  /\ (forall i a j b, arg_of c i a -> a_exclusive a = true -> present mt i -> arg_of c j b -> present mt j -> j = i).
Proof. intros R. split; [apply (rel_conflicts c mt _ R) | apply (rel_exclusive c mt _ R)]. Qed.

(** ** (R4) defaults never count as presence -- for every rule at once *)

(** what [Relations] can see of an entry: nothing unless its source is explicit *)
Definition explicit_view (mt : matcher) (i : id) : option marg :=
  match fm_get i (mt_args mt) with
  | Some m => if check_explicit_m PIsPresent m then Some m else None
  | None => None
  end.

Lemma explicit_view_some mt i m :
  explicit_view mt i = Some m <-> fm_get i (mt_args mt) = Some m /\ explicit_m m.
Proof.
  unfold explicit_view. destruct (fm_get i (mt_args mt)) as [m0|].
  - destruct (check_explicit_m PIsPresent m0) eqn:E.
    + apply explicit_m_spec in E. split; [intros [= <-]; auto | intros [[= <-] _]; reflexivity].
    + split; [discriminate|]. intros [[= <-] He]. apply explicit_m_spec in He. congruence.
  - split; [discriminate | intros [[=] _]].
Qed.

Lemma present_view mt i : present mt i <-> exists m, explicit_view mt i = Some m.
Proof. unfold present. split; intros (m & H); exists m; now apply explicit_view_some. Qed.

(** [Relations] is a function of the explicit entries (and of "a subcommand was used"):
    entries whose source is [DefaultValue] -- added, removed or changed -- are invisible to
    every clause *)
Theorem Relations_defaults_inert c mt mt' :
  (forall i, explicit_view mt i = explicit_view mt' i) -> is_some (mt_sub mt) = is_some (mt_sub mt') ->
  Relations c mt -> Relations c mt'.
Proof.
  intros Ev Es R.
  assert (Hp : forall x, present mt x <-> present mt' x).
  { intros x. rewrite !present_view, Ev. tauto. }
  assert (Hget : forall i m, (fm_get i (mt_args mt') = Some m /\ explicit_m m)
                             -> (fm_get i (mt_args mt) = Some m /\ explicit_m m)).
  { intros i m H. apply explicit_view_some. rewrite Ev. now apply explicit_view_some. }
  assert (Hhv : forall o v, has_value mt' o v -> has_value mt o v).
  { intros o v (m & Hm & Hh). exists m. split; [|exact Hh]. apply (Hget o m). split; [exact Hm|apply Hh]. }
  apply (RelationsP_ext c mt' (present mt)); [exact Hp|].
  destruct R as [R1 R2 R3 R4]. constructor.
  - exact R1.
  - exact R2.
  - unfold negates_reqs in *. rewrite <- Es. intros Hn x Hx. apply (R3 Hn).
    destruct Hx as [a Hin Hr | g Hin Hr | g y Hin Hr Hy | x g y Hg Hpx Hy | root m y Hg Hm HR].
    + now apply Rq_static.
    + now apply Rq_group.
    + now apply (Rq_group_requires c mt _ g).
    + now apply (Rq_present_group c mt _ x g).
    + destruct (Hget root m (conj Hg Hm)) as [Hg' _]. now apply (Rq_requires c mt _ root m).
  - unfold negates_reqs in *. rewrite <- Es. intros Hn a Hin Hc. apply (R4 Hn a Hin).
    destruct Hc as [(o & v & Ho & Hv)|[(Hne & Hall)|Hu]].
    + left. exists o, v. auto.
    + right. left. split; [exact Hne|]. intros o v Ho. auto.
    + right. right. exact Hu.
Qed.

(** the entry of an id that is present never has source [DefaultValue]; an [ArgPredicate]
    never holds of a default entry; a default entry is invisible *)
Theorem default_not_present mt i m :
  fm_get i (mt_args mt) = Some m -> m_source m = Some SDefault -> ~ present mt i.
Proof. intros Hm Hs (m' & Hm' & He). rewrite Hm in Hm'. injection Hm' as <-. exact (He Hs). Qed.
Theorem default_never_holds p m : m_source m = Some SDefault -> ~ holds p m.
Proof. intros Hs [He _]. exact (He Hs). Qed.
Theorem default_invisible mt i m :
  fm_get i (mt_args mt) = Some m -> m_source m = Some SDefault -> explicit_view mt i = None.
Proof. intros Hm Hs. unfold explicit_view. rewrite Hm. unfold check_explicit_m. rewrite Hs. reflexivity. Qed.
Theorem default_entry_invisible mt i m :
  fm_get i (mt_args mt) = Some m -> m_source m = Some SDefault ->
  explicit_view mt i = None /\ ~ present mt i /\ forall p, ~ holds p m.
Proof.
  intros Hm Hs. split; [exact (default_invisible mt i m Hm Hs)|].
  split; [exact (default_not_present mt i m Hm Hs) | intros p; exact (default_never_holds p m Hs)].
Qed.

(** ** witnesses: the hypotheses are satisfiable, each exemption is really granted by the code,
       and the conditional rules have no conflict exemption *)
Definition i_r : id := [114]. Definition i_k : id := [107]. Definition i_e : id := [101].
Definition e_cmd : cmd :=
  cmd_new [112]
    <| c_args := [wflag i_a [97;97] <| a_requires := [(PIsPresent, i_b)] |>;
                  wflag i_b [98;98] <| a_requires := [(PIsPresent, i_c)] |>;
                  wflag i_c [99;99];
                  wflag i_r [114;114] <| a_required := true |> <| a_blacklist := [i_k] |>;
                  wflag i_k [107;107];
                  wflag i_e [101;101] <| a_exclusive := true |>;
                  wflag i_x [120;120] <| a_r_unless := [i_a] |> <| a_blacklist := [i_k] |>] |>.
Definition e_sub_cmd : cmd :=
  cmd_new [112]
    <| c_args := [wflag i_r [114;114] <| a_required := true |>] |>
    <| c_subs := [cmd_new [115]] |>
    <| c_set := settings_none <| s_subs_negate_reqs := true |> |>.

Definition ok_with (c0 : cmd) (toks : list bytes) (pres abs : list id) : Prop :=
  exists st, run_level c0 toks = ROk st
             /\ forallb (fun i => check_explicit (mt st) i PIsPresent) pres = true
             /\ forallb (fun i => negb (check_explicit (mt st) i PIsPresent)) abs = true.
Definition rejected_with (c0 : cmd) (toks : list bytes) (k : ekind) : Prop :=
  exists e st, run_level c0 toks = RErr e st /\ e_kind e = k.

Example clauses_nonvacuous :
  valid e_cmd = true
  (* a chain a -> b -> c of [requires], all present, the required arg present *)
  /\ ok_with e_cmd [dd [97;97]; dd [98;98]; dd [99;99]; dd [114;114]] [i_a; i_b; i_c; i_r] [i_k; i_e; i_x]
  /\ requires_chain (build_self e_cmd) i_a i_c
  (* the chain is enforced: without its end the parse is rejected *)
  /\ rejected_with e_cmd [dd [97;97]; dd [98;98]; dd [114;114]] EMissingRequiredArgument.
Proof.
  split; [vm_compute; reflexivity|].
  split; [eexists; split; [vm_compute; reflexivity|]; split; vm_compute; reflexivity|].
  split.
  - apply (t1n_trans _ _ i_a i_b i_c); [|apply t1n_step]; eexists; (split; [vm_compute; reflexivity|]); cbn; auto.
  - do 2 eexists. split; vm_compute; reflexivity.
Qed.

Example exemptions_granted :
  (* a present conflicting arg excuses the statically required one *)
  ok_with e_cmd [dd [107;107]; dd [97;97]; dd [98;98]; dd [99;99]] [i_k; i_a] [i_r]
  (* a present exclusive arg excuses it *)
  /\ ok_with e_cmd [dd [101;101]] [i_e] [i_r; i_x]
  (* a subcommand under [subcommand_negates_reqs] excuses it *)
  /\ valid e_sub_cmd = true /\ ok_with e_sub_cmd [[115]] [] [i_r]
  /\ rejected_with e_sub_cmd [] EMissingRequiredArgument
  (* no conflict exemption for a conditional rule: x is required unless a, conflicts with k *)
  /\ rejected_with e_cmd [dd [107;107]] EMissingRequiredArgument.
Proof.
  split; [eexists; split; [vm_compute; reflexivity|]; split; vm_compute; reflexivity|].
  split; [eexists; split; [vm_compute; reflexivity|]; split; vm_compute; reflexivity|].
  split; [vm_compute; reflexivity|].
  split; [eexists; split; [vm_compute; reflexivity|]; split; vm_compute; reflexivity|].
  split; do 2 eexists; split; vm_compute; reflexivity.
Qed.

(** (R4) a default entry next to the explicit ones: the flag [c] is absent from the command line,
    its entry exists with source [DefaultValue] and is invisible to the rules *)
Example defaults_nonvacuous :
  exists st m, run_level e_cmd [dd [101;101]] = ROk st
    /\ fm_get i_c (mt_args (mt st)) = Some m /\ m_source m = Some SDefault
    /\ explicit_view (mt st) i_c = None /\ explicit_view (mt st) i_e <> None.
Proof.
  do 2 eexists. split; [vm_compute; reflexivity|]. split; [vm_compute; reflexivity|].
  split; [reflexivity|]. split; [vm_compute; reflexivity|]. vm_compute. discriminate.
Qed.
