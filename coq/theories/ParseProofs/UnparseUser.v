(** Property C02, fourth pass, item (2): the un-parser theorem stated on the command AS THE USER WRITES IT.
    [user_conventional c0] / [user_conventionalx c0] (UnparseBridge.v) are booleans on the declared command; the
    class conjunct [conv] / [convx] of the root level of [wf_inv] / [wfy_inv] is discharged by the bridge, for
    all commands.  What remains on the built command is what mentions its lookup tables: the items ([wf_items]:
    names resolve, values are value tokens ...) and, for trees with subcommands, the class of the children
    (their arguments include the parent's propagated globals; checked by computation as before). *)
From ClapModel Require Import Base.Bytes Base.Machine Base.Utf8 Lex.OsStrExtModel.
From ClapModel Require Import Parse.Cmd Parse.Build Parse.Valid Parse.Matcher Parse.Errors Parse.Validator Parse.Parser.
From ClapModel Require Import ParseProofs.Actions ParseProofs.Unparse ParseProofs.UnparseProofs ParseProofs.UnparseTop
                              ParseProofs.UnparseSub ParseProofs.UnparseTrail ParseProofs.UnparseTree
                              ParseProofs.UnparseX ParseProofs.UnparseXProofs ParseProofs.UnparseXTree ParseProofs.UnparseXTrail
                              ParseProofs.UnparseYTree ParseProofs.UnparseBridge ParseProofs.UnparseExamples
                              ParseProofs.UnparseXExamples ParseProofs.UnparseYExamples.
From Coq Require Import ZArith List Bool.
From RecordUpdate Require Import RecordSet.
Import RecordSetNotations.
Import ListNotations.
Open Scope N_scope.

(** the part of [wf_inv] / [wfy_inv] below the class conjuncts of the root *)
Definition wf_body (c : cmd) (i : inv) : bool :=
  match i with
  | ILeaf its => wf_items c PSValuesDone 1 its
  | ISub its name j =>
      wf_items c PSValuesDone 1 its && is_done (items_pst c PSValuesDone 1 its)
      && negb (is_set s_args_negate_subs c)
      && match possible_subcommand c name false with
         | Some scn => negb (beq scn s_help && negb (is_set s_disable_help_sub c))
         | None => false end
      && match child c name with
         | Some scb => wf_inv scb j
         | None => false end
  | ITrail its vs =>
      wf_items c PSValuesDone 1 its && not_pos (items_pst c PSValuesDone 1 its)
      && (if is_done (items_pst c PSValuesDone 1 its) then nosub c ESC else true)
      && negb (is_set s_dont_delimit_trailing c)
      && wf_trail c (items_pos c 1 its) vs
  end.
Lemma wf_inv_body c i : wf_inv c i = conv c && negb (is_set s_ignore_errors c) && wf_body c i.
Proof. destruct i; reflexivity. Qed.

Definition wfy_body (c : cmd) (i : invy) : bool :=
  match i with
  | YLeaf its => wfx_items c PSValuesDone 1 its
  | YSub its name j =>
      wfx_items c PSValuesDone 1 its && is_done (items_pst c PSValuesDone 1 its)
      && negb (is_set s_args_negate_subs c)
      && match possible_subcommand c name false with
         | Some scn => negb (beq scn s_help && negb (is_set s_disable_help_sub c))
         | None => false end
      && match child c name with
         | Some scb => wfy_inv scb j
         | None => false end
  | YTrail its vs =>
      wfx_items c PSValuesDone 1 its && not_pos (items_pst c PSValuesDone 1 its)
      && (if is_done (items_pst c PSValuesDone 1 its) then nosub c ESC else true)
      && negb (is_set s_dont_delimit_trailing c) && negb (Escape.low_index_mults_any c)
      && wfx_trail c (items_pos c 1 its) vs
  | YTva its vs =>
      wfx_items c PSValuesDone 1 its && is_done (items_pst c PSValuesDone 1 its)
      && negb (is_set s_dont_delimit_trailing c) && negb (Escape.low_index_mults_any c)
      && wfx_tva c (items_pos c 1 its) vs
  | YHyp its vs =>
      wfx_items c PSValuesDone 1 its && is_done (items_pst c PSValuesDone 1 its)
      && wfx_hyp c (items_pos c 1 its) vs
  | YLook its init vl its2 =>
      wfx_items c PSValuesDone 1 its && is_done (items_pst c PSValuesDone 1 its)
      && UnparseXLook.wfx_look c (items_pos c 1 its) init vl (render its2)
      && wfx_items c PSValuesDone (items_pos c 1 its + 2) its2
  end.
Lemma wfy_inv_body c i : wfy_inv c i = convx c && negb (is_set s_ignore_errors c) && wfy_body c i.
Proof. destruct i; reflexivity. Qed.

Lemma set_ie : forall c, s_ignore_errors (c_set (bs_settings c)) = s_ignore_errors (c_set c) || s_ignore_errors (c_gset c).
Proof. set_field. Qed.
Lemma ie_build_self c : is_set s_ignore_errors (build_self c) = is_set s_ignore_errors c.
Proof. apply (is_set_build_self s_ignore_errors c (fun s => eq_refl) (set_ie c)). Qed.

(** [argv[0]] as binary name does not touch what the user-level class looks at *)
Lemma user_with_bin c0 bin : user_conventional (with_bin c0 bin) = user_conventional c0.
Proof. unfold with_bin. destruct (c_bin_name c0); [reflexivity|]. destruct (utf8_valid bin && negb (is_nil bin)); reflexivity. Qed.
Lemma userx_with_bin c0 bin : user_conventionalx (with_bin c0 bin) = user_conventionalx c0.
Proof. unfold with_bin. destruct (c_bin_name c0); [reflexivity|]. destruct (utf8_valid bin && negb (is_nil bin)); reflexivity. Qed.
Lemma ie_with_bin c0 bin : is_set s_ignore_errors (with_bin c0 bin) = is_set s_ignore_errors c0.
Proof. unfold with_bin. destruct (c_bin_name c0); [reflexivity|]. destruct (utf8_valid bin && negb (is_nil bin)); reflexivity. Qed.

Theorem wf_inv_of_user c0 bin i : valid (with_bin c0 bin) = true -> user_conventional c0 = true ->
  is_set s_ignore_errors c0 = false -> wf_body (build_self (with_bin c0 bin)) i = true ->
  wf_inv (build_self (with_bin c0 bin)) i = true.
Proof.
  intros Hv Hu Hie Hb. rewrite wf_inv_body, Hb, ie_build_self, ie_with_bin, Hie.
  rewrite (conv_of_user (with_bin c0 bin) Hv); [reflexivity|]. rewrite user_with_bin. exact Hu.
Qed.
Theorem wfy_inv_of_user c0 bin i : valid (with_bin c0 bin) = true -> user_conventionalx c0 = true ->
  is_set s_ignore_errors c0 = false -> wfy_body (build_self (with_bin c0 bin)) i = true ->
  wfy_inv (build_self (with_bin c0 bin)) i = true.
Proof.
  intros Hv Hu Hie Hb. rewrite wfy_inv_body, Hb, ie_build_self, ie_with_bin, Hie.
  rewrite (convx_of_user (with_bin c0 bin) Hv); [reflexivity|]. rewrite userx_with_bin. exact Hu.
Qed.

(** THE UN-PARSER THEOREM ON THE DEFINITION AS WRITTEN *)
Theorem parse_top_user c0 bin i : is_set s_no_binary_name c0 = false -> valid (with_bin c0 bin) = true ->
  user_conventional c0 = true -> is_set s_ignore_errors c0 = false ->
  wf_body (build_self (with_bin c0 bin)) i = true ->
  parse_top c0 (bin :: render_inv i) = finish_outcome (with_bin c0 bin) (run_inv (build_self (with_bin c0 bin)) i).
Proof. intros Hn Hv Hu Hie Hb. apply (parse_top_inv c0 bin i Hn Hv). apply wf_inv_of_user; assumption. Qed.

Theorem parse_top_user_y c0 bin i : is_set s_no_binary_name c0 = false -> valid (with_bin c0 bin) = true ->
  user_conventionalx c0 = true -> is_set s_ignore_errors c0 = false ->
  wfy_body (build_self (with_bin c0 bin)) i = true ->
  parse_top c0 (bin :: render_invy i) = finish_outcome (with_bin c0 bin) (run_invy (build_self (with_bin c0 bin)) i).
Proof. intros Hn Hv Hu Hie Hb. apply (parse_top_inv_y c0 bin i Hn Hv). apply wfy_inv_of_user; assumption. Qed.

(** non-vacuity: the example commands of the earlier passes, as written *)
Example user_examples :
  user_conventional UnparseEx.c0 = true /\ is_set s_ignore_errors UnparseEx.c0 = false /\
  wf_body (build_self (with_bin UnparseEx.c0 [112])) (ILeaf UnparseEx.its) = true /\
  user_conventionalx XEx.c0 = true /\ user_conventional XEx.c0 = false /\
  wfy_body (build_self (with_bin XEx.c0 XEx.bin)) (of_inv XEx.xinv) = true /\
  user_conventionalx YEx.t0 = true /\ wfy_body (build_self (with_bin YEx.t0 YEx.bin)) YEx.tinv = true /\
  (* a multiple positional below a last(true) one *)
  user_conventionalx YEx.c0 = true /\ convx YEx.c = true.
Proof. vm_compute. repeat split; reflexivity. Qed.
