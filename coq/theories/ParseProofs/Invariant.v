(** The state invariant of the parse loop.

    For one (built) command level [c] this file proves, by one traversal of the parser model,
    that every panic site of parser.rs / arg_matcher.rs on the path is dead AND that any state
    predicate [P] closed under the primitive matcher operations holds of every state that comes
    out of the loop (successful or failing).  Instances: [P := True] for totality (C01) and
    [P := index discipline] for C02.

    Hypotheses on the level ([W1]-[W5]) are consequences of [Arg::_build] and of the validity
    gate [assert_app]; they are discharged in Totality.v. *)
From ClapModel Require Import Base.Bytes Base.Machine Base.Utf8 Lex.OsStrExtModel Lex.OsStrExtProofs.
From ClapModel Require Import Parse.Cmd Parse.Build Parse.Valid Parse.Matcher Parse.Errors Parse.Validator Parse.Parser.
From ClapModel Require Import ParseProofs.Safe.
From Coq Require Import ZArith Lia.
From RecordUpdate Require Import RecordSet.
Import RecordSetNotations.
Open Scope N_scope.

(** record-update computation rules *)
Lemma mt_set st m : mt (st <| mt := m |>) = m. Proof. reflexivity. Qed.
Lemma cur_set_mt st m : cur_idx (st <| mt := m |>) = cur_idx st. Proof. reflexivity. Qed.
Lemma fsat_set_mt st m : fs_at (st <| mt := m |>) = fs_at st. Proof. reflexivity. Qed.
Lemma fsskip_set_mt st m : fs_skip (st <| mt := m |>) = fs_skip st. Proof. reflexivity. Qed.
Lemma mt_bump st : mt (ps_bump st) = mt st. Proof. reflexivity. Qed.
Lemma cur_bump st : cur_idx (ps_bump st) = cur_idx st + 1. Proof. reflexivity. Qed.
Lemma fsat_bump st : fs_at (ps_bump st) = fs_at st. Proof. reflexivity. Qed.
Lemma fsskip_bump st : fs_skip (ps_bump st) = fs_skip st. Proof. reflexivity. Qed.
Lemma args_set_args m l : mt_args (m <| mt_args := l |>) = l. Proof. reflexivity. Qed.
Lemma pend_set_args m l : mt_pending (m <| mt_args := l |>) = mt_pending m. Proof. reflexivity. Qed.
Lemma args_set_pend m p : mt_args (m <| mt_pending := p |>) = mt_args m. Proof. reflexivity. Qed.
Lemma pend_set_pend m p : mt_pending (m <| mt_pending := p |>) = p. Proof. reflexivity. Qed.
#[export] Hint Rewrite mt_set cur_set_mt fsat_set_mt fsskip_set_mt mt_bump cur_bump fsat_bump fsskip_bump
  args_set_args pend_set_args args_set_pend pend_set_pend : ps.

Lemma fm_get_update {V} (i j : id) (f : V -> V) (l : list (id * V)) :
  fm_get i (fm_update j f l) =
  match fm_get i l with Some v => Some (if beq i j then f v else v) | None => None end.
Proof.
  induction l as [|[k0 v0] t IH]; cbn; [reflexivity|].
  destruct (beq k0 j) eqn:Ej; cbn.
  - destruct (beq k0 i) eqn:Ei.
    + apply beq_eq in Ej, Ei. subst. rewrite beq_refl. reflexivity.
    + destruct (fm_get i t) as [v|]; [|reflexivity].
      destruct (beq i j) eqn:Eij; [|reflexivity].
      apply beq_eq in Ej, Eij. subst. rewrite beq_refl in Ei. discriminate.
  - destruct (beq k0 i) eqn:Ei; [|exact IH].
    destruct (beq i j) eqn:Eij; [|reflexivity].
    apply beq_eq in Ei, Eij. subst. rewrite beq_refl in Ej. discriminate.
Qed.

Lemma fm_get_entry_or_insert_other {V} (i j : id) (v0 : V) f (l : list (id * V)) v :
  fm_get i l = Some v ->
  fm_get i (fm_entry_or_insert j v0 f l) = Some (if beq i j then f v else v).
Proof.
  intros H. unfold fm_entry_or_insert. destruct (fm_contains j l) eqn:E.
  - rewrite fm_get_update, H. reflexivity.
  - assert (Hij : beq i j = false).
    { destruct (beq i j) eqn:Eij; [|reflexivity]. apply beq_eq in Eij. subst.
      unfold fm_contains in E. rewrite H in E. discriminate. }
    rewrite Hij. clear E. induction l as [|[k0 v1] t IH]; cbn in *; [discriminate|].
    destruct (beq k0 i); [exact H|apply IH; exact H].
Qed.

Section Level.
Variable c : cmd.

(** ** consequences of the build step and of the validity gate, per level *)
Hypothesis W1 : forall a, In a (c_args c) -> arg_complete a.
Hypothesis W2 : forall a, In a (c_args c) -> a_index a <> None -> a_is_positional a = true.
Hypothesis W3 : forall a, In a (c_args c) -> find_arg c (a_id a) = Some a.
Hypothesis W4 : forall ch, find_short_subcmd c ch = None.
Hypothesis W5 : forall a, In a (c_args c) -> a_is_positional a = true -> a_index a <> None.

(** ** a state predicate closed under the primitive matcher operations *)
Variable P : list (id * marg) -> N -> Prop.
Hypothesis PC_bump : forall l k, P l k -> P l (k + 1).
Hypothesis PC_remove : forall l k i, P l k -> P (fst (fm_remove i l)) k.
Hypothesis PC_entry : forall l k i ic grp s, P l k ->
  P (fm_entry_or_insert i (marg_new ic grp) (fun m => new_val_group (set_source s m)) l) k.
Hypothesis PC_addval : forall l k i m m' v, P l k -> fm_get i l = Some m -> append_val v m = Some m' ->
  P (fm_update i (fun _ => m') l) k.
Hypothesis PC_push : forall l k i m m' v, P l k -> fm_get i l = Some m -> append_val v m = Some m' ->
  P (fm_update i (push_index (k + 1)) (fm_update i (fun _ => m') l)) (k + 1).

Definition pend_ok (m : matcher) : Prop :=
  forall p, mt_pending m = Some p ->
    exists a, find_arg c (p_id p) = Some a /\ (p_ident p = Some IIndex \/ a_is_positional a = false).
Definition entries_ok (l : list (id * marg)) : Prop := forall i m, In (i, m) l -> id_exists c i = true.

(** matcher-level invariant at index counter [k] *)
Definition MG (m : matcher) (k : N) : Prop := pend_ok m /\ entries_ok (mt_args m) /\ P (mt_args m) k.
(** state invariant *)
Definition G (st : ps) : Prop := MG (mt st) (cur_idx st) /\ fs_at st = None /\ fs_skip st = 0.

Definition has_open (i : id) (l : list (id * marg)) : Prop :=
  exists ma, fm_get i l = Some ma /\ m_raw ma <> [].

Lemma G_bump st : G st -> G (ps_bump st).
Proof.
  intros [[Hp [He HP]] [Ha Hs]]. repeat split; autorewrite with ps; auto.
Qed.

Lemma entries_ok_remove l i : entries_ok l -> entries_ok (fst (fm_remove i l)).
Proof. intros H j m Hin. apply (H j m). apply (fm_remove_incl _ _ _ Hin). Qed.

Lemma entries_ok_update l i f : entries_ok l -> entries_ok (fm_update i f l).
Proof.
  intros H j m Hin. destruct (fm_update_in _ _ _ _ _ Hin) as [H1|[v [H1 _]]]; eapply H; eassumption.
Qed.

Lemma entries_ok_entry l i v0 f : entries_ok l -> id_exists c i = true -> entries_ok (fm_entry_or_insert i v0 f l).
Proof.
  intros H Hi j m Hin. destruct (fm_entry_or_insert_in _ _ _ _ _ _ Hin) as [H1|[[v [H1 _]]|[-> _]]];
    [eapply H; eassumption|eapply H; eassumption|exact Hi].
Qed.

(** ** [mt_remove] *)
Lemma MG_remove m k i : MG m k -> MG (fst (mt_remove m i)) k /\ mt_pending (fst (mt_remove m i)) = mt_pending m.
Proof.
  intros [Hp [He HP]]. unfold mt_remove. destruct (fm_remove i (mt_args m)) as [l b] eqn:E. cbn [fst].
  assert (l = fst (fm_remove i (mt_args m))) as -> by (rewrite E; reflexivity).
  split; [|reflexivity]. repeat split.
  - exact Hp.
  - autorewrite with ps. apply entries_ok_remove; exact He.
  - autorewrite with ps. apply PC_remove; exact HP.
Qed.

Lemma MG_remove_fold ids : forall m k, MG m k ->
  MG (fold_left (fun m o => fst (mt_remove m o)) ids m) k
  /\ mt_pending (fold_left (fun m o => fst (mt_remove m o)) ids m) = mt_pending m.
Proof.
  induction ids as [|i t IH]; intros m k H; cbn [fold_left]; [split; [exact H|reflexivity]|].
  destruct (MG_remove m k i H) as [H1 H2]. destruct (IH _ _ H1) as [H3 H4]. split; [exact H3|congruence].
Qed.

(** ** [remove_overrides] *)
Lemma remove_overrides_MG a m k : MG m k ->
  MG (remove_overrides c a m) k /\ mt_pending (remove_overrides c a m) = mt_pending m.
Proof.
  intros H. unfold remove_overrides.
  destruct (MG_remove_fold (a_overrides a) m k H) as [H1 H2].
  match goal with |- context [fold_left _ ?ids (fold_left _ (a_overrides a) m)] =>
    destruct (MG_remove_fold ids _ k H1) as [H3 H4] end.
  split; [exact H3|congruence].
Qed.

(** ** [start_custom_arg_m], [start_custom_group_m] *)
Lemma start_custom_arg_m_MG m k a s : In a (c_args c) -> MG m k ->
  MG (start_custom_arg_m m a s) k /\ mt_pending (start_custom_arg_m m a s) = mt_pending m
  /\ has_open (a_id a) (mt_args (start_custom_arg_m m a s)).
Proof.
  intros Hin [Hp [He HP]]. unfold start_custom_arg_m. split; [|split]; [repeat split| |].
  - exact Hp.
  - autorewrite with ps. apply entries_ok_entry; [exact He|apply id_exists_arg; exact Hin].
  - autorewrite with ps. apply PC_entry; exact HP.
  - reflexivity.
  - autorewrite with ps.
    destruct (fm_entry_or_insert_get (a_id a) (marg_new (a_ignore_case a) false)
                (fun m0 => new_val_group (set_source s m0)) (mt_args m)) as [v Hv].
    exists (new_val_group (set_source s v)). split; [exact Hv|]. cbn. destruct (m_raw v); discriminate.
Qed.

Lemma has_open_entry i j ic grp s l :
  has_open i l -> has_open i (fm_entry_or_insert j (marg_new ic grp) (fun m => new_val_group (set_source s m)) l).
Proof.
  intros [ma [H1 H2]]. eexists. split; [apply fm_get_entry_or_insert_other; exact H1|].
  destruct (beq i j); [|exact H2]. cbn. destruct (m_raw ma); discriminate.
Qed.

Lemma append_val_open v m : m_raw m <> [] -> exists m', append_val v m = Some m' /\ m_raw m' <> [] /\ m_indices m' = m_indices m.
Proof.
  intros H. unfold append_val, push_last.
  destruct (rev (m_raw m)) as [|g r] eqn:E.
  - exfalso. apply H. rewrite <- (rev_involutive (m_raw m)), E. reflexivity.
  - eexists. split; [reflexivity|]. split; [|reflexivity]. cbn. destruct (rev r); discriminate.
Qed.

Lemma has_open_update_val i j l m' : has_open i l -> m_raw m' <> [] -> has_open i (fm_update j (fun _ => m') l).
Proof.
  intros [ma [H1 H2]] Hm. eexists. split; [rewrite fm_get_update, H1; reflexivity|].
  destruct (beq i j); assumption.
Qed.

Lemma has_open_push_index i j l k : has_open i l -> has_open i (fm_update j (push_index k) l).
Proof.
  intros [ma [H1 H2]]. eexists. split; [rewrite fm_get_update, H1; reflexivity|].
  destruct (beq i j); [cbn; exact H2|exact H2].
Qed.

(** ** [start_custom_arg] *)
Definition mres_ok (Q : matcher -> Prop) (r : res matcher) : Prop := safe Q (fun _ => False) r.

Lemma start_custom_arg_safe a s m k : In a (c_args c) -> MG m k ->
  mres_ok (fun m' => MG m' k /\ mt_pending m' = mt_pending m /\ has_open (a_id a) (mt_args m'))
          (start_custom_arg c a s m).
Proof.
  intros Hin H. unfold start_custom_arg.
  set (m1 := match s with SCmdLine => remove_overrides c a m | _ => m end).
  assert (H1 : MG m1 k /\ mt_pending m1 = mt_pending m).
  { subst m1. destruct s; try (split; [exact H|reflexivity]). apply remove_overrides_MG; exact H. }
  destruct H1 as [H1 H1p].
  destruct (start_custom_arg_m_MG m1 k a s Hin H1) as [H2 [H2p H2o]].
  set (m2 := start_custom_arg_m m1 a s) in *.
  destruct (src_explicit s); [|cbn; split; [exact H2|split; [congruence|exact H2o]]].
  assert (Hgs : forall g, In g (groups_for_arg c (a_id a)) -> id_exists c g = true)
    by (intros g Hg; eapply id_exists_group; exact Hg).
  revert Hgs. generalize (groups_for_arg c (a_id a)) as gs.
  assert (Hacc : mres_ok (fun m' => MG m' k /\ mt_pending m' = mt_pending m /\ has_open (a_id a) (mt_args m')) (ROk m2)).
  { cbn. split; [exact H2|split; [congruence|exact H2o]]. }
  revert Hacc. generalize (ROk m2 : res matcher) as acc.
  intros acc Hacc gs. revert acc Hacc. induction gs as [|g gs IH]; intros acc Hacc Hgs; cbn [fold_left]; [exact Hacc|].
  apply IH; [|intros g' Hg'; apply Hgs; right; exact Hg'].
  destruct acc as [m0|e st0|site]; cbn in Hacc; try contradiction. cbn [rbind].
  destruct Hacc as [[Hp [He HP]] [Hpe Hop]].
  unfold start_custom_group_m, add_val_to. autorewrite with ps.
  destruct (fm_entry_or_insert_get g (marg_new false true) (fun m3 => new_val_group (set_source s m3)) (mt_args m0)) as [v Hv].
  rewrite Hv.
  destruct (append_val_open (a_id a) (new_val_group (set_source s v))) as [m' [Ha [Hr _]]];
    [cbn; destruct (m_raw v); discriminate|].
  rewrite Ha. cbn. repeat split.
  - exact Hp.
  - autorewrite with ps. apply entries_ok_update, entries_ok_entry; [exact He|apply Hgs; left; reflexivity].
  - autorewrite with ps. eapply PC_addval; [apply PC_entry; exact HP|exact Hv|exact Ha].
  - exact Hpe.
  - autorewrite with ps. apply has_open_update_val; [apply has_open_entry; exact Hop|exact Hr].
Qed.

(** ** [verify_num_args] *)
Lemma verify_num_args_safe a raw st : In a (c_args c) ->
  safe (fun _ => True) (fun s => s = st) (verify_num_args c a raw st).
Proof.
  intros Hin. unfold verify_num_args. destruct (is_set s_ignore_errors c); [exact I|].
  destruct (W1 a Hin) as [_ [Hn _]]. destruct (a_num a) as [r|]; [|contradiction]. cbn [expect rbind].
  destruct ((0 <? vmin r) && (N.of_nat (length raw) =? 0)); [reflexivity|].
  destruct (r_num_values r) as [n|].
  - destruct (negb (n =? N.of_nat (length raw))); [reflexivity|exact I].
  - destruct (N.of_nat (length raw) <? vmin r); [reflexivity|].
    destruct (vmax r <? N.of_nat (length raw)) eqn:E; [|exact I].
    destruct raw; [|reflexivity]. cbn in E. apply N.ltb_lt in E. lia.
Qed.

(** ** [push_arg_values] *)
Lemma push_arg_values_safe a : In a (c_args c) -> forall raw st,
  G st -> has_open (a_id a) (mt_args (mt st)) ->
  safe (fun s => G s /\ mt_pending (mt s) = mt_pending (mt st)) G (push_arg_values c a raw st).
Proof.
  intros Hin. destruct (W1 a Hin) as [_ [_ Hvp]].
  induction raw as [|v t IH]; intros st HG Hop; cbn [push_arg_values]; [split; [exact HG|reflexivity]|].
  destruct (a_vp a) as [vp|]; [|contradiction]. cbn [expect rbind].
  destruct (vp_parse vp v); [cbn; apply G_bump; exact HG|].
  destruct HG as [[Hp [He HP]] [Hfa Hfs]].
  destruct Hop as [ma [Hget Hraw]].
  destruct (append_val_open v ma Hraw) as [m' [Happ [Hraw' _]]].
  unfold add_val_to. autorewrite with ps. rewrite Hget, Happ. cbn [expect rbind].
  unfold add_index_to. autorewrite with ps. rewrite fm_get_update, Hget. cbn [expect rbind]. autorewrite with ps.
  eapply safe_weaken; [apply IH| |intros s Hs; exact Hs].
  - repeat split; autorewrite with ps; auto.
    + apply entries_ok_update, entries_ok_update; exact He.
    + eapply PC_push; eassumption.
  - autorewrite with ps. apply has_open_push_index, has_open_update_val; [exists ma; split; assumption|exact Hraw'].
  - intros s [Hs1 Hs2]. split; [exact Hs1|]. rewrite Hs2. autorewrite with ps. reflexivity.
Qed.

(** ** the delimiter block never hits its [expect] *)
Lemma encode_utf8_nonempty d : encode_utf8 d <> [].
Proof. unfold encode_utf8. repeat match goal with |- context [if ?b then _ else _] => destruct b end; discriminate. Qed.

Lemma delimit_go_some ddt db ti : db <> [] -> forall l i, exists r, delimit_go ddt db ti i l = Some r.
Proof.
  intros Hdb. induction l as [|v t IH]; intros i; cbn [delimit_go]; [eexists; reflexivity|].
  destruct (IH (i + 1)) as [r Hr]. rewrite Hr.
  destruct (negb (contains v db) || (ddt && match ti with Some k => k <=? i | None => false end)); [eexists; reflexivity|].
  destruct (split_total v db Hdb) as [l' [Hl' _]]. rewrite Hl'. eexists; reflexivity.
Qed.

Lemma delimit_some a raw ti : exists r, delimit c a raw ti = Some r.
Proof.
  unfold delimit. destruct (a_delim a) as [d|]; [|eexists; reflexivity].
  destruct (is_set s_dont_delimit_trailing c && match ti with Some 0 => true | _ => false end); [eexists; reflexivity|].
  apply delimit_go_some. apply encode_utf8_nonempty.
Qed.

(** ** [react_core] *)
Definition pending_of (st : ps) := mt_pending (mt st).

Lemma G_set_mt st m : MG m (cur_idx st) -> fs_at st = None -> fs_skip st = 0 -> G (st <| mt := m |>).
Proof. intros H1 H2 H3. repeat split; autorewrite with ps; try apply H1; assumption. Qed.

Lemma react_core_safe idn s a raw ti st : In a (c_args c) -> G st ->
  safe (fun x => G (fst x) /\ snd x = PRValuesDone /\ pending_of (fst x) = pending_of st) G
       (react_core c idn s a raw ti st).
Proof.
  intros Hin HG. unfold react_core.
  eapply safe_bind with (Q1 := fun _ => True).
  { destruct (is_cmdline s); [|exact I].
    eapply safe_weaken; [apply verify_num_args_safe; exact Hin|auto|intros s0 ->; exact HG]. }
  intros _ _.
  destruct (match raw with [] => if negb (is_nil (a_default_missing a)) then (a_default_missing a, None) else (raw, ti)
                         | _ => (raw, ti) end) as [raw1 ti1].
  destruct (delimit_some a raw1 ti1) as [raw2 Hd]. rewrite Hd. cbn [expect rbind].
  (* the common tail: start_custom_arg then push_arg_values *)
  assert (Tail : forall raw' st1, G st1 -> pending_of st1 = pending_of st ->
     safe (fun x => G (fst x) /\ snd x = PRValuesDone /\ pending_of (fst x) = pending_of st) G
       (do m2 <- start_custom_arg c a s (mt st1);
        do st' <- push_arg_values c a raw' (st1 <| mt := m2 |>);
        ROk (st', PRValuesDone))).
  { intros raw' st1 [HM [Hfa Hfs]] Hpe.
    pose proof (start_custom_arg_safe a s (mt st1) (cur_idx st1) Hin HM) as Hs.
    destruct (start_custom_arg c a s (mt st1)) as [m2|e0 s0|site]; cbn in Hs; try contradiction.
    destruct Hs as [HM2 [Hp2 Ho2]]. cbn [rbind].
    eapply safe_bind; [apply (push_arg_values_safe a Hin raw' (st1 <| mt := m2 |>))| ].
    - apply G_set_mt; assumption.
    - autorewrite with ps. exact Ho2.
    - intros st' [HG' Hp']. cbn. split; [exact HG'|split; [reflexivity|]].
      unfold pending_of in *. rewrite Hp'. autorewrite with ps. congruence. }
  assert (SetLike : forall raw' (bump : bool) st1, G st1 -> pending_of st1 = pending_of st ->
     safe (fun x => G (fst x) /\ snd x = PRValuesDone /\ pending_of (fst x) = pending_of st) G
       (let st2 := if bump && is_cmdline s && is_flag_ident idn then ps_bump st1 else st1 in
        let '(m1, removed) := mt_remove (mt st2) (a_id a) in
        let st3 := st2 <| mt := m1 |> in
        if removed && negb (is_set s_args_override_self c || mem_id (a_id a) (a_overrides a))
        then RErr (mkerr c EArgumentConflict (a_id a)) st3
        else do m2 <- start_custom_arg c a s m1;
             do st' <- push_arg_values c a raw' (st3 <| mt := m2 |>);
             ROk (st', PRValuesDone))).
  { intros raw' bump st1 HG1 Hpe. cbn zeta.
    set (st2 := if bump && is_cmdline s && is_flag_ident idn then ps_bump st1 else st1).
    assert (HG2 : G st2 /\ pending_of st2 = pending_of st1).
    { subst st2. destruct (bump && is_cmdline s && is_flag_ident idn); [split; [apply G_bump; exact HG1|reflexivity]|split; [exact HG1|reflexivity]]. }
    destruct HG2 as [[HM2 [Hfa2 Hfs2]] Hp2].
    pose proof (MG_remove (mt st2) (cur_idx st2) (a_id a) HM2) as [HM3 Hp3].
    destruct (mt_remove (mt st2) (a_id a)) as [m1 removed] eqn:Er. cbn [fst] in HM3, Hp3.
    assert (HG3 : G (st2 <| mt := m1 |>)) by (apply G_set_mt; assumption).
    destruct (removed && negb (is_set s_args_override_self c || mem_id (a_id a) (a_overrides a))); [exact HG3|].
    specialize (Tail raw' (st2 <| mt := m1 |>) HG3). autorewrite with ps in Tail. apply Tail.
    unfold pending_of. autorewrite with ps. unfold pending_of in *. congruence. }
  destruct (a_get_action a).
  - apply (SetLike raw2 true st HG eq_refl).
  - set (st1 := if is_cmdline s && is_flag_ident idn then ps_bump st else st).
    assert (HG1 : G st1 /\ pending_of st1 = pending_of st).
    { subst st1. destruct (is_cmdline s && is_flag_ident idn); [split; [apply G_bump; exact HG|reflexivity]|split; [exact HG|reflexivity]]. }
    destruct HG1 as [HG1 Hp1]. apply (Tail raw2 st1 HG1 Hp1).
  - apply (SetLike _ false st HG eq_refl).
  - apply (SetLike _ false st HG eq_refl).
  - destruct HG as [HM [Hfa Hfs]].
    pose proof (MG_remove (mt st) (cur_idx st) (a_id a) HM) as [HM3 Hp3].
    destruct (mt_remove (mt st) (a_id a)) as [m1 removed] eqn:Er. cbn [fst] in HM3, Hp3.
    match goal with |- context [push_arg_values c a ?r _] => set (rawc := r) end.
    assert (HG3 : G (st <| mt := m1 |>)) by (apply G_set_mt; assumption).
    pose proof (Tail rawc (st <| mt := m1 |>) HG3) as T. autorewrite with ps in T. apply T.
    unfold pending_of. autorewrite with ps. exact Hp3.
  - exact HG.
  - exact HG.
  - exact HG.
  - exact HG.
Qed.

(** ** [resolve_pending], [react] *)
Lemma G_clear_pending st : G st -> G (st <| mt := (mt st) <| mt_pending := None |> |>).
Proof.
  intros [[Hp [He HP]] [Hfa Hfs]]. repeat split; autorewrite with ps; auto.
  intros p Hp'. autorewrite with ps in Hp'. discriminate.
Qed.

Lemma resolve_pending_safe st : G st ->
  safe (fun s => G s /\ pending_of s = None) G (resolve_pending c st).
Proof.
  intros HG. unfold resolve_pending. destruct (mt_pending (mt st)) as [p|] eqn:Ep; [|split; [exact HG|exact Ep]].
  destruct HG as [[Hp [He HP]] [Hfa Hfs]].
  destruct (Hp p Ep) as [a [Hfind _]]. rewrite Hfind. cbn [expect rbind].
  destruct (find_arg_some _ _ _ Hfind) as [Hin _].
  eapply safe_bind; [apply react_core_safe; [exact Hin|apply G_clear_pending; repeat split; assumption]|].
  intros [st' pr] [HG' [_ Hpe]]. cbn in *. split; [exact HG'|]. rewrite Hpe. unfold pending_of. autorewrite with ps. reflexivity.
Qed.

Lemma react_safe idn s a raw ti st : In a (c_args c) -> G st ->
  safe (fun x => G (fst x) /\ snd x = PRValuesDone /\ pending_of (fst x) = None) G (react c idn s a raw ti st).
Proof.
  intros Hin HG. unfold react. eapply safe_bind; [apply resolve_pending_safe; exact HG|].
  intros st1 [HG1 Hp1]. eapply safe_weaken; [apply react_core_safe; eassumption| |auto].
  intros x [H1 [H2 H3]]. split; [exact H1|split; [exact H2|congruence]].
Qed.

Lemma resolve_pending_ignore_safe st : G st ->
  safe (fun s => G s) G (resolve_pending_ignore c st).
Proof.
  intros HG. unfold resolve_pending_ignore. pose proof (resolve_pending_safe st HG) as H.
  destruct (resolve_pending c st); cbn in *; [apply H|exact H|exact H].
Qed.

(** ** results of the option/flag parsers *)
Definition pend_is (st : ps) (i : id) : Prop := exists p, pending_of st = Some p /\ p_id p = i.
Definition sub_findable (n : bytes) : Prop := exists sc, find_subcommand c n = Some sc.

Definition flag_res (st : ps) (x : ps * presult * bool) : Prop :=
  let '(st1, pr, _) := x in
  G st1 /\
  match pr with
  | PROpt i => pend_is st1 i
  | PRFlagSub n => sub_findable n /\ fs_at st1 = None
  | PRMaybeHyphen | PRNoArg => st1 = st
  | PRAttachedNotConsumed => False
  | _ => True
  end.

(** ** [parse_opt_value] *)
Lemma pending_values_push_new m i idn tr v : mt_pending m = None ->
  pending_values_push m i idn tr v =
  Some (m <| mt_pending := Some (mkPending i idn (match v with Some x => [x] | None => [] end)
                                  (if tr then Some 0 else None)) |>).
Proof.
  intros H. unfold pending_values_push. rewrite H. cbn [p_id p_ident p_raw p_trailing_idx].
  rewrite beq_refl. cbn [negb].
  replace (is_some idn && negb (ident_eqb idn idn)) with false
    by (destruct idn as [[]|]; reflexivity).
  destruct tr; destruct v; reflexivity.
Qed.

Lemma G_new_pending st p a : G st -> find_arg c (p_id p) = Some a ->
  (p_ident p = Some IIndex \/ a_is_positional a = false) ->
  G (st <| mt := (mt st) <| mt_pending := Some p |> |>).
Proof.
  intros [[Hp [He HP]] [Hfa Hfs]] Hf Hi. repeat split; autorewrite with ps; auto.
  intros p' Hp'. autorewrite with ps in Hp'. inversion Hp'; subst. exists a; split; assumption.
Qed.

Lemma parse_opt_value_safe idn attached a has_eq st :
  In a (c_args c) -> a_is_positional a = false -> G st ->
  safe (fun x => G (fst x) /\
                 match snd x with
                 | PROpt i => pend_is (fst x) i
                 | PRValuesDone => True
                 | PRAttachedNotConsumed => attached <> None /\ a_req_eq a = true /\ has_eq = false
                 | PREqualsNotProvided _ => True
                 | _ => False end) G
       (parse_opt_value c idn attached a has_eq st).
Proof.
  intros Hin Hnp HG. unfold parse_opt_value.
  destruct (a_req_eq a && negb has_eq) eqn:Ereq.
  - destruct (W1 a Hin) as [_ [Hn _]]. destruct (a_num a) as [r|]; [|contradiction]. cbn [expect rbind].
    destruct (vmin r =? 0).
    + eapply safe_bind; [apply react_safe; eassumption|]. intros x [HGx _]. cbn. split; [exact HGx|].
      destruct attached; cbn; [|exact I]. apply andb_prop in Ereq. destruct Ereq as [E1 E2].
      repeat split; [discriminate|exact E1|destruct has_eq; [discriminate|reflexivity]].
    + cbn. split; [exact HG|exact I].
  - destruct attached as [v|].
    + eapply safe_bind; [apply react_safe; eassumption|]. intros x [HGx _]. cbn. split; [exact HGx|exact I].
    + eapply safe_bind; [apply resolve_pending_safe; exact HG|]. intros st1 [HG1 Hp1].
      rewrite (pending_values_push_new _ _ _ _ _ Hp1). cbn [expect rbind]. cbn.
      split.
      * destruct (find_arg_of_in c a Hin) as [a' Ha']. rewrite (W3 a Hin) in Ha'. inversion Ha'; subst a'.
        eapply G_new_pending; [exact HG1|cbn; apply W3; exact Hin|right; exact Hnp].
      * eexists. unfold pending_of. autorewrite with ps. split; reflexivity.
Qed.

(** ** subcommand names that the lookups return are resolvable *)
Lemma find_subcommand_name sc : In sc (c_subs c) -> sub_findable (c_name sc).
Proof.
  intros Hin. unfold sub_findable, find_subcommand.
  destruct (List.find (fun s => aliases_to s (c_name sc)) (c_subs c)) as [s|] eqn:E; [exists s; reflexivity|].
  exfalso. apply (List.find_none _ _ E) in Hin. unfold aliases_to in Hin. rewrite beq_refl in Hin. discriminate.
Qed.

Lemma first_unique_in {A} (l : list A) x : first_unique l = Some x -> In x l.
Proof. destruct l as [|y [|z t]]; cbn; try discriminate. intros H; inversion H; left; reflexivity. Qed.

Lemma filter_map_in {A B} (f : A -> option B) l y : In y (filter_map f l) -> exists x, In x l /\ f x = Some y.
Proof.
  induction l as [|a t IH]; cbn; [tauto|]. destruct (f a) as [b|] eqn:E.
  - intros [<-|H]; [exists a; split; [left; reflexivity|exact E]|].
    destruct (IH H) as [x [H1 H2]]. exists x; split; [right; exact H1|exact H2].
  - intros H. destruct (IH H) as [x [H1 H2]]. exists x; split; [right; exact H1|exact H2].
Qed.

Lemma possible_long_flag_subcommand_findable l n : possible_long_flag_subcommand c l = Some n -> sub_findable n.
Proof.
  unfold possible_long_flag_subcommand.
  set (inf := if is_set s_infer_sub c then _ else None).
  assert (Hinf : forall n0, inf = Some n0 -> sub_findable n0).
  { subst inf. destruct (is_set s_infer_sub c); [|discriminate]. intros n0 H.
    apply first_unique_in, filter_map_in in H. destruct H as [sc [Hin H]].
    destruct (c_long_flag sc); [|discriminate].
    destruct (is_prefix l b); [inversion H; apply find_subcommand_name; exact Hin|].
    destruct (existsb _ _); inversion H. apply find_subcommand_name; exact Hin. }
  destruct inf as [n0|]; [intros H; inversion H; subst; apply Hinf; reflexivity|].
  unfold find_long_subcmd. destruct (List.find _ (c_subs c)) as [sc|] eqn:E; cbn; [|discriminate].
  intros H; inversion H. apply find_subcommand_name. apply (List.find_some _ _ E).
Qed.

Lemma possible_subcommand_findable tok vaf n : possible_subcommand c tok vaf = Some n -> sub_findable n.
Proof.
  unfold possible_subcommand. destruct (negb (utf8_valid tok)); [discriminate|].
  destruct (is_set s_args_negate_subs c && vaf); [discriminate|].
  set (inf := if is_set s_infer_sub c then _ else None).
  assert (Hinf : forall n0, inf = Some n0 -> sub_findable n0).
  { subst inf. destruct (is_set s_infer_sub c); [|discriminate]. intros n0 H.
    apply first_unique_in, filter_map_in in H. destruct H as [sc [Hin H]].
    destruct (is_prefix tok (c_name sc)); [inversion H; apply find_subcommand_name; exact Hin|].
    (* an alias: find_subcommand resolves aliases too *)
    apply List.find_some in H. destruct H as [Hal _].
    unfold sub_findable, find_subcommand.
    destruct (List.find (fun s => aliases_to s n0) (c_subs c)) as [s|] eqn:E; [exists s; reflexivity|].
    exfalso. apply (List.find_none _ _ E) in Hin. unfold aliases_to in Hin.
    apply Bool.orb_false_elim in Hin. destruct Hin as [_ Hin].
    assert (existsb (beq n0) (all_aliases sc) = true) by (apply existsb_exists; exists n0; split; [exact Hal|apply beq_refl]).
    congruence. }
  destruct inf as [n0|]; [intros H; inversion H; subst; apply Hinf; reflexivity|].
  destruct (find_subcommand c tok) as [sc|] eqn:E; cbn; [|discriminate].
  intros H; inversion H. apply find_subcommand_name. unfold find_subcommand in E. apply (List.find_some _ _ E).
Qed.

(** ** [parse_long_arg] *)
Definition LI (pst : pstate_t) (st : ps) : Prop :=
  match pst with
  | PSOpt i => pend_is st i
  | PSPos i => exists a, find_arg c i = Some a
  | PSValuesDone => True
  end.

Lemma state_arg_safe pst st : G st -> LI pst st ->
  exists sa, state_arg c pst = ROk sa /\ (forall a, sa = Some a -> In a (c_args c)).
Proof.
  intros HG HL. destruct pst as [|i|i]; cbn.
  - exists None. split; [reflexivity|discriminate].
  - destruct HL as [p [Hp Hid]]. destruct HG as [[Hpe _] _]. destruct (Hpe p Hp) as [a [Hf _]].
    rewrite Hid in Hf. rewrite Hf. cbn. exists (Some a). split; [reflexivity|].
    intros a0 H; inversion H; subst. apply (find_arg_some _ _ _ Hf).
  - destruct HL as [a Hf]. rewrite Hf. cbn. exists (Some a). split; [reflexivity|].
    intros a0 H; inversion H; subst. apply (find_arg_some _ _ _ Hf).
Qed.

Lemma nonpos_of_index_none a : In a (c_args c) -> a_index a = None -> a_is_positional a = false.
Proof.
  intros Hin Hi. destruct (a_is_positional a) eqn:E; [|reflexivity].
  exfalso. apply (W5 a Hin E). exact Hi.
Qed.

Lemma parse_long_arg_safe flag ok value pst pc vaf st :
  G st -> LI pst st -> (flag = [] -> value <> None) ->
  safe (fun x => flag_res st x /\ snd (fst x) <> PRNoArg) G (parse_long_arg c flag ok value pst pc vaf st).
Proof.
  intros HG HL Hflag. unfold parse_long_arg.
  destruct (state_arg_safe pst st HG HL) as [sa [-> _]]. cbn [rbind].
  destruct (match sa with Some a => a_hyphen a | None => false end);
    [cbn; split; [split; [exact HG|reflexivity]|discriminate]|].
  destruct (negb ok); [cbn; split; [split; [exact HG|exact I]|discriminate]|].
  destruct (is_nil flag && negb (is_some value)) eqn:En.
  { exfalso. apply andb_prop in En. destruct En as [E1 E2]. destruct flag; [|discriminate].
    specialize (Hflag eq_refl). destruct value; [discriminate|contradiction]. }
  set (found := match get_long c flag with Some a => Some a | None => _ end).
  assert (Hfound : forall a, found = Some a -> In a (c_args c) /\ a_is_positional a = false).
  { subst found. intros a. destruct (get_long c flag) as [a0|] eqn:Eg.
    - intros H; inversion H; subst. destruct (get_long_in _ _ _ Eg) as [Hin Hi].
      split; [exact Hin|apply nonpos_of_index_none; assumption].
    - destruct (is_set s_infer_long c); [|discriminate]. intros H.
      apply first_unique_in, filter_map_in in H. destruct H as [x [Hin H]].
      destruct (a_is_positional x) eqn:Ep; [discriminate|].
      assert (x = a).
      { destruct (a_long x); [destruct (is_prefix flag b); [inversion H; reflexivity|]|];
          destruct (existsb _ _); inversion H; reflexivity. }
      subst. split; assumption. }
  destruct found as [a|].
  - destruct (Hfound a eq_refl) as [Hin Hnp].
    destruct (a_takes_value a).
    + eapply safe_bind; [apply parse_opt_value_safe; eassumption|].
      intros [st1 pr] [HG1 Hpr]. cbn in *.
      destruct pr; try contradiction; (split; [split; [exact HG1|try exact I; try exact Hpr]|discriminate]).
      destruct Hpr as [H1 [_ H3]]. destruct value; [discriminate|contradiction].
    + destruct value as [rest|]; [cbn; split; [split; [exact HG|exact I]|discriminate]|].
      eapply safe_bind; [apply react_safe; eassumption|].
      intros [st1 pr] [HG1 [Hpr _]]. cbn in *. subst pr. split; [split; [exact HG1|exact I]|discriminate].
  - destruct (possible_long_flag_subcommand c flag) as [n|] eqn:Es.
    + cbn. split; [|discriminate]. split; [exact HG|].
      split; [eapply possible_long_flag_subcommand_findable; exact Es|apply HG].
    + destruct (match get_pos c pc with Some a => a_hyphen a && negb (a_last a) | None => false end);
        cbn; (split; [split; [exact HG|]|discriminate]); [reflexivity|exact I].
Qed.

(** ** the short cluster *)
Lemma short_loop_safe : forall fuel r ret vaf st,
  (length r < fuel)%nat -> G st ->
  (ret = PRNoArg \/ ret = PRValuesDone) ->
  safe (fun x => let '(st1, pr, _) := x in
                 G st1 /\
                 match pr with
                 | PROpt i => pend_is st1 i
                 | PRFlagSub n => False
                 | PRMaybeHyphen => False
                 | PRNoArg => st1 = st /\ ret = PRNoArg /\ r = []
                 | PRAttachedNotConsumed | PRUnneeded _ _ => False
                 | _ => True
                 end) G
       (short_loop c fuel r ret vaf st).
Proof.
  induction fuel as [|f IH]; intros r ret vaf st Hlen HG Hret; [lia|].
  cbn [short_loop].
  destruct (sf_next r) as [[[ch|rest] r']|] eqn:En.
  - pose proof En as Hshr. apply sf_next_shrinks in Hshr.
    destruct (get_short c ch) as [a|] eqn:Eg.
    + destruct (get_short_in _ _ _ Eg) as [Hin Hi].
      pose proof (nonpos_of_index_none a Hin Hi) as Hnp.
      destruct (negb (a_takes_value a)).
      * eapply safe_bind; [apply react_safe; eassumption|].
        intros [st1 pr] [HG1 [Hpr _]]. cbn in Hpr, HG1. subst pr. cbn [fst snd].
        eapply safe_weaken; [apply IH; [lia|exact HG1|right; reflexivity]| |auto].
        intros [[st2 pr2] v2] [HG2 H2]. split; [exact HG2|].
        destruct pr2; try exact H2; try exact I. destruct H2 as [_ [H2 _]]. discriminate.
      * set (val := match r' with [] => None | _ => Some r' end).
        destruct (match val with Some (61 :: v) => (Some v, true) | _ => (val, false) end) as [val' has_eq] eqn:Ev.
        eapply safe_bind; [apply parse_opt_value_safe; eassumption|].
        intros [st1 pr] [HG1 Hpr]. cbn [fst snd] in *.
        destruct pr; try contradiction; cbn.
        -- split; [exact HG1|exact Hpr].
        -- split; [exact HG1|exact I].
        -- (* attached value not consumed: go on with the rest of the cluster *)
           destruct Hpr as [Hatt _].
           assert (Hr' : r' <> []).
           { subst val. destruct r'; [|discriminate]. inversion Ev; subst. contradiction. }
           eapply safe_weaken; [apply IH; [lia|exact HG1|exact Hret]| |auto].
           intros [[st2 pr2] v2] [HG2 H2]. split; [exact HG2|].
           destruct pr2; try exact H2; try exact I. destruct H2 as [_ [_ H2]]. contradiction.
        -- split; [exact HG1|exact I].
    + rewrite W4. cbn. split; [exact HG|exact I].
  - cbn. split; [exact HG|exact I].
  - cbn. split; [exact HG|]. destruct Hret as [->| ->]; [|exact I].
    split; [reflexivity|split; [reflexivity|]]. unfold sf_next in En. destruct r; [reflexivity|].
    destruct (utf8_step (n :: r)) as [[? ?]|]; discriminate.
Qed.

(** ** [parse_short_arg] *)
Lemma parse_short_arg_safe r pst pc vaf st : r <> [] -> G st -> LI pst st ->
  safe (fun x => let '(st1, pr, _) := x in
                 G st1 /\
                 match pr with
                 | PROpt i => pend_is st1 i
                 | PRMaybeHyphen => st1 = st
                 | PRFlagSub _ | PRNoArg | PRAttachedNotConsumed | PRUnneeded _ _ => False
                 | _ => True
                 end) G
       (parse_short_arg c r pst pc vaf st).
Proof.
  intros Hr HG HL. unfold parse_short_arg.
  destruct (state_arg_safe pst st HG HL) as [sa [-> _]]. cbn [rbind].
  destruct (match sa with Some a => a_hyphen a || (a_negnum a && sf_is_negative_number r) | None => false end);
    [cbn; split; [exact HG|reflexivity]|].
  destruct (match get_pos c pc with Some a => a_negnum a | None => false end && sf_is_negative_number r);
    [cbn; split; [exact HG|reflexivity]|].
  destruct (match get_pos c pc with Some a => a_hyphen a && negb (a_last a) | None => false end
            && sf_any_unknown c (S (length r)) r);
    [cbn; split; [exact HG|reflexivity]|].
  destruct HG as [HM [Hfa Hfs]]. rewrite Hfs. cbn [N.min N.to_nat sf_advance_by expect rbind].
  replace (N.to_nat (N.min 0 (N.of_nat (S (length r))))) with O by lia. cbn [sf_advance_by expect rbind].
  assert (HG0 : G (st <| fs_skip := 0 |>)).
  { repeat split; try apply HM; try exact Hfa. }
  assert (Hst : st <| fs_skip := 0 |> = st).
  { destruct st; cbn in *. subst. reflexivity. }
  rewrite Hst.
  eapply safe_weaken; [apply short_loop_safe; [lia|repeat split; try apply HM; assumption|left; reflexivity]| |auto].
  intros [[st1 pr] v] [HG1 H1]. split; [exact HG1|].
  destruct pr; try exact H1; try exact I; try contradiction.
  destruct H1 as [_ [_ H1]]. contradiction.
Qed.

(** ** [is_new_arg] *)
Lemma is_new_arg_safe next a : In a (c_args c) -> exists b, is_new_arg c next a = ROk b.
Proof.
  intros Hin. unfold is_new_arg. rewrite (W3 a Hin). cbn [expect rbind].
  destruct (a_hyphen a || (a_negnum a && pa_is_negative_number next)); [eexists; reflexivity|].
  destruct (is_long next); [eexists; reflexivity|]. destruct (is_short next); eexists; reflexivity.
Qed.

(** ** the token loop *)
Definition lr_ok (lr : loop_res) : Prop :=
  match lr with
  | LDone st => G st /\ True
  | LSub n keep _ st _ => G st /\ keep = false /\ sub_findable n
  | LExternal _ _ st => G st /\ True
  | LHelpSub _ st => G st /\ True
  end.

Lemma to_long_flag tok f ok v : to_long tok = Some (f, ok, v) -> f = [] -> v <> None.
Proof.
  unfold to_long. destruct (strip_prefix tok [DASH; DASH]) as [[|b t]|]; try discriminate.
  destruct (split_once (b :: t) [EQ]) as [[f0 v0]|] eqn:E.
  - intros H; inversion H; subst. discriminate.
  - intros H; inversion H; subst. discriminate.
Qed.

Lemma to_short_nonempty tok r : to_short tok = Some r -> r <> [].
Proof.
  unfold to_short. destruct (strip_prefix tok [DASH]) as [r0|]; [|discriminate].
  destruct (starts_with r0 [DASH]); [discriminate|]. destruct r0; cbn; [discriminate|].
  intros H; inversion H; discriminate.
Qed.

Lemma pending_values_push_same m p i idn tr v :
  mt_pending m = Some p -> p_id p = i -> (idn = None \/ p_ident p = idn) ->
  exists p', pending_values_push m i idn tr v = Some (m <| mt_pending := Some p' |>)
             /\ p_id p' = i /\ p_ident p' = p_ident p.
Proof.
  intros Hp Hi Hid. subst i. unfold pending_values_push. rewrite Hp. rewrite beq_refl. cbn [negb].
  replace (is_some idn && negb (ident_eqb (p_ident p) idn)) with false.
  - eexists. split; [reflexivity|]. cbn. split; reflexivity.
  - destruct Hid as [->|Hid]; [reflexivity|]. rewrite Hid. destruct idn as [[]|]; reflexivity.
Qed.

Lemma G_update_pending st p p' : G st -> pending_of st = Some p -> p_id p' = p_id p -> p_ident p' = p_ident p ->
  G (st <| mt := (mt st) <| mt_pending := Some p' |> |>).
Proof.
  intros HG Hp Hid Hident. pose proof HG as [[Hpe _] _]. destruct (Hpe p Hp) as [a [Hf Hi]].
  eapply G_new_pending; [exact HG|rewrite Hid; exact Hf|rewrite Hident; exact Hi].
Qed.

Lemma push_pos_safe st a tok trailing : In a (c_args c) -> a_index a <> None -> G st ->
  (pending_of st = None \/ exists p, pending_of st = Some p /\ p_id p = a_id a) ->
  exists m1, pending_values_push (mt st) (a_id a) (Some IIndex) trailing (Some tok) = Some m1
             /\ G (st <| mt := m1 |>).
Proof.
  intros Hin Hidx HG [Hn|[p [Hp Hid]]].
  - rewrite (pending_values_push_new _ _ _ _ _ Hn). eexists. split; [reflexivity|].
    eapply G_new_pending; [exact HG|cbn; apply W3; exact Hin|left; reflexivity].
  - pose proof HG as [[Hpe _] _]. destruct (Hpe p Hp) as [a' [Hf Hi]].
    rewrite Hid, (W3 a Hin) in Hf. inversion Hf; subst a'.
    assert (Hident : p_ident p = Some IIndex).
    { destruct Hi as [Hi|Hi]; [exact Hi|]. rewrite (W2 a Hin Hidx) in Hi. discriminate. }
    destruct (pending_values_push_same (mt st) p (a_id a) (Some IIndex) trailing (Some tok) Hp Hid)
      as [p' [Hpush [Hid' Hident']]]; [right; exact Hident|].
    rewrite Hpush. eexists. split; [reflexivity|].
    eapply G_update_pending; [exact HG|exact Hp|congruence|exact Hident'].
Qed.

Lemma parse_loop_safe : forall toks ls st, G st -> LI (l_pst ls) st ->
  safe lr_ok G (parse_loop c toks ls st).
Proof.
  induction toks as [|tok rest IH]; intros ls st HG HL; [cbn; split; [exact HG|exact I]|].
  cbn [parse_loop].
  (* phase 1 *)
  match goal with |- safe _ _ (rbind ?ph _) => set (phase1 := ph) end.
  assert (Hph : safe (fun x => let '(early, ls1, st1) := x in
                        match early with
                        | Some r => safe lr_ok G r
                        | None => G st1 /\ LI (l_pst ls1) st1 /\ l_pst ls1 = l_pst ls end) G phase1).
  { subst phase1. destruct (l_trailing ls); [cbn; split; [exact HG|split; [exact HL|reflexivity]]|].
    destruct (if is_set s_sub_precedence c || match l_pst ls with PSValuesDone => true | _ => false end
              then possible_subcommand c tok (l_vaf ls) else None) as [sc|] eqn:Esub.
    { assert (Hsc : sub_findable sc).
      { destruct (is_set s_sub_precedence c || match l_pst ls with PSValuesDone => true | _ => false end);
          [eapply possible_subcommand_findable; exact Esub|discriminate]. }
      destruct (beq sc s_help && negb (is_set s_disable_help_sub c)); cbn; [split; [exact HG|exact I]|].
      split; [exact HG|split; [reflexivity|exact Hsc]]. }
    (* after_flag *)
    match goal with |- context [match to_long tok with Some _ => _ | None => _ end] => idtac end.
    assert (After : forall x, flag_res st x ->
       safe (fun y => let '(early, ls1, st1) := y in
                        match early with
                        | Some r => safe lr_ok G r
                        | None => G st1 /\ LI (l_pst ls1) st1 /\ l_pst ls1 = l_pst ls end) G
         (let '(st1, pr, vaf1) := x in
          let ls1 := mkL (l_pst ls) (l_pos ls) vaf1 false in
          match pr with
          | PRValuesDone => ROk (Some (parse_loop c rest (mkL PSValuesDone (l_pos ls) vaf1 false) st1), ls1, st1)
          | PROpt i => ROk (Some (parse_loop c rest (mkL (PSOpt i) (l_pos ls) vaf1 false) st1), ls1, st1)
          | PRFlagSub n => ROk (Some (ROk (LSub n false vaf1 st1 rest)), ls1, st1)
          | PREqualsNotProvided a =>
              do st2 <- resolve_pending_ignore c st1; ROk (Some (RErr (mkerr c ENoEquals a) st2), ls1, st2)
          | PRNoMatchingArg a =>
              do st2 <- resolve_pending_ignore c st1; ROk (Some (RErr (mkerr c EUnknownArgument a) st2), ls1, st2)
          | PRUnneeded r a =>
              do st2 <- resolve_pending_ignore c st1; ROk (Some (RErr (mkerr c ETooManyValues a) st2), ls1, st2)
          | PRMaybeHyphen => ROk (None, ls1, st1)
          | PRNoArg => ROk (None, ls1, st1)
          | PRAttachedNotConsumed => RPanic 203
          end)).
    { intros [[st1 pr] vaf1] [HG1 Hpr]. cbn zeta.
      destruct pr; cbn [safe].
      - destruct Hpr as [Hs _]. split; [exact HG1|split; [reflexivity|exact Hs]].
      - apply IH; [exact HG1|exact Hpr].
      - apply IH; [exact HG1|exact I].
      - contradiction.
      - eapply safe_bind; [apply resolve_pending_ignore_safe; exact HG1|]. intros st2 HG2. cbn. exact HG2.
      - subst st1. cbn. split; [exact HG|split; [exact HL|reflexivity]].
      - eapply safe_bind; [apply resolve_pending_ignore_safe; exact HG1|]. intros st2 HG2. cbn. exact HG2.
      - eapply safe_bind; [apply resolve_pending_ignore_safe; exact HG1|]. intros st2 HG2. cbn. exact HG2.
      - subst st1. cbn. split; [exact HG|split; [exact HL|reflexivity]]. }
    destruct (is_escape tok).
    { destruct (state_arg_safe (l_pst ls) st HG HL) as [sa [-> _]]. cbn [rbind].
      destruct (match sa with Some a => a_hyphen a | None => false end); cbn; [split; [exact HG|split; [exact HL|reflexivity]]|].
      apply IH.
      - destruct HG as [[Hp [He HP]] [Hfa Hfs]]. unfold start_trailing.
        destruct (mt_pending (mt st)) as [p|] eqn:Ep; [|apply G_set_mt; [exact (conj Hp (conj He HP))|assumption|assumption]].
        apply (G_update_pending st p); [exact (conj (conj Hp (conj He HP)) (conj Hfa Hfs))|exact Ep|reflexivity|reflexivity].
      - cbn. destruct (l_pst ls) as [|i|i]; [exact I| |exact HL].
        destruct HL as [p [Hp Hi]]. unfold pend_is, pending_of, start_trailing in *. rewrite Hp.
        eexists. autorewrite with ps. split; [reflexivity|exact Hi]. }
    destruct (to_long tok) as [[[f ok] v]|] eqn:El.
    { eapply safe_bind; [apply parse_long_arg_safe; [exact HG|exact HL|intros Hf; eapply to_long_flag; eassumption]|].
      intros [[st1 pr] vaf1] [Hres Hno]. cbn [fst snd] in *.
      destruct pr; try (exfalso; apply Hno; reflexivity);
        (let HA := fresh "HA" in pose proof (After (st1, _, vaf1) Hres) as HA; cbn in HA |- *; exact HA). }
    destruct (to_short tok) as [r|] eqn:Es; [|cbn; split; [exact HG|split; [exact HL|reflexivity]]].
    eapply safe_bind; [apply parse_short_arg_safe; [eapply to_short_nonempty; exact Es|exact HG|exact HL]|].
    intros [[st1 pr] vaf1] [HG1 Hpr].
    assert (HA : flag_res st (st1, pr, vaf1)).
    { split; [exact HG1|]. destruct pr; try contradiction; first [exact Hpr|exact I]. }
    apply After in HA. destruct pr; try contradiction; cbn in HA |- *; exact HA. }
  eapply safe_bind; [exact Hph|]. clear Hph phase1.
  intros [[early ls1] st1] H1.
  destruct early as [r|]; [exact H1|].
  destruct H1 as [HG1 [HL1 Hpst]].
  match goal with
  | |- safe _ _ (match _ with PSValuesDone => ?t | PSOpt _ => _ | PSPos _ => _ end) =>
      assert (Hpos : safe lr_ok G t)
  end.
  { cbn zeta.
    match goal with |- safe _ _ (rbind ?e _) => assert (Hpc : exists pcv, e = ROk pcv) end.
    { match goal with |- exists _, (if ?b then _ else _) = _ => destruct b end.
      - destruct rest as [|n rest']; [eexists; reflexivity|].
        destruct (List.find _ (positionals c)) as [a|] eqn:Ef; [|eexists; reflexivity].
        apply List.find_some in Ef. destruct Ef as [Hin _]. unfold positionals in Hin. apply filter_In in Hin.
        destruct (is_new_arg_safe n a (proj1 Hin)) as [b ->]. cbn. eexists; reflexivity.
      - match goal with |- exists _, (if ?b then _ else _) = _ => destruct b end; eexists; reflexivity. }
    destruct Hpc as [pcv ->]. cbn [rbind].
    destruct (get_pos c pcv) as [a|] eqn:Eg.
    - destruct (get_pos_in _ _ _ Eg) as [Hin Hidx].
      destruct (a_last a && negb (l_trailing ls1)).
      + eapply safe_bind; [apply resolve_pending_ignore_safe; exact HG1|]. intros s2 HG2. exact HG2.
      + match goal with |- safe _ _ (rbind (if ?b then _ else _) _) => destruct b eqn:Eb end.
        * eapply safe_bind; [apply resolve_pending_safe; exact HG1|]. intros s2 [HG2 Hp2].
          destruct (check_terminator a tok); [apply IH; [exact HG2|exact I]|].
          destruct (push_pos_safe s2 a tok (l_trailing ls1 || a_tva a) Hin Hidx HG2 (or_introl Hp2)) as [m1 [Hpush HGm]].
          rewrite Hpush. cbn [expect rbind].
          destruct (negb (a_is_multiple a)); apply IH; try exact HGm; cbn; [exact I|].
          exists a. apply W3; exact Hin.
        * cbn [rbind].
          assert (Hpend : exists p, pending_of st1 = Some p /\ p_id p = a_id a).
          { apply Bool.orb_false_elim in Eb. destruct Eb as [E1 _]. apply Bool.negb_false_iff in E1.
            unfold pending_arg_id, pending_of in *. destruct (mt_pending (mt st1)) as [p|]; cbn in E1; [|discriminate].
            exists p. split; [reflexivity|]. apply beq_eq in E1. exact E1. }
          destruct (check_terminator a tok); [apply IH; [exact HG1|exact I]|].
          destruct (push_pos_safe st1 a tok (l_trailing ls1 || a_tva a) Hin Hidx HG1 (or_intror Hpend)) as [m1 [Hpush HGm]].
          rewrite Hpush. cbn [expect rbind].
          destruct (negb (a_is_multiple a)); apply IH; try exact HGm; cbn; [exact I|].
          exists a. apply W3; exact Hin.
    - destruct (is_set s_allow_external c).
      + destruct (utf8_valid tok); [cbn; split; [exact HG1|exact I]|].
        eapply safe_bind; [apply resolve_pending_ignore_safe; exact HG1|]. intros s2 HG2. exact HG2.
      + eapply safe_bind; [apply resolve_pending_ignore_safe; exact HG1|]. intros s2 HG2. exact HG2. }
  destruct (if l_trailing ls1 then PSValuesDone else l_pst ls1) eqn:Est.
  - exact Hpos.
  - (* an option is collecting values *)
    assert (Hi : l_trailing ls1 = false /\ l_pst ls1 = PSOpt i) by (destruct (l_trailing ls1); [discriminate|split; [reflexivity|exact Est]]).
    destruct Hi as [Htr Hpst1]. rewrite Hpst1 in HL1. destruct HL1 as [p [Hp Hid]].
    pose proof HG1 as [[Hpe _] _]. destruct (Hpe p Hp) as [a [Hf _]]. rewrite Hid in Hf. rewrite Hf. cbn [expect rbind].
    destruct (find_arg_some _ _ _ Hf) as [Hin _].
    destruct (check_terminator a tok); [apply IH; [exact HG1|exact I]|].
    destruct (pending_values_push_same (mt st1) p i None false (Some tok) Hp Hid) as [p' [Hpush [Hid' Hident']]];
      [left; reflexivity|].
    rewrite Hpush. cbn [expect rbind]. unfold needs_more_vals.
    destruct (W1 a Hin) as [_ [Hn _]]. destruct (a_num a) as [r|]; [|contradiction]. cbn [expect rbind].
    apply IH.
    + eapply G_update_pending; [exact HG1|exact Hp|congruence|exact Hident'].
    + cbn. match goal with |- LI (if ?b then _ else _) _ => destruct b end; [|exact I].
      eexists. unfold pending_of. autorewrite with ps. split; [reflexivity|exact Hid'].
  - exact Hpos.
Qed.

(** ** the environment and default phases *)
Lemma fold_res_safe {A} (step : res ps -> A -> res ps) (l : list A) (Q : A -> Prop) :
  (forall x, In x l -> Q x) ->
  (forall acc x, Q x -> safe G G acc -> safe G G (step acc x)) ->
  forall acc, safe G G acc -> safe G G (fold_left step l acc).
Proof.
  intros HQ Hstep. induction l as [|x t IH]; intros acc Hacc; cbn [fold_left]; [exact Hacc|].
  apply IH; [intros y Hy; apply HQ; right; exact Hy|]. apply Hstep; [apply HQ; left; reflexivity|exact Hacc].
Qed.

Lemma add_env_safe st : G st -> safe G G (add_env c st).
Proof.
  intros HG. unfold add_env.
  apply (fold_res_safe _ (c_args c) (fun a => In a (c_args c))); [auto| |exact HG].
  intros acc a Hin Hacc. eapply safe_bind; [exact Hacc|]. intros s HGs.
  destruct (mt_contains (mt s) (a_id a)); [exact HGs|].
  destruct (a_env a) as [v|]; [|exact HGs].
  eapply safe_bind; [apply react_safe; eassumption|]. intros x [Hx _]. exact Hx.
Qed.

Lemma add_default_value_safe a st : In a (c_args c) -> G st -> safe G G (add_default_value c a st).
Proof.
  intros Hin HG. unfold add_default_value.
  assert (Plain : safe G G (if negb (is_nil (a_default a)) then
                              if mt_contains (mt st) (a_id a) then ROk st
                              else do x <- react c None SDefault a (a_default a) None st; ROk (fst x)
                            else ROk st)).
  { destruct (negb (is_nil (a_default a))); [|exact HG]. destruct (mt_contains (mt st) (a_id a)); [exact HG|].
    eapply safe_bind; [apply react_safe; eassumption|]. intros x [Hx _]. exact Hx. }
  destruct (negb (is_nil (a_default_ifs a)) && negb (mt_contains (mt st) (a_id a))); [|exact Plain].
  destruct (List.find _ (a_default_ifs a)) as [[[i p] [d|]]|]; [|exact HG|exact Plain].
  eapply safe_bind; [apply react_safe; eassumption|]. intros x [Hx _]. exact Hx.
Qed.

Lemma add_defaults_safe st : G st -> safe G G (add_defaults c st).
Proof.
  intros HG. unfold add_defaults.
  apply (fold_res_safe _ (c_args c) (fun a => In a (c_args c))); [auto| |exact HG].
  intros acc a Hin Hacc. eapply safe_bind; [exact Hacc|]. intros s HGs. apply add_default_value_safe; assumption.
Qed.

(** ** storing the subcommand's matches does not disturb the invariant *)
Lemma G_set_sub st sub : G st -> G (st <| mt := (mt st) <| mt_sub := sub |> |>).
Proof. intros [[Hp [He HP]] [Hfa Hfs]]. repeat split; assumption. Qed.

Lemma G_ps_new : P [] 0 -> G ps_new.
Proof.
  intros HP. repeat split; cbn; try assumption; try reflexivity.
  - intros p Hp. discriminate.
  - intros i m [].
Qed.
End Level.

(** * the external-subcommand capture never hits its [expect] *)
Lemma external_fill_safe c vp st : forall vals (acc : res matcher),
  (match acc with ROk m => exists ma, fm_get ext_id (mt_args m) = Some ma /\ m_raw ma <> []
                | RErr _ s => s = st | RPanic _ => False end) ->
  match fold_left (fun rm v => do m <- rm;
                      match vp_parse vp v with
                      | Some k => RErr (mkerr c k []) st
                      | None => expect 458 (add_val_to m ext_id v)
                      end) vals acc with
  | ROk _ => True | RErr _ s => s = st | RPanic _ => False end.
Proof.
  induction vals as [|v t IH]; intros acc Hacc; cbn [fold_left]; [destruct acc; auto|].
  apply IH. destruct acc as [m|e s|x]; cbn [rbind]; [|exact Hacc|exact Hacc].
  destruct (vp_parse vp v); [reflexivity|].
  destruct Hacc as [ma [Hg Hr]]. unfold add_val_to. rewrite Hg.
  destruct (append_val_open v ma Hr) as [m' [Ha [Hr' _]]]. rewrite Ha. cbn.
  eexists. autorewrite with ps. rewrite fm_get_update, Hg, beq_refl. split; [reflexivity|exact Hr'].
Qed.
