(** The state invariant of the parse loop.

    For one (built) command level [c] this file proves, by one traversal of the parser model,
    that every panic site of parser.rs / arg_matcher.rs on the path is dead AND that any state
    predicate [P] closed under the primitive matcher operations holds of every state that comes
    out of the loop (successful or failing).  Instances: [P := True] for totality (C01) and
    [P := index discipline] for C02.

    Hypotheses on the level ([W1]-[W5]) are consequences of [Arg::_build] and of the validity
    gate [assert_app]; they are discharged in Totality.v. *)
From ClapModel Require Import Base.Bytes Base.Machine Base.Utf8 Lex.OsStrExtModel Lex.OsStrExtProofs.
From ClapModel Require Import Parse.Cmd Parse.Build Parse.Valid Parse.Matcher Parse.Errors Parse.Validator Parse.Parser.
From ClapModel Require Import ParseProofs.Safe.
From Coq Require Import ZArith Lia.
From RecordUpdate Require Import RecordSet.
Import RecordSetNotations.
Open Scope N_scope.

Definition arg_complete (a : arg) : Prop :=
  a_action a <> None /\ a_num a <> None /\ a_vp a <> None.

(** record-update computation rules *)
Lemma mt_set st m : mt (st <| mt := m |>) = m. Proof. reflexivity. Qed.
Lemma cur_set_mt st m : cur_idx (st <| mt := m |>) = cur_idx st. Proof. reflexivity. Qed.
Lemma fsat_set_mt st m : fs_at (st <| mt := m |>) = fs_at st. Proof. reflexivity. Qed.
Lemma fsskip_set_mt st m : fs_skip (st <| mt := m |>) = fs_skip st. Proof. reflexivity. Qed.
Lemma mt_bump st : mt (ps_bump st) = mt st. Proof. reflexivity. Qed.
Lemma cur_bump st : cur_idx (ps_bump st) = cur_idx st + 1. Proof. reflexivity. Qed.
Lemma fsat_bump st : fs_at (ps_bump st) = fs_at st. Proof. reflexivity. Qed.
Lemma fsskip_bump st : fs_skip (ps_bump st) = fs_skip st. Proof. reflexivity. Qed.
Lemma args_set_args m l : mt_args (m <| mt_args := l |>) = l. Proof. reflexivity. Qed.
Lemma pend_set_args m l : mt_pending (m <| mt_args := l |>) = mt_pending m. Proof. reflexivity. Qed.
Lemma args_set_pend m p : mt_args (m <| mt_pending := p |>) = mt_args m. Proof. reflexivity. Qed.
Lemma pend_set_pend m p : mt_pending (m <| mt_pending := p |>) = p. Proof. reflexivity. Qed.
#[export] Hint Rewrite mt_set cur_set_mt fsat_set_mt fsskip_set_mt mt_bump cur_bump fsat_bump fsskip_bump
  args_set_args pend_set_args args_set_pend pend_set_pend : ps.

Lemma fm_get_update {V} (i j : id) (f : V -> V) (l : list (id * V)) :
  fm_get i (fm_update j f l) =
  match fm_get i l with Some v => Some (if beq i j then f v else v) | None => None end.
Proof.
  induction l as [|[k0 v0] t IH]; cbn; [reflexivity|].
  destruct (beq k0 j) eqn:Ej; cbn.
  - destruct (beq k0 i) eqn:Ei.
    + apply beq_eq in Ej, Ei. subst. rewrite beq_refl. reflexivity.
    + destruct (fm_get i t) as [v|]; [|reflexivity].
      destruct (beq i j) eqn:Eij; [|reflexivity].
      apply beq_eq in Ej, Eij. subst. rewrite beq_refl in Ei. discriminate.
  - destruct (beq k0 i) eqn:Ei; [|exact IH].
    destruct (beq i j) eqn:Eij; [|reflexivity].
    apply beq_eq in Ei, Eij. subst. rewrite beq_refl in Ej. discriminate.
Qed.

Lemma fm_get_entry_or_insert_other {V} (i j : id) (v0 : V) f (l : list (id * V)) v :
  fm_get i l = Some v ->
  fm_get i (fm_entry_or_insert j v0 f l) = Some (if beq i j then f v else v).
Proof.
  intros H. unfold fm_entry_or_insert. destruct (fm_contains j l) eqn:E.
  - rewrite fm_get_update, H. reflexivity.
  - assert (Hij : beq i j = false).
    { destruct (beq i j) eqn:Eij; [|reflexivity]. apply beq_eq in Eij. subst.
      unfold fm_contains in E. rewrite H in E. discriminate. }
    rewrite Hij. clear E. induction l as [|[k0 v1] t IH]; cbn in *; [discriminate|].
    destruct (beq k0 i); [exact H|apply IH; exact H].
Qed.

Section Level.
Variable c : cmd.

(** ** consequences of the build step and of the validity gate, per level *)
Hypothesis W1 : forall a, In a (c_args c) -> arg_complete a.
Hypothesis W2 : forall a, In a (c_args c) -> a_index a <> None -> a_is_positional a = true.
Hypothesis W3 : forall a, In a (c_args c) -> find_arg c (a_id a) = Some a.
Hypothesis W4 : forall ch, find_short_subcmd c ch = None.
Hypothesis W5 : forall a, In a (c_args c) -> a_is_positional a = true -> a_index a <> None.

(** ** a state predicate closed under the primitive matcher operations *)
Variable P : list (id * marg) -> N -> Prop.
Hypothesis PC_bump : forall l k, P l k -> P l (k + 1).
Hypothesis PC_remove : forall l k i, P l k -> P (fst (fm_remove i l)) k.
Hypothesis PC_entry : forall l k i ic grp s, P l k ->
  P (fm_entry_or_insert i (marg_new ic grp) (fun m => new_val_group (set_source s m)) l) k.
Hypothesis PC_addval : forall l k i m m' v, P l k -> fm_get i l = Some m -> append_val v m = Some m' ->
  P (fm_update i (fun _ => m') l) k.
Hypothesis PC_push : forall l k i m m' v, P l k -> fm_get i l = Some m -> append_val v m = Some m' ->
  P (fm_update i (push_index (k + 1)) (fm_update i (fun _ => m') l)) (k + 1).

Definition pend_ok (m : matcher) : Prop :=
  forall p, mt_pending m = Some p ->
    exists a, find_arg c (p_id p) = Some a /\ (p_ident p = Some IIndex \/ a_is_positional a = false).
Definition entries_ok (l : list (id * marg)) : Prop := forall i m, In (i, m) l -> id_exists c i = true.

(** matcher-level invariant at index counter [k] *)
Definition MG (m : matcher) (k : N) : Prop := pend_ok m /\ entries_ok (mt_args m) /\ P (mt_args m) k.
(** state invariant *)
Definition G (st : ps) : Prop := MG (mt st) (cur_idx st) /\ fs_at st = None /\ fs_skip st = 0.

Definition has_open (i : id) (l : list (id * marg)) : Prop :=
  exists ma, fm_get i l = Some ma /\ m_raw ma <> [].

Lemma G_bump st : G st -> G (ps_bump st).
Proof.
  intros [[Hp [He HP]] [Ha Hs]]. repeat split; autorewrite with ps; auto.
Qed.

Lemma entries_ok_remove l i : entries_ok l -> entries_ok (fst (fm_remove i l)).
Proof. intros H j m Hin. apply (H j m). apply (fm_remove_incl _ _ _ Hin). Qed.

Lemma entries_ok_update l i f : entries_ok l -> entries_ok (fm_update i f l).
Proof.
  intros H j m Hin. destruct (fm_update_in _ _ _ _ _ Hin) as [H1|[v [H1 _]]]; eapply H; eassumption.
Qed.

Lemma entries_ok_entry l i v0 f : entries_ok l -> id_exists c i = true -> entries_ok (fm_entry_or_insert i v0 f l).
Proof.
  intros H Hi j m Hin. destruct (fm_entry_or_insert_in _ _ _ _ _ _ Hin) as [H1|[[v [H1 _]]|[-> _]]];
    [eapply H; eassumption|eapply H; eassumption|exact Hi].
Qed.

(** ** [mt_remove] *)
Lemma MG_remove m k i : MG m k -> MG (fst (mt_remove m i)) k /\ mt_pending (fst (mt_remove m i)) = mt_pending m.
Proof.
  intros [Hp [He HP]]. unfold mt_remove. destruct (fm_remove i (mt_args m)) as [l b] eqn:E. cbn [fst].
  assert (l = fst (fm_remove i (mt_args m))) as -> by (rewrite E; reflexivity).
  split; [|reflexivity]. repeat split.
  - exact Hp.
  - autorewrite with ps. apply entries_ok_remove; exact He.
  - autorewrite with ps. apply PC_remove; exact HP.
Qed.

Lemma MG_remove_fold ids : forall m k, MG m k ->
  MG (fold_left (fun m o => fst (mt_remove m o)) ids m) k
  /\ mt_pending (fold_left (fun m o => fst (mt_remove m o)) ids m) = mt_pending m.
Proof.
  induction ids as [|i t IH]; intros m k H; cbn [fold_left]; [split; [exact H|reflexivity]|].
  destruct (MG_remove m k i H) as [H1 H2]. destruct (IH _ _ H1) as [H3 H4]. split; [exact H3|congruence].
Qed.

(** ** [remove_overrides] *)
Lemma remove_overrides_MG a m k : MG m k ->
  MG (remove_overrides c a m) k /\ mt_pending (remove_overrides c a m) = mt_pending m.
Proof.
  intros H. unfold remove_overrides.
  destruct (MG_remove_fold (a_overrides a) m k H) as [H1 H2].
  match goal with |- context [fold_left _ ?ids (fold_left _ (a_overrides a) m)] =>
    destruct (MG_remove_fold ids _ k H1) as [H3 H4] end.
  split; [exact H3|congruence].
Qed.

(** ** [start_custom_arg_m], [start_custom_group_m] *)
Lemma start_custom_arg_m_MG m k a s : In a (c_args c) -> MG m k ->
  MG (start_custom_arg_m m a s) k /\ mt_pending (start_custom_arg_m m a s) = mt_pending m
  /\ has_open (a_id a) (mt_args (start_custom_arg_m m a s)).
Proof.
  intros Hin [Hp [He HP]]. unfold start_custom_arg_m. split; [|split]; [repeat split| |].
  - exact Hp.
  - autorewrite with ps. apply entries_ok_entry; [exact He|apply id_exists_arg; exact Hin].
  - autorewrite with ps. apply PC_entry; exact HP.
  - reflexivity.
  - autorewrite with ps.
    destruct (fm_entry_or_insert_get (a_id a) (marg_new (a_ignore_case a) false)
                (fun m0 => new_val_group (set_source s m0)) (mt_args m)) as [v Hv].
    exists (new_val_group (set_source s v)). split; [exact Hv|]. cbn. destruct (m_raw v); discriminate.
Qed.

Lemma has_open_entry i j ic grp s l :
  has_open i l -> has_open i (fm_entry_or_insert j (marg_new ic grp) (fun m => new_val_group (set_source s m)) l).
Proof.
  intros [ma [H1 H2]]. eexists. split; [apply fm_get_entry_or_insert_other; exact H1|].
  destruct (beq i j); [|exact H2]. cbn. destruct (m_raw ma); discriminate.
Qed.

Lemma append_val_open v m : m_raw m <> [] -> exists m', append_val v m = Some m' /\ m_raw m' <> [] /\ m_indices m' = m_indices m.
Proof.
  intros H. unfold append_val, push_last.
  destruct (rev (m_raw m)) as [|g r] eqn:E.
  - exfalso. apply H. rewrite <- (rev_involutive (m_raw m)), E. reflexivity.
  - eexists. split; [reflexivity|]. split; [|reflexivity]. cbn. destruct (rev r); discriminate.
Qed.

Lemma has_open_update_val i j l m' : has_open i l -> m_raw m' <> [] -> has_open i (fm_update j (fun _ => m') l).
Proof.
  intros [ma [H1 H2]] Hm. eexists. split; [rewrite fm_get_update, H1; reflexivity|].
  destruct (beq i j); assumption.
Qed.

Lemma has_open_push_index i j l k : has_open i l -> has_open i (fm_update j (push_index k) l).
Proof.
  intros [ma [H1 H2]]. eexists. split; [rewrite fm_get_update, H1; reflexivity|].
  destruct (beq i j); [cbn; exact H2|exact H2].
Qed.

(** ** [start_custom_arg] *)
Definition mres_ok (Q : matcher -> Prop) (r : res matcher) : Prop := safe Q (fun _ => False) r.

Lemma start_custom_arg_safe a s m k : In a (c_args c) -> MG m k ->
  mres_ok (fun m' => MG m' k /\ mt_pending m' = mt_pending m /\ has_open (a_id a) (mt_args m'))
          (start_custom_arg c a s m).
Proof.
  intros Hin H. unfold start_custom_arg.
  set (m1 := match s with SCmdLine => remove_overrides c a m | _ => m end).
  assert (H1 : MG m1 k /\ mt_pending m1 = mt_pending m).
  { subst m1. destruct s; try (split; [exact H|reflexivity]). apply remove_overrides_MG; exact H. }
  destruct H1 as [H1 H1p].
  destruct (start_custom_arg_m_MG m1 k a s Hin H1) as [H2 [H2p H2o]].
  set (m2 := start_custom_arg_m m1 a s) in *.
  destruct (src_explicit s); [|cbn; split; [exact H2|split; [congruence|exact H2o]]].
  assert (Hgs : forall g, In g (groups_for_arg c (a_id a)) -> id_exists c g = true)
    by (intros g Hg; eapply id_exists_group; exact Hg).
  revert Hgs. generalize (groups_for_arg c (a_id a)) as gs.
  assert (Hacc : mres_ok (fun m' => MG m' k /\ mt_pending m' = mt_pending m /\ has_open (a_id a) (mt_args m')) (ROk m2)).
  { cbn. split; [exact H2|split; [congruence|exact H2o]]. }
  revert Hacc. generalize (ROk m2 : res matcher) as acc.
  intros acc Hacc gs. revert acc Hacc. induction gs as [|g gs IH]; intros acc Hacc Hgs; cbn [fold_left]; [exact Hacc|].
  apply IH; [|intros g' Hg'; apply Hgs; right; exact Hg'].
  destruct acc as [m0|e st0|site]; cbn in Hacc; try contradiction. cbn [rbind].
  destruct Hacc as [[Hp [He HP]] [Hpe Hop]].
  unfold start_custom_group_m, add_val_to. autorewrite with ps.
  destruct (fm_entry_or_insert_get g (marg_new false true) (fun m3 => new_val_group (set_source s m3)) (mt_args m0)) as [v Hv].
  rewrite Hv.
  destruct (append_val_open (a_id a) (new_val_group (set_source s v))) as [m' [Ha [Hr _]]];
    [cbn; destruct (m_raw v); discriminate|].
  rewrite Ha. cbn. repeat split.
  - exact Hp.
  - autorewrite with ps. apply entries_ok_update, entries_ok_entry; [exact He|apply Hgs; left; reflexivity].
  - autorewrite with ps. eapply PC_addval; [apply PC_entry; exact HP|exact Hv|exact Ha].
  - exact Hpe.
  - autorewrite with ps. apply has_open_update_val; [apply has_open_entry; exact Hop|exact Hr].
Qed.

(** ** [verify_num_args] *)
Lemma verify_num_args_safe a raw st : In a (c_args c) ->
  safe (fun _ => True) (fun s => s = st) (verify_num_args c a raw st).
Proof.
  intros Hin. unfold verify_num_args. destruct (is_set s_ignore_errors c); [exact I|].
  destruct (W1 a Hin) as [_ [Hn _]]. destruct (a_num a) as [r|]; [|contradiction]. cbn [expect rbind].
  destruct ((0 <? vmin r) && (N.of_nat (length raw) =? 0)); [reflexivity|].
  destruct (r_num_values r) as [n|].
  - destruct (negb (n =? N.of_nat (length raw))); [reflexivity|exact I].
  - destruct (N.of_nat (length raw) <? vmin r); [reflexivity|].
    destruct (vmax r <? N.of_nat (length raw)) eqn:E; [|exact I].
    destruct raw; [|reflexivity]. cbn in E. apply N.ltb_lt in E. lia.
Qed.

(** ** [push_arg_values] *)
Lemma push_arg_values_safe a : In a (c_args c) -> forall raw st,
  G st -> has_open (a_id a) (mt_args (mt st)) ->
  safe (fun s => G s /\ mt_pending (mt s) = mt_pending (mt st)) G (push_arg_values c a raw st).
Proof.
  intros Hin. destruct (W1 a Hin) as [_ [_ Hvp]].
  induction raw as [|v t IH]; intros st HG Hop; cbn [push_arg_values]; [split; [exact HG|reflexivity]|].
  destruct (a_vp a) as [vp|]; [|contradiction]. cbn [expect rbind].
  destruct (vp_parse vp v); [cbn; apply G_bump; exact HG|].
  destruct HG as [[Hp [He HP]] [Hfa Hfs]].
  destruct Hop as [ma [Hget Hraw]].
  destruct (append_val_open v ma Hraw) as [m' [Happ [Hraw' _]]].
  unfold add_val_to. autorewrite with ps. rewrite Hget, Happ. cbn [expect rbind].
  unfold add_index_to. autorewrite with ps. rewrite fm_get_update, Hget. cbn [expect rbind]. autorewrite with ps.
  eapply safe_weaken; [apply IH| |intros s Hs; exact Hs].
  - repeat split; autorewrite with ps; auto.
    + apply entries_ok_update, entries_ok_update; exact He.
    + eapply PC_push; eassumption.
  - autorewrite with ps. apply has_open_push_index, has_open_update_val; [exists ma; split; assumption|exact Hraw'].
  - intros s [Hs1 Hs2]. split; [exact Hs1|]. rewrite Hs2. autorewrite with ps. reflexivity.
Qed.

(** ** the delimiter block never hits its [expect] *)
Lemma encode_utf8_nonempty d : encode_utf8 d <> [].
Proof. unfold encode_utf8. repeat match goal with |- context [if ?b then _ else _] => destruct b end; discriminate. Qed.

Lemma delimit_go_some ddt db ti : db <> [] -> forall l i, exists r, delimit_go ddt db ti i l = Some r.
Proof.
  intros Hdb. induction l as [|v t IH]; intros i; cbn [delimit_go]; [eexists; reflexivity|].
  destruct (IH (i + 1)) as [r Hr]. rewrite Hr.
  destruct (negb (contains v db) || (ddt && match ti with Some k => k <=? i | None => false end)); [eexists; reflexivity|].
  destruct (split_total v db Hdb) as [l' [Hl' _]]. rewrite Hl'. eexists; reflexivity.
Qed.

Lemma delimit_some a raw ti : exists r, delimit c a raw ti = Some r.
Proof.
  unfold delimit. destruct (a_delim a) as [d|]; [|eexists; reflexivity].
  destruct (is_set s_dont_delimit_trailing c && match ti with Some 0 => true | _ => false end); [eexists; reflexivity|].
  apply delimit_go_some. apply encode_utf8_nonempty.
Qed.
End Level.
