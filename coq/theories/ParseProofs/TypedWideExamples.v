(** Property C04, round 4: non-vacuity of the statements of TypedWide.v (all by computation). *)
From Coq Require Import ZArith List Bool.
From ClapModel Require Import Base.Bytes Base.Machine Base.Utf8.
From ClapModel Require Value.ValueBase Value.PossibleValues Value.ValueParsers Value.IntParseProofs.
From ClapModel Require Import Parse.Cmd Parse.Build Parse.Valid Parse.Matcher Parse.Errors Parse.Validator Parse.Parser.
From ClapModel Require Import ParseProofs.Relations ParseProofs.Totality ParseProofs.Globals ParseProofs.Dispatch
                              ParseProofs.TypedInv ParseProofs.TypedView ParseProofs.TypedMerge ParseProofs.TypedWide.
From RecordUpdate Require Import RecordSet.
Import RecordSetNotations.
Import ListNotations.
Open Scope N_scope.

Module WideEx.
  Module VB := ClapModel.Value.ValueBase.
  Module PV := ClapModel.Value.PossibleValues.
  Module VPs := ClapModel.Value.ValueParsers.
  (** prog --mode <fast (alias f) | slow | (hidden) secret; ignore_case>  --exact <on | (hidden) Off>
           --level <u8 in 1..=5>  --port <u16 in 1024..=65535>  --big <u64 in 0..=2^64-1>
           --on (SetTrue, boolish, env "YES")  --keep <falsey>  --name <non-empty> *)
  Definition w_mode : bytes := [109; 111; 100; 101].
  Definition w_exact : bytes := [101; 120; 97; 99; 116].
  Definition w_level : bytes := [108; 101; 118; 101; 108].
  Definition w_port : bytes := [112; 111; 114; 116].
  Definition w_big : bytes := [98; 105; 103].
  Definition w_on : bytes := [111; 110].
  Definition w_keep : bytes := [107; 101; 101; 112].
  Definition w_name : bytes := [110; 97; 109; 101].
  Definition s_fast : bytes := [102; 97; 115; 116].
  Definition s_slow : bytes := [115; 108; 111; 119].
  Definition s_secret : bytes := [115; 101; 99; 114; 101; 116].
  Definition s_SECRET : bytes := [83; 69; 67; 82; 69; 84].
  Definition s_Off : bytes := [79; 102; 102].
  Definition s_off : bytes := [111; 102; 102].
  Definition s_YES : bytes := [89; 69; 83].
  Definition pv (n : bytes) (al : list bytes) : PV.possible_value := {| PV.pv_name := n; PV.pv_aliases := al |}.
  Definition mode_pvs := [(pv s_fast [[102]], false); (pv s_slow [], false); (pv s_secret [], true)].
  Definition exact_pvs := [(pv w_on [], false); (pv s_Off [], true)].
  Definition u64_max : Z := 18446744073709551615%Z.

  Definition opt (n : bytes) (vp : vparser) : arg :=
    (arg_new n) <| a_long := Some n |> <| a_action := Some ASet |> <| a_vp := Some vp |>.
  Definition a_mode : arg := (opt w_mode (VPPossible true mode_pvs)) <| a_ignore_case := true |>.
  Definition a_exact : arg := opt w_exact (VPPossible false exact_pvs).
  Definition a_level : arg := opt w_level (VPRanged VB.U8 1 5).
  Definition a_port : arg := opt w_port (VPRanged VB.U16 1024 65535).
  Definition a_big : arg := opt w_big (VPRanged VB.U64 0 u64_max).
  Definition a_on : arg := (arg_new w_on) <| a_long := Some w_on |> <| a_action := Some ASetTrue |>
                             <| a_vp := Some VPBoolish |> <| a_env := Some s_YES |>.
  Definition a_keep : arg := opt w_keep VPFalsey.
  Definition a_name : arg := opt w_name VPNonEmpty.
  Definition c0 : cmd := (cmd_new [112]) <| c_args := [a_mode; a_exact; a_level; a_port; a_big; a_on; a_keep; a_name] |>.
  Definition c : cmd := build_self c0.
  Definition dd (s : bytes) : bytes := 45 :: 45 :: s.
  (** p --mode SECRET --exact Off --level 5 --port 65535 --big 18446744073709551615 --keep "" --name x *)
  Definition d_65535 : bytes := [54; 53; 53; 51; 53].
  Definition d_65536 : bytes := [54; 53; 53; 51; 54].
  Definition d_u64max : bytes := [49; 56; 52; 52; 54; 55; 52; 52; 48; 55; 51; 55; 48; 57; 53; 53; 49; 54; 49; 53].
  Definition d_u64over : bytes := [49; 56; 52; 52; 54; 55; 52; 52; 48; 55; 51; 55; 48; 57; 53; 53; 49; 54; 49; 54].
  Definition argv : list bytes :=
    [[112]; dd w_mode; s_SECRET; dd w_exact; s_Off; dd w_level; [53]; dd w_port; d_65535; dd w_big; d_u64max;
     dd w_keep; []; dd w_name; [120]].

  Definition raws (m : matches) (i : id) : option (list (list bytes)) := opt_map m_raw (fm_get i (ms_args m)).

  Example ex_wide_valid : valid c0 = true /\ plain c0 = true /\ forallb pv_coherent (c_args c) = true.
  Proof. vm_compute. repeat split; reflexivity. Qed.

  (** the parse succeeds: a hidden value in another case (ignore_case), a hidden value in its exact spelling,
      both range ends, u64::MAX, the empty string for falsey, and the env literal "YES" for the boolish flag *)
  Example ex_wide_parse : exists m, parse_top c0 argv = OOk m /\
    raws m w_mode = Some [[s_SECRET]] /\ raws m w_exact = Some [[s_Off]] /\ raws m w_level = Some [[[53]]] /\
    raws m w_port = Some [[d_65535]] /\ raws m w_big = Some [[d_u64max]] /\ raws m w_on = Some [[s_YES]] /\
    raws m w_keep = Some [[[]]] /\ raws m w_name = Some [[[120]]].
  Proof. eexists. vm_compute. repeat split; reflexivity. Qed.

  (** the typed values next to them *)
  Example ex_wide_typed :
    typed_value (VPPossible true mode_pvs) s_SECRET = Some (TVal (VPs.TVStr s_SECRET)) /\
    typed_value (VPRanged VB.U16 1024 65535) d_65535 = Some (TVal (VPs.TVInt 65535)) /\
    typed_value (VPRanged VB.U64 0 u64_max) d_u64max = Some (TVal (VPs.TVInt u64_max)) /\
    typed_value VPBoolish s_YES = Some (TVal (VPs.TVBool true)) /\
    typed_value VPFalsey [] = Some (TVal (VPs.TVBool false)) /\
    typed_value VPFalsey s_off = Some (TVal (VPs.TVBool false)) /\
    typed_value VPFalsey [120] = Some (TVal (VPs.TVBool true)) /\
    typed_value VPNonEmpty [120] = Some (TVal (VPs.TVStr [120])).
  Proof. vm_compute. repeat split; reflexivity. Qed.

  (** rejections, each naming the argument: 65536 does not wrap to 0 in a u16, 6 is outside 1..=5, "-0" is no u64,
      2^64 is no u64, "off" is not "Off" without ignore_case, "maybe" is not boolish-literal, "" is empty *)
  Definition rejects (argv : list bytes) (k : ekind) (i : id) : Prop :=
    exists err, parse_top c0 argv = OErr err /\ e_kind err = k /\ e_arg err = i.
  Example ex_wide_reject :
    rejects [[112]; dd w_port; d_65536] EValueValidation w_port /\
    rejects [[112]; dd w_level; [54]] EValueValidation w_level /\
    rejects [[112]; dd w_level; [50; 54; 49]] EValueValidation w_level /\       (* 261 = 5 mod 256 *)
    rejects [[112]; dd (w_big ++ [61; 45; 48])] EValueValidation w_big /\      (* --big=-0 *)
    rejects [[112]; dd w_big; d_u64over] EValueValidation w_big /\
    rejects [[112]; dd w_exact; s_off] EInvalidValue w_exact /\
    rejects [[112]; dd w_mode; [102; 97; 115]] EInvalidValue w_mode /\
    rejects [[112]; dd w_name; []] EInvalidValue w_name /\
    rejects [[112]; dd w_keep; [255]] EInvalidUtf8 w_keep.
  Proof. unfold rejects. repeat split; eexists; vm_compute; repeat split; reflexivity. Qed.

  (** ... the boolish flag: the literal comes from the environment; a non-literal there is a value error *)
  Definition c0_bad_env : cmd := c0 <| c_args := [a_on <| a_env := Some [109; 97; 121; 98; 101] |>] |>.
  Example ex_wide_reject_env : exists err,
    parse_top c0_bad_env [[112]] = OErr err /\ e_kind err = EValueValidation /\ e_arg err = w_on.
  Proof. eexists. vm_compute. repeat split; reflexivity. Qed.

  (** the hypotheses of [parse_top_root_stored] hold of this parse (no global argument anywhere: the list of
      used globals is empty, [globals_consistent] is then trivially true) *)
  Example ex_wide_root : exists m st,
    parse_top c0 argv = OOk m /\ m = reported c0 st /\
    chain_specs (build_self c0) (into_inner (mt st)) [cmd_spec (build_self c0)] /\
    globals_consistent
      (used_global_args (S (matches_depth (into_inner (mt st))))
         (build_recursive (S (S (depth (build_self c0)))) c0) (into_inner (mt st)))
      [cmd_spec (build_self c0)] (levels (into_inner (mt st))).
  Proof.
    destruct (get_matches_with (S (S (depth (build_self c0)))) (build_self c0) (List.tl argv) ps_new) as [st|e st|x] eqn:E;
      [|vm_compute in E; discriminate|vm_compute in E; discriminate].
    eexists. exists st.
    assert (Est : st = match get_matches_with (S (S (depth (build_self c0)))) (build_self c0) (List.tl argv) ps_new with ROk s => s | _ => ps_new end)
      by (rewrite E; reflexivity).
    vm_compute in Est. subst st.
    split; [vm_compute; reflexivity|]. split; [vm_compute; reflexivity|]. split.
    { unfold into_inner. cbn [mt mt_args mt_sub]. apply CS_leaf. }
    match goal with |- globals_consistent ?G _ _ => assert (Egl : G = []) by (vm_compute; reflexivity); rewrite Egl end.
    intros g Hg. discriminate Hg.
  Qed.
End WideEx.
