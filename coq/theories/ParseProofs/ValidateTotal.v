(** [Validator::validate] never reaches one of its own panic sites (validator.rs: the
    [expect(INTERNAL_ERROR_MSG)]s on group lookups and unrolled ids, [debug_assert!(false, "id is
    unknown")]) when every key of the matcher is an argument or a group of the command and the
    command passed [assert_app] (group ids unique, group members are arguments).
    Uses the fuel-sufficiency lemmas of Relations.v. *)
From ClapModel Require Import Base.Bytes Base.Machine.
From ClapModel Require Import Parse.Cmd Parse.Build Parse.Valid Parse.Matcher Parse.Errors Parse.Validator.
From ClapModel Require Import ParseProofs.Safe ParseProofs.Relations.
From Coq Require Import ZArith Lia.
Open Scope N_scope.

Section VT.
Variable c : cmd.
Hypothesis W : rel_wf c = true.

Definition keys_ok (l : list (id * marg)) : Prop := forall i m, In (i, m) l -> id_exists c i = true.

Lemma find_group_in i g : find_group c i = Some g -> In g (c_groups c) /\ g_id g = i.
Proof.
  unfold find_group. intros H. apply List.find_some in H. destruct H as [H1 H2]. apply beq_eq in H2. auto.
Qed.

Lemma gadc_some a : exists l, gather_arg_direct_conflicts c a = Some l.
Proof.
  unfold gather_arg_direct_conflicts.
  match goal with |- context [fold_left ?f _ (Some (a_blacklist a))] => set (step := f) end.
  assert (H : forall gs acc, (forall g, In g gs -> exists grp, find_group c g = Some grp) ->
     exists conf, fold_left step gs (Some acc) = Some conf).
  { induction gs as [|g t IH]; intros acc Hg; cbn [fold_left]; [eauto|].
    subst step. cbn beta. destruct (Hg g (or_introl eq_refl)) as [grp ->]. apply IH.
    intros g' Hg'. apply Hg. right; exact Hg'. }
  destruct (H (groups_for_arg c (a_id a)) (a_blacklist a)) as [conf ->]; [|eauto].
  intros g Hg. eapply groups_for_arg_exist; exact Hg.
Qed.

Lemma gdc_some i : id_exists c i = true -> exists l, gather_direct_conflicts c i = Some l.
Proof.
  unfold id_exists, gather_direct_conflicts. intros H.
  destruct (find_arg c i) as [a|]; [apply gadc_some|].
  destruct (find_group c i) as [g|]; [eauto|discriminate].
Qed.

Lemma explicit_entries_in m p : In p (explicit_entries m) -> In p (mt_args m).
Proof. unfold explicit_entries. intros H. apply filter_In in H. apply H. Qed.

Lemma conflicts_with_args_some m : keys_ok (mt_args m) ->
  exists pot, conflicts_with_args c m = Some pot /\ map fst pot = map fst (explicit_entries m).
Proof.
  intros Hk. unfold conflicts_with_args.
  match goal with |- context [fold_right ?f (Some []) _] => set (step := f) end.
  assert (H : forall l, (forall p, In p l -> id_exists c (fst p) = true) ->
    exists pot, fold_right step (Some []) l = Some pot /\ map fst pot = map fst l).
  { induction l as [|p t IH]; intros Hl; cbn [fold_right map]; [exists []; auto|].
    destruct IH as [pot [-> Hm]]; [intros q Hq; apply Hl; right; exact Hq|].
    subst step. cbn beta.
    destruct (gdc_some (fst p)) as [conf ->]; [apply Hl; left; reflexivity|].
    eexists. split; [reflexivity|]. cbn. rewrite Hm. reflexivity. }
  apply H. intros [i ma] Hp. cbn. apply (Hk i ma). apply explicit_entries_in. exact Hp.
Qed.

Lemma fm_get_some_key {V} i (l : list (id * V)) v : fm_get i l = Some v -> In i (map fst l).
Proof.
  induction l as [|[k w] t IH]; cbn; [discriminate|]. destruct (beq k i) eqn:E.
  - intros _. left. apply beq_eq in E. exact E.
  - intros H. right. apply IH. exact H.
Qed.

Lemma gather_conflicts_some pot i : id_exists c i = true ->
  exists l, gather_conflicts c pot i = Some l /\ forall x, In x l -> In x (map fst pot).
Proof.
  intros Hi. unfold gather_conflicts.
  assert (exists mine, match fm_get i pot with Some x => Some x | None => gather_direct_conflicts c i end = Some mine) as [mine ->].
  { destruct (fm_get i pot); [eauto|]. apply gdc_some. exact Hi. }
  eexists. split; [reflexivity|]. intros x Hx. apply in_flat_map in Hx. destruct Hx as [[other oc] [Hin Hx]].
  destruct (beq i other); [destruct Hx|].
  assert (x = other).
  { apply in_app_or in Hx. destruct Hx as [Hx|Hx];
      [destruct (mem_id other mine)|destruct (mem_id i oc)]; cbn in Hx; intuition. }
  subst. apply in_map_iff. exists (other, oc). auto.
Qed.

Lemma unroll_group_args g : In g (c_groups c) ->
  exists members, unroll_args_in_group c (g_id g) = Some members
                  /\ forall m, In m members -> exists a, find_arg c m = Some a.
Proof.
  intros Hin. destruct (rel_wf_group c g W Hin) as [Hf Hm].
  unfold unroll_args_in_group. cbn [unroll_group_loop]. rewrite Hf. fold (ug_inner c).
  destruct (ug_inner_spec c (g_args g) [] []) as (args' & E & Hz).
  { intros n Hn. destruct (Hm n Hn) as (a & ->). reflexivity. }
  rewrite E. cbn [app]. exists args'. split; [reflexivity|].
  intros m Hmi. destruct (Hz m Hmi) as [[]|Hg]. apply Hm. exact Hg.
Qed.

Lemma build_conflict_err_total name conf :
  (exists a, find_arg c name = Some a) -> (forall x, In x conf -> id_exists c x = true) ->
  forall s, build_conflict_err c name conf <> VPanic s.
Proof.
  intros [a Ha] Hc s. unfold build_conflict_err. destruct (is_nil conf); [discriminate|].
  match goal with |- context [fold_right ?f (Some []) conf] => set (step := f) end.
  assert (H : exists l, fold_right step (Some []) conf = Some l
                    /\ forall x, In x l -> is_some (find_arg c x) = true).
  { clear Ha. induction conf as [|cid t IH]; cbn [fold_right]; [exists []; split; [reflexivity|intros x []]|].
    destruct IH as [l [-> Hl]]; [intros x Hx; apply Hc; right; exact Hx|].
    subst step. cbn beta.
    destruct (find_group c cid) as [g|] eqn:Eg; cbn [is_some].
    - destruct (find_group_in _ _ Eg) as [Hgin Hgid]. destruct (unroll_group_args g Hgin) as [mem [Hu Hmem]].
      rewrite Hgid in Hu. rewrite Hu. eexists. split; [reflexivity|].
      intros x Hx. apply in_app_or in Hx. destruct Hx as [Hx|Hx]; [destruct (Hmem x Hx) as [a' ->]; reflexivity|apply Hl; exact Hx].
    - eexists. split; [reflexivity|]. intros x [<-|Hx]; [|apply Hl; exact Hx].
      specialize (Hc cid (or_introl eq_refl)). unfold id_exists in Hc. rewrite Eg in Hc.
      destruct (find_arg c cid); [reflexivity|discriminate]. }
  destruct H as [l [-> Hl]].
  replace (forallb (fun i => is_some (find_arg c i)) l) with true
    by (symmetry; apply forallb_forall; exact Hl).
  rewrite Ha. discriminate.
Qed.

Lemma first_err_total l : (forall v, In v l -> forall s, v <> VPanic s) -> forall s, first_err l <> VPanic s.
Proof.
  induction l as [|v t IH]; intros H s; cbn [first_err]; [discriminate|].
  destruct v; [apply IH; intros v' Hv'; apply H; right; exact Hv'|discriminate|apply H; left; reflexivity].
Qed.

Lemma validate_exclusive_total m s : validate_exclusive c m <> VPanic s.
Proof.
  unfold validate_exclusive. destruct (Nat.leb _ 1); [discriminate|].
  destruct (find_map _ _); discriminate.
Qed.

Lemma validate_conflicts_total m pot : keys_ok (mt_args m) -> map fst pot = map fst (explicit_entries m) ->
  forall s, validate_conflicts c m pot <> VPanic s.
Proof.
  intros Hk Hpot s. unfold validate_conflicts.
  destruct (validate_exclusive c m) eqn:Ex; [|discriminate|exfalso; eapply validate_exclusive_total; exact Ex].
  apply first_err_total. intros v Hv. apply in_map_iff in Hv. destruct Hv as [[i ma] [<- Hin]].
  apply filter_In in Hin. destruct Hin as [Hin Harg]. cbn [fst] in *.
  assert (Hi : id_exists c i = true) by (apply (Hk i ma); apply explicit_entries_in; exact Hin).
  destruct (gather_conflicts_some pot i Hi) as [conf [-> Hconf]].
  apply build_conflict_err_total.
  - destruct (find_arg c i); [eauto|discriminate].
  - intros x Hx. apply Hconf in Hx. rewrite Hpot in Hx. apply in_map_iff in Hx. destruct Hx as [[j mj] [<- Hj]].
    apply (Hk j mj). apply explicit_entries_in. exact Hj.
Qed.

Lemma gather_requires_some m req : exists r, gather_requires c m req = Some r.
Proof.
  unfold gather_requires. generalize (explicit_entries m) as l. intros l. revert req.
  induction l as [|[name matched] t IH]; intros req; cbn [fold_left]; [eauto|].
  destruct (find_arg c name) as [a|].
  - destruct (unroll_arg_requires_total c (fun r => if check_explicit_m (fst r) matched then Some (snd r) else None) (a_id a)) as [rs ->].
    apply IH.
  - destruct (find_group c name); apply IH.
Qed.

Lemma is_missing_required_ok_some pot a : In a (c_args c) -> exists b, is_missing_required_ok c pot a = Some b.
Proof.
  intros Hin. unfold is_missing_required_ok.
  destruct (gather_conflicts_some pot (a_id a) (id_exists_arg c a Hin)) as [l [-> _]].
  destruct (negb (is_nil l)); [eauto|].
  match goal with |- context [fold_left ?f _ (Some false)] => set (step := f) end.
  assert (H : forall gs acc, (forall g, In g gs -> id_exists c g = true) ->
     exists b, fold_left step gs (Some acc) = Some b).
  { induction gs as [|g t IH]; intros acc Hg; cbn [fold_left]; [eauto|].
    subst step. cbn beta.
    destruct acc; [apply IH; intros g' Hg'; apply Hg; right; exact Hg'|].
    destruct (gather_conflicts_some pot g (Hg g (or_introl eq_refl))) as [l' [-> _]].
    apply IH. intros g' Hg'. apply Hg. right; exact Hg'. }
  apply H. intros g Hg. eapply id_exists_group; exact Hg.
Qed.

Lemma missing_required_some m pot : exists r, missing_required c m pot = Some r.
Proof.
  unfold missing_required. destruct (gather_requires_some m (required_graph c)) as [required ->].
  set (iep := existsb _ (explicit_entries m)).
  match goal with |- context [fold_left ?f required (Some ([], 0))] => set (step := f) end.
  assert (H : forall l acc, exists r, fold_left step l (Some acc) = Some r).
  { induction l as [|aog t IH]; intros acc; cbn [fold_left]; [eauto|].
    subst step. cbn beta. destruct acc as [missing highest].
    destruct (check_explicit m aog PIsPresent); [apply IH|].
    destruct (find_arg c aog) as [a|] eqn:Ea.
    - destruct iep; [apply IH|].
      destruct (find_arg_some _ _ _ Ea) as [Hin _].
      destruct (is_missing_required_ok_some pot a Hin) as [[|] ->]; apply IH.
    - destruct (find_group c aog) as [g|] eqn:Eg; [|apply IH].
      destruct (find_group_in _ _ Eg) as [Hgin _].
      destruct (unroll_group_args g Hgin) as [members [-> _]].
      destruct (existsb _ members); apply IH. }
  destruct (H required ([], 0)) as [[missing highest] ->].
  destruct (fold_left _ (c_args c) (missing, highest)) as [m2 h2].
  eauto.
Qed.

Theorem validate_total m : keys_ok (mt_args m) -> forall s, validate c m <> VPanic s.
Proof.
  intros Hk s. unfold validate.
  destruct (conflicts_with_args_some m Hk) as [pot [-> Hpot]].
  destruct (negb (is_some (mt_sub m)) && is_set s_arg_required_else_help c && is_nil (explicit_entries m)); [discriminate|].
  destruct (negb (is_some (mt_sub m)) && is_set s_sub_required c); [discriminate|].
  destruct (validate_conflicts c m pot) eqn:Ev; [|discriminate|exfalso; eapply validate_conflicts_total; eassumption].
  destruct (is_set s_subs_negate_reqs c && is_some (mt_sub m)); [discriminate|].
  destruct (missing_required_some m pot) as [[|x t] ->]; discriminate.
Qed.
End VT.
