(** Property C02, third pass, items (1) and (2).

    (1) POSITIONALS ARE LOOKED UP BY KEY.  [get_pos c n] answers the one argument whose index is [n],
        wherever it is declared: a characterisation ([get_pos_iff]), invariance under any permutation
        of the declaration list ([get_pos_perm]), and what this means for the un-parser's denotation
        ([pos_run_attribution]: the run of values at counter [n] is one occurrence of that argument).
    (2) DELIMITER SPLITTING IS BYTE LEVEL.  [delimit] is, for every byte string (UTF-8 or not), the
        leftmost non-overlapping split at the encoded delimiter ([SplitSpec], functional), pieces in
        order, empty pieces kept ([delimit_bytes]); a value of an OsString-typed argument is never
        rejected for its bytes ([push_os_never_rejects]). *)
From ClapModel Require Import Base.Bytes Base.Machine Base.Utf8 Lex.OsStrExtModel Lex.OsStrExtProofs.
From ClapModel Require Import Parse.Cmd Parse.Build Parse.Valid Parse.Matcher Parse.Errors Parse.Validator Parse.Parser.
From ClapModel Require Import ParseProofs.Actions ParseProofs.Spelling ParseProofs.Unparse ParseProofs.UnparseProofs.
From Coq Require Import ZArith Lia List Bool Sorting.Permutation.
From RecordUpdate Require Import RecordSet.
Import RecordSetNotations.
Import ListNotations.
Open Scope N_scope.

(** * (1) positionals by key *)
Definition pos_unique (c : cmd) : Prop :=
  forall a b n, In a (c_args c) -> In b (c_args c) -> a_index a = Some n -> a_index b = Some n -> a = b.

Lemma assert_app_pos_parts c : assert_app c = true -> forall a, In a (c_args c) ->
  assert_arg a = true /\
  match a_index a with
  | Some i => Nat.ltb (count_if (fun x => a_is_positional x && opt_n_eqb (a_index x) (Some i)) (c_args c)) 2 = true
  | None => True end.
Proof.
  unfold assert_app. intros H a Ha.
  repeat (apply andb_true_iff in H; let H' := fresh "P" in destruct H as [H H']).
  match goal with HA : forallb _ (c_args c) = true |- _ =>
    rewrite forallb_forall in HA; specialize (HA a Ha) end.
  remember (assert_arg a) as AA eqn:EAA.
  match goal with HA : _ && _ = true |- _ =>
    repeat (apply andb_true_iff in HA; let H' := fresh "Q" in destruct HA as [HA H']) end.
  split; [assumption|]. destruct (a_index a) as [i|]; [assumption|exact I].
Qed.

Theorem assert_app_pos_unique c : assert_app c = true -> pos_unique c.
Proof.
  intros V a b n Ha Hb Ia Ib.
  destruct (assert_app_pos_parts c V a Ha) as [Aa Ca]. destruct (assert_app_pos_parts c V b Hb) as [Ab _].
  rewrite Ia in Ca. apply Nat.ltb_lt in Ca.
  assert (Pa : a_is_positional a = true).
  { unfold assert_arg in Aa. repeat (apply andb_true_iff in Aa; let H' := fresh "R" in destruct Aa as [Aa H']).
    match goal with R : (if is_some (a_index a) then _ else true) = true |- _ => rewrite Ia in R; cbn [is_some] in R;
      apply andb_true_iff in R; apply R end. }
  assert (Pb : a_is_positional b = true).
  { unfold assert_arg in Ab. repeat (apply andb_true_iff in Ab; let H' := fresh "R" in destruct Ab as [Ab H']).
    match goal with R : (if is_some (a_index b) then _ else true) = true |- _ => rewrite Ib in R; cbn [is_some] in R;
      apply andb_true_iff in R; apply R end. }
  apply (count_if_lt2 _ _ a b Ca Ha Hb); cbv beta.
  - rewrite Pa, Ia. cbn [andb opt_n_eqb]. apply N.eqb_refl.
  - rewrite Pb, Ib. cbn [andb opt_n_eqb]. apply N.eqb_refl.
Qed.

(** THE KEY DECIDES: [get_pos c n] is the argument of [c] whose index is [n] -- no reference to the
    position of the argument in the declaration list. *)
Theorem get_pos_iff c : pos_unique c -> forall n a,
  get_pos c n = Some a <-> (In a (c_args c) /\ a_index a = Some n).
Proof.
  intros U n a. split.
  - intros H. split; [apply (get_pos_in c n a H)|apply (get_pos_index c n a H)].
  - intros [Ha Ia]. destruct (get_pos c n) as [b|] eqn:G.
    + f_equal. apply (U b a n (get_pos_in c n b G) Ha (get_pos_index c n b G) Ia).
    + exfalso. unfold get_pos in G.
      destruct (find (fun p : key * arg => match fst p with KPos n' => n' =? n | _ => false end) (keymap c)) as [p|] eqn:F;
        [discriminate G|].
      assert (K : In (KPos n, a) (keymap c)).
      { apply in_keymap. split; [exact Ha|]. unfold arg_keys. rewrite Ia. left. reflexivity. }
      pose proof (find_none _ _ F _ K) as N0. cbn [fst] in N0. rewrite N.eqb_refl in N0. discriminate N0.
Qed.

Theorem get_pos_key c : assert_app c = true -> forall n a,
  get_pos c n = Some a <-> (In a (c_args c) /\ a_index a = Some n).
Proof. intros V. apply get_pos_iff. apply assert_app_pos_unique. exact V. Qed.

(** ... hence any permutation of the declarations leaves every lookup unchanged *)
Theorem get_pos_perm c c' : assert_app c = true -> Permutation (c_args c) (c_args c') ->
  forall n, get_pos c' n = get_pos c n.
Proof.
  intros V P n. pose proof (assert_app_pos_unique c V) as U.
  assert (U' : pos_unique c').
  { intros a b k Ha Hb. apply (U a b k); apply (Permutation_in _ (Permutation_sym P)); assumption. }
  destruct (get_pos c n) as [a|] eqn:G.
  - apply (get_pos_iff c' U'). apply (get_pos_iff c U) in G. destruct G as [Ha Ia].
    split; [apply (Permutation_in _ P Ha)|exact Ia].
  - destruct (get_pos c' n) as [b|] eqn:G'; [|reflexivity]. exfalso.
    apply (get_pos_iff c' U') in G'. destruct G' as [Hb Ib].
    assert (G2 : get_pos c n = Some b).
    { apply (get_pos_iff c U). split; [apply (Permutation_in _ (Permutation_sym P) Hb)|exact Ib]. }
    rewrite G in G2. discriminate G2.
Qed.

(** the un-parser's denotation of a run of positional values: one occurrence of THE argument whose
    index is the positional counter *)
Theorem pos_run_attribution c : conv c = true -> forall pst pos vs its,
  wf_items c pst pos (ItPos vs :: its) = true ->
  exists a, In a (c_args c) /\ a_index a = Some pos /\
    (forall b, In b (c_args c) -> a_index b = Some pos -> b = a) /\
    occs c pos (ItPos vs :: its) = occ_of IIndex a vs :: occs c (item_pos c pos (ItPos vs)) its.
Proof.
  intros Hc pst pos vs its Hw. cbn [wf_items] in Hw. apply andb_prop in Hw. destruct Hw as [Hw _].
  unfold wf_item in Hw. apply andb_prop in Hw. destruct Hw as [_ Hw].
  destruct (pos_ok_parts _ _ _ Hw) as [a [v [vs' [Hg _]]]].
  pose proof (assert_app_pos_unique c (conv_app c Hc)) as U.
  exists a. split; [apply (get_pos_in c pos a Hg)|]. split; [apply (get_pos_index c pos a Hg)|]. split.
  - intros b Hb Ib. apply (U b a pos Hb (get_pos_in c pos a Hg) Ib (get_pos_index c pos a Hg)).
  - cbn [occs item_occs]. rewrite Hg. reflexivity.
Qed.

(** * (2) byte-level delimiter splitting *)
Lemma encode_utf8_nonempty d : encode_utf8 d <> [].
Proof. unfold encode_utf8. destruct (d <? 128); [|destruct (d <? 2048); [|destruct (d <? 65536)]]; discriminate. Qed.

(** the pieces of one value: the leftmost non-overlapping split at the needle, which re-assembles
    to the value ([SplitSpec] is functional: [SplitSpec_functional]) *)
Definition pieces_of (n v : bytes) (ps : list bytes) : Prop := SplitSpec n v ps /\ intercalate n ps = v.

Lemma delimit_go_bytes db : db <> [] -> forall raw i,
  exists pss, Forall2 (pieces_of db) raw pss /\ delimit_go false db None i raw = Some (concat pss).
Proof.
  intros Hdb. induction raw as [|v t IH]; intros i.
  - exists []. split; [constructor|reflexivity].
  - destruct (IH (i + 1)) as [pss [F E]]. cbn [delimit_go]. rewrite E. cbn [andb orb].
    rewrite orb_false_r.
    destruct (contains v db) eqn:C; cbn [negb].
    + destruct (split_total v db Hdb) as [l [Hl [Hs Hi]]]. rewrite Hl.
      exists (l :: pss). split; [constructor; [split; assumption|exact F]|reflexivity].
    + exists ([v] :: pss). split; [|reflexivity]. constructor; [|exact F]. split; [|reflexivity].
      apply SS_last. intros k Hk.
      assert (T : contains v db = true) by (apply contains_spec; exists k; exact Hk).
      rewrite C in T. discriminate T.
Qed.

(** DELIMITER SPLITTING IS BYTE LEVEL: for an argument with a delimiter [d], any command, any list of
    byte strings (no UTF-8 condition anywhere), the stored values are the concatenation, in order, of
    the pieces of each value; pieces are cut at every leftmost non-overlapping occurrence of the
    encoded delimiter and ALL of them are kept (also the empty ones: see [delimit_examples]). *)
Theorem delimit_bytes c a d raw : a_delim a = Some d ->
  exists pss, Forall2 (pieces_of (encode_utf8 d)) raw pss /\ delimit c a raw None = Some (concat pss).
Proof.
  intros Hd. unfold delimit. rewrite Hd. rewrite andb_false_r.
  destruct (is_set s_dont_delimit_trailing c).
  - (* the flag only matters for values after [--] (a trailing index), not here *)
    assert (G : forall raw i, delimit_go true (encode_utf8 d) None i raw = delimit_go false (encode_utf8 d) None i raw).
    { induction raw0 as [|v t IH]; intros i; [reflexivity|]. cbn [delimit_go]. rewrite IH. reflexivity. }
    rewrite G. apply delimit_go_bytes. apply encode_utf8_nonempty.
  - apply delimit_go_bytes. apply encode_utf8_nonempty.
Qed.

Theorem delimit_none c a raw ti : a_delim a = None -> delimit c a raw ti = Some raw.
Proof. intros H. unfold delimit. rewrite H. reflexivity. Qed.

(** the number of pieces of a value is one more than the number of cuts, and no piece contains the needle *)
Lemma pieces_no_needle n v ps : n <> [] -> SplitSpec n v ps -> forall p, In p (removelast ps) -> forall i, ~ occurs_at p n i.
Proof.
  intros Hn H. induction H as [h Hno|h a b rest Hh Hm Hs IH]; intros p Hp i Ho; [destruct Hp|].
  destruct rest as [|r rest']; [inversion Hs|].
  cbn [removelast] in Hp. destruct Hp as [<-|Hp]; [|apply (IH p Hp i Ho)].
  destruct Ho as [x [y [E L]]].
  apply (Hm i).
  - rewrite E, app_length. destruct n; [congruence|]. rewrite app_length. cbn [length]. lia.
  - exists x, (y ++ n ++ b). split; [|exact L]. rewrite Hh, E. rewrite <- !app_assoc. reflexivity.
Qed.

Example delimit_examples :
  let a := (arg_new [109]) <| a_delim := Some 44 |> in
  (* "a,,b"   ",a"   "b,"   and a value that is not UTF-8: "\xff,\xc3" *)
  delimit (cmd_new [112]) a [[97; 44; 44; 98]; [44; 97]; [98; 44]; [255; 44; 195]] None
  = Some [[97]; []; [98];  []; [97];  [98]; [];  [255]; [195]].
Proof. vm_compute. reflexivity. Qed.

(** an OsString-typed argument never rejects a value for its bytes: [push_arg_values] (the only place
    where the value parser runs) cannot fail with an error *)
Theorem push_os_never_rejects c a : a_vp a = Some VPOsString -> forall raw st e s,
  push_arg_values c a raw st <> RErr e s.
Proof.
  intros Hvp. induction raw as [|v t IH]; intros st e s; cbn [push_arg_values]; [discriminate|].
  rewrite Hvp. cbn [expect rbind vp_parse].
  destruct (add_val_to (mt (ps_bump st)) (a_id a) v) as [m1|]; cbn [expect rbind]; [|discriminate].
  destruct (add_index_to m1 (a_id a) (cur_idx (ps_bump st))) as [m2|]; cbn [expect rbind]; [|discriminate].
  apply IH.
Qed.

(** * non-vacuity at [parse_top] *)
From ClapModel Require Import ParseProofs.UnparseTop ParseProofs.UnparseSub ParseProofs.UnparseTrail ParseProofs.UnparseTree.

Module LiftEx.
  (** (1) prog <second>... <first>  -- the positional with index 2 is DECLARED FIRST;  line: prog A B C *)
  Definition p2 : arg := (arg_new [50]) <| a_index := Some 2 |> <| a_num := Some {| vmin := 1; vmax := usize_max |} |>.
  Definition p1 : arg := (arg_new [49]) <| a_index := Some 1 |>.
  Definition k0 : cmd := (cmd_new [112]) <| c_args := [p2; p1] |>.
  Definition kbin : bytes := [112].
  Definition kc : cmd := build_self (with_bin k0 kbin).
  Definition kinv : inv := ILeaf [ItPos [[65]]; ItPos [[66]; [67]]].
  Definition raw_of (i : id) (m : matches) : option groups := opt_map m_raw (fm_get i (ms_args m)).
  Definition idx_of_m (i : id) (m : matches) : option (list N) := opt_map m_indices (fm_get i (ms_args m)).

  Example ex_order_hyps :
    is_set s_no_binary_name k0 = false /\ valid (with_bin k0 kbin) = true /\ wf_inv kc kinv = true /\
    no_globals (build_recursive (S (S (depth kc))) (with_bin k0 kbin)) = true /\
    render_inv kinv = [[65]; [66]; [67]] /\
    (* the first declared positional is the one with index 2 *)
    opt_map a_id (hd_error (positionals kc)) = Some [50] /\
    opt_map a_id (get_pos kc 1) = Some [49] /\ opt_map a_id (get_pos kc 2) = Some [50].
  Proof. vm_compute. repeat split; reflexivity. Qed.
  Example ex_order_parse : exists m,
    parse_top k0 (kbin :: render_inv kinv) = OOk m /\
    raw_of [49] m = Some [[[65]]] /\ raw_of [50] m = Some [[[66]; [67]]] /\
    idx_of_m [49] m = Some [1] /\ idx_of_m [50] m = Some [2; 3].
  Proof. eexists. split; [vm_compute; reflexivity|]. repeat split. Qed.
  (** the same command with the declarations swapped answers every lookup alike *)
  Example ex_order_perm : Permutation (c_args kc) (c_args (kc <| c_args := rev (c_args kc) |>)).
  Proof. apply Permutation_rev. Qed.

  (** (2) prog -m/--mu <v>{1..3} (Append, delimiter ',', OsString)  <f> (OsString);
      line: prog --mu a,,b ,a b, --mu=\xff,\xc3 -m\xe9 g\xe9n *)
  Definition m : arg := (arg_new [109]) <| a_short := Some 109 |> <| a_long := Some [109; 117] |> <| a_action := Some AAppend |>
                          <| a_num := Some {| vmin := 1; vmax := 3 |} |> <| a_delim := Some 44 |> <| a_vp := Some VPOsString |>.
  Definition f : arg := (arg_new [102]) <| a_vp := Some VPOsString |>.
  Definition o0 : cmd := (cmd_new [112]) <| c_args := [m; f] |>.
  Definition oc : cmd := build_self (with_bin o0 kbin).
  Definition oinv : inv :=
    ILeaf [ItLongSep [109; 117] [[97; 44; 44; 98]; [44; 97]; [98; 44]]; ItLongEq [109; 117] [255; 44; 195];
           ItCluster [] (TAtt 109 [233]); ItPos [[103; 233; 110]]].
  Example ex_os_hyps :
    is_set s_no_binary_name o0 = false /\ valid (with_bin o0 kbin) = true /\ wf_inv oc oinv = true /\
    no_globals (build_recursive (S (S (depth oc))) (with_bin o0 kbin)) = true /\
    render_inv oinv = [[45; 45; 109; 117]; [97; 44; 44; 98]; [44; 97]; [98; 44]; [45; 45; 109; 117; 61; 255; 44; 195];
                       [45; 109; 233]; [103; 233; 110]] /\
    utf8_valid [255; 44; 195] = false /\ utf8_valid [233] = false /\ utf8_valid [103; 233; 110] = false.
  Proof. vm_compute. repeat split; reflexivity. Qed.
  Example ex_os_parse : exists mm,
    parse_top o0 (kbin :: render_inv oinv) = OOk mm /\
    raw_of [109] mm = Some [[[97]; []; [98]; []; [97]; [98]; []]; [[255]; [195]]; [[233]]] /\
    idx_of_m [109] mm = Some [2; 3; 4; 5; 6; 7; 8; 10; 11; 13] /\
    raw_of [102] mm = Some [[[103; 233; 110]]] /\ idx_of_m [102] mm = Some [14].
  Proof. eexists. split; [vm_compute; reflexivity|]. repeat split. Qed.
End LiftEx.
