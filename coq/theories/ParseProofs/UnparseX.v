(** Property C02, third pass, item (3): the class of the un-parser theorem with the conjuncts
    [require_equals], value terminators and hyphen / negative-number values lifted.

    Executable Gallina only.  The items, their rendering and their meaning ([render], [apply_items],
    [occs], [item_pst], ...) are those of Unparse.v, unchanged; what changes is the CLASS:

    * [convx c] (built command): as [conv c], but an argument may have [require_equals], a value
      terminator, and -- unless it is a positional -- [allow_hyphen_values] / [allow_negative_numbers].
      Fourth pass: positionals may be [last(true)] / [trailing_var_arg] (the tails are in UnparseXTrail.v).
      Still excluded: hyphen values on positionals.
    * [wfx_items c pst pos its]: as [wf_items], with per occurrence
      - an option with [require_equals] is only spelled [--o=v] / [-o=v] (clusters [-abco=v] included);
      - a separate value is not the option's (or the positional's) terminator;
      - a separate value of an option with hyphen values is ANY token ([--], [--x], [-x] included); of
        an option with negative-number values also a token [-<number>];
      - an occurrence with separate values of an option with hyphen / negative-number values is complete
        ([num_args.max] values: otherwise it would swallow the next item as a value).
    * the explicit terminator token is not an item: UnparseXTree.v treats it between two item lists
      ([loop_terminator_x], [loop_items_term_x], [gmw_items_term_x]). *)
From ClapModel Require Import Base.Bytes Base.Machine Base.Utf8 Lex.OsStrExtModel.
From ClapModel Require Import Parse.Cmd Parse.Build Parse.Valid Parse.Matcher Parse.Errors Parse.Validator Parse.Parser.
From ClapModel Require Import ParseProofs.Actions ParseProofs.Unparse ParseProofs.Escape.
From Coq Require Import ZArith List Bool.
From RecordUpdate Require Import RecordSet.
Import RecordSetNotations.
Import ListNotations.
Open Scope N_scope.

Section XSem.
Variable c : cmd.

(** fourth pass: [last(true)] and [trailing_var_arg] are allowed on positionals (an option never has them);
    a multiple positional below the highest index is allowed when the last positional is [last(true)]
    ([low_index_mults_any], Escape.v, is the parser's own test: the look-ahead is then switched off) *)
Definition convx_arg (a : arg) : bool :=
  (is_some (a_index a) || (negb (a_last a) && negb (a_tva a)))
  && (negb (is_some (a_index a)) || (negb (a_hyphen a) && negb (a_negnum a))).
Definition convx : bool :=
  assert_app c && negb (is_set s_sub_precedence c) && forallb convx_arg (c_args c)
  && negb (is_set s_allow_missing_pos c) && negb (low_index_mults_any c).

(** a token [-<number>] as [parse_short_arg] sees it *)
Definition negnum_tok (v : bytes) : bool :=
  negb (is_escape v) && negb (is_some (to_long v))
  && match to_short v with Some r => sf_is_negative_number r | None => false end.
(** a separate value of an occurrence of [a] *)
Definition val_x (a : arg) (v : bytes) : bool :=
  negb (check_terminator a v) && (a_hyphen a || value_ok v || (a_negnum a && negnum_tok v)).
(** the occurrence cannot take another value (required when the option takes hyphen / negative-number values) *)
Definition closed_x (a : arg) (k : nat) : bool :=
  if a_hyphen a || a_negnum a
  then match a_num a with Some r => negb (r_accepts_more r (N.of_nat k)) | None => false end
  else true.
Definition sepx_ok (o : option arg) (vs : list bytes) : bool :=
  match o with
  | Some a => a_takes_value a && count_ok a (length vs) && negb (a_req_eq a)
              && forallb (val_x a) vs && closed_x a (length vs)
  | None => false
  end.
Definition attx_ok (o : option arg) : bool :=
  match o with Some a => a_takes_value a && negb (a_req_eq a) | None => false end.
Definition wfx_tail (t : ctail) : bool :=
  match t with
  | TNone => true
  | TAtt o v => short_ok o && attx_ok (get_short c o) && negb (is_nil v) && negb (hd 0 v =? EQ)
  | TEq o v => short_ok o && is_opt (get_short c o)
  | TSep o vs => short_ok o && sepx_ok (get_short c o) vs
  end.
(** a run of positional values BEFORE [--]: not for a [last(true)] positional (only reachable after [--]) nor
    for a [trailing_var_arg] one (its run is a tail of the level: UnparseXTrail.v) *)
Definition posx_ok (pst : pstate_t) (o : option arg) (vs : list bytes) : bool :=
  pos_ok pst o vs
  && match o with Some a => forallb (fun v => negb (check_terminator a v)) vs && negb (a_last a) && negb (a_tva a)
                | None => false end.
Definition wfx_item (pst : pstate_t) (pos : N) (it : item) : bool :=
  forallb (nosub c) (firstn 1 (render_item it)) &&
  match it with
  | ItLong n => name_ok n && is_flag (get_long c n)
  | ItLongEq n v => name_ok n && is_opt (get_long c n)
  | ItLongSep n vs => name_ok n && sepx_ok (get_long c n) vs
  | ItCluster fl t =>
      forallb (fun ch => short_ok ch && is_flag (get_short c ch)) fl && wfx_tail t
      && negb (is_nil fl && match t with TNone => true | _ => false end)
  | ItPos vs => posx_ok pst (get_pos c pos) vs
  end.
Fixpoint wfx_items (pst : pstate_t) (pos : N) (its : list item) : bool :=
  match its with
  | [] => true
  | it :: t => wfx_item pst pos it && wfx_items (item_pst c pos it) (item_pos c pos it) t
  end.

End XSem.
