(** Property C02, third and fourth pass: the class of the un-parser theorem with the conjuncts of [conv] lifted.

    Executable Gallina only.  The items, their rendering and their meaning ([render], [apply_items],
    [occs], [item_pst], ...) are those of Unparse.v, unchanged; what changes is the CLASS:

    * [convx c] (built command): [assert_app], no [subcommand_precedence_over_arg], and every OPTION free of
      [last] / [trailing_var_arg].  Nothing else: [require_equals], value terminators, hyphen / negative-number
      values (options and positionals), [last(true)] / [trailing_var_arg] positionals, low-index multiples and
      [allow_missing_positional] are all inside (fourth pass); what they need is local to the items:
    * [wfx_items c pst pos its]: as [wf_items], with per occurrence
      - an option with [require_equals] is only spelled [--o=v] / [-o=v] (clusters [-abco=v] included);
      - a separate value is not the option's (or the positional's) terminator;
      - a separate value of an option with hyphen values is ANY token ([--], [--x], [-x] included); of
        an option with negative-number values also a token [-<number>];
      - an occurrence with separate values of an option with hyphen / negative-number values is complete
        ([num_args.max] values: otherwise it would swallow the next item as a value);
      - a run of positional values ([posx_ok]) is not for a [last(true)] / [trailing_var_arg] positional, not at a
        counter where the look-ahead of the counter correction is on ([lookahead_at]), and a positional whose run
        stays open takes no hyphen / negative-number values; a positional that is left behind after one value may
        get a flag-looking token the parser hands back as a possible hyphen value ([hyph_single], [hyphen_tok]);
      - while the counter points at a positional with hyphen / negative-number values a short cluster is a
        cluster only if it is not such a token ([cluster_clear]).
    * the explicit terminator token is not an item: UnparseXTree.v treats it between two item lists
      ([loop_terminator_x], [loop_items_term_x], [gmw_items_term_x]); the tails of a level ([--] + values, the runs
      of [trailing_var_arg] / hyphen-valued multi positionals, the look-ahead run) are in UnparseXTrail.v /
      UnparseXLook.v and enter the trees of UnparseYTree.v. *)
From ClapModel Require Import Base.Bytes Base.Machine Base.Utf8 Lex.OsStrExtModel.
From ClapModel Require Import Parse.Cmd Parse.Build Parse.Valid Parse.Matcher Parse.Errors Parse.Validator Parse.Parser.
From ClapModel Require Import ParseProofs.Actions ParseProofs.Unparse ParseProofs.Escape.
From Coq Require Import ZArith List Bool.
From RecordUpdate Require Import RecordSet.
Import RecordSetNotations.
Import ListNotations.
Open Scope N_scope.

Section XSem.
Variable c : cmd.

(** fourth pass: [last(true)] and [trailing_var_arg] are allowed on positionals (an option never has them);
    a multiple positional below the highest index is allowed when the last positional is [last(true)]
    ([low_index_mults_any], Escape.v, is the parser's own test: the look-ahead is then switched off) *)
Definition convx_arg (a : arg) : bool := is_some (a_index a) || (negb (a_last a) && negb (a_tva a)).
Definition convx : bool :=
  assert_app c && negb (is_set s_sub_precedence c) && forallb convx_arg (c_args c).
(** fourth pass, item (4): low-index multiples ([<sources>... <target>]) and [allow_missing_positional] are in the class.
    They switch on the LOOK-AHEAD of the positional counter correction at the second-to-last positional (unless that
    positional has a value terminator): the token goes to the LAST positional when the next token looks like a flag or a
    subcommand, or when there is none.  An ordinary run of positional values is never at that counter ([posx_ok]); the
    look-ahead run is a tail of the level (UnparseXLook.v [wfx_look], tree constructor [YLook]). *)
Definition is_terminated (pos : N) : bool := match get_pos c pos with Some a => is_some (a_term a) | None => false end.
Definition lookahead_at (pos : N) : bool :=
  (low_index_mults_any c || is_set s_allow_missing_pos c) && (pos + 1 =? positional_count c) && negb (is_terminated pos).

(** a token [-<number>] as [parse_short_arg] sees it *)
Definition negnum_tok (v : bytes) : bool :=
  negb (is_escape v) && negb (is_some (to_long v))
  && match to_short v with Some r => sf_is_negative_number r | None => false end.
(** a separate value of an occurrence of [a] *)
Definition val_x (a : arg) (v : bytes) : bool :=
  negb (check_terminator a v) && (a_hyphen a || value_ok v || (a_negnum a && negnum_tok v)).
(** the occurrence cannot take another value (required when the option takes hyphen / negative-number values) *)
Definition closed_x (a : arg) (k : nat) : bool :=
  if a_hyphen a || a_negnum a
  then match a_num a with Some r => negb (r_accepts_more r (N.of_nat k)) | None => false end
  else true.
Definition sepx_ok (o : option arg) (vs : list bytes) : bool :=
  match o with
  | Some a => a_takes_value a && count_ok a (length vs) && negb (a_req_eq a)
              && forallb (val_x a) vs && closed_x a (length vs)
  | None => false
  end.
Definition attx_ok (o : option arg) : bool :=
  match o with Some a => a_takes_value a && negb (a_req_eq a) | None => false end.
Definition wfx_tail (t : ctail) : bool :=
  match t with
  | TNone => true
  | TAtt o v => short_ok o && attx_ok (get_short c o) && negb (is_nil v) && negb (hd 0 v =? EQ)
  | TEq o v => short_ok o && is_opt (get_short c o)
  | TSep o vs => short_ok o && sepx_ok (get_short c o) vs
  end.
(** fourth pass: POSITIONALS may take hyphen / negative-number values.  While the counter points at such a positional
    the two early exits of [parse_short_arg] are live: a cluster must not be [-<number>] (negative numbers) nor contain
    an unknown short (hyphen values) -- otherwise it IS a value of the positional ([hyphen_tok]) *)
Definition pos_negnum (pos : N) : bool := match get_pos c pos with Some a => a_negnum a | None => false end.
Definition pos_hyphen (pos : N) : bool := match get_pos c pos with Some a => a_hyphen a && negb (a_last a) | None => false end.
Definition cluster_clear (pos : N) (r : bytes) : bool :=
  negb (pos_negnum pos && sf_is_negative_number r) && negb (pos_hyphen pos && sf_any_unknown c (S (length r)) r).
(** a long name the parser knows nothing about *)
Definition long_unknown (f : bytes) : bool :=
  negb (is_some (get_long c f)) && negb (is_set s_infer_long c) && negb (is_some (possible_long_flag_subcommand c f)).
(** a token that looks like a flag but is handed to the positional at [pos] as a value *)
Definition hyphen_tok (pos : N) (v : bytes) : bool :=
  negb (is_escape v) &&
  match to_long v with
  | Some (f, ok, val) => pos_hyphen pos && ok && negb (is_nil f && negb (is_some val)) && long_unknown f
  | None => match to_short v with
            | Some r => (pos_negnum pos && sf_is_negative_number r) || (pos_hyphen pos && sf_any_unknown c (S (length r)) r)
            | None => false end
  end.
(** one such value for a positional that is left behind after it *)
Definition hyph_single (pst : pstate_t) (pos : N) (vs : list bytes) : bool :=
  match get_pos c pos, vs, pst with
  | Some a, [v], PSValuesDone => hyphen_tok pos v && negb (a_is_multiple a)
  | _, _, _ => false
  end.
(** a run of positional values BEFORE [--]: not for a [last(true)] positional (only reachable after [--]) nor
    for a [trailing_var_arg] one (its run is a tail of the level: UnparseXTrail.v); a positional whose run stays
    open takes no hyphen / negative-number values (it would swallow the rest of the line: a tail, UnparseXTrail.v) *)
Definition posx_ok (pst : pstate_t) (pos : N) (vs : list bytes) : bool :=
  (pos_ok pst (get_pos c pos) vs || hyph_single pst pos vs)
  && match get_pos c pos with
     | Some a => forallb (fun v => negb (check_terminator a v)) vs && negb (a_last a) && negb (a_tva a)
                 && (negb (a_is_multiple a) || (negb (a_hyphen a) && negb (a_negnum a)))
                 && negb (lookahead_at pos)
     | None => false end.
Definition wfx_item (pst : pstate_t) (pos : N) (it : item) : bool :=
  forallb (nosub c) (firstn 1 (render_item it)) &&
  match it with
  | ItLong n => name_ok n && is_flag (get_long c n)
  | ItLongEq n v => name_ok n && is_opt (get_long c n)
  | ItLongSep n vs => name_ok n && sepx_ok (get_long c n) vs
  | ItCluster fl t =>
      forallb (fun ch => short_ok ch && is_flag (get_short c ch)) fl && wfx_tail t
      && negb (is_nil fl && match t with TNone => true | _ => false end)
      && cluster_clear pos (tl (hd [] (render_item it)))
  | ItPos vs => posx_ok pst pos vs
  end.
Fixpoint wfx_items (pst : pstate_t) (pos : N) (its : list item) : bool :=
  match its with
  | [] => true
  | it :: t => wfx_item pst pos it && wfx_items (item_pst c pos it) (item_pos c pos it) t
  end.

End XSem.
