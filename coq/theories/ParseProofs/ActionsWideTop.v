(** Property C07, part 6: the closed forms of ActionsTop.v as statements about [parse_top] for the WIDE class of
    lines (ActionsWide.v): positionals, [--], options with any value range.  Every theorem of ActionsTop.v is
    proved there for an abstract class ([gen_class]); here the wide scanner is shown to be an instance. *)
From ClapModel Require Import Base.Bytes Base.Machine Base.Utf8 Lex.OsStrExtModel.
From ClapModel Require Import Parse.Cmd Parse.Build Parse.Valid Parse.Matcher Parse.Errors Parse.Validator Parse.Parser.
From ClapModel Require Import ParseProofs.Actions ParseProofs.ActionsLoop ParseProofs.ActionsTokens ParseProofs.ActionsTop ParseProofs.ActionsWide.
From ClapModel Require ParseProofs.Spelling ParseProofs.Sources.
From Coq Require Import ZArith.
From RecordUpdate Require Import RecordSet.
Import RecordSetNotations.
Open Scope N_scope.

(** the class of the wide top-level theorems: the binary name is dropped, [ignore_errors] is off, and on the BUILT
    command no argument accepts hyphen values / negative numbers and the wide scanner accepts the line *)
Definition wide_class (c0 : cmd) (bin : bytes) (toks : list bytes) (os : list occ) : Prop :=
  let c := build_self (with_bin c0 bin) in
  is_set s_no_binary_name c0 = false /\ is_set s_ignore_errors c = false /\
  no_hyphen_args c = true /\ woccurrences c toks = Some os.

Theorem cmdline_phase_woccurrences fuel' c toks os st0 :
  no_hyphen_args c = true -> ids_ok c -> woccurrences c toks = Some os -> fs_skip st0 = 0 -> mt_pending (mt st0) = None ->
  (do s <- Sources.cmdline_phase fuel' c toks st0; resolve_pending c s) = fold_flush c os st0.
Proof.
  intros NH IDS HS SK HP.
  destruct (parse_loop_woccurrences c toks os false st0 NH IDS HS SK HP) as [r [E1 E2]].
  unfold Sources.cmdline_phase. rewrite E1. rewrite <- E2.
  destruct r as [s|e s|n]; reflexivity.
Qed.

Lemma wide_gen c0 bin toks os : wide_class c0 bin toks os -> gen_class c0 bin toks os.
Proof.
  intros [NB [IE [NH HS]]]. split; [exact NB|]. split; [exact IE|]. split.
  - intros IDS fuel'. exact (cmdline_phase_woccurrences fuel' _ toks os ps_new NH IDS HS eq_refl eq_refl).
  - exact (woccurrences_scanned _ toks os HS).
Qed.

(** * The theorems of ActionsTop.v for the wide class *)
Theorem wide_top_occurrences c0 bin toks os m :
  let c := build_self (with_bin c0 bin) in
  wide_class c0 bin toks os ->
  parse_top c0 (bin :: toks) = OOk m ->
  exists st1, react_all c os ps_new = ROk st1 /\ ms_sub m = None /\
    forall a, In a (c_args c) ->
      match get (a_id a) (mt st1) with
      | Some e => fm_get (a_id a) (ms_args m) = Some e /\ m_source e = Some SCmdLine
      | None => forall e, fm_get (a_id a) (ms_args m) = Some e ->
                  m_source e = Some SEnv \/ m_source e = Some SDefault
      end.
Proof. intros c TC. exact (gen_top_occurrences c0 bin toks os m (wide_gen _ _ _ _ TC)). Qed.

Theorem wide_top_denote c0 bin toks os m a :
  let c := build_self (with_bin c0 bin) in
  wide_class c0 bin toks os -> parse_top c0 (bin :: toks) = OOk m -> In a (c_args c) ->
  match fold_left (step_abs c (a_id a)) os None with
  | Some g => exists e, fm_get (a_id a) (ms_args m) = Some e /\ m_raw e = g /\ m_source e = Some SCmdLine
  | None => forall e, fm_get (a_id a) (ms_args m) = Some e -> m_source e = Some SEnv \/ m_source e = Some SDefault
  end.
Proof. intros c TC. exact (gen_top_denote c0 bin toks os m a (wide_gen _ _ _ _ TC)). Qed.

Theorem wide_top_count c0 bin toks os m a :
  let c := build_self (with_bin c0 bin) in
  wide_class c0 bin toks os -> parse_top c0 (bin :: toks) = OOk m -> In a (c_args c) ->
  count_flag a -> override_free c (a_id a) ->
  let n := count_occ (a_id a) os in
  ((0 < n)%nat -> exists e, fm_get (a_id a) (ms_args m) = Some e /\
       m_raw e = [[n_to_dec (N.min (N.of_nat n) 255)]] /\ m_source e = Some SCmdLine) /\
  (n = 0%nat -> forall e, fm_get (a_id a) (ms_args m) = Some e -> m_source e = Some SEnv \/ m_source e = Some SDefault).
Proof. intros c TC. exact (gen_top_count c0 bin toks os m a (wide_gen _ _ _ _ TC)). Qed.

Theorem wide_top_append c0 bin toks os m a :
  let c := build_self (with_bin c0 bin) in
  wide_class c0 bin toks os -> parse_top c0 (bin :: toks) = OOk m -> In a (c_args c) ->
  a_get_action a = AAppend -> (forall b, In b (c_args c) -> overridden c b (a_id a) = false) ->
  (0 < count_occ (a_id a) os)%nat ->
  exists e, fm_get (a_id a) (ms_args m) = Some e /\ m_raw e = occ_groups c (a_id a) os /\ m_source e = Some SCmdLine.
Proof. intros c TC. exact (gen_top_append c0 bin toks os m a (wide_gen _ _ _ _ TC)). Qed.

Theorem wide_top_set_last c0 bin toks os1 o os2 m a :
  let c := build_self (with_bin c0 bin) in
  wide_class c0 bin toks (os1 ++ o :: os2) -> parse_top c0 (bin :: toks) = OOk m -> In a (c_args c) ->
  set_family a = true -> o_arg o = a -> Forall (unrelated c (a_id a)) os2 ->
  exists e, fm_get (a_id a) (ms_args m) = Some e /\
    m_raw e = step_self c SCmdLine a (o_vals c o) None /\ m_source e = Some SCmdLine.
Proof. intros c TC. exact (gen_top_set_last c0 bin toks os1 o os2 m a (wide_gen _ _ _ _ TC)). Qed.

Theorem wide_top_override c0 bin toks os1 o os2 m a :
  let c := build_self (with_bin c0 bin) in
  wide_class c0 bin toks (os1 ++ o :: os2) -> parse_top c0 (bin :: toks) = OOk m -> In a (c_args c) ->
  beq (a_id (o_arg o)) (a_id a) = false -> overridden c (o_arg o) (a_id a) = true ->
  Forall (fun o' => beq (a_id (o_arg o')) (a_id a) = false) os2 ->
  forall e, fm_get (a_id a) (ms_args m) = Some e -> m_source e = Some SEnv \/ m_source e = Some SDefault.
Proof. intros c TC. exact (gen_top_override c0 bin toks os1 o os2 m a (wide_gen _ _ _ _ TC)). Qed.

Theorem wide_top_set_repeat_conflict c0 bin toks os1 o os2 st vals :
  let c := build_self (with_bin c0 bin) in
  wide_class c0 bin toks (os1 ++ o :: os2) -> valid (with_bin c0 bin) = true ->
  react_all c os1 ps_new = ROk st ->
  set_family (o_arg o) = true -> fold_left (step_abs c (a_id (o_arg o))) os1 None <> None ->
  self_override c (o_arg o) = false ->
  verify_num_args c (o_arg o) (o_raw o) st = ROk tt -> occ_values c (o_arg o) (o_raw o) (o_ti o) = Some vals ->
  exists e, parse_top c0 (bin :: toks) = OErr e /\ e_kind e = EArgumentConflict /\ e_arg e = a_id (o_arg o).
Proof. intros c TC. exact (gen_top_set_repeat_conflict c0 bin toks os1 o os2 st vals (wide_gen _ _ _ _ TC)). Qed.

Theorem wide_top_default c0 bin toks os m a :
  let c := build_self (with_bin c0 bin) in
  wide_class c0 bin toks os -> parse_top c0 (bin :: toks) = OOk m -> In a (c_args c) ->
  fold_left (step_abs c (a_id a)) os None = None ->
  a_env a = None -> a_default_ifs a = [] -> a_default a <> [] -> a_delim a = None ->
  exists e, fm_get (a_id a) (ms_args m) = Some e /\ m_raw e = [a_default a] /\ m_source e = Some SDefault.
Proof. intros c TC. exact (gen_top_default c0 bin toks os m a (wide_gen _ _ _ _ TC)). Qed.

Theorem wide_top_flag c0 bin toks os m a b :
  let c := build_self (with_bin c0 bin) in
  wide_class c0 bin toks os -> parse_top c0 (bin :: toks) = OOk m -> In a (c_args c) ->
  a_get_action a = flag_action b -> a_takes_value a = false -> a_delim a = None ->
  a_default_missing a = [flag_value b] -> a_default a = [flag_value (negb b)] ->
  (forall os1 o os2, os = os1 ++ o :: os2 -> o_arg o = a -> Forall (unrelated c (a_id a)) os2 ->
     exists e, fm_get (a_id a) (ms_args m) = Some e /\ m_raw e = [[flag_value b]] /\ m_source e = Some SCmdLine) /\
  (count_occ (a_id a) os = 0%nat -> a_env a = None -> a_default_ifs a = [] ->
     exists e, fm_get (a_id a) (ms_args m) = Some e /\ m_raw e = [[flag_value (negb b)]] /\ m_source e = Some SDefault).
Proof. intros c TC. exact (gen_top_flag c0 bin toks os m a b (wide_gen _ _ _ _ TC)). Qed.

Theorem wide_top_get_count c0 bin toks os m a :
  let c := build_self (with_bin c0 bin) in
  wide_class c0 bin toks os -> parse_top c0 (bin :: toks) = OOk m -> In a (c_args c) ->
  count_flag a -> override_free c (a_id a) ->
  a_default a = [[48]] -> a_env a = None -> a_default_ifs a = [] -> a_delim a = None ->
  get_count_view m (a_id a) = Some (N.min (N.of_nat (count_occ (a_id a) os)) 255).
Proof. intros c TC. exact (gen_top_get_count c0 bin toks os m a (wide_gen _ _ _ _ TC)). Qed.

Theorem wide_top_get_flag c0 bin toks os m a b :
  let c := build_self (with_bin c0 bin) in
  wide_class c0 bin toks os -> parse_top c0 (bin :: toks) = OOk m -> In a (c_args c) ->
  a_get_action a = flag_action b -> a_takes_value a = false -> a_delim a = None ->
  a_default_missing a = [flag_value b] -> a_default a = [flag_value (negb b)] ->
  (forall os1 o os2, os = os1 ++ o :: os2 -> o_arg o = a -> Forall (unrelated c (a_id a)) os2 ->
     get_flag_view m (a_id a) = Some b) /\
  (count_occ (a_id a) os = 0%nat -> a_env a = None -> a_default_ifs a = [] ->
     get_flag_view m (a_id a) = Some (negb b)).
Proof. intros c TC. exact (gen_top_get_flag c0 bin toks os m a b (wide_gen _ _ _ _ TC)). Qed.

(** * Two closed forms of the scanner, for ALL lengths *)

(** ** an [Append] positional with one value per occurrence: one occurrence PER VALUE (adjacent values are
    never merged into one group) *)
Definition pos_occ (a : arg) (v : bytes) : occ := mkOcc (Some IIndex) SCmdLine a [v] None.
Definition per_value_positional (c : cmd) (k : N) (a : arg) : Prop :=
  pos_simple c = true /\ get_pos c k = Some a /\ a_takes_value a = true /\
  a_multiple_values a = false /\ a_is_multiple a = true /\ a_term a = None /\ a_tva a = false.
Definition value_tokens (c : cmd) (vals : list bytes) : Prop :=
  Forall (fun v => plain_value v = true /\ nosub c v = true) vals.

Fixpoint wrun (a : arg) (pend : option wpending) (vals : list bytes) : list occ :=
  match vals with
  | [] => flush pend
  | v :: vs => flush pend ++ wrun a (Some (IIndex, a, [v], None)) vs
  end.

Lemma wrun_map a : forall vals p, wrun a (Some p) vals = pend_occ p :: map (pos_occ a) vals.
Proof.
  induction vals as [|v vs IH]; intros p; cbn [wrun flush map app]; [reflexivity|].
  rewrite IH. reflexivity.
Qed.

Lemma wscan_per_value c k a : per_value_positional c k a ->
  forall vals, value_tokens c vals ->
  forall pst pend, (pst = PSValuesDone \/ pst = PSPos (a_id a)) ->
  wscan c (mkW pst k false pend) vals = Some (wrun a pend vals).
Proof.
  intros [PS [GP [TV [MV [IM [TM TVA]]]]]]. induction vals as [|v vs IH]; intros HV pst pend Hpst; cbn [wscan wrun w_pend].
  - reflexivity.
  - inversion HV as [|? ? [PV NS] HV']; subst.
    destruct (plain_value_lex v PV) as [ES [TL TS]].
    assert (WS : wstep c (mkW pst k false pend) v = Some (flush pend, mkW (PSPos (a_id a)) k false (Some (IIndex, a, [v], None)))).
    { unfold wstep. cbn [w_trailing w_pst w_pend w_pos]. unfold sub_free. rewrite NS, orb_true_r. cbn [negb].
      rewrite ES, TL, TS. cbn [is_some orb].
      assert (WP : wpos_step c (mkW pst k false pend) v = Some (flush pend, mkW (PSPos (a_id a)) k false (Some (IIndex, a, [v], None)))).
      { unfold wpos_step. rewrite PS. cbn [negb w_pos w_trailing w_pend]. rewrite GP, TV. cbn [negb]. rewrite TVA, MV.
        unfold check_terminator. rewrite TM, IM. cbn [orb negb].
        destruct pend as [[[[idn b] raw] ti]|]; [rewrite andb_false_r|]; reflexivity. }
      destruct Hpst as [-> | ->]; exact WP. }
    rewrite WS. rewrite (IH HV' (PSPos (a_id a)) (Some (IIndex, a, [v], None)) (or_intror eq_refl)). reflexivity.
Qed.

Theorem woccurrences_per_value c a vals : per_value_positional c 1 a -> value_tokens c vals ->
  woccurrences c vals = Some (map (pos_occ a) vals).
Proof.
  intros H HV. unfold woccurrences, w_init. rewrite (wscan_per_value c 1 a H vals HV PSValuesDone None (or_introl eq_refl)).
  destruct vals as [|v vs]; cbn [wrun flush app map]; [reflexivity|]. rewrite wrun_map. reflexivity.
Qed.

Lemma occ_groups_pos c a : a_delim a = None -> forall vals,
  occ_groups c (a_id a) (map (pos_occ a) vals) = map (fun v => [v]) vals.
Proof.
  intros HD. induction vals as [|v vs IH]; cbn [map occ_groups flat_map]; [reflexivity|].
  cbn [pos_occ o_arg]. rewrite beq_refl. cbn [app]. f_equal; [|exact IH].
  unfold o_vals, pos_occ. cbn [o_arg o_raw o_ti]. rewrite (occ_values_nodelim c a [v] None HD) by discriminate. reflexivity.
Qed.

Lemma count_occ_pos a : forall vals, count_occ (a_id a) (map (pos_occ a) vals) = length vals.
Proof.
  induction vals as [|v vs IH]; cbn [map count_occ length]; [reflexivity|].
  cbn [pos_occ o_arg]. rewrite beq_refl, IH. reflexivity.
Qed.

(** the line consists of values of the positional only: every value is its own group, in order *)
Theorem wide_top_positional_per_value c0 bin vals m a :
  let c := build_self (with_bin c0 bin) in
  is_set s_no_binary_name c0 = false -> is_set s_ignore_errors c = false -> no_hyphen_args c = true ->
  per_value_positional c 1 a -> value_tokens c vals -> vals <> [] ->
  a_get_action a = AAppend -> a_delim a = None -> (forall b, In b (c_args c) -> overridden c b (a_id a) = false) ->
  parse_top c0 (bin :: vals) = OOk m ->
  exists e, fm_get (a_id a) (ms_args m) = Some e /\ m_raw e = map (fun v => [v]) vals /\ m_source e = Some SCmdLine.
Proof.
  intros c NB IE NH PV HV NE EA HD OF HP.
  assert (TC : wide_class c0 bin vals (map (pos_occ a) vals)).
  { split; [exact NB|]. split; [exact IE|]. split; [exact NH|]. exact (woccurrences_per_value c a vals PV HV). }
  assert (Hin : In a (c_args c)) by (destruct PV as [_ [GP _]]; exact (get_pos_in c 1 a GP)).
  destruct (wide_top_append c0 bin vals _ m a TC HP Hin EA OF) as [e [Ge [Re Se]]].
  { rewrite count_occ_pos. destruct vals; [congruence|cbn; lia]. }
  exists e. split; [exact Ge|]. split; [|exact Se]. fold c in Re. rewrite Re. exact (occ_groups_pos c a HD vals).
Qed.

(** ** a positional with a value RANGE ([num_args(1..)], [num_args(2)], ...): a run of adjacent values is ONE occurrence *)
Definition run_positional (c : cmd) (k : N) (a : arg) : Prop :=
  pos_simple c = true /\ get_pos c k = Some a /\ a_takes_value a = true /\
  a_multiple_values a = true /\ a_term a = None /\ a_tva a = false.

Lemma wscan_run c k a : run_positional c k a ->
  forall vals, value_tokens c vals -> forall raw,
  wscan c (mkW (PSPos (a_id a)) k false (Some (IIndex, a, raw, None))) vals =
  Some [mkOcc (Some IIndex) SCmdLine a (raw ++ vals) None].
Proof.
  intros [PS [GP [TV [MV [TM TVA]]]]]. induction vals as [|v vs IH]; intros HV raw; cbn [wscan w_pend flush pend_occ].
  - rewrite app_nil_r. reflexivity.
  - inversion HV as [|? ? [PV NS] HV']; subst.
    destruct (plain_value_lex v PV) as [ES [TL TS]].
    assert (IM : a_is_multiple a = true) by (unfold a_is_multiple; rewrite MV; reflexivity).
    assert (WS : wstep c (mkW (PSPos (a_id a)) k false (Some (IIndex, a, raw, None))) v =
                 Some ([], mkW (PSPos (a_id a)) k false (Some (IIndex, a, raw ++ [v], None)))).
    { unfold wstep. cbn [w_trailing w_pst w_pend w_pos]. unfold sub_free. rewrite NS, orb_true_r. cbn [negb].
      rewrite ES, TL, TS. cbn [is_some orb].
      unfold wpos_step. rewrite PS. cbn [negb w_pos w_trailing w_pend]. rewrite GP, TV. cbn [negb]. rewrite TVA, MV, beq_refl.
      unfold check_terminator. rewrite TM, IM. reflexivity. }
    rewrite WS. rewrite (IH HV' (raw ++ [v])). rewrite <- app_assoc. reflexivity.
Qed.

Theorem woccurrences_run c a v vals : run_positional c 1 a -> value_tokens c (v :: vals) ->
  woccurrences c (v :: vals) = Some [mkOcc (Some IIndex) SCmdLine a (v :: vals) None].
Proof.
  intros H HV. pose proof H as [PS [GP [TV [MV [TM TVA]]]]]. unfold woccurrences, w_init. cbn [wscan].
  inversion HV as [|? ? [PV NS] HV']; subst.
  destruct (plain_value_lex v PV) as [ES [TL TS]].
  assert (IM : a_is_multiple a = true) by (unfold a_is_multiple; rewrite MV; reflexivity).
  assert (WS : wstep c (mkW PSValuesDone 1 false None) v = Some ([], mkW (PSPos (a_id a)) 1 false (Some (IIndex, a, [v], None)))).
  { unfold wstep. cbn [w_trailing w_pst w_pend w_pos]. unfold sub_free. rewrite NS, orb_true_r. cbn [negb].
    rewrite ES, TL, TS. cbn [is_some orb].
    unfold wpos_step. rewrite PS. cbn [negb w_pos w_trailing w_pend]. rewrite GP, TV. cbn [negb]. rewrite TVA.
    unfold check_terminator. rewrite TM, IM. reflexivity. }
  rewrite WS. rewrite (wscan_run c 1 a H vals HV' [v]). reflexivity.
Qed.

(** the line consists of values of the positional only: ONE group holding all of them, in order *)
Theorem wide_top_positional_run c0 bin v vals m a :
  let c := build_self (with_bin c0 bin) in
  is_set s_no_binary_name c0 = false -> is_set s_ignore_errors c = false -> no_hyphen_args c = true ->
  run_positional c 1 a -> value_tokens c (v :: vals) ->
  a_get_action a = AAppend -> a_delim a = None -> (forall b, In b (c_args c) -> overridden c b (a_id a) = false) ->
  parse_top c0 (bin :: v :: vals) = OOk m ->
  exists e, fm_get (a_id a) (ms_args m) = Some e /\ m_raw e = [v :: vals] /\ m_source e = Some SCmdLine.
Proof.
  intros c NB IE NH PV HV EA HD OF HP.
  assert (TC : wide_class c0 bin (v :: vals) [mkOcc (Some IIndex) SCmdLine a (v :: vals) None]).
  { split; [exact NB|]. split; [exact IE|]. split; [exact NH|]. exact (woccurrences_run c a v vals PV HV). }
  assert (Hin : In a (c_args c)) by (destruct PV as [_ [GP _]]; exact (get_pos_in c 1 a GP)).
  destruct (wide_top_append c0 bin _ _ m a TC HP Hin EA OF) as [e [Ge [Re Se]]].
  { cbn [count_occ o_arg]. rewrite beq_refl. cbn. lia. }
  exists e. split; [exact Ge|]. split; [|exact Se]. fold c in Re. rewrite Re.
  cbn [occ_groups flat_map o_arg]. rewrite beq_refl. cbn [app]. unfold o_vals. cbn [o_arg o_raw o_ti].
  rewrite (occ_values_nodelim c a (v :: vals) None HD) by discriminate. reflexivity.
Qed.

(** ** an option given WITHOUT a value, n times: n occurrences without a raw value; for an [Append] option without
    [default_missing_value] these are n EMPTY groups, none dropped or merged *)
Definition bare_token (c : cmd) (tok : bytes) (idn : ident) (a : arg) : Prop :=
  is_escape tok = false /\ is_some (to_long tok) || is_some (to_short tok) = true /\ nosub c tok = true /\
  wclassify c tok = Some ([], Some (idn, a)) /\ find_arg c (a_id a) = Some a /\ a_hyphen a = false.

Lemma wscan_bare c tok idn a : bare_token c tok idn a ->
  forall n w, w_trailing w = false -> pst_ok c (w_pst w) = true ->
  wscan c w (repeat tok n) = Some (flush (w_pend w) ++ repeat (tok_occ idn a []) n).
Proof.
  intros [ES [FL [NS [CL [FA HY]]]]]. induction n as [|n IH]; intros w TR PK; cbn [repeat wscan].
  - rewrite app_nil_r. reflexivity.
  - assert (WS : wstep c w tok = Some (flush (w_pend w) ++ [], mkW (PSOpt (a_id a)) (w_pos w) false (Some (idn, a, [], None)))).
    { unfold wstep. rewrite TR. unfold sub_free. rewrite NS, orb_true_r. cbn [negb]. rewrite ES, FL, PK, CL. reflexivity. }
    rewrite WS. rewrite IH; [|reflexivity|cbn [w_pst pst_ok]; rewrite FA, HY; reflexivity].
    cbn [w_pend flush pend_occ]. rewrite app_nil_r. reflexivity.
Qed.

Theorem woccurrences_bare c tok idn a n : bare_token c tok idn a ->
  woccurrences c (repeat tok n) = Some (repeat (tok_occ idn a []) n).
Proof. intros H. exact (wscan_bare c tok idn a H n w_init eq_refl eq_refl). Qed.

Lemma occ_groups_bare c idn a : a_default_missing a = [] -> forall n,
  occ_groups c (a_id a) (repeat (tok_occ idn a []) n) = repeat [] n.
Proof.
  intros HD. induction n as [|n IH]; cbn [repeat occ_groups flat_map]; [reflexivity|].
  cbn [tok_occ o_arg]. rewrite beq_refl. cbn [app]. f_equal; [|exact IH].
  unfold o_vals, tok_occ. cbn [o_arg o_raw o_ti]. rewrite (occ_values_nil c a None HD). reflexivity.
Qed.

Lemma count_occ_bare idn a : forall n, count_occ (a_id a) (repeat (tok_occ idn a []) n) = n.
Proof.
  induction n as [|n IH]; cbn [repeat count_occ]; [reflexivity|]. cbn [tok_occ o_arg]. rewrite beq_refl, IH. reflexivity.
Qed.

Theorem wide_top_bare_append c0 bin tok idn a n m :
  let c := build_self (with_bin c0 bin) in
  is_set s_no_binary_name c0 = false -> is_set s_ignore_errors c = false -> no_hyphen_args c = true ->
  bare_token c tok idn a -> (0 < n)%nat ->
  a_get_action a = AAppend -> a_default_missing a = [] -> (forall b, In b (c_args c) -> overridden c b (a_id a) = false) ->
  parse_top c0 (bin :: repeat tok n) = OOk m ->
  exists e, fm_get (a_id a) (ms_args m) = Some e /\ m_raw e = repeat [] n /\ m_source e = Some SCmdLine.
Proof.
  intros c NB IE NH BT Hn EA HD OF HP.
  assert (TC : wide_class c0 bin (repeat tok n) (repeat (tok_occ idn a []) n)).
  { split; [exact NB|]. split; [exact IE|]. split; [exact NH|]. exact (woccurrences_bare c tok idn a n BT). }
  assert (Hin : In a (c_args c)) by (destruct BT as [_ [_ [_ [_ [FA _]]]]]; exact (find_arg_in c _ a FA)).
  destruct (wide_top_append c0 bin _ _ m a TC HP Hin EA OF) as [e [Ge [Re Se]]].
  { rewrite count_occ_bare. exact Hn. }
  exists e. split; [exact Ge|]. split; [|exact Se]. fold c in Re. rewrite Re. exact (occ_groups_bare c idn a HD n).
Qed.

(** * Non-vacuity: the wide theorems applied to a concrete command and concrete lines *)
Module WideTopExamples.
  Import WideExamples.
  (** prog -v (Count) -o/--opt [<v>...] (Append, num_args 0.., no default-missing) -x (SetTrue, overrides v)
      <rest>... (Append positional, one value per occurrence)
      -d [<v>] (Append, num_args 0..=1, value delimiter ',', default-missing "x,y") *)
  Definition c1 : cmd := (cmd_new [112]) <| c_args := [
     (mk [118]) <| a_short := Some 118 |> <| a_action := Some ACount |>;
     (mk [111]) <| a_short := Some 111 |> <| a_long := Some [111; 112; 116] |> <| a_action := Some AAppend |>
                <| a_num := Some r_full |>;
     (mk [120]) <| a_short := Some 120 |> <| a_action := Some ASetTrue |> <| a_overrides := [[118]] |>;
     (mk [82]) <| a_action := Some AAppend |> <| a_num := Some r_single |>;
     (mk [100]) <| a_short := Some 100 |> <| a_action := Some AAppend |> <| a_num := Some {| vmin := 0; vmax := 1 |} |>
                <| a_delim := Some 44 |> <| a_default_missing := [[120; 44; 121]] |> ] |>.
  Definition bin : bytes := [112].
  Definition cb : cmd := build_self (with_bin c1 bin).
  Definition argB (i : id) : arg := match find_arg cb i with Some a => a | None => arg_new [] end.
  Definition occs (toks : list bytes) : list occ := opt_default [] (woccurrences cb toks).
  Definition result (toks : list bytes) : matches :=
    match parse_top c1 (bin :: toks) with OOk m => m | _ => Matches [] None end.
  Definition entry (toks : list bytes) (i : id) := option_map (fun e => (m_source e, m_raw e)) (fm_get i (ms_args (result toks))).
  Definition t_opt : bytes := [45;45;111;112;116].
  (** --opt -v x --opt a b -v y -- -v *)
  Definition lineM : list bytes := [t_opt; [45;118]; [120]; t_opt; [97]; [98]; [45;118]; [121]; [45;45]; [45;118]].
  Definition lineP : list bytes := [[97]; [98]; [99]].          (* a b c *)
  Definition lineO : list bytes := repeat t_opt 3.               (* --opt --opt --opt *)
  Ltac vmr := vm_compute; reflexivity.
  Ltac in_args := vm_compute; repeat (try (left; reflexivity); right).

  Example classM : wide_class c1 bin lineM (occs lineM).
  Proof. unfold wide_class. split; [|split; [|split]]; vmr. Qed.
  Example okM : parse_top c1 (bin :: lineM) = OOk (result lineM).
  Proof. vmr. Qed.
  Example okP : parse_top c1 (bin :: lineP) = OOk (result lineP).
  Proof. vmr. Qed.
  Example okO : parse_top c1 (bin :: lineO) = OOk (result lineO).
  Proof. vmr. Qed.
  Eval vm_compute in (entry lineM [111], entry lineM [82], entry lineM [118], entry lineP [82], entry lineO [111]).

  (** Append option: a value-less occurrence (empty group), then one with two values *)
  Example append_opt : entry lineM [111] = Some (Some SCmdLine, [[]; [[97]; [98]]]).
  Proof.
    assert (Hin : In (argB [111]) (c_args cb)) by in_args.
    assert (OF : forall b, In b (c_args cb) -> overridden cb b (a_id (argB [111])) = false) by (apply no_overrides_dec; vmr).
    destruct (wide_top_append c1 bin lineM (occs lineM) (result lineM) (argB [111]) classM okM Hin ltac:(vmr) OF
                ltac:(vm_compute; lia)) as [e [Ge [Re Se]]].
    unfold entry. assert (E : a_id (argB [111]) = [111]) by vmr. rewrite E in Ge. rewrite Ge. cbn [option_map].
    rewrite Re, Se. vmr.
  Qed.
  (** Append positional: x, y, and the escaped -v: three occurrences, one value each *)
  Example append_pos : entry lineM [82] = Some (Some SCmdLine, [[[120]]; [[121]]; [[45;118]]]).
  Proof.
    assert (Hin : In (argB [82]) (c_args cb)) by in_args.
    assert (OF : forall b, In b (c_args cb) -> overridden cb b (a_id (argB [82])) = false) by (apply no_overrides_dec; vmr).
    destruct (wide_top_append c1 bin lineM (occs lineM) (result lineM) (argB [82]) classM okM Hin ltac:(vmr) OF
                ltac:(vm_compute; lia)) as [e [Ge [Re Se]]].
    unfold entry. assert (E : a_id (argB [82]) = [82]) by vmr. rewrite E in Ge. rewrite Ge. cbn [option_map].
    rewrite Re, Se. vmr.
  Qed.
  (** optional value, default_missing_value and delimiter: -d -d a,b -d=c : the value-less occurrence takes the
      default-missing value, every occurrence is split at the delimiter, one group per occurrence *)
  Definition lineD : list bytes := [[45;100]; [45;100]; [97;44;98]; [45;100;61;99]].
  Example classD : wide_class c1 bin lineD (occs lineD).
  Proof. unfold wide_class. split; [|split; [|split]]; vmr. Qed.
  Example okD : parse_top c1 (bin :: lineD) = OOk (result lineD).
  Proof. vmr. Qed.
  Example append_delim : entry lineD [100] = Some (Some SCmdLine, [[[120]; [121]]; [[97]; [98]]; [[99]]]).
  Proof.
    assert (Hin : In (argB [100]) (c_args cb)) by in_args.
    assert (OF : forall b, In b (c_args cb) -> overridden cb b (a_id (argB [100])) = false) by (apply no_overrides_dec; vmr).
    destruct (wide_top_append c1 bin lineD (occs lineD) (result lineD) (argB [100]) classD okD Hin ltac:(vmr) OF
                ltac:(vm_compute; lia)) as [e [Ge [Re Se]]].
    unfold entry. assert (E : a_id (argB [100]) = [100]) by vmr. rewrite E in Ge. rewrite Ge. cbn [option_map].
    rewrite Re, Se. vmr.
  Qed.
  (** a multi-valued positional: the run is one occurrence *)
  Definition c2 : cmd := (cmd_new [112]) <| c_args := [
     (mk [118]) <| a_short := Some 118 |> <| a_action := Some ACount |>;
     (mk [82]) <| a_action := Some AAppend |> <| a_num := Some {| vmin := 1; vmax := usize_max |} |> ] |>.
  Definition cb2 : cmd := build_self (with_bin c2 bin).
  Definition argR2 : arg := match find_arg cb2 [82] with Some a => a | None => arg_new [] end.
  Definition result2 (toks : list bytes) : matches :=
    match parse_top c2 (bin :: toks) with OOk m => m | _ => Matches [] None end.
  Example run_hyp : run_positional cb2 1 argR2 /\ value_tokens cb2 lineP.
  Proof.
    split; [unfold run_positional; split; [|split; [|split; [|split; [|split]]]]; vmr|].
    unfold value_tokens, lineP. constructor; [split; vmr|]. constructor; [split; vmr|]. constructor; [split; vmr|]. constructor.
  Qed.
  Example run_one_group : option_map m_raw (fm_get [82] (ms_args (result2 lineP))) = Some [[[97]; [98]; [99]]].
  Proof.
    destruct run_hyp as [H1 H2].
    assert (OF : forall b, In b (c_args cb2) -> overridden cb2 b (a_id argR2) = false) by (apply no_overrides_dec; vmr).
    destruct (wide_top_positional_run c2 bin [97] [[98]; [99]] (result2 lineP) argR2 ltac:(vmr) ltac:(vmr) ltac:(vmr)
                H1 H2 ltac:(vmr) ltac:(vmr) OF ltac:(vmr)) as [e [Ge [Re Se]]].
    assert (E : a_id argR2 = [82]) by vmr. rewrite E in Ge. rewrite Ge. cbn [option_map]. rewrite Re. reflexivity.
  Qed.
  (** the per-value closed form and the bare-option closed form *)
  Example per_value_hyp : per_value_positional cb 1 (argB [82]) /\ value_tokens cb lineP.
  Proof.
    split; [unfold per_value_positional; split; [|split; [|split; [|split; [|split; [|split]]]]]; vmr|].
    unfold value_tokens, lineP. constructor; [split; vmr|]. constructor; [split; vmr|]. constructor; [split; vmr|]. constructor.
  Qed.
  Example per_value : entry lineP [82] = Some (Some SCmdLine, [[[97]]; [[98]]; [[99]]]).
  Proof.
    destruct per_value_hyp as [H1 H2].
    assert (OF : forall b, In b (c_args cb) -> overridden cb b (a_id (argB [82])) = false) by (apply no_overrides_dec; vmr).
    destruct (wide_top_positional_per_value c1 bin lineP (result lineP) (argB [82]) ltac:(vmr) ltac:(vmr) ltac:(vmr)
                H1 H2 ltac:(discriminate) ltac:(vmr) ltac:(vmr) OF okP) as [e [Ge [Re Se]]].
    unfold entry. assert (E : a_id (argB [82]) = [82]) by vmr. rewrite E in Ge. rewrite Ge. cbn [option_map].
    rewrite Re, Se. vmr.
  Qed.
  Example bare_hyp : bare_token cb t_opt ILong (argB [111]).
  Proof. unfold bare_token. split; [|split; [|split; [|split; [|split]]]]; vmr. Qed.
  Example bare : entry lineO [111] = Some (Some SCmdLine, [[]; []; []]).
  Proof.
    assert (OF : forall b, In b (c_args cb) -> overridden cb b (a_id (argB [111])) = false) by (apply no_overrides_dec; vmr).
    destruct (wide_top_bare_append c1 bin t_opt ILong (argB [111]) 3 (result lineO) ltac:(vmr) ltac:(vmr) ltac:(vmr)
                bare_hyp ltac:(lia) ltac:(vmr) ltac:(vmr) OF okO) as [e [Ge [Re Se]]].
    unfold entry. assert (E : a_id (argB [111]) = [111]) by vmr. rewrite E in Ge. rewrite Ge. cbn [option_map].
    rewrite Re, Se. vmr.
  Qed.
End WideTopExamples.
