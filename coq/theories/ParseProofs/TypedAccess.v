(** Property C04, round 2, last sentence at the level of the PARSER: the store that the typed
    accessors of [Value/TypedStore.v] read IS the matcher the parser produced.

    [store_of c l]: the [ArgMatches] of the level [c] whose matcher entries are [l] -- same keys in
    the same order; the entry of an argument declares the type id of its value parser
    ([MatchedArg::new_arg]: [type_id = Some(parser.type_id())]) and holds, next to each raw value at
    the same place, a typed value of that type ([push_arg_values]: [add_val_to(id, val, raw_val)]);
    the entry of a group declares no type and holds ids ([new_group]).  How a typed value is printed
    ([rend]) is a parameter: nothing below depends on it.

    For every successful root level of a valid [plain] definition the store is well formed (keys
    unique by C02's index invariant, values of the declared type by construction), so the refinement
    theorem of C04 ([run_refines]) applies to it: every history of typed get/remove calls ON THE RESULT
    OF THE PARSE behaves like the finite map, never reaches an internal [expect]; an access that fails
    -- unknown id (debug builds), or a type other than the one of the argument's value parser --
    leaves every stored entry as the parser left it. *)
From Coq Require Import ZArith List Bool Lia.
From ClapModel Require Import Base.Bytes Base.Machine Base.Utf8.
From ClapModel Require Value.TypedStore Value.TypedStoreProofs.
From ClapModel Require Import Parse.Cmd Parse.Build Parse.Valid Parse.Matcher Parse.Errors Parse.Validator Parse.Parser.
From ClapModel Require Import ParseProofs.Safe ParseProofs.Invariant ParseProofs.Relations ParseProofs.Totality
                              ParseProofs.TotalityMain ParseProofs.IndexInv ParseProofs.Dispatch ParseProofs.TypedInv ParseProofs.TypedView.
Import ListNotations.
Open Scope N_scope.

Module TSt := ClapModel.Value.TypedStore.
Module TSP := ClapModel.Value.TypedStoreProofs.

Section StoreOf.
Variable rend : Cmd.vparser -> bytes -> bytes.

(** the type id of [Id] (members of a group); different from every parser type id of [vp_type] *)
Definition id_tag : N := 5.

Definition entry_of (c : cmd) (i : id) (ma : marg) : TSt.entry :=
  match find_arg c i with
  | Some a =>
      match a_vp a with
      | Some vp => {| TSt.e_type := Some (vp_type vp);
                      TSt.e_vals := map (map (fun r => (vp_type vp, rend vp r))) (m_raw ma);
                      TSt.e_raw := m_raw ma |}
      | None => {| TSt.e_type := None; TSt.e_vals := map (map (fun r => (id_tag, r))) (m_raw ma); TSt.e_raw := m_raw ma |}
      end
  | None => {| TSt.e_type := None; TSt.e_vals := map (map (fun r => (id_tag, r))) (m_raw ma); TSt.e_raw := m_raw ma |}
  end.

Definition store_of (c : cmd) (l : list (id * marg)) : TSt.store :=
  {| TSt.valid_args := map a_id (c_args c) ++ map g_id (c_groups c);
     TSt.args := map (fun p => (fst p, entry_of c (fst p) (snd p))) l |}.

Lemma store_of_keys c l : map fst (TSt.args (store_of c l)) = map fst l.
Proof. cbn. rewrite map_map. reflexivity. Qed.

Lemma Forall_concat_map {A B} (f : A -> B) (Q : B -> Prop) (ll : list (list A)) :
  (forall x, Q (f x)) -> Forall Q (concat (map (map f) ll)).
Proof.
  intros H. induction ll as [|g t IH]; cbn; [constructor|].
  apply Forall_app. split; [|exact IH]. apply Forall_forall. intros y Hy. apply in_map_iff in Hy.
  destruct Hy as [x [<- _]]. apply H.
Qed.

Lemma entry_of_wf c i ma : TSP.wf_entry (entry_of c i ma).
Proof.
  unfold entry_of, TSP.wf_entry. destruct (find_arg c i) as [a|]; [|exact I].
  destruct (a_vp a) as [vp|]; [|exact I]. cbn. unfold TSt.vals_flatten. cbn.
  apply Forall_concat_map. reflexivity.
Qed.

Theorem store_of_wf c l : NoDup (map fst l) -> TSP.wf_store (store_of c l).
Proof.
  intros Hnd. split; [rewrite store_of_keys; exact Hnd|].
  cbn. apply Forall_forall. intros kv Hin. apply in_map_iff in Hin. destruct Hin as [[k ma] [<- _]].
  cbn. apply entry_of_wf.
Qed.

(** the getters read the matcher: same look-up *)
Theorem store_of_lookup c l i :
  TSP.lookup (store_of c l) i = option_map (entry_of c i) (fm_get i l).
Proof.
  unfold TSP.lookup. cbn. induction l as [|[k ma] t IH]; cbn; [reflexivity|].
  destruct (beq k i) eqn:E; [|exact IH]. apply beq_eq in E. subst k. reflexivity.
Qed.

(** raw and typed values side by side, same shape; the declared type is the parser's *)
Theorem entry_of_shape c i ma :
  TSt.e_raw (entry_of c i ma) = m_raw ma /\
  Forall2 (fun vs rs => length vs = length rs) (TSt.e_vals (entry_of c i ma)) (m_raw ma).
Proof.
  assert (H : forall (f : bytes -> TSt.any_value) (ll : list (list bytes)),
            Forall2 (fun vs rs => length vs = length rs) (map (map f) ll) ll).
  { intros f ll. induction ll as [|g t IH]; cbn; constructor; [apply map_length|exact IH]. }
  unfold entry_of. destruct (find_arg c i) as [a|]; [destruct (a_vp a) as [vp|]|]; cbn; split; try reflexivity; apply H.
Qed.

Theorem entry_of_arg c i ma a vp : find_arg c i = Some a -> a_vp a = Some vp ->
  TSt.e_type (entry_of c i ma) = Some (vp_type vp) /\
  TSt.e_vals (entry_of c i ma) = map (map (fun r => (vp_type vp, rend vp r))) (m_raw ma).
Proof. intros Hf Hvp. unfold entry_of. rewrite Hf, Hvp. split; reflexivity. Qed.

(** * one access on a well-formed store: what failing means *)
Theorem failing_access_frame dbg S o e : TSP.wf_store S ->
  fst (TSt.step dbg S o) = TSt.OErr e ->
  forall i, TSP.lookup (snd (TSt.step dbg S o)) i = TSP.lookup S i.
Proof.
  intros WF Hx i.
  pose proof (TSP.step_refines dbg S (TSP.lookup S) o WF (fun _ => eq_refl)) as Hr.
  pose proof (TSP.astep_spec dbg (TSt.valid_args S) (TSP.lookup S) o) as Ha.
  destruct (TSt.step dbg S o) as [x S']. destruct (TSP.astep dbg (TSt.valid_args S) (TSP.lookup S) o) as [y m'].
  cbn [fst snd] in *. destruct Hr as [Hsim [Hl _]]. destruct Ha as [_ [Hfail _]].
  rewrite Hl. subst x. assert (y = TSt.OErr e) by (destruct y; cbn in Hsim; congruence).
  rewrite (Hfail e H). reflexivity.
Qed.

Theorem unknown_id_fails S o : TSP.wf_store S -> o <> TSt.Ids ->
  beq (TSP.op_id o) [] = false -> existsb (fun s => beq s (TSP.op_id o)) (TSt.valid_args S) = false ->
  fst (TSt.step true S o) = TSt.OErr TSt.UnknownArgument.
Proof.
  intros WF Ho H1 H2.
  pose proof (TSP.step_refines true S (TSP.lookup S) o WF (fun _ => eq_refl)) as Hr.
  pose proof (TSP.astep_spec true (TSt.valid_args S) (TSP.lookup S) o) as Ha.
  destruct (TSt.step true S o) as [x S']. destruct (TSP.astep true (TSt.valid_args S) (TSP.lookup S) o) as [y m'].
  cbn [fst snd] in *. destruct Hr as [Hsim _]. destruct Ha as [_ [_ [Hunk _]]].
  assert (Hy : y = TSt.OErr TSt.UnknownArgument).
  { apply Hunk; [exact Ho|]. unfold TSP.averify. rewrite H1, H2. reflexivity. }
  subst y. destruct x; cbn in Hsim; congruence.
Qed.

Theorem wrong_type_fails dbg S o en t : TSP.wf_store S -> o <> TSt.Ids ->
  TSP.averify dbg (TSt.valid_args S) (TSP.op_id o) = None ->
  TSP.lookup S (TSP.op_id o) = Some en -> TSt.e_type en = Some t -> t <> TSP.op_tag o ->
  fst (TSt.step dbg S o) = TSt.OErr (TSt.Downcast t (TSP.op_tag o)).
Proof.
  intros WF Ho Hv Hl Ht Hne.
  pose proof (TSP.step_refines dbg S (TSP.lookup S) o WF (fun _ => eq_refl)) as Hr.
  pose proof (TSP.astep_spec dbg (TSt.valid_args S) (TSP.lookup S) o) as Ha.
  destruct (TSt.step dbg S o) as [x S']. destruct (TSP.astep dbg (TSt.valid_args S) (TSP.lookup S) o) as [y m'].
  cbn [fst snd] in *. destruct Hr as [Hsim _]. destruct Ha as [_ [_ [_ [Hty _]]]].
  destruct (Hty Ho Hv en Hl) as [Hwrong _].
  assert (Hinf : TSt.infer_type_id en (TSP.op_tag o) = t) by (unfold TSt.infer_type_id; rewrite Ht; reflexivity).
  rewrite Hinf in Hwrong. specialize (Hwrong Hne). subst y. destruct x; cbn in Hsim; congruence.
Qed.
End StoreOf.

(** * the result of the parse *)
Section Parse.
Variable rend : Cmd.vparser -> bytes -> bytes.
Variable c0 : cmd.
Variable toks : list bytes.
Variable st : ps.
Hypothesis Hp : plain c0 = true.
Hypothesis Hv : valid c0 = true.
Hypothesis Hr : get_matches_with (S (S (depth (build_self c0)))) (build_self c0) toks ps_new = ROk st.

Notation c := (build_self c0).
Notation S0 := (store_of rend c (mt_args (mt st))).

Theorem parse_store_wf : TSP.wf_store S0.
Proof. apply store_of_wf. apply (root_indices c0 toks st Hp Hv Hr). Qed.

(** every argument entry the accessors can reach: declared type = the type of the argument's value
    parser; each typed value sits next to a raw value the parser accepted, and IS its image *)
Theorem parse_store_typed i en : TSP.lookup S0 i = Some en ->
  exists ma, fm_get i (mt_args (mt st)) = Some ma /\ en = entry_of rend c i ma /\ TSt.e_raw en = m_raw ma /\
    forall a vp, find_arg c i = Some a -> a_vp a = Some vp ->
      TSt.e_type en = Some (vp_type vp) /\
      TSt.e_vals en = map (map (fun r => (vp_type vp, rend vp r))) (m_raw ma) /\
      exists tvs, typed_of vp (m_raw ma) tvs.
Proof.
  rewrite store_of_lookup. destruct (fm_get i (mt_args (mt st))) as [ma|] eqn:Eg; cbn; [|discriminate].
  intros H. inversion H; subst en. exists ma. split; [reflexivity|]. split; [reflexivity|].
  split; [apply (entry_of_shape rend c i ma)|].
  intros a vp Hf Hvp. destruct (entry_of_arg rend c i ma a vp Hf Hvp) as [H1 H2]. split; [exact H1|]. split; [exact H2|].
  pose proof (root_typed c0 toks Hv) as Ht. rewrite Hr in Ht. cbn [holds] in Ht.
  unfold into_inner in Ht. apply typed_matches_inv in Ht. destruct Ht as [Ht _].
  apply Safe.fm_get_in in Eg. destruct Eg as [k' [Hin Hb]]. apply beq_eq in Hb. subst k'.
  eapply entry_typed_view; eassumption.
Qed.

(** every history of typed accesses on the result of the parse *)
Theorem parse_store_access dbg ops :
  let '(xs, S') := TSt.run dbg S0 ops in
  let '(ys, m') := TSP.arun dbg (TSt.valid_args S0) (TSP.lookup S0) ops in
  Forall2 TSP.out_sim xs ys /\ (forall i, TSP.lookup S' i = m' i) /\ TSP.wf_store S' /\
  TSt.valid_args S' = TSt.valid_args S0 /\ ~ In TSt.OPanic xs.
Proof. apply TSP.run_refines; [apply parse_store_wf|reflexivity]. Qed.

(** a failing access -- whatever the reason -- leaves every entry as the parser stored it *)
Theorem parse_failing_access dbg o e : fst (TSt.step dbg S0 o) = TSt.OErr e ->
  forall i, TSP.lookup (snd (TSt.step dbg S0 o)) i = option_map (entry_of rend c i) (fm_get i (mt_args (mt st))).
Proof.
  intros H i. rewrite (failing_access_frame dbg S0 o e parse_store_wf H). apply store_of_lookup.
Qed.

(** an id that is neither an argument nor a group of the command fails (debug builds) *)
Theorem parse_unknown_id o : o <> TSt.Ids -> TSP.op_id o <> [] -> id_exists c (TSP.op_id o) = false ->
  fst (TSt.step true S0 o) = TSt.OErr TSt.UnknownArgument.
Proof.
  intros Ho Hne Hid. apply unknown_id_fails; [apply parse_store_wf|exact Ho| |].
  - destruct (beq (TSP.op_id o) []) eqn:E; [apply beq_eq in E; contradiction|reflexivity].
  - cbn [TSt.valid_args store_of]. rewrite existsb_app. apply orb_false_iff.
    unfold id_exists in Hid. apply orb_false_iff in Hid. destruct Hid as [Ha Hg].
    split.
    + destruct (existsb _ (map a_id (c_args c))) eqn:E; [|reflexivity]. exfalso.
      apply existsb_exists in E. destruct E as [x [Hx Hb]]. apply in_map_iff in Hx. destruct Hx as [a [<- Hina]].
      unfold find_arg in Ha. destruct (List.find _ (c_args c)) eqn:Ef; [discriminate|].
      apply (List.find_none _ _ Ef) in Hina. congruence.
    + destruct (existsb _ (map g_id (c_groups c))) eqn:E; [|reflexivity]. exfalso.
      apply existsb_exists in E. destruct E as [x [Hx Hb]]. apply in_map_iff in Hx. destruct Hx as [g [<- Hing]].
      unfold find_group in Hg. destruct (List.find _ (c_groups c)) eqn:Ef; [discriminate|].
      apply (List.find_none _ _ Ef) in Hing. congruence.
Qed.

(** a type other than the one of the argument's value parser fails with a downcast error *)
Theorem parse_wrong_type dbg o a vp ma : o <> TSt.Ids ->
  find_arg c (TSP.op_id o) = Some a -> a_vp a = Some vp ->
  fm_get (TSP.op_id o) (mt_args (mt st)) = Some ma -> vp_type vp <> TSP.op_tag o ->
  fst (TSt.step dbg S0 o) = TSt.OErr (TSt.Downcast (vp_type vp) (TSP.op_tag o)).
Proof.
  intros Ho Hf Hvp Hg Hne.
  eapply wrong_type_fails; [apply parse_store_wf|exact Ho| | | |exact Hne].
  - unfold TSP.averify. destruct dbg; [|reflexivity].
    replace (existsb (fun s => beq s (TSP.op_id o)) (TSt.valid_args S0)) with true; [rewrite orb_true_r; reflexivity|].
    symmetry. cbn [TSt.valid_args store_of]. rewrite existsb_app. apply orb_true_iff. left.
    apply existsb_exists. destruct (find_arg_some _ _ _ Hf) as [Hin Hb]. exists (a_id a). split; [apply in_map; exact Hin|exact Hb].
  - rewrite store_of_lookup, Hg. reflexivity.
  - apply (entry_of_arg rend c _ ma a vp Hf Hvp).
Qed.
End Parse.

(** * every level of the recursion (the hypotheses of C02's [level_indices]: any depth, any entry state
      satisfying the index invariant and the typed invariant -- in particular the fresh state a child starts from) *)
Section AnyLevel.
Variable rend : Cmd.vparser -> bytes -> bytes.
Variables (fuel : nat) (c : cmd) (toks : list bytes) (st0 st : ps).
Hypothesis Hok : tree_ok fuel c.
Hypothesis HG : G c idx_inv trivV st0.
Hypothesis HT : TS c st0.
Hypothesis Hr : get_matches_with fuel c toks st0 = ROk st.

Notation S1 := (store_of rend c (mt_args (mt st))).

Theorem level_store_wf : TSP.wf_store S1.
Proof. apply store_of_wf. apply (level_indices fuel c toks st0 st Hok HG Hr). Qed.

Theorem level_store_typed i en : TSP.lookup S1 i = Some en ->
  exists ma, fm_get i (mt_args (mt st)) = Some ma /\ en = entry_of rend c i ma /\ TSt.e_raw en = m_raw ma /\
    forall a vp, find_arg c i = Some a -> a_vp a = Some vp ->
      TSt.e_type en = Some (vp_type vp) /\
      TSt.e_vals en = map (map (fun r => (vp_type vp, rend vp r))) (m_raw ma) /\
      exists tvs, typed_of vp (m_raw ma) tvs.
Proof.
  rewrite store_of_lookup. destruct (fm_get i (mt_args (mt st))) as [ma|] eqn:Eg; cbn; [|discriminate].
  intros H. inversion H; subst en. exists ma. split; [reflexivity|]. split; [reflexivity|].
  split; [apply (entry_of_shape rend c i ma)|].
  intros a vp Hf Hvp. destruct (entry_of_arg rend c i ma a vp Hf Hvp) as [H1 H2]. split; [exact H1|]. split; [exact H2|].
  assert (Happ : assert_app c = true) by (destruct fuel; [destruct Hok|apply Hok]).
  pose proof (gmw_typed fuel c toks st0 Happ HT) as Ht. rewrite Hr in Ht. cbn [holds] in Ht. destruct Ht as [Ht _].
  apply Safe.fm_get_in in Eg. destruct Eg as [k' [Hin Hb]]. apply beq_eq in Hb. subst k'.
  eapply entry_typed_view; eassumption.
Qed.

Theorem level_store_access dbg ops :
  let '(xs, S') := TSt.run dbg S1 ops in
  let '(ys, m') := TSP.arun dbg (TSt.valid_args S1) (TSP.lookup S1) ops in
  Forall2 TSP.out_sim xs ys /\ (forall i, TSP.lookup S' i = m' i) /\ TSP.wf_store S' /\
  TSt.valid_args S' = TSt.valid_args S1 /\ ~ In TSt.OPanic xs.
Proof. apply TSP.run_refines; [apply level_store_wf|reflexivity]. Qed.

Theorem level_failing_access dbg o e : fst (TSt.step dbg S1 o) = TSt.OErr e ->
  forall i, TSP.lookup (snd (TSt.step dbg S1 o)) i = option_map (entry_of rend c i) (fm_get i (mt_args (mt st))).
Proof.
  intros H i. rewrite (failing_access_frame dbg S1 o e level_store_wf H). apply store_of_lookup.
Qed.
End AnyLevel.
