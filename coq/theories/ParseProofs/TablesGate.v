(** The configuration gate of the model ([Parse/Valid.v]: [assert_arg], [assert_app], [verify_positionals]) against the
    inventory of assertions regenerated from clap_builder/src/builder/debug_asserts.rs ([Gen/GateSites.v],
    translators/builder_tables.py gen_gate_sites).

    [gate_sites_covered]: every assert!/assert_eq!/panic! of the source, in order, has a row in the hand-written coverage
    table below saying which conjunct of the model stands for it -- or why the model has none.  A new assertion in the
    source (a configuration clap starts to reject) breaks the lemma until it is classified.
    [assert_arg_flags_table]: the `checker!(a requires b)` table of assert_arg_flags, interpreted, IS the tail of the
    model's [assert_arg]; [app_flags_table]: the same for assert_app_flags. *)
From Coq Require Import List NArith String Bool.
From ClapModel Require Import Base.Bytes Base.Machine Parse.Cmd Parse.Build Parse.Valid Gen.GateSites.
Import ListNotations.
Open Scope N_scope.

Inductive coverage :=
| Modelled (conjunct : string)      (* the conjunct of Parse/Valid.v that is false exactly when the assertion fires *)
| Tautology (why : string)          (* both sides are the same function of the model's data *)
| NoData (why : string).            (* needs data no command specification of this framework can express *)

Open Scope string_scope.
Definition model_gate_coverage : list (string * string * string * coverage) := [
  ("assert_app", "assert", "Command {}: No version information via Command::version or C", Modelled "assert_app: negb (is_set s_propagate_version c) when no version");
  ("assert_app", "assert_eq", "Command {}: `ArgAction::Version` used without providing Comm", Modelled "assert_app: no argument with action AVersion when no version");
  ("assert_app", "assert", "Command {}: long_flag {:?} must not start with a `-`, that w", Modelled "assert_app: forallb over c_subs, c_long_flag");
  ("assert_app", "assert", "Command {}: Arguments like {} cannot be set on a multicall c", Modelled "assert_app: negb (is_set s_multicall c) per argument");
  ("assert_app", "assert", "Argument {}: long {:?} must not start with a `-`, that will ", Modelled "assert_app: a_long does not start with a dash");
  ("assert_app", "panic", "Command {}: Argument names must be unique, but '{}' is in us", Modelled "assert_app: count_if same a_id < 2");
  ("assert_app", "panic", "Command {}: Long option names must be unique for each argume", Modelled "assert_app: count_if same a_long < 2");
  ("assert_app", "panic", "Command {}: Short option names must be unique for each argum", Modelled "assert_app: count_if same a_short < 2");
  ("assert_app", "panic", "Command {}: Argument '{}' has the same index as '{}' and the", Modelled "assert_app: count_if positional with same a_index < 2");
  ("assert_app", "assert", "Argument {} cannot require itself", Modelled "assert_app: a_requires, negb (beq (a_id a) (snd r))");
  ("assert_app", "assert", "Command {}: Argument or group '{}' specified in 'requires*' ", Modelled "assert_app: a_requires, id_exists");
  ("assert_app", "assert", "Argument {}: `required` conflicts with `required_if_eq*`", Modelled "assert_app: a_r_ifs, negb (a_required a)");
  ("assert_app", "assert", "Command {}: Argument or group '{}' specified in 'required_if", Modelled "assert_app: a_r_ifs, id_exists");
  ("assert_app", "assert", "Argument {}: `required` conflicts with `required_if_eq_all`", Modelled "assert_app: a_r_ifs_all, negb (a_required a)");
  ("assert_app", "assert", "Command {}: Argument or group '{}' specified in 'required_if", Modelled "assert_app: a_r_ifs_all, id_exists");
  ("assert_app", "assert", "Argument {}: `required` conflicts with `required_unless*`", Modelled "assert_app: a_r_unless, negb (a_required a)");
  ("assert_app", "assert", "Command {}: Argument or group '{}' specified in 'required_un", Modelled "assert_app: a_r_unless, id_exists");
  ("assert_app", "assert", "Argument {}: `required` conflicts with `required_unless*`", Modelled "assert_app: a_r_unless_all, negb (a_required a)");
  ("assert_app", "assert", "Command {}: Argument or group '{}' specified in 'required_un", Modelled "assert_app: a_r_unless_all, id_exists");
  ("assert_app", "assert", "Command {}: Argument or group '{}' specified in 'conflicts_w", Modelled "assert_app: a_blacklist, id_exists");
  ("assert_app", "assert", "Command {}: Argument or group '{}' specified in 'overrides_w", Modelled "assert_app: a_overrides, id_exists");
  ("assert_app", "assert", "Command {}: Flags or Options cannot have last(true) set. '{}", Modelled "assert_app: a_last implies no a_long");
  ("assert_app", "assert", "Command {}: Flags or Options cannot have last(true) set. '{}", Modelled "assert_app: a_last implies no a_short");
  ("assert_app", "assert", "Command {}: Global arguments cannot be required. '{}' is mar", Modelled "assert_app: negb (a_required a && a_global a)");
  ("assert_app", "assert", "Command {}: Argument '{}' has hint CommandWithArguments and ", NoData "value hints are not part of the parser model's arg record");
  ("assert_app", "assert", "Command {}: Positional argument '{}' has hint CommandWithArg", NoData "value hints");
  ("assert_app", "assert", "Command {}: Argument group name must be unique '{}' is alrea", Modelled "assert_app: count_if same g_id < 2");
  ("assert_app", "assert", "Command {}: Argument group name '{}' must not conflict with ", Modelled "assert_app: negb (is_some (find_arg c (g_id g)))");
  ("assert_app", "assert", "Command {}: Argument group '{}' contains non-existent argume", Modelled "assert_app: g_args, find_arg");
  ("assert_app", "assert", "Command {}: Argument group '{}' requires non-existent '{}' i", Modelled "assert_app: g_requires, id_exists");
  ("assert_app", "assert", "Command {}: Argument group '{}' conflicts with non-existent ", Modelled "assert_app: g_conflicts, id_exists");
  ("assert_app", "assert", "Command {}: command name `{}` is duplicated", Modelled "assert_app: nodup_ids (all_subcommand_names c)");
  ("assert_app", "assert", "Command {}: command `{}` alias `{}` is duplicated", Modelled "assert_app: nodup_ids (all_subcommand_names c)");
  ("assert_app", "assert", "{flags}", NoData "help templates are not part of the parser model");
  ("assert_app", "assert", "{unified}", NoData "help templates");
  ("assert_app", "assert", "{bin}", NoData "help templates");
  ("detect_duplicate_flags", "panic", "the '{flag}' {short_or_long} flag is specified for both '{on", Modelled "assert_app: flags_ok, two subcommands");
  ("detect_duplicate_flags", "panic", "{short_or_long} option names must be unique, but '{flag}' is", Modelled "assert_app: flags_ok, two arguments");
  ("detect_duplicate_flags", "panic", "the '{flag}' {short_or_long} flag for the '{arg}' argument c", Modelled "assert_app: flags_ok, argument and subcommand");
  ("assert_app_flags", "panic", "{} {}", Modelled "assert_app: negb (is_set s_multicall c && is_set s_no_binary_name c) (app_flags_table)");
  ("_verify_positionals", "assert", "Found positional argument whose index is {highest_idx} but t", Modelled "verify_positionals: highest =? num_p");
  ("_verify_positionals", "assert", "{}:{}: `Arg::trailing_var_arg` and `Arg::last` cannot be use", Modelled "verify_positionals: negb (a_tva a) || negb (a_last a)");
  ("_verify_positionals", "assert", "{}:{}: `Arg::trailing_var_arg` must accept multiple values", Modelled "verify_positionals: a_tva implies a_is_multiple");
  ("_verify_positionals", "assert", "{}:{}: `Arg::trailing_var_arg` can only apply to last positi", Modelled "verify_positionals: negb (a_tva a) below the highest index");
  ("_verify_positionals", "assert", "Positional argument `{last}` *must* have `required(true)` or", Modelled "verify_positionals: low-index multiple, first condition");
  ("_verify_positionals", "assert", "Only the last positional argument, or second to last positio", Modelled "verify_positionals: low-index multiple, second condition");
  ("_verify_positionals", "assert", "Only one positional argument with `.num_args(1..)` set is al", Modelled "verify_positionals: low-index multiple, count condition");
  ("_verify_positionals", "assert", "Found non-required positional argument with a lower index th", Modelled "verify_positionals: allow_missing_positional scan (foundx2)");
  ("_verify_positionals", "assert", "Found non-required positional argument with a lower index th", Modelled "verify_positionals: scan from the highest index down");
  ("_verify_positionals", "assert", "Only one positional argument may have last(true) set. Found ", Modelled "verify_positionals: count_if a_last < 2");
  ("_verify_positionals", "panic", "Having a required positional argument with .last(true) set *", Modelled "verify_positionals: required last positional with subcommands");
  ("assert_arg", "assert", "Argument '{}' cannot conflict with itself", Modelled "assert_arg: negb (mem_id (a_id a) (a_blacklist a))");
  ("assert_arg", "assert", "Argument `{}`'s action {:?} is incompatible with `num_args({", Modelled "assert_arg: vmax nv <=? vmax (action_max_num_args act) (the table itself: TablesActions.model_action_gate)");
  ("assert_arg", "assert_eq", "Argument `{}`'s selected action {:?} contradicts `value_pars", Modelled "assert_arg: action_value_type vs vp_type (the table itself: TablesActions.model_action_gate)");
  ("assert_arg", "assert", "Argument '{}' has value hint but takes no value", NoData "value hints");
  ("assert_arg", "assert", "Argument '{}' uses hint CommandWithArguments and must accept", NoData "value hints");
  ("assert_arg", "assert", "Argument '{}' is a positional argument and can't have short ", Modelled "assert_arg: a_index implies a_is_positional");
  ("assert_arg", "assert", "Argument '{}' is positional and it must take a value but act", Modelled "assert_arg: a_index implies a_takes_value");
  ("assert_arg", "panic", "Argument {}: Too many value names ({}) compared to `num_args", Modelled "assert_arg: negb (vmax nv <? a_nvalnames a) unless nv is EMPTY");
  ("assert_arg", "assert_eq", "Argument {}: mismatch between `num_args` ({}) and `multiple_", Tautology "is_multiple_values_set is num_args.is_multiple() in source and model (a_multiple_values)");
  ("assert_arg", "assert", "Argument {}: cannot accept more than 1 arg (num_args={}) wit", Modelled "assert_arg: 1 <? vmin nv implies negb (a_req_eq a)");
  ("assert_arg", "assert", "Argument {}: mismatch between `num_args` and `multiple_value", Tautology "r_is_multiple r_single = false");
  ("assert_arg_flags", "panic", "Argument {:?} {}", Modelled "assert_arg: the six trailing conjuncts (assert_arg_flags_table)")
].
Close Scope string_scope.

(** the source's assertions, in source order, are exactly the classified ones *)
Theorem gate_sites_covered : map fst model_gate_coverage = gen_gate_sites.
Proof. reflexivity. Qed.

Definition is_nodata (c : coverage) : bool := match c with NoData _ => true | _ => false end.
(** seven assertions have no counterpart: all need value hints or help templates, which no case of this framework can set *)
Theorem gate_sites_without_counterpart :
  length (filter (fun r => is_nodata (snd r)) model_gate_coverage) = 7%nat
  /\ length model_gate_coverage = 63%nat.
Proof. split; reflexivity. Qed.

(** ---- assert_arg_flags ---- *)
Definition arg_getter (g : string) : option (arg -> bool) :=
  if String.eqb g "is_takes_value_set" then Some a_takes_value
  else if String.eqb g "is_allow_hyphen_values_set" then Some a_hyphen
  else if String.eqb g "is_allow_negative_numbers_set" then Some a_negnum
  else if String.eqb g "is_require_equals_set" then Some a_req_eq
  else if String.eqb g "is_last_set" then Some a_last
  else if String.eqb g "is_multiple_values_set" then Some a_multiple_values
  else if String.eqb g "is_ignore_case_set" then Some a_ignore_case
  else None.
(** a row whose flag the model does not have (help-only settings) cannot fire *)
Definition tbl_arg_flag_checks (a : arg) : bool :=
  forallb (fun row => match arg_getter (fst row) with
                      | None => true
                      | Some g => if g a then forallb (fun r => match arg_getter r with Some h => h a | None => false end) (snd row)
                                  else true end) gen_arg_flag_requires.
Definition known_unmodelled_arg_flags : list string := ["is_hide_possible_values_set"; "is_hide_default_value_set"]%string.
Theorem unmodelled_arg_flags :
  map fst (filter (fun row => match arg_getter (fst row) with None => true | Some _ => false end) gen_arg_flag_requires)
  = known_unmodelled_arg_flags.
Proof. reflexivity. Qed.

(** [assert_arg] without its six trailing conjuncts (restated; [assert_arg_flags_table] proves the split) *)
Definition assert_arg_core (a : arg) : bool :=
  let act := a_get_action a in
  let nv := opt_default r_single (a_num a) in
  negb (mem_id (a_id a) (a_blacklist a))
  && (vmax nv <=? vmax (action_max_num_args act))
  && match action_value_type act, a_vp a with
     | Some t, Some vp => t =? vp_type vp
     | Some _, None => false
     | None, _ => true end
  && (if is_some (a_index a) then a_is_positional a && a_takes_value a else true)
  && is_some (a_num a)
  && (if r_eqb nv r_empty then true else negb (vmax nv <? a_nvalnames a))
  && (if 1 <? vmin nv then negb (a_req_eq a) else true)
  && (vmin nv <=? vmax nv).

Lemma tbl_arg_flag_checks_eq : forall a,
  tbl_arg_flag_checks a =
  (if a_hyphen a then a_takes_value a else true) && (if a_negnum a then a_takes_value a else true)
  && (if a_req_eq a then a_takes_value a else true) && (if a_last a then a_takes_value a else true)
  && (if a_multiple_values a then a_takes_value a else true) && (if a_ignore_case a then a_takes_value a else true).
Proof.
  intros a. unfold tbl_arg_flag_checks.
  change gen_arg_flag_requires with
    [("is_hide_possible_values_set", ["is_takes_value_set"]); ("is_allow_hyphen_values_set", ["is_takes_value_set"]);
     ("is_allow_negative_numbers_set", ["is_takes_value_set"]); ("is_require_equals_set", ["is_takes_value_set"]);
     ("is_last_set", ["is_takes_value_set"]); ("is_hide_default_value_set", ["is_takes_value_set"]);
     ("is_multiple_values_set", ["is_takes_value_set"]); ("is_ignore_case_set", ["is_takes_value_set"])]%string.
  cbn [forallb fst snd].
  change (arg_getter "is_hide_possible_values_set") with (@None (arg -> bool)).
  change (arg_getter "is_hide_default_value_set") with (@None (arg -> bool)).
  change (arg_getter "is_allow_hyphen_values_set") with (Some a_hyphen).
  change (arg_getter "is_allow_negative_numbers_set") with (Some a_negnum).
  change (arg_getter "is_require_equals_set") with (Some a_req_eq).
  change (arg_getter "is_last_set") with (Some a_last).
  change (arg_getter "is_multiple_values_set") with (Some a_multiple_values).
  change (arg_getter "is_ignore_case_set") with (Some a_ignore_case).
  change (arg_getter "is_takes_value_set") with (Some a_takes_value).
  cbv beta iota.
  generalize (a_takes_value a) as tv. intros tv.
  destruct (a_hyphen a), (a_negnum a), (a_req_eq a), (a_last a), (a_multiple_values a), (a_ignore_case a), tv; reflexivity.
Qed.

(** the model's [assert_arg] is its core and the interpreted `checker!` table of assert_arg_flags *)
Theorem assert_arg_flags_table : forall a, assert_arg a = assert_arg_core a && tbl_arg_flag_checks a.
Proof.
  intros a. rewrite tbl_arg_flag_checks_eq. unfold assert_arg, assert_arg_core. cbv zeta.
  rewrite <- !andb_assoc. reflexivity.
Qed.

(** ---- assert_app_flags ---- *)
Definition cmd_getter (g : string) : option (cmd -> bool) :=
  if String.eqb g "is_multicall_set" then Some (is_set s_multicall)
  else if String.eqb g "is_no_binary_name_set" then Some (is_set s_no_binary_name)
  else None.
Definition tbl_app_flag_checks (c : cmd) : option bool :=
  fold_right (fun row acc =>
     match acc, cmd_getter (fst row) with
     | Some b, Some g =>
         match fold_right (fun r acc' => match acc', cmd_getter r with Some b', Some h => Some (b' && negb (h c)) | _, _ => None end)
                          (Some true) (snd row) with
         | Some ok => Some (b && (if g c then ok else true))
         | None => None end
     | _, _ => None end) (Some true) gen_app_flag_conflicts.
Theorem app_flags_table : forall c, assert_app c = true -> tbl_app_flag_checks c = Some true.
Proof.
  intros c H. unfold assert_app in H. apply andb_true_iff in H as [_ H].
  unfold tbl_app_flag_checks. cbn. destruct (is_set s_multicall c), (is_set s_no_binary_name c); try reflexivity; discriminate H.
Qed.

(** ---- non-vacuity ---- *)
Module TablesGateExamples.
  (* a built `-v` Count flag passes the gate; both parts of the split are true *)
  Definition ex : arg := arg_build (mkArg [118] (Some 118) None [] [] None (Some ACount) None 0 None None None
        false false false false false false false false false false [] [] [] None [] [] [] [] [] [] [] [] None).
  Example ex_split : assert_arg ex = true /\ assert_arg_core ex = true /\ tbl_arg_flag_checks ex = true.
  Proof. vm_compute. repeat split. Qed.
  (* a flag with require_equals but no value: the table's row fires, the core does not *)
  Definition bad : arg := arg_build (mkArg [118] (Some 118) None [] [] None (Some ACount) None 0 None None None
        false false false false false false true false false false [] [] [] None [] [] [] [] [] [] [] [] None).
  Example bad_split : assert_arg bad = false /\ assert_arg_core bad = true /\ tbl_arg_flag_checks bad = false.
  Proof. vm_compute. repeat split. Qed.
  Example app_hyp : assert_app (build_self (cmd_new [112])) = true.
  Proof. vm_compute. reflexivity. Qed.
End TablesGateExamples.
