(** Property C03: the group-handling step of the parser, [start_custom_arg] with an explicit
    source (command line or environment), re-establishes the coherence of group entries for
    every definition outside the two finding families: closed form of "which ids are explicit
    afterwards", then coherence of every group. *)
From Coq Require Import ZArith List Bool Lia.
Import ListNotations.
From ClapModel Require Import Base.Bytes Base.Machine.
From ClapModel Require Import Parse.Cmd Parse.Build Parse.Valid Parse.Matcher Parse.Errors Parse.Validator Parse.Parser.
From ClapModel Require Import ParseProofs.Safe ParseProofs.Invariant ParseProofs.Relations ParseProofs.RelationsFamilies.
From RecordUpdate Require Import RecordSet.
Import RecordSetNotations.
Open Scope N_scope.

Definition ex (m : matcher) (k : id) : bool := check_explicit m k PIsPresent.

Lemma fm_get_app_ne {V} (i j : id) (v : V) l : i <> j -> fm_get i (l ++ [(j, v)]) = fm_get i l.
Proof.
  intros Hne. induction l as [|[k w] t IH]; cbn [app fm_get].
  - destruct (beq j i) eqn:E; [apply beq_eq in E; congruence|reflexivity].
  - destruct (beq k i); [reflexivity|exact IH].
Qed.
Lemma fm_get_eoi_ne {V} (i j : id) (v0 : V) f l : i <> j -> fm_get i (fm_entry_or_insert j v0 f l) = fm_get i l.
Proof.
  intros Hne. unfold fm_entry_or_insert. destruct (fm_contains j l).
  - rewrite fm_get_update. destruct (fm_get i l); [|reflexivity]. apply beq_neq in Hne. rewrite Hne. reflexivity.
  - apply fm_get_app_ne. exact Hne.
Qed.

Lemma ex_entry m k ic grp s i : src_explicit s = true ->
  ex (m <| mt_args := fm_entry_or_insert k (marg_new ic grp) (fun x => new_val_group (set_source s x)) (mt_args m) |>) i
  = if beq i k then true else ex m i.
Proof.
  intros Hs. unfold ex, check_explicit. cbn [mt_args]. rewrite args_set_args.
  destruct (beq i k) eqn:E.
  - apply beq_eq in E. subst i.
    destruct (fm_entry_or_insert_get k (marg_new ic grp) (fun x => new_val_group (set_source s x)) (mt_args m)) as [v Hv].
    rewrite Hv. unfold check_explicit_m, new_val_group, set_source. cbn.
    destruct (m_source v) as [[]|]; destruct s; try discriminate; reflexivity.
  - apply beq_neq in E. rewrite fm_get_eoi_ne; [reflexivity|exact E].
Qed.

Lemma ex_add_val m g v m' : add_val_to m g v = Some m' -> forall i, ex m' i = ex m i.
Proof.
  unfold add_val_to. destruct (fm_get g (mt_args m)) as [mg|] eqn:Eg; [|discriminate].
  unfold append_val. destruct (push_last v (m_raw mg)) as [rs|]; [|discriminate].
  intros [= <-] i. unfold ex, check_explicit. rewrite args_set_args, fm_get_update.
  destruct (fm_get i (mt_args m)) as [mi|] eqn:Ei; [|reflexivity].
  destruct (beq i g) eqn:E; [|reflexivity]. apply beq_eq in E. subst i.
  rewrite Eg in Ei. injection Ei as <-. reflexivity.
Qed.

Lemma fold_rpanic_m {X} (F : matcher -> X -> res matcher) x : forall l,
  fold_left (fun rm v => do m <- rm; F m v) l (RPanic x) = RPanic x.
Proof. induction l as [|y t IH]; cbn [fold_left rbind]; [reflexivity|exact IH]. Qed.
Lemma fold_rerr_m {X} (F : matcher -> X -> res matcher) e st : forall l,
  fold_left (fun rm v => do m <- rm; F m v) l (RErr e st) = RErr e st.
Proof. induction l as [|y t IH]; cbn [fold_left rbind]; [reflexivity|exact IH]. Qed.

Lemma sca_groups_ex s aid : src_explicit s = true -> forall gl m0 m',
  fold_left (fun rm g => do m <- rm; expect 1533 (add_val_to (start_custom_group_m m g s) g aid)) gl (ROk m0) = ROk m' ->
  forall i, ex m' i = if mem_id i gl then true else ex m0 i.
Proof.
  intros Hs. induction gl as [|g t IH]; intros m0 m'; cbn [fold_left].
  - intros [= <-] i. reflexivity.
  - cbn [rbind]. destruct (add_val_to (start_custom_group_m m0 g s) g aid) as [m1|] eqn:Ea; cbn [expect].
    + intros H i. rewrite (IH m1 m' H i). unfold mem_id. cbn [existsb]. fold (mem_id i t).
      rewrite (ex_add_val _ g aid m1 Ea i). unfold start_custom_group_m. rewrite (ex_entry m0 g false true s i Hs).
      destruct (beq i g), (mem_id i t); reflexivity.
    + rewrite (fold_rpanic_m (fun m g => expect 1533 (add_val_to (start_custom_group_m m g s) g aid))). discriminate.
Qed.

(** closed form: after [start_custom_arg a s] with an explicit source, the explicit ids are
    [a], the groups of [a], and whatever was explicit after the override removal *)
Theorem start_custom_arg_explicit c a s m m' : src_explicit s = true ->
  start_custom_arg c a s m = ROk m' ->
  forall i, ex m' i =
    if mem_id i (groups_for_arg c (a_id a)) then true
    else if beq i (a_id a) then true
    else ex (match s with SCmdLine => remove_overrides c a m | _ => m end) i.
Proof.
  intros Hs. unfold start_custom_arg. rewrite Hs. intros H i.
  rewrite (sca_groups_ex s (a_id a) Hs _ _ _ H i).
  destruct (mem_id i (groups_for_arg c (a_id a))); [reflexivity|].
  unfold start_custom_arg_m. apply ex_entry. exact Hs.
Qed.

Definition cohg (m : matcher) (g : group) : Prop := present m (g_id g) <-> present_members m g.

Lemma cohg_ex m g : cohg m g <-> (ex m (g_id g) = true <-> exists k, In k (g_args g) /\ ex m k = true).
Proof.
  unfold cohg, present_members, ex. rewrite present_spec. split; intros H; rewrite H; clear H;
    split; intros (k & Hk & Hp); exists k; (split; [exact Hk|]); now apply present_spec.
Qed.

(** the step: every group is coherent after [start_custom_arg] (explicit source) if every group
    NOT containing [a] was coherent before -- in particular if the matcher was coherent, or was
    coherent before [a]'s own entry was removed by [react] *)
Theorem start_custom_arg_coherent c a s m m' :
  rel_wf c = true -> group_safe c = true -> find_arg c (a_id a) = Some a ->
  (forall g, In g (c_groups c) -> find_arg c (g_id g) = None) ->
  src_explicit s = true ->
  (forall g, In g (c_groups c) -> ~ In (a_id a) (g_args g) -> cohg m g) ->
  start_custom_arg c a s m = ROk m' ->
  forall g, In g (c_groups c) -> cohg m' g.
Proof.
  intros Wf GS Hfa NA Hs Hcoh Hrun g Hg.
  pose proof (start_custom_arg_explicit c a s m m' Hs Hrun) as Hex.
  destruct (rel_wf_group c g Wf Hg) as [Hfg Hmem].
  apply cohg_ex.
  destruct (mem_id (a_id a) (g_args g)) eqn:Em.
  - (* a belongs to g: both sides hold *)
    apply mem_id_In in Em.
    assert (Hgg : mem_id (g_id g) (groups_for_arg c (a_id a)) = true).
    { apply mem_id_In. unfold groups_for_arg. apply in_map. apply filter_In. split; [exact Hg|now apply mem_id_In]. }
    split; intros _.
    + exists (a_id a). split; [exact Em|]. rewrite Hex. rewrite beq_refl.
      destruct (mem_id (a_id a) (groups_for_arg c (a_id a))); reflexivity.
    + rewrite Hex, Hgg. reflexivity.
  - (* a does not belong to g: nothing g reads has changed since the override removal *)
    apply mem_id_false in Em.
    set (m1 := match s with SCmdLine => remove_overrides c a m | _ => m end) in *.
    assert (Hc1 : cohg m1 g).
    { subst m1. destruct s; try (apply Hcoh; assumption).
      apply (remove_overrides_coherent c GS a m g Wf Hfa Hg (NA g Hg) Em). apply Hcoh; assumption. }
    assert (Hng : forall g', In g' (c_groups c) -> In (a_id a) (g_args g') -> g_id g' <> g_id g).
    { intros g' Hg' Ha' E. destruct (rel_wf_group c g' Wf Hg') as [Hfg' _]. rewrite E, Hfg in Hfg'.
      injection Hfg' as ->. exact (Em Ha'). }
    assert (E1 : ex m' (g_id g) = ex m1 (g_id g)).
    { rewrite Hex. destruct (mem_id (g_id g) (groups_for_arg c (a_id a))) eqn:E.
      - exfalso. apply mem_id_In in E. unfold groups_for_arg in E. apply in_map_iff in E as (g' & Eid & Hf).
        apply filter_In in Hf as [Hg' Hm']. apply mem_id_In in Hm'. exact (Hng g' Hg' Hm' Eid).
      - destruct (beq (g_id g) (a_id a)) eqn:Eb; [|reflexivity].
        apply beq_eq in Eb. rewrite <- Eb, (NA g Hg) in Hfa. discriminate. }
    assert (E2 : forall k, In k (g_args g) -> ex m' k = ex m1 k).
    { intros k Hk. rewrite Hex. destruct (mem_id k (groups_for_arg c (a_id a))) eqn:E.
      - exfalso. apply mem_id_In in E. unfold groups_for_arg in E. apply in_map_iff in E as (g' & Eid & Hf).
        apply filter_In in Hf as [Hg' _]. destruct (Hmem k Hk) as [b Hb]. rewrite <- Eid, (NA g' Hg') in Hb. discriminate.
      - destruct (beq k (a_id a)) eqn:Eb; [|reflexivity]. apply beq_eq in Eb. subst k. contradiction. }
    apply cohg_ex in Hc1. rewrite E1, Hc1. split; intros (k & Hk & Hp); exists k; (split; [exact Hk|]).
    + rewrite (E2 k Hk). exact Hp.
    + rewrite <- (E2 k Hk). exact Hp.
Qed.

(** non-vacuity: [gs_cmd] (override + group, outside both families), the occurrence of [a]
    (member of g) on a coherent matcher holding [d] *)
Example start_custom_arg_coherent_nonvacuous :
  let c := build_self gs_cmd in
  let a := built_arg gs_cmd i_a in
  rel_wf c = true /\ group_safe c = true /\ find_arg c (a_id a) = Some a
  /\ forallb (fun g => negb (is_some (find_arg c (g_id g)))) (c_groups c) = true
  /\ exists m', start_custom_arg c a SCmdLine (entry [(i_d, flag_entry SCmdLine)]) = ROk m'
                /\ coherent_b c m' = true /\ ex m' i_g = true /\ ex m' i_a = true /\ ex m' i_d = true.
Proof.
  cbv zeta. split; [vm_compute; reflexivity|]. split; [vm_compute; reflexivity|]. split; [vm_compute; reflexivity|].
  split; [vm_compute; reflexivity|]. eexists. split; [vm_compute; reflexivity|]. repeat split; vm_compute; reflexivity.
Qed.
