(** Property C02, the un-parser: invocations, their rendering to tokens and their meaning.

    Executable Gallina only (no proofs; the simulation proofs are in UnparseProofs.v).

    An *invocation* of one command level is a list of [item]s (flags and options by long name,
    short clusters optionally ending in an option, runs of positional values).  [render] prints it as the token
    list a user would type; [apply_items] is what the invocation means on a parser state, written
    directly with the parser's own occurrence primitive [react] (one call per occurrence, carrying
    exactly the occurrence's values) and the pending buffer; [occs] is the same meaning as a plain
    list of occurrences ([Actions.occ]: which argument, which raw values), independent of spelling.

    The theorem proved in UnparseProofs.v: for every invocation that is well formed for the command
    ([wf_items], a boolean), the token loop of [Parser::parse] run on [render items ++ rest] is the
    loop run on [rest] from the state [apply_items items] produces -- each token is consumed exactly
    once, as the part of the item it was rendered from. *)
From ClapModel Require Import Base.Bytes Base.Machine Base.Utf8 Lex.OsStrExtModel.
From ClapModel Require Import Parse.Cmd Parse.Build Parse.Valid Parse.Matcher Parse.Errors Parse.Validator Parse.Parser.
From ClapModel Require Import ParseProofs.Actions.
From Coq Require Import ZArith List Bool.
From RecordUpdate Require Import RecordSet.
Import RecordSetNotations.
Import ListNotations.
Open Scope N_scope.

(** ** items *)
(** what follows the flags of a short cluster *)
Inductive ctail :=
| TNone                                  (* -abc            *)
| TAtt (o : N) (v : bytes)               (* -abcoVALUE      *)
| TEq (o : N) (v : bytes)                (* -abco=VALUE     *)
| TSep (o : N) (vs : list bytes).        (* -abco V1 .. Vk  *)

Inductive item :=
| ItLong (n : bytes)                     (* --name              a flag             *)
| ItLongEq (n : bytes) (v : bytes)        (* --name=VALUE        an option          *)
| ItLongSep (n : bytes) (vs : list bytes) (* --name V1 .. Vk     an option          *)
| ItCluster (fl : list N) (t : ctail)     (* -abc[tail]          flags by short name, optionally ending in an option *)
| ItPos (vs : list bytes).               (* V1 .. Vk            a maximal run of values of the positional the counter points at *)

(** ** rendering *)
(** short names are characters: a cluster spells them in UTF-8 *)
Definition enc_shorts (fl : list N) : bytes := flat_map utf8_encode fl.
Definition render_item (it : item) : list bytes :=
  match it with
  | ItLong n => [DASH :: DASH :: n]
  | ItLongEq n v => [DASH :: DASH :: n ++ EQ :: v]
  | ItLongSep n vs => (DASH :: DASH :: n) :: vs
  | ItCluster fl TNone => [DASH :: enc_shorts fl]
  | ItCluster fl (TAtt o v) => [DASH :: enc_shorts fl ++ utf8_encode o ++ v]
  | ItCluster fl (TEq o v) => [DASH :: enc_shorts fl ++ utf8_encode o ++ EQ :: v]
  | ItCluster fl (TSep o vs) => (DASH :: enc_shorts fl ++ utf8_encode o) :: vs
  | ItPos vs => vs
  end.
Definition render (its : list item) : list bytes := flat_map render_item its.

Section Sem.
Variable c : cmd.

(** ** meaning on parser states *)
Definition flag_step (idn : ident) (a : arg) (st : ps) : res ps :=
  do x <- react c (Some idn) SCmdLine a [] None st; ROk (fst x).
Definition att_step (idn : ident) (a : arg) (v : bytes) (st : ps) : res ps :=
  do x <- react c (Some idn) SCmdLine a [v] None st; ROk (fst x).
(** an option whose values are separate tokens: the previous occurrence is flushed, this one stays
    open in the pending buffer (it is flushed by whatever comes next, or at the end of the line) *)
Definition set_pending (i : id) (idn : ident) (vs : list bytes) (st : ps) : ps :=
  st <| mt := (mt st) <| mt_pending := Some (mkPending i (Some idn) vs None) |> |>.
Definition sep_step (idn : ident) (a : arg) (vs : list bytes) (st : ps) : res ps :=
  do st1 <- resolve_pending c st; ROk (set_pending (a_id a) idn vs st1).

Fixpoint flags_step (fl : list N) (st : ps) : res ps :=
  match fl with
  | [] => ROk st
  | ch :: t => match get_short c ch with
               | Some a => do st1 <- flag_step IShort a st; flags_step t st1
               | None => ROk st          (* excluded by [wf_item] *)
               end
  end.

Definition tail_step (t : ctail) (st : ps) : res ps :=
  match t with
  | TNone => ROk st
  | TAtt o v | TEq o v => match get_short c o with Some a => att_step IShort a v st | None => ROk st end
  | TSep o vs => match get_short c o with Some a => sep_step IShort a vs st | None => ROk st end
  end.

(** [pos] is the positional counter of [Parser::parse] when the item starts *)
Definition apply_item (pos : N) (it : item) (st : ps) : res ps :=
  match it with
  | ItLong n => match get_long c n with Some a => flag_step ILong a st | None => ROk st end
  | ItLongEq n v => match get_long c n with Some a => att_step ILong a v st | None => ROk st end
  | ItLongSep n vs => match get_long c n with Some a => sep_step ILong a vs st | None => ROk st end
  | ItCluster fl t => do st1 <- flags_step fl st; tail_step t st1
  | ItPos vs => match get_pos c pos with Some a => sep_step IIndex a vs st | None => ROk st end
  end.

(** the positional counter after an item: a positional that is not multiple is left behind *)
Definition item_pos (pos : N) (it : item) : N :=
  match it with
  | ItPos _ => match get_pos c pos with Some a => if a_is_multiple a then pos else pos + 1 | None => pos end
  | _ => pos
  end.

Fixpoint apply_items (pos : N) (its : list item) (st : ps) : res ps :=
  match its with
  | [] => ROk st
  | it :: t => do st1 <- apply_item pos it st; apply_items (item_pos pos it) t st1
  end.

(** ** meaning as a list of occurrences (spelling-independent) *)
Definition occ_of (idn : ident) (a : arg) (vs : list bytes) : occ := mkOcc (Some idn) SCmdLine a vs None.
Definition flags_occs (fl : list N) : list occ :=
  flat_map (fun ch => match get_short c ch with Some a => [occ_of IShort a []] | None => [] end) fl.
Definition tail_occs (t : ctail) : list occ :=
  match t with
  | TNone => []
  | TAtt o v | TEq o v => match get_short c o with Some a => [occ_of IShort a [v]] | None => [] end
  | TSep o vs => match get_short c o with Some a => [occ_of IShort a vs] | None => [] end
  end.
Definition item_occs (pos : N) (it : item) : list occ :=
  match it with
  | ItLong n => match get_long c n with Some a => [occ_of ILong a []] | None => [] end
  | ItLongEq n v => match get_long c n with Some a => [occ_of ILong a [v]] | None => [] end
  | ItLongSep n vs => match get_long c n with Some a => [occ_of ILong a vs] | None => [] end
  | ItCluster fl t => flags_occs fl ++ tail_occs t
  | ItPos vs => match get_pos c pos with Some a => [occ_of IIndex a vs] | None => [] end
  end.
Fixpoint occs (pos : N) (its : list item) : list occ :=
  match its with
  | [] => []
  | it :: t => item_occs pos it ++ occs (item_pos pos it) t
  end.

(** ** the parse state ([ParseState]) after an item *)
Definition opt_pst (a : arg) (k : nat) : pstate_t :=
  match a_num a with
  | Some r => if r_accepts_more r (N.of_nat k) then PSOpt (a_id a) else PSValuesDone
  | None => PSValuesDone
  end.
Definition item_pst (pos : N) (it : item) : pstate_t :=
  match it with
  | ItLong _ | ItLongEq _ _ => PSValuesDone
  | ItLongSep n vs => match get_long c n with Some a => opt_pst a (length vs) | None => PSValuesDone end
  | ItCluster _ (TSep o vs) => match get_short c o with Some a => opt_pst a (length vs) | None => PSValuesDone end
  | ItCluster _ _ => PSValuesDone
  | ItPos _ => match get_pos c pos with
               | Some a => if a_is_multiple a then PSPos (a_id a) else PSValuesDone
               | None => PSValuesDone end
  end.
Fixpoint items_pst (pst : pstate_t) (pos : N) (its : list item) : pstate_t :=
  match its with [] => pst | it :: t => items_pst (item_pst pos it) (item_pos pos it) t end.
Fixpoint items_pos (pos : N) (its : list item) : N :=
  match its with [] => pos | it :: t => items_pos (item_pos pos it) t end.

(** ** the class *)
(** the command (built): passes the validity gate; no [subcommand_precedence_over_arg], no
    [allow_missing_positional]; only the last positional may be multiple; no argument with
    hyphen/negative-number values, [require_equals], a value terminator, [last] or [trailing_var_arg] *)
Definition conv_arg (a : arg) : bool :=
  negb (a_hyphen a) && negb (a_negnum a) && negb (a_req_eq a) && negb (is_some (a_term a))
  && negb (a_last a) && negb (a_tva a).
Definition low_index_multiple : bool :=
  existsb (fun a => a_is_multiple a && negb (positional_count c =? opt_default 0 (a_index a))) (positionals c).
Definition conv : bool :=
  assert_app c && negb (is_set s_sub_precedence c) && forallb conv_arg (c_args c)
  && negb (is_set s_allow_missing_pos c) && negb low_index_multiple.

(** a token that is not recognised as a subcommand name, whatever was seen before *)
Definition nosub (tok : bytes) : bool :=
  negb (is_some (possible_subcommand c tok false)) && negb (is_some (possible_subcommand c tok true)).
(** a long name as it is typed: non-empty, UTF-8, no [=] *)
Definition name_ok (n : bytes) : bool := negb (is_nil n) && utf8_valid n && negb (mem_n EQ n).
(** a short name as it is typed: any character (Unicode scalar value) except [-] *)
Definition scalar (ch : N) : bool := (ch <? 1114112) && negb ((55296 <=? ch) && (ch <? 57344)).
Definition short_ok (ch : N) : bool := scalar ch && negb (ch =? DASH).
(** a token that is taken as a value, not as [--], a long or a short flag *)
Definition value_ok (v : bytes) : bool :=
  negb (is_escape v) && negb (is_some (to_long v)) && negb (is_some (to_short v)).
(** the number of separate values an option occurrence may carry *)
Definition count_ok (a : arg) (k : nat) : bool :=
  match a_num a with Some r => N.of_nat k <=? vmax r | None => false end.

Definition is_flag (o : option arg) : bool := match o with Some a => negb (a_takes_value a) | None => false end.
Definition is_opt (o : option arg) : bool := match o with Some a => a_takes_value a | None => false end.
Definition sep_ok (o : option arg) (vs : list bytes) : bool :=
  match o with Some a => a_takes_value a && count_ok a (length vs) && forallb value_ok vs | None => false end.

Definition wf_tail (t : ctail) : bool :=
  match t with
  | TNone => true
  | TAtt o v => short_ok o && is_opt (get_short c o) && negb (is_nil v) && negb (hd 0 v =? EQ)
  | TEq o v => short_ok o && is_opt (get_short c o)
  | TSep o vs => short_ok o && sep_ok (get_short c o) vs
  end.
(** a run of positional values: the counter points at a positional; the run does not follow an
    option that is still open, nor (maximality) a run of the same multi-valued positional; a
    positional that takes one value per occurrence gets one *)
Definition pos_ok (pst : pstate_t) (o : option arg) (vs : list bytes) : bool :=
  match o with
  | Some a => negb (is_nil vs) && forallb value_ok vs
              && (a_multiple_values a || (length vs =? 1)%nat)
              && match pst with PSValuesDone => true | PSOpt _ => false | PSPos _ => negb (a_multiple_values a) end
  | None => false
  end.
Definition wf_item (pst : pstate_t) (pos : N) (it : item) : bool :=
  forallb nosub (firstn 1 (render_item it)) &&
  match it with
  | ItLong n => name_ok n && is_flag (get_long c n)
  | ItLongEq n v => name_ok n && is_opt (get_long c n)
  | ItLongSep n vs => name_ok n && sep_ok (get_long c n) vs
  | ItCluster fl t =>
      forallb (fun ch => short_ok ch && is_flag (get_short c ch)) fl && wf_tail t
      && negb (is_nil fl && match t with TNone => true | _ => false end)
  | ItPos vs => pos_ok pst (get_pos c pos) vs
  end.
Fixpoint wf_items (pst : pstate_t) (pos : N) (its : list item) : bool :=
  match its with
  | [] => true
  | it :: t => wf_item pst pos it && wf_items (item_pst pos it) (item_pos pos it) t
  end.

End Sem.
